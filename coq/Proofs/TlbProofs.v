(* compile_correct: running the decision tree [compile L] on the encoding of a well-typed value of the
   layout L returns that value and leaves exactly what followed the encoding.
   Plus the computational checks impl_<T> = compile spec_<T> tying the generated trees of Gen/TlbImpl.v
   (what the library does) to the layouts of Spec/BlockTlb.v (what block.tlb says). *)
From Coq Require Import NArith ZArith List Bool String Lia ZifyBool ZifyNat ZifyN.
From PTQ Require Import Base.Result Base.Bytes Base.Bits Model.Cell Model.Builder Model.Hashmap Model.Dtree
  Spec.TlbPrim Spec.TlbVal Proofs.BuilderRT Spec.Tlb.
Import ListNotations.
Local Open Scope nat_scope.

(* ------------------------------------------------------------------------------------------------ *)
(* Sub-slice bookkeeping                                                                             *)
(* ------------------------------------------------------------------------------------------------ *)

Lemma get_set_same ss : forall sid s, get_slice (set_slice ss sid s) sid = Ok s.
Proof.
  induction ss as [|[i x] r IH]; intros sid s; cbn [set_slice get_slice].
  - rewrite Nat.eqb_refl. reflexivity.
  - destruct (Nat.eqb_spec i sid) as [E|E]; cbn [get_slice].
    + subst. rewrite Nat.eqb_refl. reflexivity.
    + destruct (Nat.eqb_spec i sid) as [E'|_]; [contradiction|]. apply IH.
Qed.

Lemma get_set_other ss : forall sid j s, j <> sid -> get_slice (set_slice ss sid s) j = get_slice ss j.
Proof.
  induction ss as [|[i x] r IH]; intros sid j s Hne; cbn [set_slice get_slice].
  - destruct (Nat.eqb_spec sid j) as [E|_]; [congruence|reflexivity].
  - destruct (Nat.eqb_spec i sid) as [E|E]; cbn [get_slice].
    + subst. destruct (Nat.eqb_spec sid j) as [E'|_]; [congruence|reflexivity].
    + destruct (Nat.eqb_spec i j) as [_|_]; [reflexivity|]. apply IH. exact Hne.
Qed.

(* ------------------------------------------------------------------------------------------------ *)
(* Attribute lists in name order                                                                     *)
(* ------------------------------------------------------------------------------------------------ *)

Lemma insert_map {A B} (g : A -> B) (p : string * A) l :
  insert_by_name (fst p, g (snd p)) (map (fun q => (fst q, g (snd q))) l)
  = map (fun q => (fst q, g (snd q))) (insert_by_name p l).
Proof.
  induction l as [|q r IH]; [reflexivity|].
  cbn [map insert_by_name fst]. destruct (String.leb (fst p) (fst q)); cbn [map]; [reflexivity|].
  rewrite IH. reflexivity.
Qed.

Lemma sort_map {A B} (g : A -> B) l :
  sort_by_name (map (fun q => (fst q, g (snd q))) l) = map (fun q => (fst q, g (snd q))) (sort_by_name l).
Proof.
  induction l as [|p r IH]; [reflexivity|].
  cbn [map sort_by_name]. rewrite IH. apply (insert_map g p).
Qed.

Lemma sort_names_fst {A} (l : list (string * A)) : map fst (sort_by_name l) = sort_names (map fst l).
Proof.
  unfold sort_names. rewrite map_map.
  rewrite (sort_map (fun _ => tt) l). rewrite map_map. reflexivity.
Qed.

Lemma insert_Forall {A} (P : string * A -> Prop) p l : P p -> Forall P l -> Forall P (insert_by_name p l).
Proof.
  intros Hp Hl. induction Hl as [|q r Hq Hr IH]; cbn [insert_by_name]; [constructor; [exact Hp|constructor]|].
  destruct (String.leb (fst p) (fst q)); repeat constructor; assumption.
Qed.

Lemma sort_Forall {A} (P : string * A -> Prop) l : Forall P l -> Forall P (sort_by_name l).
Proof.
  induction 1 as [|p r Hp Hr IH]; cbn [sort_by_name]; [constructor|]. apply insert_Forall; assumption.
Qed.

(* ------------------------------------------------------------------------------------------------ *)
(* Single steps of [run]                                                                             *)
(* ------------------------------------------------------------------------------------------------ *)

(* the loads that touch one slice only *)
Definition prim_load (o : dop) (s : slice) : result (pv * slice) :=
  match o with
  | OUint n => lift PInt (s_load_uint s n)
  | OInt n => lift PInt (s_load_int s n)
  | OBit | OBool => lift PBool (s_load_bit s)
  | OBits n => lift PBits (s_load_bits s n)
  | OBytes n => lift PBytes (s_load_bytes s n)
  | OCoins => lift PInt (s_load_coins s)
  | OVarUint k => lift PInt (s_load_var_uint s k)
  | OVarInt k => lift PInt (s_load_var_int s k)
  | OAddr => lift PAddr (s_load_address s)
  | ORefCell => lift PCell (s_load_ref s)
  | OMaybeRefCell =>
      lift (fun oc => match oc with Some c => PCell c | None => PNone end) (s_load_maybe_ref s)
  | _ => Err EOther
  end.

Section Steps.
  Variable tbl : table.

  Lemma run_prim fuel sid o k ss env w ts v s' :
    1 <= fuel -> get_slice ss sid = Ok ts -> prim_load o (ts_s ts) = Ok (v, s') ->
    run tbl fuel (DOp sid o k) ss env w
    = run tbl (fuel - 1) k (set_slice ss sid (mkTS (ts_ty ts) s')) (env ++ [v]) (w ++ [op_width o]).
  Proof.
    intros Hfuel Hget Hload. destruct fuel as [|f]; [lia|].
    replace (S f - 1) with f by lia. cbn [run]. rewrite Hget. cbn [bind].
    destruct o; cbn [prim_load] in Hload; try discriminate; rewrite Hload; reflexivity.
  Qed.

  Lemma run_if fuel var bit t0 t1 ss env w (b : bool) :
    1 <= fuel -> nth bit (bits_of_pv (nth var env PNone) (nth var w 1)) false = b ->
    run tbl fuel (DIf var bit t0 t1) ss env w = run tbl (fuel - 1) (if b then t1 else t0) ss env w.
  Proof.
    intros Hfuel Hb. destruct fuel as [|f]; [lia|].
    replace (S f - 1) with f by lia. cbn [run]. rewrite Hb. destruct b; reflexivity.
  Qed.

  Lemma run_ret fuel e ss env w :
    1 <= fuel ->
    run tbl fuel (DRet e) ss env w
    = Ok (eval e env (match get_slice ss 0 with Ok s => PSlice (ts_s s) | Err _ => PNone end), ss).
  Proof. intros Hfuel. destruct fuel as [|f]; [lia|]. reflexivity. Qed.

  Lemma run_ref fuel sid nsid k ss env w ts c s' :
    1 <= fuel -> get_slice ss sid = Ok ts -> s_load_ref (ts_s ts) = Ok (c, s') ->
    run tbl fuel (DOp sid (ORef nsid) k) ss env w
    = run tbl (fuel - 1) k (set_slice (set_slice ss sid (mkTS (ts_ty ts) s')) nsid (cell_slice c))
        (env ++ [PCell c]) (w ++ [1]).
  Proof.
    intros Hfuel Hget Hload. destruct fuel as [|f]; [lia|].
    replace (S f - 1) with f by lia. cbn [run]. rewrite Hget. cbn [bind]. rewrite Hload. reflexivity.
  Qed.

  Lemma run_call fuel sid T a k ss env w ts d v ss1 ts' :
    1 <= fuel -> get_slice ss sid = Ok ts -> lookup tbl T a = Some d ->
    run tbl (fuel - 1) d [(0, ts)] [] [] = Ok (v, ss1) -> get_slice ss1 0 = Ok ts' ->
    run tbl fuel (DOp sid (OCall T a) k) ss env w
    = run tbl (fuel - 1) k (set_slice ss sid ts') (env ++ [v]) (w ++ [1]).
  Proof.
    intros Hfuel Hget Hlk Hrun Hget1. destruct fuel as [|f]; [lia|].
    replace (S f - 1) with f in * by lia. cbn [run]. rewrite Hget. cbn [bind]. rewrite Hlk, Hrun.
    cbn [bind]. rewrite Hget1. reflexivity.
  Qed.

  Lemma run_dict_empty fuel sid n vt k ss env w ts s' :
    1 <= fuel -> get_slice ss sid = Ok ts -> s_load_dict (ts_s ts) (Z.of_nat n) = Ok (None, s') ->
    run tbl fuel (DOp sid (ODict n vt) k) ss env w
    = run tbl (fuel - 1) k (set_slice ss sid (mkTS (ts_ty ts) s')) (env ++ [PNone]) (w ++ [1]).
  Proof.
    intros Hfuel Hget Hload. destruct fuel as [|f]; [lia|].
    replace (S f - 1) with f by lia. cbn [run]. rewrite Hget. cbn [bind]. rewrite Hload. reflexivity.
  Qed.
End Steps.

(* ------------------------------------------------------------------------------------------------ *)
(* Primitive fields: the op, the loaded value, the attribute expression                               *)
(* ------------------------------------------------------------------------------------------------ *)

Definition fty_op (f : fty) : option dop :=
  match f with
  | FUint w => Some (OUint w)
  | FUintLe m => Some (OUint (le_bits m))
  | FUintLt m => Some (OUint (lt_bits m))
  | FInt w => Some (OInt w)
  | FBool => Some OBool
  | FBit => Some OBit
  | FBits w => Some (OBits w)
  | FBytes w | FBytesHex w => Some (OBytes w)
  | FCoins => Some OCoins
  | FVarUint m => Some (OVarUint (lt_bits m))
  | FVarInt m => Some (OVarInt (lt_bits m))
  | FAddr | FAddrInt | FAddrExt => Some OAddr
  | FCell => Some ORefCell
  | _ => None
  end.
Definition fty_raw (f : fty) (x : pv) : pv :=
  match f, x with FBytesHex _, PHex bs => PBytes bs | _, _ => x end.
Definition fty_expr (f : fty) (n : nat) : dexpr :=
  match f with FBytesHex _ => EHex (EVar n) | _ => EVar n end.

Lemma compile_prim f o nm sid n ns acc k : fty_op f = Some o ->
  compile_field f nm sid n ns acc k = DOp sid o (k (S n) ns (acc ++ [(nm, fty_expr f n)])).
Proof. destruct f; cbn [fty_op]; intros H; inversion H; reflexivity. Qed.

Lemma bitlen_spec M : (0 < M)%Z -> 1 <= bitlen M /\ (M < 2 ^ Z.of_nat (bitlen M))%Z.
Proof.
  intros HM. unfold bitlen. destruct (Z.leb_spec M 0) as [|_]; [lia|].
  pose proof (Z.log2_nonneg M). pose proof (Z.log2_spec M HM) as [_ Hhi].
  split; [lia|]. rewrite Z2Nat.id by lia. replace (Z.log2 M + 1)%Z with (Z.succ (Z.log2 M)) by lia. exact Hhi.
Qed.

Lemma in_uint_le_bits m z : 1 <= m -> (0 <= z <= Z.of_nat m)%Z ->
  1 <= le_bits m /\ in_uint (Z.of_nat (le_bits m)) z = true.
Proof.
  intros Hm Hz. unfold le_bits. destruct (bitlen_spec (Z.of_nat m)) as [H1 H2]; [lia|].
  split; [exact H1|]. apply in_uint_iff. lia.
Qed.

Lemma in_uint_lt_bits m z : 2 <= m -> (0 <= z < Z.of_nat m)%Z ->
  1 <= lt_bits m /\ in_uint (Z.of_nat (lt_bits m)) z = true.
Proof.
  intros Hm Hz. unfold lt_bits. destruct (bitlen_spec (Z.of_nat m - 1)) as [H1 H2]; [lia|].
  split; [exact H1|]. apply in_uint_iff. lia.
Qed.

Lemma load_var_uint_lt m v tb r : 2 <= m -> (0 <= v)%Z -> (ulen0 v < Z.of_nat m)%Z ->
  s_load_var false (mkS (enc_var m (ulen0 v) v ++ tb) r) (lt_bits m) = Ok (v, mkS tb r).
Proof.
  intros Hm Hv Hlen. destruct (bitlen_spec (Z.of_nat m - 1)) as [H1 H2]; [lia|]. fold (lt_bits m) in H1, H2.
  pose proof (load_var_uint_app (Z.of_nat (lt_bits m)) v tb r) as H. rewrite Nat2Z.id in H.
  apply H; lia.
Qed.

Lemma load_var_int_lt m v tb r : 2 <= m -> (slen0 v < Z.of_nat m)%Z ->
  s_load_var true (mkS (enc_var m (slen0 v) v ++ tb) r) (lt_bits m) = Ok (v, mkS tb r).
Proof.
  intros Hm Hlen. destruct (bitlen_spec (Z.of_nat m - 1)) as [H1 H2]; [lia|]. fold (lt_bits m) in H1, H2.
  pose proof (load_var_int_app (Z.of_nat (lt_bits m)) v tb r) as H. rewrite Nat2Z.id in H.
  apply H; lia.
Qed.

Lemma prim_field_load ety wty f o x bits refs tb tr :
  fty_op f = Some o -> wf_fty f = true -> wt_field wty f x -> enc_field ety f x = Ok (bits, refs) ->
  prim_load o (mkS (bits ++ tb) (refs ++ tr)) = Ok (fty_raw f x, mkS tb tr).
Proof.
  intros Hop Hwf Hwt Henc.
  destruct f; cbn [fty_op] in Hop; inversion Hop; subst o; clear Hop;
    cbn [wt_field] in Hwt; destruct x; try contradiction;
    cbn [enc_field ok_bits] in Henc; inversion Henc; subst bits refs; clear Henc;
    cbn [wf_fty] in Hwf; cbn [prim_load fty_raw app].
  - (* FUint *) rewrite load_uint_app_n by (lia || exact Hwt). reflexivity.
  - (* FUintLe *) destruct (in_uint_le_bits m z) as [H1 H2]; [lia|exact Hwt|].
    rewrite load_uint_app_n by assumption. reflexivity.
  - (* FUintLt *) destruct (in_uint_lt_bits m z) as [H1 H2]; [lia|exact Hwt|].
    rewrite load_uint_app_n by assumption. reflexivity.
  - (* FInt *) rewrite load_int_app_n by (lia || exact Hwt). reflexivity.
  - (* FBool *) reflexivity.
  - (* FBit *) reflexivity.
  - (* FBits *) subst n. rewrite load_bits_app. reflexivity.
  - (* FBytes *) destruct Hwt as [Hlen Hok].
    rewrite load_bytes_app by (congruence || apply bytes_okb_ok; exact Hok). reflexivity.
  - (* FBytesHex *) destruct Hwt as [Hlen Hok].
    rewrite load_bytes_app by (congruence || apply bytes_okb_ok; exact Hok). reflexivity.
  - (* FCoins *) destruct Hwt as [H0 Hlen]. unfold s_load_coins, s_load_var_uint.
    change 4 with (lt_bits 16). rewrite load_var_uint_lt by (lia || eassumption). reflexivity.
  - (* FVarUint *) destruct Hwt as [H0 Hlen]. unfold s_load_var_uint.
    rewrite load_var_uint_lt by (lia || eassumption). reflexivity.
  - (* FVarInt *) unfold s_load_var_int. rewrite load_var_int_lt by (lia || eassumption). reflexivity.
  - (* FAddr *) rewrite load_address_app by exact Hwt. reflexivity.
  - (* FAddrInt *) rewrite load_address_app by apply Hwt. reflexivity.
  - (* FAddrExt *) rewrite load_address_app by apply Hwt. reflexivity.
  - (* FCell *) reflexivity.
Qed.

Lemma prim_field_eval wty f o x n env more leaf :
  fty_op f = Some o -> wt_field wty f x -> List.length env = n ->
  eval (fty_expr f n) (env ++ [fty_raw f x] ++ more) leaf = x.
Proof.
  intros Hop Hwt Hn. subst n.
  destruct f; cbn [fty_op] in Hop; try discriminate; cbn [fty_expr eval app];
    rewrite nth_middle; cbn [wt_field] in Hwt; destruct x; try contradiction; reflexivity.
Qed.

(* ------------------------------------------------------------------------------------------------ *)
(* Fields, items, constructors                                                                       *)
(* ------------------------------------------------------------------------------------------------ *)

Lemma need_prim nty f o : fty_op f = Some o -> need_field nty f = 1.
Proof. destruct f; cbn [fty_op need_field]; intros H; (discriminate || reflexivity). Qed.

Lemma maybe_cases (x : pv) : x = PNone \/ x <> PNone.
Proof. destruct x; (left; reflexivity) || (right; discriminate). Qed.

Lemma enc_maybe_some ety g x : x <> PNone ->
  enc_field ety (FMaybe g) x = bind (enc_field ety g x) (fun '(b, r) => Ok (true :: b, r)).
Proof. intros H. destruct x; (contradiction || reflexivity). Qed.

Lemma wt_maybe_some wty g x : x <> PNone -> wt_field wty (FMaybe g) x -> wt_field wty g x.
Proof. intros H. destruct x; (contradiction || (intros Hw; exact Hw)). Qed.

Section Correct.
  Variable tbl : table.
  Variable st : stable.
  Variable d : nat.

  (* what is assumed of the named types at nesting depth d *)
  Definition ty_ok : Prop :=
    forall T a x bits refs, wt_type st d T a x -> enc_type st d T a x = Ok (bits, refs) ->
      exists tree, lookup tbl T a = Some tree /\
        forall fuel ty tb tr, need_type st d T a <= fuel ->
          exists ss', run tbl fuel tree [(0, mkTS ty (mkS (bits ++ tb) (refs ++ tr)))] [] [] = Ok (x, ss')
                      /\ get_slice ss' 0 = Ok (mkTS ty (mkS tb tr)).
  Hypothesis Hty : ty_ok.

  (* the tree t, entered with n variables bound, reaches the continuation k having consumed exactly the
     encoding from sub-slice sid, with the attributes `names` bound to the values `look` gives them *)
  Definition post (t : dtree) (k : kont) (names : list string) (look : string -> pv)
      (sid n ns : nat) (acc : list (string * dexpr)) (ss : slices) (env : list pv) (w : list nat)
      (ty : Z) (tb : list bool) (tr : list cell) (fuel bound : nat) : Prop :=
    exists c ss' vals ws acc' ns',
      run tbl fuel t ss env w
      = run tbl (fuel - c) (k (n + List.length vals) ns' (acc ++ acc')) ss' (env ++ vals) (w ++ ws)
      /\ c <= bound
      /\ get_slice ss' sid = Ok (mkTS ty (mkS tb tr))
      /\ (forall j, j <> sid -> j < ns -> get_slice ss' j = get_slice ss j)
      /\ List.length ws = List.length vals /\ ns <= ns'
      /\ map fst acc' = names
      /\ Forall (fun p => forall more leaf, eval (snd p) (env ++ vals ++ more) leaf = look (fst p)) acc'.

  Lemma field_prim f o nm look bits refs :
    fty_op f = Some o ->
    wf_fty f = true -> wt_field (wt_type st d) f (look nm) ->
    enc_field (enc_type st d) f (look nm) = Ok (bits, refs) ->
    forall sid n ns acc k ss env w ty tb tr fuel,
      get_slice ss sid = Ok (mkTS ty (mkS (bits ++ tb) (refs ++ tr))) ->
      List.length env = n -> List.length w = n -> sid < ns -> need_field (need_type st d) f <= fuel ->
      post (compile_field f nm sid n ns acc k) k [nm] look sid n ns acc ss env w ty tb tr fuel
           (need_field (need_type st d) f).
  Proof.
    intros Hop Hwf Hwt Henc sid n ns acc k ss env w ty tb tr fuel Hget Hn Hw Hsid Hfuel.
    rewrite (need_prim _ f o Hop) in *. rewrite (compile_prim f o nm sid n ns acc k Hop).
    exists 1, (set_slice ss sid (mkTS ty (mkS tb tr))), [fty_raw f (look nm)], [op_width o],
           [(nm, fty_expr f n)], ns.
    split; [|split; [|split; [|split; [|split; [|split; [|split]]]]]].
    - rewrite (run_prim tbl fuel sid o _ ss env w _ _ _ Hfuel Hget
                 (prim_field_load _ _ f o _ bits refs tb tr Hop Hwf Hwt Henc)).
      cbn [ts_ty List.length]. replace (n + 1) with (S n) by lia. reflexivity.
    - lia.
    - apply get_set_same.
    - intros j Hj _. apply get_set_other. exact Hj.
    - reflexivity.
    - lia.
    - reflexivity.
    - constructor; [|constructor]. intros more leaf. cbn [fst snd].
      apply (prim_field_eval (wt_type st d) f o); assumption.
  Qed.

  Lemma field_correct : forall f nm look bits refs,
    wf_fty f = true -> wt_field (wt_type st d) f (look nm) ->
    enc_field (enc_type st d) f (look nm) = Ok (bits, refs) ->
    forall sid n ns acc k ss env w ty tb tr fuel,
      get_slice ss sid = Ok (mkTS ty (mkS (bits ++ tb) (refs ++ tr))) ->
      List.length env = n -> List.length w = n -> sid < ns -> need_field (need_type st d) f <= fuel ->
      post (compile_field f nm sid n ns acc k) k [nm] look sid n ns acc ss env w ty tb tr fuel
           (need_field (need_type st d) f).
  Proof.
    induction f as [w0|m0|m0|w0| | |w0|w0|w0| |m0|m0| | | | | |T a|T a|g IH|dn vf _];
      intros nm look bits refs Hwf Hwt Henc sid n ns acc k ss env w ty tb tr fuel Hget Hn Hw Hsid Hfuel;
      try (solve [eapply field_prim; [reflexivity|eassumption..]]).
    - (* FMaybeCell *)
      cbn [need_field] in *. cbn [compile_field]. cbn [wt_field] in Hwt. cbn [enc_field ok_bits] in Henc.
      destruct (look nm) eqn:Hx; try contradiction; inversion Henc; subst bits refs; clear Henc.
      + exists 2, (set_slice ss sid (mkTS ty (mkS tb tr))), [PNone], [1], [(nm, ENone)], ns.
        split; [|split; [|split; [|split; [|split; [|split; [|split]]]]]].
        * rewrite (run_prim tbl fuel sid OMaybeRefCell _ ss env w _ PNone (mkS tb tr)) by (lia || eassumption || reflexivity).
          rewrite (run_if tbl _ n 0 _ _ _ _ _ false);
            [|lia|rewrite <- Hn, nth_middle; reflexivity].
          cbn [ts_ty List.length]. replace (n + 1) with (S n) by lia.
          replace (fuel - 1 - 1) with (fuel - 2) by lia. reflexivity.
        * lia.
        * apply get_set_same.
        * intros j Hj _. apply get_set_other. exact Hj.
        * reflexivity.
        * lia.
        * reflexivity.
        * constructor; [|constructor]. intros more leaf. cbn [fst snd eval]. symmetry. exact Hx.
      + exists 2, (set_slice ss sid (mkTS ty (mkS tb tr))), [PCell c], [1], [(nm, EVar n)], ns.
        split; [|split; [|split; [|split; [|split; [|split; [|split]]]]]].
        * rewrite (run_prim tbl fuel sid OMaybeRefCell _ ss env w _ (PCell c) (mkS tb tr)) by (lia || eassumption || reflexivity).
          rewrite (run_if tbl _ n 0 _ _ _ _ _ true);
            [|lia|rewrite <- Hn, nth_middle; reflexivity].
          cbn [ts_ty List.length]. replace (n + 1) with (S n) by lia.
          replace (fuel - 1 - 1) with (fuel - 2) by lia. reflexivity.
        * lia.
        * apply get_set_same.
        * intros j Hj _. apply get_set_other. exact Hj.
        * reflexivity.
        * lia.
        * reflexivity.
        * constructor; [|constructor]. intros more leaf. cbn [fst snd eval app]. subst n.
          rewrite nth_middle. symmetry. exact Hx.
    - (* FType *)
      cbn [need_field] in *. cbn [compile_field]. cbn [wt_field] in Hwt. cbn [enc_field] in Henc.
      destruct (Hty T a (look nm) bits refs Hwt Henc) as (tree & Hlk & Hrun).
      destruct (Hrun (fuel - 1) ty tb tr) as (ss1 & Hrun1 & Hget1); [lia|].
      exists 1, (set_slice ss sid (mkTS ty (mkS tb tr))), [look nm], [1], [(nm, EVar n)], ns.
      split; [|split; [|split; [|split; [|split; [|split; [|split]]]]]].
      + rewrite (run_call tbl fuel sid T a _ ss env w _ tree (look nm) ss1 _) by (lia || eassumption).
        cbn [List.length]. replace (n + 1) with (S n) by lia. reflexivity.
      + lia.
      + apply get_set_same.
      + intros j Hj _. apply get_set_other. exact Hj.
      + reflexivity.
      + lia.
      + reflexivity.
      + constructor; [|constructor]. intros more leaf. cbn [fst snd eval app]. subst n.
        rewrite nth_middle. reflexivity.
    - (* FRefType *)
      cbn [need_field] in *. cbn [compile_field]. cbn [wt_field] in Hwt. cbn [enc_field] in Henc.
      destruct (enc_type st d T a (look nm)) as [[b r]|e] eqn:Hinner; cbn [bind] in Henc; [|discriminate].
      inversion Henc; subst bits refs; clear Henc.
      destruct (Hty T a (look nm) b r Hwt Hinner) as (tree & Hlk & Hrun).
      destruct (Hrun (fuel - 1 - 1) ty_ordinary [] []) as (ss1 & Hrun1 & Hget1); [lia|].
      rewrite !app_nil_r in Hrun1.
      set (ssA := set_slice (set_slice ss sid (mkTS ty (mkS tb tr))) ns (mkTS ty_ordinary (mkS b r))).
      exists 2, (set_slice ssA ns (mkTS ty_ordinary (mkS [] []))),
             [PCell (Cell ty_ordinary b r); look nm], [1; 1], [(nm, EVar (S n))], (S ns).
      split; [|split; [|split; [|split; [|split; [|split; [|split]]]]]].
      + rewrite (run_ref tbl fuel sid ns _ ss env w _ (Cell ty_ordinary b r) (mkS tb tr))
          by (lia || eassumption || reflexivity).
        cbn [ts_ty cell_slice]. fold ssA.
        rewrite (run_call tbl (fuel - 1) ns T a _ ssA _ _ (mkTS ty_ordinary (mkS b r)) tree (look nm) ss1
                   (mkTS ty_ordinary (mkS [] []))); [|lia|apply get_set_same|assumption|assumption|assumption].
        rewrite <- !app_assoc. cbn [List.length app].
        replace (n + 2) with (S (S n)) by lia. replace (fuel - 1 - 1) with (fuel - 2) by lia. reflexivity.
      + lia.
      + rewrite get_set_other by lia. unfold ssA. rewrite get_set_other by lia. apply get_set_same.
      + intros j Hj Hlt. rewrite get_set_other by lia. unfold ssA. rewrite get_set_other by lia.
        apply get_set_other. exact Hj.
      + reflexivity.
      + lia.
      + reflexivity.
      + constructor; [|constructor]. intros more leaf. cbn [fst snd eval app]. subst n.
        change (PCell (Cell ty_ordinary b r) :: look nm :: more)
          with ([PCell (Cell ty_ordinary b r)] ++ look nm :: more).
        rewrite app_assoc. replace (S (List.length env)) with (List.length (env ++ [PCell (Cell ty_ordinary b r)]))
          by (rewrite app_length; cbn; lia).
        rewrite nth_middle. reflexivity.
    - (* FMaybe *)
      cbn [need_field] in *. cbn [compile_field]. cbn [wf_fty] in Hwf.
      destruct (maybe_cases (look nm)) as [Hx|Hx].
      + rewrite Hx in Henc. cbn [enc_field ok_bits] in Henc. inversion Henc; subst bits refs; clear Henc.
        exists 2, (set_slice ss sid (mkTS ty (mkS tb tr))), [PBool false], [1], [(nm, ENone)], ns.
        split; [|split; [|split; [|split; [|split; [|split; [|split]]]]]].
        * rewrite (run_prim tbl fuel sid OBit _ ss env w _ (PBool false) (mkS tb tr)) by (lia || eassumption || reflexivity).
          rewrite (run_if tbl _ n 0 _ _ _ _ _ false);
            [|lia|rewrite <- Hn, nth_middle; reflexivity].
          cbn [ts_ty List.length]. replace (n + 1) with (S n) by lia.
          replace (fuel - 1 - 1) with (fuel - 2) by lia. reflexivity.
        * lia.
        * apply get_set_same.
        * intros j Hj _. apply get_set_other. exact Hj.
        * reflexivity.
        * lia.
        * reflexivity.
        * constructor; [|constructor]. intros more leaf. cbn [fst snd eval]. symmetry. exact Hx.
      + rewrite (enc_maybe_some _ g _ Hx) in Henc.
        destruct (enc_field (enc_type st d) g (look nm)) as [[b r]|e] eqn:Hinner; cbn [bind] in Henc; [|discriminate].
        inversion Henc; subst bits refs; clear Henc.
        pose proof (wt_maybe_some _ g _ Hx Hwt) as Hwt'.
        set (ssA := set_slice ss sid (mkTS ty (mkS (b ++ tb) (r ++ tr)))).
        destruct (IH nm look b r Hwf Hwt' Hinner sid (S n) ns acc k ssA (env ++ [PBool true]) (w ++ [1])
                     ty tb tr (fuel - 1 - 1)) as (c & ss' & vals & ws & acc' & ns' & Hrun & Hc & Hg & Hfr & Hlen & Hns & Hnames & Hev).
        { apply get_set_same. }
        { rewrite app_length. cbn. lia. }
        { rewrite app_length. cbn. lia. }
        { exact Hsid. }
        { lia. }
        exists (2 + c), ss', (PBool true :: vals), (1 :: ws), acc', ns'.
        split; [|split; [|split; [|split; [|split; [|split; [|split]]]]]].
        * rewrite (run_prim tbl fuel sid OBit _ ss env w _ (PBool true) (mkS (b ++ tb) (r ++ tr)))
            by (lia || eassumption || reflexivity).
          rewrite (run_if tbl _ n 0 _ _ _ _ _ true);
            [|lia|rewrite <- Hn, nth_middle; reflexivity].
          cbn [ts_ty op_width]. fold ssA. rewrite Hrun. rewrite <- !app_assoc. cbn [List.length app].
          replace (S n + List.length vals) with (n + S (List.length vals)) by lia.
          replace (fuel - 1 - 1 - c) with (fuel - (2 + c)) by lia. reflexivity.
        * lia.
        * exact Hg.
        * intros j Hj Hlt. rewrite (Hfr j Hj Hlt). unfold ssA. apply get_set_other. exact Hj.
        * cbn [List.length]. lia.
        * exact Hns.
        * exact Hnames.
        * eapply Forall_impl; [|exact Hev]. intros p Hp more leaf. cbn beta in Hp.
          rewrite <- (Hp more leaf). rewrite <- !app_assoc. reflexivity.
    - (* FDict: only the empty dictionary *)
      cbn [need_field] in *. cbn [compile_field]. cbn [wt_field] in Hwt. rewrite Hwt in Henc.
      cbn [enc_field ok_bits] in Henc. inversion Henc; subst bits refs; clear Henc.
      exists 2, (set_slice ss sid (mkTS ty (mkS tb tr))), [PNone], [1], [(nm, ENone)], ns.
      split; [|split; [|split; [|split; [|split; [|split; [|split]]]]]].
      + rewrite (run_dict_empty tbl fuel sid dn _ _ ss env w _ (mkS tb tr)) by (lia || eassumption || reflexivity).
        rewrite (run_if tbl _ n 0 _ _ _ _ _ false);
          [|lia|rewrite <- Hn, nth_middle; reflexivity].
        cbn [ts_ty List.length]. replace (n + 1) with (S n) by lia.
        replace (fuel - 1 - 1) with (fuel - 2) by lia. reflexivity.
      + lia.
      + apply get_set_same.
      + intros j Hj _. apply get_set_other. exact Hj.
      + reflexivity.
      + lia.
      + reflexivity.
      + constructor; [|constructor]. intros more leaf. cbn [fst snd eval]. symmetry. exact Hwt.
  Qed.

  (* sequencing two segments read from the same sub-slice *)
  Lemma post_seq t1 k1 k names1 names2 look sid n ns acc ss env w ty tb1 tr1 tb tr fuel b1 b2 :
    post t1 k1 names1 look sid n ns acc ss env w ty tb1 tr1 fuel b1 ->
    (forall c ss1 vals1 ws1 acc1 ns1,
        c <= b1 -> get_slice ss1 sid = Ok (mkTS ty (mkS tb1 tr1)) ->
        List.length ws1 = List.length vals1 -> ns <= ns1 ->
        post (k1 (n + List.length vals1) ns1 (acc ++ acc1)) k names2 look sid (n + List.length vals1) ns1
             (acc ++ acc1) ss1 (env ++ vals1) (w ++ ws1) ty tb tr (fuel - c) b2) ->
    post t1 k (names1 ++ names2) look sid n ns acc ss env w ty tb tr fuel (b1 + b2).
  Proof.
    intros (c1 & ss1 & vals1 & ws1 & acc1 & ns1 & Hrun1 & Hc1 & Hg1 & Hfr1 & Hlen1 & Hns1 & Hnm1 & Hev1) H2.
    destruct (H2 c1 ss1 vals1 ws1 acc1 ns1 Hc1 Hg1 Hlen1 Hns1)
      as (c2 & ss2 & vals2 & ws2 & acc2 & ns2 & Hrun2 & Hc2 & Hg2 & Hfr2 & Hlen2 & Hns2 & Hnm2 & Hev2).
    exists (c1 + c2), ss2, (vals1 ++ vals2), (ws1 ++ ws2), (acc1 ++ acc2), ns2.
    split; [|split; [|split; [|split; [|split; [|split; [|split]]]]]].
    - rewrite Hrun1, Hrun2. rewrite <- !app_assoc. rewrite app_length.
      replace (n + List.length vals1 + List.length vals2) with (n + (List.length vals1 + List.length vals2)) by lia.
      replace (fuel - c1 - c2) with (fuel - (c1 + c2)) by lia. reflexivity.
    - lia.
    - exact Hg2.
    - intros j Hj Hlt. rewrite (Hfr2 j Hj) by lia. apply Hfr1; assumption.
    - rewrite !app_length. lia.
    - lia.
    - rewrite map_app. congruence.
    - apply Forall_app. split.
      + eapply Forall_impl; [|exact Hev1]. intros p Hp more leaf. cbn beta in Hp.
        rewrite <- (Hp (vals2 ++ more) leaf). rewrite <- !app_assoc. reflexivity.
      + eapply Forall_impl; [|exact Hev2]. intros p Hp more leaf. cbn beta in Hp.
        rewrite <- (Hp more leaf). rewrite <- !app_assoc. reflexivity.
  Qed.

  Lemma post_nil k look sid n ns acc ss env w ty tb tr fuel :
    get_slice ss sid = Ok (mkTS ty (mkS tb tr)) ->
    post (k n ns acc) k [] look sid n ns acc ss env w ty tb tr fuel 0.
  Proof.
    intros Hget. exists 0, ss, [], [], [], ns.
    split; [|split; [|split; [|split; [|split; [|split; [|split]]]]]];
      try (reflexivity || lia || assumption || constructor).
    cbn [List.length]. rewrite !app_nil_r, Nat.add_0_r, Nat.sub_0_r. reflexivity.
  Qed.

  Lemma fields_correct : forall fs look bits refs,
    forallb (fun p => wf_fty (snd p)) fs = true -> wt_fields (wt_type st d) look fs ->
    enc_fields (enc_type st d) look fs = Ok (bits, refs) ->
    forall sid n ns acc k ss env w ty tb tr fuel,
      get_slice ss sid = Ok (mkTS ty (mkS (bits ++ tb) (refs ++ tr))) ->
      List.length env = n -> List.length w = n -> sid < ns -> need_fields (need_type st d) fs <= fuel ->
      post (compile_fields fs sid n ns acc k) k (map fst fs) look sid n ns acc ss env w ty tb tr fuel
           (need_fields (need_type st d) fs).
  Proof.
    induction fs as [|[nm f] r IH];
      intros look bits refs Hwf Hwt Henc sid n ns acc k ss env w ty tb tr fuel Hget Hn Hw Hsid Hfuel.
    - cbn [enc_fields] in Henc. inversion Henc; subst bits refs.
      cbn [compile_fields map need_fields fold_right]. apply post_nil. exact Hget.
    - cbn [enc_fields] in Henc. cbn [forallb snd] in Hwf. apply andb_prop in Hwf. destruct Hwf as [Hwf1 Hwf2].
      cbn [wt_fields] in Hwt. destruct Hwt as [Hwt1 Hwt2].
      destruct (enc_field (enc_type st d) f (look nm)) as [[b1 r1]|e] eqn:H1; cbn [bind] in Henc; [|discriminate].
      destruct (enc_fields (enc_type st d) look r) as [[b2 r2]|e] eqn:H2; cbn [bind] in Henc; [|discriminate].
      inversion Henc; subst bits refs; clear Henc. rewrite <- !app_assoc in Hget.
      cbn [compile_fields map fst]. change (nm :: map fst r) with ([nm] ++ map fst r).
      change (need_fields (need_type st d) ((nm, f) :: r))
        with (need_field (need_type st d) f + need_fields (need_type st d) r) in *.
      eapply post_seq.
      + eapply field_correct; try eassumption. lia.
      + intros c ss1 vals1 ws1 acc1 ns1 Hc Hg1 Hlen1 Hns1.
        eapply IH; try eassumption; try (rewrite app_length; lia); lia.
  Qed.

  Lemma list_beq_eq a : forall b, list_beq a b = true -> a = b.
  Proof.
    induction a as [|x a IH]; intros [|y b] H; cbn [list_beq] in H; try discriminate; [reflexivity|].
    apply andb_prop in H. destruct H as [H1 H2]. apply eqb_prop in H1. subst y. f_equal. apply IH. exact H2.
  Qed.

  Lemma load_uint_raw bits tb r n : bits <> [] -> List.length bits = n ->
    s_load_uint (mkS (bits ++ tb) r) n = Ok (Z.of_N (of_bits bits), mkS tb r).
  Proof.
    intros Hne Hlen. unfold s_load_uint, s_preload_uint. cbn [s_bits].
    rewrite firstn_app_exact by exact Hlen. unfold ba2int. destruct bits as [|x bits]; [contradiction|].
    cbn [bind]. rewrite s_skip_app by exact Hlen. reflexivity.
  Qed.

  (* a run of constant bits read at once: what the bit tests see is what was encoded *)
  Lemma chunk_load c bits k sid ss env w ty tb tr fuel :
    chunk_ok c bits = true -> get_slice ss sid = Ok (mkTS ty (mkS (bits ++ tb) tr)) -> 1 <= fuel ->
    exists val,
      run tbl fuel (DOp sid (chunk_op c) k) ss env w
      = run tbl (fuel - 1) k (set_slice ss sid (mkTS ty (mkS tb tr))) (env ++ [val]) (w ++ [chunk_width c])
      /\ bits_of_pv val (chunk_width c) = bits.
  Proof.
    unfold chunk_ok. intros Hok Hget Hfuel.
    apply andb_prop in Hok. destruct Hok as [Hok Hview]. apply andb_prop in Hok. destruct Hok as [Hw1 Hlen].
    apply list_beq_eq in Hview. apply Nat.leb_le in Hw1. apply Nat.eqb_eq in Hlen.
    destruct c as [n|n|k0]; cbn [chunk_op chunk_width chunk_view] in *.
    - exists (PBits bits). split; [|reflexivity].
      rewrite (run_prim tbl fuel sid (OBits n) k ss env w _ (PBits bits) (mkS tb tr) Hfuel Hget).
      + reflexivity.
      + cbn [prim_load ts_s]. subst n. rewrite load_bits_app. reflexivity.
    - exists (PInt (Z.of_N (of_bits bits))). split.
      + rewrite (run_prim tbl fuel sid (OUint n) k ss env w _ (PInt (Z.of_N (of_bits bits))) (mkS tb tr) Hfuel Hget).
        * reflexivity.
        * cbn [prim_load ts_s]. rewrite load_uint_raw; [reflexivity| |exact Hlen].
          intros ->. cbn in Hlen. lia.
      + cbn [bits_of_pv]. rewrite N2Z.id. exact Hview.
    - exists (PBytes (bits_to_bytes bits)). split; [|exact Hview].
      rewrite (run_prim tbl fuel sid (OBytes k0) k ss env w _ (PBytes (bits_to_bytes bits)) (mkS tb tr) Hfuel Hget).
      + reflexivity.
      + cbn [prim_load ts_s]. unfold s_load_bytes, s_preload_bytes.
        rewrite s_skip_app by lia. cbn [bind s_bits]. rewrite firstn_app_exact by lia. reflexivity.
  Qed.

  Lemma check_bits_ok : forall bits pre v i t ss env w fuel,
    bits_of_pv (nth v env PNone) (nth v w 1) = pre ++ bits -> List.length pre = i ->
    List.length bits <= fuel ->
    run tbl fuel (check_bits v i bits t) ss env w = run tbl (fuel - List.length bits) t ss env w.
  Proof.
    induction bits as [|b r IH]; intros pre v i t ss env w fuel Hbits Hpre Hfuel.
    - cbn [check_bits List.length]. rewrite Nat.sub_0_r. reflexivity.
    - cbn [List.length] in *.
      assert (Hnth : nth i (bits_of_pv (nth v env PNone) (nth v w 1)) false = b).
      { rewrite Hbits. subst i. apply nth_middle. }
      assert (Hrec : run tbl (fuel - 1) (check_bits v (S i) r t) ss env w
                     = run tbl (fuel - S (List.length r)) t ss env w).
      { rewrite (IH (pre ++ [b]) v (S i) t ss env w (fuel - 1)).
        - f_equal. lia.
        - rewrite <- app_assoc. exact Hbits.
        - rewrite app_length. cbn. lia.
        - lia. }
      cbn [check_bits]. destruct b.
      + rewrite (run_if tbl fuel v i _ _ ss env w true) by (lia || exact Hnth). exact Hrec.
      + rewrite (run_if tbl fuel v i _ _ ss env w false) by (lia || exact Hnth). exact Hrec.
  Qed.

  Definition compile_item (it : item) (sid n ns : nat) (acc : list (string * dexpr)) (k1 : kont) : dtree :=
    match it with
    | INamed nm f => compile_field f nm sid n ns acc k1
    | IGroup fs => DOp sid (ORef ns) (compile_fields fs ns (S n) (S ns) acc k1)
    | IConst c bits => DOp sid (chunk_op c) (check_bits n 0 bits (k1 (S n) ns acc))
    end.

  Lemma compile_items_cons it r sid n ns acc k :
    compile_items (it :: r) sid n ns acc k
    = compile_item it sid n ns acc (fun n' ns' acc' => compile_items r sid n' ns' acc' k).
  Proof. destruct it; reflexivity. Qed.

  Lemma item_correct it look bits refs :
    wf_item it = true -> wt_item (wt_type st d) look it ->
    enc_item (enc_type st d) look it = Ok (bits, refs) ->
    forall sid n ns acc k ss env w ty tb tr fuel,
      get_slice ss sid = Ok (mkTS ty (mkS (bits ++ tb) (refs ++ tr))) ->
      List.length env = n -> List.length w = n -> sid < ns -> need_item (need_type st d) it <= fuel ->
      post (compile_item it sid n ns acc k) k (item_names it) look sid n ns acc ss env w ty tb tr fuel
           (need_item (need_type st d) it).
  Proof.
    intros Hwf Hwt Henc sid n ns acc k ss env w ty tb tr fuel Hget Hn Hw Hsid Hfuel.
    destruct it as [nm f|fs|c cbits]; cbn [wf_item wt_item enc_item compile_item item_names need_item] in *.
    - eapply field_correct; eassumption.
    - destruct (enc_fields (enc_type st d) look fs) as [[b r]|e] eqn:Hinner; cbn [bind] in Henc; [|discriminate].
      inversion Henc; subst bits refs; clear Henc.
      set (ssA := set_slice (set_slice ss sid (mkTS ty (mkS tb tr))) ns (mkTS ty_ordinary (mkS b r))).
      destruct (fields_correct fs look b r Hwf Hwt Hinner ns (S n) (S ns) acc k ssA
                  (env ++ [PCell (Cell ty_ordinary b r)]) (w ++ [1]) ty_ordinary [] [] (fuel - 1))
        as (c & ss' & vals & ws & acc' & ns' & Hrun & Hc & Hg & Hfr & Hlen & Hns & Hnames & Hev).
      { rewrite !app_nil_r. apply get_set_same. }
      { rewrite app_length. cbn. lia. }
      { rewrite app_length. cbn. lia. }
      { lia. }
      { lia. }
      exists (1 + c), ss', (PCell (Cell ty_ordinary b r) :: vals), (1 :: ws), acc', ns'.
      split; [|split; [|split; [|split; [|split; [|split; [|split]]]]]].
      + rewrite (run_ref tbl fuel sid ns _ ss env w _ (Cell ty_ordinary b r) (mkS tb tr))
          by (lia || eassumption || reflexivity).
        cbn [ts_ty cell_slice]. fold ssA. rewrite Hrun. rewrite <- !app_assoc. cbn [List.length app].
        replace (S n + List.length vals) with (n + S (List.length vals)) by lia.
        replace (fuel - 1 - c) with (fuel - (1 + c)) by lia. reflexivity.
      + lia.
      + rewrite Hfr by lia. unfold ssA. rewrite get_set_other by lia. apply get_set_same.
      + intros j Hj Hlt. rewrite Hfr by lia. unfold ssA. rewrite get_set_other by lia.
        apply get_set_other. exact Hj.
      + cbn [List.length]. lia.
      + lia.
      + exact Hnames.
      + eapply Forall_impl; [|exact Hev]. intros p Hp more leaf. cbn beta in Hp.
        rewrite <- (Hp more leaf). rewrite <- !app_assoc. reflexivity.
    - cbn [ok_bits] in Henc. inversion Henc; subst bits refs; clear Henc. cbn [app] in Hget.
      destruct (chunk_load c cbits (check_bits n 0 cbits (k (S n) ns acc)) sid ss env w ty tb tr fuel Hwf Hget)
        as (val & Hrun & Hview); [lia|].
      exists (S (List.length cbits)), (set_slice ss sid (mkTS ty (mkS tb tr))), [val], [chunk_width c], [], ns.
      split; [|split; [|split; [|split; [|split; [|split; [|split]]]]]].
      + rewrite Hrun. rewrite (check_bits_ok cbits [] n 0 _ _ (env ++ [val]) (w ++ [chunk_width c]) (fuel - 1)).
        * cbn [List.length]. rewrite app_nil_r. replace (n + 1) with (S n) by lia.
          replace (fuel - 1 - List.length cbits) with (fuel - S (List.length cbits)) by lia. reflexivity.
        * rewrite <- Hn at 1. rewrite <- Hw. rewrite !nth_middle. exact Hview.
        * reflexivity.
        * lia.
      + lia.
      + apply get_set_same.
      + intros j Hj _. apply get_set_other. exact Hj.
      + reflexivity.
      + lia.
      + reflexivity.
      + constructor.
  Qed.

  Lemma items_correct : forall its look bits refs,
    forallb wf_item its = true -> wt_items (wt_type st d) look its ->
    enc_items (enc_type st d) look its = Ok (bits, refs) ->
    forall sid n ns acc k ss env w ty tb tr fuel,
      get_slice ss sid = Ok (mkTS ty (mkS (bits ++ tb) (refs ++ tr))) ->
      List.length env = n -> List.length w = n -> sid < ns -> need_items (need_type st d) its <= fuel ->
      post (compile_items its sid n ns acc k) k (items_names its) look sid n ns acc ss env w ty tb tr fuel
           (need_items (need_type st d) its).
  Proof.
    induction its as [|it r IH];
      intros look bits refs Hwf Hwt Henc sid n ns acc k ss env w ty tb tr fuel Hget Hn Hw Hsid Hfuel.
    - cbn [enc_items] in Henc. inversion Henc; subst bits refs.
      cbn [compile_items items_names flat_map need_items fold_right]. apply post_nil. exact Hget.
    - cbn [enc_items] in Henc. cbn [forallb] in Hwf. apply andb_prop in Hwf. destruct Hwf as [Hwf1 Hwf2].
      cbn [wt_items] in Hwt. destruct Hwt as [Hwt1 Hwt2].
      destruct (enc_item (enc_type st d) look it) as [[b1 r1]|e] eqn:H1; cbn [bind] in Henc; [|discriminate].
      destruct (enc_items (enc_type st d) look r) as [[b2 r2]|e] eqn:H2; cbn [bind] in Henc; [|discriminate].
      inversion Henc; subst bits refs; clear Henc. rewrite <- !app_assoc in Hget.
      rewrite compile_items_cons.
      change (items_names (it :: r)) with (item_names it ++ items_names r).
      change (need_items (need_type st d) (it :: r))
        with (need_item (need_type st d) it + need_items (need_type st d) r) in *.
      eapply post_seq.
      + eapply item_correct; try eassumption. lia.
      + intros c ss1 vals1 ws1 acc1 ns1 Hc Hg1 Hlen1 Hns1.
        eapply IH; try eassumption; try (rewrite app_length; lia); lia.
  Qed.
End Correct.
