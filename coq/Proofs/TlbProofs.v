(* compile_correct: running the decision tree [compile L] on the encoding of a well-typed value of the
   layout L returns that value and leaves exactly what followed the encoding.
   Plus the computational checks impl_<T> = compile spec_<T> tying the generated trees of Gen/TlbImpl.v
   (what the library does) to the layouts of Spec/BlockTlb.v (what block.tlb says). *)
From Coq Require Import NArith ZArith List Bool String Lia ZifyBool ZifyNat ZifyN.
From PTQ Require Import Base.Result Base.Bytes Base.Bits Model.Cell Model.Builder Model.Hashmap Model.Dtree
  Spec.TlbPrim Spec.TlbVal Proofs.BuilderRT Spec.Tlb.
Import ListNotations.
Local Open Scope nat_scope.

(* ------------------------------------------------------------------------------------------------ *)
(* Sub-slice bookkeeping                                                                             *)
(* ------------------------------------------------------------------------------------------------ *)

Lemma get_set_same ss : forall sid s, get_slice (set_slice ss sid s) sid = Ok s.
Proof.
  induction ss as [|[i x] r IH]; intros sid s; cbn [set_slice get_slice].
  - rewrite Nat.eqb_refl. reflexivity.
  - destruct (Nat.eqb_spec i sid) as [E|E]; cbn [get_slice].
    + subst. rewrite Nat.eqb_refl. reflexivity.
    + destruct (Nat.eqb_spec i sid) as [E'|_]; [contradiction|]. apply IH.
Qed.

Lemma get_set_other ss : forall sid j s, j <> sid -> get_slice (set_slice ss sid s) j = get_slice ss j.
Proof.
  induction ss as [|[i x] r IH]; intros sid j s Hne; cbn [set_slice get_slice].
  - destruct (Nat.eqb_spec sid j) as [E|_]; [congruence|reflexivity].
  - destruct (Nat.eqb_spec i sid) as [E|E]; cbn [get_slice].
    + subst. destruct (Nat.eqb_spec sid j) as [E'|_]; [congruence|reflexivity].
    + destruct (Nat.eqb_spec i j) as [_|_]; [reflexivity|]. apply IH. exact Hne.
Qed.

(* ------------------------------------------------------------------------------------------------ *)
(* Attribute lists in name order                                                                     *)
(* ------------------------------------------------------------------------------------------------ *)

Lemma insert_map {A B} (g : A -> B) (p : string * A) l :
  insert_by_name (fst p, g (snd p)) (map (fun q => (fst q, g (snd q))) l)
  = map (fun q => (fst q, g (snd q))) (insert_by_name p l).
Proof.
  induction l as [|q r IH]; [reflexivity|].
  cbn [map insert_by_name fst]. destruct (String.leb (fst p) (fst q)); cbn [map]; [reflexivity|].
  rewrite IH. reflexivity.
Qed.

Lemma sort_map {A B} (g : A -> B) l :
  sort_by_name (map (fun q => (fst q, g (snd q))) l) = map (fun q => (fst q, g (snd q))) (sort_by_name l).
Proof.
  induction l as [|p r IH]; [reflexivity|].
  cbn [map sort_by_name]. rewrite IH. apply (insert_map g p).
Qed.

Lemma sort_names_fst {A} (l : list (string * A)) : map fst (sort_by_name l) = sort_names (map fst l).
Proof.
  unfold sort_names. rewrite map_map.
  rewrite (sort_map (fun _ => tt) l). rewrite map_map. reflexivity.
Qed.

Lemma insert_Forall {A} (P : string * A -> Prop) p l : P p -> Forall P l -> Forall P (insert_by_name p l).
Proof.
  intros Hp Hl. induction Hl as [|q r Hq Hr IH]; cbn [insert_by_name]; [constructor; [exact Hp|constructor]|].
  destruct (String.leb (fst p) (fst q)); repeat constructor; assumption.
Qed.

Lemma sort_Forall {A} (P : string * A -> Prop) l : Forall P l -> Forall P (sort_by_name l).
Proof.
  induction 1 as [|p r Hp Hr IH]; cbn [sort_by_name]; [constructor|]. apply insert_Forall; assumption.
Qed.

(* ------------------------------------------------------------------------------------------------ *)
(* Single steps of [run]                                                                             *)
(* ------------------------------------------------------------------------------------------------ *)

(* the loads that touch one slice only *)
Definition prim_load (o : dop) (s : slice) : result (pv * slice) :=
  match o with
  | OUint n => lift PInt (s_load_uint s n)
  | OInt n => lift PInt (s_load_int s n)
  | OBit | OBool => lift PBool (s_load_bit s)
  | OBits n => lift PBits (s_load_bits s n)
  | OBytes n => lift PBytes (s_load_bytes s n)
  | OCoins => lift PInt (s_load_coins s)
  | OVarUint k => lift PInt (s_load_var_uint s k)
  | OVarInt k => lift PInt (s_load_var_int s k)
  | OAddr => lift PAddr (s_load_address s)
  | ORefCell => lift PCell (s_load_ref s)
  | OMaybeRefCell =>
      lift (fun oc => match oc with Some c => PCell c | None => PNone end) (s_load_maybe_ref s)
  | _ => Err EOther
  end.

Section Steps.
  Variable tbl : table.

  Lemma run_prim fuel sid o k ss env w ts v s' :
    1 <= fuel -> get_slice ss sid = Ok ts -> prim_load o (ts_s ts) = Ok (v, s') ->
    run tbl fuel (DOp sid o k) ss env w
    = run tbl (fuel - 1) k (set_slice ss sid (mkTS (ts_ty ts) s')) (env ++ [v]) (w ++ [op_width o]).
  Proof.
    intros Hfuel Hget Hload. destruct fuel as [|f]; [lia|].
    replace (S f - 1) with f by lia. cbn [run]. rewrite Hget. cbn [bind].
    destruct o; cbn [prim_load] in Hload; try discriminate; rewrite Hload; reflexivity.
  Qed.

  Lemma run_if fuel var bit t0 t1 ss env w (b : bool) :
    1 <= fuel -> nth bit (bits_of_pv (nth var env PNone) (nth var w 1)) false = b ->
    run tbl fuel (DIf var bit t0 t1) ss env w = run tbl (fuel - 1) (if b then t1 else t0) ss env w.
  Proof.
    intros Hfuel Hb. destruct fuel as [|f]; [lia|].
    replace (S f - 1) with f by lia. cbn [run]. rewrite Hb. destruct b; reflexivity.
  Qed.

  Lemma run_ret fuel e ss env w :
    1 <= fuel ->
    run tbl fuel (DRet e) ss env w
    = Ok (eval e env (match get_slice ss 0 with Ok s => PSlice (ts_s s) | Err _ => PNone end), ss).
  Proof. intros Hfuel. destruct fuel as [|f]; [lia|]. reflexivity. Qed.

  Lemma run_ref fuel sid nsid k ss env w ts c s' :
    1 <= fuel -> get_slice ss sid = Ok ts -> s_load_ref (ts_s ts) = Ok (c, s') ->
    run tbl fuel (DOp sid (ORef nsid) k) ss env w
    = run tbl (fuel - 1) k (set_slice (set_slice ss sid (mkTS (ts_ty ts) s')) nsid (cell_slice c))
        (env ++ [PCell c]) (w ++ [1]).
  Proof.
    intros Hfuel Hget Hload. destruct fuel as [|f]; [lia|].
    replace (S f - 1) with f by lia. cbn [run]. rewrite Hget. cbn [bind]. rewrite Hload. reflexivity.
  Qed.

  Lemma run_call fuel sid T a k ss env w ts d v ss1 ts' :
    1 <= fuel -> get_slice ss sid = Ok ts -> lookup tbl T a = Some d ->
    run tbl (fuel - 1) d [(0, ts)] [] [] = Ok (v, ss1) -> get_slice ss1 0 = Ok ts' ->
    run tbl fuel (DOp sid (OCall T a) k) ss env w
    = run tbl (fuel - 1) k (set_slice ss sid ts') (env ++ [v]) (w ++ [1]).
  Proof.
    intros Hfuel Hget Hlk Hrun Hget1. destruct fuel as [|f]; [lia|].
    replace (S f - 1) with f in * by lia. cbn [run]. rewrite Hget. cbn [bind]. rewrite Hlk, Hrun.
    cbn [bind]. rewrite Hget1. reflexivity.
  Qed.

  Lemma run_dict_empty fuel sid n vt k ss env w ts s' :
    1 <= fuel -> get_slice ss sid = Ok ts -> s_load_dict (ts_s ts) (Z.of_nat n) = Ok (None, s') ->
    run tbl fuel (DOp sid (ODict n vt) k) ss env w
    = run tbl (fuel - 1) k (set_slice ss sid (mkTS (ts_ty ts) s')) (env ++ [PNone]) (w ++ [1]).
  Proof.
    intros Hfuel Hget Hload. destruct fuel as [|f]; [lia|].
    replace (S f - 1) with f by lia. cbn [run]. rewrite Hget. cbn [bind]. rewrite Hload. reflexivity.
  Qed.
End Steps.

(* ------------------------------------------------------------------------------------------------ *)
(* Primitive fields: the op, the loaded value, the attribute expression                               *)
(* ------------------------------------------------------------------------------------------------ *)

Definition fty_op (f : fty) : option dop :=
  match f with
  | FUint w => Some (OUint w)
  | FUintLe m => Some (OUint (le_bits m))
  | FUintLt m => Some (OUint (lt_bits m))
  | FInt w => Some (OInt w)
  | FBool => Some OBool
  | FBit => Some OBit
  | FBits w => Some (OBits w)
  | FBytes w | FBytesHex w => Some (OBytes w)
  | FCoins => Some OCoins
  | FVarUint m => Some (OVarUint (lt_bits m))
  | FVarInt m => Some (OVarInt (lt_bits m))
  | FAddr | FAddrInt | FAddrExt => Some OAddr
  | FCell => Some ORefCell
  | _ => None
  end.
Definition fty_raw (f : fty) (x : pv) : pv :=
  match f, x with FBytesHex _, PHex bs => PBytes bs | _, _ => x end.
Definition fty_expr (f : fty) (n : nat) : dexpr :=
  match f with FBytesHex _ => EHex (EVar n) | _ => EVar n end.

Lemma compile_prim f o nm sid n ns acc k : fty_op f = Some o ->
  compile_field f nm sid n ns acc k = DOp sid o (k (S n) ns (acc ++ [(nm, fty_expr f n)])).
Proof. destruct f; cbn [fty_op]; intros H; inversion H; reflexivity. Qed.

Lemma bitlen_spec M : (0 < M)%Z -> 1 <= bitlen M /\ (M < 2 ^ Z.of_nat (bitlen M))%Z.
Proof.
  intros HM. unfold bitlen. destruct (Z.leb_spec M 0) as [|_]; [lia|].
  pose proof (Z.log2_nonneg M). pose proof (Z.log2_spec M HM) as [_ Hhi].
  split; [lia|]. rewrite Z2Nat.id by lia. replace (Z.log2 M + 1)%Z with (Z.succ (Z.log2 M)) by lia. exact Hhi.
Qed.

Lemma in_uint_le_bits m z : 1 <= m -> (0 <= z <= Z.of_nat m)%Z ->
  1 <= le_bits m /\ in_uint (Z.of_nat (le_bits m)) z = true.
Proof.
  intros Hm Hz. unfold le_bits. destruct (bitlen_spec (Z.of_nat m)) as [H1 H2]; [lia|].
  split; [exact H1|]. apply in_uint_iff. lia.
Qed.

Lemma in_uint_lt_bits m z : 2 <= m -> (0 <= z < Z.of_nat m)%Z ->
  1 <= lt_bits m /\ in_uint (Z.of_nat (lt_bits m)) z = true.
Proof.
  intros Hm Hz. unfold lt_bits. destruct (bitlen_spec (Z.of_nat m - 1)) as [H1 H2]; [lia|].
  split; [exact H1|]. apply in_uint_iff. lia.
Qed.

Lemma load_var_uint_lt m v tb r : 2 <= m -> (0 <= v)%Z -> (ulen0 v < Z.of_nat m)%Z ->
  s_load_var false (mkS (enc_var m (ulen0 v) v ++ tb) r) (lt_bits m) = Ok (v, mkS tb r).
Proof.
  intros Hm Hv Hlen. destruct (bitlen_spec (Z.of_nat m - 1)) as [H1 H2]; [lia|]. fold (lt_bits m) in H1, H2.
  pose proof (load_var_uint_app (Z.of_nat (lt_bits m)) v tb r) as H. rewrite Nat2Z.id in H.
  apply H; lia.
Qed.

Lemma load_var_int_lt m v tb r : 2 <= m -> (slen0 v < Z.of_nat m)%Z ->
  s_load_var true (mkS (enc_var m (slen0 v) v ++ tb) r) (lt_bits m) = Ok (v, mkS tb r).
Proof.
  intros Hm Hlen. destruct (bitlen_spec (Z.of_nat m - 1)) as [H1 H2]; [lia|]. fold (lt_bits m) in H1, H2.
  pose proof (load_var_int_app (Z.of_nat (lt_bits m)) v tb r) as H. rewrite Nat2Z.id in H.
  apply H; lia.
Qed.

Lemma prim_field_load ety wty f o x bits refs tb tr :
  fty_op f = Some o -> wf_fty f = true -> wt_field wty f x -> enc_field ety f x = Ok (bits, refs) ->
  prim_load o (mkS (bits ++ tb) (refs ++ tr)) = Ok (fty_raw f x, mkS tb tr).
Proof.
  intros Hop Hwf Hwt Henc.
  destruct f; cbn [fty_op] in Hop; inversion Hop; subst o; clear Hop;
    cbn [wt_field] in Hwt; destruct x; try contradiction;
    cbn [enc_field ok_bits] in Henc; inversion Henc; subst bits refs; clear Henc;
    cbn [wf_fty] in Hwf; cbn [prim_load fty_raw app].
  - (* FUint *) rewrite load_uint_app_n by (lia || exact Hwt). reflexivity.
  - (* FUintLe *) destruct (in_uint_le_bits m z) as [H1 H2]; [lia|exact Hwt|].
    rewrite load_uint_app_n by assumption. reflexivity.
  - (* FUintLt *) destruct (in_uint_lt_bits m z) as [H1 H2]; [lia|exact Hwt|].
    rewrite load_uint_app_n by assumption. reflexivity.
  - (* FInt *) rewrite load_int_app_n by (lia || exact Hwt). reflexivity.
  - (* FBool *) reflexivity.
  - (* FBit *) reflexivity.
  - (* FBits *) subst n. rewrite load_bits_app. reflexivity.
  - (* FBytes *) destruct Hwt as [Hlen Hok].
    rewrite load_bytes_app by (congruence || apply bytes_okb_ok; exact Hok). reflexivity.
  - (* FBytesHex *) destruct Hwt as [Hlen Hok].
    rewrite load_bytes_app by (congruence || apply bytes_okb_ok; exact Hok). reflexivity.
  - (* FCoins *) destruct Hwt as [H0 Hlen]. unfold s_load_coins, s_load_var_uint.
    change 4 with (lt_bits 16). rewrite load_var_uint_lt by (lia || assumption). reflexivity.
  - (* FVarUint *) destruct Hwt as [H0 Hlen]. unfold s_load_var_uint.
    rewrite load_var_uint_lt by (lia || assumption). reflexivity.
  - (* FVarInt *) unfold s_load_var_int. rewrite load_var_int_lt by (lia || assumption). reflexivity.
  - (* FAddr *) rewrite load_address_app by exact Hwt. reflexivity.
  - (* FAddrInt *) rewrite load_address_app by apply Hwt. reflexivity.
  - (* FAddrExt *) rewrite load_address_app by apply Hwt. reflexivity.
  - (* FCell *) reflexivity.
Qed.

Lemma prim_field_eval wty f o x n env more leaf :
  fty_op f = Some o -> wt_field wty f x -> List.length env = n ->
  eval (fty_expr f n) (env ++ [fty_raw f x] ++ more) leaf = x.
Proof.
  intros Hop Hwt Hn. subst n.
  destruct f; cbn [fty_op] in Hop; try discriminate; cbn [fty_expr eval app];
    rewrite nth_middle; cbn [wt_field] in Hwt; destruct x; try contradiction; reflexivity.
Qed.
