(* compile_correct: running the decision tree [compile L] on the encoding of a well-typed value of the
   layout L returns that value and leaves exactly what followed the encoding.
   Plus the computational checks impl_<T> = compile spec_<T> tying the generated trees of Gen/TlbImpl.v
   (what the library does) to the layouts of Spec/BlockTlb.v (what block.tlb says). *)
From Coq Require Import NArith ZArith List Bool String Lia ZifyBool ZifyNat ZifyN.
From PTQ Require Import Base.Result Base.Bytes Base.Bits Model.Cell Model.Builder Model.Hashmap Model.Dtree
  Spec.TlbPrim Spec.TlbVal Spec.Hashmap Proofs.BuilderRT Proofs.HmParse Proofs.HmRoundtrip Spec.Tlb.
Import ListNotations.
Local Open Scope nat_scope.

(* ------------------------------------------------------------------------------------------------ *)
(* Sub-slice bookkeeping                                                                             *)
(* ------------------------------------------------------------------------------------------------ *)

Lemma get_set_same ss : forall sid s, get_slice (set_slice ss sid s) sid = Ok s.
Proof.
  induction ss as [|[i x] r IH]; intros sid s; cbn [set_slice get_slice].
  - rewrite Nat.eqb_refl. reflexivity.
  - destruct (Nat.eqb_spec i sid) as [E|E]; cbn [get_slice].
    + subst. rewrite Nat.eqb_refl. reflexivity.
    + destruct (Nat.eqb_spec i sid) as [E'|_]; [contradiction|]. apply IH.
Qed.

Lemma get_set_other ss : forall sid j s, j <> sid -> get_slice (set_slice ss sid s) j = get_slice ss j.
Proof.
  induction ss as [|[i x] r IH]; intros sid j s Hne; cbn [set_slice get_slice].
  - destruct (Nat.eqb_spec sid j) as [E|_]; [congruence|reflexivity].
  - destruct (Nat.eqb_spec i sid) as [E|E]; cbn [get_slice].
    + subst. destruct (Nat.eqb_spec sid j) as [E'|_]; [congruence|reflexivity].
    + destruct (Nat.eqb_spec i j) as [_|_]; [reflexivity|]. apply IH. exact Hne.
Qed.

(* ------------------------------------------------------------------------------------------------ *)
(* Attribute lists in name order                                                                     *)
(* ------------------------------------------------------------------------------------------------ *)

Lemma insert_map {A B} (g : A -> B) (p : string * A) l :
  insert_by_name (fst p, g (snd p)) (map (fun q => (fst q, g (snd q))) l)
  = map (fun q => (fst q, g (snd q))) (insert_by_name p l).
Proof.
  induction l as [|q r IH]; [reflexivity|].
  cbn [map insert_by_name fst]. destruct (String.leb (fst p) (fst q)); cbn [map]; [reflexivity|].
  rewrite IH. reflexivity.
Qed.

Lemma sort_map {A B} (g : A -> B) l :
  sort_by_name (map (fun q => (fst q, g (snd q))) l) = map (fun q => (fst q, g (snd q))) (sort_by_name l).
Proof.
  induction l as [|p r IH]; [reflexivity|].
  cbn [map sort_by_name]. rewrite IH. apply (insert_map g p).
Qed.

Lemma sort_names_fst {A} (l : list (string * A)) : map fst (sort_by_name l) = sort_names (map fst l).
Proof.
  unfold sort_names. rewrite map_map.
  rewrite (sort_map (fun _ => tt) l). rewrite map_map. reflexivity.
Qed.

Lemma insert_Forall {A} (P : string * A -> Prop) p l : P p -> Forall P l -> Forall P (insert_by_name p l).
Proof.
  intros Hp Hl. induction Hl as [|q r Hq Hr IH]; cbn [insert_by_name]; [constructor; [exact Hp|constructor]|].
  destruct (String.leb (fst p) (fst q)); repeat constructor; assumption.
Qed.

Lemma sort_Forall {A} (P : string * A -> Prop) l : Forall P l -> Forall P (sort_by_name l).
Proof.
  induction 1 as [|p r Hp Hr IH]; cbn [sort_by_name]; [constructor|]. apply insert_Forall; assumption.
Qed.

(* ------------------------------------------------------------------------------------------------ *)
(* Single steps of [run]                                                                             *)
(* ------------------------------------------------------------------------------------------------ *)

(* the loads that touch one slice only *)
Definition prim_load (o : dop) (s : slice) : result (pv * slice) :=
  match o with
  | OUint n => lift PInt (s_load_uint s n)
  | OInt n => lift PInt (s_load_int s n)
  | OBit | OBool => lift PBool (s_load_bit s)
  | OBits n => lift PBits (s_load_bits s n)
  | OBytes n => lift PBytes (s_load_bytes s n)
  | OCoins => lift PInt (s_load_coins s)
  | OVarUint k => lift PInt (s_load_var_uint s k)
  | OVarInt k => lift PInt (s_load_var_int s k)
  | OAddr => lift PAddr (s_load_address s)
  | ORefCell => lift PCell (s_load_ref s)
  | OMaybeRefCell =>
      lift (fun oc => match oc with Some c => PCell c | None => PNone end) (s_load_maybe_ref s)
  | _ => Err EOther
  end.

Section Steps.
  Variable tbl : table.

  Lemma run_prim fuel sid o k ss env w ts v s' :
    1 <= fuel -> get_slice ss sid = Ok ts -> prim_load o (ts_s ts) = Ok (v, s') ->
    run tbl fuel (DOp sid o k) ss env w
    = run tbl (fuel - 1) k (set_slice ss sid (mkTS (ts_ty ts) s')) (env ++ [v]) (w ++ [op_width o]).
  Proof.
    intros Hfuel Hget Hload. destruct fuel as [|f]; [lia|].
    replace (S f - 1) with f by lia. cbn [run]. rewrite Hget. cbn [bind].
    destruct o; cbn [prim_load] in Hload; try discriminate; rewrite Hload; reflexivity.
  Qed.

  Lemma run_if fuel var bit t0 t1 ss env w (b : bool) :
    1 <= fuel -> nth bit (bits_of_pv (nth var env PNone) (nth var w 1)) false = b ->
    run tbl fuel (DIf var bit t0 t1) ss env w = run tbl (fuel - 1) (if b then t1 else t0) ss env w.
  Proof.
    intros Hfuel Hb. destruct fuel as [|f]; [lia|].
    replace (S f - 1) with f by lia. cbn [run]. rewrite Hb. destruct b; reflexivity.
  Qed.

  Lemma run_ret fuel e ss env w :
    1 <= fuel ->
    run tbl fuel (DRet e) ss env w
    = Ok (eval e env (match get_slice ss 0 with Ok s => PSlice (ts_s s) | Err _ => PNone end), ss).
  Proof. intros Hfuel. destruct fuel as [|f]; [lia|]. reflexivity. Qed.

  Lemma run_ref fuel sid nsid k ss env w ts c s' :
    1 <= fuel -> get_slice ss sid = Ok ts -> s_load_ref (ts_s ts) = Ok (c, s') ->
    run tbl fuel (DOp sid (ORef nsid) k) ss env w
    = run tbl (fuel - 1) k (set_slice (set_slice ss sid (mkTS (ts_ty ts) s')) nsid (cell_slice c))
        (env ++ [PCell c]) (w ++ [1]).
  Proof.
    intros Hfuel Hget Hload. destruct fuel as [|f]; [lia|].
    replace (S f - 1) with f by lia. cbn [run]. rewrite Hget. cbn [bind]. rewrite Hload. reflexivity.
  Qed.

  Lemma run_call fuel sid T a k ss env w ts d v ss1 ts' :
    1 <= fuel -> get_slice ss sid = Ok ts -> lookup tbl T a = Some d ->
    run tbl (fuel - 1) d [(0, ts)] [] [] = Ok (v, ss1) -> get_slice ss1 0 = Ok ts' ->
    run tbl fuel (DOp sid (OCall T a) k) ss env w
    = run tbl (fuel - 1) k (set_slice ss sid ts') (env ++ [v]) (w ++ [1]).
  Proof.
    intros Hfuel Hget Hlk Hrun Hget1. destruct fuel as [|f]; [lia|].
    replace (S f - 1) with f in * by lia. cbn [run]. rewrite Hget. cbn [bind]. rewrite Hlk, Hrun.
    cbn [bind]. rewrite Hget1. reflexivity.
  Qed.

  Lemma run_dict_empty fuel sid n vt k ss env w ts s' :
    1 <= fuel -> get_slice ss sid = Ok ts -> s_load_dict (ts_s ts) (Z.of_nat n) = Ok (None, s') ->
    run tbl fuel (DOp sid (ODict n vt) k) ss env w
    = run tbl (fuel - 1) k (set_slice ss sid (mkTS (ts_ty ts) s')) (env ++ [PNone]) (w ++ [1]).
  Proof.
    intros Hfuel Hget Hload. destruct fuel as [|f]; [lia|].
    replace (S f - 1) with f by lia. cbn [run]. rewrite Hget. cbn [bind]. rewrite Hload. reflexivity.
  Qed.

  Lemma run_dict_some fuel sid n vt k ss env w ts leaves s' kvs :
    1 <= fuel -> get_slice ss sid = Ok ts ->
    s_load_dict (ts_s ts) (Z.of_nat n) = Ok (Some leaves, s') ->
    mapM (fun '(key, ls) =>
            rmap (fun '(v, _) => (Z.of_N (of_bits key), v))
                 (run tbl (fuel - 1) vt [(0, mkTS ty_ordinary ls)] [] [])) leaves = Ok kvs ->
    run tbl fuel (DOp sid (ODict n vt) k) ss env w
    = run tbl (fuel - 1) k (set_slice ss sid (mkTS (ts_ty ts) s')) (env ++ [PDict kvs]) (w ++ [1]).
  Proof.
    intros Hfuel Hget Hload Hmap. destruct fuel as [|f]; [lia|].
    replace (S f - 1) with f in * by lia. cbn [run]. rewrite Hget. cbn [bind]. rewrite Hload.
    cbn [bind]. rewrite Hmap. reflexivity.
  Qed.
End Steps.

(* ------------------------------------------------------------------------------------------------ *)
(* Dictionaries: ascending integer keys are ascending n-bit strings; the canonical tree parses back   *)
(* ------------------------------------------------------------------------------------------------ *)

Lemma all_of_Forall {A} (P : A -> Prop) l : all_of P l -> Forall P l.
Proof. induction l as [|x r IH]; cbn [all_of]; [constructor|]. intros [H1 H2]. constructor; auto. Qed.

Lemma ascending_head : forall l a, ascending (a :: l) = true ->
  Forall (fun b => (a < b)%Z) l /\ ascending l = true.
Proof.
  induction l as [|b r IH]; intros a H; [split; [constructor|reflexivity]|].
  cbn [ascending] in H. apply andb_prop in H. destruct H as [Hab Hr]. apply Z.ltb_lt in Hab.
  destruct (IH b Hr) as [Hall _]. split; [|exact Hr].
  constructor; [exact Hab|]. eapply Forall_impl; [|exact Hall]. intros c Hc. cbn beta in Hc. lia.
Qed.

Lemma enc_inj n a b : (0 <= a < 2 ^ Z.of_nat n)%Z -> (0 <= b < 2 ^ Z.of_nat n)%Z ->
  enc n a = enc n b -> a = b.
Proof.
  intros Ha Hb H. apply (f_equal of_bits) in H. rewrite !of_bits_enc in H.
  rewrite !Z.mod_small in H by assumption. apply Z2N.inj in H; lia.
Qed.

Lemma testbit_top w v : (0 <= v < 2 ^ (Z.of_nat w + 1))%Z ->
  Z.testbit v (Z.of_nat w) = (2 ^ Z.of_nat w <=? v)%Z.
Proof.
  intros Hv. assert (Hp : (0 < 2 ^ Z.of_nat w)%Z) by (apply pow2_pos; lia).
  rewrite Z.pow_add_r, Z.pow_1_r in Hv by lia.
  destruct (Z.leb_spec (2 ^ Z.of_nat w) v) as [Hle|Hlt].
  - apply Z.testbit_true; [lia|].
    replace (v / 2 ^ Z.of_nat w)%Z with 1%Z; [reflexivity|].
    apply (Z.div_unique v (2 ^ Z.of_nat w) 1 (v - 2 ^ Z.of_nat w)); lia.
  - apply Z.testbit_false; [lia|]. rewrite Z.div_small by lia. reflexivity.
Qed.

Lemma lex_enc : forall w a b, (0 <= a < 2 ^ Z.of_nat w)%Z -> (0 <= b < 2 ^ Z.of_nat w)%Z -> (a <= b)%Z ->
  lex_leb (enc w a) (enc w b) = true.
Proof.
  induction w as [|w IH]; intros a b Ha Hb Hab; [reflexivity|].
  rewrite !enc_cons. cbn [lex_leb].
  rewrite Nat2Z.inj_succ in Ha, Hb. replace (Z.succ (Z.of_nat w)) with (Z.of_nat w + 1)%Z in Ha, Hb by lia.
  rewrite !testbit_top by assumption.
  assert (Hp : (0 < 2 ^ Z.of_nat w)%Z) by (apply pow2_pos; lia).
  rewrite Z.pow_add_r, Z.pow_1_r in Ha, Hb by lia.
  rewrite <- (enc_mod w a), <- (enc_mod w b).
  destruct (Z.leb_spec (2 ^ Z.of_nat w) a) as [Ha1|Ha0]; destruct (Z.leb_spec (2 ^ Z.of_nat w) b) as [Hb1|Hb0];
    cbn [Bool.eqb negb].
  - apply IH; try (apply Z.mod_pos_bound; lia).
    rewrite <- (Z.mod_unique a (2 ^ Z.of_nat w) 1 (a - 2 ^ Z.of_nat w)) by lia.
    rewrite <- (Z.mod_unique b (2 ^ Z.of_nat w) 1 (b - 2 ^ Z.of_nat w)) by lia. lia.
  - lia.
  - reflexivity.
  - apply IH; try (apply Z.mod_pos_bound; lia). rewrite !Z.mod_small by lia. exact Hab.
Qed.

Lemma asc_nodup n : forall ks, ascending ks = true ->
  Forall (fun k => (0 <= k < 2 ^ Z.of_nat n)%Z) ks -> NoDup (map (enc n) ks).
Proof.
  induction ks as [|a l IH]; intros Hasc Hrange; [constructor|].
  destruct (ascending_head l a Hasc) as [Hlt Hl]. inversion Hrange as [|? ? Ha Hr]; subst.
  cbn [map]. constructor; [|apply IH; assumption].
  intros Hin. apply in_map_iff in Hin. destruct Hin as (b & Heq & Hb).
  rewrite Forall_forall in Hlt, Hr. specialize (Hlt b Hb). specialize (Hr b Hb).
  apply enc_inj in Heq; [lia|assumption|assumption].
Qed.

Lemma asc_sorted n : forall (src : kvs) ks, map fst src = map (enc n) ks -> ascending ks = true ->
  Forall (fun k => (0 <= k < 2 ^ Z.of_nat n)%Z) ks -> sort_kvs src = src.
Proof.
  induction src as [|x l IH]; intros ks Hk Hasc Hrange; [reflexivity|].
  destruct ks as [|a ks']; [discriminate|]. cbn [map] in Hk. injection Hk as Hx Hl.
  destruct (ascending_head ks' a Hasc) as [Hlt Hasc']. inversion Hrange as [|? ? Ha Hr]; subst.
  rewrite rt_sort_cons. rewrite (IH ks' Hl Hasc' Hr).
  destruct l as [|y r]; [reflexivity|]. destruct ks' as [|b ks'']; [discriminate|].
  cbn [map] in Hl. injection Hl as Hy Hl. cbn [insert_kv]. rewrite Hx, Hy.
  inversion Hlt; subst. inversion Hr; subst. rewrite lex_enc by (assumption || lia). reflexivity.
Qed.

Lemma keys_length n : forall (src : kvs) ks, map fst src = map (enc n) ks ->
  Forall (fun kv => List.length (fst kv) = n) src.
Proof.
  induction src as [|x l IH]; intros ks Hk; [constructor|].
  destruct ks as [|a ks']; [discriminate|]. cbn [map] in Hk. injection Hk as Hx Hl.
  constructor; [rewrite Hx; apply enc_length|exact (IH ks' Hl)].
Qed.

Lemma canon_cell_ordinary e n :
  exists bits refs, cell_of (canon_kinds (canon_vtree e) n) n = Cell ty_ordinary bits refs.
Proof. destruct e as [l [v|a b]]; cbn [canon_vtree canon_kinds cell_of]; eauto. Qed.

Lemma load_dict_valid t n tb tr : 1 <= n <= 1023 -> vtree_ok t n = true ->
  (exists bits refs, cell_of t n = Cell ty_ordinary bits refs) ->
  s_load_dict (mkS (true :: tb) (cell_of t n :: tr)) (Z.of_nat n) = Ok (Some (leaves_of t []), mkS tb tr).
Proof.
  intros Hn Hok (bits & refs & Hc). pose proof (parse_any_valid t n Hn Hok) as Hp. rewrite Hc in Hp |- *.
  unfold s_load_dict, s_load_bit, s_preload_bit, s_skip, s_load_ref.
  cbn [s_bits s_refs List.length Nat.ltb Nat.leb bind skipn]. unfold hashmap_parse.
  rewrite Z.eqb_refl. cbn [negb]. rewrite Hp. reflexivity.
Qed.

Lemma canon_leaves n (src : kvs) e : NoDup (map fst src) ->
  Forall (fun kv => List.length (fst kv) = n) src -> sort_kvs src = src ->
  s_patricia (S n) src = Some e ->
  leaves_of (canon_kinds (canon_vtree e) n) [] = map rt_conv src.
Proof.
  intros Hnd Hlen Hsorted Hpat. rewrite rt_leaves_canon.
  rewrite (rt_patricia_leaves (S n) n src e [] (Nat.lt_succ_diag_r n) Hnd Hlen Hpat). rewrite Hsorted.
  f_equal. rewrite <- (map_id src) at 2. apply map_ext. intros [k v]. reflexivity.
Qed.


(* ------------------------------------------------------------------------------------------------ *)
(* Primitive fields: the op, the loaded value, the attribute expression                               *)
(* ------------------------------------------------------------------------------------------------ *)

Definition fty_op (f : fty) : option dop :=
  match f with
  | FUint w => Some (OUint w)
  | FUintLe m => Some (OUint (le_bits m))
  | FUintLt m => Some (OUint (lt_bits m))
  | FInt w => Some (OInt w)
  | FBool => Some OBool
  | FBit => Some OBit
  | FBits w => Some (OBits w)
  | FBytes w | FBytesHex w => Some (OBytes w)
  | FCoins => Some OCoins
  | FVarUint m => Some (OVarUint (lt_bits m))
  | FVarInt m => Some (OVarInt (lt_bits m))
  | FAddr | FAddrInt | FAddrExt => Some OAddr
  | FCell => Some ORefCell
  | _ => None
  end.
Definition fty_raw (f : fty) (x : pv) : pv :=
  match f, x with FBytesHex _, PHex bs => PBytes bs | _, _ => x end.
Definition fty_expr (f : fty) (n : nat) : dexpr :=
  match f with FBytesHex _ => EHex (EVar n) | _ => EVar n end.

Lemma compile_prim f o nm sid n ns acc k : fty_op f = Some o ->
  compile_field f nm sid n ns acc k = DOp sid o (k (S n) ns (acc ++ [(nm, fty_expr f n)])).
Proof. destruct f; cbn [fty_op]; intros H; inversion H; reflexivity. Qed.

Lemma bitlen_spec M : (0 < M)%Z -> 1 <= bitlen M /\ (M < 2 ^ Z.of_nat (bitlen M))%Z.
Proof.
  intros HM. unfold bitlen. destruct (Z.leb_spec M 0) as [|_]; [lia|].
  pose proof (Z.log2_nonneg M). pose proof (Z.log2_spec M HM) as [_ Hhi].
  split; [lia|]. rewrite Z2Nat.id by lia. replace (Z.log2 M + 1)%Z with (Z.succ (Z.log2 M)) by lia. exact Hhi.
Qed.

Lemma in_uint_le_bits m z : 1 <= m -> (0 <= z <= Z.of_nat m)%Z ->
  1 <= le_bits m /\ in_uint (Z.of_nat (le_bits m)) z = true.
Proof.
  intros Hm Hz. unfold le_bits. destruct (bitlen_spec (Z.of_nat m)) as [H1 H2]; [lia|].
  split; [exact H1|]. apply in_uint_iff. lia.
Qed.

Lemma in_uint_lt_bits m z : 2 <= m -> (0 <= z < Z.of_nat m)%Z ->
  1 <= lt_bits m /\ in_uint (Z.of_nat (lt_bits m)) z = true.
Proof.
  intros Hm Hz. unfold lt_bits. destruct (bitlen_spec (Z.of_nat m - 1)) as [H1 H2]; [lia|].
  split; [exact H1|]. apply in_uint_iff. lia.
Qed.

Lemma load_var_uint_lt m v tb r : 2 <= m -> (0 <= v)%Z -> (ulen0 v < Z.of_nat m)%Z ->
  s_load_var false (mkS (enc_var m (ulen0 v) v ++ tb) r) (lt_bits m) = Ok (v, mkS tb r).
Proof.
  intros Hm Hv Hlen. destruct (bitlen_spec (Z.of_nat m - 1)) as [H1 H2]; [lia|]. fold (lt_bits m) in H1, H2.
  pose proof (load_var_uint_app (Z.of_nat (lt_bits m)) v tb r) as H. rewrite Nat2Z.id in H.
  apply H; lia.
Qed.

Lemma load_var_int_lt m v tb r : 2 <= m -> (slen0 v < Z.of_nat m)%Z ->
  s_load_var true (mkS (enc_var m (slen0 v) v ++ tb) r) (lt_bits m) = Ok (v, mkS tb r).
Proof.
  intros Hm Hlen. destruct (bitlen_spec (Z.of_nat m - 1)) as [H1 H2]; [lia|]. fold (lt_bits m) in H1, H2.
  pose proof (load_var_int_app (Z.of_nat (lt_bits m)) v tb r) as H. rewrite Nat2Z.id in H.
  apply H; lia.
Qed.

Lemma prim_field_load ety wty f o x bits refs tb tr :
  fty_op f = Some o -> wf_fty f = true -> wt_field wty f x -> enc_field ety f x = Ok (bits, refs) ->
  prim_load o (mkS (bits ++ tb) (refs ++ tr)) = Ok (fty_raw f x, mkS tb tr).
Proof.
  intros Hop Hwf Hwt Henc.
  destruct f; cbn [fty_op] in Hop; inversion Hop; subst o; clear Hop;
    cbn [wt_field] in Hwt; destruct x; try contradiction;
    cbn [enc_field ok_bits] in Henc; inversion Henc; subst bits refs; clear Henc;
    cbn [wf_fty] in Hwf; cbn [prim_load fty_raw app].
  - (* FUint *) rewrite load_uint_app_n by (lia || exact Hwt). reflexivity.
  - (* FUintLe *) destruct (in_uint_le_bits m z) as [H1 H2]; [lia|exact Hwt|].
    rewrite load_uint_app_n by assumption. reflexivity.
  - (* FUintLt *) destruct (in_uint_lt_bits m z) as [H1 H2]; [lia|exact Hwt|].
    rewrite load_uint_app_n by assumption. reflexivity.
  - (* FInt *) rewrite load_int_app_n by (lia || exact Hwt). reflexivity.
  - (* FBool *) reflexivity.
  - (* FBit *) reflexivity.
  - (* FBits *) subst n. rewrite load_bits_app. reflexivity.
  - (* FBytes *) destruct Hwt as [Hlen Hok].
    rewrite load_bytes_app by (congruence || apply bytes_okb_ok; exact Hok). reflexivity.
  - (* FBytesHex *) destruct Hwt as [Hlen Hok].
    rewrite load_bytes_app by (congruence || apply bytes_okb_ok; exact Hok). reflexivity.
  - (* FCoins *) destruct Hwt as [H0 Hlen]. unfold s_load_coins, s_load_var_uint.
    change 4 with (lt_bits 16). rewrite load_var_uint_lt by (lia || eassumption). reflexivity.
  - (* FVarUint *) destruct Hwt as [H0 Hlen]. unfold s_load_var_uint.
    rewrite load_var_uint_lt by (lia || eassumption). reflexivity.
  - (* FVarInt *) unfold s_load_var_int. rewrite load_var_int_lt by (lia || eassumption). reflexivity.
  - (* FAddr *) rewrite load_address_app by exact Hwt. reflexivity.
  - (* FAddrInt *) rewrite load_address_app by apply Hwt. reflexivity.
  - (* FAddrExt *) rewrite load_address_app by apply Hwt. reflexivity.
  - (* FCell *) reflexivity.
Qed.

Lemma prim_field_eval wty f o x n env more leaf :
  fty_op f = Some o -> wt_field wty f x -> List.length env = n ->
  eval (fty_expr f n) (env ++ [fty_raw f x] ++ more) leaf = x.
Proof.
  intros Hop Hwt Hn. subst n.
  destruct f; cbn [fty_op] in Hop; try discriminate; cbn [fty_expr eval app];
    rewrite nth_middle; cbn [wt_field] in Hwt; destruct x; try contradiction; reflexivity.
Qed.

(* ------------------------------------------------------------------------------------------------ *)
(* Fields, items, constructors                                                                       *)
(* ------------------------------------------------------------------------------------------------ *)

Lemma need_prim nty f o : fty_op f = Some o -> need_field nty f = 1.
Proof. destruct f; cbn [fty_op need_field]; intros H; (discriminate || reflexivity). Qed.

Lemma maybe_cases (x : pv) : x = PNone \/ x <> PNone.
Proof. destruct x; (left; reflexivity) || (right; discriminate). Qed.

Lemma enc_maybe_some ety g x : x <> PNone ->
  enc_field ety (FMaybe g) x = bind (enc_field ety g x) (fun '(b, r) => Ok (true :: b, r)).
Proof. intros H. destruct x; (contradiction || reflexivity). Qed.

Lemma wt_maybe_some wty g x : x <> PNone -> wt_field wty (FMaybe g) x -> wt_field wty g x.
Proof. intros H. destruct x; (contradiction || (intros Hw; exact Hw)). Qed.

(* what a collected attribute (name, expression) must satisfy in the environment E: it evaluates to the
   value the attribute has, and a constraint reading it sees the same integer *)
Definition gnum_e (e : dexpr) (E : list pv) : Z :=
  match e with
  | EVar i => numof (nth i E PNone)
  | EConstInt z => z
  | EConstBool true => 1%Z
  | _ => 0%Z
  end.
Definition entry_ok (look : string -> pv) (E : list pv) (p : string * dexpr) : Prop :=
  (forall leaf, eval (snd p) E leaf = look (fst p)) /\ gnum_e (snd p) E = numof (look (fst p)).
Definition acc_ok (look : string -> pv) (env : list pv) (acc : list (string * dexpr)) : Prop :=
  Forall (fun p => forall more, entry_ok look (env ++ more) p) acc.

Lemma entry_var look E nm i : nth i E PNone = look nm -> entry_ok look E (nm, EVar i).
Proof. intros H. split; cbn [fst snd eval gnum_e]; [intros _; exact H|rewrite H; reflexivity]. Qed.
Lemma entry_none look E nm : look nm = PNone -> entry_ok look E (nm, ENone).
Proof. intros H. split; cbn [fst snd eval gnum_e]; [intros _; symmetry; exact H|rewrite H; reflexivity]. Qed.
Lemma entry_hex look E nm i bs : nth i E PNone = PBytes bs -> look nm = PHex bs ->
  entry_ok look E (nm, EHex (EVar i)).
Proof.
  intros H1 H2. split; cbn [fst snd eval gnum_e]; [intros _; rewrite H1; symmetry; exact H2|].
  rewrite H2. reflexivity.
Qed.
Lemma entry_const look E nm cv : look nm = cval_pv cv -> entry_ok look E (nm, cval_expr cv).
Proof.
  intros H. split; cbn [fst snd]; [intros leaf|]; rewrite H; destruct cv as [s| |[|]|z]; reflexivity.
Qed.

Lemma acc_ok_ext look env acc x : acc_ok look env acc -> acc_ok look (env ++ x) acc.
Proof.
  unfold acc_ok. intros H. eapply Forall_impl; [|exact H]. intros p Hp more. cbn beta in Hp.
  rewrite <- app_assoc. apply Hp.
Qed.

Lemma prim_field_entry wty look f o nm n env more :
  fty_op f = Some o -> wt_field wty f (look nm) -> List.length env = n ->
  entry_ok look (env ++ [fty_raw f (look nm)] ++ more) (nm, fty_expr f n).
Proof.
  intros Hop Hwt Hn. subst n.
  destruct f; cbn [fty_op] in Hop; try discriminate; cbn [fty_expr app];
    cbn [wt_field] in Hwt; destruct (look nm) eqn:Hx; try contradiction; cbn [fty_raw];
    try (apply entry_var; rewrite nth_middle; symmetry; exact Hx).
  apply (entry_hex _ _ _ _ l); [apply nth_middle|exact Hx].
Qed.

Section Correct.
  Variable tbl : table.
  Variable st : stable.
  Variable d : nat.

  (* what is assumed of the named types at nesting depth d *)
  Definition ty_ok : Prop :=
    forall T a x bits refs, wt_type st d T a x -> enc_type st d T a x = Ok (bits, refs) ->
      exists tree, lookup tbl T a = Some tree /\
        forall fuel ty tb tr, need_type st d T a <= fuel ->
          exists ss', run tbl fuel tree [(0, mkTS ty (mkS (bits ++ tb) (refs ++ tr)))] [] [] = Ok (x, ss')
                      /\ get_slice ss' 0 = Ok (mkTS ty (mkS tb tr)).
  Hypothesis Hty : ty_ok.

  (* the tree t, entered with n variables bound, reaches the continuation k having consumed exactly the
     encoding from sub-slice sid, with the attributes `names` bound to the values `look` gives them *)
  Definition post (t : dtree) (k : kont) (names : list string) (look : string -> pv)
      (sid n ns : nat) (acc : list (string * dexpr)) (ss : slices) (env : list pv) (w : list nat)
      (ty : Z) (tb : list bool) (tr : list cell) (fuel bound : nat) : Prop :=
    exists c ss' vals ws acc' ns',
      run tbl fuel t ss env w
      = run tbl (fuel - c) (k (n + List.length vals) ns' (acc ++ acc')) ss' (env ++ vals) (w ++ ws)
      /\ c <= bound
      /\ get_slice ss' sid = Ok (mkTS ty (mkS tb tr))
      /\ (forall j, j <> sid -> j < ns -> get_slice ss' j = get_slice ss j)
      /\ List.length ws = List.length vals /\ ns <= ns'
      /\ map fst acc' = names
      /\ Forall (fun p => forall more, entry_ok look (env ++ vals ++ more) p) acc'.

  (* the leaves of a dictionary, parsed one by one by the value tree, give back the pairs *)
  Lemma dict_run vf n vt f : forall (kl : list (Z * pv)) (src : kvs),
    (forall kv b r, In kv kl -> enc_field (enc_type st d) vf (snd kv) = Ok (b, r) ->
       wt_field (wt_type st d) vf (snd kv) ->
       exists ss', run tbl f vt [(0, mkTS ty_ordinary (mkS b r))] [] [] = Ok (snd kv, ss')) ->
    mapM (fun kv => rmap (fun p => (enc n (fst kv), p)) (enc_field (enc_type st d) vf (snd kv))) kl = Ok src ->
    Forall (fun kv => (0 <= fst kv < 2 ^ Z.of_nat n)%Z /\ wt_field (wt_type st d) vf (snd kv)) kl ->
    mapM (fun '(key, ls) =>
            rmap (fun '(v, _) => (Z.of_N (of_bits key), v)) (run tbl f vt [(0, mkTS ty_ordinary ls)] [] []))
         (map rt_conv src) = Ok kl
    /\ map fst src = map (enc n) (map fst kl).
  Proof.
    induction kl as [|[k x] rest IH]; intros src Hval Hsrc Hall.
    - cbn [mapM] in Hsrc. inversion Hsrc; subst src. split; reflexivity.
    - cbn [mapM fst snd] in Hsrc.
      destruct (enc_field (enc_type st d) vf x) as [[b r]|e0] eqn:Hx; cbn [rmap bind] in Hsrc; [|discriminate].
      destruct (mapM (fun kv => rmap (fun p => (enc n (fst kv), p)) (enc_field (enc_type st d) vf (snd kv))) rest)
        as [src'|e0] eqn:Hrest; cbn [bind] in Hsrc; [|discriminate].
      inversion Hsrc; subst src; clear Hsrc. inversion Hall as [|? ? [Hk Hwx] Hall']; subst.
      cbn [fst snd] in Hk, Hwx.
      destruct (IH src') as [IH1 IH2]; [|reflexivity|exact Hall'|].
      { intros kv b' r' Hin. apply Hval. right. exact Hin. }
      destruct (Hval (k, x) b r (or_introl eq_refl) Hx Hwx) as (ss' & Hrun). cbn [snd] in Hrun.
      split.
      + cbn [map rt_conv fst snd mapM]. rewrite Hrun. cbn [rmap bind]. rewrite IH1. cbn [bind].
        rewrite of_bits_enc, Z.mod_small, Z2N.id by lia. reflexivity.
      + cbn [map fst]. rewrite IH2. reflexivity.
  Qed.

  Lemma field_prim f o nm look bits refs :
    fty_op f = Some o ->
    wf_fty f = true -> wt_field (wt_type st d) f (look nm) ->
    enc_field (enc_type st d) f (look nm) = Ok (bits, refs) ->
    forall sid n ns acc k ss env w ty tb tr fuel,
      get_slice ss sid = Ok (mkTS ty (mkS (bits ++ tb) (refs ++ tr))) ->
      List.length env = n -> List.length w = n -> sid < ns -> need_field (need_type st d) f <= fuel ->
      post (compile_field f nm sid n ns acc k) k [nm] look sid n ns acc ss env w ty tb tr fuel
           (need_field (need_type st d) f).
  Proof.
    intros Hop Hwf Hwt Henc sid n ns acc k ss env w ty tb tr fuel Hget Hn Hw Hsid Hfuel.
    rewrite (need_prim _ f o Hop) in *. rewrite (compile_prim f o nm sid n ns acc k Hop).
    exists 1, (set_slice ss sid (mkTS ty (mkS tb tr))), [fty_raw f (look nm)], [op_width o],
           [(nm, fty_expr f n)], ns.
    split; [|split; [|split; [|split; [|split; [|split; [|split]]]]]].
    - rewrite (run_prim tbl fuel sid o _ ss env w _ _ _ Hfuel Hget
                 (prim_field_load _ _ f o _ bits refs tb tr Hop Hwf Hwt Henc)).
      cbn [ts_ty List.length]. replace (n + 1) with (S n) by lia. reflexivity.
    - lia.
    - apply get_set_same.
    - intros j Hj _. apply get_set_other. exact Hj.
    - reflexivity.
    - lia.
    - reflexivity.
    - constructor; [|constructor]. intros more.
      apply (prim_field_entry (wt_type st d) look f o); assumption.
  Qed.

  Lemma field_correct : forall f nm look bits refs,
    wf_fty f = true -> wt_field (wt_type st d) f (look nm) ->
    enc_field (enc_type st d) f (look nm) = Ok (bits, refs) ->
    forall sid n ns acc k ss env w ty tb tr fuel,
      get_slice ss sid = Ok (mkTS ty (mkS (bits ++ tb) (refs ++ tr))) ->
      List.length env = n -> List.length w = n -> sid < ns -> need_field (need_type st d) f <= fuel ->
      post (compile_field f nm sid n ns acc k) k [nm] look sid n ns acc ss env w ty tb tr fuel
           (need_field (need_type st d) f).
  Proof.
    induction f as [w0|m0|m0|w0| | |w0|w0|w0| |m0|m0| | | | | |T a|T a|g IH|dn vf IHvf|cv];
      intros nm look bits refs Hwf Hwt Henc sid n ns acc k ss env w ty tb tr fuel Hget Hn Hw Hsid Hfuel;
      try (solve [eapply field_prim; [reflexivity|eassumption..]]).
    - (* FMaybeCell *)
      cbn [need_field] in *. cbn [compile_field]. cbn [wt_field] in Hwt. cbn [enc_field ok_bits] in Henc.
      destruct (look nm) eqn:Hx; try contradiction; inversion Henc; subst bits refs; clear Henc.
      + exists 2, (set_slice ss sid (mkTS ty (mkS tb tr))), [PNone], [1], [(nm, ENone)], ns.
        split; [|split; [|split; [|split; [|split; [|split; [|split]]]]]].
        * rewrite (run_prim tbl fuel sid OMaybeRefCell _ ss env w _ PNone (mkS tb tr)) by (lia || eassumption || reflexivity).
          rewrite (run_if tbl _ n 0 _ _ _ _ _ false);
            [|lia|rewrite <- Hn, nth_middle; reflexivity].
          cbn [ts_ty List.length]. replace (n + 1) with (S n) by lia.
          replace (fuel - 1 - 1) with (fuel - 2) by lia. reflexivity.
        * lia.
        * apply get_set_same.
        * intros j Hj _. apply get_set_other. exact Hj.
        * reflexivity.
        * lia.
        * reflexivity.
        * constructor; [|constructor]. intros more. apply entry_none. exact Hx.
      + exists 2, (set_slice ss sid (mkTS ty (mkS tb tr))), [PCell c], [1], [(nm, EVar n)], ns.
        split; [|split; [|split; [|split; [|split; [|split; [|split]]]]]].
        * rewrite (run_prim tbl fuel sid OMaybeRefCell _ ss env w _ (PCell c) (mkS tb tr)) by (lia || eassumption || reflexivity).
          rewrite (run_if tbl _ n 0 _ _ _ _ _ true);
            [|lia|rewrite <- Hn, nth_middle; reflexivity].
          cbn [ts_ty List.length]. replace (n + 1) with (S n) by lia.
          replace (fuel - 1 - 1) with (fuel - 2) by lia. reflexivity.
        * lia.
        * apply get_set_same.
        * intros j Hj _. apply get_set_other. exact Hj.
        * reflexivity.
        * lia.
        * reflexivity.
        * constructor; [|constructor]. intros more. apply entry_var. cbn [app]. subst n.
          rewrite nth_middle. symmetry. exact Hx.
    - (* FType *)
      cbn [need_field] in *. cbn [compile_field]. cbn [wt_field] in Hwt. cbn [enc_field] in Henc.
      destruct (Hty T a (look nm) bits refs Hwt Henc) as (tree & Hlk & Hrun).
      destruct (Hrun (fuel - 1) ty tb tr) as (ss1 & Hrun1 & Hget1); [lia|].
      exists 1, (set_slice ss sid (mkTS ty (mkS tb tr))), [look nm], [1], [(nm, EVar n)], ns.
      split; [|split; [|split; [|split; [|split; [|split; [|split]]]]]].
      + rewrite (run_call tbl fuel sid T a _ ss env w _ tree (look nm) ss1 _) by (lia || eassumption).
        cbn [List.length]. replace (n + 1) with (S n) by lia. reflexivity.
      + lia.
      + apply get_set_same.
      + intros j Hj _. apply get_set_other. exact Hj.
      + reflexivity.
      + lia.
      + reflexivity.
      + constructor; [|constructor]. intros more. apply entry_var. cbn [app]. subst n.
        rewrite nth_middle. reflexivity.
    - (* FRefType *)
      cbn [need_field] in *. cbn [compile_field]. cbn [wt_field] in Hwt. cbn [enc_field] in Henc.
      destruct (enc_type st d T a (look nm)) as [[b r]|e] eqn:Hinner; cbn [bind] in Henc; [|discriminate].
      inversion Henc; subst bits refs; clear Henc.
      destruct (Hty T a (look nm) b r Hwt Hinner) as (tree & Hlk & Hrun).
      destruct (Hrun (fuel - 1 - 1) ty_ordinary [] []) as (ss1 & Hrun1 & Hget1); [lia|].
      rewrite !app_nil_r in Hrun1.
      set (ssA := set_slice (set_slice ss sid (mkTS ty (mkS tb tr))) ns (mkTS ty_ordinary (mkS b r))).
      exists 2, (set_slice ssA ns (mkTS ty_ordinary (mkS [] []))),
             [PCell (Cell ty_ordinary b r); look nm], [1; 1], [(nm, EVar (S n))], (S ns).
      split; [|split; [|split; [|split; [|split; [|split; [|split]]]]]].
      + rewrite (run_ref tbl fuel sid ns _ ss env w _ (Cell ty_ordinary b r) (mkS tb tr))
          by (lia || eassumption || reflexivity).
        cbn [ts_ty cell_slice]. fold ssA.
        rewrite (run_call tbl (fuel - 1) ns T a _ ssA _ _ (mkTS ty_ordinary (mkS b r)) tree (look nm) ss1
                   (mkTS ty_ordinary (mkS [] []))); [|lia|apply get_set_same|assumption|assumption|assumption].
        rewrite <- !app_assoc. cbn [List.length app].
        replace (n + 2) with (S (S n)) by lia. replace (fuel - 1 - 1) with (fuel - 2) by lia. reflexivity.
      + lia.
      + rewrite get_set_other by lia. unfold ssA. rewrite get_set_other by lia. apply get_set_same.
      + intros j Hj Hlt. rewrite get_set_other by lia. unfold ssA. rewrite get_set_other by lia.
        apply get_set_other. exact Hj.
      + reflexivity.
      + lia.
      + reflexivity.
      + constructor; [|constructor]. intros more. apply entry_var. cbn [app]. subst n.
        change (PCell (Cell ty_ordinary b r) :: look nm :: more)
          with ([PCell (Cell ty_ordinary b r)] ++ look nm :: more).
        rewrite app_assoc. replace (S (List.length env)) with (List.length (env ++ [PCell (Cell ty_ordinary b r)]))
          by (rewrite app_length; cbn; lia).
        rewrite nth_middle. reflexivity.
    - (* FMaybe *)
      cbn [need_field] in *. cbn [compile_field]. cbn [wf_fty] in Hwf.
      destruct (maybe_cases (look nm)) as [Hx|Hx].
      + rewrite Hx in Henc. cbn [enc_field ok_bits] in Henc. inversion Henc; subst bits refs; clear Henc.
        exists 2, (set_slice ss sid (mkTS ty (mkS tb tr))), [PBool false], [1], [(nm, ENone)], ns.
        split; [|split; [|split; [|split; [|split; [|split; [|split]]]]]].
        * rewrite (run_prim tbl fuel sid OBit _ ss env w _ (PBool false) (mkS tb tr)) by (lia || eassumption || reflexivity).
          rewrite (run_if tbl _ n 0 _ _ _ _ _ false);
            [|lia|rewrite <- Hn, nth_middle; reflexivity].
          cbn [ts_ty List.length]. replace (n + 1) with (S n) by lia.
          replace (fuel - 1 - 1) with (fuel - 2) by lia. reflexivity.
        * lia.
        * apply get_set_same.
        * intros j Hj _. apply get_set_other. exact Hj.
        * reflexivity.
        * lia.
        * reflexivity.
        * constructor; [|constructor]. intros more. apply entry_none. exact Hx.
      + rewrite (enc_maybe_some _ g _ Hx) in Henc.
        destruct (enc_field (enc_type st d) g (look nm)) as [[b r]|e] eqn:Hinner; cbn [bind] in Henc; [|discriminate].
        inversion Henc; subst bits refs; clear Henc.
        pose proof (wt_maybe_some _ g _ Hx Hwt) as Hwt'.
        set (ssA := set_slice ss sid (mkTS ty (mkS (b ++ tb) (r ++ tr)))).
        destruct (IH nm look b r Hwf Hwt' Hinner sid (S n) ns acc k ssA (env ++ [PBool true]) (w ++ [1])
                     ty tb tr (fuel - 1 - 1)) as (c & ss' & vals & ws & acc' & ns' & Hrun & Hc & Hg & Hfr & Hlen & Hns & Hnames & Hev).
        { apply get_set_same. }
        { rewrite app_length. cbn. lia. }
        { rewrite app_length. cbn. lia. }
        { exact Hsid. }
        { lia. }
        exists (2 + c), ss', (PBool true :: vals), (1 :: ws), acc', ns'.
        split; [|split; [|split; [|split; [|split; [|split; [|split]]]]]].
        * rewrite (run_prim tbl fuel sid OBit _ ss env w _ (PBool true) (mkS (b ++ tb) (r ++ tr)))
            by (lia || eassumption || reflexivity).
          rewrite (run_if tbl _ n 0 _ _ _ _ _ true);
            [|lia|rewrite <- Hn, nth_middle; reflexivity].
          cbn [ts_ty op_width]. fold ssA. rewrite Hrun. rewrite <- !app_assoc. cbn [List.length app].
          replace (S n + List.length vals) with (n + S (List.length vals)) by lia.
          replace (fuel - 1 - 1 - c) with (fuel - (2 + c)) by lia. reflexivity.
        * lia.
        * exact Hg.
        * intros j Hj Hlt. rewrite (Hfr j Hj Hlt). unfold ssA. apply get_set_other. exact Hj.
        * cbn [List.length]. lia.
        * exact Hns.
        * exact Hnames.
        * eapply Forall_impl; [|exact Hev]. intros p Hp more. cbn beta in Hp.
          specialize (Hp more). rewrite <- !app_assoc in Hp. exact Hp.
    - (* FDict *)
      cbn [need_field] in *. cbn [compile_field]. cbn [wt_field] in Hwt. cbn [enc_field] in Henc.
      cbn [wf_fty] in Hwf. apply andb_prop in Hwf. destruct Hwf as [Hwf Hwfv].
      apply andb_prop in Hwf. destruct Hwf as [Hn1 Hn2]. apply Nat.leb_le in Hn1. apply Nat.leb_le in Hn2.
      destruct (look nm) as [z0|b0|bs0|l0|s0| |a0|c0|sl0|cls0 fs0|l0|kvs|l0|l0 ex0|] eqn:Hx; try contradiction.
      + (* the empty dictionary *)
        cbn [ok_bits] in Henc. inversion Henc; subst bits refs; clear Henc.
        exists 2, (set_slice ss sid (mkTS ty (mkS tb tr))), [PNone], [1], [(nm, ENone)], ns.
        split; [|split; [|split; [|split; [|split; [|split; [|split]]]]]].
        * rewrite (run_dict_empty tbl fuel sid dn _ _ ss env w _ (mkS tb tr)) by (lia || eassumption || reflexivity).
          rewrite (run_if tbl _ n 0 _ _ _ _ _ false);
            [|lia|rewrite <- Hn, nth_middle; reflexivity].
          cbn [ts_ty List.length]. replace (n + 1) with (S n) by lia.
          replace (fuel - 1 - 1) with (fuel - 2) by lia. reflexivity.
        * lia.
        * apply get_set_same.
        * intros j Hj _. apply get_set_other. exact Hj.
        * reflexivity.
        * lia.
        * reflexivity.
        * constructor; [|constructor]. intros more. apply entry_none. exact Hx.
      + (* a non-empty dictionary: the canonical tree of the encoded pairs *)
        destruct Hwt as (Hne & Hasc & Hall). apply all_of_Forall in Hall.
        destruct (mapM (fun kv => rmap (fun p => (enc dn (fst kv), p)) (enc_field (enc_type st d) vf (snd kv))) kvs)
          as [src|e0] eqn:Hsrc; cbn [bind] in Henc; [|discriminate].
        destruct (s_patricia (S dn) src) as [e|] eqn:Hpat; [|discriminate]. cbv zeta in Henc.
        destruct (vtree_ok (canon_kinds (canon_vtree e) dn) dn) eqn:Hvok; [|discriminate].
        inversion Henc; subst bits refs; clear Henc.
        set (vt := compile_field vf ""%string 0 0 1 []
                     (fun _ _ a => DRet (match a with [(_, e1)] => e1 | _ => ENone end))).
        destruct (dict_run vf dn vt (fuel - 1) kvs src) as [Hmap Hkeys].
        { (* every value is parsed back by the value tree *)
          intros kv b r Hin Henc1 Hwt1.
          destruct (IHvf ""%string (fun _ => snd kv) b r Hwfv Hwt1 Henc1 0 0 1 []
                      (fun _ _ a => DRet (match a with [(_, e1)] => e1 | _ => ENone end))
                      [(0, mkTS ty_ordinary (mkS (b ++ []) (r ++ [])))] [] [] ty_ordinary [] [] (fuel - 1))
            as (c & ss1 & vals & ws & acc1 & ns1 & Hrun & Hc & _ & _ & _ & _ & Hnames & Hev);
            try (reflexivity || lia).
          rewrite !app_nil_r in Hrun. fold vt in Hrun.
          destruct acc1 as [|[nm1 e1] [|q acc2]]; cbn [map] in Hnames; try discriminate.
          cbn [app] in Hrun. rewrite run_ret in Hrun by lia.
          exists ss1. rewrite Hrun. f_equal. f_equal.
          inversion Hev as [|p l Hp _]; subst. destruct (Hp []) as [He _]. cbn [app fst snd] in He.
          rewrite app_nil_r in He. apply He. }
        { exact Hsrc. }
        { exact Hall. }
        assert (Hrange : Forall (fun k => (0 <= k < 2 ^ Z.of_nat dn)%Z) (map fst kvs)).
        { apply Forall_map. eapply Forall_impl; [|exact Hall]. intros kv [H1 _]. exact H1. }
        assert (Hleaves : leaves_of (canon_kinds (canon_vtree e) dn) [] = map rt_conv src).
        { apply canon_leaves; [| |exact (asc_sorted dn src _ Hkeys Hasc Hrange)|exact Hpat].
          - rewrite Hkeys. apply asc_nodup; assumption.
          - exact (keys_length dn src _ Hkeys). }
        exists 2, (set_slice ss sid (mkTS ty (mkS tb tr))), [PDict kvs], [1], [(nm, EVar n)], ns.
        split; [|split; [|split; [|split; [|split; [|split; [|split]]]]]].
        * rewrite (run_dict_some tbl fuel sid dn vt _ ss env w
                     (mkTS ty (mkS ([true] ++ tb) ([cell_of (canon_kinds (canon_vtree e) dn) dn] ++ tr)))
                     (map rt_conv src) (mkS tb tr) kvs);
            [|lia|exact Hget| |exact Hmap].
          -- rewrite (run_if tbl _ n 0 _ _ _ _ _ true);
               [|lia|rewrite <- Hn, nth_middle; reflexivity].
             cbn [ts_ty List.length]. replace (n + 1) with (S n) by lia.
             replace (fuel - 1 - 1) with (fuel - 2) by lia. reflexivity.
          -- cbn [ts_s app]. rewrite <- Hleaves.
             apply load_dict_valid; [lia|exact Hvok|apply canon_cell_ordinary].
        * lia.
        * apply get_set_same.
        * intros j Hj _. apply get_set_other. exact Hj.
        * reflexivity.
        * lia.
        * reflexivity.
        * constructor; [|constructor]. intros more. apply entry_var. cbn [app]. subst n.
          rewrite nth_middle. symmetry. exact Hx.
    - (* FConst *)
      cbn [need_field] in *. cbn [compile_field]. cbn [wt_field] in Hwt.
      cbn [enc_field ok_bits] in Henc. inversion Henc; subst bits refs; clear Henc.
      exists 0, ss, [], [], [(nm, cval_expr cv)], ns.
      split; [|split; [|split; [|split; [|split; [|split; [|split]]]]]].
      + cbn [List.length]. rewrite !app_nil_r, Nat.add_0_r, Nat.sub_0_r. reflexivity.
      + lia.
      + exact Hget.
      + intros j _ _. reflexivity.
      + reflexivity.
      + lia.
      + reflexivity.
      + constructor; [|constructor]. intros more. apply entry_const. exact Hwt.
  Qed.

  (* sequencing two segments read from the same sub-slice *)
  Lemma post_seq t1 k1 k names1 names2 look sid n ns acc ss env w ty tb1 tr1 tb tr fuel b1 b2 :
    acc_ok look env acc ->
    post t1 k1 names1 look sid n ns acc ss env w ty tb1 tr1 fuel b1 ->
    (forall c ss1 vals1 ws1 acc1 ns1,
        c <= b1 -> get_slice ss1 sid = Ok (mkTS ty (mkS tb1 tr1)) ->
        List.length ws1 = List.length vals1 -> ns <= ns1 ->
        map fst acc1 = names1 -> acc_ok look (env ++ vals1) (acc ++ acc1) ->
        post (k1 (n + List.length vals1) ns1 (acc ++ acc1)) k names2 look sid (n + List.length vals1) ns1
             (acc ++ acc1) ss1 (env ++ vals1) (w ++ ws1) ty tb tr (fuel - c) b2) ->
    post t1 k (names1 ++ names2) look sid n ns acc ss env w ty tb tr fuel (b1 + b2).
  Proof.
    intros Hacc (c1 & ss1 & vals1 & ws1 & acc1 & ns1 & Hrun1 & Hc1 & Hg1 & Hfr1 & Hlen1 & Hns1 & Hnm1 & Hev1) H2.
    assert (Hacc1 : acc_ok look (env ++ vals1) (acc ++ acc1)).
    { unfold acc_ok. apply Forall_app. split.
      - apply acc_ok_ext. exact Hacc.
      - eapply Forall_impl; [|exact Hev1]. intros p Hp more. cbn beta in Hp.
        specialize (Hp more). rewrite app_assoc in Hp. exact Hp. }
    destruct (H2 c1 ss1 vals1 ws1 acc1 ns1 Hc1 Hg1 Hlen1 Hns1 Hnm1 Hacc1)
      as (c2 & ss2 & vals2 & ws2 & acc2 & ns2 & Hrun2 & Hc2 & Hg2 & Hfr2 & Hlen2 & Hns2 & Hnm2 & Hev2).
    exists (c1 + c2), ss2, (vals1 ++ vals2), (ws1 ++ ws2), (acc1 ++ acc2), ns2.
    split; [|split; [|split; [|split; [|split; [|split; [|split]]]]]].
    - rewrite Hrun1, Hrun2. rewrite <- !app_assoc. rewrite app_length.
      replace (n + List.length vals1 + List.length vals2) with (n + (List.length vals1 + List.length vals2)) by lia.
      replace (fuel - c1 - c2) with (fuel - (c1 + c2)) by lia. reflexivity.
    - lia.
    - exact Hg2.
    - intros j Hj Hlt. rewrite (Hfr2 j Hj) by lia. apply Hfr1; assumption.
    - rewrite !app_length. lia.
    - lia.
    - rewrite map_app. congruence.
    - apply Forall_app. split.
      + eapply Forall_impl; [|exact Hev1]. intros p Hp more. cbn beta in Hp.
        specialize (Hp (vals2 ++ more)). rewrite <- !app_assoc. exact Hp.
      + eapply Forall_impl; [|exact Hev2]. intros p Hp more. cbn beta in Hp.
        specialize (Hp more). rewrite <- !app_assoc in Hp. rewrite <- !app_assoc. exact Hp.
  Qed.

  Lemma post_nil k look sid n ns acc ss env w ty tb tr fuel :
    get_slice ss sid = Ok (mkTS ty (mkS tb tr)) ->
    post (k n ns acc) k [] look sid n ns acc ss env w ty tb tr fuel 0.
  Proof.
    intros Hget. exists 0, ss, [], [], [], ns.
    split; [|split; [|split; [|split; [|split; [|split; [|split]]]]]];
      try (reflexivity || lia || assumption || constructor).
    cbn [List.length]. rewrite !app_nil_r, Nat.add_0_r, Nat.sub_0_r. reflexivity.
  Qed.

  Lemma fields_correct : forall fs look bits refs,
    forallb (fun p => wf_fty (snd p)) fs = true -> wt_fields (wt_type st d) look fs ->
    enc_fields (enc_type st d) look fs = Ok (bits, refs) ->
    forall sid n ns acc k ss env w ty tb tr fuel,
      get_slice ss sid = Ok (mkTS ty (mkS (bits ++ tb) (refs ++ tr))) ->
      List.length env = n -> List.length w = n -> sid < ns -> need_fields (need_type st d) fs <= fuel ->
      acc_ok look env acc ->
      post (compile_fields fs sid n ns acc k) k (map fst fs) look sid n ns acc ss env w ty tb tr fuel
           (need_fields (need_type st d) fs).
  Proof.
    induction fs as [|[nm f] r IH];
      intros look bits refs Hwf Hwt Henc sid n ns acc k ss env w ty tb tr fuel Hget Hn Hw Hsid Hfuel Hacc.
    - cbn [enc_fields] in Henc. inversion Henc; subst bits refs.
      cbn [compile_fields map need_fields fold_right]. apply post_nil. exact Hget.
    - cbn [enc_fields] in Henc. cbn [forallb snd] in Hwf. apply andb_prop in Hwf. destruct Hwf as [Hwf1 Hwf2].
      cbn [wt_fields] in Hwt. destruct Hwt as [Hwt1 Hwt2].
      destruct (enc_field (enc_type st d) f (look nm)) as [[b1 r1]|e] eqn:H1; cbn [bind] in Henc; [|discriminate].
      destruct (enc_fields (enc_type st d) look r) as [[b2 r2]|e] eqn:H2; cbn [bind] in Henc; [|discriminate].
      inversion Henc; subst bits refs; clear Henc. rewrite <- !app_assoc in Hget.
      cbn [compile_fields map fst]. change (nm :: map fst r) with ([nm] ++ map fst r).
      change (need_fields (need_type st d) ((nm, f) :: r))
        with (need_field (need_type st d) f + need_fields (need_type st d) r) in *.
      eapply post_seq.
      + exact Hacc.
      + eapply field_correct; try eassumption. lia.
      + intros c ss1 vals1 ws1 acc1 ns1 Hc Hg1 Hlen1 Hns1 Hnm1 Hacc1.
        eapply IH; try eassumption; try (rewrite app_length; lia); lia.
  Qed.

  Lemma list_beq_eq a : forall b, list_beq a b = true -> a = b.
  Proof.
    induction a as [|x a IH]; intros [|y b] H; cbn [list_beq] in H; try discriminate; [reflexivity|].
    apply andb_prop in H. destruct H as [H1 H2]. apply eqb_prop in H1. subst y. f_equal. apply IH. exact H2.
  Qed.

  Lemma load_uint_raw bits tb r n : bits <> [] -> List.length bits = n ->
    s_load_uint (mkS (bits ++ tb) r) n = Ok (Z.of_N (of_bits bits), mkS tb r).
  Proof.
    intros Hne Hlen. unfold s_load_uint, s_preload_uint. cbn [s_bits].
    rewrite firstn_app_exact by exact Hlen. unfold ba2int. destruct bits as [|x bits]; [contradiction|].
    cbn [bind]. rewrite s_skip_app by exact Hlen. reflexivity.
  Qed.

  (* a run of constant bits read at once: what the bit tests see is what was encoded *)
  Lemma chunk_load c bits k sid ss env w ty tb tr fuel :
    chunk_ok c bits = true -> get_slice ss sid = Ok (mkTS ty (mkS (bits ++ tb) tr)) -> 1 <= fuel ->
    exists val,
      run tbl fuel (DOp sid (chunk_op c) k) ss env w
      = run tbl (fuel - 1) k (set_slice ss sid (mkTS ty (mkS tb tr))) (env ++ [val]) (w ++ [chunk_width c])
      /\ bits_of_pv val (chunk_width c) = bits.
  Proof.
    unfold chunk_ok. intros Hok Hget Hfuel.
    apply andb_prop in Hok. destruct Hok as [Hok Hview]. apply andb_prop in Hok. destruct Hok as [Hw1 Hlen].
    apply list_beq_eq in Hview. apply Nat.leb_le in Hw1. apply Nat.eqb_eq in Hlen.
    destruct c as [n|n|k0]; cbn [chunk_op chunk_width chunk_view] in *.
    - exists (PBits bits). split; [|reflexivity].
      rewrite (run_prim tbl fuel sid (OBits n) k ss env w _ (PBits bits) (mkS tb tr) Hfuel Hget).
      + reflexivity.
      + cbn [prim_load ts_s]. subst n. rewrite load_bits_app. reflexivity.
    - exists (PInt (Z.of_N (of_bits bits))). split.
      + rewrite (run_prim tbl fuel sid (OUint n) k ss env w _ (PInt (Z.of_N (of_bits bits))) (mkS tb tr) Hfuel Hget).
        * reflexivity.
        * cbn [prim_load ts_s]. rewrite load_uint_raw; [reflexivity| |exact Hlen].
          intros ->. cbn in Hlen. lia.
      + cbn [bits_of_pv]. rewrite N2Z.id. exact Hview.
    - exists (PBytes (bits_to_bytes bits)). split; [|exact Hview].
      rewrite (run_prim tbl fuel sid (OBytes k0) k ss env w _ (PBytes (bits_to_bytes bits)) (mkS tb tr) Hfuel Hget).
      + reflexivity.
      + cbn [prim_load ts_s]. unfold s_load_bytes, s_preload_bytes.
        rewrite s_skip_app by lia. cbn [bind s_bits]. rewrite firstn_app_exact by lia. reflexivity.
  Qed.

  Lemma check_bits_ok : forall bits pre v i t ss env w fuel,
    bits_of_pv (nth v env PNone) (nth v w 1) = pre ++ bits -> List.length pre = i ->
    List.length bits <= fuel ->
    run tbl fuel (check_bits v i bits t) ss env w = run tbl (fuel - List.length bits) t ss env w.
  Proof.
    induction bits as [|b r IH]; intros pre v i t ss env w fuel Hbits Hpre Hfuel.
    - cbn [check_bits List.length]. rewrite Nat.sub_0_r. reflexivity.
    - cbn [List.length] in *.
      assert (Hnth : nth i (bits_of_pv (nth v env PNone) (nth v w 1)) false = b).
      { rewrite Hbits. subst i. apply nth_middle. }
      assert (Hrec : run tbl (fuel - 1) (check_bits v (S i) r t) ss env w
                     = run tbl (fuel - S (List.length r)) t ss env w).
      { rewrite (IH (pre ++ [b]) v (S i) t ss env w (fuel - 1)).
        - f_equal. lia.
        - rewrite <- app_assoc. exact Hbits.
        - rewrite app_length. cbn. lia.
        - lia. }
      cbn [check_bits]. destruct b.
      + rewrite (run_if tbl fuel v i _ _ ss env w true) by (lia || exact Hnth). exact Hrec.
      + rewrite (run_if tbl fuel v i _ _ ss env w false) by (lia || exact Hnth). exact Hrec.
  Qed.

  Definition compile_item (it : item) (sid n ns : nat) (acc : list (string * dexpr)) (k1 : kont) : dtree :=
    match it with
    | INamed nm f => compile_field f nm sid n ns acc k1
    | IGroup fs => DOp sid (ORef ns) (compile_fields fs ns (S n) (S ns) acc k1)
    | IConst c bits => DOp sid (chunk_op c) (check_bits n 0 bits (k1 (S n) ns acc))
    | INamedHex nm hexnm w =>
        DOp sid (OBytes w) (k1 (S n) ns (acc ++ [(nm, EVar n); (hexnm, EHex (EVar n))]))
    | IGuard op a b => DGuard op (gexpr_of acc a) (gexpr_of acc b) DFail (k1 n ns acc)
    end.

  (* the integer a constraint operand denotes at run time *)
  Definition rnum (env : list pv) (g : gexpr) : Z :=
    match g with GConst z => z | GVar k => numof (nth k env PNone) end.

  Lemma run_guard fuel op ga gb t0 t1 ss env w :
    1 <= fuel ->
    (let x := rnum env ga in let y := rnum env gb in
     match op with GLt => x <? y | GLe => x <=? y | GGt => y <? x | GGe => y <=? x end)%Z = true ->
    run tbl fuel (DGuard op ga gb t0 t1) ss env w = run tbl (fuel - 1) t1 ss env w.
  Proof.
    intros Hfuel Hc. destruct fuel as [|f]; [lia|]. replace (S f - 1) with f by lia.
    cbn [run]. unfold rnum, numof in Hc. cbv zeta in Hc.
    destruct ga, gb; cbv zeta; rewrite Hc; reflexivity.
  Qed.

  Lemma assoc_expr_in nm : forall acc, existsb (String.eqb nm) (map fst acc) = true ->
    In (nm, assoc_expr nm acc) acc.
  Proof.
    induction acc as [|[k e] r IH]; cbn [map existsb assoc_expr fst]; intros H; [discriminate|].
    rewrite String.eqb_sym in H. destruct (String.eqb_spec k nm) as [->|Hne].
    - left. reflexivity.
    - right. apply IH. exact H.
  Qed.

  Lemma gexpr_num look env acc g :
    acc_ok look env acc -> gref_bound (map fst acc) g = true ->
    rnum env (gexpr_of acc g) = gnum look g.
  Proof.
    intros Hacc Hb. destruct g as [nm|z]; [|reflexivity].
    cbn [gref_bound] in Hb. cbn [gexpr_of gnum].
    pose proof (assoc_expr_in nm acc Hb) as Hin.
    unfold acc_ok in Hacc. rewrite Forall_forall in Hacc. specialize (Hacc _ Hin []).
    rewrite app_nil_r in Hacc. destruct Hacc as [_ Hnum]. cbn [fst snd] in Hnum. rewrite <- Hnum.
    destruct (assoc_expr nm acc) as [i|z|[|]|s|l| |cls fs|l|e|e| |]; reflexivity.
  Qed.

  Lemma compile_items_cons it r sid n ns acc k :
    compile_items (it :: r) sid n ns acc k
    = compile_item it sid n ns acc (fun n' ns' acc' => compile_items r sid n' ns' acc' k).
  Proof. destruct it; reflexivity. Qed.

  Lemma item_correct it look bits refs :
    wf_item it = true -> wt_item (wt_type st d) look it ->
    enc_item (enc_type st d) look it = Ok (bits, refs) ->
    forall sid n ns acc k ss env w ty tb tr fuel,
      get_slice ss sid = Ok (mkTS ty (mkS (bits ++ tb) (refs ++ tr))) ->
      List.length env = n -> List.length w = n -> sid < ns -> need_item (need_type st d) it <= fuel ->
      acc_ok look env acc ->
      match it with IGuard _ a b => gref_bound (map fst acc) a && gref_bound (map fst acc) b | _ => true end
      = true ->
      post (compile_item it sid n ns acc k) k (item_names it) look sid n ns acc ss env w ty tb tr fuel
           (need_item (need_type st d) it).
  Proof.
    intros Hwf Hwt Henc sid n ns acc k ss env w ty tb tr fuel Hget Hn Hw Hsid Hfuel Hacc Hbound.
    destruct it as [nm f|fs|c cbits|nm hexnm wd|op ga gb];
      cbn [wf_item wt_item enc_item compile_item item_names need_item] in *.
    - eapply field_correct; eassumption.
    - destruct (enc_fields (enc_type st d) look fs) as [[b r]|e] eqn:Hinner; cbn [bind] in Henc; [|discriminate].
      inversion Henc; subst bits refs; clear Henc.
      set (ssA := set_slice (set_slice ss sid (mkTS ty (mkS tb tr))) ns (mkTS ty_ordinary (mkS b r))).
      destruct (fields_correct fs look b r Hwf Hwt Hinner ns (S n) (S ns) acc k ssA
                  (env ++ [PCell (Cell ty_ordinary b r)]) (w ++ [1]) ty_ordinary [] [] (fuel - 1))
        as (c & ss' & vals & ws & acc' & ns' & Hrun & Hc & Hg & Hfr & Hlen & Hns & Hnames & Hev).
      { rewrite !app_nil_r. apply get_set_same. }
      { rewrite app_length. cbn. lia. }
      { rewrite app_length. cbn. lia. }
      { lia. }
      { lia. }
      { apply acc_ok_ext. exact Hacc. }
      exists (1 + c), ss', (PCell (Cell ty_ordinary b r) :: vals), (1 :: ws), acc', ns'.
      split; [|split; [|split; [|split; [|split; [|split; [|split]]]]]].
      + rewrite (run_ref tbl fuel sid ns _ ss env w _ (Cell ty_ordinary b r) (mkS tb tr))
          by (lia || eassumption || reflexivity).
        cbn [ts_ty cell_slice]. fold ssA. rewrite Hrun. rewrite <- !app_assoc. cbn [List.length app].
        replace (S n + List.length vals) with (n + S (List.length vals)) by lia.
        replace (fuel - 1 - c) with (fuel - (1 + c)) by lia. reflexivity.
      + lia.
      + rewrite Hfr by lia. unfold ssA. rewrite get_set_other by lia. apply get_set_same.
      + intros j Hj Hlt. rewrite Hfr by lia. unfold ssA. rewrite get_set_other by lia.
        apply get_set_other. exact Hj.
      + cbn [List.length]. lia.
      + lia.
      + exact Hnames.
      + eapply Forall_impl; [|exact Hev]. intros p Hp more. cbn beta in Hp.
        specialize (Hp more). rewrite <- !app_assoc in Hp. exact Hp.
    - cbn [ok_bits] in Henc. inversion Henc; subst bits refs; clear Henc. cbn [app] in Hget.
      destruct (chunk_load c cbits (check_bits n 0 cbits (k (S n) ns acc)) sid ss env w ty tb tr fuel Hwf Hget)
        as (val & Hrun & Hview); [lia|].
      exists (S (List.length cbits)), (set_slice ss sid (mkTS ty (mkS tb tr))), [val], [chunk_width c], [], ns.
      split; [|split; [|split; [|split; [|split; [|split; [|split]]]]]].
      + rewrite Hrun. rewrite (check_bits_ok cbits [] n 0 _ _ (env ++ [val]) (w ++ [chunk_width c]) (fuel - 1)).
        * cbn [List.length]. rewrite app_nil_r. replace (n + 1) with (S n) by lia.
          replace (fuel - 1 - List.length cbits) with (fuel - S (List.length cbits)) by lia. reflexivity.
        * rewrite <- Hn at 1. rewrite <- Hw. rewrite !nth_middle. exact Hview.
        * reflexivity.
        * lia.
      + lia.
      + apply get_set_same.
      + intros j Hj _. apply get_set_other. exact Hj.
      + reflexivity.
      + lia.
      + reflexivity.
      + constructor.
    - (* INamedHex *)
      destruct (look nm) as [z0|b0|bs|l0|s0| |a0|c0|sl0|cls0 fs0|l0|l0|l0|l0 ex0|] eqn:Hx; try contradiction.
      destruct Hwt as (Hlen & Hokb & Hhex).
      cbn [ok_bits] in Henc. inversion Henc; subst bits refs; clear Henc.
      exists 1, (set_slice ss sid (mkTS ty (mkS tb tr))), [PBytes bs], [8 * wd],
             [(nm, EVar n); (hexnm, EHex (EVar n))], ns.
      split; [|split; [|split; [|split; [|split; [|split; [|split]]]]]].
      + rewrite (run_prim tbl fuel sid (OBytes wd) _ ss env w _ (PBytes bs) (mkS tb tr) Hfuel Hget).
        * cbn [ts_ty List.length op_width]. replace (n + 1) with (S n) by lia. reflexivity.
        * cbn [prim_load ts_s app].
          rewrite load_bytes_app by (congruence || apply bytes_okb_ok; exact Hokb). reflexivity.
      + lia.
      + apply get_set_same.
      + intros j Hj _. apply get_set_other. exact Hj.
      + reflexivity.
      + lia.
      + reflexivity.
      + constructor; [|constructor; [|constructor]]; intros more; cbn [app]; subst n.
        * apply entry_var. rewrite nth_middle. symmetry. exact Hx.
        * apply (entry_hex _ _ _ _ bs); [apply nth_middle|exact Hhex].
    - (* IGuard *)
      cbn [ok_bits] in Henc. inversion Henc; subst bits refs; clear Henc.
      apply andb_prop in Hbound. destruct Hbound as [Hba Hbb].
      exists 1, ss, [], [], [], ns.
      split; [|split; [|split; [|split; [|split; [|split; [|split]]]]]].
      + rewrite (run_guard fuel op _ _ DFail _ ss env w Hfuel).
        * cbn [List.length]. rewrite !app_nil_r, Nat.add_0_r. reflexivity.
        * rewrite (gexpr_num look env acc ga Hacc Hba), (gexpr_num look env acc gb Hacc Hbb).
          exact Hwt.
      + lia.
      + exact Hget.
      + intros j _ _. reflexivity.
      + reflexivity.
      + lia.
      + reflexivity.
      + constructor.
  Qed.

  Lemma items_correct : forall its look bits refs,
    forallb wf_item its = true -> wt_items (wt_type st d) look its ->
    enc_items (enc_type st d) look its = Ok (bits, refs) ->
    forall sid n ns acc k ss env w ty tb tr fuel,
      get_slice ss sid = Ok (mkTS ty (mkS (bits ++ tb) (refs ++ tr))) ->
      List.length env = n -> List.length w = n -> sid < ns -> need_items (need_type st d) its <= fuel ->
      acc_ok look env acc -> guards_bound (map fst acc) its = true ->
      post (compile_items its sid n ns acc k) k (items_names its) look sid n ns acc ss env w ty tb tr fuel
           (need_items (need_type st d) its).
  Proof.
    induction its as [|it r IH];
      intros look bits refs Hwf Hwt Henc sid n ns acc k ss env w ty tb tr fuel Hget Hn Hw Hsid Hfuel
             Hacc Hgb.
    - cbn [enc_items] in Henc. inversion Henc; subst bits refs.
      cbn [compile_items items_names flat_map need_items fold_right]. apply post_nil. exact Hget.
    - cbn [enc_items] in Henc. cbn [forallb] in Hwf. apply andb_prop in Hwf. destruct Hwf as [Hwf1 Hwf2].
      cbn [wt_items] in Hwt. destruct Hwt as [Hwt1 Hwt2].
      destruct (enc_item (enc_type st d) look it) as [[b1 r1]|e] eqn:H1; cbn [bind] in Henc; [|discriminate].
      destruct (enc_items (enc_type st d) look r) as [[b2 r2]|e] eqn:H2; cbn [bind] in Henc; [|discriminate].
      inversion Henc; subst bits refs; clear Henc. rewrite <- !app_assoc in Hget.
      rewrite compile_items_cons.
      change (items_names (it :: r)) with (item_names it ++ items_names r).
      change (need_items (need_type st d) (it :: r))
        with (need_item (need_type st d) it + need_items (need_type st d) r) in *.
      cbn [guards_bound] in Hgb. apply andb_prop in Hgb. destruct Hgb as [Hgb1 Hgb2].
      eapply post_seq.
      + exact Hacc.
      + eapply item_correct; try eassumption. lia.
      + intros c ss1 vals1 ws1 acc1 ns1 Hc Hg1 Hlen1 Hns1 Hnm1 Hacc1.
        eapply IH; try eassumption; try (rewrite app_length; lia); try lia.
        rewrite map_app, Hnm1. exact Hgb2.
  Qed.

  (* ---- constructors ---- *)

  (* the tree runs to completion with value v, leaving fin in sub-slice 0 *)
  Definition finishes (t : dtree) (ss : slices) (env : list pv) (w : list nat) (fuel : nat) (v : pv)
      (fin : tslice) : Prop :=
    exists ss', run tbl fuel t ss env w = Ok (v, ss') /\ get_slice ss' 0 = Ok fin.

  Lemma cval_match_eq cv x : cval_matchb cv x = true ->
    forall env leaf, eval (cval_expr cv) env leaf = x.
  Proof.
    destruct cv, x; cbn [cval_matchb]; intros H env leaf; try discriminate; cbn [cval_expr eval].
    - apply String.eqb_eq in H. congruence.
    - reflexivity.
    - apply eqb_prop in H. congruence.
    - apply Z.eqb_eq in H. congruence.
  Qed.

  Lemma map_eval_look (look : string -> pv) E leaf (l : list (string * dexpr)) :
    Forall (fun p => eval (snd p) E leaf = look (fst p)) l ->
    map (fun '(n, x) => (n, eval x E leaf)) l = map (fun nm => (nm, look nm)) (map fst l).
  Proof.
    induction 1 as [|[nm e] r Hp Hr IH]; [reflexivity|].
    cbn [map fst snd] in *. rewrite Hp, IH. reflexivity.
  Qed.

  Lemma ctor_correct c v bits refs :
    forallb wf_item (c_items c) = true -> guards_bound [] (c_items c) = true ->
    (c_ret c = RNone -> c_items c = []) ->
    (c_ret c = RSame -> exists nm f, c_items c = [INamed nm f]) ->
    ctor_matches c v = true -> wt_ctor (wt_type st d) c v ->
    enc_items (enc_type st d) (ctor_look c v) (c_items c) = Ok (bits, refs) ->
    forall env w ty tb tr fuel, List.length w = List.length env -> need_ctor (need_type st d) c <= fuel ->
      finishes (compile_ctor c (List.length env)) [(0, mkTS ty (mkS (bits ++ tb) (refs ++ tr)))] env w fuel v
               (mkTS ty (mkS tb tr)).
  Proof.
    intros Hwf Hgb Hnone Hsame Hmatch [Hshape Hwt] Henc env w ty tb tr fuel Hw Hfuel.
    unfold need_ctor in Hfuel. unfold compile_ctor.
    destruct (items_correct (c_items c) (ctor_look c v) bits refs Hwf Hwt Henc 0 (List.length env) 1 []
                (fun _ _ acc => DRet (ret_expr (c_ret c) acc))
                [(0, mkTS ty (mkS (bits ++ tb) (refs ++ tr)))] env w ty tb tr fuel)
      as (c0 & ss' & vals & ws & acc' & ns' & Hrun & Hc & Hg & Hfr & Hlen & Hns & Hnames & Hev);
      try (reflexivity || lia || assumption || constructor).
    exists ss'. split; [|exact Hg].
    rewrite Hrun. rewrite run_ret by lia. f_equal. f_equal. cbn [app].
    set (leaf := match get_slice ss' 0 with Ok s => PSlice (ts_s s) | Err _ => PNone end).
    unfold ctor_look in Hev. destruct (c_ret c) as [cls consts| |] eqn:Hret.
    - cbn [ret_expr eval].
      rewrite (map_eval_look (field_of v)).
      + rewrite sort_names_fst. rewrite map_app, Hnames.
        replace (map fst (map (fun '(nm, cv) => (nm, cval_expr cv)) consts)) with (map fst consts).
        * symmetry. exact Hshape.
        * rewrite map_map. apply map_ext. intros [nm cv]. reflexivity.
      + apply sort_Forall. apply Forall_app. split.
        * unfold ctor_matches in Hmatch. rewrite Hret in Hmatch.
          destruct v as [| | | | | | | | |cls' fs| | | | |]; try discriminate.
          apply andb_prop in Hmatch. destruct Hmatch as [_ Hconsts].
          rewrite forallb_forall in Hconsts. apply Forall_forall. intros [nm e] Hin.
          apply in_map_iff in Hin. destruct Hin as ([nm' cv] & Heq & Hin). inversion Heq; subst nm e.
          cbn [fst snd field_of]. apply cval_match_eq. exact (Hconsts _ Hin).
        * eapply Forall_impl; [|exact Hev]. intros p Hp. cbn beta in Hp.
          destruct (Hp []) as [He _]. rewrite app_nil_r in He. apply He.
    - cbn [ret_expr eval]. symmetry. exact Hshape.
    - destruct (Hsame eq_refl) as (nm & f & Hits). rewrite Hits in Hnames.
      cbn [items_names flat_map item_names app] in Hnames.
      destruct acc' as [|[nm' e] [|q acc'']]; cbn [map] in Hnames; try discriminate.
      cbn [ret_expr]. inversion Hev as [|p l Hp _]; subst.
      destruct (Hp []) as [He _]. rewrite app_nil_r in He. cbn [fst snd] in He. apply He.
  Qed.

  (* ---- the tag tries ---- *)

  Lemma in_sub_tags x t c cs : In (x :: t, c) cs -> In (t, c) (sub_tags x cs).
  Proof.
    intros Hin. unfold sub_tags. apply in_flat_map. exists (x :: t, c). split; [exact Hin|].
    rewrite eqb_reflx. left. reflexivity.
  Qed.

  Lemma find_done_none cs c : find_done cs = None -> ~ In ([], c) cs.
  Proof.
    unfold find_done. intros H Hin.
    destruct (find (fun '(t, _) => match t with [] => true | _ => false end) cs) as [[t' c']|] eqn:Hf;
      [discriminate|].
    pose proof (find_none _ _ Hf _ Hin) as Hx. discriminate.
  Qed.

  Lemma trie_done_single fuel cs t c c' :
    trie_ok (S fuel) cs = true -> In (t, c) cs -> find_done cs = Some c' -> cs = [([], c)].
  Proof.
    intros Hok Hin Hfd. destruct cs as [|p cs']; [contradiction|].
    cbn [trie_ok] in Hok. rewrite Hfd in Hok. destruct cs' as [|q cs'']; [|discriminate].
    destruct Hin as [->|[]]. destruct t as [|x t]; [reflexivity|].
    cbn in Hfd. discriminate.
  Qed.

  Lemma trie_bits_correct : forall fuel cs t c,
    trie_ok fuel cs = true -> In (t, c) cs ->
    forall env w ty b r rfuel needc v fin,
      List.length w = List.length env -> 2 * List.length t + needc <= rfuel ->
      (forall env' w' rf, List.length w' = List.length env' -> needc <= rf ->
         finishes (compile_ctor c (List.length env')) [(0, mkTS ty (mkS b r))] env' w' rf v fin) ->
      finishes (trie_bits fuel cs (List.length env)) [(0, mkTS ty (mkS (t ++ b) r))] env w rfuel v fin.
  Proof.
    induction fuel as [|f IH]; intros cs t c Hok Hin env w ty b r rfuel needc v fin Hw Hfuel Hbody;
      [discriminate|].
    destruct (find_done cs) as [c'|] eqn:Hfd.
    - pose proof (trie_done_single f cs t c c' Hok Hin Hfd) as ->.
      destruct Hin as [Heq|[]]. inversion Heq; subst t.
      cbn [trie_bits find_done find]. cbn [app]. apply Hbody; [exact Hw|lia].
    - destruct t as [|x t]; [exfalso; exact (find_done_none cs c Hfd Hin)|].
      destruct cs as [|p cs']; [contradiction|]. remember (p :: cs') as cs eqn:Hcs.
      assert (Hok' : trie_ok f (sub_tags false cs) && trie_ok f (sub_tags true cs) = true).
      { rewrite Hcs in Hok. cbn [trie_ok] in Hok. rewrite <- Hcs in Hok. rewrite Hfd in Hok. exact Hok. }
      apply andb_prop in Hok'. destruct Hok' as [Hok0 Hok1].
      assert (Htree : trie_bits (S f) cs (List.length env)
                      = DOp 0 OBit (DIf (List.length env) 0
                                      (trie_bits f (sub_tags false cs) (S (List.length env)))
                                      (trie_bits f (sub_tags true cs) (S (List.length env))))).
      { rewrite Hcs. cbn [trie_bits]. rewrite <- Hcs. rewrite Hfd. reflexivity. }
      rewrite Htree. clear Htree. cbn [List.length app] in *.
      assert (Hrec : finishes (trie_bits f (sub_tags x cs) (List.length (env ++ [PBool x])))
                       [(0, mkTS ty (mkS (t ++ b) r))] (env ++ [PBool x]) (w ++ [1]) (rfuel - 1 - 1) v fin).
      { apply (IH (sub_tags x cs) t c) with (needc := needc).
        - destruct x; assumption.
        - apply in_sub_tags. exact Hin.
        - rewrite !app_length. cbn. lia.
        - lia.
        - exact Hbody. }
      destruct Hrec as (ss' & Hrun & Hget). exists ss'. split; [|exact Hget].
      rewrite (run_prim tbl rfuel 0 OBit _ _ env w (mkTS ty (mkS (x :: t ++ b) r)) (PBool x) (mkS (t ++ b) r))
        by (lia || reflexivity).
      rewrite (run_if tbl _ (List.length env) 0 _ _ _ _ _ x);
        [|lia|rewrite nth_middle; reflexivity].
      rewrite app_length in Hrun. cbn [List.length] in Hrun. rewrite Nat.add_1_r in Hrun.
      destruct x; exact Hrun.
  Qed.

  Lemma trie_chunk_correct : forall fuel cs t c,
    trie_ok fuel cs = true -> In (t, c) cs ->
    forall pre vidx ss env w rfuel needc v fin,
      bits_of_pv (nth vidx env PNone) (nth vidx w 1) = pre ++ t ->
      List.length t + needc <= rfuel ->
      (forall rf, needc <= rf -> finishes (compile_ctor c (S vidx)) ss env w rf v fin) ->
      finishes (trie_chunk fuel cs vidx (List.length pre)) ss env w rfuel v fin.
  Proof.
    induction fuel as [|f IH]; intros cs t c Hok Hin pre vidx ss env w rfuel needc v fin Hbits Hfuel Hbody;
      [discriminate|].
    destruct (find_done cs) as [c'|] eqn:Hfd.
    - pose proof (trie_done_single f cs t c c' Hok Hin Hfd) as ->.
      destruct Hin as [Heq|[]]. inversion Heq; subst t.
      cbn [trie_chunk find_done find]. apply Hbody. lia.
    - destruct t as [|x t]; [exfalso; exact (find_done_none cs c Hfd Hin)|].
      destruct cs as [|p cs']; [contradiction|]. remember (p :: cs') as cs eqn:Hcs.
      assert (Hok' : trie_ok f (sub_tags false cs) && trie_ok f (sub_tags true cs) = true).
      { rewrite Hcs in Hok. cbn [trie_ok] in Hok. rewrite <- Hcs in Hok. rewrite Hfd in Hok. exact Hok. }
      apply andb_prop in Hok'. destruct Hok' as [Hok0 Hok1].
      assert (Htree : trie_chunk (S f) cs vidx (List.length pre)
                      = DIf vidx (List.length pre)
                          (trie_chunk f (sub_tags false cs) vidx (S (List.length pre)))
                          (trie_chunk f (sub_tags true cs) vidx (S (List.length pre)))).
      { rewrite Hcs. cbn [trie_chunk]. rewrite <- Hcs. rewrite Hfd. reflexivity. }
      rewrite Htree. clear Htree. cbn [List.length] in *.
      assert (Hrec : finishes (trie_chunk f (sub_tags x cs) vidx (List.length (pre ++ [x])))
                       ss env w (rfuel - 1) v fin).
      { apply (IH (sub_tags x cs) t c) with (needc := needc).
        - destruct x; assumption.
        - apply in_sub_tags. exact Hin.
        - rewrite <- app_assoc. exact Hbits.
        - lia.
        - exact Hbody. }
      destruct Hrec as (ss' & Hrun & Hget). exists ss'. split; [|exact Hget].
      rewrite (run_if tbl rfuel vidx (List.length pre) _ _ ss env w x);
        [|lia|rewrite Hbits; apply nth_middle].
      rewrite app_length in Hrun. cbn [List.length] in Hrun. rewrite Nat.add_1_r in Hrun.
      destruct x; exact Hrun.
  Qed.

  (* ---- layouts ---- *)

  Lemma tag_fuel_bound cs c : In c cs -> List.length (c_tag c) < tag_fuel cs.
  Proof.
    unfold tag_fuel. induction cs as [|c' r IH]; intros Hin; [contradiction|].
    cbn [fold_right]. destruct Hin as [->|Hin]; [lia|]. specialize (IH Hin). lia.
  Qed.

  Lemma need_ctor_bound nty cs c : In c cs ->
    need_ctor nty c <= fold_right (fun c m => Nat.max (need_ctor nty c) m) 0 cs.
  Proof.
    induction cs as [|c' r IH]; intros Hin; [contradiction|].
    cbn [fold_right]. destruct Hin as [->|Hin]; [lia|]. specialize (IH Hin). lia.
  Qed.

  Lemma layout_correct L v bits refs :
    wf_layout L = true -> wt_layout (wt_type st d) L v -> enc_layout (enc_type st d) L v = Ok (bits, refs) ->
    forall fuel ty tb tr, need_layout (need_type st d) L <= fuel ->
      finishes (compile L) [(0, mkTS ty (mkS (bits ++ tb) (refs ++ tr)))] [] [] fuel v (mkTS ty (mkS tb tr)).
  Proof.
    unfold wf_layout, wt_layout, enc_layout, need_layout.
    intros Hwf Hwt Henc fuel ty tb tr Hfuel.
    apply andb_prop in Hwf. destruct Hwf as [Hctors Htrie].
    destruct (find (fun c => ctor_matches c v) (t_ctors L)) as [c|] eqn:Hfind; [|contradiction].
    apply find_some in Hfind. destruct Hfind as [Hin Hmatch].
    rewrite forallb_forall in Hctors. specialize (Hctors c Hin). unfold wf_ctor in Hctors.
    apply andb_prop in Hctors. destruct Hctors as [Hctors Hmode].
    apply andb_prop in Hctors. destruct Hctors as [Hctors Hnone].
    apply andb_prop in Hctors. destruct Hctors as [Hitems Hgb].
    unfold enc_ctor in Henc.
    destruct (enc_items (enc_type st d) (ctor_look c v) (c_items c)) as [[b0 r0]|e] eqn:Hinner;
      cbn [bind] in Henc; [|discriminate].
    inversion Henc; subst bits refs; clear Henc.
    pose proof (tag_fuel_bound _ _ Hin) as Htag.
    pose proof (need_ctor_bound (need_type st d) _ _ Hin) as Hneed.
    assert (HinT : In (c_tag c, c) (tagged_of (t_ctors L))).
    { unfold tagged_of. apply in_map_iff. exists c. split; [reflexivity|exact Hin]. }
    assert (Hnone' : c_ret c = RNone -> c_items c = []).
    { intros E. rewrite E in Hnone. destruct (c_items c); [reflexivity|discriminate]. }
    assert (Hsame' : c_ret c = RSame -> exists nm f, c_items c = [INamed nm f]).
    { intros E. rewrite E in Hnone. destruct (c_items c) as [|[nm f| | | |] [|it r]]; try discriminate.
      exists nm, f. reflexivity. }
    unfold compile. destruct (t_mode L) as [|ck].
    - rewrite <- app_assoc. change 0 with (List.length (@nil pv)).
      apply (trie_bits_correct _ _ _ c Htrie HinT [] [] ty (b0 ++ tb) (r0 ++ tr) fuel
               (need_ctor (need_type st d) c)); [reflexivity|lia|].
      intros env' w' rf Hw' Hrf.
      apply (ctor_correct c v b0 r0 Hitems Hgb Hnone' Hsame' Hmatch Hwt Hinner env' w' ty tb tr rf Hw' Hrf).
    - rewrite <- app_assoc.
      destruct (chunk_load ck (c_tag c) (trie_chunk (tag_fuel (t_ctors L)) (tagged_of (t_ctors L)) 0 0) 0
                  [(0, mkTS ty (mkS (c_tag c ++ b0 ++ tb) (r0 ++ tr)))] [] [] ty (b0 ++ tb) (r0 ++ tr) fuel
                  Hmode eq_refl) as (val & Hrun & Hview); [lia|].
      cbn [set_slice Nat.eqb app] in Hrun.
      assert (Hfin : finishes (trie_chunk (tag_fuel (t_ctors L)) (tagged_of (t_ctors L)) 0 (List.length (@nil bool)))
                       [(0, mkTS ty (mkS (b0 ++ tb) (r0 ++ tr)))] [val] [chunk_width ck] (fuel - 1) v
                       (mkTS ty (mkS tb tr))).
      { apply (trie_chunk_correct _ _ _ c Htrie HinT [] 0 _ [val] [chunk_width ck] (fuel - 1)
                 (need_ctor (need_type st d) c)).
        - exact Hview.
        - lia.
        - intros rf Hrf.
          apply (ctor_correct c v b0 r0 Hitems Hgb Hnone' Hsame' Hmatch Hwt Hinner [val] [chunk_width ck] ty tb tr rf
                   eq_refl Hrf). }
      destruct Hfin as (ss' & Hrun' & Hget). exists ss'. split; [|exact Hget].
      rewrite Hrun. exact Hrun'.
  Qed.
End Correct.

(* ------------------------------------------------------------------------------------------------ *)
(* The generic theorem                                                                               *)
(* ------------------------------------------------------------------------------------------------ *)

(* the decision-tree table implements the layout table *)
Definition agree (tbl : table) (st : stable) : Prop :=
  forall T a L, slookup st T a = Some L -> lookup tbl T a = Some (compile L).

Lemma slookup_in st : forall T a L, slookup st T a = Some L -> exists T' a', In (T', a', L) st.
Proof.
  induction st as [|[[T' a'] L'] r IH]; intros T a L H; cbn [slookup] in H; [discriminate|].
  destruct (_ && _)%bool.
  - inversion H; subst. exists T', a'. left. reflexivity.
  - destruct (IH _ _ _ H) as (T1 & a1 & Hin). exists T1, a1. right. exact Hin.
Qed.

Lemma wf_table_lookup st T a L : wf_table st = true -> slookup st T a = Some L -> wf_layout L = true.
Proof.
  unfold wf_table. intros Hwf Hl. destruct (slookup_in _ _ _ _ Hl) as (T' & a' & Hin).
  rewrite forallb_forall in Hwf. exact (Hwf _ Hin).
Qed.

Theorem types_correct tbl st : wf_table st = true -> agree tbl st -> forall d, ty_ok tbl st d.
Proof.
  intros Hwf Hagree. induction d as [|d IH]; intros T a x bits refs Hwt Henc; [contradiction|].
  cbn [wt_type enc_type] in Hwt, Henc.
  destruct (slookup st T a) as [L|] eqn:Hl; [|contradiction].
  exists (compile L). split; [apply Hagree; exact Hl|].
  intros fuel ty tb tr Hfuel. cbn [need_type] in Hfuel. rewrite Hl in Hfuel.
  apply (layout_correct tbl st d IH L x bits refs (wf_table_lookup _ _ _ _ Hwf Hl) Hwt Henc fuel ty tb tr Hfuel).
Qed.

(* compile_correct: for every layout L of a well-formed table whose compiled trees the table tbl holds,
   every well-typed value v, and every continuation tb/tr of the cell: running compile L on the encoding of
   v followed by tb/tr returns v and leaves exactly tb/tr in the slice. *)
Theorem compile_correct tbl st d L v bits refs :
  forall (Hwf_table : wf_table st = true) (Hagree : agree tbl st) (Hwf_layout : wf_layout L = true)
         (Hwt : wt_layout (wt_type st d) L v)
         (Henc : enc_layout (enc_type st d) L v = Ok (bits, refs)),
  forall fuel ty tb tr, need_layout (need_type st d) L <= fuel ->
    exists ss', run tbl fuel (compile L) [(0, mkTS ty (mkS (bits ++ tb) (refs ++ tr)))] [] [] = Ok (v, ss')
                /\ get_slice ss' 0 = Ok (mkTS ty (mkS tb tr)).
Proof.
  intros Hwf_table Hagree Hwf_layout Hwt Henc fuel ty tb tr Hfuel.
  exact (layout_correct tbl st d (types_correct tbl st Hwf_table Hagree d) L v bits refs Hwf_layout Hwt Henc
           fuel ty tb tr Hfuel).
Qed.

(* the same for the entry point run_type *)
Theorem run_type_correct tbl st T a L v bits refs :
  forall (Hwf_table : wf_table st = true) (Hagree : agree tbl st) (Hwf_layout : wf_layout L = true)
         (Hlookup : lookup tbl T a = Some (compile L))
         (Hwt : wt st L v) (Henc : encode st L v = Ok (bits, refs)),
  forall fuel ty tb tr, need st L <= fuel ->
    run_type tbl fuel T a (Cell ty (bits ++ tb) (refs ++ tr)) = Ok (v, mkS tb tr).
Proof.
  unfold wt, encode, need. intros Hwf_table Hagree Hwf_layout Hlookup Hwt Henc fuel ty tb tr Hfuel.
  destruct (compile_correct tbl st tdepth L v bits refs Hwf_table Hagree Hwf_layout Hwt Henc fuel ty tb tr Hfuel)
    as (ss' & Hrun & Hget).
  unfold run_type. rewrite Hlookup. cbn [cell_slice]. rewrite Hrun. cbn [bind]. rewrite Hget. reflexivity.
Qed.

(* ------------------------------------------------------------------------------------------------ *)
(* What the library does (Gen/TlbImpl.v) IS the compilation of what block.tlb says (Spec/BlockTlb.v)  *)
(* ------------------------------------------------------------------------------------------------ *)
From PTQ Require Import Gen.TlbImpl Spec.BlockTlb.

Lemma zlist_eq : forall a b : list Z, List.length a = List.length b ->
  forallb (fun p => Z.eqb (fst p) (snd p)) (combine a b) = true -> a = b.
Proof.
  induction a as [|x a IH]; intros [|y b] Hlen H; cbn [List.length] in Hlen; try discriminate; [reflexivity|].
  cbn [combine forallb fst snd] in H. apply andb_prop in H. destruct H as [H1 H2].
  apply Z.eqb_eq in H1. subst y. f_equal. apply IH; [lia|exact H2].
Qed.

Lemma agree_of_Forall tbl st :
  Forall (fun e => lookup tbl (fst (fst e)) (snd (fst e)) = Some (compile (snd e))) st -> agree tbl st.
Proof.
  induction 1 as [|[[T' a'] L'] r Hhd Htl IH]; intros T a L Hl; cbn [slookup] in Hl; [discriminate|].
  destruct ((T' =? T)%string && (List.length a' =? List.length a) &&
            forallb (fun p => Z.eqb (fst p) (snd p)) (combine a' a))%bool eqn:E.
  - inversion Hl; subst L'. apply andb_prop in E. destruct E as [E E3]. apply andb_prop in E.
    destruct E as [E1 E2]. apply String.eqb_eq in E1. apply Nat.eqb_eq in E2.
    pose proof (zlist_eq _ _ E2 E3). subst. exact Hhd.
  - apply IH. exact Hl.
Qed.

(* one computational check per type: the tree traced from the library's deserialize method is, node for
   node, the compilation of the layout transcribed from block.tlb *)
Lemma impl_AccStatusChange_is_spec : impl_AccStatusChange = compile spec_AccStatusChange.
Proof. vm_compute. reflexivity. Qed.
Lemma impl_AccountStatus_is_spec : impl_AccountStatus = compile spec_AccountStatus.
Proof. vm_compute. reflexivity. Qed.
Lemma impl_ComputeSkipReason_is_spec : impl_ComputeSkipReason = compile spec_ComputeSkipReason.
Proof. vm_compute. reflexivity. Qed.
Lemma impl_TickTock_is_spec : impl_TickTock = compile spec_TickTock.
Proof. vm_compute. reflexivity. Qed.
Lemma impl_ExtraCurrencyCollection_is_spec : impl_ExtraCurrencyCollection = compile spec_ExtraCurrencyCollection.
Proof. vm_compute. reflexivity. Qed.
Lemma impl_CurrencyCollection_is_spec : impl_CurrencyCollection = compile spec_CurrencyCollection.
Proof. vm_compute. reflexivity. Qed.
Lemma impl_StorageUsed_is_spec : impl_StorageUsed = compile spec_StorageUsed.
Proof. vm_compute. reflexivity. Qed.
Lemma impl_StorageUsedShort_is_spec : impl_StorageUsedShort = compile spec_StorageUsedShort.
Proof. vm_compute. reflexivity. Qed.
Lemma impl_StorageInfo_is_spec : impl_StorageInfo = compile spec_StorageInfo.
Proof. vm_compute. reflexivity. Qed.
Lemma impl_TrStoragePhase_is_spec : impl_TrStoragePhase = compile spec_TrStoragePhase.
Proof. vm_compute. reflexivity. Qed.
Lemma impl_TrCreditPhase_is_spec : impl_TrCreditPhase = compile spec_TrCreditPhase.
Proof. vm_compute. reflexivity. Qed.
Lemma impl_TrComputePhase_is_spec : impl_TrComputePhase = compile spec_TrComputePhase.
Proof. vm_compute. reflexivity. Qed.
Lemma impl_TrBouncePhase_is_spec : impl_TrBouncePhase = compile spec_TrBouncePhase.
Proof. vm_compute. reflexivity. Qed.
Lemma impl_TrActionPhase_is_spec : impl_TrActionPhase = compile spec_TrActionPhase.
Proof. vm_compute. reflexivity. Qed.
Lemma impl_ExtBlkRef_is_spec : impl_ExtBlkRef = compile spec_ExtBlkRef.
Proof. vm_compute. reflexivity. Qed.
Lemma impl_BlkMasterInfo_is_spec : impl_BlkMasterInfo = compile spec_BlkMasterInfo.
Proof. vm_compute. reflexivity. Qed.
Lemma impl_GlobalVersion_is_spec : impl_GlobalVersion = compile spec_GlobalVersion.
Proof. vm_compute. reflexivity. Qed.
Lemma impl_ShardIdent_is_spec : impl_ShardIdent = compile spec_ShardIdent.
Proof. vm_compute. reflexivity. Qed.
Lemma impl_FutureSplitMerge_is_spec : impl_FutureSplitMerge = compile spec_FutureSplitMerge.
Proof. vm_compute. reflexivity. Qed.
Lemma impl_SplitMergeInfo_is_spec : impl_SplitMergeInfo = compile spec_SplitMergeInfo.
Proof. vm_compute. reflexivity. Qed.
Lemma impl_HashUpdate_is_spec : impl_HashUpdate = compile spec_HashUpdate.
Proof. vm_compute. reflexivity. Qed.
Lemma impl_IntermediateAddress_is_spec : impl_IntermediateAddress = compile spec_IntermediateAddress.
Proof. vm_compute. reflexivity. Qed.
Lemma impl_MsgMetadata_is_spec : impl_MsgMetadata = compile spec_MsgMetadata.
Proof. vm_compute. reflexivity. Qed.
Lemma impl_InternalMsgInfo_is_spec : impl_InternalMsgInfo = compile spec_InternalMsgInfo.
Proof. vm_compute. reflexivity. Qed.
Lemma impl_ExternalMsgInfo_is_spec : impl_ExternalMsgInfo = compile spec_ExternalMsgInfo.
Proof. vm_compute. reflexivity. Qed.
Lemma impl_ExternalOutMsgInfo_is_spec : impl_ExternalOutMsgInfo = compile spec_ExternalOutMsgInfo.
Proof. vm_compute. reflexivity. Qed.
Lemma impl_StateInit_is_spec : impl_StateInit = compile spec_StateInit.
Proof. vm_compute. reflexivity. Qed.
Lemma impl_SigPubKey_is_spec : impl_SigPubKey = compile spec_SigPubKey.
Proof. vm_compute. reflexivity. Qed.
Lemma impl_CatchainConfig_is_spec : impl_CatchainConfig = compile spec_CatchainConfig.
Proof. vm_compute. reflexivity. Qed.
Lemma impl_ValidatorDescr_is_spec : impl_ValidatorDescr = compile spec_ValidatorDescr.
Proof. vm_compute. reflexivity. Qed.
Lemma impl_TransactionOrdinary_is_spec : impl_TransactionOrdinary = compile spec_TransactionOrdinary.
Proof. vm_compute. reflexivity. Qed.
Lemma impl_TransactionStorage_is_spec : impl_TransactionStorage = compile spec_TransactionStorage.
Proof. vm_compute. reflexivity. Qed.
Lemma impl_TransactionTickTock_is_spec : impl_TransactionTickTock = compile spec_TransactionTickTock.
Proof. vm_compute. reflexivity. Qed.
Lemma impl_TransactionSplitPrepare_is_spec : impl_TransactionSplitPrepare = compile spec_TransactionSplitPrepare.
Proof. vm_compute. reflexivity. Qed.
Lemma impl_TransactionSplitInstall_is_spec : impl_TransactionSplitInstall = compile spec_TransactionSplitInstall.
Proof. vm_compute. reflexivity. Qed.
Lemma impl_TransactionMergePrepare_is_spec : impl_TransactionMergePrepare = compile spec_TransactionMergePrepare.
Proof. vm_compute. reflexivity. Qed.
Lemma impl_TransactionMergeInstall_is_spec : impl_TransactionMergeInstall = compile spec_TransactionMergeInstall.
Proof. vm_compute. reflexivity. Qed.
Lemma impl_AccountState_is_spec : impl_AccountState = compile spec_AccountState.
Proof. vm_compute. reflexivity. Qed.
Lemma impl_AccountStorage_is_spec : impl_AccountStorage = compile spec_AccountStorage.
Proof. vm_compute. reflexivity. Qed.
Lemma impl_Account_is_spec : impl_Account = compile spec_Account.
Proof. vm_compute. reflexivity. Qed.
Lemma impl_DepthBalanceInfo_is_spec : impl_DepthBalanceInfo = compile spec_DepthBalanceInfo.
Proof. vm_compute. reflexivity. Qed.
Lemma impl_ImportFees_is_spec : impl_ImportFees = compile spec_ImportFees.
Proof. vm_compute. reflexivity. Qed.
Lemma impl_LibRef_is_spec : impl_LibRef = compile spec_LibRef.
Proof. vm_compute. reflexivity. Qed.
Lemma impl_MsgEnvelope_is_spec : impl_MsgEnvelope = compile spec_MsgEnvelope.
Proof. vm_compute. reflexivity. Qed.
Lemma impl_ValidatorInfo_is_spec : impl_ValidatorInfo = compile spec_ValidatorInfo.
Proof. vm_compute. reflexivity. Qed.
Lemma impl_KeyMaxLt_is_spec : impl_KeyMaxLt = compile spec_KeyMaxLt.
Proof. vm_compute. reflexivity. Qed.
Lemma impl_KeyExtBlkRef_is_spec : impl_KeyExtBlkRef = compile spec_KeyExtBlkRef.
Proof. vm_compute. reflexivity. Qed.
Lemma impl_Counters_is_spec : impl_Counters = compile spec_Counters.
Proof. vm_compute. reflexivity. Qed.
Lemma impl_CreatorStats_is_spec : impl_CreatorStats = compile spec_CreatorStats.
Proof. vm_compute. reflexivity. Qed.
Lemma impl_ConfigParam6_is_spec : impl_ConfigParam6 = compile spec_ConfigParam6.
Proof. vm_compute. reflexivity. Qed.
Lemma impl_ConfigParam7_is_spec : impl_ConfigParam7 = compile spec_ConfigParam7.
Proof. vm_compute. reflexivity. Qed.
Lemma impl_ConfigProposalSetup_is_spec : impl_ConfigProposalSetup = compile spec_ConfigProposalSetup.
Proof. vm_compute. reflexivity. Qed.
Lemma impl_ConfigVotingSetup_is_spec : impl_ConfigVotingSetup = compile spec_ConfigVotingSetup.
Proof. vm_compute. reflexivity. Qed.
Lemma impl_WcSplitMergeTimings_is_spec : impl_WcSplitMergeTimings = compile spec_WcSplitMergeTimings.
Proof. vm_compute. reflexivity. Qed.
Lemma impl_ComplaintPricing_is_spec : impl_ComplaintPricing = compile spec_ComplaintPricing.
Proof. vm_compute. reflexivity. Qed.
Lemma impl_BlockCreateFees_is_spec : impl_BlockCreateFees = compile spec_BlockCreateFees.
Proof. vm_compute. reflexivity. Qed.
Lemma impl_ConfigParam15_is_spec : impl_ConfigParam15 = compile spec_ConfigParam15.
Proof. vm_compute. reflexivity. Qed.
Lemma impl_ConfigParam17_is_spec : impl_ConfigParam17 = compile spec_ConfigParam17.
Proof. vm_compute. reflexivity. Qed.
Lemma impl_StoragePrices_is_spec : impl_StoragePrices = compile spec_StoragePrices.
Proof. vm_compute. reflexivity. Qed.
Lemma impl_BlockLimits_is_spec : impl_BlockLimits = compile spec_BlockLimits.
Proof. vm_compute. reflexivity. Qed.
Lemma impl_MsgForwardPrices_is_spec : impl_MsgForwardPrices = compile spec_MsgForwardPrices.
Proof. vm_compute. reflexivity. Qed.
Lemma impl_ConfigParam32_is_spec : impl_ConfigParam32 = compile spec_ConfigParam32.
Proof. vm_compute. reflexivity. Qed.
Lemma impl_ConfigParam33_is_spec : impl_ConfigParam33 = compile spec_ConfigParam33.
Proof. vm_compute. reflexivity. Qed.
Lemma impl_ConfigParam34_is_spec : impl_ConfigParam34 = compile spec_ConfigParam34.
Proof. vm_compute. reflexivity. Qed.
Lemma impl_ConfigParam35_is_spec : impl_ConfigParam35 = compile spec_ConfigParam35.
Proof. vm_compute. reflexivity. Qed.
Lemma impl_ConfigParam36_is_spec : impl_ConfigParam36 = compile spec_ConfigParam36.
Proof. vm_compute. reflexivity. Qed.
Lemma impl_ConfigParam37_is_spec : impl_ConfigParam37 = compile spec_ConfigParam37.
Proof. vm_compute. reflexivity. Qed.
Lemma impl_JettonBridgePrices_is_spec : impl_JettonBridgePrices = compile spec_JettonBridgePrices.
Proof. vm_compute. reflexivity. Qed.
Lemma impl_ParamLimits_is_spec : impl_ParamLimits = compile spec_ParamLimits.
Proof. vm_compute. reflexivity. Qed.
Lemma impl_ConfigParam16_is_spec : impl_ConfigParam16 = compile spec_ConfigParam16.
Proof. vm_compute. reflexivity. Qed.
Lemma impl_ConfigParam0_is_spec : impl_ConfigParam0 = compile spec_ConfigParam0.
Proof. vm_compute. reflexivity. Qed.
Lemma impl_ConfigParam1_is_spec : impl_ConfigParam1 = compile spec_ConfigParam1.
Proof. vm_compute. reflexivity. Qed.
Lemma impl_ConfigParam2_is_spec : impl_ConfigParam2 = compile spec_ConfigParam2.
Proof. vm_compute. reflexivity. Qed.
Lemma impl_ConfigParam3_is_spec : impl_ConfigParam3 = compile spec_ConfigParam3.
Proof. vm_compute. reflexivity. Qed.
Lemma impl_ConfigParam4_is_spec : impl_ConfigParam4 = compile spec_ConfigParam4.
Proof. vm_compute. reflexivity. Qed.
Lemma impl_ConfigParam8_is_spec : impl_ConfigParam8 = compile spec_ConfigParam8.
Proof. vm_compute. reflexivity. Qed.
Lemma impl_ConfigParam11_is_spec : impl_ConfigParam11 = compile spec_ConfigParam11.
Proof. vm_compute. reflexivity. Qed.
Lemma impl_ConfigParam12_is_spec : impl_ConfigParam12 = compile spec_ConfigParam12.
Proof. vm_compute. reflexivity. Qed.
Lemma impl_ConfigParam13_is_spec : impl_ConfigParam13 = compile spec_ConfigParam13.
Proof. vm_compute. reflexivity. Qed.
Lemma impl_ConfigParam14_is_spec : impl_ConfigParam14 = compile spec_ConfigParam14.
Proof. vm_compute. reflexivity. Qed.
Lemma impl_ConfigParam20_is_spec : impl_ConfigParam20 = compile spec_ConfigParam20.
Proof. vm_compute. reflexivity. Qed.
Lemma impl_ConfigParam21_is_spec : impl_ConfigParam21 = compile spec_ConfigParam21.
Proof. vm_compute. reflexivity. Qed.
Lemma impl_ConfigParam22_is_spec : impl_ConfigParam22 = compile spec_ConfigParam22.
Proof. vm_compute. reflexivity. Qed.
Lemma impl_ConfigParam23_is_spec : impl_ConfigParam23 = compile spec_ConfigParam23.
Proof. vm_compute. reflexivity. Qed.
Lemma impl_ConfigParam24_is_spec : impl_ConfigParam24 = compile spec_ConfigParam24.
Proof. vm_compute. reflexivity. Qed.
Lemma impl_ConfigParam25_is_spec : impl_ConfigParam25 = compile spec_ConfigParam25.
Proof. vm_compute. reflexivity. Qed.
Lemma impl_ConfigParam28_is_spec : impl_ConfigParam28 = compile spec_ConfigParam28.
Proof. vm_compute. reflexivity. Qed.
Lemma impl_ConfigParam29_is_spec : impl_ConfigParam29 = compile spec_ConfigParam29.
Proof. vm_compute. reflexivity. Qed.
Lemma impl_ConfigParam31_is_spec : impl_ConfigParam31 = compile spec_ConfigParam31.
Proof. vm_compute. reflexivity. Qed.
Lemma impl_ConfigParam44_is_spec : impl_ConfigParam44 = compile spec_ConfigParam44.
Proof. vm_compute. reflexivity. Qed.
Lemma impl_ConfigParam71_is_spec : impl_ConfigParam71 = compile spec_ConfigParam71.
Proof. vm_compute. reflexivity. Qed.
Lemma impl_ConfigParam72_is_spec : impl_ConfigParam72 = compile spec_ConfigParam72.
Proof. vm_compute. reflexivity. Qed.
Lemma impl_ConfigParam73_is_spec : impl_ConfigParam73 = compile spec_ConfigParam73.
Proof. vm_compute. reflexivity. Qed.
Lemma impl_ConfigParam79_is_spec : impl_ConfigParam79 = compile spec_ConfigParam79.
Proof. vm_compute. reflexivity. Qed.
Lemma impl_ConfigParam81_is_spec : impl_ConfigParam81 = compile spec_ConfigParam81.
Proof. vm_compute. reflexivity. Qed.
Lemma impl_ConfigParam82_is_spec : impl_ConfigParam82 = compile spec_ConfigParam82.
Proof. vm_compute. reflexivity. Qed.
Lemma impl_SuspendedAddressList_is_spec : impl_SuspendedAddressList = compile spec_SuspendedAddressList.
Proof. vm_compute. reflexivity. Qed.
Lemma impl_OracleBridgeParams_is_spec : impl_OracleBridgeParams = compile spec_OracleBridgeParams.
Proof. vm_compute. reflexivity. Qed.
Lemma impl_WalletV3Data_is_spec : impl_WalletV3Data = compile spec_WalletV3Data.
Proof. vm_compute. reflexivity. Qed.
Lemma impl_WalletV4Data_is_spec : impl_WalletV4Data = compile spec_WalletV4Data.
Proof. vm_compute. reflexivity. Qed.
Lemma impl_HighloadWalletData_is_spec : impl_HighloadWalletData = compile spec_HighloadWalletData.
Proof. vm_compute. reflexivity. Qed.
Lemma impl_NftItemData_is_spec : impl_NftItemData = compile spec_NftItemData.
Proof. vm_compute. reflexivity. Qed.
Lemma impl_NftItemSaleFees_is_spec : impl_NftItemSaleFees = compile spec_NftItemSaleFees.
Proof. vm_compute. reflexivity. Qed.
Lemma impl_NftItemSaleData_is_spec : impl_NftItemSaleData = compile spec_NftItemSaleData.
Proof. vm_compute. reflexivity. Qed.

(* FINDINGS: layouts of Spec/BlockTlb.v whose tree differs *)
(* WorkchainFormat.deserialize accepts the tag #0 for wfmt_basic#1 and the tag #1 for wfmt_ext#0 *)
Lemma impl_WorkchainFormat_1_differs : impl_WorkchainFormat_1 <> compile spec_WorkchainFormat_1.
Proof. vm_compute. discriminate. Qed.
Lemma impl_WorkchainFormat_0_differs : impl_WorkchainFormat_0 <> compile spec_WorkchainFormat_0.
Proof. vm_compute. discriminate. Qed.
(* JettonBridgeParams.deserialize does not read external_chain_address:bits256 of jetton_bridge_params_v1 *)
Lemma impl_JettonBridgeParams_differs : impl_JettonBridgeParams <> compile spec_JettonBridgeParams.
Proof. vm_compute. intros H. inversion H. Qed.

Lemma spec_table_wf : wf_table spec_table = true.
Proof. vm_compute. reflexivity. Qed.

Theorem impl_agree : agree impl_table spec_table.
Proof.
  apply agree_of_Forall. unfold spec_table.
  repeat (apply Forall_cons; [cbn [fst snd]; vm_compute; reflexivity|]). apply Forall_nil.
Qed.

(* C16 for one type of the table: the library's parser, run on the encoding of any well-typed value
   followed by anything, returns the value and leaves exactly what followed *)
Theorem C16_generic T L N :
  forall (Hlookup : slookup spec_table T [] = Some L)
         (Hneed : (need spec_table L <=? N) = true),
  forall v tb tr bits refs fuel,
    wt spec_table L v -> encode spec_table L v = Ok (bits, refs) -> N <= fuel ->
    run_type impl_table fuel T [] (Cell (-1) (bits ++ tb) (refs ++ tr)) = Ok (v, mkS tb tr).
Proof.
  intros Hlookup Hneed v tb tr bits refs fuel Hwt Henc Hfuel. apply Nat.leb_le in Hneed.
  apply (run_type_correct impl_table spec_table T [] L v bits refs spec_table_wf impl_agree
           (wf_table_lookup _ _ _ _ spec_table_wf Hlookup) (impl_agree _ _ _ Hlookup) Hwt Henc).
  lia.
Qed.
