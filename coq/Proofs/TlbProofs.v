(* compile_correct: running the decision tree [compile L] on the encoding of a well-typed value of the
   layout L returns that value and leaves exactly what followed the encoding.  All cells are ordinary.
   The statement is relative to a choice function ch (which alternative of an Either field the encoder
   uses: for every ch) and to a context cx (what the value knows of the bits and references following it:
   an inline Any body IS that tail, a snapshot attribute IS the cell parsed); ctx_ok cx tb tr says that the
   actual tail is the known one.
   Plus the computational checks impl_<T> = compile spec_<T> tying the generated trees of Gen/TlbImpl.v
   (what the library does) to the layouts of Spec/BlockTlb.v (what block.tlb says). *)
From Coq Require Import NArith ZArith List Bool String Lia ZifyBool ZifyNat ZifyN.
From PTQ Require Import Base.Result Base.Bytes Base.Bits Model.Cell Model.Builder Model.Hashmap Model.Dtree
  Spec.TlbPrim Spec.TlbVal Spec.Hashmap Proofs.BuilderRT Proofs.HmLabel Proofs.HmParse Proofs.HmRoundtrip Spec.Tlb.
Import ListNotations.
Local Open Scope nat_scope.

(* ------------------------------------------------------------------------------------------------ *)
(* Sub-slice bookkeeping                                                                             *)
(* ------------------------------------------------------------------------------------------------ *)

Lemma get_set_same ss : forall sid s, get_slice (set_slice ss sid s) sid = Ok s.
Proof.
  induction ss as [|[i x] r IH]; intros sid s; cbn [set_slice get_slice].
  - rewrite Nat.eqb_refl. reflexivity.
  - destruct (Nat.eqb_spec i sid) as [E|E]; cbn [get_slice].
    + subst. rewrite Nat.eqb_refl. reflexivity.
    + destruct (Nat.eqb_spec i sid) as [E'|_]; [contradiction|]. apply IH.
Qed.

Lemma get_set_other ss : forall sid j s, j <> sid -> get_slice (set_slice ss sid s) j = get_slice ss j.
Proof.
  induction ss as [|[i x] r IH]; intros sid j s Hne; cbn [set_slice get_slice].
  - destruct (Nat.eqb_spec sid j) as [E|_]; [congruence|reflexivity].
  - destruct (Nat.eqb_spec i sid) as [E|E]; cbn [get_slice].
    + subst. destruct (Nat.eqb_spec sid j) as [E'|_]; [congruence|reflexivity].
    + destruct (Nat.eqb_spec i j) as [_|_]; [reflexivity|]. apply IH. exact Hne.
Qed.

(* ------------------------------------------------------------------------------------------------ *)
(* Attribute lists in name order                                                                     *)
(* ------------------------------------------------------------------------------------------------ *)

Lemma insert_map {A B} (g : A -> B) (p : string * A) l :
  insert_by_name (fst p, g (snd p)) (map (fun q => (fst q, g (snd q))) l)
  = map (fun q => (fst q, g (snd q))) (insert_by_name p l).
Proof.
  induction l as [|q r IH]; [reflexivity|].
  cbn [map insert_by_name fst]. destruct (String.leb (fst p) (fst q)); cbn [map]; [reflexivity|].
  rewrite IH. reflexivity.
Qed.

Lemma sort_map {A B} (g : A -> B) l :
  sort_by_name (map (fun q => (fst q, g (snd q))) l) = map (fun q => (fst q, g (snd q))) (sort_by_name l).
Proof.
  induction l as [|p r IH]; [reflexivity|].
  cbn [map sort_by_name]. rewrite IH. apply (insert_map g p).
Qed.

Lemma sort_names_fst {A} (l : list (string * A)) : map fst (sort_by_name l) = sort_names (map fst l).
Proof.
  unfold sort_names. rewrite map_map.
  rewrite (sort_map (fun _ => tt) l). rewrite map_map. reflexivity.
Qed.

Lemma insert_Forall {A} (P : string * A -> Prop) p l : P p -> Forall P l -> Forall P (insert_by_name p l).
Proof.
  intros Hp Hl. induction Hl as [|q r Hq Hr IH]; cbn [insert_by_name]; [constructor; [exact Hp|constructor]|].
  destruct (String.leb (fst p) (fst q)); repeat constructor; assumption.
Qed.

Lemma sort_Forall {A} (P : string * A -> Prop) l : Forall P l -> Forall P (sort_by_name l).
Proof.
  induction 1 as [|p r Hp Hr IH]; cbn [sort_by_name]; [constructor|]. apply insert_Forall; assumption.
Qed.

(* ------------------------------------------------------------------------------------------------ *)
(* Single steps of [run]                                                                             *)
(* ------------------------------------------------------------------------------------------------ *)

(* the loads that touch one slice only *)
Definition prim_load (o : dop) (s : slice) : result (pv * slice) :=
  match o with
  | OUint n => lift PInt (s_load_uint s n)
  | OInt n => lift PInt (s_load_int s n)
  | OBit | OBool => lift PBool (s_load_bit s)
  | OBits n => lift PBits (s_load_bits s n)
  | OBytes n => lift PBytes (s_load_bytes s n)
  | OCoins => lift PInt (s_load_coins s)
  | OVarUint k => lift PInt (s_load_var_uint s k)
  | OVarInt k => lift PInt (s_load_var_int s k)
  | OAddr => lift PAddr (s_load_address s)
  | ORefCell => lift PCell (s_load_ref s)
  | OMaybeRefCell =>
      lift (fun oc => match oc with Some c => PCell c | None => PNone end) (s_load_maybe_ref s)
  | _ => Err EOther
  end.

Section Steps.
  Variable tbl : table.

  Lemma run_prim fuel sid o k ss env w ts v s' :
    1 <= fuel -> get_slice ss sid = Ok ts -> prim_load o (ts_s ts) = Ok (v, s') ->
    run tbl fuel (DOp sid o k) ss env w
    = run tbl (fuel - 1) k (set_slice ss sid (mkTS (ts_ty ts) s')) (env ++ [v]) (w ++ [op_width o]).
  Proof.
    intros Hfuel Hget Hload. destruct fuel as [|f]; [lia|].
    replace (S f - 1) with f by lia. cbn [run]. rewrite Hget. cbn [bind].
    destruct o; cbn [prim_load] in Hload; try discriminate; rewrite Hload; reflexivity.
  Qed.

  Lemma run_if fuel var bit t0 t1 ss env w (b : bool) :
    1 <= fuel -> nth bit (bits_of_pv (nth var env PNone) (nth var w 1)) false = b ->
    run tbl fuel (DIf var bit t0 t1) ss env w = run tbl (fuel - 1) (if b then t1 else t0) ss env w.
  Proof.
    intros Hfuel Hb. destruct fuel as [|f]; [lia|].
    replace (S f - 1) with f by lia. cbn [run]. rewrite Hb. destruct b; reflexivity.
  Qed.

  Lemma run_ret fuel e ss env w :
    1 <= fuel ->
    run tbl fuel (DRet e) ss env w
    = Ok (eval e env (match get_slice ss 0 with Ok s => PSlice (ts_s s) | Err _ => PNone end), ss).
  Proof. intros Hfuel. destruct fuel as [|f]; [lia|]. reflexivity. Qed.

  Lemma run_ref fuel sid nsid k ss env w ts c s' :
    1 <= fuel -> get_slice ss sid = Ok ts -> s_load_ref (ts_s ts) = Ok (c, s') ->
    run tbl fuel (DOp sid (ORef nsid) k) ss env w
    = run tbl (fuel - 1) k (set_slice (set_slice ss sid (mkTS (ts_ty ts) s')) nsid (cell_slice c))
        (env ++ [PCell c]) (w ++ [1]).
  Proof.
    intros Hfuel Hget Hload. destruct fuel as [|f]; [lia|].
    replace (S f - 1) with f by lia. cbn [run]. rewrite Hget. cbn [bind]. rewrite Hload. reflexivity.
  Qed.

  Lemma run_call fuel sid T a k ss env w ts d v ss1 ts' :
    1 <= fuel -> get_slice ss sid = Ok ts -> lookup tbl T a = Some d ->
    run tbl (fuel - 1) d [(0, ts)] [] [] = Ok (v, ss1) -> get_slice ss1 0 = Ok ts' ->
    run tbl fuel (DOp sid (OCall T a) k) ss env w
    = run tbl (fuel - 1) k (set_slice ss sid ts') (env ++ [v]) (w ++ [1]).
  Proof.
    intros Hfuel Hget Hlk Hrun Hget1. destruct fuel as [|f]; [lia|].
    replace (S f - 1) with f in * by lia. cbn [run]. rewrite Hget. cbn [bind]. rewrite Hlk, Hrun.
    cbn [bind]. rewrite Hget1. reflexivity.
  Qed.

  Lemma run_dict_empty fuel sid n vt k ss env w ts s' :
    1 <= fuel -> get_slice ss sid = Ok ts -> s_load_dict (ts_s ts) (Z.of_nat n) = Ok (None, s') ->
    run tbl fuel (DOp sid (ODict n vt) k) ss env w
    = run tbl (fuel - 1) k (set_slice ss sid (mkTS (ts_ty ts) s')) (env ++ [PNone]) (w ++ [1]).
  Proof.
    intros Hfuel Hget Hload. destruct fuel as [|f]; [lia|].
    replace (S f - 1) with f by lia. cbn [run]. rewrite Hget. cbn [bind]. rewrite Hload. reflexivity.
  Qed.

  Lemma run_dict_some fuel sid n vt k ss env w ts leaves s' kvs :
    1 <= fuel -> get_slice ss sid = Ok ts ->
    s_load_dict (ts_s ts) (Z.of_nat n) = Ok (Some leaves, s') ->
    mapM (fun '(key, ls) =>
            rmap (fun '(v, _) => (Z.of_N (of_bits key), v))
                 (run tbl (fuel - 1) vt [(0, mkTS ty_ordinary ls)] [] [])) leaves = Ok kvs ->
    run tbl fuel (DOp sid (ODict n vt) k) ss env w
    = run tbl (fuel - 1) k (set_slice ss sid (mkTS (ts_ty ts) s')) (env ++ [PDict kvs]) (w ++ [1]).
  Proof.
    intros Hfuel Hget Hload Hmap. destruct fuel as [|f]; [lia|].
    replace (S f - 1) with f in * by lia. cbn [run]. rewrite Hget. cbn [bind]. rewrite Hload.
    cbn [bind]. rewrite Hmap. reflexivity.
  Qed.

  Lemma run_tocell fuel sid k ss env w ts :
    1 <= fuel -> get_slice ss sid = Ok ts ->
    run tbl fuel (DOp sid OToCell k) ss env w
    = run tbl (fuel - 1) k ss (env ++ [PCell (Cell (ts_ty ts) (s_bits (ts_s ts)) (s_refs (ts_s ts)))]) (w ++ [1]).
  Proof.
    intros Hfuel Hget. destruct fuel as [|f]; [lia|].
    replace (S f - 1) with f by lia. cbn [run]. rewrite Hget. reflexivity.
  Qed.

  Lemma run_peek fuel sid n k ss env w ts :
    1 <= fuel -> get_slice ss sid = Ok ts ->
    run tbl fuel (DOp sid (OPeekBits n) k) ss env w
    = run tbl (fuel - 1) k ss (env ++ [PBits (s_preload_bits (ts_s ts) n)]) (w ++ [n]).
  Proof.
    intros Hfuel Hget. destruct fuel as [|f]; [lia|].
    replace (S f - 1) with f by lia. cbn [run]. rewrite Hget. reflexivity.
  Qed.

  Lemma run_ifspecial_ord fuel sid t0 t1 ss env w s :
    1 <= fuel -> get_slice ss sid = Ok (mkTS ty_ordinary s) ->
    run tbl fuel (DIfSpecial sid t0 t1) ss env w = run tbl (fuel - 1) t0 ss env w.
  Proof.
    intros Hfuel Hget. destruct fuel as [|f]; [lia|].
    replace (S f - 1) with f by lia. cbn [run]. rewrite Hget. reflexivity.
  Qed.

  Lemma run_hashmap fuel sid n vt k ss env w ts leaves kvs3 :
    1 <= fuel -> get_slice ss sid = Ok ts ->
    hashmap_parse (ts_ty ts) (ts_s ts) (Z.of_nat n) = Ok (Some leaves) ->
    mapM (fun '(key, ls) =>
            rmap (fun '(v, ss1) => (Z.of_N (of_bits key), v, ss1))
                 (run tbl (fuel - 1) vt [(0, mkTS ty_ordinary ls)] [] [])) leaves = Ok kvs3 ->
    run tbl fuel (DOp sid (OHashmap n vt) k) ss env w
    = run tbl (fuel - 1) k
        (set_slice ss sid (mkTS (ts_ty ts)
           (match deserialize_hml (ts_s ts) (Z.of_nat n) with
            | Ok (l, _, s1) =>
                if (Z.of_nat n - Z.of_nat l =? 0)%Z then
                  match kvs3 with
                  | [(_, _, ss1)] => match get_slice ss1 0 with Ok t1 => ts_s t1 | Err _ => s1 end
                  | _ => s1
                  end
                else mkS (s_bits s1) (skipn 2 (s_refs s1))
            | Err _ => ts_s ts
            end)))
        (env ++ [PDict (map (fun '(k, v, _) => (k, v)) kvs3)]) (w ++ [1]).
  Proof.
    intros Hfuel Hget Hparse Hmap. destruct fuel as [|f]; [lia|].
    replace (S f - 1) with f in * by lia. cbn [run]. rewrite Hget. cbn [bind]. rewrite Hparse.
    cbn [bind]. rewrite Hmap. reflexivity.
  Qed.

  (* one node of an augmented dictionary, as [run] visits it *)
  Definition aug_visit_fn (f : nat) (xt yt : dtree) (nd : aug_node) : result aug_visit :=
    match nd with
    | ANLeaf key ls =>
        bind (run tbl f yt [(0, mkTS ty_ordinary ls)] [] []) (fun '(ex, ss1) =>
        bind (get_slice ss1 0) (fun t1 =>
        bind (run tbl f xt [(0, t1)] [] []) (fun '(v, ss2) =>
        bind (get_slice ss2 0) (fun t2 => Ok (Some (Z.of_N (of_bits key), v), ex, ts_s t2)))))
    | ANFork s3 =>
        bind (run tbl f yt [(0, mkTS ty_ordinary s3)] [] []) (fun '(ex, ss1) =>
        bind (get_slice ss1 0) (fun t1 => Ok (None, ex, ts_s t1)))
    end.

  Lemma run_augdict fuel sid n xt yt k ss env w s nodes rs :
    1 <= fuel -> get_slice ss sid = Ok (mkTS ty_ordinary s) ->
    aug_nodes parse_fuel ty_ordinary s (Z.of_nat n) [] = Ok nodes ->
    mapM (aug_visit_fn (fuel - 1) xt yt) nodes = Ok rs ->
    run tbl fuel (DOp sid (OAugDict n xt yt) k) ss env w
    = run tbl (fuel - 1) k (set_slice ss sid (mkTS ty_ordinary (snd (aug_result s rs))))
        (env ++ [fst (aug_result s rs)]) (w ++ [1]).
  Proof.
    intros Hfuel Hget Hnodes Hmap. destruct fuel as [|f]; [lia|].
    replace (S f - 1) with f in * by lia. cbn [run]. rewrite Hget. cbn [bind ts_ty ts_s].
    change (negb (ty_ordinary =? ty_ordinary)%Z) with false. cbv iota. rewrite Hnodes. cbn [bind].
    unfold aug_visit_fn in Hmap. rewrite Hmap. reflexivity.
  Qed.
End Steps.

(* ------------------------------------------------------------------------------------------------ *)
(* Dictionaries: ascending integer keys are ascending n-bit strings; the canonical tree parses back   *)
(* ------------------------------------------------------------------------------------------------ *)

Lemma all_of_Forall {A} (P : A -> Prop) l : all_of P l -> Forall P l.
Proof. induction l as [|x r IH]; cbn [all_of]; [constructor|]. intros [H1 H2]. constructor; auto. Qed.

Lemma ascending_head : forall l a, ascending (a :: l) = true ->
  Forall (fun b => (a < b)%Z) l /\ ascending l = true.
Proof.
  induction l as [|b r IH]; intros a H; [split; [constructor|reflexivity]|].
  cbn [ascending] in H. apply andb_prop in H. destruct H as [Hab Hr]. apply Z.ltb_lt in Hab.
  destruct (IH b Hr) as [Hall _]. split; [|exact Hr].
  constructor; [exact Hab|]. eapply Forall_impl; [|exact Hall]. intros c Hc. cbn beta in Hc. lia.
Qed.

Lemma enc_inj n a b : (0 <= a < 2 ^ Z.of_nat n)%Z -> (0 <= b < 2 ^ Z.of_nat n)%Z ->
  enc n a = enc n b -> a = b.
Proof.
  intros Ha Hb H. apply (f_equal of_bits) in H. rewrite !of_bits_enc in H.
  rewrite !Z.mod_small in H by assumption. apply Z2N.inj in H; lia.
Qed.

Lemma testbit_top w v : (0 <= v < 2 ^ (Z.of_nat w + 1))%Z ->
  Z.testbit v (Z.of_nat w) = (2 ^ Z.of_nat w <=? v)%Z.
Proof.
  intros Hv. assert (Hp : (0 < 2 ^ Z.of_nat w)%Z) by (apply pow2_pos; lia).
  rewrite Z.pow_add_r, Z.pow_1_r in Hv by lia.
  destruct (Z.leb_spec (2 ^ Z.of_nat w) v) as [Hle|Hlt].
  - apply Z.testbit_true; [lia|].
    replace (v / 2 ^ Z.of_nat w)%Z with 1%Z; [reflexivity|].
    apply (Z.div_unique v (2 ^ Z.of_nat w) 1 (v - 2 ^ Z.of_nat w)); lia.
  - apply Z.testbit_false; [lia|]. rewrite Z.div_small by lia. reflexivity.
Qed.

Lemma lex_enc : forall w a b, (0 <= a < 2 ^ Z.of_nat w)%Z -> (0 <= b < 2 ^ Z.of_nat w)%Z -> (a <= b)%Z ->
  lex_leb (enc w a) (enc w b) = true.
Proof.
  induction w as [|w IH]; intros a b Ha Hb Hab; [reflexivity|].
  rewrite !enc_cons. cbn [lex_leb].
  rewrite Nat2Z.inj_succ in Ha, Hb. replace (Z.succ (Z.of_nat w)) with (Z.of_nat w + 1)%Z in Ha, Hb by lia.
  rewrite !testbit_top by assumption.
  assert (Hp : (0 < 2 ^ Z.of_nat w)%Z) by (apply pow2_pos; lia).
  rewrite Z.pow_add_r, Z.pow_1_r in Ha, Hb by lia.
  rewrite <- (enc_mod w a), <- (enc_mod w b).
  destruct (Z.leb_spec (2 ^ Z.of_nat w) a) as [Ha1|Ha0]; destruct (Z.leb_spec (2 ^ Z.of_nat w) b) as [Hb1|Hb0];
    cbn [Bool.eqb negb].
  - apply IH; try (apply Z.mod_pos_bound; lia).
    rewrite <- (Z.mod_unique a (2 ^ Z.of_nat w) 1 (a - 2 ^ Z.of_nat w)) by lia.
    rewrite <- (Z.mod_unique b (2 ^ Z.of_nat w) 1 (b - 2 ^ Z.of_nat w)) by lia. lia.
  - lia.
  - reflexivity.
  - apply IH; try (apply Z.mod_pos_bound; lia). rewrite !Z.mod_small by lia. exact Hab.
Qed.

Lemma asc_nodup n : forall ks, ascending ks = true ->
  Forall (fun k => (0 <= k < 2 ^ Z.of_nat n)%Z) ks -> NoDup (map (enc n) ks).
Proof.
  induction ks as [|a l IH]; intros Hasc Hrange; [constructor|].
  destruct (ascending_head l a Hasc) as [Hlt Hl]. inversion Hrange as [|? ? Ha Hr]; subst.
  cbn [map]. constructor; [|apply IH; assumption].
  intros Hin. apply in_map_iff in Hin. destruct Hin as (b & Heq & Hb).
  rewrite Forall_forall in Hlt, Hr. specialize (Hlt b Hb). specialize (Hr b Hb).
  apply enc_inj in Heq; [lia|assumption|assumption].
Qed.

Lemma asc_sorted n : forall (src : kvs) ks, map fst src = map (enc n) ks -> ascending ks = true ->
  Forall (fun k => (0 <= k < 2 ^ Z.of_nat n)%Z) ks -> sort_kvs src = src.
Proof.
  induction src as [|x l IH]; intros ks Hk Hasc Hrange; [reflexivity|].
  destruct ks as [|a ks']; [discriminate|]. cbn [map] in Hk. injection Hk as Hx Hl.
  destruct (ascending_head ks' a Hasc) as [Hlt Hasc']. inversion Hrange as [|? ? Ha Hr]; subst.
  rewrite rt_sort_cons. rewrite (IH ks' Hl Hasc' Hr).
  destruct l as [|y r]; [reflexivity|]. destruct ks' as [|b ks'']; [discriminate|].
  cbn [map] in Hl. injection Hl as Hy Hl. cbn [insert_kv]. rewrite Hx, Hy.
  inversion Hlt; subst. inversion Hr; subst. rewrite lex_enc by (assumption || lia). reflexivity.
Qed.

Lemma keys_length n : forall (src : kvs) ks, map fst src = map (enc n) ks ->
  Forall (fun kv => List.length (fst kv) = n) src.
Proof.
  induction src as [|x l IH]; intros ks Hk; [constructor|].
  destruct ks as [|a ks']; [discriminate|]. cbn [map] in Hk. injection Hk as Hx Hl.
  constructor; [rewrite Hx; apply enc_length|exact (IH ks' Hl)].
Qed.

Lemma canon_cell_ordinary e n :
  exists bits refs, cell_of (canon_kinds (canon_vtree e) n) n = Cell ty_ordinary bits refs.
Proof. destruct e as [l [v|a b]]; cbn [canon_vtree canon_kinds cell_of]; eauto. Qed.

Lemma load_dict_valid t n tb tr : 1 <= n <= 1023 -> vtree_ok t n = true ->
  (exists bits refs, cell_of t n = Cell ty_ordinary bits refs) ->
  s_load_dict (mkS (true :: tb) (cell_of t n :: tr)) (Z.of_nat n) = Ok (Some (leaves_of t []), mkS tb tr).
Proof.
  intros Hn Hok (bits & refs & Hc). pose proof (parse_any_valid t n Hn Hok) as Hp. rewrite Hc in Hp |- *.
  unfold s_load_dict, s_load_bit, s_preload_bit, s_skip, s_load_ref.
  cbn [s_bits s_refs List.length Nat.ltb Nat.leb bind skipn]. unfold hashmap_parse.
  rewrite Z.eqb_refl. cbn [negb]. rewrite Hp. reflexivity.
Qed.

Lemma canon_leaves n (src : kvs) e : NoDup (map fst src) ->
  Forall (fun kv => List.length (fst kv) = n) src -> sort_kvs src = src ->
  s_patricia (S n) src = Some e ->
  leaves_of (canon_kinds (canon_vtree e) n) [] = map rt_conv src.
Proof.
  intros Hnd Hlen Hsorted Hpat. rewrite rt_leaves_canon.
  rewrite (rt_patricia_leaves (S n) n src e [] (Nat.lt_succ_diag_r n) Hnd Hlen Hpat). rewrite Hsorted.
  f_equal. rewrite <- (map_id src) at 2. apply map_ext. intros [k v]. reflexivity.
Qed.



(* the canonical tree is a leaf or a fork (never a pruned cell) *)
Lemma canon_shape e n :
  (exists l k v, canon_kinds (canon_vtree e) n = VLeaf l k v) \/
  (exists l k a b, canon_kinds (canon_vtree e) n = VFork l k a b).
Proof. destruct e as [l [v|a b]]; cbn [canon_vtree canon_kinds]; [left|right]; eauto. Qed.

(* dict_tree: the checks of the encoder, and what they give *)
Lemma dict_tree_ok n src t : dict_tree n src = Ok t ->
  exists e, s_patricia (S n) src = Some e /\ t = canon_kinds (canon_vtree e) n /\ vtree_ok t n = true.
Proof.
  unfold dict_tree. destruct (s_patricia (S n) src) as [e|] eqn:Hpat; [|discriminate]. cbv zeta.
  destruct (vtree_ok (canon_kinds (canon_vtree e) n) n) eqn:Hok; [|discriminate].
  intros H. inversion H; subst t. exists e. repeat split. exact Hok.
Qed.

(* ---- Hashmap n X inline: the root edge is read from the slice itself, which goes on after it ---- *)
Lemma hashmap_inline_leaf l k v n tb tr : 1 <= n <= 1023 -> vtree_ok (VLeaf l k v) n = true ->
  deserialize_hml (mkS ((s_label_bits k l n ++ fst v) ++ tb) (snd v ++ tr)) (Z.of_nat n)
  = Ok (List.length l, l, mkS (fst v ++ tb) (snd v ++ tr))
  /\ (Z.of_nat n - Z.of_nat (List.length l) =? 0)%Z = true
  /\ hashmap_parse ty_ordinary (mkS ((s_label_bits k l n ++ fst v) ++ tb) (snd v ++ tr)) (Z.of_nat n)
     = Ok (Some [(l, mkS (fst v ++ tb) (snd v ++ tr))]).
Proof.
  intros Hn Hok. cbn [vtree_ok] in Hok. apply andb_true_iff in Hok. destruct Hok as [Hok Hrefs].
  apply andb_true_iff in Hok. destruct Hok as [Hok Hcap].
  apply andb_true_iff in Hok. destruct Hok as [Hlen Hkind]. apply Nat.eqb_eq in Hlen.
  assert (Hl : deserialize_hml (mkS ((s_label_bits k l n ++ fst v) ++ tb) (snd v ++ tr)) (Z.of_nat n)
               = Ok (List.length l, l, mkS (fst v ++ tb) (snd v ++ tr))).
  { rewrite <- app_assoc. apply read_label_spec; [lia|exact Hkind]. }
  split; [exact Hl|]. split; [lia|].
  unfold hashmap_parse. rewrite hm_ord_test. unfold parse_hashmap, parse_fuel.
  rewrite hm_parse_edge_S. rewrite Hl. cbn [bind].
  replace (Z.of_nat n <? Z.of_nat (List.length l))%Z with false by lia. rewrite hm_ord_test.
  replace (Z.of_nat n - Z.of_nat (List.length l) =? 0)%Z with true by lia. cbn [app].
  destruct l as [|x l']; [cbn [List.length] in Hlen; lia|]. reflexivity.
Qed.

Lemma hashmap_inline_fork l k a b n tb tr : 1 <= n <= 1023 -> vtree_ok (VFork l k a b) n = true ->
  let m1 := n - List.length l - 1 in
  deserialize_hml (mkS (s_label_bits k l n ++ tb) ([cell_of a m1; cell_of b m1] ++ tr)) (Z.of_nat n)
  = Ok (List.length l, l, mkS tb ([cell_of a m1; cell_of b m1] ++ tr))
  /\ (Z.of_nat n - Z.of_nat (List.length l) =? 0)%Z = false
  /\ hashmap_parse ty_ordinary (mkS (s_label_bits k l n ++ tb) ([cell_of a m1; cell_of b m1] ++ tr)) (Z.of_nat n)
     = Ok (Some (leaves_of (VFork l k a b) [])).
Proof.
  intros Hn Hok m1. cbn [vtree_ok] in Hok. apply andb_true_iff in Hok. destruct Hok as [Hok Hokb].
  apply andb_true_iff in Hok. destruct Hok as [Hok Hoka].
  apply andb_true_iff in Hok. destruct Hok as [Hok Hcap].
  apply andb_true_iff in Hok. destruct Hok as [Hlen Hkind]. apply Nat.ltb_lt in Hlen.
  fold m1 in Hoka, Hokb.
  assert (Hl : deserialize_hml (mkS (s_label_bits k l n ++ tb) ([cell_of a m1; cell_of b m1] ++ tr)) (Z.of_nat n)
               = Ok (List.length l, l, mkS tb ([cell_of a m1; cell_of b m1] ++ tr))).
  { apply read_label_spec; [lia|exact Hkind]. }
  split; [exact Hl|]. split; [lia|].
  unfold hashmap_parse. rewrite hm_ord_test. unfold parse_hashmap.
  pose proof hm_parse_fuel_big as Hbig. destruct parse_fuel as [|f] eqn:Hpf; [lia|].
  rewrite hm_parse_edge_S. rewrite Hl. cbn [bind].
  replace (Z.of_nat n <? Z.of_nat (List.length l))%Z with false by lia. rewrite hm_ord_test.
  replace (Z.of_nat n - Z.of_nat (List.length l) =? 0)%Z with false by lia.
  replace (Z.of_nat n - Z.of_nat (List.length l) - 1)%Z with (Z.of_nat m1) by lia.
  assert (Hf1 : m1 < f) by lia.
  pose proof (hm_parse_edge_valid a f m1 (([] ++ l) ++ [false]) Hf1
                (or_introl (fun E => app_cons_not_nil _ _ _ (eq_sym E))) Hoka) as Ha.
  pose proof (hm_parse_edge_valid b f m1 (([] ++ l) ++ [true]) Hf1
                (or_introl (fun E => app_cons_not_nil _ _ _ (eq_sym E))) Hokb) as Hb.
  unfold s_load_ref at 1. cbn [s_refs s_bits bind app].
  destruct (cell_of a m1) as [ty0 bits0 refs0].
  cbn [app] in Ha. rewrite Ha. cbn [bind].
  unfold s_load_ref. cbn [s_refs s_bits bind].
  destruct (cell_of b m1) as [ty1 bits1 refs1].
  cbn [app] in Hb. rewrite Hb. cbn [bind rmap leaves_of app]. reflexivity.
Qed.

(* ---- a dictionary kept as the list of its values: the keys are 0, 1, 2, ... ---- *)
Lemma index_kvs_snd : forall l i, map snd (index_kvs i l) = l.
Proof. induction l as [|x r IH]; intros i; cbn [index_kvs map snd]; [reflexivity|]. rewrite IH. reflexivity. Qed.

Lemma index_kvs_fst : forall l i, map fst (index_kvs i l) = map Z.of_nat (seq i (List.length l)).
Proof.
  induction l as [|x r IH]; intros i; cbn [index_kvs map fst List.length seq]; [reflexivity|].
  rewrite IH. reflexivity.
Qed.

Lemma seq_ascending : forall k i, ascending (map Z.of_nat (seq i k)) = true.
Proof.
  induction k as [|k IH]; intros i; [reflexivity|]. cbn [seq map].
  destruct k as [|k']; [reflexivity|]. specialize (IH (S i)). cbn [seq map] in IH |- *.
  cbn [ascending]. cbn [ascending] in IH. rewrite IH.
  replace (Z.of_nat i <? Z.of_nat (S i))%Z with true by lia. reflexivity.
Qed.

Lemma index_kvs_Forall (P : Z * pv -> Prop) : forall l i,
  (forall j x, i <= j < i + List.length l -> In x l -> P (Z.of_nat j, x)) -> Forall P (index_kvs i l).
Proof.
  induction l as [|x r IH]; intros i H; cbn [index_kvs]; [constructor|].
  constructor.
  - apply H; [cbn [List.length]; lia|left; reflexivity].
  - apply IH. intros j y Hj Hy. apply H; [cbn [List.length]; lia|right; exact Hy].
Qed.

Lemma all_of_In {A} (P : A -> Prop) l x : all_of P l -> In x l -> P x.
Proof. intros H. apply all_of_Forall in H. rewrite Forall_forall in H. apply H. Qed.

(* ---- HashmapAug: the nodes of the encoded tree, in visiting order ---- *)
(* a node as the schema sees it: the pair of a leaf (key, encoded value) if it is one, and its encoded extra *)
Definition aug_ev := (option (list bool * payload) * payload)%type.
Fixpoint aug_sem (e : hedge) (p : list bool) (fx : list payload) : option (list aug_ev * list payload) :=
  match e with
  | HEdge l (HLeaf v) =>
      match fx with x :: fx' => Some ([(Some (p ++ l, v), x)], fx') | [] => None end
  | HEdge l (HFork a b) =>
      match aug_sem a (p ++ l ++ [false]) fx with
      | Some (ea, fx1) =>
          match aug_sem b (p ++ l ++ [true]) fx1 with
          | Some (eb, fx2) =>
              match fx2 with x :: fx3 => Some (ea ++ eb ++ [(None, x)], fx3) | [] => None end
          | None => None
          end
      | None => None
      end
  end.
(* the slice its extra (and value) are read from; tb/tr: what follows in the cell (the root only) *)
Definition ev_slice (ev : aug_ev) (tb : list bool) (tr : list cell) : slice :=
  match ev with
  | (Some (_, v), x) => mkS (fst x ++ fst v ++ tb) (snd x ++ snd v ++ tr)
  | (None, x) => mkS (fst x ++ tb) (snd x ++ tr)
  end.
Definition ev_node (ev : aug_ev) (tb : list bool) (tr : list cell) : aug_node :=
  match fst ev with
  | Some (key, _) => ANLeaf key (ev_slice ev tb tr)
  | None => ANFork (ev_slice ev tb tr)
  end.
Definition ev_leaves (evs : list aug_ev) : kvs :=
  flat_map (fun ev => match fst ev with Some kv => [kv] | None => [] end) evs.

Lemma aug_sem_extras : forall e p fx evs fx', aug_sem e p fx = Some (evs, fx') -> map snd evs ++ fx' = fx.
Proof.
  induction e as [l v|l a b IHa IHb] using rt_hedge_ind; intros p fx evs fx' H; cbn [aug_sem] in H.
  - destruct fx as [|x fx0]; [discriminate|]. inversion H; subst. reflexivity.
  - destruct (aug_sem a (p ++ l ++ [false]) fx) as [[ea fx1]|] eqn:Ha; [|discriminate].
    destruct (aug_sem b (p ++ l ++ [true]) fx1) as [[eb fx2]|] eqn:Hb; [|discriminate].
    destruct fx2 as [|x fx3]; [discriminate|]. inversion H; subst.
    rewrite !map_app. cbn [map snd]. rewrite <- !app_assoc. cbn [app].
    rewrite <- (IHa _ _ _ _ Ha), <- (IHb _ _ _ _ Hb). rewrite <- ?app_assoc. reflexivity.
Qed.

Lemma ev_leaves_app a b : ev_leaves (a ++ b) = ev_leaves a ++ ev_leaves b.
Proof. unfold ev_leaves. apply flat_map_app. Qed.

Lemma aug_sem_leaves : forall e p fx evs fx', aug_sem e p fx = Some (evs, fx') -> ev_leaves evs = rt_edge_leaves e p.
Proof.
  induction e as [l v|l a b IHa IHb] using rt_hedge_ind; intros p fx evs fx' H; cbn [aug_sem] in H.
  - destruct fx as [|x fx0]; [discriminate|]. inversion H; subst. reflexivity.
  - destruct (aug_sem a (p ++ l ++ [false]) fx) as [[ea fx1]|] eqn:Ha; [|discriminate].
    destruct (aug_sem b (p ++ l ++ [true]) fx1) as [[eb fx2]|] eqn:Hb; [|discriminate].
    destruct fx2 as [|x fx3]; [discriminate|]. inversion H; subst.
    rewrite !ev_leaves_app. rewrite (IHa _ _ _ _ Ha), (IHb _ _ _ _ Hb).
    cbn [rt_edge_leaves]. unfold ev_leaves at 1. cbn [flat_map fst app]. rewrite app_nil_r. reflexivity.
Qed.

(* the cells built by the encoder are walked by aug_nodes node after node; what follows the root's cell content
   (tb, tr) is seen by the last node only *)
Lemma aug_nodes_cell : forall e fuel m p fx c fx' tb tr,
  rt_edge_wf e m -> m < fuel -> aug_cell e m fx = Some (c, fx') ->
  exists evs0 ev,
    aug_sem e p fx = Some (evs0 ++ [ev], fx') /\
    match c with
    | Cell ty b r =>
        ty = ty_ordinary /\
        aug_nodes fuel ty (mkS (b ++ tb) (r ++ tr)) (Z.of_nat m) p
        = Ok (map (fun e0 => ev_node e0 [] []) evs0 ++ [ev_node ev tb tr])
    end.
Proof.
  induction e as [l v|l a b IHa IHb] using rt_hedge_ind; intros fuel m p fx c fx' tb tr Hwf Hfuel Hc;
    (destruct fuel as [|f]; [lia|]); cbn [aug_cell] in Hc; cbn [rt_edge_wf] in Hwf.
  - destruct fx as [|x fx0]; [discriminate|]. cbv zeta in Hc.
    destruct (cell_fits _ _); [|discriminate]. inversion Hc; subst c fx'. clear Hc.
    exists [], (Some (p ++ l, v), x). split; [reflexivity|]. split; [reflexivity|].
    cbn [aug_nodes]. rewrite hm_ord_test. rewrite <- !app_assoc.
    rewrite read_label_spec by (lia || apply rt_kind_ok). cbn [bind].
    replace (Z.of_nat m <? Z.of_nat (List.length l))%Z with false by lia.
    replace (Z.of_nat m - Z.of_nat (List.length l) =? 0)%Z with true by lia. reflexivity.
  - destruct Hwf as (Hlen & Hwa & Hwb). set (m1 := m - List.length l - 1) in *.
    destruct (aug_cell a m1 fx) as [[ca fx1]|] eqn:Ha; [|discriminate].
    destruct (aug_cell b m1 fx1) as [[cb fx2]|] eqn:Hb; [|discriminate].
    destruct fx2 as [|x fx3]; [discriminate|]. cbv zeta in Hc.
    destruct (cell_fits _ _); [|discriminate]. inversion Hc; subst c fx'. clear Hc.
    destruct (IHa f m1 (p ++ l ++ [false]) fx ca fx1 [] [] Hwa ltac:(lia) Ha) as (ea0 & eva & Hsa & Hna).
    destruct (IHb f m1 (p ++ l ++ [true]) fx1 cb (x :: fx3) [] [] Hwb ltac:(lia) Hb) as (eb0 & evb & Hsb & Hnb).
    exists ((ea0 ++ [eva]) ++ (eb0 ++ [evb])), (None, x). split.
    + cbn [aug_sem]. rewrite Hsa, Hsb. rewrite <- !app_assoc. reflexivity.
    + split; [reflexivity|].
      cbn [aug_nodes]. rewrite hm_ord_test. rewrite <- !app_assoc.
      rewrite read_label_spec by (lia || apply rt_kind_ok). cbn [bind].
      replace (Z.of_nat m <? Z.of_nat (List.length l))%Z with false by lia.
      replace (Z.of_nat m - Z.of_nat (List.length l) =? 0)%Z with false by lia.
      replace (Z.of_nat m - Z.of_nat (List.length l) - 1)%Z with (Z.of_nat m1) by lia.
      unfold s_load_ref at 1. cbn [s_refs s_bits bind app].
      destruct ca as [tya ba ra]. destruct Hna as [-> Hna]. rewrite !app_nil_r in Hna.
      rewrite <- ?app_assoc in Hna. rewrite <- ?app_assoc. rewrite Hna. cbn [bind].
      unfold s_load_ref. cbn [s_refs s_bits bind].
      destruct cb as [tyb bb rb]. destruct Hnb as [-> Hnb]. rewrite !app_nil_r in Hnb.
      rewrite <- ?app_assoc in Hnb. rewrite <- ?app_assoc. rewrite Hnb. cbn [bind].
      repeat (rewrite ?map_app; cbn [map app]; rewrite <- ?app_assoc). reflexivity.
Qed.

Lemma Forall2_imp {A B} (P Q : A -> B -> Prop) : (forall x y, P x y -> Q x y) ->
  forall l l', Forall2 P l l' -> Forall2 Q l l'.
Proof. intros H l l' H2. induction H2; constructor; auto. Qed.

Lemma mapM_app {A B} (f : A -> result B) : forall l1 l2 r1 r2,
  mapM f l1 = Ok r1 -> mapM f l2 = Ok r2 -> mapM f (l1 ++ l2) = Ok (r1 ++ r2).
Proof.
  induction l1 as [|x l1 IH]; intros l2 r1 r2 H1 H2; cbn [mapM app] in *.
  - inversion H1; subst. exact H2.
  - destruct (f x) as [y|e]; cbn [bind] in *; [|discriminate].
    destruct (mapM f l1) as [ys|e] eqn:E; cbn [bind] in *; [|discriminate].
    inversion H1; subst. rewrite (IH l2 ys r2 eq_refl H2). reflexivity.
Qed.

Lemma mapM_Forall2 {A B} (f : A -> result B) : forall l r, mapM f l = Ok r -> Forall2 (fun x y => f x = Ok y) l r.
Proof.
  induction l as [|x l IH]; intros r H; cbn [mapM] in H.
  - inversion H; constructor.
  - destruct (f x) as [y|e] eqn:E; cbn [bind] in H; [|discriminate].
    destruct (mapM f l) as [ys|e] eqn:E2; cbn [bind] in H; [|discriminate].
    inversion H; subst. constructor; [exact E|apply IH; reflexivity].
Qed.

(* ------------------------------------------------------------------------------------------------ *)
(* Primitive fields: the op, the loaded value, the attribute expression                               *)
(* ------------------------------------------------------------------------------------------------ *)

Definition fty_op (f : fty) : option dop :=
  match f with
  | FUint w => Some (OUint w)
  | FUintLe m => Some (OUint (le_bits m))
  | FUintLt m => Some (OUint (lt_bits m))
  | FInt w => Some (OInt w)
  | FBool => Some OBool
  | FBit => Some OBit
  | FBits w => Some (OBits w)
  | FBytes w | FBytesHex w => Some (OBytes w)
  | FCoins => Some OCoins
  | FVarUint m => Some (OVarUint (lt_bits m))
  | FVarInt m => Some (OVarInt (lt_bits m))
  | FAddr | FAddrInt | FAddrExt => Some OAddr
  | FCell => Some ORefCell
  | _ => None
  end.
Definition fty_raw (f : fty) (x : pv) : pv :=
  match f, x with FBytesHex _, PHex bs => PBytes bs | _, _ => x end.
Definition fty_expr (f : fty) (n : nat) : dexpr :=
  match f with FBytesHex _ => EHex (EVar n) | _ => EVar n end.

Lemma compile_prim f o nm sid n ns acc k : fty_op f = Some o ->
  compile_field f nm sid n ns acc k = DOp sid o (k (S n) ns (acc ++ [(nm, fty_expr f n)])).
Proof. destruct f; cbn [fty_op]; intros H; inversion H; reflexivity. Qed.

Lemma bitlen_spec M : (0 < M)%Z -> 1 <= bitlen M /\ (M < 2 ^ Z.of_nat (bitlen M))%Z.
Proof.
  intros HM. unfold bitlen. destruct (Z.leb_spec M 0) as [|_]; [lia|].
  pose proof (Z.log2_nonneg M). pose proof (Z.log2_spec M HM) as [_ Hhi].
  split; [lia|]. rewrite Z2Nat.id by lia. replace (Z.log2 M + 1)%Z with (Z.succ (Z.log2 M)) by lia. exact Hhi.
Qed.

Lemma in_uint_le_bits m z : 1 <= m -> (0 <= z <= Z.of_nat m)%Z ->
  1 <= le_bits m /\ in_uint (Z.of_nat (le_bits m)) z = true.
Proof.
  intros Hm Hz. unfold le_bits. destruct (bitlen_spec (Z.of_nat m)) as [H1 H2]; [lia|].
  split; [exact H1|]. apply in_uint_iff. lia.
Qed.

Lemma in_uint_lt_bits m z : 2 <= m -> (0 <= z < Z.of_nat m)%Z ->
  1 <= lt_bits m /\ in_uint (Z.of_nat (lt_bits m)) z = true.
Proof.
  intros Hm Hz. unfold lt_bits. destruct (bitlen_spec (Z.of_nat m - 1)) as [H1 H2]; [lia|].
  split; [exact H1|]. apply in_uint_iff. lia.
Qed.

Lemma load_var_uint_lt m v tb r : 2 <= m -> (0 <= v)%Z -> (ulen0 v < Z.of_nat m)%Z ->
  s_load_var false (mkS (enc_var m (ulen0 v) v ++ tb) r) (lt_bits m) = Ok (v, mkS tb r).
Proof.
  intros Hm Hv Hlen. destruct (bitlen_spec (Z.of_nat m - 1)) as [H1 H2]; [lia|]. fold (lt_bits m) in H1, H2.
  pose proof (load_var_uint_app (Z.of_nat (lt_bits m)) v tb r) as H. rewrite Nat2Z.id in H.
  apply H; lia.
Qed.

Lemma load_var_int_lt m v tb r : 2 <= m -> (slen0 v < Z.of_nat m)%Z ->
  s_load_var true (mkS (enc_var m (slen0 v) v ++ tb) r) (lt_bits m) = Ok (v, mkS tb r).
Proof.
  intros Hm Hlen. destruct (bitlen_spec (Z.of_nat m - 1)) as [H1 H2]; [lia|]. fold (lt_bits m) in H1, H2.
  pose proof (load_var_int_app (Z.of_nat (lt_bits m)) v tb r) as H. rewrite Nat2Z.id in H.
  apply H; lia.
Qed.

Lemma prim_field_load ch ety rty wty f o x c bits refs tb tr :
  fty_op f = Some o -> wf_fty f = true -> wt_field ch wty rty f x c -> enc_field ch ety rty f x = Ok (bits, refs) ->
  prim_load o (mkS (bits ++ tb) (refs ++ tr)) = Ok (fty_raw f x, mkS tb tr).
Proof.
  intros Hop Hwf Hwt Henc.
  destruct f; cbn [fty_op] in Hop; inversion Hop; subst o; clear Hop;
    cbn [wt_field] in Hwt; destruct x; try contradiction;
    cbn [enc_field ok_bits] in Henc; inversion Henc; subst bits refs; clear Henc;
    cbn [wf_fty] in Hwf; cbn [prim_load fty_raw app].
  - (* FUint *) rewrite load_uint_app_n by (lia || exact Hwt). reflexivity.
  - (* FUintLe *) destruct (in_uint_le_bits m z) as [H1 H2]; [lia|exact Hwt|].
    rewrite load_uint_app_n by assumption. reflexivity.
  - (* FUintLt *) destruct (in_uint_lt_bits m z) as [H1 H2]; [lia|exact Hwt|].
    rewrite load_uint_app_n by assumption. reflexivity.
  - (* FInt *) rewrite load_int_app_n by (lia || exact Hwt). reflexivity.
  - (* FBool *) reflexivity.
  - (* FBit *) reflexivity.
  - (* FBits *) subst n. rewrite load_bits_app. reflexivity.
  - (* FBytes *) destruct Hwt as [Hlen Hok].
    rewrite load_bytes_app by (congruence || apply bytes_okb_ok; exact Hok). reflexivity.
  - (* FBytesHex *) destruct Hwt as [Hlen Hok].
    rewrite load_bytes_app by (congruence || apply bytes_okb_ok; exact Hok). reflexivity.
  - (* FCoins *) destruct Hwt as [H0 Hlen]. unfold s_load_coins, s_load_var_uint.
    change 4 with (lt_bits 16). rewrite load_var_uint_lt by (lia || eassumption). reflexivity.
  - (* FVarUint *) destruct Hwt as [H0 Hlen]. unfold s_load_var_uint.
    rewrite load_var_uint_lt by (lia || eassumption). reflexivity.
  - (* FVarInt *) unfold s_load_var_int. rewrite load_var_int_lt by (lia || eassumption). reflexivity.
  - (* FAddr *) rewrite load_address_app by exact Hwt. reflexivity.
  - (* FAddrInt *) rewrite load_address_app by apply Hwt. reflexivity.
  - (* FAddrExt *) rewrite load_address_app by apply Hwt. reflexivity.
  - (* FCell *) reflexivity.
Qed.

Lemma prim_field_eval ch wty rty f o x c n env more leaf :
  fty_op f = Some o -> wt_field ch wty rty f x c -> List.length env = n ->
  eval (fty_expr f n) (env ++ [fty_raw f x] ++ more) leaf = x.
Proof.
  intros Hop Hwt Hn. subst n.
  destruct f; cbn [fty_op] in Hop; try discriminate; cbn [fty_expr eval app];
    rewrite nth_middle; cbn [wt_field] in Hwt; destruct x; try contradiction; reflexivity.
Qed.

(* ------------------------------------------------------------------------------------------------ *)
(* Fields, items, constructors                                                                       *)
(* ------------------------------------------------------------------------------------------------ *)

Lemma need_prim nty f o : fty_op f = Some o -> need_field nty f = 1.
Proof. destruct f; cbn [fty_op need_field]; intros H; (discriminate || reflexivity). Qed.

Lemma maybe_cases (x : pv) : x = PNone \/ x <> PNone.
Proof. destruct x; (left; reflexivity) || (right; discriminate). Qed.

Lemma enc_maybe_some ch ety rty g x : x <> PNone ->
  enc_field ch ety rty (FMaybe g) x = bind (enc_field ch ety rty g x) (fun '(b, r) => Ok (true :: b, r)).
Proof. intros H. destruct x; (contradiction || reflexivity). Qed.

Lemma wt_maybe_some ch wty rty g x c : x <> PNone -> wt_field ch wty rty (FMaybe g) x c -> wt_field ch wty rty g x c.
Proof. intros H. destruct x; (contradiction || (intros Hw; exact Hw)). Qed.

(* what a collected attribute (name, expression) must satisfy in the environment E: it evaluates to the
   value the attribute has, and a constraint reading it sees the same integer *)
Definition gnum_e (e : dexpr) (E : list pv) : Z :=
  match e with
  | EVar i => numof (nth i E PNone)
  | EConstInt z => z
  | EConstBool true => 1%Z
  | _ => 0%Z
  end.
Definition entry_ok (look : string -> pv) (E : list pv) (p : string * dexpr) : Prop :=
  (forall leaf, eval (snd p) E leaf = look (fst p)) /\ gnum_e (snd p) E = numof (look (fst p)).
Definition acc_ok (look : string -> pv) (env : list pv) (acc : list (string * dexpr)) : Prop :=
  Forall (fun p => forall more, entry_ok look (env ++ more) p) acc.

Lemma entry_var look E nm i : nth i E PNone = look nm -> entry_ok look E (nm, EVar i).
Proof. intros H. split; cbn [fst snd eval gnum_e]; [intros _; exact H|rewrite H; reflexivity]. Qed.
Lemma entry_none look E nm : look nm = PNone -> entry_ok look E (nm, ENone).
Proof. intros H. split; cbn [fst snd eval gnum_e]; [intros _; symmetry; exact H|rewrite H; reflexivity]. Qed.
Lemma entry_hex look E nm i bs : nth i E PNone = PBytes bs -> look nm = PHex bs ->
  entry_ok look E (nm, EHex (EVar i)).
Proof.
  intros H1 H2. split; cbn [fst snd eval gnum_e]; [intros _; rewrite H1; symmetry; exact H2|].
  rewrite H2. reflexivity.
Qed.
Lemma entry_const look E nm cv : look nm = cval_pv cv -> entry_ok look E (nm, cval_expr cv).
Proof.
  intros H. split; cbn [fst snd]; [intros leaf|]; rewrite H; destruct cv as [s| |[|]|z]; reflexivity.
Qed.

Lemma acc_ok_ext look env acc x : acc_ok look env acc -> acc_ok look (env ++ x) acc.
Proof.
  unfold acc_ok. intros H. eapply Forall_impl; [|exact H]. intros p Hp more. cbn beta in Hp.
  rewrite <- app_assoc. apply Hp.
Qed.

Lemma prim_field_entry ch wty rty look f o nm c n env more :
  fty_op f = Some o -> wt_field ch wty rty f (look nm) c -> List.length env = n ->
  entry_ok look (env ++ [fty_raw f (look nm)] ++ more) (nm, fty_expr f n).
Proof.
  intros Hop Hwt Hn. subst n.
  destruct f; cbn [fty_op] in Hop; try discriminate; cbn [fty_expr app];
    cbn [wt_field] in Hwt; destruct (look nm) eqn:Hx; try contradiction; cbn [fty_raw];
    try (apply entry_var; rewrite nth_middle; symmetry; exact Hx).
  apply (entry_hex _ _ _ _ l); [apply nth_middle|exact Hx].
Qed.

(* what is known of the tail of the cell agrees with the actual tail *)
Definition ctx_ok (c : ctx) (tb : list bool) (tr : list cell) : Prop :=
  match c with None => True | Some t => t = (tb, tr) end.

Lemma firstn_add {A} (l : list A) a b : firstn (a + b) l = firstn a l ++ firstn b (skipn a l).
Proof.
  revert l. induction a as [|a IH]; intros l; [reflexivity|].
  destruct l as [|x l]; cbn [Nat.add firstn skipn app]; [rewrite firstn_nil; reflexivity|].
  rewrite IH. reflexivity.
Qed.

Lemma skipn_add {A} (l : list A) a b : skipn (a + b) l = skipn b (skipn a l).
Proof.
  revert l. induction a as [|a IH]; intros l; [reflexivity|].
  destruct l as [|x l]; cbn [Nat.add skipn]; [rewrite skipn_nil; reflexivity|]. apply IH.
Qed.

Section Correct.
  Variable tbl : table.
  Variable st : stable.
  Variable ch : pv -> bool.
  Variable d : nat.

  Local Notation WT := (wt_field ch (wt_type ch st d) (rest_type ch st)).
  Local Notation ENC := (enc_field ch (enc_type ch st d) (rest_type ch st)).
  Local Notation NEED := (need_field (need_type st d)).
  Local Notation ord := (mkTS ty_ordinary).

  (* what is assumed of the named types at nesting depth d *)
  Definition ty_ok : Prop :=
    forall T a c x bits refs, wt_type ch st d T a c x -> enc_type ch st d T a x = Ok (bits, refs) ->
      exists tree, lookup tbl T a = Some tree /\
        forall fuel tb tr, ctx_ok c tb tr -> need_type st d T a <= fuel ->
          exists ss', run tbl fuel tree [(0, ord (mkS (bits ++ tb) (refs ++ tr)))] [] [] = Ok (x, ss')
                      /\ get_slice ss' 0 = Ok (ord (mkS tb tr)).
  Hypothesis Hty : ty_ok.

  (* the tree t, entered with n variables bound, reaches the continuation k having consumed exactly the
     encoding from sub-slice sid, with the attributes `names` bound to the values `look` gives them *)
  (* the widths of the variables that hold the w-bit fields of the table wtab (those whose lowest bit
     conditions a later field) are what the layout says *)
  Definition went (wtab : list (string * nat)) (W : list nat) (p : string * dexpr) : Prop :=
    forall w0, In (fst p, w0) wtab -> exists i, snd p = EVar i /\ nth i W 1 = w0.
  Definition wacc_ok (wtab : list (string * nat)) (W : list nat) (acc : list (string * dexpr)) : Prop :=
    Forall (fun p => forall morew, went wtab (W ++ morew) p) acc.
  Definition name_ok (wtab : list (string * nat)) (nm : string) (f : fty) : Prop :=
    forall w0, In (nm, w0) wtab -> fty_src_ok f w0 = true.

  Definition post (wtab : list (string * nat)) (t : dtree) (k : kont) (names : list string) (look : string -> pv)
      (sid n ns : nat) (acc : list (string * dexpr)) (ss : slices) (env : list pv) (w : list nat)
      (tb : list bool) (tr : list cell) (fuel bound : nat) : Prop :=
    exists c ss' vals ws acc' ns',
      run tbl fuel t ss env w
      = run tbl (fuel - c) (k (n + List.length vals) ns' (acc ++ acc')) ss' (env ++ vals) (w ++ ws)
      /\ c <= bound
      /\ get_slice ss' sid = Ok (ord (mkS tb tr))
      /\ (forall j, j <> sid -> j < ns -> get_slice ss' j = get_slice ss j)
      /\ List.length ws = List.length vals /\ ns <= ns'
      /\ map fst acc' = names
      /\ Forall (fun p => forall more, entry_ok look (env ++ vals ++ more) p) acc'
      /\ wacc_ok wtab (w ++ ws) acc'.

  (* the leaves of a dictionary, parsed one by one by the value tree, give back the pairs *)
  Lemma dict_run vf n vt f : forall (kl : list (Z * pv)) (src : kvs),
    (forall kv b r, In kv kl -> ENC vf (snd kv) = Ok (b, r) -> WT vf (snd kv) None ->
       exists ss', run tbl f vt [(0, ord (mkS b r))] [] [] = Ok (snd kv, ss')) ->
    enc_kvs n (ENC vf) kl = Ok src ->
    Forall (fun kv => (0 <= fst kv < 2 ^ Z.of_nat n)%Z /\ WT vf (snd kv) None) kl ->
    mapM (fun '(key, ls) =>
            rmap (fun '(v, _) => (Z.of_N (of_bits key), v)) (run tbl f vt [(0, ord ls)] [] []))
         (map rt_conv src) = Ok kl
    /\ (exists kvs3,
          mapM (fun '(key, ls) =>
                  rmap (fun '(v, ss1) => (Z.of_N (of_bits key), v, ss1)) (run tbl f vt [(0, ord ls)] [] []))
               (map rt_conv src) = Ok kvs3
          /\ map (fun '(k, v, _) => (k, v)) kvs3 = kl)
    /\ map fst src = map (enc n) (map fst kl).
  Proof.
    unfold enc_kvs.
    induction kl as [|[k x] rest IH]; intros src Hval Hsrc Hall.
    - cbn [mapM] in Hsrc. inversion Hsrc; subst src. split; [reflexivity|]. split; [|reflexivity].
      exists []. split; reflexivity.
    - cbn [mapM fst snd] in Hsrc.
      destruct (ENC vf x) as [[b r]|e0] eqn:Hx; cbn [rmap bind] in Hsrc; [|discriminate].
      destruct (mapM (fun kv => rmap (fun p => (enc n (fst kv), p)) (ENC vf (snd kv))) rest)
        as [src'|e0] eqn:Hrest; cbn [bind] in Hsrc; [|discriminate].
      inversion Hsrc; subst src; clear Hsrc. inversion Hall as [|? ? [Hk Hwx] Hall']; subst.
      cbn [fst snd] in Hk, Hwx.
      destruct (IH src') as (IH1 & (kvs3 & IH3 & IH3') & IH2); [|reflexivity|exact Hall'|].
      { intros kv b' r' Hin. apply Hval. right. exact Hin. }
      destruct (Hval (k, x) b r (or_introl eq_refl) Hx Hwx) as (ss' & Hrun). cbn [snd] in Hrun.
      split; [|split].
      + cbn [map rt_conv fst snd mapM]. rewrite Hrun. cbn [rmap bind]. rewrite IH1. cbn [bind].
        rewrite of_bits_enc, Z.mod_small, Z2N.id by lia. reflexivity.
      + exists ((k, x, ss') :: kvs3). split.
        * cbn [map rt_conv fst snd mapM]. rewrite Hrun. cbn [rmap bind]. rewrite IH3. cbn [bind].
          rewrite of_bits_enc, Z.mod_small, Z2N.id by lia. reflexivity.
        * cbn [map]. rewrite IH3'. reflexivity.
      + cbn [map fst]. rewrite IH2. reflexivity.
  Qed.

  (* the canonical tree of ascending in-range keys: its leaves are the encoded pairs, in order *)
  Lemma dict_leaves vf n (kl : list (Z * pv)) (src : kvs) e :
    map fst src = map (enc n) (map fst kl) -> ascending (map fst kl) = true ->
    Forall (fun kv => (0 <= fst kv < 2 ^ Z.of_nat n)%Z /\ WT vf (snd kv) None) kl ->
    s_patricia (S n) src = Some e ->
    leaves_of (canon_kinds (canon_vtree e) n) [] = map rt_conv src.
  Proof.
    intros Hkeys Hasc Hall Hpat.
    assert (Hrange : Forall (fun k => (0 <= k < 2 ^ Z.of_nat n)%Z) (map fst kl)).
    { apply Forall_map. eapply Forall_impl; [|exact Hall]. intros kv [H1 _]. exact H1. }
    apply canon_leaves; [| |exact (asc_sorted n src _ Hkeys Hasc Hrange)|exact Hpat].
    - rewrite Hkeys. apply asc_nodup; assumption.
    - exact (keys_length n src _ Hkeys).
  Qed.

  Lemma field_prim wtab f o nm look c bits refs :
    fty_op f = Some o -> name_ok wtab nm f ->
    wf_fty f = true -> WT f (look nm) c ->
    ENC f (look nm) = Ok (bits, refs) ->
    forall sid n ns acc k ss env w tb tr fuel,
      get_slice ss sid = Ok (ord (mkS (bits ++ tb) (refs ++ tr))) ->
      List.length env = n -> List.length w = n -> sid < ns -> NEED f <= fuel ->
      post wtab (compile_field f nm sid n ns acc k) k [nm] look sid n ns acc ss env w tb tr fuel (NEED f).
  Proof.
    intros Hop Hwtab Hwf Hwt Henc sid n ns acc k ss env w tb tr fuel Hget Hn Hw Hsid Hfuel.
    rewrite (need_prim _ f o Hop) in *. rewrite (compile_prim f o nm sid n ns acc k Hop).
    exists 1, (set_slice ss sid (ord (mkS tb tr))), [fty_raw f (look nm)], [op_width o],
           [(nm, fty_expr f n)], ns.
    split; [|split; [|split; [|split; [|split; [|split; [|split; [|split]]]]]]].
    - rewrite (run_prim tbl fuel sid o _ ss env w _ _ _ Hfuel Hget
                 (prim_field_load _ _ _ _ f o _ c bits refs tb tr Hop Hwf Hwt Henc)).
      cbn [ts_ty List.length]. replace (n + 1) with (S n) by lia. reflexivity.
    - lia.
    - apply get_set_same.
    - intros j Hj _. apply get_set_other. exact Hj.
    - reflexivity.
    - lia.
    - reflexivity.
    - constructor; [|constructor]. intros more.
      apply (prim_field_entry ch (wt_type ch st d) (rest_type ch st) look f o nm c); assumption.
    - constructor; [|constructor]. intros morew w0 Hin. cbn [fst snd] in Hin |- *.
      pose proof (Hwtab w0 Hin) as E. exists n.
      destruct f; cbn [fty_src_ok] in E; try discriminate E; cbn [fty_op] in Hop; inversion Hop; subst o;
        cbn [fty_expr op_width]; (split; [reflexivity|]); apply Nat.eqb_eq in E;
        rewrite <- app_assoc; cbn [app]; rewrite <- Hw, nth_middle; congruence.
  Qed.

  (* the statement proved for every field type *)
  Definition field_ok (f : fty) : Prop :=
    forall wtab nm look c bits refs,
      name_ok wtab nm f ->
      wf_fty f = true -> WT f (look nm) c -> ENC f (look nm) = Ok (bits, refs) ->
      forall sid n ns acc k ss env w tb tr fuel,
        ctx_ok c tb tr ->
        get_slice ss sid = Ok (ord (mkS (bits ++ tb) (refs ++ tr))) ->
        List.length env = n -> List.length w = n -> sid < ns -> NEED f <= fuel ->
        post wtab (compile_field f nm sid n ns acc k) k [nm] look sid n ns acc ss env w tb tr fuel (NEED f).

  (* a value alone in a slice (a dictionary leaf), followed by anything *)
  Lemma value_run vf x b r fuel tb tr :
    field_ok vf -> wf_fty vf = true -> WT vf x None -> ENC vf x = Ok (b, r) -> NEED vf + 1 <= fuel ->
    exists ss', run tbl fuel (compile_field vf ""%string 0 0 1 [] kret) [(0, ord (mkS (b ++ tb) (r ++ tr)))] [] []
                = Ok (x, ss') /\ get_slice ss' 0 = Ok (ord (mkS tb tr)).
  Proof.
    intros Hok Hwf Hwt Henc Hfuel.
    destruct (Hok [] ""%string (fun _ => x) None b r (fun w0 (H : In _ []) => match H with end) Hwf Hwt Henc 0 0 1 [] kret
                [(0, ord (mkS (b ++ tb) (r ++ tr)))] [] [] tb tr fuel)
      as (c & ss1 & vals & ws & acc1 & ns1 & Hrun & Hc & Hg & _ & _ & _ & Hnames & Hev & _);
      try (reflexivity || lia || exact I).
    destruct acc1 as [|[nm1 e1] [|q acc2]]; cbn [map] in Hnames; try discriminate.
    cbn [app] in Hrun. unfold kret in Hrun at 2. rewrite run_ret in Hrun by lia.
    exists ss1. split; [|exact Hg]. rewrite Hrun. f_equal. f_equal.
    inversion Hev as [|p l Hp _]; subst. destruct (Hp []) as [He _]. cbn [app fst snd] in He.
    rewrite app_nil_r in He. apply He.
  Qed.

  (* a non-empty HashmapE n X behind its presence bit: load_dict gives back the pairs *)
  Lemma dict_correct vf dn (kvs : list (Z * pv)) src t fuel :
    field_ok vf -> wf_fty vf = true -> 1 <= dn <= 1023 -> NEED vf + 1 <= fuel ->
    ascending (map fst kvs) = true ->
    Forall (fun kv => (0 <= fst kv < 2 ^ Z.of_nat dn)%Z /\ WT vf (snd kv) None) kvs ->
    enc_kvs dn (ENC vf) kvs = Ok src -> dict_tree dn src = Ok t ->
    forall tb tr,
    exists leaves,
      s_load_dict (mkS (true :: tb) (cell_of t dn :: tr)) (Z.of_nat dn) = Ok (Some leaves, mkS tb tr) /\
      mapM (fun '(key, ls) =>
              rmap (fun '(v, _) => (Z.of_N (of_bits key), v))
                   (run tbl fuel (compile_field vf ""%string 0 0 1 [] kret) [(0, ord ls)] [] [])) leaves = Ok kvs.
  Proof.
    intros Hok Hwf Hdn Hfuel Hasc Hall Hsrc Ht tb tr.
    destruct (dict_tree_ok dn src t Ht) as (e & Hpat & -> & Hvok).
    destruct (dict_run vf dn (compile_field vf ""%string 0 0 1 [] kret) fuel kvs src) as (Hmap & _ & Hkeys).
    { intros kv b r Hin Henc1 Hwt1.
      destruct (value_run vf (snd kv) b r fuel [] [] Hok Hwf Hwt1 Henc1 Hfuel) as (ss' & Hrun & _).
      rewrite !app_nil_r in Hrun. exists ss'. exact Hrun. }
    { exact Hsrc. }
    { exact Hall. }
    exists (map rt_conv src). split; [|exact Hmap].
    rewrite <- (dict_leaves vf dn kvs src e Hkeys Hasc Hall Hpat).
    apply load_dict_valid; [lia|exact Hvok|apply canon_cell_ordinary].
  Qed.

  (* the last component of [post] (the widths) is solved on the spot when it is immediate *)
  Local Ltac wsolve := first
    [ solve [unfold wacc_ok; constructor]
    | solve [unfold wacc_ok; constructor; [|constructor]; intros morew w0 Hin; cbn [fst snd] in Hin;
             match goal with Hwtab : name_ok _ _ _ |- _ => discriminate (Hwtab w0 Hin) end] ].
  Local Ltac post_split :=
    split; [|split; [|split; [|split; [|split; [|split; [|split; [|split; [|try wsolve]]]]]]]].

  (* ---- HashmapAug: a node of the schema and what the visit of it yields (the pair, the extra) ---- *)
  Definition ev_rel (n : nat) (vf xf : fty) (ev : aug_ev) (dd : option (Z * pv) * pv) : Prop :=
    ENC xf (snd dd) = Ok (snd ev) /\ WT xf (snd dd) None /\
    match fst ev, fst dd with
    | Some (key, vp), Some (k, v) =>
        key = enc n k /\ (0 <= k < 2 ^ Z.of_nat n)%Z /\ ENC vf v = Ok vp /\ WT vf v None
    | None, None => True
    | _, _ => False
    end.
  Definition dd_leaves (ds : list (option (Z * pv) * pv)) : list (Z * pv) :=
    flat_map (fun dd => match fst dd with Some kv => [kv] | None => [] end) ds.

  Lemma visit_ok n vf xf ev dd fuel tb tr :
    field_ok vf -> field_ok xf -> wf_fty vf = true -> wf_fty xf = true ->
    ev_rel n vf xf ev dd -> NEED vf + 1 <= fuel -> NEED xf + 1 <= fuel ->
    aug_visit_fn tbl fuel (compile_field vf ""%string 0 0 1 [] kret) (compile_field xf ""%string 0 0 1 [] kret)
      (ev_node ev tb tr) = Ok (dd, mkS tb tr).
  Proof.
    intros Hokv Hokx Hwfv Hwfx (Hex & Hwx & Hrel) Hfv Hfx.
    destruct ev as [[[key [vb vr]]|] [xb xr]]; destruct dd as [[[k v]|] ex]; cbn [fst snd] in *; try contradiction.
    - destruct Hrel as (Hkey & Hk & Hev & Hwv).
      unfold ev_node. cbn [fst ev_slice aug_visit_fn snd].
      destruct (value_run xf ex xb xr fuel (vb ++ tb) (vr ++ tr) Hokx Hwfx Hwx Hex Hfx) as (ss1 & Hr1 & Hg1).
      rewrite Hr1. cbn [bind]. rewrite Hg1. cbn [bind].
      destruct (value_run vf v vb vr fuel tb tr Hokv Hwfv Hwv Hev Hfv) as (ss2 & Hr2 & Hg2).
      rewrite Hr2. cbn [bind]. rewrite Hg2. cbn [bind ts_s]. subst key.
      rewrite of_bits_enc, Z.mod_small, Z2N.id by lia. reflexivity.
    - unfold ev_node. cbn [fst ev_slice aug_visit_fn snd].
      destruct (value_run xf ex xb xr fuel tb tr Hokx Hwfx Hwx Hex Hfx) as (ss1 & Hr1 & Hg1).
      rewrite Hr1. cbn [bind]. rewrite Hg1. reflexivity.
  Qed.

  Lemma visits_ok n vf xf fuel :
    field_ok vf -> field_ok xf -> wf_fty vf = true -> wf_fty xf = true ->
    NEED vf + 1 <= fuel -> NEED xf + 1 <= fuel ->
    forall evs ds, Forall2 (ev_rel n vf xf) evs ds ->
    mapM (aug_visit_fn tbl fuel (compile_field vf ""%string 0 0 1 [] kret) (compile_field xf ""%string 0 0 1 [] kret))
         (map (fun e0 => ev_node e0 [] []) evs) = Ok (map (fun dd => (dd, mkS [] [])) ds).
  Proof.
    intros Hokv Hokx Hwfv Hwfx Hfv Hfx evs ds H. induction H as [|ev dd evs ds Hr _ IH]; [reflexivity|].
    cbn [map mapM]. rewrite (visit_ok n vf xf ev dd fuel [] [] Hokv Hokx Hwfv Hwfx Hr Hfv Hfx).
    cbn [bind]. rewrite IH. reflexivity.
  Qed.

  (* the nodes of the tree, the pairs and the extras of the value, side by side *)
  Lemma aug_zip n vf xf : forall evs extras kvs,
    Forall2 (fun ex p => ENC xf ex = Ok p /\ WT xf ex None) extras (map snd evs) ->
    Forall2 (fun kv sp => fst sp = enc n (fst kv) /\ (0 <= fst kv < 2 ^ Z.of_nat n)%Z /\
                          ENC vf (snd kv) = Ok (snd sp) /\ WT vf (snd kv) None) kvs (ev_leaves evs) ->
    exists ds, Forall2 (ev_rel n vf xf) evs ds /\ dd_leaves ds = kvs /\ map snd ds = extras.
  Proof.
    induction evs as [|[lf xp] evs IH]; intros extras kvs Hex Hkv.
    - cbn [map] in Hex. inversion Hex; subst. cbn in Hkv. inversion Hkv; subst.
      exists []. repeat split. constructor.
    - cbn [map snd] in Hex. inversion Hex as [|ex p extras' ps [He Hw] Hex']; subst.
      destruct lf as [[key vp]|].
      + change (ev_leaves ((Some (key, vp), xp) :: evs)) with ((key, vp) :: ev_leaves evs) in Hkv.
        inversion Hkv as [|kv sp kvs' sps (Hk1 & Hk2 & Hk3 & Hk4) Hkv']; subst. cbn [fst snd] in *.
        destruct (IH extras' kvs' Hex' Hkv') as (ds & Hds & Hl & Hx).
        exists ((Some kv, ex) :: ds). split; [|split].
        * constructor; [|exact Hds]. unfold ev_rel. cbn [fst snd]. destruct kv as [k v]. cbn [fst snd] in *.
          repeat split; try assumption; lia.
        * unfold dd_leaves in *. cbn [flat_map fst app]. rewrite Hl. reflexivity.
        * cbn [map snd]. rewrite Hx. reflexivity.
      + change (ev_leaves ((None, xp) :: evs)) with (ev_leaves evs) in Hkv.
        destruct (IH extras' kvs Hex' Hkv) as (ds & Hds & Hl & Hx).
        exists ((None, ex) :: ds). split; [|split].
        * constructor; [|exact Hds]. unfold ev_rel. cbn [fst snd]. repeat split; assumption.
        * unfold dd_leaves in *. cbn [flat_map fst app]. exact Hl.
        * cbn [map snd]. rewrite Hx. reflexivity.
  Qed.

  Lemma enc_kvs_rel n vf : forall (kl : list (Z * pv)) (src : kvs),
    enc_kvs n (ENC vf) kl = Ok src ->
    Forall2 (fun kv sp => fst sp = enc n (fst kv) /\ ENC vf (snd kv) = Ok (snd sp)) kl src.
  Proof.
    unfold enc_kvs. intros kl src H. apply mapM_Forall2 in H.
    eapply Forall2_imp; [|exact H]. intros kv sp Hx. cbn beta in Hx.
    destruct (ENC vf (snd kv)) as [pp|e]; cbn [rmap] in Hx; [|discriminate]. inversion Hx; subst. split; reflexivity.
  Qed.

  Lemma Forall2_and_l {A B} (P : A -> B -> Prop) (Q : A -> Prop) : forall l l',
    Forall2 P l l' -> Forall Q l -> Forall2 (fun x y => P x y /\ Q x) l l'.
  Proof.
    induction 1 as [|x y l l' Hp _ IH]; intros Hq; [constructor|].
    inversion Hq; subst. constructor; [split; assumption|apply IH; assumption].
  Qed.

  Lemma rt_prep_nil (l : kvs) : map (rt_prep []) l = l.
  Proof. rewrite <- (map_id l) at 2. apply map_ext. intros [k v]. reflexivity. Qed.

  Lemma field_correct : forall f, field_ok f.
  Proof.
    unfold field_ok.
    induction f as [w0|m0|m0|w0| | |w0|w0|w0| |m0|m0| | | | | |T a|T a|g IH|dn vf IHvf|cv
                    |fl IHl fr IHr| |hn hvf IHh|vn vvf IHv|an avf IHa axf IHx|an avf IHa axf IHx];
      intros wtab nm look c bits refs Hwtab Hwf Hwt Henc sid n ns acc k ss env w tb tr fuel Hctx Hget Hn Hw Hsid Hfuel;
      try (solve [eapply field_prim; [reflexivity|eassumption..]]).
    - (* FMaybeCell *)
      cbn [need_field] in *. cbn [compile_field]. cbn [wt_field] in Hwt. cbn [enc_field ok_bits] in Henc.
      destruct (look nm) eqn:Hx; try contradiction; inversion Henc; subst bits refs; clear Henc.
      + exists 2, (set_slice ss sid (ord (mkS tb tr))), [PNone], [1], [(nm, ENone)], ns.
        post_split.
        * rewrite (run_prim tbl fuel sid OMaybeRefCell _ ss env w _ PNone (mkS tb tr)) by (lia || eassumption || reflexivity).
          rewrite (run_if tbl _ n 0 _ _ _ _ _ false);
            [|lia|rewrite <- Hn, nth_middle; reflexivity].
          cbn [ts_ty List.length]. replace (n + 1) with (S n) by lia.
          replace (fuel - 1 - 1) with (fuel - 2) by lia. reflexivity.
        * lia.
        * apply get_set_same.
        * intros j Hj _. apply get_set_other. exact Hj.
        * reflexivity.
        * lia.
        * reflexivity.
        * constructor; [|constructor]. intros more. apply entry_none. exact Hx.
      + exists 2, (set_slice ss sid (ord (mkS tb tr))), [PCell c0], [1], [(nm, EVar n)], ns.
        post_split.
        * rewrite (run_prim tbl fuel sid OMaybeRefCell _ ss env w _ (PCell c0) (mkS tb tr)) by (lia || eassumption || reflexivity).
          rewrite (run_if tbl _ n 0 _ _ _ _ _ true);
            [|lia|rewrite <- Hn, nth_middle; reflexivity].
          cbn [ts_ty List.length]. replace (n + 1) with (S n) by lia.
          replace (fuel - 1 - 1) with (fuel - 2) by lia. reflexivity.
        * lia.
        * apply get_set_same.
        * intros j Hj _. apply get_set_other. exact Hj.
        * reflexivity.
        * lia.
        * reflexivity.
        * constructor; [|constructor]. intros more. apply entry_var. cbn [app]. subst n.
          rewrite nth_middle. symmetry. exact Hx.
    - (* FType *)
      cbn [need_field] in *. cbn [compile_field]. cbn [wt_field] in Hwt. cbn [enc_field] in Henc.
      destruct (Hty T a c (look nm) bits refs Hwt Henc) as (tree & Hlk & Hrun).
      destruct (Hrun (fuel - 1) tb tr Hctx) as (ss1 & Hrun1 & Hget1); [lia|].
      exists 1, (set_slice ss sid (ord (mkS tb tr))), [look nm], [1], [(nm, EVar n)], ns.
      post_split.
      + rewrite (run_call tbl fuel sid T a _ ss env w _ tree (look nm) ss1 _) by (lia || eassumption).
        cbn [List.length]. replace (n + 1) with (S n) by lia. reflexivity.
      + lia.
      + apply get_set_same.
      + intros j Hj _. apply get_set_other. exact Hj.
      + reflexivity.
      + lia.
      + reflexivity.
      + constructor; [|constructor]. intros more. apply entry_var. cbn [app]. subst n.
        rewrite nth_middle. reflexivity.
    - (* FRefType *)
      cbn [need_field] in *. cbn [compile_field]. cbn [wt_field] in Hwt. cbn [enc_field] in Henc.
      destruct (enc_type ch st d T a (look nm)) as [[b r]|e] eqn:Hinner; cbn [bind] in Henc; [|discriminate].
      inversion Henc; subst bits refs; clear Henc.
      destruct (rest_type ch st T a (look nm)) as [rb rr] eqn:Hrest. cbn [fst snd] in *.
      destruct (Hty T a (Some (rb, rr)) (look nm) b r Hwt Hinner) as (tree & Hlk & Hrun).
      destruct (Hrun (fuel - 1 - 1) rb rr eq_refl) as (ss1 & Hrun1 & Hget1); [lia|].
      set (cc := Cell ty_ordinary (b ++ rb) (r ++ rr)) in *.
      set (ssA := set_slice (set_slice ss sid (ord (mkS tb tr))) ns (ord (mkS (b ++ rb) (r ++ rr)))).
      exists 2, (set_slice ssA ns (ord (mkS rb rr))),
             [PCell cc; look nm], [1; 1], [(nm, EVar (S n))], (S ns).
      post_split.
      + rewrite (run_ref tbl fuel sid ns _ ss env w _ cc (mkS tb tr))
          by (lia || eassumption || reflexivity).
        cbn [ts_ty cell_slice cc]. fold ssA.
        rewrite (run_call tbl (fuel - 1) ns T a _ ssA _ _ (ord (mkS (b ++ rb) (r ++ rr))) tree (look nm) ss1
                   (ord (mkS rb rr))); [|lia|apply get_set_same|assumption|assumption|assumption].
        rewrite <- !app_assoc. cbn [List.length app].
        replace (n + 2) with (S (S n)) by lia. replace (fuel - 1 - 1) with (fuel - 2) by lia. reflexivity.
      + lia.
      + rewrite get_set_other by lia. unfold ssA. rewrite get_set_other by lia. apply get_set_same.
      + intros j Hj Hlt. rewrite get_set_other by lia. unfold ssA. rewrite get_set_other by lia.
        apply get_set_other. exact Hj.
      + reflexivity.
      + lia.
      + reflexivity.
      + constructor; [|constructor]. intros more. apply entry_var. cbn [app]. subst n.
        change (PCell cc :: look nm :: more) with ([PCell cc] ++ look nm :: more).
        rewrite app_assoc. replace (S (List.length env)) with (List.length (env ++ [PCell cc]))
          by (rewrite app_length; cbn; lia).
        rewrite nth_middle. reflexivity.
    - (* FMaybe *)
      cbn [need_field] in *. cbn [compile_field]. cbn [wf_fty] in Hwf.
      destruct (maybe_cases (look nm)) as [Hx|Hx].
      + rewrite Hx in Henc. cbn [enc_field ok_bits] in Henc. inversion Henc; subst bits refs; clear Henc.
        exists 2, (set_slice ss sid (ord (mkS tb tr))), [PBool false], [1], [(nm, ENone)], ns.
        post_split.
        * rewrite (run_prim tbl fuel sid OBit _ ss env w _ (PBool false) (mkS tb tr)) by (lia || eassumption || reflexivity).
          rewrite (run_if tbl _ n 0 _ _ _ _ _ false);
            [|lia|rewrite <- Hn, nth_middle; reflexivity].
          cbn [ts_ty List.length]. replace (n + 1) with (S n) by lia.
          replace (fuel - 1 - 1) with (fuel - 2) by lia. reflexivity.
        * lia.
        * apply get_set_same.
        * intros j Hj _. apply get_set_other. exact Hj.
        * reflexivity.
        * lia.
        * reflexivity.
        * constructor; [|constructor]. intros more. apply entry_none. exact Hx.
      + rewrite (enc_maybe_some _ _ _ g _ Hx) in Henc.
        destruct (ENC g (look nm)) as [[b r]|e] eqn:Hinner; cbn [bind] in Henc; [|discriminate].
        inversion Henc; subst bits refs; clear Henc.
        pose proof (wt_maybe_some _ _ _ g _ c Hx Hwt) as Hwt'.
        set (ssA := set_slice ss sid (ord (mkS (b ++ tb) (r ++ tr)))).
        assert (Hwg : name_ok wtab nm g) by (intros w0 Hin; discriminate (Hwtab w0 Hin)).
        destruct (IH wtab nm look c b r Hwg Hwf Hwt' Hinner sid (S n) ns acc k ssA (env ++ [PBool true]) (w ++ [1])
                     tb tr (fuel - 1 - 1) Hctx) as (c1 & ss' & vals & ws & acc' & ns' & Hrun & Hc & Hg & Hfr & Hlen & Hns & Hnames & Hev & Hwa).
        { apply get_set_same. }
        { rewrite app_length. cbn. lia. }
        { rewrite app_length. cbn. lia. }
        { exact Hsid. }
        { lia. }
        exists (2 + c1), ss', (PBool true :: vals), (1 :: ws), acc', ns'.
        post_split.
        * rewrite (run_prim tbl fuel sid OBit _ ss env w _ (PBool true) (mkS (b ++ tb) (r ++ tr)))
            by (lia || eassumption || reflexivity).
          rewrite (run_if tbl _ n 0 _ _ _ _ _ true);
            [|lia|rewrite <- Hn, nth_middle; reflexivity].
          cbn [ts_ty op_width]. fold ssA. rewrite Hrun. rewrite <- !app_assoc. cbn [List.length app].
          replace (S n + List.length vals) with (n + S (List.length vals)) by lia.
          replace (fuel - 1 - 1 - c1) with (fuel - (2 + c1)) by lia. reflexivity.
        * lia.
        * exact Hg.
        * intros j Hj Hlt. rewrite (Hfr j Hj Hlt). unfold ssA. apply get_set_other. exact Hj.
        * cbn [List.length]. lia.
        * exact Hns.
        * exact Hnames.
        * eapply Forall_impl; [|exact Hev]. intros p Hp more. cbn beta in Hp.
          specialize (Hp more). rewrite <- !app_assoc in Hp. exact Hp.
        * rewrite <- app_assoc in Hwa. exact Hwa.
    - (* FDict *)
      cbn [need_field] in *. cbn [compile_field]. cbn [wt_field] in Hwt. cbn [enc_field] in Henc.
      cbn [wf_fty] in Hwf. apply andb_prop in Hwf. destruct Hwf as [Hwf Hwfv].
      apply andb_prop in Hwf. destruct Hwf as [Hn1 Hn2]. apply Nat.leb_le in Hn1. apply Nat.leb_le in Hn2.
      destruct (look nm) as [z0|b0|bs0|l0|s0| |a0|c0|sl0|cls0 fs0|l0|kvs|l0|l0 ex0|] eqn:Hx; try contradiction.
      + (* the empty dictionary *)
        cbn [ok_bits] in Henc. inversion Henc; subst bits refs; clear Henc.
        exists 2, (set_slice ss sid (ord (mkS tb tr))), [PNone], [1], [(nm, ENone)], ns.
        post_split.
        * rewrite (run_dict_empty tbl fuel sid dn _ _ ss env w _ (mkS tb tr)) by (lia || eassumption || reflexivity).
          rewrite (run_if tbl _ n 0 _ _ _ _ _ false);
            [|lia|rewrite <- Hn, nth_middle; reflexivity].
          cbn [ts_ty List.length]. replace (n + 1) with (S n) by lia.
          replace (fuel - 1 - 1) with (fuel - 2) by lia. reflexivity.
        * lia.
        * apply get_set_same.
        * intros j Hj _. apply get_set_other. exact Hj.
        * reflexivity.
        * lia.
        * reflexivity.
        * constructor; [|constructor]. intros more. apply entry_none. exact Hx.
      + (* a non-empty dictionary: the canonical tree of the encoded pairs *)
        destruct Hwt as (Hne & Hasc & Hall). apply all_of_Forall in Hall.
        destruct (enc_kvs dn (ENC vf) kvs) as [src|e0] eqn:Hsrc; cbn [bind] in Henc; [|discriminate].
        destruct (dict_tree dn src) as [t|e0] eqn:Ht; cbn [bind] in Henc; [|discriminate].
        inversion Henc; subst bits refs; clear Henc.
        destruct (dict_correct vf dn kvs src t (fuel - 1) IHvf Hwfv (conj Hn1 Hn2) ltac:(lia) Hasc Hall Hsrc Ht tb tr)
          as (leaves & Hload & Hmap).
        exists 2, (set_slice ss sid (ord (mkS tb tr))), [PDict kvs], [1], [(nm, EVar n)], ns.
        post_split.
        * rewrite (run_dict_some tbl fuel sid dn _ _ ss env w
                     (ord (mkS ([true] ++ tb) ([cell_of t dn] ++ tr))) leaves (mkS tb tr) kvs);
            [|lia|exact Hget|exact Hload|exact Hmap].
          rewrite (run_if tbl _ n 0 _ _ _ _ _ true);
            [|lia|rewrite <- Hn, nth_middle; reflexivity].
          cbn [ts_ty List.length]. replace (n + 1) with (S n) by lia.
          replace (fuel - 1 - 1) with (fuel - 2) by lia. reflexivity.
        * lia.
        * apply get_set_same.
        * intros j Hj _. apply get_set_other. exact Hj.
        * reflexivity.
        * lia.
        * reflexivity.
        * constructor; [|constructor]. intros more. apply entry_var. cbn [app]. subst n.
          rewrite nth_middle. symmetry. exact Hx.
    - (* FConst *)
      cbn [need_field] in *. cbn [compile_field]. cbn [wt_field] in Hwt.
      cbn [enc_field ok_bits] in Henc. inversion Henc; subst bits refs; clear Henc.
      exists 0, ss, [], [], [(nm, cval_expr cv)], ns.
      post_split.
      + cbn [List.length]. rewrite !app_nil_r, Nat.add_0_r, Nat.sub_0_r. reflexivity.
      + lia.
      + exact Hget.
      + intros j _ _. reflexivity.
      + reflexivity.
      + lia.
      + reflexivity.
      + constructor; [|constructor]. intros more. apply entry_const. exact Hwt.
    - (* FEither *)
      cbn [need_field] in *. cbn [compile_field]. cbn [wf_fty] in Hwf.
      apply andb_prop in Hwf. destruct Hwf as [Hwfl Hwfr].
      cbn [wt_field] in Hwt. cbn [enc_field] in Henc.
      destruct (ch (look nm)) eqn:Hch.
      + (* the right alternative *)
        destruct (ENC fr (look nm)) as [[b r]|e] eqn:Hinner; cbn [bind] in Henc; [|discriminate].
        inversion Henc; subst bits refs; clear Henc.
        set (ssA := set_slice ss sid (ord (mkS (b ++ tb) (r ++ tr)))).
        assert (Hwg : name_ok wtab nm fr) by (intros w0 Hin; discriminate (Hwtab w0 Hin)).
        destruct (IHr wtab nm look c b r Hwg Hwfr Hwt Hinner sid (S n) ns acc k ssA (env ++ [PBool true]) (w ++ [1])
                     tb tr (fuel - 1 - 1) Hctx) as (c1 & ss' & vals & ws & acc' & ns' & Hrun & Hc & Hg & Hfr & Hlen & Hns & Hnames & Hev & Hwa).
        { apply get_set_same. }
        { rewrite app_length. cbn. lia. }
        { rewrite app_length. cbn. lia. }
        { exact Hsid. }
        { lia. }
        exists (2 + c1), ss', (PBool true :: vals), (1 :: ws), acc', ns'.
        post_split.
        * rewrite (run_prim tbl fuel sid OBit _ ss env w _ (PBool true) (mkS (b ++ tb) (r ++ tr)))
            by (lia || eassumption || reflexivity).
          rewrite (run_if tbl _ n 0 _ _ _ _ _ true);
            [|lia|rewrite <- Hn, nth_middle; reflexivity].
          cbn [ts_ty op_width]. fold ssA. rewrite Hrun. rewrite <- !app_assoc. cbn [List.length app].
          replace (S n + List.length vals) with (n + S (List.length vals)) by lia.
          replace (fuel - 1 - 1 - c1) with (fuel - (2 + c1)) by lia. reflexivity.
        * lia.
        * exact Hg.
        * intros j Hj Hlt. rewrite (Hfr j Hj Hlt). unfold ssA. apply get_set_other. exact Hj.
        * cbn [List.length]. lia.
        * exact Hns.
        * exact Hnames.
        * eapply Forall_impl; [|exact Hev]. intros p Hp more. cbn beta in Hp.
          specialize (Hp more). rewrite <- !app_assoc in Hp. exact Hp.
        * rewrite <- app_assoc in Hwa. exact Hwa.
      + (* the left alternative *)
        destruct (ENC fl (look nm)) as [[b r]|e] eqn:Hinner; cbn [bind] in Henc; [|discriminate].
        inversion Henc; subst bits refs; clear Henc.
        set (ssA := set_slice ss sid (ord (mkS (b ++ tb) (r ++ tr)))).
        assert (Hwg : name_ok wtab nm fl) by (intros w0 Hin; discriminate (Hwtab w0 Hin)).
        destruct (IHl wtab nm look c b r Hwg Hwfl Hwt Hinner sid (S n) ns acc k ssA (env ++ [PBool false]) (w ++ [1])
                     tb tr (fuel - 1 - 1) Hctx) as (c1 & ss' & vals & ws & acc' & ns' & Hrun & Hc & Hg & Hfr & Hlen & Hns & Hnames & Hev & Hwa).
        { apply get_set_same. }
        { rewrite app_length. cbn. lia. }
        { rewrite app_length. cbn. lia. }
        { exact Hsid. }
        { lia. }
        exists (2 + c1), ss', (PBool false :: vals), (1 :: ws), acc', ns'.
        post_split.
        * rewrite (run_prim tbl fuel sid OBit _ ss env w _ (PBool false) (mkS (b ++ tb) (r ++ tr)))
            by (lia || eassumption || reflexivity).
          rewrite (run_if tbl _ n 0 _ _ _ _ _ false);
            [|lia|rewrite <- Hn, nth_middle; reflexivity].
          cbn [ts_ty op_width]. fold ssA. rewrite Hrun. rewrite <- !app_assoc. cbn [List.length app].
          replace (S n + List.length vals) with (n + S (List.length vals)) by lia.
          replace (fuel - 1 - 1 - c1) with (fuel - (2 + c1)) by lia. reflexivity.
        * lia.
        * exact Hg.
        * intros j Hj Hlt. rewrite (Hfr j Hj Hlt). unfold ssA. apply get_set_other. exact Hj.
        * cbn [List.length]. lia.
        * exact Hns.
        * exact Hnames.
        * eapply Forall_impl; [|exact Hev]. intros p Hp more. cbn beta in Hp.
          specialize (Hp more). rewrite <- !app_assoc in Hp. exact Hp.
        * rewrite <- app_assoc in Hwa. exact Hwa.
    - (* FRest: the value is what follows; nothing is consumed *)
      cbn [need_field] in *. cbn [compile_field]. cbn [wt_field] in Hwt.
      destruct c as [[tb' tr']|]; [|contradiction]. cbn [ctx_ok] in Hctx. inversion Hctx; subst tb' tr'.
      rewrite Hwt in Henc. cbn [enc_field] in Henc. inversion Henc; subst bits refs; clear Henc.
      cbn [app] in Hget.
      exists 1, ss, [look nm], [1], [(nm, EVar n)], ns.
      post_split.
      + rewrite (run_tocell tbl fuel sid _ ss env w _ Hfuel Hget). cbn [ts_ty ts_s s_bits s_refs].
        rewrite Hwt. cbn [List.length]. replace (n + 1) with (S n) by lia. reflexivity.
      + lia.
      + exact Hget.
      + intros j _ _. reflexivity.
      + reflexivity.
      + lia.
      + reflexivity.
      + constructor; [|constructor]. intros more. apply entry_var. cbn [app]. subst n.
        rewrite nth_middle. reflexivity.
    - (* FHashmap: the root edge inline *)
      cbn [need_field] in *. cbn [compile_field]. cbn [wt_field] in Hwt. cbn [enc_field] in Henc.
      cbn [wf_fty] in Hwf. apply andb_prop in Hwf. destruct Hwf as [Hwf Hwfv].
      apply andb_prop in Hwf. destruct Hwf as [Hn1 Hn2]. apply Nat.leb_le in Hn1. apply Nat.leb_le in Hn2.
      destruct (look nm) as [z0|b0|bs0|l0|s0| |a0|c0|sl0|cls0 fs0|l0|kvs|l0|l0 ex0|] eqn:Hx; try contradiction.
      destruct Hwt as (Hne & Hasc & Hall). apply all_of_Forall in Hall.
      destruct (enc_kvs hn (ENC hvf) kvs) as [src|e0] eqn:Hsrc; cbn [bind] in Henc; [|discriminate].
      destruct (dict_tree hn src) as [t|e0] eqn:Ht; cbn [bind] in Henc; [|discriminate].
      destruct (dict_tree_ok hn src t Ht) as (e & Hpat & Hteq & Hvok).
      set (vt := compile_field hvf ""%string 0 0 1 [] kret).
      assert (Hvalrun : forall x b r tb1 tr1, WT hvf x None -> ENC hvf x = Ok (b, r) ->
                exists ss', run tbl (fuel - 1) vt [(0, ord (mkS (b ++ tb1) (r ++ tr1)))] [] [] = Ok (x, ss')
                            /\ get_slice ss' 0 = Ok (ord (mkS tb1 tr1))).
      { intros x b r tb1 tr1 Hwt1 Henc1. apply value_run; try assumption. lia. }
      destruct (dict_run hvf hn vt (fuel - 1) kvs src) as (_ & (kvs3 & Hmap3 & Hstrip) & Hkeys).
      { intros kv b r Hin Henc1 Hwt1.
        destruct (Hvalrun (snd kv) b r [] [] Hwt1 Henc1) as (ss' & Hrun & _).
        rewrite !app_nil_r in Hrun. exists ss'. exact Hrun. }
      { exact Hsrc. }
      { exact Hall. }
      pose proof (dict_leaves hvf hn kvs src e Hkeys Hasc Hall Hpat) as Hleaves. rewrite <- Hteq in Hleaves.
      destruct (canon_shape e hn) as [(l & kd & v & Hshape)|(l & kd & ta & tb2 & Hshape)];
        rewrite <- Hteq in Hshape; clear Hteq; subst t.
      + (* a single pair: the value goes on in the same slice *)
        cbn [cell_of] in Henc. inversion Henc; subst bits refs; clear Henc.
        destruct (hashmap_inline_leaf l kd v hn tb tr (conj Hn1 Hn2) Hvok) as (Hhml & Hzero & Hparse).
        cbn [leaves_of app] in Hleaves.
        destruct src as [|[k1 p1] [|q src']]; cbn [map] in Hleaves; try discriminate.
        unfold rt_conv in Hleaves. cbn [fst snd] in Hleaves. inversion Hleaves; subst k1.
        destruct kvs as [|[kz x] [|q kvs']]; cbn [enc_kvs mapM] in Hsrc.
        { contradiction Hne. reflexivity. }
        2:{ unfold enc_kvs in Hsrc. cbn [mapM] in Hsrc.
            destruct (ENC hvf (snd (kz, x))); cbn [rmap bind] in Hsrc; [|discriminate].
            destruct (ENC hvf (snd q)); cbn [rmap bind] in Hsrc; [|discriminate].
            destruct (mapM _ kvs'); cbn [bind] in Hsrc; discriminate. }
        unfold enc_kvs in Hsrc. cbn [mapM fst snd] in Hsrc.
        destruct (ENC hvf x) as [[vb vr]|e0] eqn:Hencx; cbn [rmap bind] in Hsrc; [|discriminate].
        inversion Hsrc; subst p1. clear Hsrc.
        assert (Hv : v = (vb, vr)).
        { destruct v as [v1 v2]. cbn [fst snd] in *. congruence. }
        subst v. cbn [fst snd] in *.
        apply Forall_inv in Hall. destruct Hall as [Hkz Hwx]. cbn [fst snd] in Hkz, Hwx.
        destruct (Hvalrun x vb vr tb tr Hwx Hencx) as (ssv & Hrunv & Hgetv).
        cbn [map] in Hkeys. inversion Hkeys as [Hk1].
        exists 1, (set_slice ss sid (ord (mkS tb tr))), [PDict [(kz, x)]], [1], [(nm, EVar n)], ns.
        post_split.
        * rewrite (run_hashmap tbl fuel sid hn vt _ ss env w _ [(l, mkS (vb ++ tb) (vr ++ tr))]
                     [(kz, x, ssv)] ltac:(lia) Hget).
          -- cbn [ts_ty ts_s]. rewrite Hhml. rewrite Hzero. rewrite Hgetv. cbn [ts_s map List.length].
             replace (n + 1) with (S n) by lia. reflexivity.
          -- cbn [ts_ty ts_s]. exact Hparse.
          -- cbn [mapM]. fold vt. rewrite Hrunv. cbn [rmap bind]. rewrite Hk1.
             rewrite of_bits_enc, Z.mod_small, Z2N.id by lia. reflexivity.
        * lia.
        * apply get_set_same.
        * intros j Hj _. apply get_set_other. exact Hj.
        * reflexivity.
        * lia.
        * reflexivity.
        * constructor; [|constructor]. intros more. apply entry_var. cbn [app]. subst n.
          rewrite nth_middle. symmetry. exact Hx.
      + (* a fork: two references, the slice goes on after the label *)
        cbn [cell_of] in Henc. inversion Henc; subst bits refs; clear Henc.
        destruct (hashmap_inline_fork l kd ta tb2 hn tb tr (conj Hn1 Hn2) Hvok) as (Hhml & Hnz & Hparse).
        exists 1, (set_slice ss sid (ord (mkS tb tr))), [PDict kvs], [1], [(nm, EVar n)], ns.
        post_split.
        * rewrite (run_hashmap tbl fuel sid hn vt _ ss env w _ (map rt_conv src) kvs3 ltac:(lia) Hget).
          -- cbn [ts_ty ts_s]. rewrite Hhml. rewrite Hnz. cbn [s_bits s_refs app skipn]. rewrite Hstrip.
             cbn [List.length]. replace (n + 1) with (S n) by lia. reflexivity.
          -- cbn [ts_ty ts_s]. rewrite Hparse. rewrite Hleaves. reflexivity.
          -- exact Hmap3.
        * lia.
        * apply get_set_same.
        * intros j Hj _. apply get_set_other. exact Hj.
        * reflexivity.
        * lia.
        * reflexivity.
        * constructor; [|constructor]. intros more. apply entry_var. cbn [app]. subst n.
          rewrite nth_middle. symmetry. exact Hx.
    - (* FDictVals: the values of a dictionary with the keys 0, 1, 2, ... *)
      cbn [need_field] in *. cbn [compile_field]. cbn [wt_field] in Hwt. cbn [enc_field] in Henc.
      cbn [wf_fty] in Hwf. apply andb_prop in Hwf. destruct Hwf as [Hwf Hwfv].
      apply andb_prop in Hwf. destruct Hwf as [Hn1 Hn2]. apply Nat.leb_le in Hn1. apply Nat.leb_le in Hn2.
      destruct (look nm) as [z0|b0|bs0|l0|s0| |a0|c0|sl0|cls0 fs0|vals|l0|l0|l0 ex0|] eqn:Hx; try contradiction.
      destruct Hwt as (Hlen & Hall).
      destruct vals as [|v0 vals'].
      + (* the empty dictionary *)
        cbn [ok_bits] in Henc. inversion Henc; subst bits refs; clear Henc.
        exists 2, (set_slice ss sid (ord (mkS tb tr))), [PNone], [1], [(nm, EList [])], ns.
        post_split.
        * rewrite (run_dict_empty tbl fuel sid vn _ _ ss env w _ (mkS tb tr)) by (lia || eassumption || reflexivity).
          rewrite (run_if tbl _ n 0 _ _ _ _ _ false);
            [|lia|rewrite <- Hn, nth_middle; reflexivity].
          cbn [ts_ty List.length]. replace (n + 1) with (S n) by lia.
          replace (fuel - 1 - 1) with (fuel - 2) by lia. reflexivity.
        * lia.
        * apply get_set_same.
        * intros j Hj _. apply get_set_other. exact Hj.
        * reflexivity.
        * lia.
        * reflexivity.
        * constructor; [|constructor]. intros more. split; cbn [fst snd eval map gnum_e].
          -- intros _. symmetry. exact Hx.
          -- rewrite Hx. reflexivity.
      + set (vals := v0 :: vals') in *.
        set (kvs := index_kvs 0 vals).
        assert (Hasc : ascending (map fst kvs) = true).
        { unfold kvs. rewrite index_kvs_fst. apply seq_ascending. }
        assert (Hallk : Forall (fun kv => (0 <= fst kv < 2 ^ Z.of_nat vn)%Z /\ WT vvf (snd kv) None) kvs).
        { apply index_kvs_Forall. intros j x Hj Hin. cbn [fst snd]. split; [lia|].
          exact (all_of_In _ _ _ Hall Hin). }
        change (match vals with [] => ok_bits [false] | _ :: _ =>
                  bind (enc_kvs vn (ENC vvf) (index_kvs 0 vals)) (fun src =>
                  bind (dict_tree vn src) (fun t => Ok ([true], [cell_of t vn]))) end = Ok (bits, refs)) in Henc.
        unfold vals at 1 in Henc. fold kvs in Henc.
        destruct (enc_kvs vn (ENC vvf) kvs) as [src|e0] eqn:Hsrc; cbn [bind] in Henc; [|discriminate].
        destruct (dict_tree vn src) as [t|e0] eqn:Ht; cbn [bind] in Henc; [|discriminate].
        inversion Henc; subst bits refs; clear Henc.
        destruct (dict_correct vvf vn kvs src t (fuel - 1) IHv Hwfv (conj Hn1 Hn2) ltac:(lia) Hasc Hallk Hsrc Ht tb tr)
          as (leaves & Hload & Hmap).
        exists 2, (set_slice ss sid (ord (mkS tb tr))), [PDict kvs], [1], [(nm, ESortedValues (EVar n))], ns.
        post_split.
        * rewrite (run_dict_some tbl fuel sid vn _ _ ss env w
                     (ord (mkS ([true] ++ tb) ([cell_of t vn] ++ tr))) leaves (mkS tb tr) kvs);
            [|lia|exact Hget|exact Hload|exact Hmap].
          rewrite (run_if tbl _ n 0 _ _ _ _ _ true);
            [|lia|rewrite <- Hn, nth_middle; reflexivity].
          cbn [ts_ty List.length]. replace (n + 1) with (S n) by lia.
          replace (fuel - 1 - 1) with (fuel - 2) by lia. reflexivity.
        * lia.
        * apply get_set_same.
        * intros j Hj _. apply get_set_other. exact Hj.
        * reflexivity.
        * lia.
        * reflexivity.
        * constructor; [|constructor]. intros more. cbn [app]. subst n.
          split; cbn [fst snd eval gnum_e].
          -- intros _. rewrite nth_middle. unfold kvs. rewrite index_kvs_snd. symmetry. exact Hx.
          -- rewrite Hx. reflexivity.
    - (* FAugDict: the root edge inline; every node is visited, extra first *)
      cbn [need_field] in *. cbn [compile_field]. cbn [wt_field] in Hwt. cbn [enc_field] in Henc.
      cbn [wf_fty] in Hwf. apply andb_prop in Hwf. destruct Hwf as [Hwf Hwfx].
      apply andb_prop in Hwf. destruct Hwf as [Hwf Hwfv].
      apply andb_prop in Hwf. destruct Hwf as [Hn1 Hn2]. apply Nat.leb_le in Hn1. apply Nat.leb_le in Hn2.
      destruct (look nm) as [z0|b0|bs0|l0|s0| |a0|c0|sl0|cls0 fs0|l0|l0|l0|kvs extras|] eqn:Hx; try contradiction.
      destruct Hwt as (Hne & Hasc & Hall & Hallx). apply all_of_Forall in Hall. apply all_of_Forall in Hallx.
      destruct (enc_kvs an (ENC avf) kvs) as [src|e0] eqn:Hsrc; cbn [bind] in Henc; [|discriminate].
      destruct (mapM (ENC axf) extras) as [exs|e0] eqn:Hexs; cbn [bind] in Henc; [|discriminate].
      destruct (s_patricia (S an) src) as [e|] eqn:Hpat; [|discriminate].
      destruct (aug_cell e an exs) as [[[cty cb cr] [|fx0 fxr]]|] eqn:Hcell; try discriminate.
      inversion Henc; subst bits refs; clear Henc.
      (* the keys *)
      pose proof (enc_kvs_rel an avf kvs src Hsrc) as Hrel.
      assert (Hkeys : map fst src = map (enc an) (map fst kvs)).
      { clear -Hrel. induction Hrel as [|kv sp kl sl [H1 _] _ IH]; [reflexivity|].
        cbn [map]. f_equal; [exact H1|exact IH]. }
      assert (Hrange : Forall (fun k => (0 <= k < 2 ^ Z.of_nat an)%Z) (map fst kvs)).
      { apply Forall_map. eapply Forall_impl; [|exact Hall]. intros kv [H1 _]. exact H1. }
      assert (Hnd : NoDup (map fst src)) by (rewrite Hkeys; apply asc_nodup; assumption).
      pose proof (keys_length an src _ Hkeys) as Hklen.
      pose proof (rt_patricia_wf (S an) an src e (Nat.lt_succ_diag_r an) Hnd Hklen Hpat) as Hewf.
      (* the nodes of the encoded tree *)
      pose proof hm_parse_fuel_big as Hbig.
      destruct (aug_nodes_cell e parse_fuel an [] exs (Cell cty cb cr) [] tb tr Hewf ltac:(lia) Hcell)
        as (evs0 & evl & Hsem & Hcty & Hnodes). subst cty.
      pose proof (aug_sem_extras e [] exs _ _ Hsem) as Hexl. rewrite app_nil_r in Hexl.
      pose proof (aug_sem_leaves e [] exs _ _ Hsem) as Hlv.
      rewrite (rt_patricia_leaves (S an) an src e [] (Nat.lt_succ_diag_r an) Hnd Hklen Hpat) in Hlv.
      rewrite (asc_sorted an src _ Hkeys Hasc Hrange), rt_prep_nil in Hlv.
      (* the nodes, the pairs, the extras side by side *)
      destruct (aug_zip an avf axf (evs0 ++ [evl]) extras kvs) as (ds & Hds & Hdl & Hdx).
      { refine (eq_ind_r (fun l0 => Forall2 _ extras l0) _ Hexl).
        apply Forall2_and_l; [apply mapM_Forall2; exact Hexs|exact Hallx]. }
      { refine (eq_ind_r (fun l0 => Forall2 _ kvs l0) _ Hlv).
        pose proof (Forall2_and_l _ _ _ _ Hrel Hall) as H2.
        eapply Forall2_imp; [|exact H2]. intros kv sp [[H1 H3] [H4 H5]]. repeat split; try assumption; lia. }
      apply Forall2_app_inv_l in Hds. destruct Hds as (ds0 & dsl & Hds0 & Hdsl & Hdseq).
      destruct dsl as [|dl [|d2 dsl']];
        [inversion Hdsl| |inversion Hdsl as [|? ? ? ? _ Hbad]; inversion Hbad].
      assert (Hrl : ev_rel an avf axf evl dl) by (inversion Hdsl; assumption). clear Hdsl. subst ds.
      set (vt := compile_field avf ""%string 0 0 1 [] kret). set (xt := compile_field axf ""%string 0 0 1 [] kret).
      assert (Hmap : mapM (aug_visit_fn tbl (fuel - 1) vt xt)
                       (map (fun e0 => ev_node e0 [] []) evs0 ++ [ev_node evl tb tr])
                     = Ok (map (fun dd => (dd, mkS [] [])) ds0 ++ [(dl, mkS tb tr)])).
      { apply mapM_app.
        - apply (visits_ok an avf axf (fuel - 1)); try assumption; lia.
        - cbn [mapM]. unfold vt, xt.
          rewrite (visit_ok an avf axf evl dl (fuel - 1) tb tr) by (assumption || lia). reflexivity. }
      set (rs := map (fun dd => (dd, mkS [] [])) ds0 ++ [(dl, mkS tb tr)]) in *.
      assert (Hres : aug_result (mkS (cb ++ tb) (cr ++ tr)) rs = (PAugDict kvs extras, mkS tb tr)).
      { unfold aug_result. f_equal.
        - assert (Hfst : map fst rs = ds0 ++ [dl]).
          { unfold rs. rewrite map_app, map_map. cbn [map fst]. rewrite map_id. reflexivity. }
          f_equal.
          + rewrite <- Hdl. unfold dd_leaves. rewrite <- Hfst. rewrite flat_map_concat_map, flat_map_concat_map.
            rewrite map_map. reflexivity.
          + rewrite <- Hdx. rewrite <- Hfst. rewrite map_map. reflexivity.
        - unfold rs. rewrite map_app. cbn [map snd]. apply last_last. }
      exists 1, (set_slice ss sid (ord (mkS tb tr))), [PAugDict kvs extras], [1], [(nm, EVar n)], ns.
      post_split.
      + rewrite (run_augdict tbl fuel sid an vt xt _ ss env w (mkS (cb ++ tb) (cr ++ tr)) _ rs ltac:(lia) Hget Hnodes Hmap).
        rewrite Hres. cbn [fst snd List.length]. replace (n + 1) with (S n) by lia. reflexivity.
      + lia.
      + apply get_set_same.
      + intros j Hj _. apply get_set_other. exact Hj.
      + reflexivity.
      + lia.
      + reflexivity.
      + constructor; [|constructor]. intros more. apply entry_var. cbn [app]. subst n.
        rewrite nth_middle. symmetry. exact Hx.
    - (* FAugDictE: no value is well typed *)
      cbn [wt_field] in Hwt. contradiction.
  Qed.

  (* sequencing two segments read from the same sub-slice *)
  Lemma wacc_ok_ext wtab W acc x : wacc_ok wtab W acc -> wacc_ok wtab (W ++ x) acc.
  Proof.
    unfold wacc_ok. intros H. eapply Forall_impl; [|exact H]. intros p Hp morew. cbn beta in Hp.
    rewrite <- app_assoc. apply Hp.
  Qed.

  Lemma post_seq wtab t1 k1 k names1 names2 look sid n ns acc ss env w tb1 tr1 tb tr fuel b1 b2 :
    acc_ok look env acc -> wacc_ok wtab w acc ->
    post wtab t1 k1 names1 look sid n ns acc ss env w tb1 tr1 fuel b1 ->
    (forall c ss1 vals1 ws1 acc1 ns1,
        c <= b1 -> get_slice ss1 sid = Ok (ord (mkS tb1 tr1)) ->
        List.length ws1 = List.length vals1 -> ns <= ns1 ->
        map fst acc1 = names1 -> acc_ok look (env ++ vals1) (acc ++ acc1) ->
        wacc_ok wtab (w ++ ws1) (acc ++ acc1) ->
        post wtab (k1 (n + List.length vals1) ns1 (acc ++ acc1)) k names2 look sid (n + List.length vals1) ns1
             (acc ++ acc1) ss1 (env ++ vals1) (w ++ ws1) tb tr (fuel - c) b2) ->
    post wtab t1 k (names1 ++ names2) look sid n ns acc ss env w tb tr fuel (b1 + b2).
  Proof.
    intros Hacc Hwacc (c1 & ss1 & vals1 & ws1 & acc1 & ns1 & Hrun1 & Hc1 & Hg1 & Hfr1 & Hlen1 & Hns1 & Hnm1 & Hev1 & Hw1) H2.
    assert (Hacc1 : acc_ok look (env ++ vals1) (acc ++ acc1)).
    { unfold acc_ok. apply Forall_app. split.
      - apply acc_ok_ext. exact Hacc.
      - eapply Forall_impl; [|exact Hev1]. intros p Hp more. cbn beta in Hp.
        specialize (Hp more). rewrite app_assoc in Hp. exact Hp. }
    assert (Hwacc1 : wacc_ok wtab (w ++ ws1) (acc ++ acc1)).
    { unfold wacc_ok. apply Forall_app. split; [apply wacc_ok_ext; exact Hwacc|exact Hw1]. }
    destruct (H2 c1 ss1 vals1 ws1 acc1 ns1 Hc1 Hg1 Hlen1 Hns1 Hnm1 Hacc1 Hwacc1)
      as (c2 & ss2 & vals2 & ws2 & acc2 & ns2 & Hrun2 & Hc2 & Hg2 & Hfr2 & Hlen2 & Hns2 & Hnm2 & Hev2 & Hw2).
    exists (c1 + c2), ss2, (vals1 ++ vals2), (ws1 ++ ws2), (acc1 ++ acc2), ns2.
    post_split.
    - rewrite Hrun1, Hrun2. rewrite <- !app_assoc. rewrite app_length.
      replace (n + List.length vals1 + List.length vals2) with (n + (List.length vals1 + List.length vals2)) by lia.
      replace (fuel - c1 - c2) with (fuel - (c1 + c2)) by lia. reflexivity.
    - lia.
    - exact Hg2.
    - intros j Hj Hlt. rewrite (Hfr2 j Hj) by lia. apply Hfr1; assumption.
    - rewrite !app_length. lia.
    - lia.
    - rewrite map_app. congruence.
    - apply Forall_app. split.
      + eapply Forall_impl; [|exact Hev1]. intros p Hp more. cbn beta in Hp.
        specialize (Hp (vals2 ++ more)). rewrite <- !app_assoc. exact Hp.
      + eapply Forall_impl; [|exact Hev2]. intros p Hp more. cbn beta in Hp.
        specialize (Hp more). rewrite <- !app_assoc in Hp. rewrite <- !app_assoc. exact Hp.
    - unfold wacc_ok. apply Forall_app. split.
      + rewrite app_assoc. apply wacc_ok_ext. exact Hw1.
      + rewrite app_assoc. exact Hw2.
  Qed.

  Lemma post_nil wtab k look sid n ns acc ss env w tb tr fuel :
    get_slice ss sid = Ok (ord (mkS tb tr)) ->
    post wtab (k n ns acc) k [] look sid n ns acc ss env w tb tr fuel 0.
  Proof.
    intros Hget. exists 0, ss, [], [], [], ns.
    post_split; try (reflexivity || lia || assumption || constructor).
    cbn [List.length]. rewrite !app_nil_r, Nat.add_0_r, Nat.sub_0_r. reflexivity.
  Qed.

  Local Notation WTS := (wt_fields ch (wt_type ch st d) (rest_type ch st)).
  Local Notation ENCS := (enc_fields ch (enc_type ch st d) (rest_type ch st)).

  Lemma fields_correct : forall wtab fs look bits refs,
    Forall (fun p => name_ok wtab (fst p) (snd p)) fs ->
    forallb (fun p => wf_fty (snd p)) fs = true -> WTS look fs ->
    ENCS look fs = Ok (bits, refs) ->
    forall sid n ns acc k ss env w tb tr fuel,
      get_slice ss sid = Ok (ord (mkS (bits ++ tb) (refs ++ tr))) ->
      List.length env = n -> List.length w = n -> sid < ns -> need_fields (need_type st d) fs <= fuel ->
      acc_ok look env acc -> wacc_ok wtab w acc ->
      post wtab (compile_fields fs sid n ns acc k) k (map fst fs) look sid n ns acc ss env w tb tr fuel
           (need_fields (need_type st d) fs).
  Proof.
    induction fs as [|[nm f] r IH];
      intros look bits refs Hnames Hwf Hwt Henc sid n ns acc k ss env w tb tr fuel Hget Hn Hw Hsid Hfuel Hacc Hwacc.
    - cbn [enc_fields] in Henc. inversion Henc; subst bits refs.
      cbn [compile_fields map need_fields fold_right]. apply post_nil. exact Hget.
    - cbn [enc_fields] in Henc. cbn [forallb snd] in Hwf. apply andb_prop in Hwf. destruct Hwf as [Hwf1 Hwf2].
      cbn [wt_fields] in Hwt. destruct Hwt as [Hwt1 Hwt2].
      pose proof (Forall_inv Hnames) as Hnm0. pose proof (Forall_inv_tail Hnames) as Hnmr. cbn [fst snd] in Hnm0.
      destruct (ENC f (look nm)) as [[b1 r1]|e] eqn:H1; cbn [bind] in Henc; [|discriminate].
      destruct (ENCS look r) as [[b2 r2]|e] eqn:H2; cbn [bind] in Henc; [|discriminate].
      inversion Henc; subst bits refs; clear Henc. rewrite <- !app_assoc in Hget.
      cbn [compile_fields map fst]. change (nm :: map fst r) with ([nm] ++ map fst r).
      change (need_fields (need_type st d) ((nm, f) :: r))
        with (NEED f + need_fields (need_type st d) r) in *.
      eapply post_seq.
      + exact Hacc.
      + exact Hwacc.
      + eapply (field_correct f); try eassumption; [exact I|lia].
      + intros c ss1 vals1 ws1 acc1 ns1 Hc Hg1 Hlen1 Hns1 Hnm1 Hacc1 Hwacc1.
        eapply IH; try eassumption; try (rewrite app_length; lia); lia.
  Qed.

  Lemma list_beq_eq a : forall b, list_beq a b = true -> a = b.
  Proof.
    induction a as [|x a IH]; intros [|y b] H; cbn [list_beq] in H; try discriminate; [reflexivity|].
    apply andb_prop in H. destruct H as [H1 H2]. apply eqb_prop in H1. subst y. f_equal. apply IH. exact H2.
  Qed.

  Lemma list_beq_refl a : list_beq a a = true.
  Proof. induction a as [|x a IH]; [reflexivity|]. cbn [list_beq]. rewrite eqb_reflx, IH. reflexivity. Qed.

  Lemma load_uint_raw bits tb r n : bits <> [] -> List.length bits = n ->
    s_load_uint (mkS (bits ++ tb) r) n = Ok (Z.of_N (of_bits bits), mkS tb r).
  Proof.
    intros Hne Hlen. unfold s_load_uint, s_preload_uint. cbn [s_bits].
    rewrite firstn_app_exact by exact Hlen. unfold ba2int. destruct bits as [|x bits]; [contradiction|].
    cbn [bind]. rewrite s_skip_app by exact Hlen. reflexivity.
  Qed.

  (* a run of constant bits read at once: what the bit tests see is what was encoded *)
  Lemma chunk_load c bits k sid ss env w tb tr fuel :
    chunk_ok c bits = true -> get_slice ss sid = Ok (ord (mkS (bits ++ tb) tr)) -> 1 <= fuel ->
    exists val,
      run tbl fuel (DOp sid (chunk_op c) k) ss env w
      = run tbl (fuel - 1) k (set_slice ss sid (ord (mkS tb tr))) (env ++ [val]) (w ++ [chunk_width c])
      /\ bits_of_pv val (chunk_width c) = bits.
  Proof.
    unfold chunk_ok. intros Hok Hget Hfuel.
    apply andb_prop in Hok. destruct Hok as [Hok Hview]. apply andb_prop in Hok. destruct Hok as [Hw1 Hlen].
    apply list_beq_eq in Hview. apply Nat.leb_le in Hw1. apply Nat.eqb_eq in Hlen.
    destruct c as [n|n|k0|]; cbn [chunk_op chunk_width chunk_view] in *.
    - exists (PBits bits). split; [|reflexivity].
      rewrite (run_prim tbl fuel sid (OBits n) k ss env w _ (PBits bits) (mkS tb tr) Hfuel Hget).
      + reflexivity.
      + cbn [prim_load ts_s]. subst n. rewrite load_bits_app. reflexivity.
    - exists (PInt (Z.of_N (of_bits bits))). split.
      + rewrite (run_prim tbl fuel sid (OUint n) k ss env w _ (PInt (Z.of_N (of_bits bits))) (mkS tb tr) Hfuel Hget).
        * reflexivity.
        * cbn [prim_load ts_s]. rewrite load_uint_raw; [reflexivity| |exact Hlen].
          intros ->. cbn in Hlen. lia.
      + cbn [bits_of_pv]. rewrite N2Z.id. exact Hview.
    - exists (PBytes (bits_to_bytes bits)). split; [|exact Hview].
      rewrite (run_prim tbl fuel sid (OBytes k0) k ss env w _ (PBytes (bits_to_bytes bits)) (mkS tb tr) Hfuel Hget).
      + reflexivity.
      + cbn [prim_load ts_s]. unfold s_load_bytes, s_preload_bytes.
        rewrite s_skip_app by lia. cbn [bind s_bits]. rewrite firstn_app_exact by lia. reflexivity.
    - destruct bits as [|x [|y bits']]; cbn [List.length] in Hlen; try lia.
      exists (PBool x). split; [|reflexivity].
      rewrite (run_prim tbl fuel sid OBit k ss env w _ (PBool x) (mkS tb tr) Hfuel Hget); reflexivity.
  Qed.

  Lemma check_bits_ok : forall bits pre v i t ss env w fuel,
    bits_of_pv (nth v env PNone) (nth v w 1) = pre ++ bits -> List.length pre = i ->
    List.length bits <= fuel ->
    run tbl fuel (check_bits v i bits t) ss env w = run tbl (fuel - List.length bits) t ss env w.
  Proof.
    induction bits as [|b r IH]; intros pre v i t ss env w fuel Hbits Hpre Hfuel.
    - cbn [check_bits List.length]. rewrite Nat.sub_0_r. reflexivity.
    - cbn [List.length] in *.
      assert (Hnth : nth i (bits_of_pv (nth v env PNone) (nth v w 1)) false = b).
      { rewrite Hbits. subst i. apply nth_middle. }
      assert (Hrec : run tbl (fuel - 1) (check_bits v (S i) r t) ss env w
                     = run tbl (fuel - S (List.length r)) t ss env w).
      { rewrite (IH (pre ++ [b]) v (S i) t ss env w (fuel - 1)).
        - f_equal. lia.
        - rewrite <- app_assoc. exact Hbits.
        - rewrite app_length. cbn. lia.
        - lia. }
      cbn [check_bits]. destruct b.
      + rewrite (run_if tbl fuel v i _ _ ss env w true) by (lia || exact Hnth). exact Hrec.
      + rewrite (run_if tbl fuel v i _ _ ss env w false) by (lia || exact Hnth). exact Hrec.
  Qed.

  Definition compile_item (it : item) (sid n ns : nat) (acc : list (string * dexpr)) (k1 : kont) : dtree :=
    match it with
    | INamed nm f => compile_field f nm sid n ns acc k1
    | IGroup fs => DOp sid (ORef ns) (compile_fields fs ns (S n) (S ns) acc k1)
    | IConst c bits => DOp sid (chunk_op c) (check_bits n 0 bits (k1 (S n) ns acc))
    | INamedHex nm hexnm w =>
        DOp sid (OBytes w) (k1 (S n) ns (acc ++ [(nm, EVar n); (hexnm, EHex (EVar n))]))
    | IGuard op a b => DGuard op (gexpr_of acc a) (gexpr_of acc b) DFail (k1 n ns acc)
    | ICond c nm f =>
        DIf (fst (cond_test acc c)) (snd (cond_test acc c)) (k1 n ns (acc ++ [(nm, ENone)]))
            (compile_field f nm sid n ns acc k1)
    | IRefParam nm T src =>
        DOp sid (ORef ns)
          (DIf (var_of acc src) 0
             (DOp ns (OCall T [0%Z]) (k1 (S (S n)) (S ns) (acc ++ [(nm, EVar (S n))])))
             (DOp ns (OCall T [1%Z]) (k1 (S (S n)) (S ns) (acc ++ [(nm, EVar (S n))]))))
    | INamedConst nm c bits =>
        DOp sid (chunk_op c) (check_bits n 0 bits (k1 (S n) ns (acc ++ [(nm, EVar n)])))
    end.

  (* the integer a constraint operand denotes at run time *)
  Definition rnum (env : list pv) (g : gexpr) : Z :=
    match g with GConst z => z | GVar k => numof (nth k env PNone) end.

  Lemma run_guard fuel op ga gb t0 t1 ss env w :
    1 <= fuel ->
    (let x := rnum env ga in let y := rnum env gb in
     match op with GLt => x <? y | GLe => x <=? y | GGt => y <? x | GGe => y <=? x end)%Z = true ->
    run tbl fuel (DGuard op ga gb t0 t1) ss env w = run tbl (fuel - 1) t1 ss env w.
  Proof.
    intros Hfuel Hc. destruct fuel as [|f]; [lia|]. replace (S f - 1) with f by lia.
    cbn [run]. unfold rnum, numof in Hc. cbv zeta in Hc.
    destruct ga, gb; cbv zeta; rewrite Hc; reflexivity.
  Qed.

  Lemma assoc_expr_in nm : forall acc, existsb (String.eqb nm) (map fst acc) = true ->
    In (nm, assoc_expr nm acc) acc.
  Proof.
    induction acc as [|[k e] r IH]; cbn [map existsb assoc_expr fst]; intros H; [discriminate|].
    rewrite String.eqb_sym in H. destruct (String.eqb_spec k nm) as [->|Hne].
    - left. reflexivity.
    - right. apply IH. exact H.
  Qed.

  Lemma gexpr_num look env acc g :
    acc_ok look env acc -> gref_bound (map fst acc) g = true ->
    rnum env (gexpr_of acc g) = gnum look g.
  Proof.
    intros Hacc Hb. destruct g as [nm|z]; [|reflexivity].
    cbn [gref_bound] in Hb. cbn [gexpr_of gnum].
    pose proof (assoc_expr_in nm acc Hb) as Hin.
    unfold acc_ok in Hacc. rewrite Forall_forall in Hacc. specialize (Hacc _ Hin []).
    rewrite app_nil_r in Hacc. destruct Hacc as [_ Hnum]. cbn [fst snd] in Hnum. rewrite <- Hnum.
    destruct (assoc_expr nm acc) as [i|z|[|]|s|l| |cls fs|l|e|e| |]; reflexivity.
  Qed.

  (* a checked constant, kept: the value loaded is the one the constant denotes *)
  Lemma chunk_load_val c bits k sid ss env w tb tr fuel :
    chunk_ok c bits = true -> get_slice ss sid = Ok (ord (mkS (bits ++ tb) tr)) -> 1 <= fuel ->
    run tbl fuel (DOp sid (chunk_op c) k) ss env w
    = run tbl (fuel - 1) k (set_slice ss sid (ord (mkS tb tr))) (env ++ [chunk_val c bits]) (w ++ [chunk_width c])
    /\ bits_of_pv (chunk_val c bits) (chunk_width c) = bits.
  Proof.
    unfold chunk_ok. intros Hok Hget Hfuel.
    apply andb_prop in Hok. destruct Hok as [Hok Hview]. apply andb_prop in Hok. destruct Hok as [Hw1 Hlen].
    apply list_beq_eq in Hview. apply Nat.leb_le in Hw1. apply Nat.eqb_eq in Hlen.
    destruct c as [n|n|k0|]; cbn [chunk_op chunk_width chunk_view chunk_val] in *.
    - split; [|reflexivity].
      rewrite (run_prim tbl fuel sid (OBits n) k ss env w _ (PBits bits) (mkS tb tr) Hfuel Hget).
      + reflexivity.
      + cbn [prim_load ts_s]. subst n. rewrite load_bits_app. reflexivity.
    - split.
      + rewrite (run_prim tbl fuel sid (OUint n) k ss env w _ (PInt (Z.of_N (of_bits bits))) (mkS tb tr) Hfuel Hget).
        * reflexivity.
        * cbn [prim_load ts_s]. rewrite load_uint_raw; [reflexivity| |exact Hlen].
          intros ->. cbn in Hlen. lia.
      + cbn [bits_of_pv]. rewrite N2Z.id. exact Hview.
    - split; [|exact Hview].
      rewrite (run_prim tbl fuel sid (OBytes k0) k ss env w _ (PBytes (bits_to_bytes bits)) (mkS tb tr) Hfuel Hget).
      + reflexivity.
      + cbn [prim_load ts_s]. unfold s_load_bytes, s_preload_bytes.
        rewrite s_skip_app by lia. cbn [bind s_bits]. rewrite firstn_app_exact by lia. reflexivity.
    - destruct bits as [|x [|y bits']]; cbn [List.length] in Hlen; try lia. cbn [hd].
      split; [|reflexivity].
      rewrite (run_prim tbl fuel sid OBit k ss env w _ (PBool x) (mkS tb tr) Hfuel Hget); reflexivity.
  Qed.

  (* ---- the table of condition sources ---- *)
  Lemma name_wok_ok wtab nm f : name_wok wtab nm f = true -> name_ok wtab nm f.
  Proof.
    unfold name_wok, name_ok. rewrite forallb_forall. intros H w0 Hin. specialize (H (nm, w0) Hin).
    cbn [fst snd] in H. rewrite String.eqb_refl in H. exact H.
  Qed.

  Lemma name_free_ok wtab nm : name_free wtab nm = true -> forall w0, ~ In (nm, w0) wtab.
  Proof.
    unfold name_free. rewrite forallb_forall. intros H w0 Hin. specialize (H (nm, w0) Hin).
    cbn [fst] in H. rewrite String.eqb_refl in H. discriminate.
  Qed.

  Lemma name_free_name_ok wtab nm f : name_free wtab nm = true -> name_ok wtab nm f.
  Proof. intros H w0 Hin. exfalso. exact (name_free_ok wtab nm H w0 Hin). Qed.

  Lemma wacc_free wtab W acc' : Forall (fun p => name_free wtab (fst p) = true) acc' -> wacc_ok wtab W acc'.
  Proof.
    unfold wacc_ok. intros H. eapply Forall_impl; [|exact H]. intros p Hp morew w0 Hin.
    exfalso. exact (name_free_ok wtab (fst p) Hp w0 Hin).
  Qed.

  Lemma to_bits_low w n : 1 <= w -> nth (w - 1) (to_bits w n) false = N.testbit n 0.
  Proof.
    intros Hw. rewrite to_bits_enc. unfold enc.
    rewrite (nth_indep _ false (Z.testbit (Z.of_N n) (Z.of_nat (w - 1 - 0)))) by (rewrite map_length, seq_length; lia).
    rewrite (map_nth (fun i => Z.testbit (Z.of_N n) (Z.of_nat (w - 1 - i)))).
    rewrite seq_nth by lia. replace (w - 1 - (0 + (w - 1))) with 0 by lia.
    change (Z.of_nat 0) with (Z.of_N 0). apply Z.testbit_of_N.
  Qed.

  Lemma cond_src_in wtab s w0 :
    existsb (fun p : string * nat => String.eqb (fst p) s && (snd p =? w0)) wtab = true -> In (s, w0) wtab.
  Proof.
    intros H. apply existsb_exists in H. destruct H as ([s' w'] & Hin & H). cbn [fst snd] in H.
    apply andb_prop in H. destruct H as [H1 H2]. apply String.eqb_eq in H1. apply Nat.eqb_eq in H2. subst. exact Hin.
  Qed.

  (* the bit a condition tests is the one its source holds *)
  Lemma cond_test_ok wtab look env w acc c :
    acc_ok look env acc -> wacc_ok wtab w acc -> cond_ok (map fst acc) wtab c = true -> cond_src_ok look c ->
    nth (snd (cond_test acc c))
        (bits_of_pv (nth (fst (cond_test acc c)) env PNone) (nth (fst (cond_test acc c)) w 1)) false
    = cond_holds look c /\ fst (cond_test acc c) < List.length env.
  Proof.
    intros Hacc Hwacc Hok Hsrc.
    assert (Hkey : forall s w0, existsb (String.eqb s) (map fst acc) = true -> In (s, w0) wtab ->
              exists i, var_of acc s = i /\ nth i env PNone = look s /\ nth i w 1 = w0).
    { intros s w0 Hb Hin. pose proof (assoc_expr_in s acc Hb) as Hin2.
      unfold wacc_ok in Hwacc. rewrite Forall_forall in Hwacc. destruct (Hwacc _ Hin2 [] w0 Hin) as (i & He & Hwd).
      cbn [snd] in He. rewrite app_nil_r in Hwd.
      unfold acc_ok in Hacc. rewrite Forall_forall in Hacc. destruct (Hacc _ Hin2 []) as [Hev _].
      cbn [fst snd] in Hev. rewrite He in Hev. cbn [eval] in Hev. rewrite app_nil_r in Hev.
      exists i. unfold var_of. rewrite He. repeat split; [apply (Hev PNone)|exact Hwd]. }
    destruct c as [s|s w0]; cbn [cond_ok cond_test cond_src_ok cond_holds fst snd] in *.
    - apply andb_prop in Hok. destruct Hok as [Hb Hin]. apply cond_src_in in Hin.
      destruct (Hkey s 1 Hb Hin) as (i & -> & Hv & _). rewrite Hv.
      destruct (look s) eqn:Hls; try contradiction. split; [reflexivity|].
      destruct (Nat.lt_ge_cases i (List.length env)) as [Hlt|Hge]; [exact Hlt|].
      rewrite nth_overflow in Hv by exact Hge. discriminate.
    - apply andb_prop in Hok. destruct Hok as [Hok Hin]. apply andb_prop in Hok. destruct Hok as [Hb Hw0].
      apply Nat.leb_le in Hw0. apply cond_src_in in Hin.
      destruct (Hkey s w0 Hb Hin) as (i & -> & Hv & Hwd). rewrite Hv, Hwd.
      destruct (look s) as [z| | | | | | | | | | | | | |] eqn:Hls; try contradiction. cbn [bits_of_pv]. split.
      + rewrite to_bits_low by exact Hw0. rewrite <- (Z2N.id z) at 2 by exact Hsrc. symmetry.
        change 0%Z with (Z.of_N 0). apply Z.testbit_of_N.
      + destruct (Nat.lt_ge_cases i (List.length env)) as [Hlt|Hge]; [exact Hlt|].
        rewrite nth_overflow in Hv by exact Hge. discriminate.
  Qed.

  Lemma compile_items_cons it r sid n ns acc k :
    compile_items (it :: r) sid n ns acc k
    = compile_item it sid n ns acc (fun n' ns' acc' => compile_items r sid n' ns' acc' k).
  Proof. destruct it; reflexivity. Qed.

  Local Notation WTI := (wt_item ch (wt_type ch st d) (rest_type ch st)).
  Local Notation ENCI := (enc_item ch (enc_type ch st d) (rest_type ch st)).
  Local Notation WTIS := (wt_items ch (wt_type ch st d) (rest_type ch st)).
  Local Notation ENCIS := (enc_items ch (enc_type ch st d) (rest_type ch st)).

  Lemma item_correct wtab it look c bits refs :
    wf_item it = true -> item_wok wtab it = true -> WTI look c it ->
    ENCI look it = Ok (bits, refs) ->
    forall sid n ns acc k ss env w tb tr fuel,
      ctx_ok c tb tr ->
      get_slice ss sid = Ok (ord (mkS (bits ++ tb) (refs ++ tr))) ->
      List.length env = n -> List.length w = n -> sid < ns -> need_item (need_type st d) it <= fuel ->
      acc_ok look env acc -> wacc_ok wtab w acc ->
      match it with
      | IGuard _ a b => gref_bound (map fst acc) a && gref_bound (map fst acc) b
      | ICond cd _ _ => cond_ok (map fst acc) wtab cd
      | IRefParam _ _ src => cond_ok (map fst acc) wtab (CBit src)
      | _ => true
      end = true ->
      post wtab (compile_item it sid n ns acc k) k (item_names it) look sid n ns acc ss env w tb tr fuel
           (need_item (need_type st d) it).
  Proof.
    intros Hwf Hwok Hwt Henc sid n ns acc k ss env w tb tr fuel Hctx Hget Hn Hw Hsid Hfuel Hacc Hwacc Hbound.
    destruct it as [nm f|fs|c0 cbits|nm hexnm wd|op ga gb|cd nm f|nm T src|nm c0 cbits];
      cbn [wf_item wt_item enc_item compile_item item_names need_item item_wok] in *.
    - eapply (field_correct f); try eassumption. apply name_wok_ok. exact Hwok.
    - destruct (ENCS look fs) as [[b r]|e] eqn:Hinner; cbn [bind] in Henc; [|discriminate].
      inversion Henc; subst bits refs; clear Henc.
      set (ssA := set_slice (set_slice ss sid (ord (mkS tb tr))) ns (ord (mkS b r))).
      assert (Hnok : Forall (fun p => name_ok wtab (fst p) (snd p)) fs).
      { apply Forall_forall. intros p Hp. rewrite forallb_forall in Hwok. apply name_wok_ok. exact (Hwok p Hp). }
      destruct (fields_correct wtab fs look b r Hnok Hwf Hwt Hinner ns (S n) (S ns) acc k ssA
                  (env ++ [PCell (Cell ty_ordinary b r)]) (w ++ [1]) [] [] (fuel - 1))
        as (c1 & ss' & vals & ws & acc' & ns' & Hrun & Hc & Hg & Hfr & Hlen & Hns & Hnames & Hev & Hwa).
      { rewrite !app_nil_r. apply get_set_same. }
      { rewrite app_length. cbn. lia. }
      { rewrite app_length. cbn. lia. }
      { lia. }
      { lia. }
      { apply acc_ok_ext. exact Hacc. }
      { apply wacc_ok_ext. exact Hwacc. }
      exists (1 + c1), ss', (PCell (Cell ty_ordinary b r) :: vals), (1 :: ws), acc', ns'.
      post_split.
      + rewrite (run_ref tbl fuel sid ns _ ss env w _ (Cell ty_ordinary b r) (mkS tb tr))
          by (lia || eassumption || reflexivity).
        cbn [ts_ty cell_slice]. fold ssA. rewrite Hrun. rewrite <- !app_assoc. cbn [List.length app].
        replace (S n + List.length vals) with (n + S (List.length vals)) by lia.
        replace (fuel - 1 - c1) with (fuel - (1 + c1)) by lia. reflexivity.
      + lia.
      + rewrite Hfr by lia. unfold ssA. rewrite get_set_other by lia. apply get_set_same.
      + intros j Hj Hlt. rewrite Hfr by lia. unfold ssA. rewrite get_set_other by lia.
        apply get_set_other. exact Hj.
      + cbn [List.length]. lia.
      + lia.
      + exact Hnames.
      + eapply Forall_impl; [|exact Hev]. intros p Hp more. cbn beta in Hp.
        specialize (Hp more). rewrite <- !app_assoc in Hp. exact Hp.
      + rewrite <- app_assoc in Hwa. exact Hwa.
    - cbn [ok_bits] in Henc. inversion Henc; subst bits refs; clear Henc. cbn [app] in Hget.
      destruct (chunk_load c0 cbits (check_bits n 0 cbits (k (S n) ns acc)) sid ss env w tb tr fuel Hwf Hget)
        as (val & Hrun & Hview); [lia|].
      exists (S (List.length cbits)), (set_slice ss sid (ord (mkS tb tr))), [val], [chunk_width c0], [], ns.
      post_split.
      + rewrite Hrun. rewrite (check_bits_ok cbits [] n 0 _ _ (env ++ [val]) (w ++ [chunk_width c0]) (fuel - 1)).
        * cbn [List.length]. rewrite app_nil_r. replace (n + 1) with (S n) by lia.
          replace (fuel - 1 - List.length cbits) with (fuel - S (List.length cbits)) by lia. reflexivity.
        * rewrite <- Hn at 1. rewrite <- Hw. rewrite !nth_middle. exact Hview.
        * reflexivity.
        * lia.
      + lia.
      + apply get_set_same.
      + intros j Hj _. apply get_set_other. exact Hj.
      + reflexivity.
      + lia.
      + reflexivity.
      + constructor.
    - (* INamedHex *)
      destruct (look nm) as [z0|b0|bs|l0|s0| |a0|c1|sl0|cls0 fs0|l0|l0|l0|l0 ex0|] eqn:Hx; try contradiction.
      destruct Hwt as (Hlen & Hokb & Hhex).
      cbn [ok_bits] in Henc. inversion Henc; subst bits refs; clear Henc.
      exists 1, (set_slice ss sid (ord (mkS tb tr))), [PBytes bs], [8 * wd],
             [(nm, EVar n); (hexnm, EHex (EVar n))], ns.
      post_split.
      + rewrite (run_prim tbl fuel sid (OBytes wd) _ ss env w _ (PBytes bs) (mkS tb tr) Hfuel Hget).
        * cbn [ts_ty List.length op_width]. replace (n + 1) with (S n) by lia. reflexivity.
        * cbn [prim_load ts_s app].
          rewrite load_bytes_app by (congruence || apply bytes_okb_ok; exact Hokb). reflexivity.
      + lia.
      + apply get_set_same.
      + intros j Hj _. apply get_set_other. exact Hj.
      + reflexivity.
      + lia.
      + reflexivity.
      + constructor; [|constructor; [|constructor]]; intros more; cbn [app]; subst n.
        * apply entry_var. rewrite nth_middle. symmetry. exact Hx.
        * apply (entry_hex _ _ _ _ bs); [apply nth_middle|exact Hhex].
      + apply wacc_free. cbn [forallb] in Hwok. apply andb_prop in Hwok. destruct Hwok as [Hf1 Hf2].
        apply andb_prop in Hf2. destruct Hf2 as [Hf2 _]. repeat constructor; assumption.
    - (* IGuard *)
      cbn [ok_bits] in Henc. inversion Henc; subst bits refs; clear Henc.
      apply andb_prop in Hbound. destruct Hbound as [Hba Hbb].
      exists 1, ss, [], [], [], ns.
      post_split.
      + rewrite (run_guard fuel op _ _ DFail _ ss env w Hfuel).
        * cbn [List.length]. rewrite !app_nil_r, Nat.add_0_r. reflexivity.
        * rewrite (gexpr_num look env acc ga Hacc Hba), (gexpr_num look env acc gb Hacc Hbb).
          exact Hwt.
      + lia.
      + exact Hget.
      + intros j _ _. reflexivity.
      + reflexivity.
      + lia.
      + reflexivity.
      + constructor.
    - (* ICond: the bit of the source decides *)
      destruct Hwt as [Hsrc Hwt].
      cbn [forallb] in Hwok. apply andb_prop in Hwok. destruct Hwok as [Hfree _].
      destruct (cond_test_ok wtab look env w acc cd Hacc Hwacc Hbound Hsrc) as [Htest _].
      destruct (cond_holds look cd) eqn:Hcd.
      + destruct (field_correct f wtab nm look c bits refs (name_free_name_ok wtab nm f Hfree) Hwf Hwt Henc
                    sid n ns acc k ss env w tb tr (fuel - 1) Hctx Hget Hn Hw Hsid ltac:(lia))
          as (c1 & ss' & vals & ws & acc' & ns' & Hrun & Hc & Hg & Hfr & Hlen & Hns & Hnames & Hev & Hwa).
        exists (1 + c1), ss', vals, ws, acc', ns'.
        post_split; try assumption; try lia.
        rewrite (run_if tbl fuel _ _ _ _ ss env w true) by (lia || exact Htest).
        rewrite Hrun. replace (fuel - 1 - c1) with (fuel - (1 + c1)) by lia. reflexivity.
      + cbn [ok_bits] in Henc. inversion Henc; subst bits refs; clear Henc.
        exists 1, ss, [], [], [(nm, ENone)], ns.
        post_split.
        * rewrite (run_if tbl fuel _ _ _ _ ss env w false) by (lia || exact Htest).
          cbn [List.length]. rewrite !app_nil_r, Nat.add_0_r. reflexivity.
        * lia.
        * exact Hget.
        * intros j _ _. reflexivity.
        * reflexivity.
        * lia.
        * reflexivity.
        * constructor; [|constructor]. intros more. apply entry_none. exact Hwt.
        * apply wacc_free. repeat constructor. exact Hfree.
    - (* IRefParam: the reference, then the parser the source bit selects *)
      destruct Hwt as [Hsrc Hwt]. cbv zeta in Hwt.
      cbn [forallb] in Hwok. apply andb_prop in Hwok. destruct Hwok as [Hfree _].
      destruct (cond_test_ok wtab look env w acc (CBit src) Hacc Hwacc Hbound Hsrc) as [Htest Hlt].
      cbn [cond_test fst snd] in Htest, Hlt.
      set (a := [if cond_holds look (CBit src) then 1%Z else 0%Z]) in *.
      destruct (enc_type ch st d T a (look nm)) as [[b r]|e] eqn:Hinner; cbn [bind] in Henc; [|discriminate].
      inversion Henc; subst bits refs; clear Henc.
      destruct (rest_type ch st T a (look nm)) as [rb rr] eqn:Hrest. cbn [fst snd] in *.
      destruct (Hty T a (Some (rb, rr)) (look nm) b r Hwt Hinner) as (tree & Hlk & Hrun).
      assert (Hneed : need_type st d T a <= fuel - 1 - 1 - 1).
      { unfold a. destruct (cond_holds look (CBit src)); lia. }
      destruct (Hrun (fuel - 1 - 1 - 1) rb rr eq_refl Hneed) as (ss1 & Hrun1 & Hget1).
      set (cc := Cell ty_ordinary (b ++ rb) (r ++ rr)) in *.
      set (ssA := set_slice (set_slice ss sid (ord (mkS tb tr))) ns (ord (mkS (b ++ rb) (r ++ rr)))).
      exists 3, (set_slice ssA ns (ord (mkS rb rr))),
             [PCell cc; look nm], [1; 1], [(nm, EVar (S n))], (S ns).
      post_split.
      + rewrite (run_ref tbl fuel sid ns _ ss env w _ cc (mkS tb tr))
          by (lia || eassumption || reflexivity).
        cbn [ts_ty cell_slice cc]. fold ssA.
        assert (Htest' : nth 0 (bits_of_pv (nth (var_of acc src) (env ++ [PCell cc]) PNone)
                                           (nth (var_of acc src) (w ++ [1]) 1)) false
                         = cond_holds look (CBit src)).
        { rewrite (app_nth1 env) by exact Hlt. rewrite (app_nth1 w) by lia. exact Htest. }
        rewrite (run_if tbl (fuel - 1) _ 0 _ _ ssA _ _ (cond_holds look (CBit src))) by (lia || exact Htest').
        assert (Hcall : forall aa, aa = a ->
                  run tbl (fuel - 1 - 1) (DOp ns (OCall T aa) (k (S (S n)) (S ns) (acc ++ [(nm, EVar (S n))])))
                      ssA (env ++ [PCell cc]) (w ++ [1])
                  = run tbl (fuel - 1 - 1 - 1) (k (S (S n)) (S ns) (acc ++ [(nm, EVar (S n))]))
                      (set_slice ssA ns (ord (mkS rb rr))) ((env ++ [PCell cc]) ++ [look nm]) ((w ++ [1]) ++ [1])).
        { intros aa ->.
          apply (run_call tbl (fuel - 1 - 1) ns T a _ ssA _ _ (ord (mkS (b ++ rb) (r ++ rr))) tree (look nm) ss1
                   (ord (mkS rb rr))); [lia|apply get_set_same|assumption|assumption|assumption]. }
        unfold a in Hcall.
        destruct (cond_holds look (CBit src)); rewrite (Hcall _ eq_refl);
          rewrite <- !app_assoc; cbn [List.length app];
          replace (n + 2) with (S (S n)) by lia; replace (fuel - 1 - 1 - 1) with (fuel - 3) by lia; reflexivity.
      + lia.
      + rewrite get_set_other by lia. unfold ssA. rewrite get_set_other by lia. apply get_set_same.
      + intros j Hj Hlt2. rewrite get_set_other by lia. unfold ssA. rewrite get_set_other by lia.
        apply get_set_other. exact Hj.
      + reflexivity.
      + lia.
      + reflexivity.
      + constructor; [|constructor]. intros more. apply entry_var. cbn [app]. subst n.
        change (PCell cc :: look nm :: more) with ([PCell cc] ++ look nm :: more).
        rewrite app_assoc. replace (S (List.length env)) with (List.length (env ++ [PCell cc]))
          by (rewrite app_length; cbn; lia).
        rewrite nth_middle. reflexivity.
      + apply wacc_free. repeat constructor. exact Hfree.
    - (* INamedConst *)
      cbn [ok_bits] in Henc. inversion Henc; subst bits refs; clear Henc. cbn [app] in Hget.
      cbn [forallb] in Hwok. apply andb_prop in Hwok. destruct Hwok as [Hfree _].
      destruct (chunk_load_val c0 cbits (check_bits n 0 cbits (k (S n) ns (acc ++ [(nm, EVar n)]))) sid ss env w tb tr fuel
                  Hwf Hget) as (Hrun & Hview); [lia|].
      exists (S (List.length cbits)), (set_slice ss sid (ord (mkS tb tr))), [chunk_val c0 cbits], [chunk_width c0],
             [(nm, EVar n)], ns.
      post_split.
      + rewrite Hrun. rewrite (check_bits_ok cbits [] n 0 _ _ (env ++ [chunk_val c0 cbits]) (w ++ [chunk_width c0]) (fuel - 1)).
        * cbn [List.length]. replace (n + 1) with (S n) by lia.
          replace (fuel - 1 - List.length cbits) with (fuel - S (List.length cbits)) by lia. reflexivity.
        * rewrite <- Hn at 1. rewrite <- Hw. rewrite !nth_middle. exact Hview.
        * reflexivity.
        * lia.
      + lia.
      + apply get_set_same.
      + intros j Hj _. apply get_set_other. exact Hj.
      + reflexivity.
      + lia.
      + reflexivity.
      + constructor; [|constructor]. intros more. apply entry_var. cbn [app]. subst n.
        rewrite nth_middle. symmetry. exact Hwt.
      + apply wacc_free. repeat constructor. exact Hfree.
  Qed.

  Lemma items_correct : forall wtab its look c bits refs,
    forallb wf_item its = true -> wtab_ok wtab its = true -> WTIS look c its ->
    ENCIS look its = Ok (bits, refs) ->
    forall sid n ns acc k ss env w tb tr fuel,
      ctx_ok c tb tr ->
      get_slice ss sid = Ok (ord (mkS (bits ++ tb) (refs ++ tr))) ->
      List.length env = n -> List.length w = n -> sid < ns -> need_items (need_type st d) its <= fuel ->
      acc_ok look env acc -> wacc_ok wtab w acc ->
      guards_bound (map fst acc) its = true -> conds_ok (map fst acc) wtab its = true ->
      post wtab (compile_items its sid n ns acc k) k (items_names its) look sid n ns acc ss env w tb tr fuel
           (need_items (need_type st d) its).
  Proof.
    induction its as [|it r IH];
      intros look c bits refs Hwf Hwok Hwt Henc sid n ns acc k ss env w tb tr fuel Hctx Hget Hn Hw Hsid Hfuel
             Hacc Hwacc Hgb Hcb.
    - cbn [enc_items] in Henc. inversion Henc; subst bits refs.
      cbn [compile_items items_names flat_map need_items fold_right]. apply post_nil. exact Hget.
    - cbn [enc_items] in Henc. cbn [forallb] in Hwf. apply andb_prop in Hwf. destruct Hwf as [Hwf1 Hwf2].
      unfold wtab_ok in Hwok. cbn [forallb] in Hwok. apply andb_prop in Hwok. destruct Hwok as [Hwok1 Hwok2].
      cbn [wt_items] in Hwt. destruct Hwt as [Hwt1 Hwt2].
      destruct (ENCI look it) as [[b1 r1]|e] eqn:H1; cbn [bind] in Henc; [|discriminate].
      destruct (ENCIS look r) as [[b2 r2]|e] eqn:H2; cbn [bind] in Henc; [|discriminate].
      inversion Henc; subst bits refs; clear Henc. rewrite <- !app_assoc in Hget.
      rewrite compile_items_cons.
      change (items_names (it :: r)) with (item_names it ++ items_names r).
      change (need_items (need_type st d) (it :: r))
        with (need_item (need_type st d) it + need_items (need_type st d) r) in *.
      cbn [guards_bound] in Hgb. apply andb_prop in Hgb. destruct Hgb as [Hgb1 Hgb2].
      cbn [conds_ok] in Hcb. apply andb_prop in Hcb. destruct Hcb as [Hcb1 Hcb2].
      eapply post_seq.
      + exact Hacc.
      + exact Hwacc.
      + eapply (item_correct wtab it look (match r with [] => c | _ => None end)); try eassumption; try lia.
        * destruct r as [|it2 r']; [|exact I].
          cbn [enc_items] in H2. inversion H2; subst b2 r2. exact Hctx.
        * destruct it; assumption.
      + intros c1 ss1 vals1 ws1 acc1 ns1 Hc Hg1 Hlen1 Hns1 Hnm1 Hacc1 Hwacc1.
        eapply (IH look c); try eassumption; try (rewrite app_length; lia); try lia.
        * rewrite map_app, Hnm1. exact Hgb2.
        * rewrite map_app, Hnm1. exact Hcb2.
  Qed.

  (* ---- constructors ---- *)

  (* the tree runs to completion with value v, leaving fin in sub-slice 0 *)
  Definition finishes (t : dtree) (ss : slices) (env : list pv) (w : list nat) (fuel : nat) (v : pv)
      (fin : tslice) : Prop :=
    exists ss', run tbl fuel t ss env w = Ok (v, ss') /\ get_slice ss' 0 = Ok fin.

  Lemma cval_match_eq cv x : cval_matchb cv x = true ->
    forall env leaf, eval (cval_expr cv) env leaf = x.
  Proof.
    destruct cv, x; cbn [cval_matchb]; intros H env leaf; try discriminate; cbn [cval_expr eval].
    - apply String.eqb_eq in H. congruence.
    - reflexivity.
    - apply eqb_prop in H. congruence.
    - apply Z.eqb_eq in H. congruence.
  Qed.

  Lemma map_eval_look (look : string -> pv) E leaf (l : list (string * dexpr)) :
    Forall (fun p => eval (snd p) E leaf = look (fst p)) l ->
    map (fun '(n, x) => (n, eval x E leaf)) l = map (fun nm => (nm, look nm)) (map fst l).
  Proof.
    induction 1 as [|[nm e] r Hp Hr IH]; [reflexivity|].
    cbn [map fst snd] in *. rewrite Hp, IH. reflexivity.
  Qed.

  (* the snapshot attribute, when the layout has one, is variable 0 *)
  Definition snap_list (snap : option string) : list (string * dexpr) :=
    match snap with Some nm => [(nm, EVar 0)] | None => [] end.
  Definition snap_bound (snap : option string) (v : pv) (env : list pv) : Prop :=
    match snap with Some nm => nth 0 env PNone = field_of v nm /\ 1 <= List.length env | None => True end.

  Lemma ctor_correct snap c v cx bits refs :
    forallb wf_item (c_items c) = true -> guards_bound [] (c_items c) = true ->
    wtab_ok (ctor_wtab (c_items c)) (c_items c) = true -> conds_ok [] (ctor_wtab (c_items c)) (c_items c) = true ->
    (c_ret c = RNone -> c_items c = []) ->
    (match c_ret c with RSame | RSameCls _ => True | _ => False end -> exists nm f, c_items c = [INamed nm f]) ->
    (match snap, c_ret c with Some _, RObj _ _ | Some _, RObjAlt _ _ _ | None, _ => True | _, _ => False end) ->
    ctor_matches ch c v = true -> wt_ctor ch (wt_type ch st d) (rest_type ch st) snap c cx v ->
    ENCIS (ctor_look c v) (c_items c) = Ok (bits, refs) ->
    forall env w tb tr fuel, ctx_ok cx tb tr -> List.length w = List.length env ->
      need_ctor (need_type st d) c <= fuel -> snap_bound snap v env ->
      finishes (compile_ctor (snap_list snap) c (List.length env))
               [(0, ord (mkS (bits ++ tb) (refs ++ tr)))] env w fuel v (ord (mkS tb tr)).
  Proof.
    intros Hwf Hgb Hwtab Hconds Hnone Hsame Hsnapret Hmatch [Hshape Hwt] Henc env w tb tr fuel Hctx Hw Hfuel Hsb.
    unfold need_ctor in Hfuel. unfold compile_ctor.
    destruct (items_correct (ctor_wtab (c_items c)) (c_items c) (ctor_look c v) cx bits refs Hwf Hwtab Hwt Henc
                0 (List.length env) 1 []
                (fun _ _ acc => DRet (ret_expr (c_ret c) (snap_list snap) acc))
                [(0, ord (mkS (bits ++ tb) (refs ++ tr)))] env w tb tr fuel)
      as (c0 & ss' & vals & ws & acc' & ns' & Hrun & Hc & Hg & Hfr & Hlen & Hns & Hnames & Hev & _);
      try (reflexivity || lia || assumption || constructor).
    exists ss'. split; [|exact Hg].
    rewrite Hrun. rewrite run_ret by lia. f_equal. f_equal. cbn [app].
    set (leaf := match get_slice ss' 0 with Ok s => PSlice (ts_s s) | Err _ => PNone end).
    unfold ctor_look in Hev.
    (* the object constructors (with or without a recorded alternative) *)
    assert (Hobj : forall cls consts,
              (match v with PObj _ fs => forallb (fun '(nm, cv) => cval_matchb cv (assoc nm fs)) consts = true
                          | _ => False end) ->
              v = PObj cls (map (fun nm => (nm, field_of v nm)) (ctor_names consts snap (c_items c))) ->
              Forall (fun p => forall more, entry_ok (field_of v) (env ++ vals ++ more) p) acc' ->
              eval (EObj cls (sort_by_name (map (fun '(nm, cv) => (nm, cval_expr cv)) consts ++ snap_list snap ++ acc')))
                   (env ++ vals) leaf = v).
    { intros cls consts Hcm Hsh Hev'. cbn [eval].
      rewrite (map_eval_look (field_of v)).
      + rewrite sort_names_fst. rewrite !map_app, Hnames.
        replace (map fst (map (fun '(nm, cv) => (nm, cval_expr cv)) consts)) with (map fst consts).
        * replace (map fst (snap_list snap)) with (snap_names snap) by (destruct snap; reflexivity).
          symmetry. exact Hsh.
        * rewrite map_map. apply map_ext. intros [nm cv]. reflexivity.
      + apply sort_Forall. apply Forall_app. split; [|apply Forall_app; split].
        * destruct v as [| | | | | | | | |cls' fs| | | | |]; try contradiction.
          rewrite forallb_forall in Hcm. apply Forall_forall. intros [nm e] Hin.
          apply in_map_iff in Hin. destruct Hin as ([nm' cv] & Heq & Hin). inversion Heq; subst nm e.
          cbn [fst snd field_of]. apply cval_match_eq. exact (Hcm _ Hin).
        * destruct snap as [snm|]; cbn [snap_list]; [|constructor].
          constructor; [|constructor]. cbn [fst snd eval]. destruct Hsb as [Hsb Hlen0].
          rewrite app_nth1 by lia. exact Hsb.
        * eapply Forall_impl; [|exact Hev']. intros p Hp. cbn beta in Hp.
          destruct (Hp []) as [He _]. rewrite app_nil_r in He. apply He. }
    destruct (c_ret c) as [cls consts| | |cls|cls consts alt] eqn:Hret.
    - cbn [ret_expr]. apply Hobj; [|exact Hshape|exact Hev].
      unfold ctor_matches in Hmatch. rewrite Hret in Hmatch.
      destruct v as [| | | | | | | | |cls' fs| | | | |]; try discriminate.
      apply andb_prop in Hmatch. apply Hmatch.
    - cbn [ret_expr eval]. symmetry. exact Hshape.
    - destruct (Hsame I) as (nm & f & Hits). rewrite Hits in Hnames.
      cbn [items_names flat_map item_names app] in Hnames.
      destruct acc' as [|[nm' e] [|q acc'']]; cbn [map] in Hnames; try discriminate.
      cbn [ret_expr]. inversion Hev as [|p l Hp _]; subst.
      destruct (Hp []) as [He _]. rewrite app_nil_r in He. cbn [fst snd] in He. apply He.
    - destruct (Hsame I) as (nm & f & Hits). rewrite Hits in Hnames.
      cbn [items_names flat_map item_names app] in Hnames.
      destruct acc' as [|[nm' e] [|q acc'']]; cbn [map] in Hnames; try discriminate.
      cbn [ret_expr]. inversion Hev as [|p l Hp _]; subst.
      destruct (Hp []) as [He _]. rewrite app_nil_r in He. cbn [fst snd] in He. apply He.
    - cbn [ret_expr]. apply Hobj; [|exact Hshape|exact Hev].
      unfold ctor_matches in Hmatch. rewrite Hret in Hmatch.
      destruct v as [| | | | | | | | |cls' fs| | | | |]; try discriminate.
      apply andb_prop in Hmatch. destruct Hmatch as [Hmatch _]. apply andb_prop in Hmatch. apply Hmatch.
  Qed.

  (* ---- the tag tries ---- *)

  Lemma in_sub_tags x t c cs : In (x :: t, c) cs -> In (t, c) (sub_tags x cs).
  Proof.
    intros Hin. unfold sub_tags. apply in_flat_map. exists (x :: t, c). split; [exact Hin|].
    rewrite eqb_reflx. left. reflexivity.
  Qed.

  Lemma find_done_none cs c : find_done cs = None -> ~ In ([], c) cs.
  Proof.
    unfold find_done. intros H Hin.
    destruct (find (fun '(t, _) => match t with [] => true | _ => false end) cs) as [[t' c']|] eqn:Hf;
      [discriminate|].
    pose proof (find_none _ _ Hf _ Hin) as Hx. discriminate.
  Qed.

  Lemma trie_done_single fuel cs t c c' :
    trie_ok (S fuel) cs = true -> In (t, c) cs -> find_done cs = Some c' -> cs = [([], c)].
  Proof.
    intros Hok Hin Hfd. destruct cs as [|p cs']; [contradiction|].
    cbn [trie_ok] in Hok. rewrite Hfd in Hok. destruct cs' as [|q cs'']; [|discriminate].
    destruct Hin as [->|[]]. destruct t as [|x t]; [reflexivity|].
    cbn in Hfd. discriminate.
  Qed.

  Lemma trie_ok_sub fuel cs x : cs <> [] -> trie_ok (S fuel) cs = true -> find_done cs = None ->
    trie_ok fuel (sub_tags x cs) = true.
  Proof.
    intros Hne Hok Hfd. destruct cs as [|p cs']; [contradiction|].
    cbn [trie_ok] in Hok. rewrite Hfd in Hok. apply andb_prop in Hok. destruct x; apply Hok.
  Qed.

  Section Tries.
    Variable snap : list (string * dexpr).

    (* the body of the constructor runs in any environment extending the current one *)
    Definition body_ok (c : ctor) (env : list pv) (w : list nat) (b : list bool) (r : list cell)
        (needc : nat) (v : pv) (fin : tslice) : Prop :=
      forall more wmore rf, List.length wmore = List.length more -> needc <= rf ->
        finishes (compile_ctor snap c (List.length (env ++ more))) [(0, ord (mkS b r))]
                 (env ++ more) (w ++ wmore) rf v fin.

    Lemma body_ok_ext c env w b r needc v fin x wx : List.length wx = List.length x ->
      body_ok c env w b r needc v fin -> body_ok c (env ++ x) (w ++ wx) b r needc v fin.
    Proof.
      intros Hl H more wmore rf Hlen Hrf. rewrite <- !app_assoc. apply H; [|exact Hrf].
      rewrite !app_length. lia.
    Qed.

    Lemma trie_bits_correct : forall fuel cs t c,
      trie_ok fuel cs = true -> In (t, c) cs ->
      forall env w b r rfuel needc v fin,
        List.length w = List.length env -> 2 * List.length t + needc <= rfuel ->
        body_ok c env w b r needc v fin ->
        finishes (trie_bits snap fuel cs (List.length env)) [(0, ord (mkS (t ++ b) r))] env w rfuel v fin.
    Proof.
      induction fuel as [|f IH]; intros cs t c Hok Hin env w b r rfuel needc v fin Hw Hfuel Hbody;
        [discriminate|].
      destruct (find_done cs) as [c'|] eqn:Hfd.
      - pose proof (trie_done_single f cs t c c' Hok Hin Hfd) as ->.
        destruct Hin as [Heq|[]]. inversion Heq; subst t.
        cbn [trie_bits find_done find]. cbn [app].
        specialize (Hbody [] [] rfuel eq_refl). rewrite !app_nil_r in Hbody. apply Hbody. lia.
      - destruct t as [|x t]; [exfalso; exact (find_done_none cs c Hfd Hin)|].
        destruct cs as [|p cs']; [contradiction|]. remember (p :: cs') as cs eqn:Hcs.
        assert (Hok' : trie_ok f (sub_tags false cs) && trie_ok f (sub_tags true cs) = true).
        { rewrite Hcs in Hok. cbn [trie_ok] in Hok. rewrite <- Hcs in Hok. rewrite Hfd in Hok. exact Hok. }
        apply andb_prop in Hok'. destruct Hok' as [Hok0 Hok1].
        assert (Htree : trie_bits snap (S f) cs (List.length env)
                        = DOp 0 OBit (DIf (List.length env) 0
                                        (trie_bits snap f (sub_tags false cs) (S (List.length env)))
                                        (trie_bits snap f (sub_tags true cs) (S (List.length env))))).
        { rewrite Hcs. cbn [trie_bits]. rewrite <- Hcs. rewrite Hfd. reflexivity. }
        rewrite Htree. clear Htree. cbn [List.length app] in *.
        assert (Hrec : finishes (trie_bits snap f (sub_tags x cs) (List.length (env ++ [PBool x])))
                         [(0, ord (mkS (t ++ b) r))] (env ++ [PBool x]) (w ++ [1]) (rfuel - 1 - 1) v fin).
        { apply (IH (sub_tags x cs) t c) with (needc := needc).
          - destruct x; assumption.
          - apply in_sub_tags. exact Hin.
          - rewrite !app_length. cbn. lia.
          - lia.
          - apply body_ok_ext; [reflexivity|exact Hbody]. }
        destruct Hrec as (ss' & Hrun & Hget). exists ss'. split; [|exact Hget].
        rewrite (run_prim tbl rfuel 0 OBit _ _ env w (ord (mkS (x :: t ++ b) r)) (PBool x) (mkS (t ++ b) r))
          by (lia || reflexivity).
        rewrite (run_if tbl _ (List.length env) 0 _ _ _ _ _ x);
          [|lia|rewrite nth_middle; reflexivity].
        rewrite app_length in Hrun. cbn [List.length] in Hrun. rewrite Nat.add_1_r in Hrun.
        destruct x; exact Hrun.
    Qed.

    Lemma trie_chunk_correct : forall fuel cs t c,
      trie_ok fuel cs = true -> In (t, c) cs ->
      forall pre vidx ss env w rfuel needc v fin,
        bits_of_pv (nth vidx env PNone) (nth vidx w 1) = pre ++ t ->
        List.length t + needc <= rfuel ->
        (forall rf, needc <= rf -> finishes (compile_ctor snap c (S vidx)) ss env w rf v fin) ->
        finishes (trie_chunk snap fuel cs vidx (List.length pre)) ss env w rfuel v fin.
    Proof.
      induction fuel as [|f IH]; intros cs t c Hok Hin pre vidx ss env w rfuel needc v fin Hbits Hfuel Hbody;
        [discriminate|].
      destruct (find_done cs) as [c'|] eqn:Hfd.
      - pose proof (trie_done_single f cs t c c' Hok Hin Hfd) as ->.
        destruct Hin as [Heq|[]]. inversion Heq; subst t.
        cbn [trie_chunk find_done find]. apply Hbody. lia.
      - destruct t as [|x t]; [exfalso; exact (find_done_none cs c Hfd Hin)|].
        destruct cs as [|p cs']; [contradiction|]. remember (p :: cs') as cs eqn:Hcs.
        assert (Hok' : trie_ok f (sub_tags false cs) && trie_ok f (sub_tags true cs) = true).
        { rewrite Hcs in Hok. cbn [trie_ok] in Hok. rewrite <- Hcs in Hok. rewrite Hfd in Hok. exact Hok. }
        apply andb_prop in Hok'. destruct Hok' as [Hok0 Hok1].
        assert (Htree : trie_chunk snap (S f) cs vidx (List.length pre)
                        = DIf vidx (List.length pre)
                            (trie_chunk snap f (sub_tags false cs) vidx (S (List.length pre)))
                            (trie_chunk snap f (sub_tags true cs) vidx (S (List.length pre)))).
        { rewrite Hcs. cbn [trie_chunk]. rewrite <- Hcs. rewrite Hfd. reflexivity. }
        rewrite Htree. clear Htree. cbn [List.length] in *.
        assert (Hrec : finishes (trie_chunk snap f (sub_tags x cs) vidx (List.length (pre ++ [x])))
                         ss env w (rfuel - 1) v fin).
        { apply (IH (sub_tags x cs) t c) with (needc := needc).
          - destruct x; assumption.
          - apply in_sub_tags. exact Hin.
          - rewrite <- app_assoc. exact Hbits.
          - lia.
          - exact Hbody. }
        destruct Hrec as (ss' & Hrun & Hget). exists ss'. split; [|exact Hget].
        rewrite (run_if tbl rfuel vidx (List.length pre) _ _ ss env w x);
          [|lia|rewrite Hbits; apply nth_middle].
        rewrite app_length in Hrun. cbn [List.length] in Hrun. rewrite Nat.add_1_r in Hrun.
        destruct x; exact Hrun.
    Qed.

    (* ---- the tag read in pieces ---- *)
    Definition pend_bits (env : list pv) (w : list nat) (pend : list (nat * nat)) : list bool :=
      map (fun p => nth (snd p) (bits_of_pv (nth (fst p) env PNone) (nth (fst p) w 1)) false) pend.

    Lemma pend_bits_ext env w x wx pend : List.length w = List.length env ->
      Forall (fun p => fst p < List.length env) pend ->
      pend_bits (env ++ x) (w ++ wx) pend = pend_bits env w pend.
    Proof.
      intros Hw Hall. unfold pend_bits. apply map_ext_in. intros [vv i] Hin.
      rewrite Forall_forall in Hall. specialize (Hall _ Hin). cbn [fst snd] in *.
      rewrite !app_nth1 by lia. reflexivity.
    Qed.

    Lemma pend_bits_new env w val wd bits : List.length w = List.length env ->
      bits_of_pv val wd = bits -> List.length bits = wd ->
      pend_bits (env ++ [val]) (w ++ [wd]) (chunk_srcs (List.length env) wd) = bits.
    Proof.
      intros Hw Hb Hlen. unfold pend_bits, chunk_srcs. rewrite map_map. cbn [fst snd].
      assert (E1 : nth (List.length env) (env ++ [val]) PNone = val) by apply nth_middle.
      assert (E2 : nth (List.length env) (w ++ [wd]) 1 = wd) by (rewrite <- Hw; apply nth_middle).
      rewrite E1, E2, Hb. clear E1 E2.
      subst wd. clear Hb Hw.
      assert (H : forall (l : list bool) k, map (fun i => nth i l false) (seq k (List.length l - k)) = skipn k l).
      { intros l. remember (List.length l) as len eqn:Hl.
        assert (forall m k, m = len - k -> k <= len -> map (fun i => nth i l false) (seq k m) = skipn k l).
        { induction m as [|m IHm]; intros k Hm Hk.
          - cbn [seq map]. rewrite skipn_all2 by lia. reflexivity.
          - cbn [seq map]. rewrite (IHm (S k)) by lia.
            assert (Hk' : k < List.length l) by lia.
            clear -Hk'. revert k Hk'. induction l as [|y l IHl]; intros k Hk'; [cbn in Hk'; lia|].
            destruct k as [|k]; [reflexivity|]. cbn [nth skipn]. apply IHl. cbn in Hk'. lia. }
        intros k. destruct (Nat.le_gt_cases k len) as [Hle|Hgt].
        - apply H; [reflexivity|exact Hle].
        - replace (len - k) with 0 by lia. cbn [seq map]. rewrite skipn_all2 by lia. reflexivity. }
      specialize (H bits 0). rewrite Nat.sub_0_r in H. exact H.
    Qed.

    Lemma tag_aligned_width len ck e rest : tag_aligned len ((ck, e) :: rest) = true ->
      chunk_width ck <= len /\ (len = chunk_width ck \/ tag_aligned (len - chunk_width ck) rest = true).
    Proof.
      cbn [tag_aligned]. intros H. apply orb_prop in H. destruct H as [H|H].
      - apply Nat.eqb_eq in H. split; [lia|left; exact H].
      - apply andb_prop in H. destruct H as [H1 H2]. apply Nat.ltb_lt in H1. split; [lia|right; exact H2].
    Qed.

    Lemma piece_chunk_ok ck bits : piece_ok ck = true -> List.length bits = chunk_width ck ->
      chunk_ok ck bits = true.
    Proof.
      intros Hp Hlen. unfold chunk_ok. destruct ck as [n|n|k0|]; cbn [piece_ok] in Hp; try discriminate;
        cbn [chunk_width chunk_view] in *; rewrite Hlen, Nat.eqb_refl, list_beq_refl.
      - rewrite Hp. reflexivity.
      - reflexivity.
    Qed.

    Lemma can_finish_false cs t c p : In (t, c) cs -> can_finish cs p = false -> p < List.length t.
    Proof.
      unfold can_finish. intros Hin H.
      destruct (Nat.lt_ge_cases p (List.length t)) as [Hlt|Hge]; [exact Hlt|].
      assert (Hex : existsb (fun '(t0, _) => List.length t0 <=? p) cs = true).
      { apply existsb_exists. exists (t, c). split; [exact Hin|]. apply Nat.leb_le. exact Hge. }
      congruence.
    Qed.

    Lemma trie_multi_correct : forall fuel F cs t c pend rest,
      trie_ok F cs = true -> In (t, c) cs ->
      forall env w b r rfuel needc v fin,
        List.length w = List.length env ->
        Forall (fun p => fst p < List.length env) pend ->
        List.length pend <= List.length t ->
        pend_bits env w pend = firstn (List.length pend) t ->
        forallb (fun p => piece_ok (fst p)) rest = true ->
        (List.length t = List.length pend \/ tag_aligned (List.length t - List.length pend) rest = true) ->
        List.length t + List.length rest < fuel ->
        List.length t + List.length rest + needc <= rfuel ->
        body_ok c env w b r needc v fin ->
        finishes (trie_multi snap fuel cs pend rest (List.length env))
                 [(0, ord (mkS (skipn (List.length pend) t ++ b) r))] env w rfuel v fin.
    Proof.
      induction fuel as [|f IH];
        intros F cs t c pend rest Hok Hin env w b r rfuel needc v fin Hw Hpv Hpl Hpb Hpieces Hal Hfuel Hrf Hbody;
        [lia|].
      destruct F as [|F']; [discriminate|].
      destruct (find_done cs) as [c'|] eqn:Hfd.
      - pose proof (trie_done_single F' cs t c c' Hok Hin Hfd) as ->.
        destruct Hin as [Heq|[]]. inversion Heq; subst t.
        cbn [trie_multi find_done find]. cbn [List.length] in Hpl.
        destruct pend as [|p0 pend']; [|cbn [List.length] in Hpl; lia].
        cbn [List.length skipn app].
        specialize (Hbody [] [] rfuel eq_refl). rewrite !app_nil_r in Hbody. apply Hbody. lia.
      - destruct t as [|x t']; [exfalso; exact (find_done_none cs c Hfd Hin)|].
        assert (Hne : cs <> []) by (intros ->; contradiction).
        (* loading the next piece *)
        assert (Hload : List.length pend < List.length (x :: t') ->
                  finishes (match rest with
                            | [] => DFail
                            | (ck, _) :: rest' =>
                                DOp 0 (chunk_op ck)
                                  (trie_multi snap f cs (pend ++ chunk_srcs (List.length env) (chunk_width ck)) rest'
                                     (S (List.length env)))
                            end) [(0, ord (mkS (skipn (List.length pend) (x :: t') ++ b) r))] env w rfuel v fin).
        { intros Hlt. destruct Hal as [Hal|Hal]; [lia|].
          destruct rest as [|[ck eg] rest']; [cbn [tag_aligned] in Hal; discriminate|].
          cbn [forallb fst] in Hpieces. apply andb_prop in Hpieces. destruct Hpieces as [Hpk Hpieces'].
          destruct (tag_aligned_width _ _ _ _ Hal) as [Hwd Hal'].
          set (tl0 := skipn (List.length pend) (x :: t')) in *.
          assert (Htl : List.length tl0 = List.length (x :: t') - List.length pend)
            by (unfold tl0; apply skipn_length).
          set (cb := firstn (chunk_width ck) tl0).
          assert (Hcb : List.length cb = chunk_width ck) by (unfold cb; rewrite firstn_length; lia).
          assert (Hsplit : tl0 = cb ++ skipn (chunk_width ck) tl0) by (unfold cb; symmetry; apply firstn_skipn).
          destruct (chunk_load ck cb
                      (trie_multi snap f cs (pend ++ chunk_srcs (List.length env) (chunk_width ck)) rest'
                         (S (List.length env)))
                      0 [(0, ord (mkS (tl0 ++ b) r))] env w (skipn (chunk_width ck) tl0 ++ b) r rfuel)
            as (val & Hrun & Hview).
          { apply piece_chunk_ok; assumption. }
          { cbn [get_slice Nat.eqb]. rewrite app_assoc, <- Hsplit. reflexivity. }
          { cbn [List.length] in *. lia. }
          cbn [set_slice Nat.eqb] in Hrun.
          assert (Hrec : finishes (trie_multi snap f cs (pend ++ chunk_srcs (List.length env) (chunk_width ck)) rest'
                                     (List.length (env ++ [val])))
                           [(0, ord (mkS (skipn (List.length (pend ++ chunk_srcs (List.length env) (chunk_width ck)))
                                                (x :: t') ++ b) r))]
                           (env ++ [val]) (w ++ [chunk_width ck]) (rfuel - 1) v fin).
          { apply (IH (S F') cs (x :: t') c) with (needc := needc); try assumption.
            - rewrite !app_length. cbn. lia.
            - apply Forall_app. split.
              + eapply Forall_impl; [|exact Hpv]. intros p Hp. cbn beta in Hp. rewrite app_length. lia.
              + unfold chunk_srcs. apply Forall_forall. intros p Hp. apply in_map_iff in Hp.
                destruct Hp as (i & <- & _). cbn [fst]. rewrite app_length. cbn. lia.
            - rewrite app_length. unfold chunk_srcs. rewrite map_length, seq_length. lia.
            - rewrite app_length. unfold chunk_srcs at 2. rewrite map_length, seq_length.
              unfold pend_bits. rewrite map_app. fold (pend_bits (env ++ [val]) (w ++ [chunk_width ck]) pend).
              fold (pend_bits (env ++ [val]) (w ++ [chunk_width ck]) (chunk_srcs (List.length env) (chunk_width ck))).
              rewrite (pend_bits_ext env w [val] [chunk_width ck] pend Hw Hpv), Hpb.
              rewrite (pend_bits_new env w val (chunk_width ck) cb Hw Hview Hcb).
              rewrite firstn_add. reflexivity.
            - rewrite app_length. unfold chunk_srcs. rewrite map_length, seq_length.
              destruct Hal' as [Hal'|Hal']; [left; lia|right].
              replace (List.length (x :: t') - (List.length pend + chunk_width ck))
                with (List.length (x :: t') - List.length pend - chunk_width ck) by lia. exact Hal'.
            - cbn [List.length] in *. lia.
            - cbn [List.length] in *. lia.
            - apply body_ok_ext; [reflexivity|exact Hbody]. }
          destruct Hrec as (ss' & Hrun' & Hget). exists ss'. split; [|exact Hget].
          rewrite Hrun. rewrite app_length in Hrun'. cbn [List.length] in Hrun'. rewrite Nat.add_1_r in Hrun'.
          rewrite app_length in Hrun'. unfold chunk_srcs in Hrun' at 2. rewrite map_length, seq_length in Hrun'.
          rewrite skipn_add in Hrun'. exact Hrun'. }
        assert (Htree : trie_multi snap (S f) cs pend rest (List.length env)
                        = match pend with
                          | (vv, i) :: pend' =>
                              if can_finish cs (List.length pend) || negb (next_eager rest)
                              then DIf vv i (trie_multi snap f (sub_tags false cs) pend' rest (List.length env))
                                            (trie_multi snap f (sub_tags true cs) pend' rest (List.length env))
                              else match rest with
                                   | [] => DFail
                                   | (ck, _) :: rest' =>
                                       DOp 0 (chunk_op ck)
                                         (trie_multi snap f cs (pend ++ chunk_srcs (List.length env) (chunk_width ck))
                                            rest' (S (List.length env)))
                                   end
                          | [] => match rest with
                                  | [] => DFail
                                  | (ck, _) :: rest' =>
                                      DOp 0 (chunk_op ck)
                                        (trie_multi snap f cs (pend ++ chunk_srcs (List.length env) (chunk_width ck))
                                           rest' (S (List.length env)))
                                  end
                          end).
        { destruct cs as [|p0 cs0]; [contradiction|]. cbn [trie_multi]. rewrite Hfd.
          destruct pend as [|[vv i] pend']; reflexivity. }
        rewrite Htree. clear Htree.
        destruct pend as [|[vv i] pend'].
        + apply Hload. cbn [List.length]. lia.
        + destruct (can_finish cs (List.length ((vv, i) :: pend')) || negb (next_eager rest)) eqn:Hcf.
          * (* the next pending bit is tested *)
            cbn [List.length] in Hpl, Hpb. cbn [pend_bits map firstn fst snd] in Hpb.
            inversion Hpb as [[Hbit Hpb']]. fold (pend_bits env w pend') in Hpb'.
            pose proof (Forall_inv Hpv) as Hvv. pose proof (Forall_inv_tail Hpv) as Hpv'. cbn [fst] in Hvv.
            assert (Hrec : finishes (trie_multi snap f (sub_tags x cs) pend' rest (List.length env))
                             [(0, ord (mkS (skipn (List.length pend') t' ++ b) r))] env w (rfuel - 1) v fin).
            { apply (IH F' (sub_tags x cs) t' c) with (needc := needc); try assumption.
              - apply trie_ok_sub; assumption.
              - apply in_sub_tags. exact Hin.
              - lia.
              - cbn [List.length] in Hal. destruct Hal as [Hal|Hal]; [left; lia|right].
                replace (List.length t' - List.length pend') with (S (List.length t') - S (List.length pend')) by lia.
                exact Hal.
              - cbn [List.length] in Hfuel. lia.
              - cbn [List.length] in Hrf. lia. }
            destruct Hrec as (ss' & Hrun & Hget). exists ss'. split; [|exact Hget].
            rewrite (run_if tbl rfuel vv i _ _ _ env w x); [|cbn [List.length] in Hrf; lia|exact Hbit].
            cbn [List.length skipn]. destruct x; exact Hrun.
          * apply orb_false_iff in Hcf. destruct Hcf as [Hcf _].
            apply Hload. exact (can_finish_false cs (x :: t') c _ Hin Hcf).
    Qed.

    (* ---- the tag only looked at ---- *)
    Lemma match_bits_same : forall bits pre v i same other ss env w fuel,
      bits_of_pv (nth v env PNone) (nth v w 1) = pre ++ bits -> List.length pre = i ->
      List.length bits <= fuel ->
      run tbl fuel (match_bits v i bits same other) ss env w = run tbl (fuel - List.length bits) same ss env w.
    Proof.
      induction bits as [|b r IH]; intros pre v i same other ss env w fuel Hbits Hpre Hfuel.
      - cbn [match_bits List.length]. rewrite Nat.sub_0_r. reflexivity.
      - cbn [List.length] in *.
        assert (Hnth : nth i (bits_of_pv (nth v env PNone) (nth v w 1)) false = b).
        { rewrite Hbits. subst i. apply nth_middle. }
        assert (Hrec : run tbl (fuel - 1) (match_bits v (S i) r same other) ss env w
                       = run tbl (fuel - S (List.length r)) same ss env w).
        { rewrite (IH (pre ++ [b]) v (S i) same other ss env w (fuel - 1)).
          - f_equal. lia.
          - rewrite <- app_assoc. exact Hbits.
          - rewrite app_length. cbn. lia.
          - lia. }
        cbn [match_bits]. destruct b.
        + rewrite (run_if tbl fuel v i _ _ ss env w true) by (lia || exact Hnth). exact Hrec.
        + rewrite (run_if tbl fuel v i _ _ ss env w false) by (lia || exact Hnth). exact Hrec.
    Qed.

    Lemma match_bits_other : forall bits actual pre v i same other ss env w fuel,
      bits_of_pv (nth v env PNone) (nth v w 1) = pre ++ actual -> List.length pre = i ->
      List.length actual = List.length bits -> list_beq actual bits = false ->
      List.length bits <= fuel ->
      exists c, 1 <= c <= List.length bits /\
        run tbl fuel (match_bits v i bits same other) ss env w = run tbl (fuel - c) other ss env w.
    Proof.
      induction bits as [|b r IH]; intros actual pre v i same other ss env w fuel Hbits Hpre Hlen Hne Hfuel.
      - destruct actual; [discriminate|cbn in Hlen; lia].
      - destruct actual as [|y actual']; [cbn in Hlen; lia|]. cbn [List.length] in *.
        assert (Hnth : nth i (bits_of_pv (nth v env PNone) (nth v w 1)) false = y).
        { rewrite Hbits. subst i. apply nth_middle. }
        cbn [list_beq] in Hne. cbn [match_bits].
        destruct (Bool.eqb y b) eqn:Hyb.
        + apply eqb_prop in Hyb. subst y. cbn [andb] in Hne.
          destruct (IH actual' (pre ++ [b]) v (S i) same other ss env w (fuel - 1)) as (c & Hc & Hrun).
          { rewrite <- app_assoc. exact Hbits. }
          { rewrite app_length. cbn. lia. }
          { lia. }
          { exact Hne. }
          { lia. }
          exists (S c). split; [lia|].
          destruct b.
          * rewrite (run_if tbl fuel v i _ _ ss env w true) by (lia || exact Hnth). rewrite Hrun. f_equal. lia.
          * rewrite (run_if tbl fuel v i _ _ ss env w false) by (lia || exact Hnth). rewrite Hrun. f_equal. lia.
        + exists 1. split; [lia|].
          destruct b, y; try discriminate.
          * rewrite (run_if tbl fuel v i _ _ ss env w false) by (lia || exact Hnth). reflexivity.
          * rewrite (run_if tbl fuel v i _ _ ss env w true) by (lia || exact Hnth). reflexivity.
    Qed.

    Lemma peek_list_correct : forall (cs : list ctor) (c : ctor) M,
      peek_order_ok cs = true -> In c cs ->
      Forall (fun c' => List.length (c_tag c') <= M) cs ->
      forall env w b r rfuel needc v fin,
        List.length w = List.length env ->
        List.length cs * S M + needc <= rfuel ->
        body_ok c env w (c_tag c ++ b) r needc v fin ->
        finishes (peek_list snap (tagged_of cs) (List.length env))
                 [(0, ord (mkS (c_tag c ++ b) r))] env w rfuel v fin.
    Proof.
      induction cs as [|c1 cs1 IH]; intros c M Hord Hin HM env w b r rfuel needc v fin Hw Hrf Hbody;
        [contradiction|].
      cbn [peek_order_ok] in Hord. apply andb_prop in Hord. destruct Hord as [Hord1 Hord].
      inversion HM as [|? ? HM1 HM']; subst.
      cbn [tagged_of map peek_list]. fold (tagged_of cs1).
      destruct cs1 as [|c2 cs2].
      - destruct Hin as [->|[]]. cbn [tagged_of map].
        specialize (Hbody [] [] rfuel eq_refl). rewrite !app_nil_r in Hbody. apply Hbody.
        cbn [List.length] in Hrf. lia.
      - remember (c2 :: cs2) as cs1 eqn:Hcs1.
        assert (Hshape : match tagged_of cs1 with
                         | [] => compile_ctor snap c1 (List.length env)
                         | _ :: _ => DOp 0 (OPeekBits (List.length (c_tag c1)))
                                       (match_bits (List.length env) 0 (c_tag c1)
                                          (compile_ctor snap c1 (S (List.length env)))
                                          (peek_list snap (tagged_of cs1) (S (List.length env))))
                         end
                         = DOp 0 (OPeekBits (List.length (c_tag c1)))
                             (match_bits (List.length env) 0 (c_tag c1)
                                (compile_ctor snap c1 (S (List.length env)))
                                (peek_list snap (tagged_of cs1) (S (List.length env))))).
        { rewrite Hcs1. reflexivity. }
        rewrite Hshape. clear Hshape.
        set (pk := PBits (s_preload_bits (mkS (c_tag c ++ b) r) (List.length (c_tag c1)))).
        assert (Hpeek : forall k, run tbl rfuel (DOp 0 (OPeekBits (List.length (c_tag c1))) k)
                                    [(0, ord (mkS (c_tag c ++ b) r))] env w
                                  = run tbl (rfuel - 1) k [(0, ord (mkS (c_tag c ++ b) r))]
                                      (env ++ [pk]) (w ++ [List.length (c_tag c1)])).
        { intros k. apply (run_peek tbl rfuel 0 _ k _ env w (ord (mkS (c_tag c ++ b) r))); [|reflexivity].
          cbn [List.length] in Hrf. lia. }
        assert (Hpkbits : bits_of_pv (nth (List.length env) (env ++ [pk]) PNone)
                            (nth (List.length env) (w ++ [List.length (c_tag c1)]) 1)
                          = firstn (List.length (c_tag c1)) (c_tag c ++ b)).
        { rewrite nth_middle. reflexivity. }
        destruct Hin as [Heq|Hin].
        + (* this constructor: the peeked bits are its tag *)
          subst c1.
          assert (Hfin : finishes (compile_ctor snap c (List.length (env ++ [pk])))
                           [(0, ord (mkS (c_tag c ++ b) r))] (env ++ [pk]) (w ++ [List.length (c_tag c)])
                           (rfuel - 1 - List.length (c_tag c)) v fin).
          { apply Hbody; [reflexivity|]. cbn [List.length] in Hrf. lia. }
          destruct Hfin as (ss' & Hrun & Hget). exists ss'. split; [|exact Hget].
          rewrite Hpeek.
          rewrite (match_bits_same (c_tag c) [] (List.length env) 0 _ _ _ (env ++ [pk]) _ (rfuel - 1)).
          * rewrite app_length in Hrun. cbn [List.length] in Hrun. rewrite Nat.add_1_r in Hrun. exact Hrun.
          * rewrite Hpkbits. rewrite firstn_app_exact by reflexivity. reflexivity.
          * reflexivity.
          * cbn [List.length] in Hrf. lia.
        + (* a later constructor: the peeked bits differ from this tag *)
          rewrite forallb_forall in Hord1. specialize (Hord1 c Hin).
          apply andb_prop in Hord1. destruct Hord1 as [Hle Hdiff]. apply Nat.leb_le in Hle.
          apply negb_true_iff in Hdiff.
          assert (Hfirst : firstn (List.length (c_tag c1)) (c_tag c ++ b) = firstn (List.length (c_tag c1)) (c_tag c)).
          { rewrite firstn_app. replace (List.length (c_tag c1) - List.length (c_tag c)) with 0 by lia.
            cbn [firstn]. apply app_nil_r. }
          destruct (match_bits_other (c_tag c1) (firstn (List.length (c_tag c1)) (c_tag c)) []
                      (List.length env) 0
                      (compile_ctor snap c1 (S (List.length env)))
                      (peek_list snap (tagged_of cs1) (S (List.length env)))
                      [(0, ord (mkS (c_tag c ++ b) r))] (env ++ [pk]) (w ++ [List.length (c_tag c1)]) (rfuel - 1))
            as (cst & Hcst & Hrunm).
          { rewrite Hpkbits, Hfirst. reflexivity. }
          { reflexivity. }
          { rewrite firstn_length. lia. }
          { exact Hdiff. }
          { cbn [List.length] in Hrf. lia. }
          assert (Hrec : finishes (peek_list snap (tagged_of cs1) (List.length (env ++ [pk])))
                           [(0, ord (mkS (c_tag c ++ b) r))] (env ++ [pk]) (w ++ [List.length (c_tag c1)])
                           (rfuel - 1 - cst) v fin).
          { apply (IH c M Hord Hin HM') with (needc := needc).
            - rewrite !app_length. cbn. lia.
            - cbn [List.length] in Hrf. rewrite Hcs1 in *. cbn [List.length] in *. nia.
            - apply body_ok_ext; [reflexivity|exact Hbody]. }
          destruct Hrec as (ss' & Hrun & Hget). exists ss'. split; [|exact Hget].
          rewrite Hpeek, Hrunm.
          rewrite app_length in Hrun. cbn [List.length] in Hrun. rewrite Nat.add_1_r in Hrun. exact Hrun.
    Qed.
  End Tries.

  (* ---- layouts ---- *)

  Lemma tag_fuel_bound cs c : In c cs -> List.length (c_tag c) < tag_fuel cs.
  Proof.
    unfold tag_fuel. induction cs as [|c' r IH]; intros Hin; [contradiction|].
    cbn [fold_right]. destruct Hin as [->|Hin]; [lia|]. specialize (IH Hin). lia.
  Qed.

  Lemma need_ctor_bound nty cs c : In c cs ->
    need_ctor nty c <= fold_right (fun c m => Nat.max (need_ctor nty c) m) 0 cs.
  Proof.
    induction cs as [|c' r IH]; intros Hin; [contradiction|].
    cbn [fold_right]. destruct Hin as [->|Hin]; [lia|]. specialize (IH Hin). lia.
  Qed.

  (* an encoding begins with the tag of one of the constructors (unless the tags are peeked) *)
  Lemma enc_layout_tag ety rty L x b0 r0 :
    match t_mode L with TagPeek => False | _ => True end ->
    enc_layout ch ety rty L x = Ok (b0, r0) ->
    exists c', In c' (t_ctors L) /\ exists rest, b0 = c_tag c' ++ rest.
  Proof.
    intros Hmode. unfold enc_layout.
    destruct (find (fun c => ctor_matches ch c x) (t_ctors L)) as [c'|] eqn:Hfind; [|discriminate].
    apply find_some in Hfind. destruct Hfind as [Hin _]. unfold enc_ctor.
    destruct (enc_items ch ety rty (ctor_look c' x) (c_items c')) as [[b r]|e]; cbn [bind]; [|discriminate].
    intros H. inversion H; subst. exists c'. split; [exact Hin|]. exists b.
    destruct (t_mode L); try contradiction; reflexivity.
  Qed.

  Lemma snap_bound_ext snap v env more : snap_bound snap v env -> snap_bound snap v (env ++ more).
  Proof.
    destruct snap as [nm|]; [|trivial]. cbn [snap_bound]. intros [H1 H2]. split.
    - rewrite app_nth1 by lia. exact H1.
    - rewrite app_length. lia.
  Qed.

  Local Notation WTC := (wt_ctor ch (wt_type ch st d) (rest_type ch st)).

  Lemma tag_correct L c v cx b0 r0 :
    wf_layout L = true -> peek_ok st L = true -> In c (t_ctors L) -> ctor_matches ch c v = true ->
    WTC (t_snap L) c cx v -> ENCIS (ctor_look c v) (c_items c) = Ok (b0, r0) ->
    forall env w tb tr fuel,
      ctx_ok cx tb tr -> List.length w = List.length env -> List.length env = snap_n L ->
      snap_bound (t_snap L) v env ->
      need_tag L + fold_right (fun c m => Nat.max (need_ctor (need_type st d) c) m) 0 (t_ctors L) <= fuel ->
      finishes (compile_tag L) [(0, ord (mkS ((own_tag (t_mode L) c ++ b0) ++ tb) (r0 ++ tr)))] env w fuel v
               (ord (mkS tb tr)).
  Proof.
    intros Hwf Hpeek Hin Hmatch Hwt Hinner env w tb tr fuel Hctx Hw Hlen Hsb Hfuel.
    unfold wf_layout in Hwf. apply andb_prop in Hwf. destruct Hwf as [Hctors Htrie].
    rewrite forallb_forall in Hctors. specialize (Hctors c Hin). unfold wf_ctor in Hctors.
    apply andb_prop in Hctors. destruct Hctors as [Hctors Hmode].
    apply andb_prop in Hctors. destruct Hctors as [Hctors Hcondsok].
    apply andb_prop in Hctors. destruct Hctors as [Hctors Hwtabok].
    apply andb_prop in Hctors. destruct Hctors as [Hctors Hsnapret].
    apply andb_prop in Hctors. destruct Hctors as [Hctors Hnone].
    apply andb_prop in Hctors. destruct Hctors as [Hitems Hgb].
    pose proof (tag_fuel_bound _ _ Hin) as Htag.
    pose proof (need_ctor_bound (need_type st d) _ _ Hin) as Hneed.
    assert (HinT : In (c_tag c, c) (tagged_of (t_ctors L))).
    { unfold tagged_of. apply in_map_iff. exists c. split; [reflexivity|exact Hin]. }
    assert (Hnone' : c_ret c = RNone -> c_items c = []).
    { intros E. rewrite E in Hnone. destruct (c_items c); [reflexivity|discriminate]. }
    assert (Hsame' : match c_ret c with RSame | RSameCls _ => True | _ => False end ->
                     exists nm f, c_items c = [INamed nm f]).
    { intros E. destruct (c_ret c); try contradiction;
        (destruct (c_items c) as [|[nm f| | | | | | |] [|it r]]; try discriminate; exists nm, f; reflexivity). }
    assert (Hsnapret' : match t_snap L, c_ret c with Some _, RObj _ _ | Some _, RObjAlt _ _ _ | None, _ => True
                                                | _, _ => False end).
    { destruct (t_snap L), (c_ret c); try exact I; discriminate. }
    assert (Hbody : forall tg, body_ok (snap_acc L) c env w (tg ++ tb) (r0 ++ tr) (need_ctor (need_type st d) c) v
                                 (ord (mkS tb tr)) -> True) by trivial.
    clear Hbody.
    assert (Hbody : body_ok (snap_acc L) c env w (b0 ++ tb) (r0 ++ tr) (need_ctor (need_type st d) c) v
                      (ord (mkS tb tr))).
    { intros more wmore rf Hlm Hrf.
      apply (ctor_correct (t_snap L) c v cx b0 r0 Hitems Hgb Hwtabok Hcondsok Hnone' Hsame' Hsnapret' Hmatch Hwt Hinner
               (env ++ more) (w ++ wmore) tb tr rf Hctx).
      - rewrite !app_length. lia.
      - exact Hrf.
      - apply snap_bound_ext. exact Hsb. }
    unfold compile_tag, need_tag in *. rewrite <- Hlen.
    destruct (t_mode L) as [|ck|cks|] eqn:Hm; cbn [own_tag].
    - rewrite <- app_assoc.
      apply (trie_bits_correct (snap_acc L) _ _ _ c Htrie HinT env w (b0 ++ tb) (r0 ++ tr) fuel
               (need_ctor (need_type st d) c)); [exact Hw|lia|exact Hbody].
    - rewrite <- app_assoc.
      destruct (chunk_load ck (c_tag c) (trie_chunk (snap_acc L) (tag_fuel (t_ctors L)) (tagged_of (t_ctors L))
                                           (List.length env) 0) 0
                  [(0, ord (mkS (c_tag c ++ b0 ++ tb) (r0 ++ tr)))] env w (b0 ++ tb) (r0 ++ tr) fuel
                  Hmode eq_refl) as (val & Hrun & Hview); [lia|].
      cbn [set_slice Nat.eqb app] in Hrun.
      assert (Hfin : finishes (trie_chunk (snap_acc L) (tag_fuel (t_ctors L)) (tagged_of (t_ctors L))
                                 (List.length env) (List.length (@nil bool)))
                       [(0, ord (mkS (b0 ++ tb) (r0 ++ tr)))] (env ++ [val]) (w ++ [chunk_width ck]) (fuel - 1) v
                       (ord (mkS tb tr))).
      { apply (trie_chunk_correct (snap_acc L) _ _ _ c Htrie HinT [] (List.length env) _ (env ++ [val])
                 (w ++ [chunk_width ck]) (fuel - 1) (need_ctor (need_type st d) c)).
        - rewrite nth_middle. rewrite <- Hw. rewrite nth_middle. exact Hview.
        - lia.
        - intros rf Hrf. specialize (Hbody [val] [chunk_width ck] rf eq_refl Hrf).
          rewrite app_length in Hbody. cbn [List.length] in Hbody. rewrite Nat.add_1_r in Hbody. exact Hbody. }
      destruct Hfin as (ss' & Hrun' & Hget). exists ss'. split; [|exact Hget].
      rewrite Hrun. exact Hrun'.
    - rewrite <- app_assoc. apply andb_prop in Hmode. destruct Hmode as [Hpieces Hal].
      apply (trie_multi_correct (snap_acc L) _ (tag_fuel (t_ctors L)) _ (c_tag c) c [] cks Htrie HinT env w
               (b0 ++ tb) (r0 ++ tr) fuel (need_ctor (need_type st d) c)); try assumption.
      + constructor.
      + cbn [List.length]. lia.
      + reflexivity.
      + right. cbn [List.length]. rewrite Nat.sub_0_r. exact Hal.
      + lia.
      + lia.
    - (* the tag is the beginning of the encoding of the type the constructor stands for *)
      cbn [app].
      assert (Hpre : exists rest, b0 = c_tag c ++ rest).
      { unfold peek_ok in Hpeek. rewrite Hm in Hpeek. rewrite forallb_forall in Hpeek.
        specialize (Hpeek c Hin). unfold peek_ctor_ok in Hpeek.
        destruct (c_items c) as [|[nm f| | | | | | |] [|it r]] eqn:Hits; try discriminate;
          try (destruct f; discriminate).
        destruct f as [ | | | | | | | | | | | | | | | | |T a| | | | | | | | | | ]; try discriminate.
        destruct (slookup st T a) as [L'|] eqn:HL'; [|discriminate].
        apply andb_prop in Hpeek. destruct Hpeek as [Hnp Hall].
        cbn [enc_items enc_item enc_field] in Hinner.
        destruct (enc_type ch st d T a (ctor_look c v nm)) as [[b1 r1]|e] eqn:He; cbn [bind] in Hinner; [|discriminate].
        inversion Hinner; subst b0 r0. clear Hinner. rewrite app_nil_r.
        destruct d as [|d']; cbn [enc_type] in He; [discriminate|]. rewrite HL' in He.
        assert (Hmode' : match t_mode L' with TagPeek => False | _ => True end)
          by (destruct (t_mode L'); try exact I; discriminate).
        destruct (enc_layout_tag (enc_type ch st d') (rest_type ch st) L' _ b1 r1 Hmode' He)
          as (c' & Hin' & rest & Hb1).
        rewrite forallb_forall in Hall. specialize (Hall c' Hin'). apply list_beq_eq in Hall.
        exists (skipn (List.length (c_tag c)) (c_tag c') ++ rest).
        rewrite Hb1. rewrite app_assoc. f_equal.
        rewrite <- (firstn_skipn (List.length (c_tag c)) (c_tag c')) at 1. rewrite Hall. reflexivity. }
      destruct Hpre as (rest & Hb0).
      rewrite Hb0 in Hbody |- *. rewrite <- app_assoc in Hbody |- *.
      apply (peek_list_correct (snap_acc L) (t_ctors L) c (tag_fuel (t_ctors L)) Htrie Hin) with
        (needc := need_ctor (need_type st d) c); try assumption.
      + apply Forall_forall. intros c' Hin'. pose proof (tag_fuel_bound _ _ Hin'). lia.
      + lia.
  Qed.

  Lemma layout_correct L v cx bits refs :
    wf_layout L = true -> peek_ok st L = true ->
    wt_layout ch (wt_type ch st d) (enc_type ch st d) (rest_type ch st) L cx v ->
    enc_layout ch (enc_type ch st d) (rest_type ch st) L v = Ok (bits, refs) ->
    forall fuel tb tr, ctx_ok cx tb tr -> need_layout (need_type st d) L <= fuel ->
      finishes (compile L) [(0, ord (mkS (bits ++ tb) (refs ++ tr)))] [] [] fuel v (ord (mkS tb tr)).
  Proof.
    unfold wt_layout, need_layout.
    intros Hwf Hpeek Hwt Henc fuel tb tr Hctx Hfuel.
    pose proof Henc as Henc0. unfold enc_layout in Henc.
    destruct (find (fun c => ctor_matches ch c v) (t_ctors L)) as [c|] eqn:Hfind; [|contradiction].
    apply find_some in Hfind. destruct Hfind as [Hin Hmatch]. destruct Hwt as [Hwt Hsnap].
    unfold enc_ctor in Henc.
    destruct (ENCIS (ctor_look c v) (c_items c)) as [[b0 r0]|e] eqn:Hinner; cbn [bind] in Henc; [|discriminate].
    inversion Henc; subst bits refs; clear Henc.
    set (cell0 := Cell ty_ordinary ((own_tag (t_mode L) c ++ b0) ++ tb) (r0 ++ tr)).
    (* the tag and the constructor, with or without the snapshot variable *)
    assert (Htag : forall env w rf, List.length w = List.length env -> List.length env = snap_n L ->
                     snap_bound (t_snap L) v env ->
                     need_tag L + fold_right (fun c m => Nat.max (need_ctor (need_type st d) c) m) 0 (t_ctors L) <= rf ->
                     finishes (compile_tag L) [(0, ord (mkS ((own_tag (t_mode L) c ++ b0) ++ tb) (r0 ++ tr)))]
                              env w rf v (ord (mkS tb tr))).
    { intros env w rf Hw Hlen Hsb Hrf.
      exact (tag_correct L c v cx b0 r0 Hwf Hpeek Hin Hmatch Hwt Hinner env w tb tr rf Hctx Hw Hlen Hsb Hrf). }
    (* the test of the cell type *)
    assert (Hbody : forall env w rf, List.length w = List.length env -> List.length env = snap_n L ->
                      snap_bound (t_snap L) v env ->
                      need_tag L + fold_right (fun c m => Nat.max (need_ctor (need_type st d) c) m) 0 (t_ctors L)
                      + match t_special L with SpNo => 0 | _ => 1 end <= rf ->
                      finishes (match t_special L with
                                | SpNo => compile_tag L
                                | SpNone => DIfSpecial 0 (compile_tag L) (DRet ENone)
                                | SpCell => DIfSpecial 0 (compile_tag L) (DOp 0 OToCell (DRet (EVar (snap_n L))))
                                end)
                               [(0, ord (mkS ((own_tag (t_mode L) c ++ b0) ++ tb) (r0 ++ tr)))]
                               env w rf v (ord (mkS tb tr))).
    { intros env w rf Hw Hlen Hsb Hrf.
      destruct (t_special L).
      - apply Htag; try assumption. lia.
      - destruct (Htag env w (rf - 1) Hw Hlen Hsb) as (ss' & Hrun & Hget); [lia|].
        exists ss'. split; [|exact Hget].
        rewrite (run_ifspecial_ord tbl rf 0 _ _ [(0, ord (mkS ((own_tag (t_mode L) c ++ b0) ++ tb) (r0 ++ tr)))]
                   env w (mkS ((own_tag (t_mode L) c ++ b0) ++ tb) (r0 ++ tr)) ltac:(lia) eq_refl).
        exact Hrun.
      - destruct (Htag env w (rf - 1) Hw Hlen Hsb) as (ss' & Hrun & Hget); [lia|].
        exists ss'. split; [|exact Hget].
        rewrite (run_ifspecial_ord tbl rf 0 _ _ [(0, ord (mkS ((own_tag (t_mode L) c ++ b0) ++ tb) (r0 ++ tr)))]
                   env w (mkS ((own_tag (t_mode L) c ++ b0) ++ tb) (r0 ++ tr)) ltac:(lia) eq_refl).
        exact Hrun. }
    unfold compile. unfold snap_ok in Hsnap. unfold snap_n in *.
    destruct (t_snap L) as [snm|] eqn:Hsn.
    - (* the snapshot is taken first *)
      destruct cx as [[tb' tr']|]; [|contradiction]. cbn [ctx_ok] in Hctx. inversion Hctx; subst tb' tr'.
      rewrite Henc0 in Hsnap.
      destruct (Hbody [PCell cell0] [1] (fuel - 1) eq_refl eq_refl) as (ss' & Hrun & Hget).
      { cbn [snap_bound nth List.length]. split; [symmetry; exact Hsnap|lia]. }
      { lia. }
      exists ss'. split; [|exact Hget].
      rewrite (run_tocell tbl fuel 0 _ [(0, ord (mkS ((own_tag (t_mode L) c ++ b0) ++ tb) (r0 ++ tr)))] [] []
                 (ord (mkS ((own_tag (t_mode L) c ++ b0) ++ tb) (r0 ++ tr))) ltac:(lia) eq_refl).
      exact Hrun.
    - apply (Hbody [] [] fuel eq_refl eq_refl I). lia.
  Qed.
End Correct.

(* ------------------------------------------------------------------------------------------------ *)
(* The generic theorem                                                                               *)
(* ------------------------------------------------------------------------------------------------ *)

(* the decision-tree table implements the layout table *)
Definition agree (tbl : table) (st : stable) : Prop :=
  forall T a L, slookup st T a = Some L -> lookup tbl T a = Some (compile L).

Lemma slookup_in st : forall T a L, slookup st T a = Some L -> exists T' a', In (T', a', L) st.
Proof.
  induction st as [|[[T' a'] L'] r IH]; intros T a L H; cbn [slookup] in H; [discriminate|].
  destruct (_ && _)%bool.
  - inversion H; subst. exists T', a'. left. reflexivity.
  - destruct (IH _ _ _ H) as (T1 & a1 & Hin). exists T1, a1. right. exact Hin.
Qed.

Lemma wf_table_lookup st T a L : wf_table st = true -> slookup st T a = Some L ->
  wf_layout L = true /\ peek_ok st L = true.
Proof.
  unfold wf_table. intros Hwf Hl. destruct (slookup_in _ _ _ _ Hl) as (T' & a' & Hin).
  rewrite forallb_forall in Hwf. specialize (Hwf _ Hin). cbn beta iota in Hwf.
  apply andb_prop in Hwf. exact Hwf.
Qed.

Theorem types_correct tbl st ch : wf_table st = true -> agree tbl st -> forall d, ty_ok tbl st ch d.
Proof.
  intros Hwf Hagree. induction d as [|d IH]; intros T a c x bits refs Hwt Henc; [contradiction|].
  cbn [wt_type enc_type] in Hwt, Henc.
  destruct (slookup st T a) as [L|] eqn:Hl; [|contradiction].
  exists (compile L). split; [apply Hagree; exact Hl|].
  intros fuel tb tr Hctx Hfuel. cbn [need_type] in Hfuel. rewrite Hl in Hfuel.
  destruct (wf_table_lookup _ _ _ _ Hwf Hl) as [HwfL HpkL].
  apply (layout_correct tbl st ch d IH L x c bits refs HwfL HpkL Hwt Henc fuel tb tr Hctx Hfuel).
Qed.

(* compile_correct: for every layout L of a well-formed table whose compiled trees the table tbl holds,
   every choice ch of the alternatives of the Either fields, every value v well typed for a tail cx (nothing
   known of it, or exactly tb/tr), in an ordinary cell: running compile L on the encoding of v followed by
   tb/tr returns v and leaves exactly tb/tr in the slice. *)
Theorem compile_correct tbl st ch d L v cx bits refs :
  forall (Hwf_table : wf_table st = true) (Hagree : agree tbl st) (Hwf_layout : wf_layout L = true)
         (Hpeek : peek_ok st L = true)
         (Hwt : wt_layout ch (wt_type ch st d) (enc_type ch st d) (rest_type ch st) L cx v)
         (Henc : enc_layout ch (enc_type ch st d) (rest_type ch st) L v = Ok (bits, refs)),
  forall fuel tb tr, ctx_ok cx tb tr -> need_layout (need_type st d) L <= fuel ->
    exists ss', run tbl fuel (compile L) [(0, mkTS ty_ordinary (mkS (bits ++ tb) (refs ++ tr)))] [] [] = Ok (v, ss')
                /\ get_slice ss' 0 = Ok (mkTS ty_ordinary (mkS tb tr)).
Proof.
  intros Hwf_table Hagree Hwf_layout Hpeek Hwt Henc fuel tb tr Hctx Hfuel.
  exact (layout_correct tbl st ch d (types_correct tbl st ch Hwf_table Hagree d) L v cx bits refs Hwf_layout Hpeek
           Hwt Henc fuel tb tr Hctx Hfuel).
Qed.

(* the same for the entry point run_type *)
Theorem run_type_correct tbl st ch T a L v cx bits refs :
  forall (Hwf_table : wf_table st = true) (Hagree : agree tbl st) (Hwf_layout : wf_layout L = true)
         (Hpeek : peek_ok st L = true)
         (Hlookup : lookup tbl T a = Some (compile L))
         (Hwt : wt_in ch st L cx v) (Henc : encode_ch ch st L v = Ok (bits, refs)),
  forall fuel tb tr, ctx_ok cx tb tr -> need st L <= fuel ->
    run_type tbl fuel T a (Cell ty_ordinary (bits ++ tb) (refs ++ tr)) = Ok (v, mkS tb tr).
Proof.
  unfold wt_in, encode_ch, need. intros Hwf_table Hagree Hwf_layout Hpeek Hlookup Hwt Henc fuel tb tr Hctx Hfuel.
  destruct (compile_correct tbl st ch tdepth L v cx bits refs Hwf_table Hagree Hwf_layout Hpeek Hwt Henc fuel tb tr
              Hctx Hfuel) as (ss' & Hrun & Hget).
  unfold run_type. rewrite Hlookup. cbn [cell_slice]. rewrite Hrun. cbn [bind]. rewrite Hget. reflexivity.
Qed.
(* ------------------------------------------------------------------------------------------------ *)
(* What the library does (Gen/TlbImpl.v) IS the compilation of what block.tlb says (Spec/BlockTlb.v)  *)
(* ------------------------------------------------------------------------------------------------ *)
From PTQ Require Import Gen.TlbImpl Spec.BlockTlb.

Lemma zlist_eq : forall a b : list Z, List.length a = List.length b ->
  forallb (fun p => Z.eqb (fst p) (snd p)) (combine a b) = true -> a = b.
Proof.
  induction a as [|x a IH]; intros [|y b] Hlen H; cbn [List.length] in Hlen; try discriminate; [reflexivity|].
  cbn [combine forallb fst snd] in H. apply andb_prop in H. destruct H as [H1 H2].
  apply Z.eqb_eq in H1. subst y. f_equal. apply IH; [lia|exact H2].
Qed.

Lemma agree_of_Forall tbl st :
  Forall (fun e => lookup tbl (fst (fst e)) (snd (fst e)) = Some (compile (snd e))) st -> agree tbl st.
Proof.
  induction 1 as [|[[T' a'] L'] r Hhd Htl IH]; intros T a L Hl; cbn [slookup] in Hl; [discriminate|].
  destruct ((T' =? T)%string && (List.length a' =? List.length a) &&
            forallb (fun p => Z.eqb (fst p) (snd p)) (combine a' a))%bool eqn:E.
  - inversion Hl; subst L'. apply andb_prop in E. destruct E as [E E3]. apply andb_prop in E.
    destruct E as [E1 E2]. apply String.eqb_eq in E1. apply Nat.eqb_eq in E2.
    pose proof (zlist_eq _ _ E2 E3). subst. exact Hhd.
  - apply IH. exact Hl.
Qed.

(* one computational check per type: the tree traced from the library's deserialize method is, node for
   node, the compilation of the layout transcribed from block.tlb *)
Lemma impl_AccStatusChange_is_spec : impl_AccStatusChange = compile spec_AccStatusChange.
Proof. vm_compute. reflexivity. Qed.
Lemma impl_AccountStatus_is_spec : impl_AccountStatus = compile spec_AccountStatus.
Proof. vm_compute. reflexivity. Qed.
Lemma impl_ComputeSkipReason_is_spec : impl_ComputeSkipReason = compile spec_ComputeSkipReason.
Proof. vm_compute. reflexivity. Qed.
Lemma impl_TickTock_is_spec : impl_TickTock = compile spec_TickTock.
Proof. vm_compute. reflexivity. Qed.
Lemma impl_ExtraCurrencyCollection_is_spec : impl_ExtraCurrencyCollection = compile spec_ExtraCurrencyCollection.
Proof. vm_compute. reflexivity. Qed.
Lemma impl_CurrencyCollection_is_spec : impl_CurrencyCollection = compile spec_CurrencyCollection.
Proof. vm_compute. reflexivity. Qed.
Lemma impl_StorageUsed_is_spec : impl_StorageUsed = compile spec_StorageUsed.
Proof. vm_compute. reflexivity. Qed.
Lemma impl_StorageUsedShort_is_spec : impl_StorageUsedShort = compile spec_StorageUsedShort.
Proof. vm_compute. reflexivity. Qed.
Lemma impl_StorageInfo_is_spec : impl_StorageInfo = compile spec_StorageInfo.
Proof. vm_compute. reflexivity. Qed.
Lemma impl_TrStoragePhase_is_spec : impl_TrStoragePhase = compile spec_TrStoragePhase.
Proof. vm_compute. reflexivity. Qed.
Lemma impl_TrCreditPhase_is_spec : impl_TrCreditPhase = compile spec_TrCreditPhase.
Proof. vm_compute. reflexivity. Qed.
Lemma impl_TrComputePhase_is_spec : impl_TrComputePhase = compile spec_TrComputePhase.
Proof. vm_compute. reflexivity. Qed.
Lemma impl_TrBouncePhase_is_spec : impl_TrBouncePhase = compile spec_TrBouncePhase.
Proof. vm_compute. reflexivity. Qed.
Lemma impl_TrActionPhase_is_spec : impl_TrActionPhase = compile spec_TrActionPhase.
Proof. vm_compute. reflexivity. Qed.
Lemma impl_ExtBlkRef_is_spec : impl_ExtBlkRef = compile spec_ExtBlkRef.
Proof. vm_compute. reflexivity. Qed.
Lemma impl_BlkMasterInfo_is_spec : impl_BlkMasterInfo = compile spec_BlkMasterInfo.
Proof. vm_compute. reflexivity. Qed.
Lemma impl_GlobalVersion_is_spec : impl_GlobalVersion = compile spec_GlobalVersion.
Proof. vm_compute. reflexivity. Qed.
Lemma impl_ShardIdent_is_spec : impl_ShardIdent = compile spec_ShardIdent.
Proof. vm_compute. reflexivity. Qed.
Lemma impl_FutureSplitMerge_is_spec : impl_FutureSplitMerge = compile spec_FutureSplitMerge.
Proof. vm_compute. reflexivity. Qed.
Lemma impl_SplitMergeInfo_is_spec : impl_SplitMergeInfo = compile spec_SplitMergeInfo.
Proof. vm_compute. reflexivity. Qed.
Lemma impl_HashUpdate_is_spec : impl_HashUpdate = compile spec_HashUpdate.
Proof. vm_compute. reflexivity. Qed.
Lemma impl_IntermediateAddress_is_spec : impl_IntermediateAddress = compile spec_IntermediateAddress.
Proof. vm_compute. reflexivity. Qed.
Lemma impl_MsgMetadata_is_spec : impl_MsgMetadata = compile spec_MsgMetadata.
Proof. vm_compute. reflexivity. Qed.
Lemma impl_InternalMsgInfo_is_spec : impl_InternalMsgInfo = compile spec_InternalMsgInfo.
Proof. vm_compute. reflexivity. Qed.
Lemma impl_ExternalMsgInfo_is_spec : impl_ExternalMsgInfo = compile spec_ExternalMsgInfo.
Proof. vm_compute. reflexivity. Qed.
Lemma impl_ExternalOutMsgInfo_is_spec : impl_ExternalOutMsgInfo = compile spec_ExternalOutMsgInfo.
Proof. vm_compute. reflexivity. Qed.
Lemma impl_StateInit_is_spec : impl_StateInit = compile spec_StateInit.
Proof. vm_compute. reflexivity. Qed.
Lemma impl_SigPubKey_is_spec : impl_SigPubKey = compile spec_SigPubKey.
Proof. vm_compute. reflexivity. Qed.
Lemma impl_CatchainConfig_is_spec : impl_CatchainConfig = compile spec_CatchainConfig.
Proof. vm_compute. reflexivity. Qed.
Lemma impl_ValidatorDescr_is_spec : impl_ValidatorDescr = compile spec_ValidatorDescr.
Proof. vm_compute. reflexivity. Qed.
Lemma impl_TransactionOrdinary_is_spec : impl_TransactionOrdinary = compile spec_TransactionOrdinary.
Proof. vm_compute. reflexivity. Qed.
Lemma impl_TransactionStorage_is_spec : impl_TransactionStorage = compile spec_TransactionStorage.
Proof. vm_compute. reflexivity. Qed.
Lemma impl_TransactionTickTock_is_spec : impl_TransactionTickTock = compile spec_TransactionTickTock.
Proof. vm_compute. reflexivity. Qed.
Lemma impl_TransactionSplitPrepare_is_spec : impl_TransactionSplitPrepare = compile spec_TransactionSplitPrepare.
Proof. vm_compute. reflexivity. Qed.
Lemma impl_TransactionSplitInstall_is_spec : impl_TransactionSplitInstall = compile spec_TransactionSplitInstall.
Proof. vm_compute. reflexivity. Qed.
Lemma impl_TransactionMergePrepare_is_spec : impl_TransactionMergePrepare = compile spec_TransactionMergePrepare.
Proof. vm_compute. reflexivity. Qed.
Lemma impl_TransactionMergeInstall_is_spec : impl_TransactionMergeInstall = compile spec_TransactionMergeInstall.
Proof. vm_compute. reflexivity. Qed.
Lemma impl_AccountState_is_spec : impl_AccountState = compile spec_AccountState.
Proof. vm_compute. reflexivity. Qed.
Lemma impl_AccountStorage_is_spec : impl_AccountStorage = compile spec_AccountStorage.
Proof. vm_compute. reflexivity. Qed.
Lemma impl_Account_is_spec : impl_Account = compile spec_Account.
Proof. vm_compute. reflexivity. Qed.
Lemma impl_DepthBalanceInfo_is_spec : impl_DepthBalanceInfo = compile spec_DepthBalanceInfo.
Proof. vm_compute. reflexivity. Qed.
Lemma impl_ImportFees_is_spec : impl_ImportFees = compile spec_ImportFees.
Proof. vm_compute. reflexivity. Qed.
Lemma impl_LibRef_is_spec : impl_LibRef = compile spec_LibRef.
Proof. vm_compute. reflexivity. Qed.
Lemma impl_MsgEnvelope_is_spec : impl_MsgEnvelope = compile spec_MsgEnvelope.
Proof. vm_compute. reflexivity. Qed.
Lemma impl_ValidatorInfo_is_spec : impl_ValidatorInfo = compile spec_ValidatorInfo.
Proof. vm_compute. reflexivity. Qed.
Lemma impl_KeyMaxLt_is_spec : impl_KeyMaxLt = compile spec_KeyMaxLt.
Proof. vm_compute. reflexivity. Qed.
Lemma impl_KeyExtBlkRef_is_spec : impl_KeyExtBlkRef = compile spec_KeyExtBlkRef.
Proof. vm_compute. reflexivity. Qed.
Lemma impl_Counters_is_spec : impl_Counters = compile spec_Counters.
Proof. vm_compute. reflexivity. Qed.
Lemma impl_CreatorStats_is_spec : impl_CreatorStats = compile spec_CreatorStats.
Proof. vm_compute. reflexivity. Qed.
Lemma impl_ConfigParam6_is_spec : impl_ConfigParam6 = compile spec_ConfigParam6.
Proof. vm_compute. reflexivity. Qed.
Lemma impl_ConfigParam7_is_spec : impl_ConfigParam7 = compile spec_ConfigParam7.
Proof. vm_compute. reflexivity. Qed.
Lemma impl_ConfigProposalSetup_is_spec : impl_ConfigProposalSetup = compile spec_ConfigProposalSetup.
Proof. vm_compute. reflexivity. Qed.
Lemma impl_ConfigVotingSetup_is_spec : impl_ConfigVotingSetup = compile spec_ConfigVotingSetup.
Proof. vm_compute. reflexivity. Qed.
Lemma impl_WcSplitMergeTimings_is_spec : impl_WcSplitMergeTimings = compile spec_WcSplitMergeTimings.
Proof. vm_compute. reflexivity. Qed.
Lemma impl_ComplaintPricing_is_spec : impl_ComplaintPricing = compile spec_ComplaintPricing.
Proof. vm_compute. reflexivity. Qed.
Lemma impl_BlockCreateFees_is_spec : impl_BlockCreateFees = compile spec_BlockCreateFees.
Proof. vm_compute. reflexivity. Qed.
Lemma impl_ConfigParam15_is_spec : impl_ConfigParam15 = compile spec_ConfigParam15.
Proof. vm_compute. reflexivity. Qed.
Lemma impl_ConfigParam17_is_spec : impl_ConfigParam17 = compile spec_ConfigParam17.
Proof. vm_compute. reflexivity. Qed.
Lemma impl_StoragePrices_is_spec : impl_StoragePrices = compile spec_StoragePrices.
Proof. vm_compute. reflexivity. Qed.
Lemma impl_BlockLimits_is_spec : impl_BlockLimits = compile spec_BlockLimits.
Proof. vm_compute. reflexivity. Qed.
Lemma impl_MsgForwardPrices_is_spec : impl_MsgForwardPrices = compile spec_MsgForwardPrices.
Proof. vm_compute. reflexivity. Qed.
Lemma impl_ConfigParam32_is_spec : impl_ConfigParam32 = compile spec_ConfigParam32.
Proof. vm_compute. reflexivity. Qed.
Lemma impl_ConfigParam33_is_spec : impl_ConfigParam33 = compile spec_ConfigParam33.
Proof. vm_compute. reflexivity. Qed.
Lemma impl_ConfigParam34_is_spec : impl_ConfigParam34 = compile spec_ConfigParam34.
Proof. vm_compute. reflexivity. Qed.
Lemma impl_ConfigParam35_is_spec : impl_ConfigParam35 = compile spec_ConfigParam35.
Proof. vm_compute. reflexivity. Qed.
Lemma impl_ConfigParam36_is_spec : impl_ConfigParam36 = compile spec_ConfigParam36.
Proof. vm_compute. reflexivity. Qed.
Lemma impl_ConfigParam37_is_spec : impl_ConfigParam37 = compile spec_ConfigParam37.
Proof. vm_compute. reflexivity. Qed.
Lemma impl_JettonBridgePrices_is_spec : impl_JettonBridgePrices = compile spec_JettonBridgePrices.
Proof. vm_compute. reflexivity. Qed.
Lemma impl_ParamLimits_is_spec : impl_ParamLimits = compile spec_ParamLimits.
Proof. vm_compute. reflexivity. Qed.
Lemma impl_ConfigParam16_is_spec : impl_ConfigParam16 = compile spec_ConfigParam16.
Proof. vm_compute. reflexivity. Qed.
Lemma impl_ConfigParam0_is_spec : impl_ConfigParam0 = compile spec_ConfigParam0.
Proof. vm_compute. reflexivity. Qed.
Lemma impl_ConfigParam1_is_spec : impl_ConfigParam1 = compile spec_ConfigParam1.
Proof. vm_compute. reflexivity. Qed.
Lemma impl_ConfigParam2_is_spec : impl_ConfigParam2 = compile spec_ConfigParam2.
Proof. vm_compute. reflexivity. Qed.
Lemma impl_ConfigParam3_is_spec : impl_ConfigParam3 = compile spec_ConfigParam3.
Proof. vm_compute. reflexivity. Qed.
Lemma impl_ConfigParam4_is_spec : impl_ConfigParam4 = compile spec_ConfigParam4.
Proof. vm_compute. reflexivity. Qed.
Lemma impl_ConfigParam8_is_spec : impl_ConfigParam8 = compile spec_ConfigParam8.
Proof. vm_compute. reflexivity. Qed.
Lemma impl_ConfigParam11_is_spec : impl_ConfigParam11 = compile spec_ConfigParam11.
Proof. vm_compute. reflexivity. Qed.
Lemma impl_ConfigParam12_is_spec : impl_ConfigParam12 = compile spec_ConfigParam12.
Proof. vm_compute. reflexivity. Qed.
Lemma impl_ConfigParam13_is_spec : impl_ConfigParam13 = compile spec_ConfigParam13.
Proof. vm_compute. reflexivity. Qed.
Lemma impl_ConfigParam14_is_spec : impl_ConfigParam14 = compile spec_ConfigParam14.
Proof. vm_compute. reflexivity. Qed.
Lemma impl_ConfigParam22_is_spec : impl_ConfigParam22 = compile spec_ConfigParam22.
Proof. vm_compute. reflexivity. Qed.
Lemma impl_ConfigParam23_is_spec : impl_ConfigParam23 = compile spec_ConfigParam23.
Proof. vm_compute. reflexivity. Qed.
Lemma impl_ConfigParam24_is_spec : impl_ConfigParam24 = compile spec_ConfigParam24.
Proof. vm_compute. reflexivity. Qed.
Lemma impl_ConfigParam25_is_spec : impl_ConfigParam25 = compile spec_ConfigParam25.
Proof. vm_compute. reflexivity. Qed.
Lemma impl_ConfigParam28_is_spec : impl_ConfigParam28 = compile spec_ConfigParam28.
Proof. vm_compute. reflexivity. Qed.
Lemma impl_ConfigParam31_is_spec : impl_ConfigParam31 = compile spec_ConfigParam31.
Proof. vm_compute. reflexivity. Qed.
Lemma impl_ConfigParam44_is_spec : impl_ConfigParam44 = compile spec_ConfigParam44.
Proof. vm_compute. reflexivity. Qed.
Lemma impl_ConfigParam71_is_spec : impl_ConfigParam71 = compile spec_ConfigParam71.
Proof. vm_compute. reflexivity. Qed.
Lemma impl_ConfigParam72_is_spec : impl_ConfigParam72 = compile spec_ConfigParam72.
Proof. vm_compute. reflexivity. Qed.
Lemma impl_ConfigParam73_is_spec : impl_ConfigParam73 = compile spec_ConfigParam73.
Proof. vm_compute. reflexivity. Qed.
Lemma impl_SuspendedAddressList_is_spec : impl_SuspendedAddressList = compile spec_SuspendedAddressList.
Proof. vm_compute. reflexivity. Qed.
Lemma impl_OracleBridgeParams_is_spec : impl_OracleBridgeParams = compile spec_OracleBridgeParams.
Proof. vm_compute. reflexivity. Qed.
Lemma impl_WalletV3Data_is_spec : impl_WalletV3Data = compile spec_WalletV3Data.
Proof. vm_compute. reflexivity. Qed.
Lemma impl_WalletV4Data_is_spec : impl_WalletV4Data = compile spec_WalletV4Data.
Proof. vm_compute. reflexivity. Qed.
Lemma impl_HighloadWalletData_is_spec : impl_HighloadWalletData = compile spec_HighloadWalletData.
Proof. vm_compute. reflexivity. Qed.
Lemma impl_NftItemData_is_spec : impl_NftItemData = compile spec_NftItemData.
Proof. vm_compute. reflexivity. Qed.
Lemma impl_NftItemSaleFees_is_spec : impl_NftItemSaleFees = compile spec_NftItemSaleFees.
Proof. vm_compute. reflexivity. Qed.
Lemma impl_NftItemSaleData_is_spec : impl_NftItemSaleData = compile spec_NftItemSaleData.
Proof. vm_compute. reflexivity. Qed.
Lemma impl_ShardAccount_is_spec : impl_ShardAccount = compile spec_ShardAccount.
Proof. vm_compute. reflexivity. Qed.
Lemma impl_ValidatorSet_is_spec : impl_ValidatorSet = compile spec_ValidatorSet.
Proof. vm_compute. reflexivity. Qed.
Lemma impl_TransactionDescr_is_spec : impl_TransactionDescr = compile spec_TransactionDescr.
Proof. vm_compute. reflexivity. Qed.
Lemma impl_CommonMsgInfo_is_spec : impl_CommonMsgInfo = compile spec_CommonMsgInfo.
Proof. vm_compute. reflexivity. Qed.
Lemma impl_MessageAny_is_spec : impl_MessageAny = compile spec_MessageAny.
Proof. vm_compute. reflexivity. Qed.
Lemma impl_Transaction_is_spec : impl_Transaction = compile spec_Transaction.
Proof. vm_compute. reflexivity. Qed.
Lemma impl_InMsg_is_spec : impl_InMsg = compile spec_InMsg.
Proof. vm_compute. reflexivity. Qed.
Lemma impl_ValueFlow_is_spec : impl_ValueFlow = compile spec_ValueFlow.
Proof. vm_compute. reflexivity. Qed.
Lemma impl_AccountBlock_is_spec : impl_AccountBlock = compile spec_AccountBlock.
Proof. vm_compute. reflexivity. Qed.
Lemma impl_BlkPrevInfo_0_is_spec : impl_BlkPrevInfo_0 = compile spec_BlkPrevInfo_0.
Proof. vm_compute. reflexivity. Qed.
Lemma impl_BlkPrevInfo_1_is_spec : impl_BlkPrevInfo_1 = compile spec_BlkPrevInfo_1.
Proof. vm_compute. reflexivity. Qed.
Lemma impl_BlockInfo_is_spec : impl_BlockInfo = compile spec_BlockInfo.
Proof. vm_compute. reflexivity. Qed.
Lemma impl_ShardDescr_is_spec : impl_ShardDescr = compile spec_ShardDescr.
Proof. vm_compute. reflexivity. Qed.
Lemma impl_OutMsg_is_spec : impl_OutMsg = compile spec_OutMsg.
Proof. vm_compute. reflexivity. Qed.
(* tree equality only (not in spec_table: no value of a HashmapAugE field is well typed, see Spec/BlockTlb.v) *)
Lemma impl_ShardAccounts_is_spec : impl_ShardAccounts = compile spec_ShardAccounts.
Proof. vm_compute. reflexivity. Qed.

(* FINDINGS: layouts of Spec/BlockTlb.v whose tree differs *)
(* WorkchainFormat.deserialize accepts the tag #0 for wfmt_basic#1 and the tag #1 for wfmt_ext#0 *)
Lemma impl_WorkchainFormat_1_differs : impl_WorkchainFormat_1 <> compile spec_WorkchainFormat_1.
Proof. vm_compute. discriminate. Qed.
Lemma impl_WorkchainFormat_0_differs : impl_WorkchainFormat_0 <> compile spec_WorkchainFormat_0.
Proof. vm_compute. discriminate. Qed.
(* JettonBridgeParams.deserialize does not read external_chain_address:bits256 of jetton_bridge_params_v1 *)
Lemma impl_JettonBridgeParams_differs : impl_JettonBridgeParams <> compile spec_JettonBridgeParams.
Proof. vm_compute. intros H. inversion H. Qed.
(* ... and so do the classes that inherit its deserialize *)
Lemma impl_ConfigParam79_differs : impl_ConfigParam79 <> compile spec_ConfigParam79.
Proof. vm_compute. intros H. inversion H. Qed.
Lemma impl_ConfigParam81_differs : impl_ConfigParam81 <> compile spec_ConfigParam81.
Proof. vm_compute. intros H. inversion H. Qed.
Lemma impl_ConfigParam82_differs : impl_ConfigParam82 <> compile spec_ConfigParam82.
Proof. vm_compute. intros H. inversion H. Qed.

Lemma spec_table_wf : wf_table spec_table = true.
Proof. vm_compute. reflexivity. Qed.

Theorem impl_agree : agree impl_table spec_table.
Proof.
  apply agree_of_Forall. unfold spec_table.
  repeat (apply Forall_cons; [cbn [fst snd]; vm_compute; reflexivity|]). apply Forall_nil.
Qed.

(* C16 for one type of the table: the library's parser, run on the encoding of any well-typed value
   followed by anything, returns the value and leaves exactly what followed.
   ch: how the alternatives of the Either fields are chosen; cx: what the value knows of what follows it
   (None, or exactly tb/tr: a value with an inline Any body or a snapshot of its cell) *)
Theorem C16_generic_ch T L N :
  forall (Hlookup : slookup spec_table T [] = Some L)
         (Hneed : (need spec_table L <=? N) = true),
  forall ch cx v tb tr bits refs fuel,
    wt_in ch spec_table L cx v -> encode_ch ch spec_table L v = Ok (bits, refs) -> ctx_ok cx tb tr -> N <= fuel ->
    run_type impl_table fuel T [] (Cell (-1) (bits ++ tb) (refs ++ tr)) = Ok (v, mkS tb tr).
Proof.
  intros Hlookup Hneed ch cx v tb tr bits refs fuel Hwt Henc Hctx Hfuel. apply Nat.leb_le in Hneed.
  destruct (wf_table_lookup _ _ _ _ spec_table_wf Hlookup) as [HwfL HpkL].
  apply (run_type_correct impl_table spec_table ch T [] L v cx bits refs spec_table_wf impl_agree
           HwfL HpkL (impl_agree _ _ _ Hlookup) Hwt Henc); [exact Hctx|lia].
Qed.

(* the same for a parametrised type (T a) *)
Theorem C16_generic_args T a L N :
  forall (Hlookup : slookup spec_table T a = Some L)
         (Hneed : (need spec_table L <=? N) = true),
  forall ch cx v tb tr bits refs fuel,
    wt_in ch spec_table L cx v -> encode_ch ch spec_table L v = Ok (bits, refs) -> ctx_ok cx tb tr -> N <= fuel ->
    run_type impl_table fuel T a (Cell (-1) (bits ++ tb) (refs ++ tr)) = Ok (v, mkS tb tr).
Proof.
  intros Hlookup Hneed ch cx v tb tr bits refs fuel Hwt Henc Hctx Hfuel. apply Nat.leb_le in Hneed.
  destruct (wf_table_lookup _ _ _ _ spec_table_wf Hlookup) as [HwfL HpkL].
  apply (run_type_correct impl_table spec_table ch T a L v cx bits refs spec_table_wf impl_agree
           HwfL HpkL (impl_agree _ _ _ Hlookup) Hwt Henc); [exact Hctx|lia].
Qed.

(* the types without Either fields, inline Any bodies or snapshots: no choice, any tail *)
Theorem C16_generic T L N :
  forall (Hlookup : slookup spec_table T [] = Some L)
         (Hneed : (need spec_table L <=? N) = true),
  forall v tb tr bits refs fuel,
    wt spec_table L v -> encode spec_table L v = Ok (bits, refs) -> N <= fuel ->
    run_type impl_table fuel T [] (Cell (-1) (bits ++ tb) (refs ++ tr)) = Ok (v, mkS tb tr).
Proof.
  intros Hlookup Hneed v tb tr bits refs fuel Hwt Henc Hfuel.
  exact (C16_generic_ch T L N Hlookup Hneed ch_ref None v tb tr bits refs fuel Hwt Henc I Hfuel).
Qed.

(* a value with a snapshot attribute holds, under it, the very cell it is parsed from *)
Lemma wt_snapshot ch st L tb tr v nm bits refs :
  t_snap L = Some nm -> wt_in ch st L (Some (tb, tr)) v -> encode_ch ch st L v = Ok (bits, refs) ->
  field_of v nm = PCell (Cell ty_ordinary (bits ++ tb) (refs ++ tr)).
Proof.
  unfold wt_in, encode_ch, wt_layout, snap_ok. intros Hsn Hwt Henc.
  destruct (find (fun c => ctor_matches ch c v) (t_ctors L)); [|contradiction].
  destruct Hwt as [_ Hs]. rewrite Hsn in Hs. rewrite Henc in Hs. exact Hs.
Qed.

(* ---- exotic cells: what the layouts with an exotic-cell test return, whatever the cell holds ---- *)
Lemma compile_exotic tbl L ty bits refs fuel : ty <> ty_ordinary -> 4 <= fuel ->
  match t_special L with
  | SpNo => True
  | SpNone =>
      run tbl fuel (compile L) [(0, mkTS ty (mkS bits refs))] [] [] = Ok (PNone, [(0, mkTS ty (mkS bits refs))])
  | SpCell =>
      run tbl fuel (compile L) [(0, mkTS ty (mkS bits refs))] [] []
      = Ok (PCell (Cell ty bits refs), [(0, mkTS ty (mkS bits refs))])
  end.
Proof.
  intros Hty Hfuel. apply Z.eqb_neq in Hty.
  destruct fuel as [|[|[|[|f]]]]; try lia.
  unfold compile, snap_n. destruct (t_special L), (t_snap L); try exact I;
    cbn [run get_slice Nat.eqb bind ts_ty ts_s s_bits s_refs app nth eval]; rewrite Hty; reflexivity.
Qed.

Lemma run_type_exotic T L ty bits refs fuel :
  slookup spec_table T [] = Some L -> ty <> ty_ordinary -> 4 <= fuel ->
  match t_special L with
  | SpNo => True
  | SpNone => run_type impl_table fuel T [] (Cell ty bits refs) = Ok (PNone, mkS bits refs)
  | SpCell => run_type impl_table fuel T [] (Cell ty bits refs) = Ok (PCell (Cell ty bits refs), mkS bits refs)
  end.
Proof.
  intros Hl Hty Hfuel. pose proof (compile_exotic impl_table L ty bits refs fuel Hty Hfuel) as H.
  unfold run_type. rewrite (impl_agree _ _ _ Hl). cbn [cell_slice].
  destruct (t_special L); [exact I| |]; rewrite H; reflexivity.
Qed.
