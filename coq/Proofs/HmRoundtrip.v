(* Proofs for C09: dictionary serialise/parse round trip, independence of insertion order, the
   optional-dictionary reference.  Helper names prefixed rt_. *)
From Coq Require Import NArith ZArith List Bool Lia ZifyBool ZifyNat ZifyN Permutation.
From PTQ Require Import Base.Result Base.Bytes Base.Bits Model.Cell Spec.CellRepr Model.Builder Model.Hashmap
  Spec.TlbPrim Spec.Hashmap Proofs.HmLabel Proofs.HmParse Proofs.HmTree.
Import ListNotations.

Lemma rt_bind_ok {A B} (r : result A) (f : A -> result B) y :
  bind r f = Ok y -> exists x, r = Ok x /\ f x = Ok y.
Proof. destruct r as [a|e]; cbn [bind]; intros H; [eauto|discriminate]. Qed.

Lemma rt_store_bits_ok b x b' : b_store_bits b x = Ok b' ->
  b' = mkB (b_bits b ++ x) (b_refs b) /\ length (b_bits b) + length x <= 1023.
Proof.
  unfold b_store_bits. destruct (1023 <? length (b_bits b) + length x) eqn:E; [discriminate|].
  intros [= <-]. apply Nat.ltb_ge in E. split; [reflexivity|exact E].
Qed.

Lemma rt_store_ref_ok b c b' : b_store_ref b c = Ok b' -> b' = mkB (b_bits b) (b_refs b ++ [c]).
Proof.
  unfold b_store_ref. destruct (4 <=? length (b_refs b)); [discriminate|]. now intros [= <-].
Qed.

Lemma rt_end_cell_ok b c : b_end_cell b = Ok c -> c = Cell ty_ordinary (b_bits b) (b_refs b).
Proof.
  unfold b_end_cell. destruct (1024 <=? s_depth (Cell ty_ordinary (b_bits b) (b_refs b)))%N; [discriminate|].
  now intros [= <-].
Qed.

(* ------------------------------------------------------------------ *)
(* the optional-dictionary reference                                   *)
(* ------------------------------------------------------------------ *)

Lemma maybe_dict_roundtrip : forall oc b b' tb tr n, b_store_maybe_ref b oc = Ok b' ->
  exists hb hr, b_bits b' = b_bits b ++ hb /\ b_refs b' = b_refs b ++ hr /\
  s_load_dict (mkS (hb ++ tb) (hr ++ tr)) n =
    match oc with
    | None => Ok (None, mkS tb tr)
    | Some (Cell ty bits refs) => rmap (fun r => (r, mkS tb tr)) (hashmap_parse ty (mkS bits refs) n)
    end.
Proof.
  intros oc b b' tb tr n H. destruct oc as [c|]; cbn [b_store_maybe_ref] in H.
  - apply rt_bind_ok in H as (b1 & H1 & H2).
    apply rt_store_bits_ok in H1 as [-> _]. apply rt_store_ref_ok in H2 as ->.
    cbn [b_bits b_refs]. exists [true], [c]. split; [reflexivity|]. split; [reflexivity|].
    destruct c as [ty bits refs]. cbn [app]. unfold s_load_dict, s_load_bit, s_preload_bit, s_skip, s_load_ref.
    cbn [s_bits s_refs length Nat.ltb Nat.leb bind skipn].
    destruct (hashmap_parse ty (mkS bits refs) n); reflexivity.
  - apply rt_store_bits_ok in H as [-> _].
    cbn [b_bits b_refs]. exists [false], []. split; [reflexivity|]. split; [now rewrite app_nil_r|].
    reflexivity.
Qed.

(* ------------------------------------------------------------------ *)
(* independence of insertion order                                     *)
(* ------------------------------------------------------------------ *)

(* lcp_all is the greatest common prefix *)
Lemma rt_lcp_all_glb rest : forall k p, (forall key, In key (k :: rest) -> exists s, key = p ++ s) ->
  exists s, lcp_all k rest = p ++ s.
Proof.
  induction rest as [|k1 rest IH]; intros k p Hall; cbn [lcp_all].
  - apply Hall. left. reflexivity.
  - apply IH. intros key [<-|Hin].
    + destruct (Hall k (or_introl eq_refl)) as [s Hs].
      destruct (Hall k1 (or_intror (or_introl eq_refl))) as [t Ht].
      exists (lcp s t). rewrite Hs, Ht. apply hm_lcp_app.
    + apply Hall. right. right. exact Hin.
Qed.

Lemma rt_pre_antisym {A} (a b s t : list A) : a = b ++ s -> b = a ++ t -> a = b.
Proof.
  intros Ha Hb. assert (Hl : length a = length b + length s) by (rewrite Ha at 1; apply app_length).
  assert (Hl' : length b = length a + length t) by (rewrite Hb at 1; apply app_length).
  destruct s; [now rewrite app_nil_r in Ha|]. cbn [length] in Hl. lia.
Qed.

Lemma rt_lcp_all_perm k rest k' rest' : Permutation (k :: rest) (k' :: rest') ->
  lcp_all k rest = lcp_all k' rest'.
Proof.
  intros Hp.
  destruct (rt_lcp_all_glb rest k (lcp_all k' rest')) as [s Hs].
  { intros key Hin. apply hm_lcp_all_pre. exact (Permutation_in _ Hp Hin). }
  destruct (rt_lcp_all_glb rest' k' (lcp_all k rest)) as [t Ht].
  { intros key Hin. apply hm_lcp_all_pre. exact (Permutation_in _ (Permutation_sym Hp) Hin). }
  exact (rt_pre_antisym _ _ _ _ Hs Ht).
Qed.

Lemma rt_perm_filter {A} (f : A -> bool) l l' : Permutation l l' -> Permutation (filter f l) (filter f l').
Proof.
  induction 1 as [|x l l' Hp IH|x y l|l l' l'' H1 IH1 H2 IH2]; cbn [filter].
  - constructor.
  - destruct (f x); [constructor|]; exact IH.
  - destruct (f x), (f y); try reflexivity. apply perm_swap.
  - eapply Permutation_trans; eassumption.
Qed.

Lemma rt_perm_branch b ts ts' : Permutation ts ts' -> Permutation (hm_branch b ts) (hm_branch b ts').
Proof. intros Hp. unfold hm_branch. apply Permutation_map. now apply rt_perm_filter. Qed.

Lemma rt_perm_forall {A} (P : A -> Prop) l l' : Permutation l l' -> Forall P l -> Forall P l'.
Proof. intros Hp H. rewrite Forall_forall in *. intros x Hx. apply H. exact (Permutation_in _ (Permutation_sym Hp) Hx). Qed.

Lemma rt_patricia_perm fuel : forall n src1 src2, n < fuel -> NoDup (map fst src1) ->
  Forall (fun kv => length (fst kv) = n) src1 -> Permutation src1 src2 ->
  s_patricia fuel src1 = s_patricia fuel src2.
Proof.
  induction fuel as [|f IH]; intros n src1 src2 Hn Hnd Hlen Hp; [lia|].
  pose proof (Permutation_length Hp) as Hl.
  destruct src1 as [|kv0 [|kv1 rest]].
  - apply Permutation_nil in Hp. now subst.
  - apply Permutation_length_1_inv in Hp. now subst.
  - destruct src2 as [|kv0' [|kv1' rest']]; cbn [length] in Hl; try lia.
    assert (Hnd2 : NoDup (map fst (kv0' :: kv1' :: rest'))).
    { eapply Permutation_NoDup; [|exact Hnd]. now apply Permutation_map. }
    pose proof (rt_perm_forall _ _ _ Hp Hlen) as Hlen2.
    destruct (hm_split n kv0 kv1 rest Hnd Hlen) as (Hlt & _ & Hbr).
    rewrite !hm_patricia_unfold. cbv zeta.
    assert (Hlab : lcp_all (fst kv0') (map fst (kv1' :: rest')) = lcp_all (fst kv0) (map fst (kv1 :: rest))).
    { apply rt_lcp_all_perm. apply (Permutation_map fst) in Hp. apply Permutation_sym. exact Hp. }
    rewrite Hlab.
    set (label := lcp_all (fst kv0) (map fst (kv1 :: rest))) in *.
    assert (Hpt : Permutation (hm_tails (length label) (kv0 :: kv1 :: rest))
                              (hm_tails (length label) (kv0' :: kv1' :: rest'))).
    { unfold hm_tails. now apply Permutation_map. }
    assert (Hm : n - length label - 1 < f) by lia.
    destruct (Hbr false) as (_ & Hl2 & Hl3). destruct (Hbr true) as (_ & Hr2 & Hr3).
    rewrite (IH _ _ _ Hm Hl2 Hl3 (rt_perm_branch false _ _ Hpt)).
    rewrite (IH _ _ _ Hm Hr2 Hr3 (rt_perm_branch true _ _ Hpt)).
    reflexivity.
Qed.

Lemma serialize_order_indep : forall n src1 src2, NoDup (map fst src1) ->
  Forall (fun kv => length (fst kv) = n) src1 -> Permutation src1 src2 ->
  serialize_dict src1 n = serialize_dict src2 n.
Proof.
  intros n src1 src2 Hnd Hlen Hp.
  destruct src1 as [|x1 l1].
  - apply Permutation_nil in Hp. now subst.
  - destruct src2 as [|x2 l2]; [apply Permutation_sym, Permutation_nil in Hp; discriminate|].
    assert (Hnd2 : NoDup (map fst (x2 :: l2))).
    { eapply Permutation_NoDup; [|exact Hnd]. now apply Permutation_map. }
    pose proof (rt_perm_forall _ _ _ Hp Hlen) as Hlen2.
    assert (Hb : build_edge (S n) (x1 :: l1) = build_edge (S n) (x2 :: l2)).
    { destruct (build_edge_patricia n (x1 :: l1)) as [H1 _]; [discriminate|assumption|assumption|].
      destruct (build_edge_patricia n (x2 :: l2)) as [H2 _]; [discriminate|assumption|assumption|].
      rewrite H1, H2, (rt_patricia_perm (S n) n _ _ (Nat.lt_succ_diag_r n) Hnd Hlen Hp). reflexivity. }
    unfold serialize_dict. rewrite Hb. reflexivity.
Qed.

(* ------------------------------------------------------------------ *)
(* shape of the canonical tree                                         *)
(* ------------------------------------------------------------------ *)

Lemma rt_hedge_ind (P : hedge -> Prop) :
  (forall l v, P (HEdge l (HLeaf v))) ->
  (forall l a b, P a -> P b -> P (HEdge l (HFork a b))) -> forall t, P t.
Proof. intros H1 H2. fix IH 1. intros [l [v|a b]]; [apply H1|apply H2; apply IH]. Qed.

(* at remaining key length m: a leaf label has length m, a fork label is shorter *)
Fixpoint rt_edge_wf (e : hedge) (m : nat) : Prop :=
  match e with
  | HEdge l (HLeaf _) => length l = m
  | HEdge l (HFork a b) =>
      length l < m /\ rt_edge_wf a (m - length l - 1) /\ rt_edge_wf b (m - length l - 1)
  end.

Lemma rt_patricia_wf fuel : forall n src t, n < fuel -> NoDup (map fst src) ->
  Forall (fun kv => length (fst kv) = n) src -> s_patricia fuel src = Some t -> rt_edge_wf t n.
Proof.
  induction fuel as [|f IH]; intros n src t Hn Hnd Hlen H; [lia|].
  destruct src as [|kv0 [|kv1 rest]].
  - discriminate.
  - destruct kv0 as [k v]. cbn [s_patricia] in H. injection H as <-.
    inversion Hlen as [|? ? Hk _]. exact Hk.
  - destruct (hm_split n kv0 kv1 rest Hnd Hlen) as (Hlt & _ & Hbr).
    rewrite hm_patricia_unfold in H. cbv zeta in H.
    set (label := lcp_all (fst kv0) (map fst (kv1 :: rest))) in *.
    set (ts := hm_tails (length label) (kv0 :: kv1 :: rest)) in *.
    destruct (s_patricia f (hm_branch false ts)) as [el|] eqn:El; [|discriminate].
    destruct (s_patricia f (hm_branch true ts)) as [er|] eqn:Er; [|discriminate].
    injection H as <-.
    assert (Hm : n - length label - 1 < f) by lia.
    destruct (Hbr false) as (_ & Hl2 & Hl3). destruct (Hbr true) as (_ & Hr2 & Hr3).
    cbn [rt_edge_wf]. split; [exact Hlt|].
    split; [exact (IH _ _ _ Hm Hl2 Hl3 El)|exact (IH _ _ _ Hm Hr2 Hr3 Er)].
Qed.

(* ------------------------------------------------------------------ *)
(* write_edge emits the canonical cell                                 *)
(* ------------------------------------------------------------------ *)

Definition rt_cap (b : builder) : Prop := length (b_bits b) <= 1023.

Lemma rt_cap_bits b x b' : b_store_bits b x = Ok b' -> rt_cap b'.
Proof.
  intros H. apply rt_store_bits_ok in H as [-> Hle]. unfold rt_cap. cbn [b_bits].
  rewrite app_length. exact Hle.
Qed.

Lemma rt_cap_each l : forall b b', b_store_bits_each b l = Ok b' -> rt_cap b -> rt_cap b'.
Proof.
  induction l as [|x l IH]; intros b b' H Hc; cbn [b_store_bits_each] in H.
  - now injection H as <-.
  - apply rt_bind_ok in H as (b1 & H1 & H2). apply (IH _ _ H2). exact (rt_cap_bits _ _ _ H1).
Qed.

Lemma rt_cap_uint b v w b' : store_uint_nat b v w = Ok b' -> rt_cap b'.
Proof.
  unfold store_uint_nat, b_store_uint. intros H. apply rt_bind_ok in H as (x & _ & H).
  exact (rt_cap_bits _ _ _ H).
Qed.

Lemma rt_cap_label l m b b' : write_label l m b = Ok b' -> rt_cap b'.
Proof.
  unfold write_label. intros H.
  destruct (detect_label_type l m);
    apply rt_bind_ok in H as (b1 & H1 & H); apply rt_bind_ok in H as (b2 & H2 & H);
    apply rt_bind_ok in H as (b3 & H3 & H).
  - apply (rt_cap_each _ _ _ H). exact (rt_cap_bits _ _ _ H3).
  - apply (rt_cap_each _ _ _ H). exact (rt_cap_uint _ _ _ _ H3).
  - exact (rt_cap_uint _ _ _ _ H).
Qed.

Lemma rt_kind_ok l m : kind_ok (s_label_kind l m) l = true.
Proof.
  unfold s_label_kind. destruct ((0 <? length l) && is_same l) eqn:E.
  - apply andb_prop in E as [_ E].
    destruct ((1 <? length l) && (nbitlen m <? 2 * length l - 1)); [exact E|].
    destruct (nbitlen m <? length l); reflexivity.
  - destruct (nbitlen m <? length l); reflexivity.
Qed.

Lemma rt_write_edge : forall t m b0 b, rt_edge_wf t m -> write_edge t m b0 = Ok b ->
  exists bits refs, cell_of (canon_kinds (canon_vtree t) m) m = Cell ty_ordinary bits refs /\
    b_bits b = b_bits b0 ++ bits /\ b_refs b = b_refs b0 ++ refs /\
    vtree_ok (canon_kinds (canon_vtree t) m) m = true.
Proof.
  induction t as [l v|l a c IHa IHc] using rt_hedge_ind; intros m b0 b Hwf H.
  - cbn [rt_edge_wf] in Hwf. cbn [write_edge] in H.
    apply rt_bind_ok in H as (b1 & H1 & H2).
    apply write_label_spec in H1 as [H1b H1r]; [|lia].
    unfold store_payload, b_store_slice in H2. cbn [s_bits s_refs] in H2.
    destruct (4 <? length (b_refs b1) + length (snd v)) eqn:E4; [discriminate|].
    apply rt_bind_ok in H2 as (b2 & H2 & H3). apply rt_store_bits_ok in H2 as [-> Hle].
    injection H3 as <-. cbn [b_bits b_refs].
    cbn [canon_vtree canon_kinds cell_of vtree_ok].
    exists (s_label_bits (s_label_kind l m) l m ++ fst v), (snd v).
    split; [reflexivity|]. split; [rewrite H1b, app_assoc; reflexivity|].
    split; [rewrite H1r; reflexivity|].
    rewrite rt_kind_ok. rewrite H1b, app_length in Hle. apply Nat.ltb_ge in E4.
    rewrite (proj2 (Nat.eqb_eq (length l) m) Hwf). cbn [andb].
    apply andb_true_intro; split; apply Nat.leb_le; lia.
  - cbn [rt_edge_wf] in Hwf. destruct Hwf as (Hlt & Hwa & Hwc). cbn [write_edge] in H.
    apply rt_bind_ok in H as (b1 & H1 & H).
    apply rt_bind_ok in H as (bl & Hl & H). apply rt_bind_ok in H as (br & Hr & H).
    apply rt_bind_ok in H as (cl & Hcl & H). apply rt_bind_ok in H as (cr & Hcr & H).
    apply rt_bind_ok in H as (b2 & Hb2 & Hb3).
    pose proof (rt_cap_label _ _ _ _ H1) as Hcap. unfold rt_cap in Hcap.
    apply write_label_spec in H1 as [H1b H1r]; [|lia].
    destruct (IHa _ _ _ Hwa Hl) as (bitsa & refsa & Hca & Hba & Hra & Hoka).
    destruct (IHc _ _ _ Hwc Hr) as (bitsc & refsc & Hcc & Hbc & Hrc & Hokc).
    apply rt_end_cell_ok in Hcl, Hcr. apply rt_store_ref_ok in Hb2. subst b2.
    apply rt_store_ref_ok in Hb3. subst b. cbn [b_bits b_refs b_empty app] in *.
    cbn [canon_vtree canon_kinds cell_of vtree_ok].
    exists (s_label_bits (s_label_kind l m) l m), [cl; cr].
    split; [|split; [exact H1b|split]].
    + rewrite Hca, Hcc, Hcl, Hcr, Hba, Hbc, Hra, Hrc. reflexivity.
    + rewrite H1r, <- app_assoc. reflexivity.
    + rewrite H1b, app_length in Hcap.
      repeat (apply andb_true_intro; split);
        [apply Nat.ltb_lt; exact Hlt|apply rt_kind_ok|apply Nat.leb_le; lia|exact Hoka|exact Hokc].
Qed.

(* ------------------------------------------------------------------ *)
(* the leaves of the canonical tree, in order, are the sorted pairs    *)
(* ------------------------------------------------------------------ *)

Definition rt_prep (q : list bool) (kv : list bool * payload) : list bool * payload :=
  (q ++ fst kv, snd kv).
Definition rt_conv (kv : list bool * payload) : list bool * slice :=
  (fst kv, mkS (fst (snd kv)) (snd (snd kv))).

Fixpoint rt_edge_leaves (e : hedge) (p : list bool) : kvs :=
  match e with
  | HEdge l (HLeaf v) => [(p ++ l, v)]
  | HEdge l (HFork a b) => rt_edge_leaves a (p ++ l ++ [false]) ++ rt_edge_leaves b (p ++ l ++ [true])
  end.

Lemma rt_leaves_canon : forall t m p,
  leaves_of (canon_kinds (canon_vtree t) m) p = map rt_conv (rt_edge_leaves t p).
Proof.
  induction t as [l v|l a c IHa IHc] using rt_hedge_ind; intros m p;
    cbn [canon_vtree canon_kinds leaves_of rt_edge_leaves map].
  - reflexivity.
  - rewrite IHa, IHc, map_app. reflexivity.
Qed.

Lemma rt_lex_app q a b : lex_leb (q ++ a) (q ++ b) = lex_leb a b.
Proof. induction q as [|x q IH]; cbn [app lex_leb]; [reflexivity|]. now rewrite Bool.eqb_reflx. Qed.

Lemma rt_sort_cons x l : sort_kvs (x :: l) = insert_kv x (sort_kvs l).
Proof. reflexivity. Qed.

Lemma rt_insert_prep q kv l :
  insert_kv (rt_prep q kv) (map (rt_prep q) l) = map (rt_prep q) (insert_kv kv l).
Proof.
  induction l as [|x l IH]; cbn [map insert_kv]; [reflexivity|].
  change (fst (rt_prep q kv)) with (q ++ fst kv). change (fst (rt_prep q x)) with (q ++ fst x).
  rewrite rt_lex_app.
  destruct (lex_leb (fst kv) (fst x)); cbn [map]; [reflexivity|]. now rewrite IH.
Qed.

Lemma rt_sort_prep q l : sort_kvs (map (rt_prep q) l) = map (rt_prep q) (sort_kvs l).
Proof.
  induction l as [|x l IH]; [reflexivity|].
  cbn [map]. rewrite !rt_sort_cons, IH. apply rt_insert_prep.
Qed.

Lemma rt_insert_false r v A : forall B, Forall (fun kv => starts_with true (fst kv) = true) B ->
  insert_kv (false :: r, v) (map (rt_prep [false]) A ++ B)
  = map (rt_prep [false]) (insert_kv (r, v) A) ++ B.
Proof.
  induction A as [|a A IH]; intros B HB.
  - cbn [map app insert_kv]. destruct B as [|x B]; [reflexivity|].
    inversion HB as [|? ? Hx _]; subst. cbn [insert_kv fst].
    destruct (fst x) as [|[] y]; cbn [starts_with Bool.eqb] in Hx; try discriminate.
    reflexivity.
  - cbn [map app insert_kv fst]. change (fst (rt_prep [false] a)) with (false :: fst a).
    cbn [lex_leb Bool.eqb].
    destruct (lex_leb r (fst a)); cbn [map app]; [reflexivity|]. now rewrite IH.
Qed.

Lemma rt_insert_true r v A B :
  insert_kv (true :: r, v) (map (rt_prep [false]) A ++ map (rt_prep [true]) B)
  = map (rt_prep [false]) A ++ map (rt_prep [true]) (insert_kv (r, v) B).
Proof.
  induction A as [|a A IH].
  - cbn [map app]. exact (rt_insert_prep [true] (r, v) B).
  - cbn [map app insert_kv fst]. change (fst (rt_prep [false] a)) with (false :: fst a).
    cbn [lex_leb Bool.eqb negb]. now rewrite IH.
Qed.

Lemma rt_sort_split ts : Forall (fun kv => fst kv <> []) ts ->
  sort_kvs ts = map (rt_prep [false]) (sort_kvs (hm_branch false ts))
                ++ map (rt_prep [true]) (sort_kvs (hm_branch true ts)).
Proof.
  induction 1 as [|[k v] ts Hk Hts IH]; [reflexivity|].
  rewrite rt_sort_cons, IH. cbn [fst] in Hk.
  destruct k as [|[] r]; [congruence| |].
  - unfold hm_branch. cbn [filter fst starts_with Bool.eqb map tl snd].
    rewrite rt_sort_cons. apply rt_insert_true.
  - unfold hm_branch. cbn [filter fst starts_with Bool.eqb map tl snd].
    rewrite rt_sort_cons. apply rt_insert_false.
    rewrite Forall_forall. intros x Hx. apply in_map_iff in Hx as [y [<- _]]. reflexivity.
Qed.

Lemma rt_src_tails label (src : kvs) :
  (forall kv, In kv src -> exists s, fst kv = label ++ s) ->
  src = map (rt_prep label) (hm_tails (length label) src).
Proof.
  intros Hpre. unfold hm_tails. rewrite map_map. rewrite <- (map_id src) at 1.
  apply map_ext_in. intros [k v] Hin. destruct (Hpre _ Hin) as [s Hs]. cbn [fst] in Hs.
  unfold rt_prep. cbn [fst snd]. f_equal. exact (hm_pre_skipn _ _ _ Hs).
Qed.

Lemma rt_prep_prep p q l : map (rt_prep p) (map (rt_prep q) l) = map (rt_prep (p ++ q)) l.
Proof.
  rewrite map_map. apply map_ext. intros [k v]. unfold rt_prep. cbn [fst snd].
  now rewrite app_assoc.
Qed.

Lemma rt_patricia_leaves fuel : forall n src t p, n < fuel -> NoDup (map fst src) ->
  Forall (fun kv => length (fst kv) = n) src -> s_patricia fuel src = Some t ->
  rt_edge_leaves t p = map (rt_prep p) (sort_kvs src).
Proof.
  induction fuel as [|f IH]; intros n src t p Hn Hnd Hlen H; [lia|].
  destruct src as [|kv0 [|kv1 rest]].
  - discriminate.
  - destruct kv0 as [k v]. cbn [s_patricia] in H. injection H as <-. reflexivity.
  - destruct (hm_split n kv0 kv1 rest Hnd Hlen) as (Hlt & Hnonempty & Hbr).
    rewrite hm_patricia_unfold in H. cbv zeta in H.
    assert (Hsrc : kv0 :: kv1 :: rest = map (rt_prep (lcp_all (fst kv0) (map fst (kv1 :: rest))))
              (hm_tails (length (lcp_all (fst kv0) (map fst (kv1 :: rest)))) (kv0 :: kv1 :: rest))).
    { apply rt_src_tails. intros kv Hin.
      apply (hm_lcp_all_pre (map fst (kv1 :: rest)) (fst kv0) (fst kv)).
      change (fst kv0 :: map fst (kv1 :: rest)) with (map fst (kv0 :: kv1 :: rest)).
      now apply in_map. }
    set (label := lcp_all (fst kv0) (map fst (kv1 :: rest))) in *.
    set (ts := hm_tails (length label) (kv0 :: kv1 :: rest)) in *.
    destruct (s_patricia f (hm_branch false ts)) as [el|] eqn:El; [|discriminate].
    destruct (s_patricia f (hm_branch true ts)) as [er|] eqn:Er; [|discriminate].
    injection H as <-.
    assert (Hm : n - length label - 1 < f) by lia.
    destruct (Hbr false) as (_ & Hl2 & Hl3). destruct (Hbr true) as (_ & Hr2 & Hr3).
    cbn [rt_edge_leaves].
    rewrite (IH _ _ _ (p ++ label ++ [false]) Hm Hl2 Hl3 El).
    rewrite (IH _ _ _ (p ++ label ++ [true]) Hm Hr2 Hr3 Er).
    rewrite Hsrc, rt_sort_prep, (rt_sort_split ts Hnonempty).
    rewrite !map_app, !rt_prep_prep, !app_assoc. reflexivity.
Qed.

(* ------------------------------------------------------------------ *)
(* the round trip                                                      *)
(* ------------------------------------------------------------------ *)

Lemma dict_roundtrip : forall n src c, (1 <= n <= 1023)%nat -> src <> [] -> NoDup (map fst src) ->
  Forall (fun kv => length (fst kv) = n) src ->
  serialize_dict src n = Ok (Some c) ->
  match c with Cell ty bits refs =>
    parse_hashmap ty (mkS bits refs) (Z.of_nat n)
    = Ok (map (fun kv => (fst kv, mkS (fst (snd kv)) (snd (snd kv)))) (sort_kvs src)) end.
Proof.
  intros n src c Hn Hne Hnd Hlen H.
  destruct (build_edge_patricia n src Hne Hnd Hlen) as [Hb Hsome].
  destruct (s_patricia (S n) src) as [t|] eqn:Ht; [|congruence].
  unfold serialize_dict in H. destruct src as [|x l]; [congruence|].
  rewrite Hb in H. cbn [bind] in H.
  apply rt_bind_ok in H as (b & Hw & He).
  destruct (b_end_cell b) as [c'|] eqn:Hc; cbn [rmap] in He; [|discriminate].
  injection He as <-. apply rt_end_cell_ok in Hc.
  pose proof (rt_patricia_wf (S n) n _ t (Nat.lt_succ_diag_r n) Hnd Hlen Ht) as Hwf.
  destruct (rt_write_edge t n b_empty b Hwf Hw) as (bits & refs & Hcell & Hbits & Hrefs & Hok).
  cbn [b_empty b_bits b_refs app] in Hbits, Hrefs.
  pose proof (parse_any_valid _ n Hn Hok) as Hp. rewrite Hcell in Hp.
  rewrite Hc, Hbits, Hrefs, Hp. f_equal.
  rewrite rt_leaves_canon.
  rewrite (rt_patricia_leaves (S n) n _ t [] (Nat.lt_succ_diag_r n) Hnd Hlen Ht).
  rewrite map_map. apply map_ext. intros [k v]. reflexivity.
Qed.
