(* C08 / C07 on the heap model: the four builder stores are all-or-nothing.  A store either leaves the whole heap
   exactly as it was (refused) or appends exactly its payload - the bits and references of the value as they were
   before the store - to the target builder, within the capacity. *)
From Coq Require Import NArith ZArith List Bool Lia Arith.
From PTQ Require Import Base.Result Model.Heap Proofs.HeapProofs.
Import ListNotations.

(* what a store operation would append, read off the heap before the store *)
Definition payload (h : heap) (o : op) : option (oid * list bool * list oid) :=
  match o with
  | OpStoreBits b l => Some (b, l, [])
  | OpStoreRef b c => Some (b, [], [c])
  | OpStoreCell b c => match obj_view h c with VCell bits refs => Some (b, bits, refs) | _ => None end
  | OpStoreSlice b s => match obj_view h s with VSlice bits refs => Some (b, bits, refs) | _ => None end
  | _ => None
  end.

Lemma ha_view_written h b ba ra X Y :
  nth_error (objs h) b = Some (OBuilder ba ra) -> ba < length (bitsH h) -> ra < length (refsH h) ->
  obj_view (write_refs (write_bits h ba X) ra Y) b = VBuilder X Y.
Proof.
  intros Hb Hba Hra. unfold obj_view, write_refs, write_bits, get_bits, get_refs. cbn [objs bitsH refsH].
  rewrite Hb. rewrite nth_set_nth_eq by exact Hba. rewrite nth_set_nth_eq by exact Hra. reflexivity.
Qed.

Lemma ha_view_written_bits h b ba ra X :
  nth_error (objs h) b = Some (OBuilder ba ra) -> ba < length (bitsH h) ->
  obj_view (write_bits h ba X) b = VBuilder X (get_refs h ra).
Proof.
  intros Hb Hba. unfold obj_view, write_bits, get_bits, get_refs. cbn [objs bitsH refsH].
  rewrite Hb. rewrite nth_set_nth_eq by exact Hba. reflexivity.
Qed.

Lemma ha_view_written_refs h b ba ra Y :
  nth_error (objs h) b = Some (OBuilder ba ra) -> ra < length (refsH h) ->
  obj_view (write_refs h ra Y) b = VBuilder (get_bits h ba) Y.
Proof.
  intros Hb Hra. unfold obj_view, write_refs, get_bits, get_refs. cbn [objs bitsH refsH].
  rewrite Hb. rewrite nth_set_nth_eq by exact Hra. reflexivity.
Qed.

Theorem store_all_or_nothing_inv : forall h o b addb addr, Inv h ->
  payload h o = Some (b, addb, addr) ->
  step h o = h \/
  exists bits refs, obj_view h b = VBuilder bits refs /\
     obj_view (step h o) b = VBuilder (bits ++ addb) (refs ++ addr) /\
     (addb = [] \/ length (bits ++ addb) <= 1023) /\ (addr = [] \/ length (refs ++ addr) <= 4).
Proof.
  intros h o b addb addr HI Hp.
  destruct o; cbn [payload] in Hp; try discriminate.
  - (* store_bits *)
    injection Hp as <- <- <-. cbn [step].
    destruct (nth_error (objs h) b0) as [[? ?|? ? ?|ba ra]|] eqn:Eb; try (left; reflexivity).
    destruct (inv_range h HI _ _ Eb) as [Hba Hra]. cbn [baddr raddr] in Hba, Hra.
    destruct (1023 <? length (get_bits h ba) + length l) eqn:Ec; [left; reflexivity|].
    right. exists (get_bits h ba), (get_refs h ra).
    split; [unfold obj_view; rewrite Eb; reflexivity|].
    split; [rewrite app_nil_r; apply ha_view_written_bits; assumption|].
    apply Nat.ltb_ge in Ec. split; [right; rewrite app_length; lia|left; reflexivity].
  - (* store_ref *)
    injection Hp as <- <- <-. cbn [step].
    destruct (nth_error (objs h) b0) as [[? ?|? ? ?|ba ra]|] eqn:Eb; try (left; reflexivity).
    destruct (inv_range h HI _ _ Eb) as [Hba Hra]. cbn [baddr raddr] in Hba, Hra.
    destruct (is_cell h c && (length (get_refs h ra) <? 4)) eqn:Ec; [|left; reflexivity].
    right. exists (get_bits h ba), (get_refs h ra).
    split; [unfold obj_view; rewrite Eb; reflexivity|].
    split; [rewrite app_nil_r; apply ha_view_written_refs; assumption|].
    apply andb_prop in Ec. destruct Ec as [_ Ec]. apply Nat.ltb_lt in Ec.
    split; [left; reflexivity|right; rewrite app_length; cbn [length]; lia].
  - (* store_cell *)
    unfold obj_view in Hp.
    destruct (nth_error (objs h) c) as [[cb cr|? ? ?|? ?]|] eqn:Ecell; try discriminate.
    injection Hp as <- <- <-. cbn [step].
    destruct (nth_error (objs h) b0) as [[? ?|? ? ?|ba ra]|] eqn:Eb; try (left; reflexivity).
    rewrite Ecell.
    destruct (inv_range h HI _ _ Eb) as [Hba Hra]. cbn [baddr raddr] in Hba, Hra.
    destruct ((4 <? length (get_refs h ra) + length (get_refs h cr))
              || (1023 <? length (get_bits h ba) + length (get_bits h cb))) eqn:Ec; [left; reflexivity|].
    right. exists (get_bits h ba), (get_refs h ra).
    split; [unfold obj_view; rewrite Eb; reflexivity|].
    split; [apply ha_view_written; [exact Eb|exact Hba|unfold write_bits; cbn [refsH]; exact Hra]|].
    apply orb_false_elim in Ec. destruct Ec as [E4 E1023]. apply Nat.ltb_ge in E4. apply Nat.ltb_ge in E1023.
    split; right; rewrite app_length; lia.
  - (* store_slice *)
    unfold obj_view in Hp.
    destruct (nth_error (objs h) s) as [[? ?|sb sr off|? ?]|] eqn:Esl; try discriminate.
    injection Hp as <- <- <-. cbn [step].
    destruct (nth_error (objs h) b0) as [[? ?|? ? ?|ba ra]|] eqn:Eb; try (left; reflexivity).
    rewrite Esl. cbv zeta.
    destruct (inv_range h HI _ _ Eb) as [Hba Hra]. cbn [baddr raddr] in Hba, Hra.
    destruct ((4 <? length (get_refs h ra) + length (skipn off (get_refs h sr)))
              || (1023 <? length (get_bits h ba) + length (get_bits h sb))) eqn:Ec; [left; reflexivity|].
    right. exists (get_bits h ba), (get_refs h ra).
    split; [unfold obj_view; rewrite Eb; reflexivity|].
    split; [apply ha_view_written; [exact Eb|exact Hba|unfold write_bits; cbn [refsH]; exact Hra]|].
    apply orb_false_elim in Ec. destruct Ec as [E4 E1023]. apply Nat.ltb_ge in E4. apply Nat.ltb_ge in E1023.
    split; right; rewrite app_length; lia.
Qed.

(* for every reachable heap *)
Theorem store_all_or_nothing : forall ops o b addb addr,
  payload (run_ops ops) o = Some (b, addb, addr) ->
  step (run_ops ops) o = run_ops ops \/
  exists bits refs, obj_view (run_ops ops) b = VBuilder bits refs /\
     obj_view (step (run_ops ops) o) b = VBuilder (bits ++ addb) (refs ++ addr) /\
     (addb = [] \/ length (bits ++ addb) <= 1023) /\ (addr = [] \/ length (refs ++ addr) <= 4).
Proof. intros ops o b addb addr. apply store_all_or_nothing_inv. apply inv_run. Qed.
