(* Proofs for C07: capacity of a Builder, value ranges of the stores, read bounds of a Slice.
   Self-contained (helper names prefixed cap_). *)
From Coq Require Import NArith ZArith List Bool Lia ZifyBool ZifyNat ZifyN.
From PTQ Require Import Base.Result Base.Bytes Base.Bits Model.Cell Model.Builder Model.Typed
  Spec.CellRepr Spec.TlbPrim Spec.TlbVal.
Import ListNotations.
Local Open Scope Z_scope.
Ltac Zify.zify_post_hook ::= Z.div_mod_to_equations.

(* ------------------------------------------------------------------ *)
(* generic helpers                                                     *)
(* ------------------------------------------------------------------ *)

Lemma cap_bind_ok {A B} (r : result A) (f : A -> result B) y :
  bind r f = Ok y -> exists x, r = Ok x /\ f x = Ok y.
Proof. destruct r as [a|e]; cbn [bind]; intros H; [eauto|discriminate]. Qed.

Lemma cap_firstn_app {A} (l t : list A) : firstn (length l) (l ++ t) = l.
Proof. induction l as [|a l IH]; cbn [length firstn app]; [destruct t; reflexivity|now rewrite IH]. Qed.

Lemma cap_skipn_app {A} (l t : list A) : skipn (length l) (l ++ t) = t.
Proof. induction l as [|a l IH]; cbn [length skipn app]; [reflexivity|exact IH]. Qed.

Lemma cap_enc_length w v : length (enc w v) = w.
Proof. unfold enc. now rewrite map_length, seq_length. Qed.

Lemma cap_enc_bytes_length bs : length (enc_bytes bs) = (8 * length bs)%nat.
Proof.
  unfold enc_bytes. induction bs as [|a bs IH]; [reflexivity|].
  cbn [flat_map length]. rewrite app_length, cap_enc_length, IH. lia.
Qed.

Lemma cap_bytes_to_bits_length bs : length (bytes_to_bits bs) = (8 * length bs)%nat.
Proof.
  unfold bytes_to_bits. induction bs as [|a bs IH]; [reflexivity|].
  cbn [flat_map length]. rewrite app_length, to_bits_length, IH. lia.
Qed.

Lemma cap_to_bits_signed_length w v : length (to_bits_signed w v) = w.
Proof. unfold to_bits_signed. apply to_bits_length. Qed.

(* ------------------------------------------------------------------ *)
(* arithmetic: int.bit_length / ceil versus log2                       *)
(* ------------------------------------------------------------------ *)

Lemma cap_zbit_length_pos v : 0 < v -> zbit_length v = Z.log2 v + 1.
Proof.
  intros Hv. unfold zbit_length. destruct v as [|p|p]; try lia.
  cbn [Z.abs_N N.size Z.of_N].
  destruct p as [q|q|]; cbn [Pos.size Z.log2]; try rewrite Pos2Z.inj_succ; lia.
Qed.

Lemma cap_zbit_length_0 : zbit_length 0 = 0.
Proof. reflexivity. Qed.

Lemma cap_ulen v : 0 < v -> ceil8 (zbit_length v) = ulen v.
Proof. intros Hv. rewrite cap_zbit_length_pos by exact Hv. unfold ceil8, ulen. f_equal. lia. Qed.

Lemma cap_ulen_pos v : 0 < v -> 1 <= ulen v.
Proof. intros Hv. unfold ulen. pose proof (Z.log2_nonneg v) as Hl. lia. Qed.

Lemma cap_pow2_above v n : 0 < v -> Z.log2 v + 1 <= n -> v < 2 ^ n.
Proof.
  intros Hv Hn. pose proof (Z.log2_spec v Hv) as [_ Hhi].
  pose proof (Z.log2_nonneg v) as Hl.
  assert (Hle : 2 ^ Z.succ (Z.log2 v) <= 2 ^ n) by (apply Z.pow_le_mono_r; lia).
  lia.
Qed.

Lemma cap_ulen_bound v : 0 < v -> v < 2 ^ (ulen v * 8).
Proof.
  intros Hv. apply cap_pow2_above; [exact Hv|].
  unfold ulen. pose proof (Z.log2_nonneg v) as Hl. lia.
Qed.

(* the byte length chosen by store_var_int *)
Definition cap_sblen (v : Z) : Z := ceil8 (zbit_length (if 0 <=? v then v else - v - 1) + 1).

Lemma cap_slen v : v <> 0 -> cap_sblen v = slen0 v.
Proof.
  intros Hv. unfold cap_sblen, slen0.
  destruct (Z.eqb_spec v 0) as [H0|_]; [contradiction|].
  destruct (Z.ltb_spec 0 v) as [Hpos|Hneg].
  - destruct (Z.leb_spec 0 v) as [_|Hc]; [|lia].
    rewrite cap_zbit_length_pos by exact Hpos. unfold ceil8. f_equal. lia.
  - destruct (Z.leb_spec 0 v) as [Hc|_]; [lia|].
    destruct (Z.eqb_spec v (-1)) as [->|Hm1]; [reflexivity|].
    rewrite cap_zbit_length_pos by lia. unfold ceil8. f_equal. lia.
Qed.

Lemma cap_slen_pos v : v <> 0 -> 1 <= slen0 v.
Proof.
  intros Hv. unfold slen0.
  destruct (Z.eqb_spec v 0) as [H0|_]; [contradiction|].
  destruct (Z.ltb_spec 0 v) as [Hpos|Hneg].
  - pose proof (Z.log2_nonneg v) as Hl. lia.
  - destruct (Z.eqb_spec v (-1)) as [->|Hm1]; [lia|].
    pose proof (Z.log2_nonneg (- v - 1)) as Hl. lia.
Qed.

Lemma cap_slen_range v : v <> 0 -> in_int (slen0 v * 8) v = true.
Proof.
  intros Hv. unfold in_int, slen0.
  destruct (Z.eqb_spec v 0) as [H0|_]; [contradiction|].
  destruct (Z.ltb_spec 0 v) as [Hpos|Hneg].
  - pose proof (Z.log2_nonneg v) as Hl.
    assert (Hb : v < 2 ^ ((Z.log2 v + 9) / 8 * 8 - 1)) by (apply cap_pow2_above; lia).
    lia.
  - destruct (Z.eqb_spec v (-1)) as [->|Hm1]; [reflexivity|].
    pose proof (Z.log2_nonneg (- v - 1)) as Hl.
    assert (Hb : - v - 1 < 2 ^ ((Z.log2 (- v - 1) + 9) / 8 * 8 - 1)) by (apply cap_pow2_above; lia).
    lia.
Qed.

(* ------------------------------------------------------------------ *)
(* the capacity invariant                                              *)
(* ------------------------------------------------------------------ *)

Definition cap_inv (b : builder) : Prop :=
  (length (b_bits b) <= 1023)%nat /\ (length (b_refs b) <= 4)%nat.

Lemma cap_bits_ok b x b' : b_store_bits b x = Ok b' ->
  b' = mkB (b_bits b ++ x) (b_refs b) /\ (length (b_bits b) + length x <= 1023)%nat.
Proof.
  unfold b_store_bits.
  destruct (Nat.ltb_spec 1023 (length (b_bits b) + length x)) as [Hlt|Hge]; intros H;
    [discriminate|]. inversion H. split; [reflexivity|exact Hge].
Qed.

Lemma cap_bits_fit b x : (length (b_bits b) + length x <= 1023)%nat ->
  b_store_bits b x = Ok (mkB (b_bits b ++ x) (b_refs b)).
Proof.
  intros Hle. unfold b_store_bits.
  destruct (Nat.ltb_spec 1023 (length (b_bits b) + length x)) as [Hlt|Hge]; [lia|reflexivity].
Qed.

Lemma cap_bits_over b x : (1023 < length (b_bits b) + length x)%nat ->
  b_store_bits b x = Err EOverflow.
Proof.
  intros Hlt. unfold b_store_bits.
  destruct (Nat.ltb_spec 1023 (length (b_bits b) + length x)) as [_|Hge]; [reflexivity|lia].
Qed.

Lemma cap_inv_bits b x b' : b_store_bits b x = Ok b' -> cap_inv b -> cap_inv b'.
Proof.
  intros H [Hb Hr]. apply cap_bits_ok in H as [-> Hle]. split; cbn [b_bits b_refs].
  - rewrite app_length. exact Hle.
  - exact Hr.
Qed.

Lemma cap_inv_uint b v w b' : b_store_uint b v w = Ok b' -> cap_inv b -> cap_inv b'.
Proof.
  unfold b_store_uint. intros H. apply cap_bind_ok in H as (x & _ & H). eauto using cap_inv_bits.
Qed.

Lemma cap_inv_int b v w b' : b_store_int b v w = Ok b' -> cap_inv b -> cap_inv b'.
Proof.
  unfold b_store_int. intros H. apply cap_bind_ok in H as (x & _ & H). eauto using cap_inv_bits.
Qed.

Lemma cap_inv_ref b c b' : b_store_ref b c = Ok b' -> cap_inv b -> cap_inv b'.
Proof.
  unfold b_store_ref. intros H [Hb Hr].
  destruct (Nat.leb_spec 4 (length (b_refs b))) as [Hge|Hlt]; [discriminate|].
  inversion H. split; cbn [b_bits b_refs]; [exact Hb|]. rewrite app_length. cbn [length]. lia.
Qed.

Lemma cap_inv_cell b c b' : b_store_cell b c = Ok b' -> cap_inv b -> cap_inv b'.
Proof.
  destruct c as [ty bits refs]. unfold b_store_cell. intros H [Hb Hr].
  destruct (Nat.ltb_spec 4 (length (b_refs b) + length refs)) as [Hlt|Hge]; [discriminate|].
  apply cap_bind_ok in H as (b1 & H1 & H). apply cap_bits_ok in H1 as [-> Hle].
  inversion H. split; cbn [b_bits b_refs]; rewrite app_length; assumption.
Qed.

Lemma cap_inv_slice b s b' : b_store_slice b s = Ok b' -> cap_inv b -> cap_inv b'.
Proof.
  unfold b_store_slice. intros H [Hb Hr].
  destruct (Nat.ltb_spec 4 (length (b_refs b) + length (s_refs s))) as [Hlt|Hge]; [discriminate|].
  apply cap_bind_ok in H as (b1 & H1 & H). apply cap_bits_ok in H1 as [-> Hle].
  inversion H. split; cbn [b_bits b_refs]; rewrite app_length; assumption.
Qed.

Lemma cap_inv_var_uint b v k b' : b_store_var_uint b v k = Ok b' -> cap_inv b -> cap_inv b'.
Proof.
  unfold b_store_var_uint. destruct (v =? 0); [apply cap_inv_uint|].
  cbv zeta. intros H. apply cap_bind_ok in H as (b1 & H1 & H). eauto using cap_inv_uint.
Qed.

Lemma cap_inv_var_int b v k b' : b_store_var_int b v k = Ok b' -> cap_inv b -> cap_inv b'.
Proof.
  unfold b_store_var_int. destruct (v =? 0); [apply cap_inv_uint|].
  cbv zeta. intros H. apply cap_bind_ok in H as (b1 & H1 & H). eauto using cap_inv_uint, cap_inv_int.
Qed.

Lemma cap_inv_address b a b' : b_store_address b a = Ok b' -> cap_inv b -> cap_inv b'.
Proof.
  destruct a as [|v len|ac wc h]; cbn [b_store_address]; intros H.
  - eauto using cap_inv_bits.
  - apply cap_bind_ok in H as (t1 & _ & H). apply cap_bind_ok in H as (t2 & _ & H).
    apply cap_bind_ok in H as (t3 & _ & H). apply cap_bind_ok in H as (c & _ & H).
    eauto using cap_inv_cell.
  - apply cap_bind_ok in H as (b3 & H3 & H). apply cap_bind_ok in H as (b4 & H4 & H).
    unfold b_store_bytes in H. intros Hinv.
    assert (Hinv3 : cap_inv b3).
    { destruct ac as [[d p]|].
      - apply cap_bind_ok in H3 as (b1 & H1 & H3). apply cap_bind_ok in H3 as (b2 & H2 & H3).
        eauto using cap_inv_bits, cap_inv_uint.
      - eauto using cap_inv_bits. }
    eauto using cap_inv_bits, cap_inv_int.
Qed.

Lemma cap_inv_store1 b x b' : store1 b x = Ok b' -> cap_inv b -> cap_inv b'.
Proof.
  destruct x as [w v|w v|k v|k v|v|x|l|bs|c|oc|a]; cbn [store1].
  - apply cap_inv_uint.
  - apply cap_inv_int.
  - apply cap_inv_var_uint.
  - apply cap_inv_var_int.
  - apply cap_inv_var_uint.
  - apply cap_inv_bits.
  - apply cap_inv_bits.
  - apply cap_inv_bits.
  - apply cap_inv_ref.
  - destruct oc as [r|]; cbn [b_store_maybe_ref]; [|apply cap_inv_bits].
    intros H. apply cap_bind_ok in H as (b1 & H1 & H). eauto using cap_inv_bits, cap_inv_ref.
  - apply cap_inv_address.
Qed.

Lemma cap_inv_step b o b' : sstep b o = Ok b' -> cap_inv b -> cap_inv b'.
Proof.
  destruct o as [x|c|s|bs]; cbn [sstep].
  - apply cap_inv_store1.
  - apply cap_inv_cell.
  - apply cap_inv_slice.
  - unfold b_store_string. destruct (127 <? length bs)%nat; [discriminate|]. apply cap_inv_bits.
Qed.

Lemma cap_inv_run ops : forall b b', srun b ops = Ok b' -> cap_inv b -> cap_inv b'.
Proof.
  induction ops as [|o r IH]; intros b b' H Hinv; cbn [srun] in H.
  - inversion H. subst b'. exact Hinv.
  - apply cap_bind_ok in H as (b1 & H1 & H). eauto using cap_inv_step.
Qed.

Lemma cap_inv_empty : cap_inv b_empty.
Proof. split; cbn [b_empty b_bits b_refs length]; lia. Qed.

Lemma srun_capacity : forall ops b, srun b_empty ops = Ok b ->
  (length (b_bits b) <= 1023)%nat /\ (length (b_refs b) <= 4)%nat.
Proof. intros ops b H. exact (cap_inv_run ops _ _ H cap_inv_empty). Qed.

Lemma end_cell_limits : forall ops b c, srun b_empty ops = Ok b -> b_end_cell b = Ok c ->
  match c with Cell _ bits refs =>
    (length bits <= 1023)%nat /\ (length refs <= 4)%nat /\ (s_depth c <= 1023)%N end.
Proof.
  intros ops b c Hrun Hend. destruct (srun_capacity _ _ Hrun) as [Hb Hr].
  unfold b_end_cell in Hend.
  destruct (N.leb_spec 1024 (s_depth (Cell ty_ordinary (b_bits b) (b_refs b)))) as [Hge|Hlt];
    [discriminate|].
  inversion Hend. subst c. split; [exact Hb|]. split; [exact Hr|]. lia.
Qed.

(* ------------------------------------------------------------------ *)
(* out-of-range values are refused                                     *)
(* ------------------------------------------------------------------ *)

Lemma cap_uint_err b v w : 1 <= w -> in_uint w v = false -> b_store_uint b v w = Err EOverflow.
Proof.
  intros Hw Hin. unfold b_store_uint, int2ba. unfold in_uint in Hin.
  destruct (Z.leb_spec w 0) as [Hc|_]; [lia|]. rewrite Hin. reflexivity.
Qed.

Lemma cap_int_err b v w : 1 <= w -> in_int w v = false -> b_store_int b v w = Err EOverflow.
Proof.
  intros Hw Hin. unfold b_store_int, int2ba. unfold in_int in Hin.
  destruct (Z.leb_spec w 0) as [Hc|_]; [lia|]. rewrite Hin. reflexivity.
Qed.

Lemma cap_uint_neg_err b v w : v < 0 -> exists e, b_store_uint b v w = Err e.
Proof.
  intros Hv. unfold b_store_uint, int2ba.
  destruct (Z.leb_spec w 0) as [Hc|_]; [eexists; reflexivity|].
  destruct (Z.leb_spec 0 v) as [Hc|_]; [lia|]. eexists; reflexivity.
Qed.

Lemma cap_var_uint_err b v k : 1 <= k -> v < 0 \/ 2 ^ k <= ulen0 v ->
  exists e, b_store_var_uint b v k = Err e.
Proof.
  intros Hk Hv. unfold b_store_var_uint.
  destruct (Z.eqb_spec v 0) as [->|Hne].
  - exfalso. destruct Hv as [Hv|Hv]; [lia|]. unfold ulen0 in Hv. cbn [Z.eqb] in Hv.
    pose proof (Z.pow_pos_nonneg 2 k) as Hp. lia.
  - cbv zeta. destruct Hv as [Hv|Hv].
    + destruct (b_store_uint b (ceil8 (zbit_length v)) k) as [b1|e]; cbn [bind];
        [apply cap_uint_neg_err; exact Hv|eexists; reflexivity].
    + unfold ulen0 in Hv. destruct (Z.eqb_spec v 0) as [Hc|_]; [contradiction|].
      assert (Hpos : 0 < v).
      { destruct (Z.lt_trichotomy v 0) as [Hneg|[H0|Hpos]]; [|contradiction|exact Hpos].
        exfalso. unfold ulen in Hv. rewrite Z.log2_nonpos in Hv by lia.
        change ((0 + 8) / 8) with 1 in Hv. assert (Hp : 2 ^ 1 <= 2 ^ k) by (apply Z.pow_le_mono_r; lia).
        change (2 ^ 1) with 2 in Hp. lia. }
      rewrite cap_ulen by exact Hpos.
      rewrite cap_uint_err; [eexists; reflexivity|exact Hk|].
      unfold in_uint. apply andb_false_intro2. apply Z.ltb_ge. exact Hv.
Qed.

Lemma cap_var_int_err b v k : 1 <= k -> 2 ^ k <= slen0 v ->
  exists e, b_store_var_int b v k = Err e.
Proof.
  intros Hk Hv. unfold b_store_var_int.
  destruct (Z.eqb_spec v 0) as [->|Hne].
  - exfalso. unfold slen0 in Hv. cbn [Z.eqb] in Hv.
    pose proof (Z.pow_pos_nonneg 2 k) as Hp. lia.
  - cbv zeta. fold (cap_sblen v). rewrite cap_slen by exact Hne.
    rewrite cap_uint_err; [eexists; reflexivity|exact Hk|].
    unfold in_uint. apply andb_false_intro2. apply Z.ltb_ge. exact Hv.
Qed.

Lemma store_out_of_range : forall b x,
  match x with
  | VUint w v => 1 <= w /\ in_uint w v = false
  | VInt w v => 1 <= w /\ in_int w v = false
  | VVarUint k v => 1 <= k /\ (v < 0 \/ 2 ^ k <= ulen0 v)
  | VVarInt k v => 1 <= k /\ 2 ^ k <= slen0 v
  | VCoins v => v < 0 \/ 16 <= ulen0 v
  | _ => False
  end -> exists e, store1 b x = Err e.
Proof.
  intros b x. destruct x as [w v|w v|k v|k v|v|x|l|bs|c|oc|a]; cbn [store1]; intros H;
    try contradiction.
  - destruct H as [Hw Hin]. rewrite cap_uint_err by assumption. eexists; reflexivity.
  - destruct H as [Hw Hin]. rewrite cap_int_err by assumption. eexists; reflexivity.
  - destruct H as [Hk Hv]. apply cap_var_uint_err; assumption.
  - destruct H as [Hk Hv]. apply cap_var_int_err; assumption.
  - unfold b_store_coins. apply cap_var_uint_err; [lia|]. change (2 ^ 4) with 16. exact H.
Qed.

(* ------------------------------------------------------------------ *)
(* in-range stores are a single b_store_bits of a known length         *)
(* ------------------------------------------------------------------ *)

Definition cap_nf (f : builder -> result builder) (xs : list bool) : Prop :=
  forall b, (length (b_refs b) <= 4)%nat -> f b = b_store_bits b xs.

Lemma cap_bits2 b l1 l2 :
  bind (b_store_bits b l1) (fun b' => b_store_bits b' l2) = b_store_bits b (l1 ++ l2).
Proof.
  unfold b_store_bits.
  destruct (Nat.ltb_spec 1023 (length (b_bits b) + length l1)) as [H1|H1]; cbn [bind].
  - destruct (Nat.ltb_spec 1023 (length (b_bits b) + length (l1 ++ l2))) as [H2|H2];
      [reflexivity|]. rewrite app_length in H2. lia.
  - cbn [b_bits b_refs]. rewrite !app_length, <- app_assoc, Nat.add_assoc. reflexivity.
Qed.

Lemma cap_nf_seq f g xs ys : cap_nf f xs -> cap_nf g ys ->
  cap_nf (fun b => bind (f b) g) (xs ++ ys).
Proof.
  intros Hf Hg b Hr. rewrite (Hf b Hr), <- cap_bits2.
  destruct (b_store_bits b xs) as [b1|e] eqn:E; cbn [bind]; [|reflexivity].
  apply Hg. apply cap_bits_ok in E as [-> _]. exact Hr.
Qed.

Lemma cap_nf_bits xs : cap_nf (fun b => b_store_bits b xs) xs.
Proof. intros b _. reflexivity. Qed.

Lemma cap_nf_uint v w : 1 <= w -> in_uint w v = true ->
  cap_nf (fun b => b_store_uint b v w) (to_bits (Z.to_nat w) (Z.to_N v)).
Proof.
  intros Hw Hin b _. unfold b_store_uint, int2ba. unfold in_uint in Hin.
  destruct (Z.leb_spec w 0) as [Hc|_]; [lia|]. rewrite Hin. reflexivity.
Qed.

Lemma cap_nf_int v w : 1 <= w -> in_int w v = true ->
  cap_nf (fun b => b_store_int b v w) (to_bits_signed (Z.to_nat w) v).
Proof.
  intros Hw Hin b _. unfold b_store_int, int2ba. unfold in_int in Hin.
  destruct (Z.leb_spec w 0) as [Hc|_]; [lia|]. rewrite Hin. reflexivity.
Qed.

Lemma cap_nf_bytes bs : cap_nf (fun b => b_store_bytes b bs) (bytes_to_bits bs).
Proof. intros b _. reflexivity. Qed.

Lemma cap_in_uint_intro w v : 0 <= v -> v < 2 ^ w -> in_uint w v = true.
Proof. intros H0 H1. unfold in_uint. apply andb_true_intro. split; [apply Z.leb_le|apply Z.ltb_lt]; assumption. Qed.

Lemma cap_in_uint_elim w v : in_uint w v = true -> 0 <= v /\ v < 2 ^ w.
Proof. unfold in_uint. intros H. apply andb_prop in H as [H0 H1]. split; [apply Z.leb_le|apply Z.ltb_lt]; assumption. Qed.

Lemma cap_nf_var_uint v k : 1 <= k -> 0 <= v -> ulen0 v < 2 ^ k ->
  exists xs, length xs = (Z.to_nat k + Z.to_nat (8 * ulen0 v))%nat /\
             cap_nf (fun b => b_store_var_uint b v k) xs.
Proof.
  intros Hk Hv Hlen. unfold b_store_var_uint, ulen0 in *.
  destruct (Z.eqb_spec v 0) as [->|Hne].
  - eexists. split; [|apply cap_nf_uint; [exact Hk|apply cap_in_uint_intro; lia]].
    rewrite to_bits_length. lia.
  - cbv zeta. assert (Hpos : 0 < v) by lia. rewrite cap_ulen by exact Hpos.
    pose proof (cap_ulen_pos v Hpos) as Hu1. pose proof (cap_ulen_bound v Hpos) as Hub.
    eexists. split.
    2:{ apply cap_nf_seq; apply cap_nf_uint; try lia; apply cap_in_uint_intro; lia. }
    rewrite app_length, !to_bits_length. lia.
Qed.

Lemma cap_nf_var_int v k : 1 <= k -> slen0 v < 2 ^ k ->
  exists xs, length xs = (Z.to_nat k + Z.to_nat (8 * slen0 v))%nat /\
             cap_nf (fun b => b_store_var_int b v k) xs.
Proof.
  intros Hk Hlen. unfold b_store_var_int.
  destruct (Z.eqb_spec v 0) as [->|Hne].
  - change (slen0 0) with 0 in *.
    eexists. split; [|apply cap_nf_uint; [exact Hk|apply cap_in_uint_intro; lia]].
    rewrite to_bits_length. lia.
  - cbv zeta. fold (cap_sblen v). rewrite cap_slen by exact Hne.
    pose proof (cap_slen_pos v Hne) as Hs1. pose proof (cap_slen_range v Hne) as Hsr.
    eexists. split.
    2:{ apply cap_nf_seq; [apply cap_nf_uint|apply cap_nf_int]; try lia; try exact Hsr.
        apply cap_in_uint_intro; lia. }
    rewrite app_length, to_bits_length, cap_to_bits_signed_length. lia.
Qed.

Lemma cap_nf_addr a : addr_ok a = true ->
  exists xs, length xs = length (enc_addr a) /\ cap_nf (fun b => b_store_address b a) xs.
Proof.
  destruct a as [|v len|ac wc h]; cbn [addr_ok enc_addr b_store_address]; intros Hok.
  - eexists. split; [|apply cap_nf_bits]. reflexivity.
  - apply andb_prop in Hok as [Hok Hv]. apply andb_prop in Hok as [Hl1 Hl2].
    apply Z.leb_le in Hl1. apply Z.ltb_lt in Hl2.
    exists ([false; true] ++ to_bits 9 (Z.to_N len) ++ to_bits (Z.to_nat len) (Z.to_N v)).
    split.
    { rewrite !app_length, !to_bits_length, !cap_enc_length. reflexivity. }
    intros b Hr.
    rewrite (cap_bits_fit b_empty) by (cbn [b_empty b_bits length]; lia). cbn [bind].
    rewrite (cap_nf_uint len 9) by
      (try lia; try apply cap_in_uint_intro; try (change (2 ^ 9) with 512); cbn [b_refs b_empty length]; lia).
    rewrite cap_bits_fit by (cbn [b_empty b_bits app length]; rewrite to_bits_length; lia).
    cbn [bind].
    assert (Hst : (if negb (len =? 0)
                   then b_store_uint (mkB (b_bits (mkB (b_bits b_empty ++ [false; true]) (b_refs b_empty)) ++
                                           to_bits (Z.to_nat 9) (Z.to_N len))
                                          (b_refs (mkB (b_bits b_empty ++ [false; true]) (b_refs b_empty)))) v len
                   else if negb (v =? 0) then Err EOverflow
                   else Ok (mkB (b_bits (mkB (b_bits b_empty ++ [false; true]) (b_refs b_empty)) ++
                                 to_bits (Z.to_nat 9) (Z.to_N len))
                                (b_refs (mkB (b_bits b_empty ++ [false; true]) (b_refs b_empty)))))
                  = Ok (mkB (([false; true] ++ to_bits (Z.to_nat 9) (Z.to_N len)) ++
                             to_bits (Z.to_nat len) (Z.to_N v)) [])).
    { destruct (Z.eqb_spec len 0) as [Hl0|Hne]; cbn [negb].
      - subst len. apply cap_in_uint_elim in Hv. change (2 ^ 0) with 1 in Hv.
        assert (Hv0 : v = 0) by lia. subst v. reflexivity.
      - rewrite (cap_nf_uint v len) by (try lia; try exact Hv; cbn [b_refs b_empty length]; lia).
        rewrite cap_bits_fit by
          (cbn [b_empty b_bits app length]; rewrite ?app_length, ?to_bits_length; cbn [length]; lia).
        reflexivity. }
    rewrite Hst. clear Hst.
    cbn [bind b_bits b_refs b_empty app].
    unfold b_end_cell. cbn [b_bits b_refs s_depth]. change (1024 <=? 0)%N with false. cbn [bind].
    unfold b_store_cell. cbn [length].
    destruct (Nat.ltb_spec 4 (length (b_refs b) + 0)) as [Hc|_]; [lia|].
    change (Z.to_nat 9) with 9%nat. cbn [app]. unfold b_store_bits.
    match goal with |- context [(1023 <? ?n)%nat] => destruct (Nat.ltb_spec 1023 n) as [Ho|Hf] end;
      cbn [bind b_bits b_refs]; [reflexivity|]. rewrite app_nil_r.
    repeat rewrite <- app_assoc. reflexivity.
  - apply andb_prop in Hok as [Hok Hac]. apply andb_prop in Hok as [Hok Hby].
    apply andb_prop in Hok as [Hwc Hh]. apply Nat.eqb_eq in Hh.
    destruct ac as [[d p]|].
    + apply andb_prop in Hac as [Hac Hp]. apply andb_prop in Hac as [Hd1 Hd2].
      apply Z.leb_le in Hd1. apply Z.leb_le in Hd2.
      eexists. split.
      2:{ apply cap_nf_seq.
          - apply cap_nf_seq; [apply cap_nf_bits|].
            apply cap_nf_seq; [apply cap_nf_uint|apply cap_nf_uint]; try lia; try exact Hp.
            apply cap_in_uint_intro; [lia|]. change (2 ^ 5) with 32. lia.
          - apply cap_nf_seq; [apply cap_nf_int; [lia|exact Hwc]|apply cap_nf_bytes]. }
      rewrite !app_length, !to_bits_length, cap_to_bits_signed_length, cap_bytes_to_bits_length,
        !cap_enc_length, cap_enc_bytes_length. cbn [length]. lia.
    + eexists. split.
      2:{ apply cap_nf_seq; [apply cap_nf_bits|].
          apply cap_nf_seq; [apply cap_nf_int; [lia|exact Hwc]|apply cap_nf_bytes]. }
      rewrite !app_length, cap_to_bits_signed_length, cap_bytes_to_bits_length,
        !cap_enc_length, cap_enc_bytes_length. cbn [length]. lia.
Qed.

Lemma cap_val_nf x : tval_ok x = true ->
  (exists c, x = VRef c) \/ (exists c, x = VMaybeRef (Some c)) \/
  exists xs, length xs = length (s_enc x) /\ s_refs_of x = [] /\ cap_nf (fun b => store1 b x) xs.
Proof.
  destruct x as [w v|w v|k v|k v|v|x|l|bs|c|oc|a]; cbn [tval_ok store1 s_enc s_refs_of]; intros Hok.
  - right; right. apply andb_prop in Hok as [Hw Hin]. apply Z.leb_le in Hw.
    eexists. split; [|split; [reflexivity|apply cap_nf_uint; eassumption]].
    rewrite to_bits_length, cap_enc_length. reflexivity.
  - right; right. apply andb_prop in Hok as [Hw Hin]. apply Z.leb_le in Hw.
    eexists. split; [|split; [reflexivity|apply cap_nf_int; eassumption]].
    rewrite cap_to_bits_signed_length, cap_enc_length. reflexivity.
  - right; right. apply andb_prop in Hok as [Hok Hlen]. apply andb_prop in Hok as [Hk Hv].
    apply Z.leb_le in Hk. apply Z.leb_le in Hv. apply Z.ltb_lt in Hlen.
    destruct (cap_nf_var_uint v k Hk Hv Hlen) as (xs & Hxs & Hnf).
    exists xs. split; [|split; [reflexivity|exact Hnf]].
    rewrite Hxs, app_length, !cap_enc_length. reflexivity.
  - right; right. apply andb_prop in Hok as [Hk Hlen].
    apply Z.leb_le in Hk. apply Z.ltb_lt in Hlen.
    destruct (cap_nf_var_int v k Hk Hlen) as (xs & Hxs & Hnf).
    exists xs. split; [|split; [reflexivity|exact Hnf]].
    rewrite Hxs, app_length, !cap_enc_length. reflexivity.
  - right; right. apply andb_prop in Hok as [Hv Hlen].
    apply Z.leb_le in Hv. apply Z.ltb_lt in Hlen.
    assert (H4 : 1 <= 4) by lia. change 16 with (2 ^ 4) in Hlen.
    destruct (cap_nf_var_uint v 4 H4 Hv Hlen) as (xs & Hxs & Hnf).
    exists xs. split; [|split; [reflexivity|exact Hnf]].
    rewrite Hxs, app_length, !cap_enc_length. reflexivity.
  - right; right. exists [x]. split; [reflexivity|split; [reflexivity|apply cap_nf_bits]].
  - right; right. exists l. split; [reflexivity|split; [reflexivity|apply cap_nf_bits]].
  - right; right. exists (bytes_to_bits bs). split; [|split; [reflexivity|apply cap_nf_bytes]].
    rewrite cap_bytes_to_bits_length, cap_enc_bytes_length. reflexivity.
  - left. eexists; reflexivity.
  - destruct oc as [c|]; [right; left; eexists; reflexivity|].
    right; right. exists [false]. split; [reflexivity|split; [reflexivity|]].
    intros b _. reflexivity.
  - right; right. destruct (cap_nf_addr a Hok) as (xs & Hxs & Hnf).
    exists xs. split; [exact Hxs|split; [reflexivity|exact Hnf]].
Qed.

Lemma cap_nf_fits f xs b : cap_nf f xs -> (length (b_bits b) + length xs <= 1023)%nat ->
  (length (b_refs b) <= 4)%nat -> exists b', f b = Ok b'.
Proof. intros Hf Hb Hr. rewrite (Hf b Hr), cap_bits_fit by exact Hb. eexists; reflexivity. Qed.

Lemma cap_nf_over f xs b : cap_nf f xs -> (1023 < length (b_bits b) + length xs)%nat ->
  (length (b_refs b) <= 4)%nat -> exists e, f b = Err e.
Proof. intros Hf Hb Hr. rewrite (Hf b Hr), cap_bits_over by exact Hb. eexists; reflexivity. Qed.

Lemma store_fits : forall b o, sop_ok o = true ->
  (length (b_bits b) + need_bits o <= 1023)%nat -> (length (b_refs b) + need_refs o <= 4)%nat ->
  exists b', sstep b o = Ok b'.
Proof.
  intros b o Hok Hb Hr. destruct o as [x|c|s|bs]; cbn [sstep sop_ok need_bits need_refs] in *.
  - destruct (cap_val_nf x Hok) as [(c & ->)|[(c & ->)|(xs & Hxs & Hrf & Hnf)]].
    + cbn [store1 s_refs_of length] in *. unfold b_store_ref.
      destruct (Nat.leb_spec 4 (length (b_refs b))) as [Hc|_]; [lia|eexists; reflexivity].
    + cbn [store1 s_enc s_refs_of length b_store_maybe_ref] in *. unfold b_store_bit.
      rewrite cap_bits_fit by (cbn [length]; lia). cbn [bind]. unfold b_store_ref. cbn [b_refs b_bits].
      destruct (Nat.leb_spec 4 (length (b_refs b))) as [Hc|_]; [lia|eexists; reflexivity].
    + rewrite Hrf in Hr. cbn [length] in Hr.
      apply (cap_nf_fits (fun b => store1 b x) xs); [exact Hnf|rewrite Hxs; exact Hb|lia].
  - destruct c as [ty bits refs]. unfold b_store_cell.
    destruct (Nat.ltb_spec 4 (length (b_refs b) + length refs)) as [Hc|_]; [lia|].
    rewrite cap_bits_fit by exact Hb. cbn [bind]. eexists; reflexivity.
  - unfold b_store_slice.
    destruct (Nat.ltb_spec 4 (length (b_refs b) + length (s_refs s))) as [Hc|_]; [lia|].
    rewrite cap_bits_fit by exact Hb. cbn [bind]. eexists; reflexivity.
  - apply Nat.leb_le in Hok. unfold b_store_string.
    destruct (Nat.ltb_spec 127 (length bs)) as [Hc|_]; [lia|]. unfold b_store_bytes.
    rewrite cap_bits_fit by (rewrite cap_bytes_to_bits_length; exact Hb). eexists; reflexivity.
Qed.

(* The statement "forall b o, sop_ok o = true -> overflow -> exists e, sstep b o = Err e" is false for
   a builder that already violates the limits (which no sequence of stores can produce, srun_capacity):
   store_ref does not look at the bit count and store_bit does not look at the ref count; see
   cap_overflow_cex1/2 below.  The builder is therefore required to be within the limits. *)
Lemma store_overflows : forall b o,
  (length (b_bits b) <= 1023)%nat -> (length (b_refs b) <= 4)%nat -> sop_ok o = true ->
  (1023 < length (b_bits b) + need_bits o)%nat \/ (4 < length (b_refs b) + need_refs o)%nat ->
  exists e, sstep b o = Err e.
Proof.
  intros b o Hib Hir Hok Hov. destruct o as [x|c|s|bs]; cbn [sstep sop_ok need_bits need_refs] in *.
  - destruct (cap_val_nf x Hok) as [(c & ->)|[(c & ->)|(xs & Hxs & Hrf & Hnf)]].
    + cbn [store1 s_enc s_refs_of length] in *. unfold b_store_ref.
      destruct (Nat.leb_spec 4 (length (b_refs b))) as [_|Hc]; [eexists; reflexivity|lia].
    + cbn [store1 s_enc s_refs_of length b_store_maybe_ref] in *. unfold b_store_bit.
      destruct (b_store_bits b [true]) as [b1|e] eqn:E; cbn [bind]; [|eexists; reflexivity].
      apply cap_bits_ok in E as [-> Hle]. cbn [length] in Hle.
      unfold b_store_ref. cbn [b_refs].
      destruct (Nat.leb_spec 4 (length (b_refs b))) as [_|Hc]; [eexists; reflexivity|lia].
    + rewrite Hrf in Hov. cbn [length] in Hov.
      apply (cap_nf_over (fun b => store1 b x) xs); [exact Hnf|rewrite Hxs; lia|exact Hir].
  - destruct c as [ty bits refs]. unfold b_store_cell.
    destruct (Nat.ltb_spec 4 (length (b_refs b) + length refs)) as [_|Hc]; [eexists; reflexivity|].
    rewrite cap_bits_over by lia. eexists; reflexivity.
  - unfold b_store_slice.
    destruct (Nat.ltb_spec 4 (length (b_refs b) + length (s_refs s))) as [_|Hc]; [eexists; reflexivity|].
    rewrite cap_bits_over by lia. eexists; reflexivity.
  - unfold b_store_string.
    destruct (Nat.ltb_spec 127 (length bs)) as [_|_]; [eexists; reflexivity|]. unfold b_store_bytes.
    rewrite cap_bits_over by (rewrite cap_bytes_to_bits_length; lia). eexists; reflexivity.
Qed.

Lemma store_overflows_reachable : forall ops b o, srun b_empty ops = Ok b -> sop_ok o = true ->
  (1023 < length (b_bits b) + need_bits o)%nat \/ (4 < length (b_refs b) + need_refs o)%nat ->
  exists e, sstep b o = Err e.
Proof.
  intros ops b o Hrun. destruct (srun_capacity _ _ Hrun) as [Hb Hr]. apply store_overflows; assumption.
Qed.

(* counterexamples to the unguarded statement *)
Example cap_overflow_cex1 :
  let b := mkB (repeat true 1024) [] in let o := OVal (VRef (Cell (-1) [] [])) in
  sop_ok o = true /\ (1023 <? length (b_bits b) + need_bits o)%nat = true /\ is_ok (sstep b o) = true.
Proof. vm_compute. repeat split; reflexivity. Qed.
Example cap_overflow_cex2 :
  let c := Cell (-1) [] [] in
  let b := mkB [] [c; c; c; c; c] in let o := OVal (VBit true) in
  sop_ok o = true /\ (4 <? length (b_refs b) + need_refs o)%nat = true /\ is_ok (sstep b o) = true.
Proof. vm_compute. repeat split; reflexivity. Qed.

(* ------------------------------------------------------------------ *)
(* loads consume a prefix and depend on nothing else                   *)
(* ------------------------------------------------------------------ *)

Definition cap_pfx {A} (L : slice -> result (A * slice)) : Prop :=
  forall s v s', L s = Ok (v, s') ->
  exists pre rpre, s_bits s = pre ++ s_bits s' /\ s_refs s = rpre ++ s_refs s' /\
    forall tb tr, L (mkS (pre ++ tb) (rpre ++ tr)) = Ok (v, mkS tb tr).

Lemma cap_pfx_ret {A} (a : A) : cap_pfx (fun s => Ok (a, s)).
Proof.
  intros s v s' H. inversion H. subst v s'. exists [], []. cbn [app]. auto.
Qed.

Lemma cap_pfx_err {A} e : cap_pfx (fun _ => @Err (A * slice) e).
Proof. intros s v s' H. discriminate. Qed.

Lemma cap_pfx_bind {A B} (L : slice -> result (A * slice)) (K : A -> slice -> result (B * slice)) :
  cap_pfx L -> (forall a, cap_pfx (K a)) ->
  cap_pfx (fun s => bind (L s) (fun p => let '(a, s1) := p in K a s1)).
Proof.
  intros HL HK s v s' H. apply cap_bind_ok in H as ([a s1] & H1 & H2).
  destruct (HL _ _ _ H1) as (p1 & r1 & Hb1 & Hr1 & Hp1).
  destruct (HK a _ _ _ H2) as (p2 & r2 & Hb2 & Hr2 & Hp2).
  exists (p1 ++ p2), (r1 ++ r2).
  split; [rewrite Hb1, Hb2; apply app_assoc|].
  split; [rewrite Hr1, Hr2; apply app_assoc|].
  intros tb tr. rewrite <- !app_assoc, Hp1. cbn [bind]. apply Hp2.
Qed.

Lemma cap_pfx_map {A B} (f : A -> B) (L : slice -> result (A * slice)) :
  cap_pfx L -> cap_pfx (fun s => rmap (fun p => let '(v, s') := p in (f v, s')) (L s)).
Proof.
  intros HL s v s' H. destruct (L s) as [[a s1]|e] eqn:E; cbn [rmap] in H; [|discriminate].
  inversion H. subst v s'. destruct (HL _ _ _ E) as (p1 & r1 & Hb1 & Hr1 & Hp1).
  exists p1, r1. split; [exact Hb1|]. split; [exact Hr1|].
  intros tb tr. rewrite Hp1. reflexivity.
Qed.

Lemma cap_skip_ok s n s' : s_skip s n = Ok s' ->
  s' = mkS (skipn n (s_bits s)) (s_refs s) /\ length (firstn n (s_bits s)) = n.
Proof.
  unfold s_skip. destruct (Nat.ltb_spec (length (s_bits s)) n) as [Hlt|Hge]; intros H; [discriminate|].
  inversion H. split; [reflexivity|]. rewrite firstn_length. lia.
Qed.

Lemma cap_skip_pre pre tb tr : s_skip (mkS (pre ++ tb) tr) (length pre) = Ok (mkS tb tr).
Proof.
  unfold s_skip. cbn [s_bits s_refs]. rewrite app_length.
  destruct (Nat.ltb_spec (length pre + length tb) (length pre)) as [Hlt|Hge]; [lia|].
  rewrite cap_skipn_app. reflexivity.
Qed.

Lemma cap_pfx_uint n : cap_pfx (fun s => s_load_uint s n).
Proof.
  intros s v s' H. unfold s_load_uint in H.
  apply cap_bind_ok in H as (v0 & Hv & H). apply cap_bind_ok in H as (s0 & Hs & H).
  inversion H. subst v0 s0. apply cap_skip_ok in Hs as [-> Hlen]. unfold s_preload_uint in Hv.
  exists (firstn n (s_bits s)), []. cbn [s_bits s_refs app].
  split; [symmetry; apply firstn_skipn|]. split; [reflexivity|].
  intros tb tr.
  assert (Hp : s_load_uint (mkS (firstn n (s_bits s) ++ tb) tr) (length (firstn n (s_bits s)))
               = Ok (v, mkS tb tr)).
  { unfold s_load_uint, s_preload_uint. cbn [s_bits]. rewrite cap_firstn_app, Hv. cbn [bind].
    rewrite cap_skip_pre. reflexivity. }
  rewrite Hlen in Hp. exact Hp.
Qed.

Lemma cap_pfx_int n : cap_pfx (fun s => s_load_int s n).
Proof.
  intros s v s' H. unfold s_load_int in H.
  apply cap_bind_ok in H as (v0 & Hv & H). apply cap_bind_ok in H as (s0 & Hs & H).
  inversion H. subst v0 s0. apply cap_skip_ok in Hs as [-> Hlen]. unfold s_preload_int in Hv.
  exists (firstn n (s_bits s)), []. cbn [s_bits s_refs app].
  split; [symmetry; apply firstn_skipn|]. split; [reflexivity|].
  intros tb tr.
  assert (Hp : s_load_int (mkS (firstn n (s_bits s) ++ tb) tr) (length (firstn n (s_bits s)))
               = Ok (v, mkS tb tr)).
  { unfold s_load_int, s_preload_int. cbn [s_bits]. rewrite cap_firstn_app, Hv. cbn [bind].
    rewrite cap_skip_pre. reflexivity. }
  rewrite Hlen in Hp. exact Hp.
Qed.

Lemma cap_pfx_bits n : cap_pfx (fun s => s_load_bits s n).
Proof.
  intros s v s' H. unfold s_load_bits in H.
  apply cap_bind_ok in H as (s0 & Hs & H).
  inversion H. subst v s0. apply cap_skip_ok in Hs as [-> Hlen]. unfold s_preload_bits.
  exists (firstn n (s_bits s)), []. cbn [s_bits s_refs app].
  split; [symmetry; apply firstn_skipn|]. split; [reflexivity|].
  intros tb tr.
  assert (Hp : s_load_bits (mkS (firstn n (s_bits s) ++ tb) tr) (length (firstn n (s_bits s)))
               = Ok (firstn n (s_bits s), mkS tb tr)).
  { unfold s_load_bits, s_preload_bits. cbn [s_bits]. rewrite cap_firstn_app, cap_skip_pre.
    reflexivity. }
  rewrite Hlen in Hp. exact Hp.
Qed.

Lemma cap_pfx_bytes n : cap_pfx (fun s => s_load_bytes s n).
Proof.
  intros s v s' H. unfold s_load_bytes in H.
  apply cap_bind_ok in H as (s0 & Hs & H).
  inversion H. subst v s0. apply cap_skip_ok in Hs as [-> Hlen]. unfold s_preload_bytes.
  exists (firstn (n * 8) (s_bits s)), []. cbn [s_bits s_refs app].
  split; [symmetry; apply firstn_skipn|]. split; [reflexivity|].
  intros tb tr. unfold s_load_bytes, s_preload_bytes. cbn [s_bits].
  remember (firstn (n * 8) (s_bits s)) as pre eqn:Hpre. rewrite <- Hlen.
  rewrite cap_firstn_app, cap_skip_pre. reflexivity.
Qed.

Lemma cap_pfx_bit : cap_pfx s_load_bit.
Proof.
  intros [bits refs] v s' H. unfold s_load_bit, s_preload_bit, s_skip in H. cbn [s_bits s_refs] in H.
  destruct bits as [|x rest]; cbn [bind length skipn] in H; [discriminate|].
  destruct (Nat.ltb_spec (S (length rest)) 1) as [Hlt|_]; [lia|]. cbn [bind] in H.
  inversion H. subst v s'. exists [x], []. cbn [s_bits s_refs app].
  split; [reflexivity|]. split; [reflexivity|]. intros tb tr.
  unfold s_load_bit, s_preload_bit, s_skip. cbn [s_bits s_refs bind length skipn].
  destruct (Nat.ltb_spec (S (length tb)) 1) as [Hlt|_]; [lia|]. reflexivity.
Qed.

Lemma cap_pfx_ref : cap_pfx s_load_ref.
Proof.
  intros [bits refs] v s' H. unfold s_load_ref in H. cbn [s_bits s_refs] in H.
  destruct refs as [|r rs]; [discriminate|]. inversion H. subst v s'.
  exists [], [r]. cbn [s_bits s_refs app]. auto.
Qed.

Lemma cap_pfx_var signed bl : cap_pfx (fun s => s_load_var signed s bl).
Proof.
  unfold s_load_var. apply cap_pfx_bind; [apply cap_pfx_uint|].
  intros len. cbv beta. destruct (len =? 0); [apply cap_pfx_ret|].
  destruct signed; [apply cap_pfx_int|apply cap_pfx_uint].
Qed.

Lemma cap_pfx_maybe_ref : cap_pfx s_load_maybe_ref.
Proof.
  unfold s_load_maybe_ref. apply cap_pfx_bind; [apply cap_pfx_bit|].
  intros x. cbv beta. destruct x; [|apply cap_pfx_ret].
  apply cap_pfx_bind; [apply cap_pfx_ref|]. intros r. apply cap_pfx_ret.
Qed.

Lemma cap_pfx_address : cap_pfx s_load_address.
Proof.
  unfold s_load_address. apply cap_pfx_bind; [apply cap_pfx_uint|].
  intros tag. cbv beta. destruct (tag =? 0); [apply cap_pfx_ret|].
  destruct (tag =? 1).
  - apply cap_pfx_bind; [apply cap_pfx_uint|]. intros len. cbv beta.
    apply cap_pfx_bind; [|intros v; apply cap_pfx_ret].
    destruct (len =? 0); cbn [negb]; [apply cap_pfx_ret|apply cap_pfx_uint].
  - apply cap_pfx_bind; [apply cap_pfx_bit|]. intros anyc. cbv beta.
    apply cap_pfx_bind.
    + destruct anyc; [|apply cap_pfx_ret].
      apply cap_pfx_bind; [apply cap_pfx_uint|]. intros depth. cbv beta.
      destruct (depth <? 1); [apply cap_pfx_err|].
      apply cap_pfx_bind; [apply cap_pfx_uint|]. intros pfx. apply cap_pfx_ret.
    + intros ac. cbv beta. destruct (tag =? 2); [|apply cap_pfx_err].
      apply cap_pfx_bind; [apply cap_pfx_int|]. intros wc. cbv beta.
      apply cap_pfx_bind; [apply cap_pfx_bytes|]. intros h. apply cap_pfx_ret.
Qed.

Lemma cap_pfx_load1 t : cap_pfx (fun s => load1 s t).
Proof.
  destruct t as [w|w|k|k| | |n|n| | |]; cbn [load1]; apply cap_pfx_map.
  - apply cap_pfx_uint.
  - apply cap_pfx_int.
  - apply (cap_pfx_var false).
  - apply (cap_pfx_var true).
  - apply (cap_pfx_var false).
  - apply cap_pfx_bit.
  - apply cap_pfx_bits.
  - apply cap_pfx_bytes.
  - apply cap_pfx_ref.
  - apply cap_pfx_maybe_ref.
  - apply cap_pfx_address.
Qed.

Lemma load_consumes_prefix : forall s t v s', load1 s t = Ok (v, s') ->
  exists pre rpre, s_bits s = pre ++ s_bits s' /\ s_refs s = rpre ++ s_refs s' /\
                   load1 (mkS pre rpre) t = Ok (v, mkS [] []).
Proof.
  intros s t v s' H. destruct (cap_pfx_load1 t s v s' H) as (pre & rpre & Hb & Hr & Hp).
  exists pre, rpre. split; [exact Hb|]. split; [exact Hr|].
  specialize (Hp [] []). rewrite !app_nil_r in Hp. exact Hp.
Qed.

(* ------------------------------------------------------------------ *)
(* reading past the end raises                                         *)
(* ------------------------------------------------------------------ *)

Lemma cap_skip_err s n : (length (s_bits s) < n)%nat -> s_skip s n = Err EUnderflow.
Proof.
  intros Hlt. unfold s_skip.
  destruct (Nat.ltb_spec (length (s_bits s)) n) as [_|Hge]; [reflexivity|lia].
Qed.

Lemma overread_raises : forall s,
  (forall n, (length (s_bits s) < n)%nat ->
     (exists e, s_load_bits s n = Err e) /\ (exists e, s_load_uint s n = Err e) /\
     (exists e, s_load_int s n = Err e)) /\
  (forall n, (length (s_bits s) < n * 8)%nat -> exists e, s_load_bytes s n = Err e) /\
  (s_bits s = [] -> exists e, s_load_bit s = Err e) /\
  (s_refs s = [] -> exists e, s_load_ref s = Err e).
Proof.
  intros s. split; [|split; [|split]].
  - intros n Hlt. split; [|split].
    + unfold s_load_bits. rewrite cap_skip_err by exact Hlt. eexists; reflexivity.
    + unfold s_load_uint. destruct (s_preload_uint s n) as [v|e]; cbn [bind];
        [rewrite cap_skip_err by exact Hlt|]; eexists; reflexivity.
    + unfold s_load_int. destruct (s_preload_int s n) as [v|e]; cbn [bind];
        [rewrite cap_skip_err by exact Hlt|]; eexists; reflexivity.
  - intros n Hlt. unfold s_load_bytes. rewrite cap_skip_err by exact Hlt. eexists; reflexivity.
  - intros Hnil. unfold s_load_bit, s_preload_bit. rewrite Hnil. eexists; reflexivity.
  - intros Hnil. unfold s_load_ref. rewrite Hnil. eexists; reflexivity.
Qed.
