(* Proofs for C12: check_block_signatures accepts exactly the signature sets of distinct, known,
   correctly signing validators with more than 2/3 of the total weight.
   Everything is proved for an arbitrary hash [H] and an arbitrary verification predicate [verify]. *)
From Coq Require Import NArith ZArith List Bool Lia ZifyN ZifyBool ZifyNat.
From PTQ Require Import Base.Result Base.Bytes Model.Cell Model.Signatures Proofs.CellOrd.
Import ListNotations.
Local Open Scope N_scope.

Section SigProofs.
  Variable H : list N -> list N.
  Variable verify : list N -> list N -> list N -> bool.

  (* ---- node_lookup ---- *)

  Lemma node_lookup_some : forall nodes id v,
    node_lookup H nodes id = Some v -> In v nodes /\ node_id_short H (v_pk v) = id.
  Proof.
    induction nodes as [|x r IH]; intros id v; cbn [node_lookup].
    - discriminate.
    - destruct (node_lookup H r id) as [w|] eqn:Er.
      + intro Hl. inversion Hl; subst w. destruct (IH id v Er) as [Hin Hid].
        split; [right; exact Hin|exact Hid].
      + destruct (bytes_eqb (node_id_short H (v_pk x)) id) eqn:Eb; [|discriminate].
        intro Hl. inversion Hl; subst x. apply bytes_eqb_eq in Eb.
        split; [left; reflexivity|exact Eb].
  Qed.

  Lemma node_lookup_unique : forall nodes v,
    NoDup (map (fun v => node_id_short H (v_pk v)) nodes) -> In v nodes ->
    node_lookup H nodes (node_id_short H (v_pk v)) = Some v.
  Proof.
    induction nodes as [|x r IH]; intros v Hnd Hin; [destruct Hin|].
    cbn [map] in Hnd. inversion Hnd as [|? ? Hnotin Hnd']; subst.
    cbn [node_lookup]. destruct Hin as [Hx|Hin].
    - subst x.
      destruct (node_lookup H r (node_id_short H (v_pk v))) as [w|] eqn:Er.
      + exfalso. apply node_lookup_some in Er. destruct Er as [Hw Hid].
        apply Hnotin. rewrite <- Hid.
        apply (in_map (fun v => node_id_short H (v_pk v))). exact Hw.
      + assert (Hb : bytes_eqb (node_id_short H (v_pk v)) (node_id_short H (v_pk v)) = true)
          by (apply bytes_eqb_eq; reflexivity).
        rewrite Hb. reflexivity.
    - rewrite (IH v Hnd' Hin). reflexivity.
  Qed.

  Lemma existsb_bytes_in : forall id seen, existsb (bytes_eqb id) seen = true <-> In id seen.
  Proof.
    intros id seen. rewrite existsb_exists. split.
    - intros [x [Hin Hb]]. apply bytes_eqb_eq in Hb. subst x. exact Hin.
    - intro Hin. exists id. split; [exact Hin|]. apply bytes_eqb_eq. reflexivity.
  Qed.

  (* ---- the loop ---- *)

  Definition entry_ok (nodes : list vdesc) (msg : list N) (e : sig_entry) : Prop :=
    exists v, node_lookup H nodes (fst e) = Some v /\ verify (v_pk v) msg (snd e) = true.

  Definition sig_sum (nodes : list vdesc) (sigs : list sig_entry) : N :=
    fold_right (fun e a => weight_of H nodes (fst e) + a) 0 sigs.

  Lemma sig_loop_ok : forall nodes msg sigs seen w w',
    sig_loop H verify nodes msg sigs seen w = Ok w' <->
    (NoDup (map fst sigs) /\
     (forall id, In id (map fst sigs) -> ~ In id seen) /\
     Forall (entry_ok nodes msg) sigs /\
     w' = w + sig_sum nodes sigs).
  Proof.
    intros nodes msg. induction sigs as [|[id sg] r IH]; intros seen w w'.
    - cbn [sig_loop map sig_sum fold_right]. split.
      + intro Hok. inversion Hok; subst w'. split; [constructor|].
        split; [intros id' []|]. split; [constructor|lia].
      + intros (_ & _ & _ & Hw). subst w'. f_equal. lia.
    - cbn [sig_loop map fst sig_sum fold_right].
      destruct (node_lookup H nodes id) as [v|] eqn:El.
      + destruct (existsb (bytes_eqb id) seen) eqn:Es.
        * split; [discriminate|]. intros (_ & Hdis & _ & _). exfalso.
          apply existsb_bytes_in in Es. apply (Hdis id); [left; reflexivity|exact Es].
        * assert (Hns : ~ In id seen).
          { intro Hin. apply existsb_bytes_in in Hin. rewrite Hin in Es. discriminate. }
          destruct (verify (v_pk v) msg sg) eqn:Ev.
          -- rewrite IH. fold (sig_sum nodes r). split.
             ++ intros (Hnd & Hdis & Hall & Hw). split.
                { constructor; [|exact Hnd]. intro Hin. apply (Hdis id Hin). left; reflexivity. }
                split.
                { intros id' [Heq|Hin]; [subst id'; exact Hns|].
                  intro Hs. apply (Hdis id' Hin). right; exact Hs. }
                split.
                { constructor; [|exact Hall]. exists v. cbn [fst snd]. split; [exact El|exact Ev]. }
                unfold weight_of. rewrite El. lia.
             ++ intros (Hnd & Hdis & Hall & Hw).
                inversion Hnd as [|? ? Hnotin Hnd']; subst.
                inversion Hall as [|? ? _ Hall']; subst. split; [exact Hnd'|].
                split.
                { intros id' Hin [Heq|Hs].
                  - subst id'. apply Hnotin. exact Hin.
                  - apply (Hdis id'); [right; exact Hin|exact Hs]. }
                split; [exact Hall'|].
                unfold weight_of. rewrite El. lia.
          -- split; [discriminate|]. intros (_ & _ & Hall & _). exfalso.
             inversion Hall as [|? ? [v' [Hl' Hv']] _]; subst. cbn [fst snd] in Hl', Hv'.
             rewrite El in Hl'. inversion Hl'; subst v'. rewrite Ev in Hv'. discriminate.
      + split; [discriminate|]. intros (_ & _ & Hall & _). exfalso.
        inversion Hall as [|? ? [v' [Hl' _]] _]; subst. cbn [fst] in Hl'.
        rewrite El in Hl'. discriminate.
  Qed.

  (* what an accepted set looks like, with no assumption on the validator list *)
  Lemma check_ok_inv : forall nodes sigs root file,
    check_block_signatures H verify nodes sigs root file = Ok tt ->
    NoDup (map fst sigs) /\
    Forall (entry_ok nodes (to_sign root file)) sigs /\
    2 * total_weight nodes < 3 * sig_sum nodes sigs.
  Proof.
    intros nodes sigs root file. unfold check_block_signatures.
    destruct (sig_loop H verify nodes (to_sign root file) sigs [] 0) as [s|e] eqn:El;
      cbn [bind]; [|discriminate].
    destruct (2 * total_weight nodes <? 3 * s) eqn:Et; [|discriminate].
    intros _. apply sig_loop_ok in El. destruct El as (Hnd & _ & Hall & Hs).
    split; [exact Hnd|]. split; [exact Hall|]. apply N.ltb_lt in Et. lia.
  Qed.

  (* ---- the theorems of Props/C12.v ---- *)

  Lemma check_iff_accept_sec : forall nodes sigs root file,
    NoDup (map (fun v => node_id_short H (v_pk v)) nodes) ->
    (check_block_signatures H verify nodes sigs root file = Ok tt <->
     s_accept H verify nodes sigs root file).
  Proof.
    intros nodes sigs root file Hnodes. unfold s_accept. split.
    - intro Hc. apply check_ok_inv in Hc. destruct Hc as (Hnd & Hall & Ht).
      split; [exact Hnd|]. split; [|exact Ht].
      apply (Forall_impl _ (P := entry_ok nodes (to_sign root file))); [|exact Hall].
      intros e [v [Hl Hv]]. apply node_lookup_some in Hl. destruct Hl as [Hin Hid].
      exists v. split; [exact Hin|]. split; [exact Hid|exact Hv].
    - intros (Hnd & Hall & Ht). unfold check_block_signatures.
      assert (El : sig_loop H verify nodes (to_sign root file) sigs [] 0
                   = Ok (0 + sig_sum nodes sigs)).
      { apply sig_loop_ok. split; [exact Hnd|]. split; [intros id _ []|]. split; [|reflexivity].
        apply (Forall_impl _ (P := fun e : sig_entry => exists v, In v nodes /\
                 node_id_short H (v_pk v) = fst e /\
                 verify (v_pk v) (to_sign root file) (snd e) = true)); [|exact Hall].
        intros e [v [Hin [Hid Hv]]]. exists v. split; [|exact Hv].
        rewrite <- Hid. apply node_lookup_unique; assumption. }
      rewrite El. cbn [bind].
      assert (Et : (2 * total_weight nodes <? 3 * (0 + sig_sum nodes sigs)) = true).
      { apply N.ltb_lt. unfold sig_sum. lia. }
      rewrite Et. reflexivity.
  Qed.

  Lemma empty_validator_set_rejected_sec : forall sigs root file,
    check_block_signatures H verify [] sigs root file <> Ok tt.
  Proof.
    intros [|[id sg] r] root file; unfold check_block_signatures;
      cbn [sig_loop node_lookup bind total_weight fold_left].
    - change (2 * 0 <? 3 * 0) with false. discriminate.
    - discriminate.
  Qed.

  Lemma duplicate_signer_rejected_sec : forall nodes s1 e s2 sg' s3 root file,
    check_block_signatures H verify nodes (s1 ++ e :: s2 ++ (fst e, sg') :: s3) root file <> Ok tt.
  Proof.
    intros nodes s1 e s2 sg' s3 root file Hc.
    apply check_ok_inv in Hc. destruct Hc as (Hnd & _ & _).
    rewrite map_app in Hnd. cbn [map] in Hnd. apply NoDup_remove_2 in Hnd. apply Hnd.
    apply in_or_app. right. rewrite map_app. apply in_or_app. right. left. reflexivity.
  Qed.

  Lemma invalid_signature_rejected_sec : forall nodes sigs root file id sg v,
    In (id, sg) sigs -> node_lookup H nodes id = Some v ->
    verify (v_pk v) (to_sign root file) sg = false ->
    check_block_signatures H verify nodes sigs root file <> Ok tt.
  Proof.
    intros nodes sigs root file id sg v Hin Hl Hv Hc.
    apply check_ok_inv in Hc. destruct Hc as (_ & Hall & _).
    rewrite Forall_forall in Hall. destruct (Hall _ Hin) as [v' [Hl' Hv']].
    cbn [fst snd] in Hl', Hv'. rewrite Hl in Hl'. inversion Hl'; subst v'.
    rewrite Hv in Hv'. discriminate.
  Qed.

  Lemma unknown_signer_rejected_sec : forall nodes sigs root file id sg,
    In (id, sg) sigs -> node_lookup H nodes id = None ->
    check_block_signatures H verify nodes sigs root file <> Ok tt.
  Proof.
    intros nodes sigs root file id sg Hin Hl Hc.
    apply check_ok_inv in Hc. destruct Hc as (_ & Hall & _).
    rewrite Forall_forall in Hall. destruct (Hall _ Hin) as [v' [Hl' _]].
    cbn [fst] in Hl'. rewrite Hl in Hl'. discriminate.
  Qed.
End SigProofs.

(* the statements exactly as Props/C12.v quotes them *)
Lemma check_iff_accept : forall H verify nodes sigs root file,
  NoDup (map (fun v => node_id_short H (v_pk v)) nodes) ->
  (check_block_signatures H verify nodes sigs root file = Ok tt <-> s_accept H verify nodes sigs root file).
Proof. exact check_iff_accept_sec. Qed.

Lemma empty_validator_set_rejected : forall H verify sigs root file,
  check_block_signatures H verify [] sigs root file <> Ok tt.
Proof. exact empty_validator_set_rejected_sec. Qed.

Lemma duplicate_signer_rejected : forall H verify nodes s1 e s2 sg' s3 root file,
  check_block_signatures H verify nodes (s1 ++ e :: s2 ++ (fst e, sg') :: s3) root file <> Ok tt.
Proof. exact duplicate_signer_rejected_sec. Qed.

Lemma invalid_signature_rejected : forall H verify nodes sigs root file id sg v,
  In (id, sg) sigs -> node_lookup H nodes id = Some v ->
  verify (v_pk v) (to_sign root file) sg = false ->
  check_block_signatures H verify nodes sigs root file <> Ok tt.
Proof. exact invalid_signature_rejected_sec. Qed.

Lemma unknown_signer_rejected : forall H verify nodes sigs root file id sg,
  In (id, sg) sigs -> node_lookup H nodes id = None ->
  check_block_signatures H verify nodes sigs root file <> Ok tt.
Proof. exact unknown_signer_rejected_sec. Qed.
