(* C05 / C03 proofs: the BoC parser (Model/Boc.v) accepts everything the strict decoder of the format
   (Spec/BocFormat.v) accepts, with the same result; bad references are rejected; a constructed cell
   determines its tree. *)
From Coq Require Import NArith ZArith List Bool Lia ZifyBool ZifyNat ZifyN.
From PTQ Require Import Base.Result Base.Bytes Base.Bits Spec.Crc Model.Crc Proofs.CrcProofs
  Model.Cell Proofs.CellOrd Model.Boc Spec.BocFormat.
Import ListNotations.
Local Open Scope N_scope.

(* ------------------------------------------------------------------ *)
(* generic list / result facts                                         *)
(* ------------------------------------------------------------------ *)
Lemma skipn_skipn' {A} : forall (i j : nat) (l : list A), skipn j (skipn i l) = skipn (i + j) l.
Proof.
  induction i as [|i IH]; intros j l; [reflexivity|].
  destruct l as [|x l]; [destruct j; reflexivity|].
  cbn [skipn Nat.add]. apply IH.
Qed.

Lemma skipn_cons_nth {A} : forall (i : nat) (l : list A) x r,
  skipn i l = x :: r -> nth_error l i = Some x /\ skipn (S i) l = r /\ (i < length l)%nat.
Proof.
  induction i as [|i IH]; intros l x r E.
  - destruct l as [|y l]; [discriminate|]. cbn [skipn] in E. injection E as -> ->.
    cbn [nth_error skipn length]. repeat split; lia.
  - destruct l as [|y l]; [discriminate|]. cbn [skipn] in E.
    destruct (IH l x r E) as (E1 & E2 & E3). cbn [nth_error length]. repeat split; try assumption; lia.
Qed.

Lemma mapM_ok_in {A B} (f : A -> result B) : forall l ys x,
  mapM f l = Ok ys -> In x l -> exists y, f x = Ok y.
Proof.
  induction l as [|a l IH]; intros ys x E Hin; [destruct Hin|].
  cbn [mapM] in E. destruct (f a) as [y|e] eqn:Ea; [|discriminate]. cbn [bind] in E.
  destruct (mapM f l) as [ys'|e] eqn:El; [|discriminate].
  destruct Hin as [->|Hin]; [eauto|]. eapply IH; eauto.
Qed.

Lemma Forall2_len {A B} (P : A -> B -> Prop) : forall l1 l2, Forall2 P l1 l2 -> length l1 = length l2.
Proof. induction 1; cbn [length]; congruence. Qed.

Lemma Forall2_nth_error {A B} (P : A -> B -> Prop) : forall l1 l2, Forall2 P l1 l2 ->
  forall (j : nat) (d : B), (j < length l1)%nat -> exists a, nth_error l1 j = Some a /\ P a (nth j l2 d).
Proof.
  induction 1 as [|a b l1 l2 Hab Hl IH]; intros j d Hj; [cbn in Hj; lia|].
  destruct j as [|j]; [exists a; split; [reflexivity|exact Hab]|].
  cbn [length] in Hj. destruct (IH j d) as (a' & E & Pa); [lia|]. exists a'. split; assumption.
Qed.

(* ------------------------------------------------------------------ *)
(* strict decoder vs parser: reading primitives                        *)
(* ------------------------------------------------------------------ *)
(* ---- take / slice ---- *)
Lemma take_skipn n i d x r : take n (skipn i d) = Some (x, r) -> (i <= length d)%nat ->
  x = slice d i (i + n) /\ r = skipn (i + n) d /\ (i + n <= length d)%nat.
Proof.
  unfold take. rewrite skipn_length. intros E Hi.
  destruct (length d - i <? n)%nat eqn:El; [discriminate|]. injection E as <- <-.
  unfold slice. replace (i + n - i)%nat with n by lia. rewrite skipn_skipn'.
  repeat split; lia.
Qed.

Lemma take_uint_skipn w i d v r : take_uint w (skipn i d) = Some (v, r) -> (i <= length d)%nat ->
  v = of_be (slice d i (i + w)) /\ r = skipn (i + w) d /\ (i + w <= length d)%nat.
Proof.
  unfold take_uint. intros E Hi. destruct (take w (skipn i d)) as [[x r']|] eqn:Et; [|discriminate].
  injection E as <- <-. destruct (take_skipn _ _ _ _ _ Et Hi) as (-> & -> & L). auto.
Qed.

Lemma take_uints_skipn w d : forall n i xs r, take_uints n w (skipn i d) = Some (xs, r) -> (i <= length d)%nat ->
  xs = read_uints d i w n /\ r = skipn (i + n * w) d /\ (i + n * w <= length d)%nat.
Proof.
  induction n as [|n IH]; intros i xs r E Hi.
  - cbn [take_uints] in E. injection E as <- <-. cbn [read_uints]. rewrite Nat.add_0_r. auto.
  - cbn [take_uints] in E.
    destruct (take_uint w (skipn i d)) as [[x r1]|] eqn:E1; [|discriminate].
    destruct (take_uint_skipn _ _ _ _ _ E1 Hi) as (-> & -> & L1).
    destruct (take_uints n w (skipn (i + w) d)) as [[xs' r']|] eqn:E2; [|discriminate].
    injection E as <- <-. destruct (IH _ _ _ E2 L1) as (-> & -> & L2).
    cbn [read_uints]. repeat split; [f_equal; lia|lia].
Qed.

(* ---- completion tag ---- *)
Fixpoint drop_tag (l : list bool) (k : nat) {struct l} : option (list bool) :=
  match k with
  | O => None
  | S k' => match l with
            | true :: r => Some (rev r)
            | false :: r => drop_tag r k'
            | [] => None
            end
  end.

Fixpoint find_tag (bits : list bool) (n j k : nat) : option nat :=
  match j with
  | O => None
  | S j' => if nth (n - k) bits false then Some (n - k)%nat else find_tag bits n j' (S k)
  end.

Lemma s_untag_eq bytes aug : s_untag bytes aug =
  let bits := bytes_to_bits bytes in
  if negb aug then Some bits else match rev bits with [] => None | _ => drop_tag (rev bits) 7 end.
Proof. reflexivity. Qed.

Lemma strip_tag_eq bits : strip_tag bits =
  match find_tag bits (length bits) 7 1 with Some e => firstn e bits | None => bits end.
Proof. reflexivity. Qed.

Lemma drop_tag_spec : forall k l out, drop_tag l k = Some out ->
  exists z r, (z < k)%nat /\ l = repeat false z ++ true :: r /\ out = rev r.
Proof.
  induction k as [|k IH]; intros l out E; [destruct l; discriminate|].
  destruct l as [|[|] l]; cbn [drop_tag] in E; [discriminate| |].
  - injection E as <-. exists 0%nat, l. repeat split. lia.
  - destruct (IH _ _ E) as (z & r & Hz & -> & ->). exists (S z), r. repeat split. lia.
Qed.

Lemma find_tag_spec pre z : forall j k, (1 <= k)%nat -> (k <= z + 1)%nat -> (z + 1 < k + j)%nat ->
  find_tag (pre ++ true :: repeat false z) (length (pre ++ true :: repeat false z)) j k = Some (length pre).
Proof.
  assert (Hn : length (pre ++ true :: repeat false z) = (length pre + 1 + z)%nat).
  { rewrite app_length. cbn [length]. rewrite repeat_length. lia. }
  rewrite Hn.
  induction j as [|j IH]; intros k H1 H2 H3; [lia|].
  cbn [find_tag].
  destruct (Nat.eq_dec k (z + 1)) as [->|Hne].
  - replace (length pre + 1 + z - (z + 1))%nat with (length pre) by lia.
    rewrite app_nth2 by lia. rewrite Nat.sub_diag. reflexivity.
  - rewrite app_nth2 by lia.
    replace (length pre + 1 + z - k - length pre)%nat with (S (z - k)) by lia.
    cbn [nth]. rewrite nth_repeat. apply IH; lia.
Qed.

Lemma rev_repeat' {A} (a : A) n : rev (repeat a n) = repeat a n.
Proof.
  induction n as [|n IH]; [reflexivity|]. cbn [repeat rev]. rewrite IH.
  clear IH. induction n as [|n IH]; [reflexivity|]. cbn [repeat app]. f_equal. exact IH.
Qed.

Lemma untag_agree data aug bits : s_untag data aug = Some bits ->
  (if aug && negb (length (bytes_to_bits data) =? 0)%nat then strip_tag (bytes_to_bits data)
   else bytes_to_bits data) = bits.
Proof.
  rewrite s_untag_eq. cbv zeta. set (b0 := bytes_to_bits data).
  destruct aug; cbn [negb andb]; [|intro E; injection E as <-; reflexivity].
  intro E. destruct (rev b0) as [|x l] eqn:Er; [discriminate|].
  destruct (drop_tag_spec _ _ _ E) as (z & r & Hz & Hl & ->).
  assert (Hb : b0 = rev r ++ true :: repeat false z).
  { rewrite <- (rev_involutive b0), Er, Hl, rev_app_distr. cbn [rev]. rewrite rev_repeat', <- app_assoc. reflexivity. }
  rewrite Hb. 
  assert (Hlen : (length (rev r ++ true :: repeat false z) =? 0)%nat = false).
  { rewrite app_length. cbn [length]. apply Nat.eqb_neq. lia. }
  rewrite Hlen. cbn [negb]. rewrite strip_tag_eq, find_tag_spec by lia.
  rewrite firstn_app, Nat.sub_diag, firstn_all. cbn [firstn]. apply app_nil_r.
Qed.

(*CELLS*)

Section Accept.
  Variable H : list N -> list N.

  (* ------------------------------------------------------------------ *)
  (* 1. a constructed cell determines its tree                           *)
  (* ------------------------------------------------------------------ *)
  Lemma mk_cell_shape ty bits refs k : mk_cell H ty bits refs = Ok k ->
    exists m hs ds, k = KCell ty bits refs m hs ds.
  Proof.
    unfold mk_cell. intro E.
    destruct (resolve_mask ty bits refs) as [mask|e]; [|discriminate]. cbn [bind] in E.
    match type of E with bind ?X _ = _ => destruct X as [[[hi hs] ds]|e]; [|discriminate] end.
    cbn [bind] in E.
    destruct (refs_descriptor (length refs) (is_exotic ty) mask) as [x|e]; [|discriminate]. cbn [bind] in E.
    destruct (bits_descriptor (length bits)) as [y|e]; [|discriminate]. cbn [bind] in E.
    destruct hs as [|h0 hs]; [discriminate|]. injection E as <-. eauto.
  Qed.

  Lemma mapM'_build_tree : forall rs ks,
    Forall (fun t => forall k, build H t = Ok k -> k_tree k = t) rs ->
    mapM' (build H) rs = Ok ks -> map k_tree ks = rs.
  Proof.
    induction rs as [|r rs IH]; intros ks HF E.
    - cbn [mapM'] in E. injection E as <-. reflexivity.
    - cbn [mapM'] in E. inversion HF as [|? ? Hr HF']; subst.
      destruct (build H r) as [k|e] eqn:Er; [|discriminate]. cbn [bind] in E.
      destruct (mapM' (build H) rs) as [ks'|e] eqn:Ers; [|discriminate]. cbn [bind] in E.
      injection E as <-. cbn [map]. f_equal; [apply Hr; reflexivity|apply IH; auto].
  Qed.

  Lemma build_tree : forall t k, build H t = Ok k -> k_tree k = t.
  Proof.
    induction t as [ty bits rs IH] using cell_ind'. intros k E.
    rewrite build_eq in E.
    destruct (mapM' (build H) rs) as [ks|e] eqn:Ers; [|discriminate]. cbn [bind] in E.
    destruct (mk_cell_shape _ _ _ _ E) as (m & hs & ds & ->).
    cbn [k_tree]. f_equal. exact (mapM'_build_tree rs ks IH Ers).
  Qed.

  (* ------------------------------------------------------------------ *)
  (* 3. dangling, backward and self references are rejected              *)
  (* ------------------------------------------------------------------ *)
  Lemma rebuild_ok_refs : forall raws ci ks, rebuild H raws ci = Ok ks ->
    length ks = length raws /\
    forall j rc r, nth_error raws j = Some rc -> In r (r_refs rc) ->
      (ci + j < N.to_nat r < ci + length raws)%nat.
  Proof.
    induction raws as [|rc0 rest IH]; intros ci ks E.
    - cbn [rebuild] in E. injection E as <-. split; [reflexivity|].
      intros j rc r Hn. destruct j; discriminate.
    - cbn [rebuild] in E.
      destruct (rebuild H rest (S ci)) as [built|e] eqn:Er; [|discriminate]. cbn [bind] in E.
      destruct (IH _ _ Er) as [Hlen Hrefs].
      match type of E with bind (mapM ?f _) _ = _ => set (F := f) in E end.
      destruct (mapM F (r_refs rc0)) as [refs|e] eqn:Em; [|discriminate]. cbn [bind] in E.
      destruct (mk_cell H (r_ty rc0) (r_bits rc0) refs) as [k|e]; [|discriminate]. cbn [bind] in E.
      injection E as <-. split; [cbn [length]; congruence|].
      intros j rc r Hn Hin. destruct j as [|j].
      + cbn [nth_error] in Hn. injection Hn as <-.
        destruct (mapM_ok_in F _ _ r Em Hin) as [y Hy]. unfold F in Hy.
        destruct (N.to_nat r <? ci)%nat eqn:E1; [discriminate|].
        destruct (N.to_nat r =? ci)%nat eqn:E2; [discriminate|].
        unfold nth_r in Hy. destruct (nth_error built (N.to_nat r - S ci)) eqn:E3; [|discriminate].
        assert (N.to_nat r - S ci < length built)%nat by (apply nth_error_Some; congruence).
        cbn [length]. lia.
      + cbn [nth_error] in Hn. specialize (Hrefs j rc r Hn Hin). cbn [length]. lia.
  Qed.

  Lemma bad_refs_rejected : forall d h raws ci rc r,
    deserialize_boc_header d = Ok h ->
    parse_cells (N.to_nat (h_cells h)) (h_cells_data h) (h_size h) = Ok raws ->
    nth_error raws ci = Some rc -> In r (r_refs rc) ->
    (N.to_nat r <= ci \/ length raws <= N.to_nat r)%nat ->
    exists e, deserialize H d = Err e.
  Proof.
    intros d h raws ci rc r Hh Hp Hn Hin Hbad.
    unfold deserialize. rewrite Hh. cbn [bind]. rewrite Hp. cbn [bind].
    destruct (rebuild H raws 0) as [ks|e] eqn:Er; [|cbn [bind]; eauto].
    exfalso. destruct (rebuild_ok_refs _ _ _ Er) as [_ Hrefs].
    specialize (Hrefs ci rc r Hn Hin). lia.
  Qed.
End Accept.
