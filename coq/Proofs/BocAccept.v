(* C05 / C03 proofs: the BoC parser (Model/Boc.v) accepts everything the strict decoder of the format
   (Spec/BocFormat.v) accepts, with the same result; bad references are rejected; a constructed cell
   determines its tree. *)
From Coq Require Import NArith ZArith List Bool Lia ZifyBool ZifyNat ZifyN.
From PTQ Require Import Base.Result Base.Bytes Base.Bits Spec.Crc Model.Crc Proofs.CrcProofs
  Model.Cell Proofs.CellOrd Model.Boc Spec.BocFormat.
Import ListNotations.
Local Open Scope N_scope.

(* ------------------------------------------------------------------ *)
(* generic list / result facts                                         *)
(* ------------------------------------------------------------------ *)
Lemma skipn_skipn' {A} : forall (i j : nat) (l : list A), skipn j (skipn i l) = skipn (i + j) l.
Proof.
  induction i as [|i IH]; intros j l; [reflexivity|].
  destruct l as [|x l]; [destruct j; reflexivity|].
  cbn [skipn Nat.add]. apply IH.
Qed.

Lemma skipn_cons_nth {A} : forall (i : nat) (l : list A) x r,
  skipn i l = x :: r -> nth_error l i = Some x /\ skipn (S i) l = r /\ (i < length l)%nat.
Proof.
  induction i as [|i IH]; intros l x r E.
  - destruct l as [|y l]; [discriminate|]. cbn [skipn] in E. injection E as -> ->.
    cbn [nth_error skipn length]. repeat split; lia.
  - destruct l as [|y l]; [discriminate|]. cbn [skipn] in E.
    destruct (IH l x r E) as (E1 & E2 & E3). cbn [nth_error length]. repeat split; try assumption; lia.
Qed.

Lemma mapM_ok_in {A B} (f : A -> result B) : forall l ys x,
  mapM f l = Ok ys -> In x l -> exists y, f x = Ok y.
Proof.
  induction l as [|a l IH]; intros ys x E Hin; [destruct Hin|].
  cbn [mapM] in E. destruct (f a) as [y|e] eqn:Ea; [|discriminate]. cbn [bind] in E.
  destruct (mapM f l) as [ys'|e] eqn:El; [|discriminate].
  destruct Hin as [->|Hin]; [eauto|]. eapply IH; eauto.
Qed.

Lemma Forall2_len {A B} (P : A -> B -> Prop) : forall l1 l2, Forall2 P l1 l2 -> length l1 = length l2.
Proof. induction 1; cbn [length]; congruence. Qed.

Lemma Forall2_nth_error {A B} (P : A -> B -> Prop) : forall l1 l2, Forall2 P l1 l2 ->
  forall (j : nat) (d : B), (j < length l1)%nat -> exists a, nth_error l1 j = Some a /\ P a (nth j l2 d).
Proof.
  induction 1 as [|a b l1 l2 Hab Hl IH]; intros j d Hj; [cbn in Hj; lia|].
  destruct j as [|j]; [exists a; split; [reflexivity|exact Hab]|].
  cbn [length] in Hj. destruct (IH j d) as (a' & E & Pa); [lia|]. exists a'. split; assumption.
Qed.

(* ------------------------------------------------------------------ *)
(* strict decoder vs parser: reading primitives                        *)
(* ------------------------------------------------------------------ *)
(* ---- take / slice ---- *)
Lemma take_skipn n i d x r : take n (skipn i d) = Some (x, r) -> (i <= length d)%nat ->
  x = slice d i (i + n) /\ r = skipn (i + n) d /\ (i + n <= length d)%nat.
Proof.
  unfold take. rewrite skipn_length. intros E Hi.
  destruct (length d - i <? n)%nat eqn:El; [discriminate|]. injection E as <- <-.
  unfold slice. replace (i + n - i)%nat with n by lia. rewrite skipn_skipn'.
  repeat split; lia.
Qed.

Lemma take_uint_skipn w i d v r : take_uint w (skipn i d) = Some (v, r) -> (i <= length d)%nat ->
  v = of_be (slice d i (i + w)) /\ r = skipn (i + w) d /\ (i + w <= length d)%nat.
Proof.
  unfold take_uint. intros E Hi. destruct (take w (skipn i d)) as [[x r']|] eqn:Et; [|discriminate].
  injection E as <- <-. destruct (take_skipn _ _ _ _ _ Et Hi) as (-> & -> & L). auto.
Qed.

Lemma take_uints_skipn w d : forall n i xs r, take_uints n w (skipn i d) = Some (xs, r) -> (i <= length d)%nat ->
  xs = read_uints d i w n /\ r = skipn (i + n * w) d /\ (i + n * w <= length d)%nat.
Proof.
  induction n as [|n IH]; intros i xs r E Hi.
  - cbn [take_uints] in E. injection E as <- <-. cbn [read_uints]. rewrite Nat.add_0_r. auto.
  - cbn [take_uints] in E.
    destruct (take_uint w (skipn i d)) as [[x r1]|] eqn:E1; [|discriminate].
    destruct (take_uint_skipn _ _ _ _ _ E1 Hi) as (-> & -> & L1).
    destruct (take_uints n w (skipn (i + w) d)) as [[xs' r']|] eqn:E2; [|discriminate].
    injection E as <- <-. destruct (IH _ _ _ E2 L1) as (-> & -> & L2).
    cbn [read_uints]. repeat split; [f_equal; lia|lia].
Qed.

(* ---- completion tag ---- *)
Fixpoint drop_tag (l : list bool) (k : nat) {struct l} : option (list bool) :=
  match k with
  | O => None
  | S k' => match l with
            | true :: r => Some (rev r)
            | false :: r => drop_tag r k'
            | [] => None
            end
  end.

Fixpoint find_tag (bits : list bool) (n j k : nat) : option nat :=
  match j with
  | O => None
  | S j' => if nth (n - k) bits false then Some (n - k)%nat else find_tag bits n j' (S k)
  end.

Lemma s_untag_eq bytes aug : s_untag bytes aug =
  let bits := bytes_to_bits bytes in
  if negb aug then Some bits else match rev bits with [] => None | _ => drop_tag (rev bits) 7 end.
Proof. reflexivity. Qed.

Lemma strip_tag_eq bits : strip_tag bits =
  match find_tag bits (length bits) 7 1 with Some e => firstn e bits | None => bits end.
Proof. reflexivity. Qed.

Lemma drop_tag_spec : forall k l out, drop_tag l k = Some out ->
  exists z r, (z < k)%nat /\ l = repeat false z ++ true :: r /\ out = rev r.
Proof.
  induction k as [|k IH]; intros l out E; [destruct l; discriminate|].
  destruct l as [|[|] l]; cbn [drop_tag] in E; [discriminate| |].
  - injection E as <-. exists 0%nat, l. repeat split. lia.
  - destruct (IH _ _ E) as (z & r & Hz & -> & ->). exists (S z), r. repeat split. lia.
Qed.

Lemma find_tag_spec pre z : forall j k, (1 <= k)%nat -> (k <= z + 1)%nat -> (z + 1 < k + j)%nat ->
  find_tag (pre ++ true :: repeat false z) (length (pre ++ true :: repeat false z)) j k = Some (length pre).
Proof.
  assert (Hn : length (pre ++ true :: repeat false z) = (length pre + 1 + z)%nat).
  { rewrite app_length. cbn [length]. rewrite repeat_length. lia. }
  rewrite Hn.
  induction j as [|j IH]; intros k H1 H2 H3; [lia|].
  cbn [find_tag].
  destruct (Nat.eq_dec k (z + 1)) as [->|Hne].
  - replace (length pre + 1 + z - (z + 1))%nat with (length pre) by lia.
    rewrite app_nth2 by lia. rewrite Nat.sub_diag. reflexivity.
  - rewrite app_nth2 by lia.
    replace (length pre + 1 + z - k - length pre)%nat with (S (z - k)) by lia.
    cbn [nth]. rewrite nth_repeat. apply IH; lia.
Qed.

Lemma rev_repeat' {A} (a : A) n : rev (repeat a n) = repeat a n.
Proof.
  induction n as [|n IH]; [reflexivity|]. cbn [repeat rev]. rewrite IH.
  clear IH. induction n as [|n IH]; [reflexivity|]. cbn [repeat app]. f_equal. exact IH.
Qed.

Lemma untag_agree data aug bits : s_untag data aug = Some bits ->
  (if aug && negb (length (bytes_to_bits data) =? 0)%nat then strip_tag (bytes_to_bits data)
   else bytes_to_bits data) = bits.
Proof.
  rewrite s_untag_eq. cbv zeta. set (b0 := bytes_to_bits data).
  destruct aug; cbn [negb andb]; [|intro E; injection E as <-; reflexivity].
  intro E. destruct (rev b0) as [|x l] eqn:Er; [discriminate|].
  destruct (drop_tag_spec _ _ _ E) as (z & r & Hz & Hl & ->).
  assert (Hb : b0 = rev r ++ true :: repeat false z).
  { rewrite <- (rev_involutive b0), Er, Hl, rev_app_distr. cbn [rev]. rewrite rev_repeat', <- app_assoc. reflexivity. }
  rewrite Hb. 
  assert (Hlen : (length (rev r ++ true :: repeat false z) =? 0)%nat = false).
  { rewrite app_length. cbn [length]. apply Nat.eqb_neq. lia. }
  rewrite Hlen. cbn [negb]. rewrite strip_tag_eq, find_tag_spec by lia.
  rewrite firstn_app, Nat.sub_diag, firstn_all. cbn [firstn]. apply app_nil_r.
Qed.

(* ------------------------------------------------------------------ *)
(* strict decoder vs parser: cells and header                          *)
(* ------------------------------------------------------------------ *)
(* ---- one cell ---- *)
Definition raw_of (c : s_cellrec) : raw_cell := mkRaw (sc_bits c) (sc_refs c) (sc_ty c).

Lemma data_size_eq d2 :
  (N.to_nat (N.shiftr d2 1) + (if N.odd d2 then 1 else 0))%nat = N.to_nat ((d2 + 1) / 2).
Proof.
  rewrite N.shiftr_div_pow2. change (2 ^ 1) with 2.
  destruct (N.odd d2) eqn:Eo.
  - apply N.odd_spec in Eo. destruct Eo as [m ->].
    replace (2 * m + 1 + 1) with ((m + 1) * 2) by lia. rewrite N.div_mul by lia.
    replace (2 * m + 1) with (1 + m * 2) by lia. rewrite N.div_add by lia. change (1 / 2) with 0. lia.
  - assert (Ee : N.even d2 = true) by (rewrite <- N.negb_odd, Eo; reflexivity).
    apply N.even_spec in Ee. destruct Ee as [m ->].
    replace (2 * m + 1) with (1 + m * 2) by lia. rewrite N.div_add by lia.
    replace (2 * m) with (m * 2) by lia. rewrite N.div_mul by lia. change (1 / 2) with 0. lia.
Qed.

Lemma s_cell_agree d size c r : s_cell d size = Some (c, r) ->
  deserialize_cell d size = Ok (raw_of c, sc_len c) /\ r = skipn (sc_len c) d /\ (sc_len c <= length d)%nat.
Proof.
  unfold s_cell. destruct d as [|d1 [|d2 r0]]; [discriminate|discriminate|].
  set (d := d1 :: d2 :: r0).
  set (nrefs := N.to_nat (N.land d1 7)).
  set (hc := N.to_nat (popcount (N.shiftr d1 5) + 1)).
  set (hs := (if N.testbit d1 4 then hc * 34 else 0)%nat).
  set (nbytes := N.to_nat ((d2 + 1) / 2)).
  destruct (4 <? nrefs)%nat eqn:Enr; [discriminate|].
  assert (Hd2 : (2 <= length d)%nat) by (unfold d; cbn [length]; lia).
  change r0 with (skipn 2 d).
  destruct (take hs (skipn 2 d)) as [[x1 r1]|] eqn:E1; [|discriminate].
  destruct (take_skipn _ _ _ _ _ E1 Hd2) as (_ & -> & L1). clear E1.
  destruct (take nbytes (skipn (2 + hs) d)) as [[data r2]|] eqn:E2; [|discriminate].
  destruct (take_skipn _ _ _ _ _ E2 L1) as (Hdata & -> & L2). clear E2.
  destruct (s_untag data (N.odd d2)) as [bits|] eqn:Eu; [|discriminate].
  destruct (take_uints nrefs size (skipn (2 + hs + nbytes) d)) as [[refs r3]|] eqn:E3; [|discriminate].
  destruct (take_uints_skipn _ _ _ _ _ _ E3 L2) as (Hrefs & -> & L3). clear E3.
  intro E.
  assert (Hlen : (length d - length (skipn (2 + hs + nbytes + nrefs * size) d) = 2 + hs + nbytes + nrefs * size)%nat).
  { rewrite skipn_length. lia. }
  rewrite Hlen in E.
  apply untag_agree in Eu.
  unfold deserialize_cell.
  change (byte_at d 0) with (Ok d1). cbn [bind].
  change (byte_at d 1) with (Ok d2). cbn [bind].
  fold nrefs. fold hc.
  assert (H7 : (nrefs =? 7)%nat = false) by (apply Nat.eqb_neq; lia).
  rewrite H7. cbn [andb].
  rewrite data_size_eq. fold nbytes.
  assert (Hhs : ((if N.testbit d1 4 then hc * 32 else 0) + (if N.testbit d1 4 then hc * 2 else 0) = hs)%nat).
  { unfold hs. destruct (N.testbit d1 4); lia. }
  replace (2 + (if N.testbit d1 4 then hc * 32 else 0) + (if N.testbit d1 4 then hc * 2 else 0))%nat
    with (2 + hs)%nat by lia.
  assert (Hchk : (length d - 2 <? (if N.testbit d1 4 then hc * 32 else 0) + (if N.testbit d1 4 then hc * 2 else 0)
                    + nbytes + size * nrefs)%nat = false) by (apply Nat.ltb_ge; nia).
  rewrite Hchk. rewrite <- Hdata, Eu.
  destruct (N.testbit d1 3); cbn [andb] in E.
  - destruct (length bits <? 8)%nat; [discriminate|]. injection E as <- <-. cbn [bind sc_len raw_of sc_bits sc_refs sc_ty].
    rewrite <- Hrefs. repeat split; try lia. repeat f_equal; lia.
  - injection E as <- <-. cbn [bind sc_len raw_of sc_bits sc_refs sc_ty].
    rewrite <- Hrefs. repeat split; try lia. repeat f_equal; lia.
Qed.

Lemma s_cells_agree size : forall n d cs r, s_cells n d size = Some (cs, r) ->
  parse_cells n d size = Ok (map raw_of cs) /\ length cs = n.
Proof.
  induction n as [|n IH]; intros d cs r E.
  - cbn [s_cells] in E. injection E as <- <-. split; reflexivity.
  - cbn [s_cells] in E. destruct (s_cell d size) as [[c r1]|] eqn:Ec; [|discriminate].
    destruct (s_cells n r1 size) as [[cs' r']|] eqn:Ecs; [|discriminate]. injection E as <- <-.
    destruct (s_cell_agree _ _ _ _ Ec) as (Hc & -> & _).
    destruct (IH _ _ _ Ecs) as [Hp Hl].
    cbn [parse_cells]. rewrite Hc. cbn [bind]. rewrite Hp. cbn [bind map length]. split; congruence.
Qed.


(* ---- header ---- *)
Definition s_body (d : list N) (reach has_idx has_crc has_cache : bool) (size off : nat) (r1 : list N) : option s_boc :=
      match take_uint size r1 with None => None | Some (cells, r2) =>
      match take_uint size r2 with None => None | Some (roots, r3) =>
      match take_uint size r3 with None => None | Some (absent, r4) =>
      match take_uint off r4 with None => None | Some (tot, r5) =>
      match (if reach then take_uints (N.to_nat roots) size r5 else Some ([0], r5)) with None => None | Some (root_list, r6) =>
      match (if has_idx then take_uints (N.to_nat cells) off r6 else Some ([], r6)) with None => None | Some (index, r7) =>
      match take (N.to_nat tot) r7 with None => None | Some (cell_data, r8) =>
      match s_cells (N.to_nat cells) cell_data size with
      | Some (cs, []) =>
          let crc_ok :=
            if has_crc then beqb r8 (s_crc32c (firstn (length d - 4) d) false) && (length r8 =? 4)%nat
            else (length r8 =? 0)%nat in
          if crc_ok && (1 <=? roots) && (absent =? 0) && (roots + absent <=? cells)
             && (if reach then true else roots =? 1)
          then Some (mkSB has_idx has_crc has_cache size off cs root_list index) else None
      | _ => None
      end end end end end end end end.

Lemma s_parse_eq d : s_parse d =
  match take 4 d with
  | None => None
  | Some (magic, r) =>
    match r with
    | fb :: offb :: r1 =>
      let reach := beqb magic s_magic_reach in
      let legacy := beqb magic s_magic_idx || beqb magic s_magic_idx_crc in
      if negb (reach || legacy) then None else
      let has_idx := if reach then N.testbit fb 7 else true in
      let has_crc := if reach then N.testbit fb 6 else beqb magic s_magic_idx_crc in
      let has_cache := if reach then N.testbit fb 5 else false in
      let flags_ok := if reach then negb (N.testbit fb 4) && negb (N.testbit fb 3) else true in
      let size := N.to_nat (if reach then fb mod 8 else fb) in
      let off := N.to_nat offb in
      if negb flags_ok || (size <? 1)%nat || (4 <? size)%nat || (off <? 1)%nat || (8 <? off)%nat
         || (has_cache && negb has_idx) then None else
      s_body d reach has_idx has_crc has_cache size off r1
    | _ => None
    end
  end.
Proof. reflexivity. Qed.

Definition hdr_body (d : list N) (reach has_idx has_crc has_cache : bool) (size : nat) : result boc_header :=
  let dlen := length d in
  if (dlen - 5 <? 1 + 3 * size)%nat then Err EBoc else
  bind (byte_at d 5) (fun offb =>
  let off := N.to_nat offb in
  if (size =? 0)%nat then Err EValue else
  let end1 := (6 + 3 * size)%nat in
  let cells := of_be (slice d 6 (6 + size)) in
  let roots := of_be (slice d (6 + size) (6 + 2 * size)) in
  let absent := of_be (slice d (6 + 2 * size) (6 + 3 * size)) in
  let i1 := (end1 + off)%nat in
  let tot := of_be (slice d end1 i1) in
  bind (if reach then
          if (Z.of_nat dlen - Z.of_nat i1 <? Z.of_N roots * Z.of_nat size)%Z then Err EOther
          else Ok (read_uints d i1 size (N.to_nat roots), (i1 + N.to_nat roots * size)%nat)
        else Ok ([0], i1)) (fun '(root_list, i2) =>
  bind (if has_idx then
          if (Z.of_nat dlen - Z.of_nat i2 <? Z.of_nat off * Z.of_N cells)%Z then Err EBoc
          else if (off =? 0)%nat then Err EValue
          else Ok (Some (read_uints d i2 off (N.to_nat cells)), (i2 + N.to_nat cells * off)%nat)
        else Ok (None, i2)) (fun '(index, i3) =>
  if (Z.of_nat dlen - Z.of_nat i3 <? Z.of_N tot)%Z then Err EBoc else
  let i4 := (i3 + N.to_nat tot)%nat in
  let cells_data := slice d i3 i4 in
  bind (if has_crc then
          if (dlen - i4 <? 4)%nat then Err EBoc
          else if negb (bytes_eqb (crc32c (firstn i4 d) false) (slice d i4 (i4 + 4))) then Err EBoc
          else Ok (i4 + 4)%nat
        else Ok i4) (fun i5 =>
  if negb (dlen - i5 =? 0)%nat then Err EBoc
  else Ok (mkHdr has_idx has_crc has_cache size off cells roots absent tot root_list index cells_data))))).

Lemma hdr_eq d : deserialize_boc_header d =
  let dlen := length d in
  if (dlen <? 4)%nat then Err EBoc else
  let magic := firstn 4 d in
  let reach := bytes_eqb magic boc_magic in
  bind (if reach then
          bind (byte_at d 4) (fun fb =>
          Ok (N.testbit fb 7, N.testbit fb 6, N.testbit fb 5, N.to_nat (fb mod 8)))
        else if bytes_eqb magic boc_magic_idx then
          bind (byte_at d 4) (fun sb => Ok (true, false, false, N.to_nat sb))
        else if bytes_eqb magic boc_magic_idx_crc then
          bind (byte_at d 4) (fun sb => Ok (true, true, false, N.to_nat sb))
        else Err EBoc) (fun '(has_idx, has_crc, has_cache, size) => hdr_body d reach has_idx has_crc has_cache size).
Proof. reflexivity. Qed.

Lemma Forall_firstn' {A} (P : A -> Prop) : forall n l, Forall P l -> Forall P (firstn n l).
Proof.
  induction n as [|n IH]; intros l HF; [constructor|].
  destruct l as [|x l]; [constructor|]. inversion HF; subst. cbn [firstn]. constructor; auto.
Qed.

Lemma beqb_eq a b : beqb a b = true <-> a = b.
Proof. exact (bytes_eqb_eq a b). Qed.

Lemma body_agree d reach has_idx has_crc has_cache size offb b :
  bytes_ok d -> nth_error d 5 = Some offb -> (1 <= size)%nat -> (1 <= N.to_nat offb)%nat -> (6 <= length d)%nat ->
  s_body d reach has_idx has_crc has_cache size (N.to_nat offb) (skipn 6 d) = Some b ->
  exists h, hdr_body d reach has_idx has_crc has_cache size = Ok h /\ h_size h = size /\
            h_root_list h = sb_roots b /\
            s_cells (N.to_nat (h_cells h)) (h_cells_data h) size = Some (sb_cells b, []).
Proof.
  intros Hbytes Hoffb Hsize Hoff H6. set (off := N.to_nat offb) in *. unfold s_body.
  destruct (take_uint size (skipn 6 d)) as [[cells r2]|] eqn:E1; [|discriminate].
  destruct (take_uint_skipn _ _ _ _ _ E1 H6) as (Hcells & -> & L1). clear E1.
  destruct (take_uint size (skipn (6 + size) d)) as [[roots r3]|] eqn:E2; [|discriminate].
  destruct (take_uint_skipn _ _ _ _ _ E2 L1) as (Hroots & -> & L2). clear E2.
  destruct (take_uint size (skipn (6 + size + size) d)) as [[absent r4]|] eqn:E3; [|discriminate].
  destruct (take_uint_skipn _ _ _ _ _ E3 L2) as (Habsent & -> & L3). clear E3.
  destruct (take_uint off (skipn (6 + size + size + size) d)) as [[tot r5]|] eqn:E4; [|discriminate].
  destruct (take_uint_skipn _ _ _ _ _ E4 L3) as (Htot & -> & L4). clear E4.
  replace (6 + size + size + size)%nat with (6 + 3 * size)%nat in * by lia.
  replace (6 + size + size)%nat with (6 + 2 * size)%nat in * by lia.
  set (i1 := (6 + 3 * size + off)%nat) in *.
  match goal with |- match ?X with _ => _ end = _ -> _ => destruct X as [[root_list r6]|] eqn:E5; [|discriminate] end.
  assert (A1 : exists i2, (if reach then
          if (Z.of_nat (length d) - Z.of_nat i1 <? Z.of_N roots * Z.of_nat size)%Z then Err EOther
          else Ok (read_uints d i1 size (N.to_nat roots), (i1 + N.to_nat roots * size)%nat)
        else Ok ([0], i1)) = Ok (root_list, i2) /\ r6 = skipn i2 d /\ (i2 <= length d)%nat).
  { destruct reach.
    - destruct (take_uints_skipn _ _ _ _ _ _ E5 L4) as (-> & -> & L5).
      exists (i1 + N.to_nat roots * size)%nat.
      assert (C : (Z.of_nat (length d) - Z.of_nat i1 <? Z.of_N roots * Z.of_nat size)%Z = false).
      { apply Z.ltb_ge. rewrite <- N_nat_Z, <- Nat2Z.inj_mul. lia. }
      rewrite C. auto.
    - injection E5 as <- <-. exists i1. auto. }
  destruct A1 as (i2 & A1 & -> & L5). clear E5.
  match goal with |- match ?X with _ => _ end = _ -> _ => destruct X as [[index r7]|] eqn:E6; [|discriminate] end.
  assert (A2 : exists i3 idx, (if has_idx then
          if (Z.of_nat (length d) - Z.of_nat i2 <? Z.of_nat off * Z.of_N cells)%Z then Err EBoc
          else if (off =? 0)%nat then Err EValue
          else Ok (Some (read_uints d i2 off (N.to_nat cells)), (i2 + N.to_nat cells * off)%nat)
        else Ok (None, i2)) = Ok (idx, i3) /\ r7 = skipn i3 d /\ (i3 <= length d)%nat).
  { destruct has_idx.
    - destruct (take_uints_skipn _ _ _ _ _ _ E6 L5) as (_ & -> & L6).
      exists (i2 + N.to_nat cells * off)%nat, (Some (read_uints d i2 off (N.to_nat cells))).
      assert (C : (Z.of_nat (length d) - Z.of_nat i2 <? Z.of_nat off * Z.of_N cells)%Z = false).
      { apply Z.ltb_ge. rewrite <- N_nat_Z, <- Nat2Z.inj_mul. lia. }
      assert (C2 : (off =? 0)%nat = false) by (apply Nat.eqb_neq; lia).
      rewrite C, C2. auto.
    - injection E6 as _ <-. exists i2, None. auto. }
  destruct A2 as (i3 & idx & A2 & -> & L6). clear E6.
  destruct (take (N.to_nat tot) (skipn i3 d)) as [[cell_data r8]|] eqn:E7; [|discriminate].
  destruct (take_skipn _ _ _ _ _ E7 L6) as (Hcd & -> & L7). clear E7.
  destruct (s_cells (N.to_nat cells) cell_data size) as [[cs [|]]|] eqn:Ecs; [|discriminate|discriminate].
  set (i4 := (i3 + N.to_nat tot)%nat) in *.
  cbv zeta.
  match goal with |- (if ?C then _ else _) = _ -> _ => destruct C eqn:Econd; [|discriminate] end.
  intro E. injection E as <-.
  apply andb_prop in Econd. destruct Econd as [Econd _].
  apply andb_prop in Econd. destruct Econd as [Econd _].
  apply andb_prop in Econd. destruct Econd as [Econd _].
  apply andb_prop in Econd. destruct Econd as [Hcrc _].
  assert (A3 : exists i5, (if has_crc then
          if (length d - i4 <? 4)%nat then Err EBoc
          else if negb (bytes_eqb (crc32c (firstn i4 d) false) (slice d i4 (i4 + 4))) then Err EBoc
          else Ok (i4 + 4)%nat
        else Ok i4) = Ok i5 /\ (length d - i5 =? 0)%nat = true).
  { destruct has_crc.
    - apply andb_prop in Hcrc. destruct Hcrc as [Hb Hl]. apply beqb_eq in Hb.
      rewrite skipn_length in Hl. apply Nat.eqb_eq in Hl.
      exists (i4 + 4)%nat.
      assert (C : (length d - i4 <? 4)%nat = false) by (apply Nat.ltb_ge; lia).
      rewrite C.
      replace (length d - 4)%nat with i4 in Hb by lia.
      rewrite crc32c_correct by (apply Forall_firstn'; exact Hbytes).
      assert (Hs : slice d i4 (i4 + 4) = skipn i4 d).
      { unfold slice. apply firstn_all2. rewrite skipn_length. lia. }
      rewrite Hs, <- Hb.
      assert (C2 : bytes_eqb (skipn i4 d) (skipn i4 d) = true) by (apply bytes_eqb_eq; reflexivity).
      rewrite C2. cbn [negb]. split; [reflexivity|]. apply Nat.eqb_eq. lia.
    - exists i4. split; [reflexivity|]. rewrite skipn_length in Hcrc. exact Hcrc. }
  destruct A3 as (i5 & A3 & Hend).
  eexists. unfold hdr_body. cbv zeta.
  assert (C0 : (length d - 5 <? 1 + 3 * size)%nat = false) by (apply Nat.ltb_ge; lia).
  rewrite C0. unfold byte_at, nth_r. rewrite Hoffb. cbn [bind].
  assert (C1 : (size =? 0)%nat = false) by (apply Nat.eqb_neq; lia).
  rewrite C1. fold off. fold i1.
  rewrite <- Hcells, <- Hroots, <- Habsent, <- Htot.
  rewrite A1. cbn [bind]. rewrite A2. cbn [bind].
  assert (C3 : (Z.of_nat (length d) - Z.of_nat i3 <? Z.of_N tot)%Z = false) by (apply Z.ltb_ge; lia).
  rewrite C3. fold i4. rewrite A3. cbn [bind]. rewrite Hend. cbn [negb].
  split; [reflexivity|]. cbn [h_size h_root_list h_cells h_cells_data sb_roots sb_cells].
  rewrite <- Hcd. auto.
Qed.

Lemma header_agree d b : bytes_ok d -> s_parse d = Some b ->
  exists h size, deserialize_boc_header d = Ok h /\ h_size h = size /\ h_root_list h = sb_roots b /\
     s_cells (N.to_nat (h_cells h)) (h_cells_data h) size = Some (sb_cells b, []).
Proof.
  intros Hbytes. rewrite s_parse_eq, hdr_eq. unfold take.
  destruct (length d <? 4)%nat eqn:E4; [discriminate|].
  destruct (skipn 4 d) as [|fb [|offb r1]] eqn:Es; [discriminate|discriminate|].
  destruct (skipn_cons_nth _ _ _ _ Es) as (Hfb & Es5 & L4).
  destruct (skipn_cons_nth _ _ _ _ Es5) as (Hoffb & Es6 & L5).
  cbv zeta.
  change (beqb (firstn 4 d) s_magic_reach) with (bytes_eqb (firstn 4 d) boc_magic).
  change (beqb (firstn 4 d) s_magic_idx) with (bytes_eqb (firstn 4 d) boc_magic_idx).
  change (beqb (firstn 4 d) s_magic_idx_crc) with (bytes_eqb (firstn 4 d) boc_magic_idx_crc).
  unfold byte_at, nth_r. rewrite Hfb. cbn [bind].
  destruct (bytes_eqb (firstn 4 d) boc_magic) eqn:Er.
  - cbn [orb negb]. cbv beta iota.
    match goal with |- (if ?C then _ else _) = _ -> _ => destruct C eqn:Ec; [discriminate|] end.
    intro Hb. rewrite <- Es6 in Hb. apply body_agree in Hb; try assumption; try lia.
    destruct Hb as (h & Hh & R). exists h, (N.to_nat (fb mod 8)). split; [exact Hh|exact R].
  - destruct (bytes_eqb (firstn 4 d) boc_magic_idx) eqn:Ei;
    destruct (bytes_eqb (firstn 4 d) boc_magic_idx_crc) eqn:Eic; cbn [orb negb]; cbv beta iota;
      try discriminate.
    + apply bytes_eqb_eq in Ei. apply bytes_eqb_eq in Eic. rewrite Ei in Eic. discriminate.
    + match goal with |- (if ?C then _ else _) = _ -> _ => destruct C eqn:Ec; [discriminate|] end.
      intro Hb. rewrite <- Es6 in Hb. apply body_agree in Hb; try assumption; try lia.
      destruct Hb as (h & Hh & R). exists h, (N.to_nat fb). split; [exact Hh|exact R].
    + match goal with |- (if ?C then _ else _) = _ -> _ => destruct C eqn:Ec; [discriminate|] end.
      intro Hb. rewrite <- Es6 in Hb. apply body_agree in Hb; try assumption; try lia.
      destruct Hb as (h & Hh & R). exists h, (N.to_nat fb). split; [exact Hh|exact R].
Qed.


Section Accept.
  Variable H : list N -> list N.

  (* ------------------------------------------------------------------ *)
  (* 1. a constructed cell determines its tree                           *)
  (* ------------------------------------------------------------------ *)
  Lemma mk_cell_shape ty bits refs k : mk_cell H ty bits refs = Ok k ->
    exists m hs ds, k = KCell ty bits refs m hs ds.
  Proof.
    unfold mk_cell. intro E.
    destruct (resolve_mask ty bits refs) as [mask|e]; [|discriminate]. cbn [bind] in E.
    match type of E with bind ?X _ = _ => destruct X as [[[hi hs] ds]|e]; [|discriminate] end.
    cbn [bind] in E.
    destruct (refs_descriptor (length refs) (is_exotic ty) mask) as [x|e]; [|discriminate]. cbn [bind] in E.
    destruct (bits_descriptor (length bits)) as [y|e]; [|discriminate]. cbn [bind] in E.
    destruct hs as [|h0 hs]; [discriminate|]. injection E as <-. eauto.
  Qed.

  Lemma mapM'_build_tree : forall rs ks,
    Forall (fun t => forall k, build H t = Ok k -> k_tree k = t) rs ->
    mapM' (build H) rs = Ok ks -> map k_tree ks = rs.
  Proof.
    induction rs as [|r rs IH]; intros ks HF E.
    - cbn [mapM'] in E. injection E as <-. reflexivity.
    - cbn [mapM'] in E. inversion HF as [|? ? Hr HF']; subst.
      destruct (build H r) as [k|e] eqn:Er; [|discriminate]. cbn [bind] in E.
      destruct (mapM' (build H) rs) as [ks'|e] eqn:Ers; [|discriminate]. cbn [bind] in E.
      injection E as <-. cbn [map]. f_equal; [apply Hr; reflexivity|apply IH; auto].
  Qed.

  Lemma build_tree : forall t k, build H t = Ok k -> k_tree k = t.
  Proof.
    induction t as [ty bits rs IH] using cell_ind'. intros k E.
    rewrite build_eq in E.
    destruct (mapM' (build H) rs) as [ks|e] eqn:Ers; [|discriminate]. cbn [bind] in E.
    destruct (mk_cell_shape _ _ _ _ E) as (m & hs & ds & ->).
    cbn [k_tree]. f_equal. exact (mapM'_build_tree rs ks IH Ers).
  Qed.

  (* ------------------------------------------------------------------ *)
  (* 3. dangling, backward and self references are rejected              *)
  (* ------------------------------------------------------------------ *)
  Lemma rebuild_ok_refs : forall raws ci ks, rebuild H raws ci = Ok ks ->
    length ks = length raws /\
    forall j rc r, nth_error raws j = Some rc -> In r (r_refs rc) ->
      (ci + j < N.to_nat r < ci + length raws)%nat.
  Proof.
    induction raws as [|rc0 rest IH]; intros ci ks E.
    - cbn [rebuild] in E. injection E as <-. split; [reflexivity|].
      intros j rc r Hn. destruct j; discriminate.
    - cbn [rebuild] in E.
      destruct (rebuild H rest (S ci)) as [built|e] eqn:Er; [|discriminate]. cbn [bind] in E.
      destruct (IH _ _ Er) as [Hlen Hrefs].
      match type of E with bind (mapM ?f _) _ = _ => set (F := f) in E end.
      destruct (mapM F (r_refs rc0)) as [refs|e] eqn:Em; [|discriminate]. cbn [bind] in E.
      destruct (mk_cell H (r_ty rc0) (r_bits rc0) refs) as [k|e]; [|discriminate]. cbn [bind] in E.
      injection E as <-. split; [cbn [length]; congruence|].
      intros j rc r Hn Hin. destruct j as [|j].
      + cbn [nth_error] in Hn. injection Hn as <-.
        destruct (mapM_ok_in F _ _ r Em Hin) as [y Hy]. unfold F in Hy.
        destruct (N.to_nat r <? ci)%nat eqn:E1; [discriminate|].
        destruct (N.to_nat r =? ci)%nat eqn:E2; [discriminate|].
        unfold nth_r in Hy. destruct (nth_error built (N.to_nat r - S ci)) eqn:E3; [|discriminate].
        assert (N.to_nat r - S ci < length built)%nat by (apply nth_error_Some; congruence).
        cbn [length]. lia.
      + cbn [nth_error] in Hn. specialize (Hrefs j rc r Hn Hin). cbn [length]. lia.
  Qed.

  Lemma bad_refs_rejected : forall d h raws ci rc r,
    deserialize_boc_header d = Ok h ->
    parse_cells (N.to_nat (h_cells h)) (h_cells_data h) (h_size h) = Ok raws ->
    nth_error raws ci = Some rc -> In r (r_refs rc) ->
    (N.to_nat r <= ci \/ length raws <= N.to_nat r)%nat ->
    exists e, deserialize H d = Err e.
  Proof.
    intros d h raws ci rc r Hh Hp Hn Hin Hbad.
    unfold deserialize. rewrite Hh. cbn [bind]. rewrite Hp. cbn [bind].
    destruct (rebuild H raws 0) as [ks|e] eqn:Er; [|cbn [bind]; eauto].
    exfalso. destruct (rebuild_ok_refs _ _ _ Er) as [_ Hrefs].
    specialize (Hrefs ci rc r Hn Hin). lia.
  Qed.

  (* ------------------------------------------------------------------ *)
  (* 2. everything the strict decoder accepts is parsed to the same roots *)
  (* ------------------------------------------------------------------ *)
  Local Notation dflt := (Cell (-1) [] []).

  Lemma refs_agree (i : nat) (ks : list kcell) (built : list cell) :
    Forall2 (fun k t => build H t = Ok k) ks built ->
    forall refs, Forall (fun x => (i < N.to_nat x < S i + length ks)%nat) refs ->
    exists rk,
      mapM (fun r => if (N.to_nat r <? i)%nat then Err EOther
                     else if (N.to_nat r =? i)%nat then Err EAttr
                     else nth_r ks (N.to_nat r - S i)) refs = Ok rk /\
      mapM' (build H) (map (fun x => nth (N.to_nat x - S i) built dflt) refs) = Ok rk.
  Proof.
    intros HF. induction refs as [|x refs IH]; intro Hr.
    - exists []. split; reflexivity.
    - inversion Hr as [|? ? Hx Hr']; subst. destruct (IH Hr') as (rk & E1 & E2).
      destruct (Forall2_nth_error _ _ _ HF (N.to_nat x - S i)%nat dflt) as (k & Ek & Bk); [lia|].
      exists (k :: rk). cbn [mapM map mapM'].
      assert (C1 : (N.to_nat x <? i)%nat = false) by (apply Nat.ltb_ge; lia).
      assert (C2 : (N.to_nat x =? i)%nat = false) by (apply Nat.eqb_neq; lia).
      rewrite C1, C2. unfold nth_r at 1. rewrite Ek. cbn [bind]. rewrite E1. cbn [bind].
      rewrite Bk. cbn [bind]. rewrite E2. cbn [bind]. split; reflexivity.
  Qed.

  Lemma rebuild_agree : forall cs i n,
    s_refs_ok cs (N.of_nat i) n = true -> n = N.of_nat (i + length cs) ->
    Forall (fun t => is_ok (build H t) = true) (s_trees cs i) ->
    exists ks, rebuild H (map raw_of cs) i = Ok ks /\
               Forall2 (fun k t => build H t = Ok k) ks (s_trees cs i).
  Proof.
    induction cs as [|c cs IH]; intros i n Hok Hn HF.
    - exists []. split; [reflexivity|constructor].
    - cbn [s_refs_ok] in Hok. apply andb_prop in Hok. destruct Hok as [Hc Hok].
      cbn [s_trees] in HF |- *. inversion HF as [|? ? Ht HF']; subst.
      destruct (IH (S i) (N.of_nat (i + length (c :: cs)))) as (ks & Er & HF2); [ | cbn [length]; lia | exact HF' | ].
      { rewrite Nat2N.inj_succ, <- N.add_1_r. exact Hok. }
      assert (Hlen : length ks = length cs).
      { rewrite (Forall2_len _ _ _ HF2). clear. generalize (S i). induction cs; intro j; cbn [s_trees length]; auto. }
      destruct (refs_agree i ks _ HF2 (sc_refs c)) as (rk & E1 & E2).
      { rewrite forallb_forall in Hc. apply Forall_forall. intros x Hx. specialize (Hc x Hx).
        cbn [length] in Hc. lia. }
      rewrite build_eq, E2 in Ht. cbn [bind] in Ht.
      destruct (mk_cell H (sc_ty c) (sc_bits c) rk) as [k|e] eqn:Ek; [|discriminate].
      exists (k :: ks). cbn [map rebuild]. rewrite Er. cbn [bind raw_of r_refs r_ty r_bits].
      rewrite E1. cbn [bind]. rewrite Ek. cbn [bind]. split; [reflexivity|].
      constructor; [|exact HF2]. rewrite build_eq, E2. cbn [bind]. exact Ek.
  Qed.

  Lemma roots_agree (ks : list kcell) (ts : list cell) :
    Forall2 (fun k t => build H t = Ok k) ks ts ->
    forall roots, forallb (fun r => r <? N.of_nat (length ks)) roots = true ->
    exists kr, mapM (fun ri => nth_r ks (N.to_nat ri)) roots = Ok kr /\
               map (k_tree) kr = map (fun r => nth (N.to_nat r) ts dflt) roots.
  Proof.
    intros HF. induction roots as [|x roots IH]; intro Hr.
    - exists []. split; reflexivity.
    - cbn [forallb] in Hr. apply andb_prop in Hr. destruct Hr as [Hx Hr].
      destruct (IH Hr) as (kr & E1 & E2).
      destruct (Forall2_nth_error _ _ _ HF (N.to_nat x) dflt) as (k & Ek & Bk); [lia|].
      exists (k :: kr). cbn [mapM map]. unfold nth_r at 1. rewrite Ek. cbn [bind]. rewrite E1. cbn [bind].
      split; [reflexivity|]. f_equal; [|exact E2]. apply build_tree. exact Bk.
  Qed.

  Lemma parser_accepts_valid : forall d roots cs, bytes_ok d ->
    s_all_cells d = Some cs -> s_decode d = Some roots ->
    Forall (fun t => is_ok (build H t) = true) cs ->
    exists ks, deserialize H d = Ok ks /\ map k_tree ks = roots.
  Proof.
    intros d roots cs Hbytes Hall Hdec HF.
    unfold s_all_cells in Hall. unfold s_decode in Hdec.
    destruct (s_parse d) as [b|] eqn:Hp; [|discriminate].
    destruct (s_valid b) eqn:Hv; [|discriminate].
    injection Hall as <-. injection Hdec as <-.
    destruct (header_agree d b Hbytes Hp) as (h & size & Hh & Hsz & Hrl & Hcs).
    destruct (s_cells_agree _ _ _ _ _ Hcs) as [Hpc Hn].
    unfold s_valid in Hv. apply andb_prop in Hv. destruct Hv as [Hv _].
    apply andb_prop in Hv. destruct Hv as [Hrefs Hroots].
    destruct (rebuild_agree (sb_cells b) 0 _ Hrefs eq_refl HF) as (ks & Hrb & HF2).
    assert (Hlen : length ks = length (sb_cells b)).
    { rewrite <- (map_length raw_of). eapply proj1. eapply rebuild_ok_refs. exact Hrb. }
    rewrite <- Hlen in Hroots.
    destruct (roots_agree ks _ HF2 _ Hroots) as (kr & Hkr & Hmap).
    exists kr. split; [|exact Hmap].
    unfold deserialize. rewrite Hh. cbn [bind]. rewrite Hsz, Hpc. cbn [bind]. rewrite Hrb. cbn [bind].
    rewrite Hrl. exact Hkr.
  Qed.

  (* ------------------------------------------------------------------ *)
  (* 4. the parsed roots are the constructed cells of the decoded trees  *)
  (*    (appended for C03; the lemmas above are unchanged)               *)
  (* ------------------------------------------------------------------ *)
  Lemma roots_agree_built (ks : list kcell) (ts : list cell) :
    Forall2 (fun k t => build H t = Ok k) ks ts ->
    forall roots, forallb (fun r => r <? N.of_nat (length ks)) roots = true ->
    exists kr, mapM (fun ri => nth_r ks (N.to_nat ri)) roots = Ok kr /\
               Forall2 (fun k t => build H t = Ok k) kr (map (fun r => nth (N.to_nat r) ts dflt) roots).
  Proof.
    intros HF. induction roots as [|x roots IH]; intro Hr.
    - exists []. split; [reflexivity|constructor].
    - cbn [forallb] in Hr. apply andb_prop in Hr. destruct Hr as [Hx Hr].
      destruct (IH Hr) as (kr & E1 & E2).
      destruct (Forall2_nth_error _ _ _ HF (N.to_nat x) dflt) as (k & Ek & Bk); [lia|].
      exists (k :: kr). cbn [mapM map]. unfold nth_r at 1. rewrite Ek. cbn [bind]. rewrite E1. cbn [bind].
      split; [reflexivity|]. constructor; [exact Bk|exact E2].
  Qed.

  Lemma parser_accepts_valid_built : forall d roots cs, bytes_ok d ->
    s_all_cells d = Some cs -> s_decode d = Some roots ->
    Forall (fun t => is_ok (build H t) = true) cs ->
    exists ks, deserialize H d = Ok ks /\ Forall2 (fun k t => build H t = Ok k) ks roots.
  Proof.
    intros d roots cs Hbytes Hall Hdec HF.
    unfold s_all_cells in Hall. unfold s_decode in Hdec.
    destruct (s_parse d) as [b|] eqn:Hp; [|discriminate].
    destruct (s_valid b) eqn:Hv; [|discriminate].
    injection Hall as <-. injection Hdec as <-.
    destruct (header_agree d b Hbytes Hp) as (h & size & Hh & Hsz & Hrl & Hcs).
    destruct (s_cells_agree _ _ _ _ _ Hcs) as [Hpc Hn].
    unfold s_valid in Hv. apply andb_prop in Hv. destruct Hv as [Hv _].
    apply andb_prop in Hv. destruct Hv as [Hrefs Hroots].
    destruct (rebuild_agree (sb_cells b) 0 _ Hrefs eq_refl HF) as (ks & Hrb & HF2).
    assert (Hlen : length ks = length (sb_cells b)).
    { rewrite <- (map_length raw_of). eapply proj1. eapply rebuild_ok_refs. exact Hrb. }
    rewrite <- Hlen in Hroots.
    destruct (roots_agree_built ks _ HF2 _ Hroots) as (kr & Hkr & Hmap).
    exists kr. split; [|exact Hmap].
    unfold deserialize. rewrite Hh. cbn [bind]. rewrite Hsz, Hpc. cbn [bind]. rewrite Hrb. cbn [bind].
    rewrite Hrl. exact Hkr.
  Qed.
End Accept.
