(* C19, dictionary part: a cost semantics for the dictionary parser (Model/Hashmap.v parse_edge).
   The parser is instrumented with a counter of edge visits (one per call of parse.py `parse`) and a
   counter of visits that end without producing an entry (a non-ordinary cell, or the empty key).
     - the instrumented parser computes the same result;
     - visits + 1 = 2 * (entries returned + empty terminals): the work is linear in what the walk yields;
       when no non-ordinary cell is below the root, visits = 2 * entries - 1;
     - the recursion depth is at most the key width + 1: any fuel above the key width gives the same
       result, so the constant fuel of the model bounds nothing;
     - F32: a chain of 7 cells with shared children is a Hashmap 6 of 64 keys, parsed with 127 visits. *)
From Coq Require Import NArith ZArith List Bool Lia ZifyBool ZifyNat ZifyN.
From PTQ Require Import Base.Result Base.Bytes Base.Bits Model.Cell Model.Builder Model.Hashmap Model.Cost
  Proofs.HmLabel Proofs.HmParse.
Import ListNotations.

(* ------------------------------------------------------------------ *)
(* 1. the instrumented parser                                          *)
(* ------------------------------------------------------------------ *)
(* (leaves, (visits, empty terminals)) *)
(* parse_edge_c, dict_visits, dict_empties: defined in Model/Cost.v (executable; extracted for the correspondence). *)

Lemma parse_edge_c_S f ty s m prefix :
  parse_edge_c (S f) ty s m prefix =
    bind (deserialize_hml s m) (fun '(l, suffix, s1) =>
    if (m <? Z.of_nat l)%Z then Err EValue else
    let prefix' := prefix ++ suffix in
    let m' := (m - Z.of_nat l)%Z in
    if negb (ty =? ty_ordinary)%Z then Ok ([], (1, 1))%nat
    else if (m' =? 0)%Z then
      match prefix' with [] => Ok ([], (1, 1))%nat | _ => Ok ([(prefix', s1)], (1, 0))%nat end
    else
      bind (s_load_ref s1) (fun '(c0, s2) =>
      let 'Cell ty0 bits0 refs0 := c0 in
      bind (parse_edge_c f ty0 (mkS bits0 refs0) (m' - 1) (prefix' ++ [false])) (fun '(ls, (vl, zl)) =>
      bind (s_load_ref s2) (fun '(c1, _) =>
      let 'Cell ty1 bits1 refs1 := c1 in
      bind (parse_edge_c f ty1 (mkS bits1 refs1) (m' - 1) (prefix' ++ [true])) (fun '(rs, (vr, zr)) =>
      Ok (ls ++ rs, (S (vl + vr), zl + zr))%nat))))).
Proof. reflexivity. Qed.

(* same result *)
Theorem parse_edge_c_same : forall fuel ty s m prefix,
  rmap fst (parse_edge_c fuel ty s m prefix) = parse_edge fuel ty s m prefix.
Proof.
  induction fuel as [|f IH]; intros ty s m prefix; [reflexivity|].
  rewrite parse_edge_c_S, hm_parse_edge_S.
  destruct (deserialize_hml s m) as [[[l suffix] s1]|e]; [|reflexivity]. cbn [bind].
  destruct (m <? Z.of_nat l)%Z; [reflexivity|]. cbv zeta.
  destruct (negb (ty =? ty_ordinary)%Z); [reflexivity|].
  destruct (m - Z.of_nat l =? 0)%Z.
  { destruct (prefix ++ suffix); reflexivity. }
  destruct (s_load_ref s1) as [[[ty0 bits0 refs0] s2]|e]; [|reflexivity]. cbn [bind].
  rewrite <- (IH ty0 (mkS bits0 refs0)).
  destruct (parse_edge_c f ty0 (mkS bits0 refs0) (m - Z.of_nat l - 1) ((prefix ++ suffix) ++ [false]))
    as [[ls [vl zl]]|e]; [|reflexivity]. cbn [bind rmap fst].
  destruct (s_load_ref s2) as [[[ty1 bits1 refs1] s3]|e]; [|reflexivity]. cbn [bind].
  rewrite <- (IH ty1 (mkS bits1 refs1)).
  destruct (parse_edge_c f ty1 (mkS bits1 refs1) (m - Z.of_nat l - 1) ((prefix ++ suffix) ++ [true]))
    as [[rs [vr zr]]|e]; reflexivity.
Qed.

Corollary parse_edge_c_ok_same : forall fuel ty s m prefix r,
  parse_edge_c fuel ty s m prefix = Ok r -> parse_edge fuel ty s m prefix = Ok (fst r).
Proof. intros fuel ty s m prefix r H. rewrite <- parse_edge_c_same, H. reflexivity. Qed.

(* ------------------------------------------------------------------ *)
(* 2. work is linear in what the walk yields                           *)
(* ------------------------------------------------------------------ *)
(* every visit is a terminal (an entry or an empty terminal) or a fork with two sub-walks: a binary tree *)
Theorem dict_visits_exact : forall fuel ty s m prefix ls v z,
  parse_edge_c fuel ty s m prefix = Ok (ls, (v, z)) ->
  (v + 1 = 2 * (length ls + z))%nat.
Proof.
  induction fuel as [|f IH]; intros ty s m prefix ls v z H; [discriminate H|].
  rewrite parse_edge_c_S in H.
  destruct (deserialize_hml s m) as [[[l suffix] s1]|e]; [|discriminate H]. cbn [bind] in H.
  destruct (m <? Z.of_nat l)%Z; [discriminate H|]. cbv zeta in H.
  destruct (negb (ty =? ty_ordinary)%Z).
  { injection H as <- <- <-. reflexivity. }
  destruct (m - Z.of_nat l =? 0)%Z.
  { destruct (prefix ++ suffix); injection H as <- <- <-; reflexivity. }
  destruct (s_load_ref s1) as [[[ty0 bits0 refs0] s2]|e]; [|discriminate H]. cbn [bind] in H.
  destruct (parse_edge_c f ty0 (mkS bits0 refs0) (m - Z.of_nat l - 1) ((prefix ++ suffix) ++ [false]))
    as [[ls0 [vl zl]]|e] eqn:E0; [|discriminate H]. cbn [bind] in H.
  destruct (s_load_ref s2) as [[[ty1 bits1 refs1] s3]|e]; [|discriminate H]. cbn [bind] in H.
  destruct (parse_edge_c f ty1 (mkS bits1 refs1) (m - Z.of_nat l - 1) ((prefix ++ suffix) ++ [true]))
    as [[rs [vr zr]]|e] eqn:E1; [|discriminate H]. cbn [bind] in H.
  injection H as <- <- <-.
  apply IH in E0. apply IH in E1. rewrite app_length. lia.
Qed.

(* the label reader keeps the references of the slice and returns as many label bits as it announces *)
Lemma dc_skip_refs s n s' : s_skip s n = Ok s' -> s_refs s' = s_refs s.
Proof.
  unfold s_skip. destruct (length (s_bits s) <? n)%nat; [discriminate|].
  intro H. injection H as <-. reflexivity.
Qed.

Lemma dc_load_bit_refs s x s' : s_load_bit s = Ok (x, s') -> s_refs s' = s_refs s.
Proof.
  unfold s_load_bit. destruct (s_preload_bit s); [|discriminate]. cbn [bind].
  destruct (s_skip s 1) as [s2|e] eqn:E; [|discriminate]. cbn [bind].
  intro H. injection H as _ <-. exact (dc_skip_refs _ _ _ E).
Qed.

Lemma dc_load_bits_inv s n bits s' : s_load_bits s n = Ok (bits, s') ->
  s_refs s' = s_refs s /\ length bits = n.
Proof.
  unfold s_load_bits. destruct (s_skip s n) as [s2|e] eqn:E; [|discriminate]. cbn [bind].
  intro H. injection H as <- <-. split; [exact (dc_skip_refs _ _ _ E)|].
  unfold s_skip in E. destruct (length (s_bits s) <? n)%nat eqn:L; [discriminate|].
  unfold s_preload_bits. rewrite firstn_length. lia.
Qed.

Lemma dc_load_uint_refs s n v s' : s_load_uint s n = Ok (v, s') -> s_refs s' = s_refs s.
Proof.
  unfold s_load_uint. destruct (s_preload_uint s n); [|discriminate]. cbn [bind].
  destruct (s_skip s n) as [s2|e] eqn:E; [|discriminate]. cbn [bind].
  intro H. injection H as _ <-. exact (dc_skip_refs _ _ _ E).
Qed.

Lemma dc_unary_refs : forall fuel s n s', deserialize_unary fuel s = Ok (n, s') -> s_refs s' = s_refs s.
Proof.
  induction fuel as [|f IH]; intros s n s' H; [discriminate H|].
  cbn [deserialize_unary] in H.
  destruct (s_load_bit s) as [[x s1]|e] eqn:E; [|discriminate H]. cbn [bind] in H.
  apply dc_load_bit_refs in E. destruct x.
  - destruct (deserialize_unary f s1) as [[n1 s2]|e] eqn:E1; [|discriminate H]. cbn [bind] in H.
    injection H as _ <-. rewrite (IH _ _ _ E1). exact E.
  - injection H as _ <-. exact E.
Qed.

Lemma dc_hml_inv s m l suffix s1 : deserialize_hml s m = Ok (l, suffix, s1) ->
  s_refs s1 = s_refs s /\ length suffix = l.
Proof.
  unfold deserialize_hml.
  destruct (s_load_bit s) as [[k sa]|e] eqn:Ea; [|discriminate]. cbn [bind].
  apply dc_load_bit_refs in Ea. destruct k.
  - destruct (s_load_bit sa) as [[k2 sb]|e] eqn:Eb; [|discriminate]. cbn [bind].
    apply dc_load_bit_refs in Eb. cbv zeta. destruct k2.
    + destruct (s_load_bit sb) as [[v sc]|e] eqn:Ec; [|discriminate]. cbn [bind].
      apply dc_load_bit_refs in Ec.
      destruct (Z.to_nat (zbit_length m) =? 0)%nat.
      * cbn [bind]. intro H. injection H as <- <- <-. split; [congruence|reflexivity].
      * destruct (s_load_uint sc (Z.to_nat (zbit_length m))) as [[n sd]|e] eqn:Ed; [|discriminate].
        cbn [bind]. apply dc_load_uint_refs in Ed.
        intro H. injection H as <- <- <-. split; [congruence|apply repeat_length].
    + assert (G : forall n sc, s_refs sc = s_refs s ->
                bind (s_load_bits sc (Z.to_nat n)) (fun '(bits, s4) => Ok (Z.to_nat n, bits, s4))
                  = Ok (l, suffix, s1) -> s_refs s1 = s_refs s /\ length suffix = l).
      { intros n sc Hc. destruct (s_load_bits sc (Z.to_nat n)) as [[bits sd]|e] eqn:Ed; [|discriminate].
        cbn [bind]. apply dc_load_bits_inv in Ed. destruct Ed as [Ed1 Ed2].
        intro H. injection H as <- <- <-. split; [congruence|exact Ed2]. }
      destruct (Z.to_nat (zbit_length m) =? 0)%nat.
      * cbn [bind]. apply G. congruence.
      * destruct (s_load_uint sb (Z.to_nat (zbit_length m))) as [[n sc]|e] eqn:Ec; [|discriminate].
        cbn [bind]. apply dc_load_uint_refs in Ec. apply G. congruence.
  - destruct (deserialize_unary (S (length (s_bits sa))) sa) as [[n sb]|e] eqn:Eb; [|discriminate].
    cbn [bind]. apply dc_unary_refs in Eb.
    destruct (s_load_bits sb n) as [[bits sc]|e] eqn:Ec; [|discriminate]. cbn [bind].
    apply dc_load_bits_inv in Ec. destruct Ec as [Ec1 Ec2].
    intro H. injection H as <- <- <-. split; [congruence|exact Ec2].
Qed.

(* a cell tree without non-ordinary cells *)
Fixpoint cell_all_ord (c : cell) : bool :=
  let 'Cell ty _ refs := c in (ty =? ty_ordinary)%Z && forallb cell_all_ord refs.

Lemma cell_all_ord_eq ty bits refs :
  cell_all_ord (Cell ty bits refs) = (ty =? ty_ordinary)%Z && forallb cell_all_ord refs.
Proof. reflexivity. Qed.

(* below an all-ordinary cell, with a non-empty key prefix, no visit is empty *)
Lemma dict_no_empties_prefix : forall fuel ty s m prefix ls v z,
  parse_edge_c fuel ty s m prefix = Ok (ls, (v, z)) ->
  ty = ty_ordinary -> forallb cell_all_ord (s_refs s) = true -> prefix <> [] -> z = O.
Proof.
  induction fuel as [|f IH]; intros ty s m prefix ls v z H Hty Hall Hp; [discriminate H|].
  rewrite parse_edge_c_S in H.
  destruct (deserialize_hml s m) as [[[l suffix] s1]|e] eqn:El; [|discriminate H]. cbn [bind] in H.
  apply dc_hml_inv in El. destruct El as [Hr _].
  destruct (m <? Z.of_nat l)%Z; [discriminate H|]. cbv zeta in H.
  subst ty. rewrite hm_ord_test in H.
  destruct (m - Z.of_nat l =? 0)%Z.
  { destruct (prefix ++ suffix) eqn:Ep.
    - apply app_eq_nil in Ep. destruct Ep as [Ep _]. contradiction.
    - injection H as _ _ <-. reflexivity. }
  unfold s_load_ref in H at 1. rewrite Hr in H.
  destruct (s_refs s) as [|[ty0 bits0 refs0] rest]; [discriminate H|]. cbn [bind] in H.
  cbn [forallb] in Hall. apply andb_prop in Hall. destruct Hall as [H0 Hrest].
  rewrite cell_all_ord_eq in H0. apply andb_prop in H0. destruct H0 as [T0 A0].
  destruct (parse_edge_c f ty0 (mkS bits0 refs0) (m - Z.of_nat l - 1) ((prefix ++ suffix) ++ [false]))
    as [[ls0 [vl zl]]|e] eqn:E0; [|discriminate H]. cbn [bind] in H.
  unfold s_load_ref in H. cbn [s_refs] in H.
  destruct rest as [|[ty1 bits1 refs1] rest']; [discriminate H|]. cbn [bind] in H.
  cbn [forallb] in Hrest. apply andb_prop in Hrest. destruct Hrest as [H1 _].
  rewrite cell_all_ord_eq in H1. apply andb_prop in H1. destruct H1 as [T1 A1].
  destruct (parse_edge_c f ty1 (mkS bits1 refs1) (m - Z.of_nat l - 1) ((prefix ++ suffix) ++ [true]))
    as [[rs [vr zr]]|e] eqn:E1; [|discriminate H]. cbn [bind] in H.
  injection H as _ _ <-.
  assert (Z0 : zl = O).
  { apply (IH _ _ _ _ _ _ _ E0); [lia|exact A0|]. intro Q. apply app_eq_nil in Q. destruct Q as [_ Q]. discriminate Q. }
  assert (Z1 : zr = O).
  { apply (IH _ _ _ _ _ _ _ E1); [lia|exact A1|]. intro Q. apply app_eq_nil in Q. destruct Q as [_ Q]. discriminate Q. }
  lia.
Qed.

(* the same from the root (empty prefix) of a dictionary with a key width of at least one bit *)
Lemma dict_no_empties_root : forall fuel s m ls v z,
  parse_edge_c fuel ty_ordinary s m [] = Ok (ls, (v, z)) ->
  forallb cell_all_ord (s_refs s) = true -> (0 < m)%Z -> z = O.
Proof.
  intros [|f] s m ls v z H Hall Hm; [discriminate H|].
  rewrite parse_edge_c_S in H.
  destruct (deserialize_hml s m) as [[[l suffix] s1]|e] eqn:El; [|discriminate H]. cbn [bind] in H.
  apply dc_hml_inv in El. destruct El as [Hr Hlen].
  destruct (m <? Z.of_nat l)%Z; [discriminate H|]. cbv zeta in H.
  rewrite hm_ord_test in H. cbn [app] in H.
  destruct (m - Z.of_nat l =? 0)%Z eqn:Em.
  { destruct suffix as [|x suffix'].
    - cbn [length] in Hlen. lia.
    - injection H as _ _ <-. reflexivity. }
  unfold s_load_ref in H at 1. rewrite Hr in H.
  destruct (s_refs s) as [|[ty0 bits0 refs0] rest]; [discriminate H|]. cbn [bind] in H.
  cbn [forallb] in Hall. apply andb_prop in Hall. destruct Hall as [H0 Hrest].
  rewrite cell_all_ord_eq in H0. apply andb_prop in H0. destruct H0 as [T0 A0].
  destruct (parse_edge_c f ty0 (mkS bits0 refs0) (m - Z.of_nat l - 1) (suffix ++ [false]))
    as [[ls0 [vl zl]]|e] eqn:E0; [|discriminate H]. cbn [bind] in H.
  unfold s_load_ref in H. cbn [s_refs] in H.
  destruct rest as [|[ty1 bits1 refs1] rest']; [discriminate H|]. cbn [bind] in H.
  cbn [forallb] in Hrest. apply andb_prop in Hrest. destruct Hrest as [H1 _].
  rewrite cell_all_ord_eq in H1. apply andb_prop in H1. destruct H1 as [T1 A1].
  destruct (parse_edge_c f ty1 (mkS bits1 refs1) (m - Z.of_nat l - 1) (suffix ++ [true]))
    as [[rs [vr zr]]|e] eqn:E1; [|discriminate H]. cbn [bind] in H.
  injection H as _ _ <-.
  assert (Z0 : zl = O).
  { apply (dict_no_empties_prefix _ _ _ _ _ _ _ _ E0); [lia|exact A0|].
    intro Q. apply app_eq_nil in Q. destruct Q as [_ Q]. discriminate Q. }
  assert (Z1 : zr = O).
  { apply (dict_no_empties_prefix _ _ _ _ _ _ _ _ E1); [lia|exact A1|].
    intro Q. apply app_eq_nil in Q. destruct Q as [_ Q]. discriminate Q. }
  lia.
Qed.

(* output-linear work: a dictionary cell without non-ordinary cells below it, key width >= 1, parsed with
   k entries, costs exactly 2k - 1 edge visits (and k >= 1) *)
Theorem dict_visits_output_exact : forall fuel ty bits refs n ls v z,
  cell_all_ord (Cell ty bits refs) = true -> (0 < n)%Z ->
  parse_edge_c fuel ty (mkS bits refs) n [] = Ok (ls, (v, z)) ->
  (1 <= length ls)%nat /\ v = (2 * length ls - 1)%nat /\ z = O.
Proof.
  intros fuel ty bits refs n ls v z Hall Hn H.
  rewrite cell_all_ord_eq in Hall. apply andb_prop in Hall. destruct Hall as [T A].
  assert (Hty : ty = ty_ordinary) by lia. subst ty.
  pose proof (dict_no_empties_root _ _ _ _ _ _ H A Hn) as Hz.
  pose proof (dict_visits_exact _ _ _ _ _ _ _ _ H) as Hv. lia.
Qed.

(* in general: at most twice the entries plus the empty terminals; never more than 2 * entries when
   there is no empty terminal *)
Corollary dict_visits_linear : forall fuel ty s m prefix ls v z,
  parse_edge_c fuel ty s m prefix = Ok (ls, (v, z)) ->
  (v <= 2 * (length ls + z))%nat /\ (z = O -> v <= 2 * length ls)%nat.
Proof.
  intros fuel ty s m prefix ls v z H. apply dict_visits_exact in H. lia.
Qed.

(* ------------------------------------------------------------------ *)
(* 3. the recursion depth is bounded by the key width                  *)
(* ------------------------------------------------------------------ *)
(* any two fuels above the remaining key width give the same result (and the same counts) *)
Theorem parse_edge_c_fuel_irrelevant : forall f1 f2 ty s m prefix,
  (Z.to_nat m < f1)%nat -> (Z.to_nat m < f2)%nat ->
  parse_edge_c f1 ty s m prefix = parse_edge_c f2 ty s m prefix.
Proof.
  induction f1 as [|f1 IH]; intros f2 ty s m prefix H1 H2; [lia|].
  destruct f2 as [|f2]; [lia|].
  rewrite !parse_edge_c_S.
  destruct (deserialize_hml s m) as [[[l suffix] s1]|e]; [|reflexivity]. cbn [bind].
  destruct (m <? Z.of_nat l)%Z eqn:Elt; [reflexivity|]. cbv zeta.
  destruct (negb (ty =? ty_ordinary)%Z); [reflexivity|].
  destruct (m - Z.of_nat l =? 0)%Z eqn:Em; [reflexivity|].
  destruct (s_load_ref s1) as [[[ty0 bits0 refs0] s2]|e]; [|reflexivity]. cbn [bind].
  rewrite (IH f2 ty0 (mkS bits0 refs0)) by lia.
  destruct (parse_edge_c f2 ty0 (mkS bits0 refs0) (m - Z.of_nat l - 1) ((prefix ++ suffix) ++ [false]))
    as [[ls0 [vl zl]]|e]; [|reflexivity]. cbn [bind].
  destruct (s_load_ref s2) as [[[ty1 bits1 refs1] s3]|e]; [|reflexivity]. cbn [bind].
  rewrite (IH f2 ty1 (mkS bits1 refs1)) by lia. reflexivity.
Qed.

Corollary parse_edge_fuel_irrelevant : forall f1 f2 ty s m prefix,
  (Z.to_nat m < f1)%nat -> (Z.to_nat m < f2)%nat ->
  parse_edge f1 ty s m prefix = parse_edge f2 ty s m prefix.
Proof.
  intros f1 f2 ty s m prefix H1 H2. rewrite <- !parse_edge_c_same.
  rewrite (parse_edge_c_fuel_irrelevant f1 f2) by assumption. reflexivity.
Qed.

(* the constant fuel of the model is not what bounds the work: for every key width a cell can announce
   (n <= 1023, and in fact up to 1099) the parser behaves as with fuel n + 1 *)
Corollary parse_hashmap_fuel : forall ty s n, (n <= 1023)%Z ->
  parse_hashmap ty s n = parse_edge (S (Z.to_nat n)) ty s n [].
Proof.
  intros ty s n Hn. unfold parse_hashmap. apply parse_edge_fuel_irrelevant; [|lia].
  pose proof hm_parse_fuel_big. lia.
Qed.

(* with enough fuel the walk itself never runs out of fuel: ERecursion is not produced by parse_edge's own
   fuel test (every call made has fuel left) - stated as: adding fuel changes nothing *)
Corollary parse_edge_fuel_mono : forall f k ty s m prefix,
  (Z.to_nat m < f)%nat -> parse_edge (f + k) ty s m prefix = parse_edge f ty s m prefix.
Proof. intros f k ty s m prefix H. apply parse_edge_fuel_irrelevant; lia. Qed.

(* the number of visits is also bounded by the key width alone: a walk of key width m is a binary tree of
   depth at most m + 1 *)
Theorem dict_visits_depth : forall fuel ty s m prefix ls v z,
  parse_edge_c fuel ty s m prefix = Ok (ls, (v, z)) ->
  (0 <= m)%Z /\ (v + 1 <= 2 ^ (Z.to_nat m + 1))%nat.
Proof.
  induction fuel as [|f IH]; intros ty s m prefix ls v z H; [discriminate H|].
  rewrite parse_edge_c_S in H.
  destruct (deserialize_hml s m) as [[[l suffix] s1]|e]; [|discriminate H]. cbn [bind] in H.
  destruct (m <? Z.of_nat l)%Z eqn:Elt; [discriminate H|]. cbv zeta in H.
  split; [lia|].
  assert (P : forall k, (2 <= 2 ^ (k + 1))%nat).
  { intro k. rewrite Nat.add_1_r. cbn [Nat.pow]. pose proof (Nat.pow_nonzero 2 k). lia. }
  destruct (negb (ty =? ty_ordinary)%Z).
  { injection H as _ <- _. apply P. }
  destruct (m - Z.of_nat l =? 0)%Z eqn:Em.
  { destruct (prefix ++ suffix); injection H as _ <- _; apply P. }
  destruct (s_load_ref s1) as [[[ty0 bits0 refs0] s2]|e]; [|discriminate H]. cbn [bind] in H.
  destruct (parse_edge_c f ty0 (mkS bits0 refs0) (m - Z.of_nat l - 1) ((prefix ++ suffix) ++ [false]))
    as [[ls0 [vl zl]]|e] eqn:E0; [|discriminate H]. cbn [bind] in H.
  destruct (s_load_ref s2) as [[[ty1 bits1 refs1] s3]|e]; [|discriminate H]. cbn [bind] in H.
  destruct (parse_edge_c f ty1 (mkS bits1 refs1) (m - Z.of_nat l - 1) ((prefix ++ suffix) ++ [true]))
    as [[rs [vr zr]]|e] eqn:E1; [|discriminate H]. cbn [bind] in H.
  injection H as _ <- _.
  apply IH in E0. apply IH in E1. destruct E0 as [_ E0]. destruct E1 as [_ E1].
  assert (M : (2 ^ (Z.to_nat (m - Z.of_nat l - 1) + 1) <= 2 ^ Z.to_nat m)%nat).
  { apply Nat.pow_le_mono_r; lia. }
  rewrite (Nat.add_1_r (Z.to_nat m)). cbn [Nat.pow]. lia.
Qed.

(* ------------------------------------------------------------------ *)
(* 4. F32: shared children - work proportional to the output, not to the distinct cells *)
(* ------------------------------------------------------------------ *)
(* depth 0: a leaf with an empty label (0 0) and one value bit; depth d+1: a fork with an empty label
   whose two references are the same child *)
Fixpoint dict_chain (d : nat) : cell :=
  match d with
  | O => Cell ty_ordinary [false; false; true] []
  | S d' => Cell ty_ordinary [false; false] [dict_chain d'; dict_chain d']
  end.

(* the number of distinct cells of the chain of depth d is d + 1 (one per level) *)
Fixpoint dict_chain_cells (d : nat) : list cell :=
  match d with O => [dict_chain O] | S d' => dict_chain (S d') :: dict_chain_cells d' end.

Example dict_chain_6 :
  length (dict_chain_cells 6) = 7%nat /\
  cell_all_ord (dict_chain 6) = true /\
  match parse_edge_c parse_fuel ty_ordinary (begin_parse (dict_chain 6)) 6 [] with
  | Ok (ls, (v, z)) => length ls = 64%nat /\ v = 127%nat /\ z = 0%nat /\ NoDup (map fst ls)
  | Err _ => False
  end.
Proof.
  split; [reflexivity|]. split; [vm_compute; reflexivity|].
  assert (E : exists r, parse_edge_c parse_fuel ty_ordinary (begin_parse (dict_chain 6)) 6 [] = Ok r /\
     length (fst r) = 64%nat /\ fst (snd r) = 127%nat /\ snd (snd r) = 0%nat /\
     forallb (fun k => (count_occ (list_eq_dec Bool.bool_dec) (map fst (fst r)) k =? 1)%nat) (map fst (fst r)) = true).
  { eexists. split; [vm_compute; reflexivity|]. vm_compute. repeat split; reflexivity. }
  destruct E as ([ls [v z]] & -> & L & V & Z0 & D). cbn [fst snd] in *.
  repeat split; try assumption.
  apply (NoDup_count_occ' (list_eq_dec Bool.bool_dec)). intros k Hk.
  rewrite forallb_forall in D. specialize (D k Hk). lia.
Qed.

(* with a pruned-branch (non-ordinary) cell at the bottom of the chain the walk yields nothing and still
   makes 2^(d+1) - 1 visits: the work is bounded by the key width (dict_visits_depth) and by
   entries + empty terminals (dict_visits_exact), not by the entries alone *)
Fixpoint dict_chain_pruned (d : nat) : cell :=
  match d with
  | O => Cell 1 [false; false] []
  | S d' => Cell ty_ordinary [false; false] [dict_chain_pruned d'; dict_chain_pruned d']
  end.

Example dict_chain_pruned_6 :
  parse_edge_c parse_fuel ty_ordinary (begin_parse (dict_chain_pruned 6)) 6 [] = Ok ([], (127, 64))%nat.
Proof. vm_compute. reflexivity. Qed.
