(* C10, label part: the label kind chosen by the library is the reference one, the label writer emits
   the HmLabel encoding of that kind, and the label reader decodes all three kinds.
   Relates Model/Hashmap.v (detect_label_type, write_label, deserialize_hml) to Spec/Hashmap.v. *)
From Coq Require Import NArith ZArith List Bool Lia ZifyBool ZifyNat ZifyN.
From PTQ Require Import Base.Result Base.Bytes Base.Bits Model.Cell Model.Builder Model.Hashmap
  Spec.TlbPrim Spec.Hashmap.
Import ListNotations.

(* ------------------------------------------------------------------ *)
(* 0. helpers (self-contained; names prefixed hm_)                     *)
(* ------------------------------------------------------------------ *)

Lemma hm_bind_ok {A B} (r : result A) (f : A -> result B) b :
  bind r f = Ok b -> exists a, r = Ok a /\ f a = Ok b.
Proof. destruct r as [a|e]; cbn [bind]; [eauto|discriminate]. Qed.

Lemma hm_enc_length w v : length (enc w v) = w.
Proof. unfold enc. rewrite map_length, seq_length. reflexivity. Qed.

Lemma hm_enc_snoc w v : enc (S w) v = enc w (v / 2)%Z ++ [Z.testbit v 0].
Proof.
  unfold enc. rewrite seq_S, map_app. cbn [map]. f_equal.
  - apply map_ext_in. intros i Hi. apply in_seq in Hi.
    replace (Z.of_nat (S w - 1 - i)) with (Z.succ (Z.of_nat (w - 1 - i))) by lia.
    rewrite Z.div2_bits by lia. reflexivity.
  - f_equal. f_equal. lia.
Qed.

Lemma hm_to_bits_enc w : forall n, to_bits w n = enc w (Z.of_N n).
Proof.
  induction w as [|w IH]; intros n; [reflexivity|].
  unfold to_bits. cbn [to_bits_le rev]. fold (to_bits w (n / 2)%N).
  rewrite IH, hm_enc_snoc, N2Z.inj_div. f_equal. f_equal.
  rewrite <- N.bit0_odd. symmetry. apply (Z.testbit_of_N n 0).
Qed.

(* unsigned reading of an in-range encoding *)
Lemma hm_of_bits_enc w v : (0 <= v < 2 ^ Z.of_nat w)%Z -> Z.of_N (of_bits (enc w v)) = v.
Proof.
  intros Hv.
  replace (enc w v) with (to_bits w (Z.to_N v)).
  - rewrite of_bits_to_bits; [lia|].
    apply N2Z.inj_lt. rewrite Z2N.id by lia.
    rewrite N2Z.inj_pow, nat_N_Z. change (Z.of_N 2) with 2%Z. lia.
  - rewrite hm_to_bits_enc, Z2N.id by lia. reflexivity.
Qed.

Lemma hm_ba2int_enc w v : (1 <= w)%nat -> (0 <= v < 2 ^ Z.of_nat w)%Z ->
  ba2int (enc w v) false = Ok v.
Proof.
  intros Hw Hv. unfold ba2int.
  destruct (enc w v) as [|x t] eqn:E.
  - pose proof (hm_enc_length w v) as Hl. rewrite E in Hl. cbn [length] in Hl. lia.
  - rewrite <- E, hm_of_bits_enc by exact Hv. reflexivity.
Qed.

(* ---- int.bit_length() ---- *)
Lemma hm_nbitlen_pos m : (1 <= m)%nat -> (1 <= nbitlen m)%nat.
Proof.
  intros Hm. unfold nbitlen. destruct (N.of_nat m) as [|p] eqn:E; [lia|].
  cbn [N.size]. lia.
Qed.

Lemma hm_nbitlen_zero m : nbitlen m = 0%nat -> m = 0%nat.
Proof. intros Hk. destruct m as [|m']; [reflexivity|]. pose proof (hm_nbitlen_pos (S m')). lia. Qed.

Lemma hm_lt_pow2_nbitlen m : (Z.of_nat m < 2 ^ Z.of_nat (nbitlen m))%Z.
Proof.
  unfold nbitlen. pose proof (N.size_gt (N.of_nat m)) as Hs.
  apply N2Z.inj_lt in Hs. rewrite N2Z.inj_pow, nat_N_Z in Hs.
  rewrite N_nat_Z. exact Hs.
Qed.

Lemma hm_zbit_length_nat m : zbit_length (Z.of_nat m) = Z.of_nat (nbitlen m).
Proof.
  unfold zbit_length, nbitlen. rewrite <- (nat_N_Z m), Zabs2N.id, N_nat_Z. reflexivity.
Qed.

(* ------------------------------------------------------------------ *)
(* 1. the label kind                                                   *)
(* ------------------------------------------------------------------ *)

Theorem label_kind_spec : forall l m, (length l <= m)%nat ->
  detect_label_type l m = s_label_kind l m.
Proof.
  intros l m Hlm.
  unfold detect_label_type, s_label_kind, label_short_length, label_long_length, label_same_length.
  assert (Hk : (1 <= length l -> 1 <= nbitlen m)%nat).
  { intros Hn. apply hm_nbitlen_pos. lia. }
  generalize dependent (nbitlen m). generalize dependent (length l). intros n Hnm k Hk.
  destruct (is_same l).
  - destruct (1 + 1 + k + n <? 1 + n + 1 + n)%nat eqn:E1;
    destruct (0 <? n)%nat eqn:E2; destruct (1 <? n)%nat eqn:E3;
    destruct (k <? 2 * n - 1)%nat eqn:E4; destruct (k <? n)%nat eqn:E5;
    cbn [andb];
    try (destruct (1 + 1 + 1 + k <? 1 + 1 + k + n)%nat eqn:E6);
    try (destruct (1 + 1 + 1 + k <? 1 + n + 1 + n)%nat eqn:E7);
    try reflexivity; exfalso; lia.
  - rewrite andb_false_r.
    destruct (1 + 1 + k + n <? 1 + n + 1 + n)%nat eqn:E1;
    destruct (k <? n)%nat eqn:E5; try reflexivity; exfalso; lia.
Qed.

(* ------------------------------------------------------------------ *)
(* 2. the label writer                                                 *)
(* ------------------------------------------------------------------ *)

Lemma hm_store_bits_ok b x b' : b_store_bits b x = Ok b' ->
  b_bits b' = b_bits b ++ x /\ b_refs b' = b_refs b.
Proof.
  unfold b_store_bits. destruct (1023 <? length (b_bits b) + length x)%nat; [discriminate|].
  intros [= <-]. split; reflexivity.
Qed.

Lemma hm_store_bit_ok b x b' : b_store_bit b x = Ok b' ->
  b_bits b' = b_bits b ++ [x] /\ b_refs b' = b_refs b.
Proof. apply hm_store_bits_ok. Qed.

Lemma hm_store_bits_each_ok l : forall b b', b_store_bits_each b l = Ok b' ->
  b_bits b' = b_bits b ++ l /\ b_refs b' = b_refs b.
Proof.
  induction l as [|x r IH]; intros b b' H; cbn [b_store_bits_each] in H.
  - injection H as <-. rewrite app_nil_r. split; reflexivity.
  - apply hm_bind_ok in H. destruct H as (b1 & H1 & H2).
    apply hm_store_bit_ok in H1. destruct H1 as [H1b H1r].
    apply IH in H2. destruct H2 as [H2b H2r].
    rewrite H2b, H2r, H1b, H1r, <- app_assoc. split; reflexivity.
Qed.

Lemma hm_store_uint_nat_ok b v w b' : store_uint_nat b v w = Ok b' ->
  b_bits b' = b_bits b ++ enc w (Z.of_nat v) /\ b_refs b' = b_refs b.
Proof.
  unfold store_uint_nat, b_store_uint. intros H.
  apply hm_bind_ok in H. destruct H as (x & Hx & Hs).
  apply hm_store_bits_ok in Hs.
  unfold int2ba in Hx.
  destruct (Z.of_nat w <=? 0)%Z; [discriminate|].
  destruct ((0 <=? Z.of_nat v)%Z && (Z.of_nat v <? 2 ^ Z.of_nat w)%Z); [|discriminate].
  injection Hx as <-.
  rewrite hm_to_bits_enc, Nat2Z.id, Z2N.id in Hs by lia. exact Hs.
Qed.

Theorem write_label_spec : forall l m b b', (length l <= m)%nat -> write_label l m b = Ok b' ->
  b_bits b' = b_bits b ++ s_label_bits (s_label_kind l m) l m /\ b_refs b' = b_refs b.
Proof.
  intros l m b b' Hlm H. unfold write_label in H. rewrite (label_kind_spec l m Hlm) in H.
  destruct (s_label_kind l m); unfold s_label_bits.
  - apply hm_bind_ok in H. destruct H as (b1 & H1 & H).
    apply hm_bind_ok in H. destruct H as (b2 & H2 & H).
    apply hm_bind_ok in H. destruct H as (b3 & H3 & H4).
    apply hm_store_bit_ok in H1. destruct H1 as [H1b H1r].
    apply hm_store_bits_each_ok in H2. destruct H2 as [H2b H2r].
    apply hm_store_bit_ok in H3. destruct H3 as [H3b H3r].
    apply hm_store_bits_each_ok in H4. destruct H4 as [H4b H4r].
    rewrite H4b, H4r, H3b, H3r, H2b, H2r, H1b, H1r, <- !app_assoc. split; reflexivity.
  - apply hm_bind_ok in H. destruct H as (b1 & H1 & H).
    apply hm_bind_ok in H. destruct H as (b2 & H2 & H).
    apply hm_bind_ok in H. destruct H as (b3 & H3 & H4).
    apply hm_store_bit_ok in H1. destruct H1 as [H1b H1r].
    apply hm_store_bit_ok in H2. destruct H2 as [H2b H2r].
    apply hm_store_uint_nat_ok in H3. destruct H3 as [H3b H3r].
    apply hm_store_bits_each_ok in H4. destruct H4 as [H4b H4r].
    rewrite H4b, H4r, H3b, H3r, H2b, H2r, H1b, H1r, <- !app_assoc. split; reflexivity.
  - apply hm_bind_ok in H. destruct H as (b1 & H1 & H).
    apply hm_bind_ok in H. destruct H as (b2 & H2 & H).
    apply hm_bind_ok in H. destruct H as (b3 & H3 & H4).
    apply hm_store_bit_ok in H1. destruct H1 as [H1b H1r].
    apply hm_store_bit_ok in H2. destruct H2 as [H2b H2r].
    apply hm_store_bit_ok in H3. destruct H3 as [H3b H3r].
    apply hm_store_uint_nat_ok in H4. destruct H4 as [H4b H4r].
    rewrite H4b, H4r, H3b, H3r, H2b, H2r, H1b, H1r, <- !app_assoc. split; reflexivity.
Qed.

(* ------------------------------------------------------------------ *)
(* 3. the label reader                                                 *)
(* ------------------------------------------------------------------ *)

Lemma hm_load_bit x tb r : s_load_bit (mkS (x :: tb) r) = Ok (x, mkS tb r).
Proof. reflexivity. Qed.

Lemma hm_skip_app l tb r : s_skip (mkS (l ++ tb) r) (length l) = Ok (mkS tb r).
Proof.
  unfold s_skip. cbn [s_bits s_refs]. rewrite app_length.
  destruct (Nat.ltb_spec (length l + length tb) (length l)) as [Hlt|_]; [lia|].
  rewrite skipn_app, skipn_all, Nat.sub_diag. reflexivity.
Qed.

Lemma hm_load_bits_app l tb r : s_load_bits (mkS (l ++ tb) r) (length l) = Ok (l, mkS tb r).
Proof.
  unfold s_load_bits. rewrite hm_skip_app. cbn [bind]. unfold s_preload_bits. cbn [s_bits].
  rewrite firstn_app, firstn_all, Nat.sub_diag, app_nil_r. reflexivity.
Qed.

Lemma hm_load_uint_app w v tb r : (1 <= w)%nat -> (0 <= v < 2 ^ Z.of_nat w)%Z ->
  s_load_uint (mkS (enc w v ++ tb) r) w = Ok (v, mkS tb r).
Proof.
  intros Hw Hv. unfold s_load_uint, s_preload_uint. cbn [s_bits].
  pose proof (hm_enc_length w v) as Hl.
  pose proof (hm_skip_app (enc w v) tb r) as Hs. rewrite Hl in Hs.
  assert (Hf : firstn w (enc w v ++ tb) = enc w v).
  { rewrite <- Hl at 1. rewrite firstn_app, firstn_all, Nat.sub_diag, app_nil_r. reflexivity. }
  rewrite Hf, hm_ba2int_enc by assumption. cbn [bind]. rewrite Hs. reflexivity.
Qed.

Lemma hm_unary n : forall fuel rest refs, (n < fuel)%nat ->
  deserialize_unary fuel (mkS (repeat true n ++ false :: rest) refs) = Ok (n, mkS rest refs).
Proof.
  induction n as [|n IH]; intros fuel rest refs Hf; (destruct fuel as [|f]; [lia|]).
  - reflexivity.
  - cbn [repeat app deserialize_unary]. rewrite hm_load_bit. cbn [bind].
    rewrite IH by lia. reflexivity.
Qed.

Lemma hm_is_same_repeat l : is_same l = true -> repeat (hd false l) (length l) = l.
Proof.
  destruct l as [|x r]; [reflexivity|]. cbn [is_same hd length repeat]. intros H. f_equal.
  induction r as [|y r IH]; [reflexivity|].
  cbn [forallb] in H. apply andb_true_iff in H. destruct H as [Hxy Hr].
  apply eqb_prop in Hxy. subst y. cbn [length repeat]. f_equal. exact (IH Hr).
Qed.

Theorem read_label_spec : forall kind l m rest refs, (length l <= m)%nat -> kind_ok kind l = true ->
  deserialize_hml (mkS (s_label_bits kind l m ++ rest) refs) (Z.of_nat m)
  = Ok (length l, l, mkS rest refs).
Proof.
  intros kind l m rest refs Hlm Hok.
  pose proof (hm_lt_pow2_nbitlen m) as Hpow.
  unfold deserialize_hml. rewrite hm_zbit_length_nat, Nat2Z.id.
  destruct kind; unfold s_label_bits.
  - (* short *)
    rewrite <- !app_assoc. cbn [app]. rewrite hm_load_bit. cbn [bind].
    rewrite hm_unary by (cbn [s_bits]; rewrite app_length, repeat_length; lia).
    cbn [bind]. rewrite hm_load_bits_app. reflexivity.
  - (* long *)
    rewrite <- !app_assoc. cbn [app]. rewrite !hm_load_bit. cbn [bind]. rewrite hm_load_bit. cbn [bind].
    destruct (Nat.eqb_spec (nbitlen m) 0) as [Hk0|Hk0].
    + apply hm_nbitlen_zero in Hk0. subst m.
      destruct l as [|x l']; [|cbn [length] in Hlm; lia].
      cbn [bind]. reflexivity.
    + rewrite hm_load_uint_app by lia. cbn [bind]. rewrite Nat2Z.id, hm_load_bits_app. reflexivity.
  - (* same *)
    cbn [kind_ok] in Hok.
    rewrite <- !app_assoc. cbn [app]. rewrite !hm_load_bit. cbn [bind]. rewrite hm_load_bit. cbn [bind].
    rewrite hm_load_bit. cbn [bind].
    destruct (Nat.eqb_spec (nbitlen m) 0) as [Hk0|Hk0].
    + apply hm_nbitlen_zero in Hk0. subst m.
      destruct l as [|x l']; [|cbn [length] in Hlm; lia].
      cbn [bind]. reflexivity.
    + rewrite hm_load_uint_app by lia. cbn [bind].
      rewrite Nat2Z.id, hm_is_same_repeat by exact Hok. reflexivity.
Qed.
