(* C03, last clause: the raw-bytes, hex-text and base64-text forms of one serialisation are normalised by
   Boc.__init__ to the same bytes, hence parse to the same result through the Cell, Slice and Builder
   entry points. *)
From Coq Require Import NArith ZArith List Bool Lia ZifyBool ZifyNat ZifyN.
From PTQ Require Import Base.Result Base.Bytes Base.Bits Model.Cell Model.Crc Model.Address Model.Boc
  Spec.BocFormat Spec.BocProps Proofs.CellOrd Proofs.AddressProofs Proofs.BocEmit Proofs.BocAccept
  Proofs.BocRoundtrip.
Import ListNotations.
Local Open Scope N_scope.

Ltac Zify.zify_post_hook ::= Z.div_mod_to_equations.

(* ------------------------------------------------------------------ *)
(* 1. hex text                                                         *)
(* ------------------------------------------------------------------ *)

Definition hex_digit_okb (v : N) : bool :=
  negb (py_isspace (hex_digit v)) && (hex_digit v <? 128) &&
  match hex_val (hex_digit v) with Some w => w =? v | None => false end.

Lemma hex_digit_sweep : allb_below 16 hex_digit_okb = true.
Proof. vm_compute. reflexivity. Qed.

Lemma hex_digit_facts v : v < 16 ->
  py_isspace (hex_digit v) = false /\ hex_val (hex_digit v) = Some v.
Proof.
  intro Hv. pose proof (allb_below_spec _ _ hex_digit_sweep v Hv) as E.
  unfold hex_digit_okb in E. apply andb_prop in E. destruct E as [E E3].
  apply andb_prop in E. destruct E as [E1 _]. apply negb_true_iff in E1.
  split; [exact E1|].
  destruct (hex_val (hex_digit v)) as [w|]; [|discriminate]. apply N.eqb_eq in E3. subst w. reflexivity.
Qed.

Lemma hex_text_cons b h : hex_text (b :: h) = hex_digit (b / 16) :: hex_digit (b mod 16) :: hex_text h.
Proof. reflexivity. Qed.

Lemma fromhex_ws_byte c1 c2 hi lo r :
  py_isspace c1 = false -> hex_val c1 = Some hi -> hex_val c2 = Some lo ->
  fromhex_ws (c1 :: c2 :: r) = option_map (cons (hi * 16 + lo)) (fromhex_ws r).
Proof. intros Hs H1 H2. cbn [fromhex_ws]. rewrite Hs, H1, H2. reflexivity. Qed.

Lemma fromhex_ws_hex_text b : bytes_ok b -> fromhex_ws (hex_text b) = Some b.
Proof.
  intro Hok. induction Hok as [|x b Hx _ IH]; [reflexivity|].
  rewrite hex_text_cons.
  assert (H1 : x / 16 < 16) by lia. assert (H2 : x mod 16 < 16) by lia.
  destruct (hex_digit_facts _ H1) as [S1 V1]. destruct (hex_digit_facts _ H2) as [_ V2].
  rewrite (fromhex_ws_byte _ _ _ _ _ S1 V1 V2), IH. cbn [option_map]. do 2 f_equal. lia.
Qed.

(* bytes.hex() text is read back by Boc.__init__ as the same bytes *)
Theorem hex_norm : forall b, bytes_ok b -> boc_normalize (InStr (hex_text b)) = Ok b.
Proof. intros b Hok. cbn [boc_normalize]. rewrite (fromhex_ws_hex_text b Hok). reflexivity. Qed.

(* ------------------------------------------------------------------ *)
(* 2. base64 text: the non-validating decoder inverts the encoder      *)
(* ------------------------------------------------------------------ *)

Definition b64_std_okb (v : N) : bool :=
  negb (b64_char false v =? 61) && (b64_char false v <? 128) &&
  match b64_std_val (b64_char false v) with Some w => w =? v | None => false end.

Lemma b64_std_sweep : allb_below 64 b64_std_okb = true.
Proof. vm_compute. reflexivity. Qed.

Lemma b64_std_facts v : v < 64 ->
  (b64_char false v =? 61) = false /\ (b64_char false v <? 128) = true /\
  b64_std_val (b64_char false v) = Some v.
Proof.
  intro Hv. pose proof (allb_below_spec _ _ b64_std_sweep v Hv) as E.
  unfold b64_std_okb in E. apply andb_prop in E. destruct E as [E E3].
  apply andb_prop in E. destruct E as [E1 E2]. apply negb_true_iff in E1.
  split; [exact E1|]. split; [exact E2|].
  destruct (b64_std_val (b64_char false v)) as [w|]; [|discriminate].
  apply N.eqb_eq in E3. subst w. reflexivity.
Qed.

(* one decoder step, unfolded *)
Lemma a2b_cons c r quad left pads :
  a2b_base64 (c :: r) quad left pads =
  if c =? 61 then
    if 2 <=? quad then
      if 4 <=? quad + (pads + 1) then Some [] else a2b_base64 r quad left (pads + 1)
    else a2b_base64 r quad left pads
  else
    match b64_std_val c with
    | None => a2b_base64 r quad left pads
    | Some v =>
        if quad =? 0 then a2b_base64 r 1 v 0
        else if quad =? 1 then option_map (cons (left * 4 + v / 16)) (a2b_base64 r 2 (v mod 16) 0)
        else if quad =? 2 then option_map (cons (left * 16 + v / 4)) (a2b_base64 r 3 (v mod 4) 0)
        else option_map (cons (left * 64 + v)) (a2b_base64 r 0 0 0)
    end.
Proof. reflexivity. Qed.

Lemma a2b_char0 v r left pads : v < 64 ->
  a2b_base64 (b64_char false v :: r) 0 left pads = a2b_base64 r 1 v 0.
Proof. intro Hv. destruct (b64_std_facts v Hv) as (E1 & _ & E3). rewrite a2b_cons, E1, E3. reflexivity. Qed.
Lemma a2b_char1 v r left pads : v < 64 ->
  a2b_base64 (b64_char false v :: r) 1 left pads =
  option_map (cons (left * 4 + v / 16)) (a2b_base64 r 2 (v mod 16) 0).
Proof. intro Hv. destruct (b64_std_facts v Hv) as (E1 & _ & E3). rewrite a2b_cons, E1, E3. reflexivity. Qed.
Lemma a2b_char2 v r left pads : v < 64 ->
  a2b_base64 (b64_char false v :: r) 2 left pads =
  option_map (cons (left * 16 + v / 4)) (a2b_base64 r 3 (v mod 4) 0).
Proof. intro Hv. destruct (b64_std_facts v Hv) as (E1 & _ & E3). rewrite a2b_cons, E1, E3. reflexivity. Qed.
Lemma a2b_char3 v r left pads : v < 64 ->
  a2b_base64 (b64_char false v :: r) 3 left pads =
  option_map (cons (left * 64 + v)) (a2b_base64 r 0 0 0).
Proof. intro Hv. destruct (b64_std_facts v Hv) as (E1 & _ & E3). rewrite a2b_cons, E1, E3. reflexivity. Qed.

(* the two padded tails *)
Lemma a2b_pad1 r left : a2b_base64 (61 :: r) 3 left 0 = Some [].
Proof. reflexivity. Qed.
Lemma a2b_pad2 r left : a2b_base64 (61 :: 61 :: r) 2 left 0 = Some [].
Proof. reflexivity. Qed.

Lemma b64_text_group a b c r :
  b64_text (a :: b :: c :: r) =
  b64_char false (a / 4) :: b64_char false ((a mod 4) * 16 + b / 16) ::
  b64_char false ((b mod 16) * 4 + c / 64) :: b64_char false (c mod 64) :: b64_text r.
Proof. reflexivity. Qed.
Lemma b64_text_two a b :
  b64_text [a; b] =
  [b64_char false (a / 4); b64_char false ((a mod 4) * 16 + b / 16); b64_char false ((b mod 16) * 4); 61].
Proof. reflexivity. Qed.
Lemma b64_text_one a : b64_text [a] = [b64_char false (a / 4); b64_char false ((a mod 4) * 16); 61; 61].
Proof. reflexivity. Qed.

(* induction in steps of three, with both remainders *)
Lemma bytes3_ind (P : list N -> Prop) :
  P [] -> (forall a, P [a]) -> (forall a b, P [a; b]) ->
  (forall a b c r, P r -> P (a :: b :: c :: r)) -> forall bs, P bs.
Proof.
  intros H0 H1 H2 H3 bs.
  assert (G : forall n bs, (length bs <= n)%nat -> P bs).
  { induction n as [|n IH]; intros l Hl.
    - destruct l; [exact H0|cbn [length] in Hl; lia].
    - destruct l as [|a [|b [|c r]]]; [exact H0|exact (H1 a)|exact (H2 a b)|].
      apply H3. apply IH. cbn [length] in Hl. lia. }
  exact (G (length bs) bs (le_n _)).
Qed.

Lemma bytes_ok_cons x l : bytes_ok (x :: l) -> x < 256 /\ bytes_ok l.
Proof. intro Hx. inversion Hx; subst. split; assumption. Qed.

(* binascii.a2b_base64(base64.b64encode(b)) = b, for every length *)
Lemma a2b_b64_text b : bytes_ok b -> a2b_base64 (b64_text b) 0 0 0 = Some b.
Proof.
  induction b as [|a|a b|a b c r IH] using bytes3_ind; intro Hok.
  - reflexivity.
  - apply bytes_ok_cons in Hok. destruct Hok as [Ha _].
    rewrite b64_text_one.
    rewrite a2b_char0 by lia. rewrite a2b_char1 by lia. rewrite a2b_pad2.
    cbn [option_map]. do 2 f_equal. lia.
  - apply bytes_ok_cons in Hok. destruct Hok as [Ha Hok].
    apply bytes_ok_cons in Hok. destruct Hok as [Hb _].
    rewrite b64_text_two.
    rewrite a2b_char0 by lia. rewrite a2b_char1 by lia. rewrite a2b_char2 by lia. rewrite a2b_pad1.
    cbn [option_map]. f_equal. f_equal; [lia|]. f_equal. lia.
  - apply bytes_ok_cons in Hok. destruct Hok as [Ha Hok].
    apply bytes_ok_cons in Hok. destruct Hok as [Hb Hok].
    apply bytes_ok_cons in Hok. destruct Hok as [Hc Hok].
    destruct (group_arith a b c Ha Hb Hc) as (G1 & G2 & G3 & G4 & G5 & G6 & G7).
    rewrite b64_text_group.
    rewrite (a2b_char0 _ _ _ _ G1), (a2b_char1 _ _ _ _ G2), (a2b_char2 _ _ _ _ G3), (a2b_char3 _ _ _ _ G4).
    rewrite (IH Hok). cbn [option_map]. rewrite G5, G6, G7. reflexivity.
Qed.

(* base64 text is ASCII *)
Lemma b64_text_ascii b : bytes_ok b -> str_is_ascii (b64_text b) = true.
Proof.
  assert (A : forall v, v < 64 -> (b64_char false v <? 128) = true).
  { intros v Hv. apply (b64_std_facts v Hv). }
  induction b as [|a|a b|a b c r IH] using bytes3_ind; intro Hok.
  - reflexivity.
  - apply bytes_ok_cons in Hok. destruct Hok as [Ha _].
    rewrite b64_text_one. unfold str_is_ascii. cbn [forallb].
    rewrite !A by lia. reflexivity.
  - apply bytes_ok_cons in Hok. destruct Hok as [Ha Hok].
    apply bytes_ok_cons in Hok. destruct Hok as [Hb _].
    rewrite b64_text_two. unfold str_is_ascii. cbn [forallb].
    rewrite !A by lia. reflexivity.
  - apply bytes_ok_cons in Hok. destruct Hok as [Ha Hok].
    apply bytes_ok_cons in Hok. destruct Hok as [Hb Hok].
    apply bytes_ok_cons in Hok. destruct Hok as [Hc Hok].
    destruct (group_arith a b c Ha Hb Hc) as (G1 & G2 & G3 & G4 & _).
    rewrite b64_text_group. unfold str_is_ascii in *. cbn [forallb].
    rewrite (A _ G1), (A _ G2), (A _ G3), (A _ G4), (IH Hok). reflexivity.
Qed.

(* ------------------------------------------------------------------ *)
(* 3. the base64 text of a bag is never read as hex                    *)
(* ------------------------------------------------------------------ *)

Definition has_boc_magic (b : list N) : Prop :=
  exists r, b = boc_magic ++ r \/ b = boc_magic_idx ++ r \/ b = boc_magic_idx_crc ++ r.

(* the hex reader fails within the first two characters when the first one is not white space and one of
   the two is not a hex digit *)
Lemma fromhex_ws_bad2 c1 c2 r : py_isspace c1 = false ->
  match hex_val c1, hex_val c2 with Some _, Some _ => false | _, _ => true end = true ->
  fromhex_ws (c1 :: c2 :: r) = None.
Proof.
  intros Hs Hbad. cbn [fromhex_ws]. rewrite Hs.
  destruct (hex_val c1); [|reflexivity]. destruct (hex_val c2); [discriminate|reflexivity].
Qed.

(* the first two base64 characters are fixed by the first 12 bits: "te" (b5ee9c72), "aP" (68ff65f3),
   "rM" (acc3a728).  't', 'r', 'P', 'M' are not hex digits; 'a' is one, so for the 68ff65f3 magic the hex
   reader only fails at the second character. *)
Lemma magic_first_chars :
  (b64_char false (0xb5 / 4), b64_char false ((0xb5 mod 4) * 16 + 0xee / 16)) = (116, 101) /\
  (b64_char false (0x68 / 4), b64_char false ((0x68 mod 4) * 16 + 0xff / 16)) = (97, 80) /\
  (b64_char false (0xac / 4), b64_char false ((0xac mod 4) * 16 + 0xc3 / 16)) = (114, 77).
Proof. vm_compute. repeat split. Qed.

Lemma fromhex_ws_b64_magic b : has_boc_magic b -> fromhex_ws (b64_text b) = None.
Proof.
  intros (r & [E|[E|E]]); subst b;
    [change (boc_magic ++ r) with (0xb5 :: 0xee :: 0x9c :: 0x72 :: r)
    |change (boc_magic_idx ++ r) with (0x68 :: 0xff :: 0x65 :: 0xf3 :: r)
    |change (boc_magic_idx_crc ++ r) with (0xac :: 0xc3 :: 0xa7 :: 0x28 :: r)];
    rewrite b64_text_group; apply fromhex_ws_bad2; vm_compute; reflexivity.
Qed.

(* base64.b64encode text of a bag (any of the three magics) is read back by Boc.__init__ as the same
   bytes: bytes.fromhex raises, the base64 branch is taken and inverts the encoder *)
Theorem b64_norm : forall b, bytes_ok b -> has_boc_magic b -> boc_normalize (InStr (b64_text b)) = Ok b.
Proof.
  intros b Hok Hm. cbn [boc_normalize].
  rewrite (fromhex_ws_b64_magic b Hm), (b64_text_ascii b Hok), (a2b_b64_text b Hok). reflexivity.
Qed.

(* without the magic the statement is false: the base64 text of some byte strings is valid hex text and is
   then read as hex ("00" is base64 of 0xd3 and hex of 0x00) *)
Example b64_norm_needs_magic :
  b64_text [0xd3; 0x4d; 0x34] = [48; 48; 48; 48] /\
  boc_normalize (InStr (b64_text [0xd3; 0x4d; 0x34])) = Ok [0; 0].
Proof. vm_compute. split; reflexivity. Qed.

(* ------------------------------------------------------------------ *)
(* 4. entry points on what to_boc emits                                *)
(* ------------------------------------------------------------------ *)

Lemma to_boc_magic k idx crc cache d : to_boc k idx crc cache = Ok d -> has_boc_magic d.
Proof.
  unfold to_boc. intro Hd.
  destruct (to_byte1 _) as [flags|e]; [|discriminate]. cbn [bind] in Hd.
  destruct (mapM _ _) as [sers|e]; [|discriminate]. cbn [bind] in Hd.
  destruct (to_byte1 _) as [off|e]; [|discriminate]. cbn [bind] in Hd.
  injection Hd as Hd. destruct crc; subst d; rewrite <- ?app_assoc; eexists; left; reflexivity.
Qed.

Section Forms.
Variable H : list N -> list N.

Lemma one_root_entry x d k : boc_normalize x = Ok d -> deserialize H d = Ok [k] ->
  one_from_boc_in H x = Ok k /\
  slice_one_from_boc_in H x = Ok (k_bits k, k_refs k) /\
  builder_one_from_boc_in H x = cell_to_builder k.
Proof.
  intros Hn Hd.
  unfold one_from_boc_in, slice_one_from_boc_in, builder_one_from_boc_in, first_root, from_boc_in.
  rewrite Hn. cbn [bind]. rewrite Hd. cbn [bind rmap]. auto.
Qed.

(* a built ordinary cell with at most 4 references converts to a builder *)
Lemma built_to_builder ty bits rs k : build H (Cell ty bits rs) = Ok k ->
  k_ty k = ty /\ k_bits k = bits /\ length (k_refs k) = length rs /\ (length bits <= 1023)%nat.
Proof.
  intro Hk. rewrite build_eq in Hk.
  destruct (mapM' (build H) rs) as [krefs|e] eqn:Hm; [|discriminate]. cbn [bind] in Hk.
  apply BocEmit.mapM'_Forall2 in Hm.
  destruct (BocEmit.mk_cell_shape H _ _ _ _ Hk) as (m & hs & ds & d1 & d2 & -> & _ & Hd2).
  cbn [k_ty k_bits k_refs]. repeat split.
  - symmetry. clear -Hm. induction Hm; cbn [length]; congruence.
  - unfold bits_descriptor, to_byte1 in Hd2.
    destruct (_ <? 256) eqn:E in Hd2; [|discriminate]. apply N.ltb_lt in E.
    destruct (length bits mod 8 =? 0)%nat; lia.
Qed.

Theorem boc_forms : forall t k idx crc cache,
  build H t = Ok k -> boc_wf t = true -> no_collision k -> implb cache idx = true ->
  N.of_nat (length (order k)) < 2 ^ 24 ->
  exists d, to_boc k idx crc cache = Ok d /\ k_tree k = t /\
    (forall x, In x [InBytes d; InStr (hex_text d); InStr (b64_text d)] ->
       boc_normalize x = Ok d /\
       one_from_boc_in H x = Ok k /\
       slice_one_from_boc_in H x = Ok (k_bits k, k_refs k) /\
       builder_one_from_boc_in H x = cell_to_builder k) /\
    (let 'Cell ty bits _ := t in
     ty = ty_ordinary -> cell_to_builder k = Ok (bits, k_refs k)).
Proof.
  intros t k idx crc cache Hb Hwf Hnc Himp Hsz.
  destruct (boc_roundtrip_eq H t k idx crc cache Hb Hwf Hnc Himp Hsz) as (d & Hd & Hdes).
  pose proof (to_boc_bytes_ok H t k idx crc cache d Hb Hwf Hnc Himp Hsz Hd) as Hok.
  pose proof (to_boc_magic k idx crc cache d Hd) as Hmag.
  exists d. split; [exact Hd|]. split; [exact (build_tree H t k Hb)|]. split.
  - intros x Hx.
    assert (Hn : boc_normalize x = Ok d).
    { cbn [In] in Hx. destruct Hx as [<-|[<-|[<-|[]]]];
        [reflexivity|exact (hex_norm d Hok)|exact (b64_norm d Hok Hmag)]. }
    split; [exact Hn|]. exact (one_root_entry x d k Hn Hdes).
  - destruct t as [ty bits rs]. intro Hty.
    destruct (built_to_builder ty bits rs k Hb) as (Kt & Kb & Kr & Kl).
    cbn [boc_wf] in Hwf. apply andb_prop in Hwf. destruct Hwf as [Hwf _].
    apply andb_prop in Hwf. destruct Hwf as [Hr _]. apply Nat.leb_le in Hr.
    unfold cell_to_builder. rewrite Kt, Kb, Kr, Hty.
    change (is_exotic ty_ordinary) with false. cbv iota.
    replace (4 <? length rs)%nat with false by lia.
    replace (1023 <? length bits)%nat with false by lia. reflexivity.
Qed.
End Forms.

(* the same statement with the magic spelled out *)
Theorem b64_norm_magic : forall m r,
  In m [boc_magic; boc_magic_idx; boc_magic_idx_crc] -> bytes_ok r ->
  boc_normalize (InStr (b64_text (m ++ r))) = Ok (m ++ r).
Proof.
  intros m r Hm Hr. apply b64_norm.
  - apply Forall_app. split; [|exact Hr].
    cbn [In] in Hm. destruct Hm as [<-|[<-|[<-|[]]]]; repeat constructor.
  - exists r. cbn [In] in Hm. destruct Hm as [<-|[<-|[<-|[]]]]; auto.
Qed.

(* ------------------------------------------------------------------ *)
(* 5. a concrete two-cell bag                                          *)
(* ------------------------------------------------------------------ *)

Definition ex_tree : cell :=
  Cell ty_ordinary [true; false; true]
       [Cell ty_ordinary [true; true; true; true; false; false; false; false] []].

(* to_boc(hash_crc32=True) of the two-cell tree: the bytes, their hex text and their base64 text
   ("te6cckEBAgEABwABAbABAALwkqbNEQ==") all give the cell that was serialised, through the three entry
   points; so does hex text with white space around and between the bytes *)
Example forms_example :
  match build Sha256.sha256 ex_tree with
  | Ok k =>
      match to_boc k false true false with
      | Ok d =>
          d = [0xb5; 0xee; 0x9c; 0x72; 0x41; 1; 2; 1; 0; 7; 0; 1; 1; 0xb0; 1; 0; 2; 0xf0;
               0x92; 0xa6; 0xcd; 0x11] /\
          hex_text d = [98; 53; 101; 101; 57; 99; 55; 50; 52; 49; 48; 49; 48; 50; 48; 49; 48; 48; 48; 55; 48;
                        48; 48; 49; 48; 49; 98; 48; 48; 49; 48; 48; 48; 50; 102; 48; 57; 50; 97; 54; 99; 100;
                        49; 49] /\
          b64_text d = [116; 101; 54; 99; 99; 107; 69; 66; 65; 103; 69; 65; 66; 119; 65; 66; 65; 98; 65; 66;
                        65; 65; 76; 119; 107; 113; 98; 78; 69; 81; 61; 61] /\
          map (one_from_boc_in Sha256.sha256)
              [InBytes d; InStr (hex_text d); InStr (b64_text d);
               InStr ([32; 9] ++ firstn 8 (hex_text d) ++ [10] ++ skipn 8 (hex_text d) ++ [13; 10])]
            = [Ok k; Ok k; Ok k; Ok k] /\
          map (slice_one_from_boc_in Sha256.sha256) [InBytes d; InStr (hex_text d); InStr (b64_text d)]
            = [Ok (k_bits k, k_refs k); Ok (k_bits k, k_refs k); Ok (k_bits k, k_refs k)] /\
          map (builder_one_from_boc_in Sha256.sha256) [InBytes d; InStr (hex_text d); InStr (b64_text d)]
            = [Ok (k_bits k, k_refs k); Ok (k_bits k, k_refs k); Ok (k_bits k, k_refs k)] /\
          k_bits k = [true; false; true] /\ map k_tree (k_refs k) = [Cell ty_ordinary [true; true; true; true; false; false; false; false] []]
      | Err _ => False
      end
  | Err _ => False
  end.
Proof. vm_compute. repeat split. Qed.

(* text that is neither: malformed hex that is also not base64 (BocError), and a non-ASCII string, for which
   base64.b64decode raises a plain ValueError that Boc.__init__ does not convert *)
Example malformed_examples :
  boc_normalize (InStr [98; 53; 101; 101; 57]) = Err EBoc /\          (* "b5ee9" *)
  boc_normalize (InStr [116; 101; 54; 99; 233]) = Err EValue /\       (* "te6c" + e-acute *)
  boc_normalize (InStr [98; 53; 101; 32; 101]) = Ok [0x6f; 0x97; 0x9e].   (* "b5e e": read as base64 *)
Proof. vm_compute. repeat split. Qed.
