(* C10, augmented parser: parse_hashmap_aug decodes every spec-valid HashmapAug tree, whatever label kind
   each edge uses, returns the extras in post-order and skips pruned (non-ordinary) subtrees. *)
From Coq Require Import NArith ZArith List Bool Lia ZifyBool ZifyNat ZifyN.
From PTQ Require Import Base.Result Base.Bytes Base.Bits Model.Cell Model.Builder Model.Hashmap
  Spec.TlbPrim Spec.Hashmap Spec.HashmapAug Proofs.HmLabel Proofs.HmParse.
Import ListNotations.

Lemma hm_load_bits_all y r : s_load_bits (mkS y r) (length y) = Ok (y, mkS [] r).
Proof. rewrite <- (app_nil_r y) at 1. apply hm_load_bits_app. Qed.

Lemma hm_parse_aug_edge_valid : forall t fuel m ylen prefix, (m < fuel)%nat ->
  avtree_ok t m ylen = true ->
  match acell_of t m with Cell ty bits refs =>
    parse_aug_edge fuel ylen ty (mkS bits refs) (Z.of_nat m) prefix = Ok (aleaves_of t prefix, aextras_of t) end.
Proof.
  induction t as [l k y v|l k a IHa b IHb y|c]; intros fuel m ylen prefix Hfuel Hok;
    (destruct fuel as [|f]; [lia|]).
  - (* leaf *)
    cbn [avtree_ok] in Hok. apply andb_true_iff in Hok. destruct Hok as [Hok Hrefs].
    apply andb_true_iff in Hok. destruct Hok as [Hok Hcap].
    apply andb_true_iff in Hok. destruct Hok as [Hok Hy].
    apply andb_true_iff in Hok. destruct Hok as [Hlen Hkind].
    apply Nat.eqb_eq in Hlen. apply Nat.eqb_eq in Hy.
    cbn [acell_of aleaves_of aextras_of]. rewrite hm_parse_aug_edge_S. rewrite hm_ord_test.
    rewrite read_label_spec by (try lia; exact Hkind). cbn [bind].
    replace (Z.of_nat m <? Z.of_nat (length l))%Z with false by lia.
    replace (Z.of_nat m - Z.of_nat (length l) =? 0)%Z with true by lia.
    rewrite <- Hy. rewrite hm_load_bits_app. cbn [bind]. reflexivity.
  - (* fork *)
    cbn [avtree_ok] in Hok. apply andb_true_iff in Hok. destruct Hok as [Hok Hokb].
    apply andb_true_iff in Hok. destruct Hok as [Hok Hoka].
    apply andb_true_iff in Hok. destruct Hok as [Hok Hcap].
    apply andb_true_iff in Hok. destruct Hok as [Hok Hy].
    apply andb_true_iff in Hok. destruct Hok as [Hlen Hkind].
    apply Nat.ltb_lt in Hlen. apply Nat.eqb_eq in Hy.
    cbn [acell_of aleaves_of aextras_of]. rewrite hm_parse_aug_edge_S. rewrite hm_ord_test.
    rewrite read_label_spec by (try lia; exact Hkind). cbn [bind].
    replace (Z.of_nat m <? Z.of_nat (length l))%Z with false by lia.
    replace (Z.of_nat m - Z.of_nat (length l) =? 0)%Z with false by lia.
    replace (Z.of_nat m - Z.of_nat (length l) - 1)%Z with (Z.of_nat (m - length l - 1)) by lia.
    set (m1 := (m - length l - 1)%nat) in *.
    assert (Hf1 : (m1 < f)%nat) by lia.
    pose proof (IHa f m1 ylen ((prefix ++ l) ++ [false]) Hf1 Hoka) as Ha.
    pose proof (IHb f m1 ylen ((prefix ++ l) ++ [true]) Hf1 Hokb) as Hb.
    unfold s_load_ref at 1. cbn [s_refs s_bits bind].
    destruct (acell_of a m1) as [ty0 bits0 refs0].
    rewrite Ha. cbn [bind].
    unfold s_load_ref. cbn [s_refs s_bits bind].
    destruct (acell_of b m1) as [ty1 bits1 refs1].
    rewrite Hb. cbn [bind].
    rewrite <- Hy. rewrite hm_load_bits_all. cbn [bind].
    rewrite <- !app_assoc. reflexivity.
  - (* pruned: the cell type is tested before the label is read *)
    destruct c as [ty bits refs]. cbn [avtree_ok] in Hok.
    cbn [acell_of aleaves_of aextras_of]. rewrite hm_parse_aug_edge_S. rewrite Hok. reflexivity.
Qed.

Theorem parse_aug_any_valid : forall t n ylen prefix, (n <= 1023)%nat -> avtree_ok t n ylen = true ->
  match acell_of t n with Cell ty bits refs =>
    parse_aug_edge parse_fuel ylen ty (mkS bits refs) (Z.of_nat n) prefix
      = Ok (aleaves_of t prefix, aextras_of t) end.
Proof.
  intros t n ylen prefix Hn Hok. pose proof hm_parse_fuel_big as Hf.
  apply hm_parse_aug_edge_valid; [lia|exact Hok].
Qed.

(* the two parsers agree on the keys: the plain parser applied to the same cells (values = extra ++ value)
   finds exactly the keys the augmented parser finds, in the same order *)
Lemma plain_of_keys : forall t prefix, map fst (leaves_of (plain_of t) prefix) = map fst (aleaves_of t prefix).
Proof.
  induction t as [l k y v|l k a IHa b IHb y|c]; intros prefix; cbn [plain_of leaves_of aleaves_of map].
  - reflexivity.
  - rewrite !map_app, IHa, IHb. reflexivity.
  - reflexivity.
Qed.

(* one extra per leaf and per fork: |extras| = 2 * |leaves| - 1 on a tree without pruned parts *)
Fixpoint av_unpruned (t : avtree) : bool :=
  match t with AVLeaf _ _ _ _ => true | AVFork _ _ a b _ => av_unpruned a && av_unpruned b | AVPruned _ => false end.
Lemma aextras_count : forall t prefix, av_unpruned t = true ->
  (length (aextras_of t) + 1 = 2 * length (aleaves_of t prefix))%nat.
Proof.
  induction t as [l k y v|l k a IHa b IHb y|c]; intros prefix Hu; cbn [aextras_of aleaves_of av_unpruned] in *.
  - reflexivity.
  - apply andb_true_iff in Hu. destruct Hu as [Hua Hub].
    rewrite !app_length. cbn [length].
    specialize (IHa (prefix ++ l ++ [false]) Hua). specialize (IHb (prefix ++ l ++ [true]) Hub). lia.
  - discriminate.
Qed.
