(* C10, parser part: parse_hashmap decodes every spec-valid tree, whatever label kind each edge uses,
   and skips pruned (non-ordinary) subtrees.  Relates Model/Hashmap.v (parse_edge) to Spec/Hashmap.v. *)
From Coq Require Import NArith ZArith List Bool Lia ZifyBool ZifyNat ZifyN.
From PTQ Require Import Base.Result Base.Bytes Base.Bits Model.Cell Model.Builder Model.Hashmap
  Spec.TlbPrim Spec.Hashmap Proofs.HmLabel.
Import ListNotations.

(* one unfolding step of parse_edge *)
Lemma hm_parse_edge_S f ty s m prefix :
  parse_edge (S f) ty s m prefix =
    bind (deserialize_hml s m) (fun '(l, suffix, s1) =>
    if (m <? Z.of_nat l)%Z then Err EValue else
    let prefix' := prefix ++ suffix in
    let m' := (m - Z.of_nat l)%Z in
    if negb (ty =? ty_ordinary)%Z then Ok []
    else if (m' =? 0)%Z then
      match prefix' with [] => Ok [] | _ => Ok [(prefix', s1)] end
    else
      bind (s_load_ref s1) (fun '(c0, s2) =>
      let 'Cell ty0 bits0 refs0 := c0 in
      bind (parse_edge f ty0 (mkS bits0 refs0) (m' - 1) (prefix' ++ [false])) (fun ls =>
      bind (s_load_ref s2) (fun '(c1, _) =>
      let 'Cell ty1 bits1 refs1 := c1 in
      bind (parse_edge f ty1 (mkS bits1 refs1) (m' - 1) (prefix' ++ [true])) (fun rs =>
      Ok (ls ++ rs)))))).
Proof. reflexivity. Qed.

(* the same step once the label is known to fit into the remaining key: the length test disappears *)
Lemma hm_parse_edge_S_fit f ty s m prefix l suffix s1 :
  deserialize_hml s m = Ok (l, suffix, s1) -> (Z.of_nat l <= m)%Z ->
  parse_edge (S f) ty s m prefix =
    (let prefix' := prefix ++ suffix in
    let m' := (m - Z.of_nat l)%Z in
    if negb (ty =? ty_ordinary)%Z then Ok []
    else if (m' =? 0)%Z then
      match prefix' with [] => Ok [] | _ => Ok [(prefix', s1)] end
    else
      bind (s_load_ref s1) (fun '(c0, s2) =>
      let 'Cell ty0 bits0 refs0 := c0 in
      bind (parse_edge f ty0 (mkS bits0 refs0) (m' - 1) (prefix' ++ [false])) (fun ls =>
      bind (s_load_ref s2) (fun '(c1, _) =>
      let 'Cell ty1 bits1 refs1 := c1 in
      bind (parse_edge f ty1 (mkS bits1 refs1) (m' - 1) (prefix' ++ [true])) (fun rs =>
      Ok (ls ++ rs)))))).
Proof.
  intros Hl Hfit. rewrite hm_parse_edge_S. rewrite Hl. cbn [bind].
  replace (m <? Z.of_nat l)%Z with false by lia. reflexivity.
Qed.

(* one unfolding step of parse_aug_edge *)
Lemma hm_parse_aug_edge_S f ylen ty s m prefix :
  parse_aug_edge (S f) ylen ty s m prefix =
    if negb (ty =? ty_ordinary)%Z then Ok ([], [])
    else
    bind (deserialize_hml s m) (fun '(l, suffix, s1) =>
    if (m <? Z.of_nat l)%Z then Err EValue else
    let prefix' := prefix ++ suffix in
    let m' := (m - Z.of_nat l)%Z in
    if (m' =? 0)%Z then
      bind (s_load_bits s1 ylen) (fun '(y, s2) => Ok ([(prefix', s2)], [y]))
    else
      bind (s_load_ref s1) (fun '(c0, s2) =>
      let 'Cell ty0 bits0 refs0 := c0 in
      bind (parse_aug_edge f ylen ty0 (mkS bits0 refs0) (m' - 1) (prefix' ++ [false])) (fun '(ls, le) =>
      bind (s_load_ref s2) (fun '(c1, s3) =>
      let 'Cell ty1 bits1 refs1 := c1 in
      bind (parse_aug_edge f ylen ty1 (mkS bits1 refs1) (m' - 1) (prefix' ++ [true])) (fun '(rs, re) =>
      bind (s_load_bits s3 ylen) (fun '(y, _) =>
      Ok (ls ++ rs, le ++ re ++ [y]))))))).
Proof. reflexivity. Qed.

(* a cell whose data starts with 0 0 carries an empty hml_short label *)
Lemma hm_hml_00 bits refs m : starts_with false bits = true -> starts_with false (tl bits) = true ->
  exists s1, deserialize_hml (mkS bits refs) m = Ok (0%nat, [], s1).
Proof.
  intros H0 H1.
  destruct bits as [|x0 bits]; [discriminate|]. cbn [starts_with tl] in H0, H1.
  destruct bits as [|x1 bits]; [discriminate|]. cbn [starts_with] in H1.
  apply eqb_prop in H0. apply eqb_prop in H1. subst x0 x1.
  exists (mkS bits refs). reflexivity.
Qed.

Lemma hm_ord_test : negb (ty_ordinary =? ty_ordinary)%Z = false.
Proof. rewrite Z.eqb_refl. reflexivity. Qed.

(* generalised statement: any fuel above the remaining key length, any prefix such that leaf keys are
   non-empty *)
Lemma hm_parse_edge_valid : forall t fuel m prefix, (m < fuel)%nat ->
  (prefix <> [] \/ 1 <= m)%nat -> vtree_ok t m = true ->
  match cell_of t m with Cell ty bits refs =>
    parse_edge fuel ty (mkS bits refs) (Z.of_nat m) prefix = Ok (leaves_of t prefix) end.
Proof.
  induction t as [l k v|l k a IHa b IHb|c]; intros fuel m prefix Hfuel Hne Hok;
    (destruct fuel as [|f]; [lia|]).
  - (* leaf *)
    cbn [vtree_ok] in Hok. apply andb_true_iff in Hok. destruct Hok as [Hok Hrefs].
    apply andb_true_iff in Hok. destruct Hok as [Hok Hcap].
    apply andb_true_iff in Hok. destruct Hok as [Hlen Hkind].
    apply Nat.eqb_eq in Hlen.
    cbn [cell_of leaves_of]. rewrite hm_parse_edge_S.
    rewrite read_label_spec by (try lia; exact Hkind). cbn [bind].
    replace (Z.of_nat m <? Z.of_nat (length l))%Z with false by lia.
    rewrite hm_ord_test.
    replace (Z.of_nat m - Z.of_nat (length l) =? 0)%Z with true by lia.
    destruct (prefix ++ l) as [|x p] eqn:E; [|reflexivity].
    exfalso. apply app_eq_nil in E. destruct E as [Ep El]. subst l prefix. cbn [length] in Hlen.
    destruct Hne as [Hne|Hne]; [congruence|lia].
  - (* fork *)
    cbn [vtree_ok] in Hok. apply andb_true_iff in Hok. destruct Hok as [Hok Hokb].
    apply andb_true_iff in Hok. destruct Hok as [Hok Hoka].
    apply andb_true_iff in Hok. destruct Hok as [Hok Hcap].
    apply andb_true_iff in Hok. destruct Hok as [Hlen Hkind].
    apply Nat.ltb_lt in Hlen.
    cbn [cell_of leaves_of]. rewrite hm_parse_edge_S.
    rewrite <- (app_nil_r (s_label_bits k l m)).
    rewrite read_label_spec by (try lia; exact Hkind). cbn [bind].
    replace (Z.of_nat m <? Z.of_nat (length l))%Z with false by lia.
    rewrite hm_ord_test.
    replace (Z.of_nat m - Z.of_nat (length l) =? 0)%Z with false by lia.
    replace (Z.of_nat m - Z.of_nat (length l) - 1)%Z with (Z.of_nat (m - length l - 1)) by lia.
    set (m1 := (m - length l - 1)%nat) in *.
    assert (Hf1 : (m1 < f)%nat) by lia.
    pose proof (IHa f m1 ((prefix ++ l) ++ [false]) Hf1
                  (or_introl (fun E => app_cons_not_nil _ _ _ (eq_sym E))) Hoka) as Ha.
    pose proof (IHb f m1 ((prefix ++ l) ++ [true]) Hf1
                  (or_introl (fun E => app_cons_not_nil _ _ _ (eq_sym E))) Hokb) as Hb.
    unfold s_load_ref at 1. cbn [s_refs s_bits bind].
    destruct (cell_of a m1) as [ty0 bits0 refs0].
    rewrite Ha. cbn [bind].
    unfold s_load_ref. cbn [s_refs s_bits bind].
    destruct (cell_of b m1) as [ty1 bits1 refs1].
    rewrite Hb. cbn [bind].
    rewrite <- !app_assoc. reflexivity.
  - (* pruned *)
    destruct c as [ty bits refs]. cbn [vtree_ok] in Hok.
    apply andb_true_iff in Hok. destruct Hok as [Hok H1].
    apply andb_true_iff in Hok. destruct Hok as [Hty H0].
    cbn [cell_of leaves_of]. rewrite hm_parse_edge_S.
    destruct (hm_hml_00 bits refs (Z.of_nat m) H0 H1) as [s1 Hs1].
    rewrite Hs1. cbn [bind Z.of_nat].
    replace (Z.of_nat m <? 0)%Z with false by lia.
    rewrite Hty. reflexivity.
Qed.

Lemma hm_parse_fuel_big : (1023 < parse_fuel)%nat.
Proof. apply Nat.ltb_lt. vm_compute. reflexivity. Qed.

Theorem parse_any_valid : forall t n, (1 <= n <= 1023)%nat -> vtree_ok t n = true ->
  match cell_of t n with Cell ty bits refs =>
    parse_hashmap ty (mkS bits refs) (Z.of_nat n) = Ok (leaves_of t []) end.
Proof.
  intros t n Hn Hok. unfold parse_hashmap.
  pose proof hm_parse_fuel_big as Hf.
  apply hm_parse_edge_valid; [lia|right; lia|exact Hok].
Qed.

(* ---- a label longer than the remaining key is refused (parse.py: `if l > key_length: raise ValueError`);
   before the repair m went negative, the leaf test m = 0 never fired and the parser kept descending ---- *)
Theorem label_too_long_rejected : forall s m l suffix s1,
  deserialize_hml s m = Ok (l, suffix, s1) -> (m < Z.of_nat l)%Z ->
  (forall fuel ty prefix, parse_edge (S fuel) ty s m prefix = Err EValue) /\
  (forall fuel ylen prefix, parse_aug_edge (S fuel) ylen ty_ordinary s m prefix = Err EValue).
Proof.
  intros s m l suffix s1 Hl Hlong. split.
  - intros fuel ty prefix. rewrite hm_parse_edge_S. rewrite Hl. cbn [bind].
    replace (m <? Z.of_nat l)%Z with true by lia. reflexivity.
  - intros fuel ylen prefix. rewrite hm_parse_aug_edge_S. rewrite hm_ord_test. rewrite Hl. cbn [bind].
    replace (m <? Z.of_nat l)%Z with true by lia. reflexivity.
Qed.
