(* C17: a cell-slice stack value that denotes a WINDOW of its cell (as the TVM writes them: st_bits > 0, end_bits below
   the cell's length, a reference window) is parsed as exactly that window - VmCellSlice of the VmStack schema:
   _ cell:^Cell st_bits:(## 10) end_bits:(## 10) st_ref:(#<= 4) end_ref:(#<= 4).  The library's own writer always emits
   st_bits = st_ref = 0, so the round-trip theorems never exercise this. *)
From Coq Require Import NArith ZArith List Bool Lia ZifyBool ZifyNat ZifyN.
From PTQ Require Import Base.Result Base.Bytes Base.Bits Model.Cell Model.Builder Model.Hashmap Model.VmStack
  Spec.TlbPrim Proofs.HmLabel.
Import ListNotations.

Theorem cellslice_window : forall ty bits refs sb eb sr er tb tr,
  (0 <= sb <= eb)%Z -> (eb < 1024)%Z -> (0 <= sr <= er)%Z -> (er < 8)%Z ->
  dec_cellslice (mkS (enc 10 sb ++ enc 10 eb ++ enc 3 sr ++ enc 3 er ++ tb) (Cell ty bits refs :: tr)) =
    Ok (VmSliceV (Bits.slice bits (Z.to_nat sb) (Z.to_nat eb)) (Bits.slice refs (Z.to_nat sr) (Z.to_nat er)), mkS tb tr).
Proof.
  intros ty bits refs sb eb sr er tb tr Hsb Heb Hsr Her.
  unfold dec_cellslice. unfold s_load_ref at 1. cbn [s_refs s_bits bind].
  rewrite hm_load_uint_app by (try lia; change (2 ^ Z.of_nat 10)%Z with 1024%Z; lia). cbn [bind].
  rewrite hm_load_uint_app by (try lia; change (2 ^ Z.of_nat 10)%Z with 1024%Z; lia). cbn [bind].
  replace (eb <? sb)%Z with false by lia.
  rewrite hm_load_uint_app by (try lia; change (2 ^ Z.of_nat 3)%Z with 8%Z; lia). cbn [bind].
  rewrite hm_load_uint_app by (try lia; change (2 ^ Z.of_nat 3)%Z with 8%Z; lia). cbn [bind].
  replace (er <? sr)%Z with false by lia. reflexivity.
Qed.

(* the windows are refused when they are inverted *)
Theorem cellslice_window_inverted : forall c sb eb sr er tb tr,
  (0 <= sb < 1024)%Z -> (0 <= eb < 1024)%Z -> (0 <= sr < 8)%Z -> (0 <= er < 8)%Z -> (eb < sb \/ er < sr)%Z ->
  exists e, dec_cellslice (mkS (enc 10 sb ++ enc 10 eb ++ enc 3 sr ++ enc 3 er ++ tb) (c :: tr)) = Err e.
Proof.
  intros c sb eb sr er tb tr Hsb Heb Hsr Her Hinv.
  unfold dec_cellslice. unfold s_load_ref at 1. cbn [s_refs s_bits bind].
  rewrite hm_load_uint_app by (try lia; change (2 ^ Z.of_nat 10)%Z with 1024%Z; lia). cbn [bind].
  rewrite hm_load_uint_app by (try lia; change (2 ^ Z.of_nat 10)%Z with 1024%Z; lia). cbn [bind].
  destruct (eb <? sb)%Z eqn:E1; [eexists; reflexivity|].
  rewrite hm_load_uint_app by (try lia; change (2 ^ Z.of_nat 3)%Z with 8%Z; lia). cbn [bind].
  rewrite hm_load_uint_app by (try lia; change (2 ^ Z.of_nat 3)%Z with 8%Z; lia). cbn [bind].
  replace (er <? sr)%Z with true by lia. eexists; reflexivity.
Qed.
