(* C15, second half: the library's own parser (the traced tree impl_MessageAny of Gen/TlbImpl.v) returns, from
   the cell MessageAny.serialize builds (Model/Message.v: ser_message), the message that was serialised.
   Route: the cell is the schema encoding (Spec/Tlb.v: encode_ch, for the choice function mirroring the
   serialiser's inline-or-reference decisions) of the object pv_of_message, followed by the inline body;
   then C16 (Proofs/TlbProofs.v: C16_generic_ch on spec_MessageAny). *)
From Coq Require Import NArith ZArith List Bool String Lia ZifyBool ZifyNat ZifyN.
From PTQ Require Import Base.Result Base.Bytes Base.Bits Model.Cell Spec.CellRepr Model.Builder Model.Hashmap
  Model.Message Spec.TlbPrim Spec.TlbVal Spec.Hashmap Spec.MessageSpec Model.Dtree Spec.Tlb Spec.BlockTlb Gen.TlbImpl
  Proofs.BuilderRT Proofs.HmTree Proofs.HmRoundtrip Proofs.MessageProofs Proofs.TlbProofs.
Import ListNotations.
Local Open Scope string_scope.
Local Open Scope list_scope.
Local Open Scope Z_scope.

(* ------------------------------------------------------------------ *)
(* 1. the objects the library returns                                  *)
(* ------------------------------------------------------------------ *)
Definition pv_of_opt_cell (oc : option cell) : pv := match oc with Some c => PCell c | None => PNone end.
Definition pv_of_extra (ec : extra_currencies) : pv :=
  PObj "ExtraCurrencyCollection"
    [("dict", match ec with [] => PNone | _ => PDict (map (fun kv => (fst kv, PInt (snd kv))) ec) end)].
Definition pv_of_cc (g : Z) (ec : extra_currencies) : pv :=
  PObj "CurrencyCollection" [("grams", PInt g); ("other", pv_of_extra ec)].
Definition pv_of_info (i : msg_info) : pv :=
  match i with
  | IntInfo d b bd src dst g ec ihr fwd lt at_ =>
      PObj "InternalMsgInfo"
        [("bounce", PBool b); ("bounced", PBool bd); ("created_at", PInt at_); ("created_lt", PInt lt);
         ("dest", PAddr dst); ("fwd_fee", PInt fwd); ("ihr_disabled", PBool d); ("ihr_fee", PInt ihr);
         ("src", PAddr src); ("value", pv_of_cc g ec)]
  | ExtInInfo src dst fee =>
      PObj "ExternalMsgInfo" [("dest", PAddr dst); ("import_fee", PInt fee); ("src", PAddr src)]
  | ExtOutInfo src dst lt at_ =>
      PObj "ExternalOutMsgInfo"
        [("created_at", PInt at_); ("created_lt", PInt lt); ("dest", PAddr dst); ("src", PAddr src)]
  end.
Definition pv_of_si (si : state_init) : pv :=
  PObj "StateInit"
    [("code", pv_of_opt_cell (si_code si)); ("data", pv_of_opt_cell (si_data si));
     ("library", pv_of_opt_cell (si_library si));
     ("special", match si_special si with
                 | Some (a, b) => PObj "TickTock" [("tick", PBool a); ("tock", PBool b)]
                 | None => PNone end);
     ("split_depth", match si_split_depth si with Some d => PInt d | None => PNone end)].
(* MessageAny(info, init, body) *)
Definition pv_of_message (info : msg_info) (init : option state_init) (body : cell) : pv :=
  PObj "MessageAny"
    [("body", PCell body); ("info", pv_of_info info);
     ("init", match init with Some si => pv_of_si si | None => PNone end)].

(* the alternatives of the two Either fields: the state-init (an object) and the body (a cell) *)
Definition ch_of (init_ref body_ref : bool) (x : pv) : bool :=
  match x with PCell _ => body_ref | _ => init_ref end.

(* ------------------------------------------------------------------ *)
(* 2. table look-ups                                                    *)
(* ------------------------------------------------------------------ *)
Lemma lk_MessageAny : slookup spec_table "MessageAny" [] = Some spec_MessageAny.
Proof. vm_compute. reflexivity. Qed.
Lemma lk_CommonMsgInfo : slookup spec_table "CommonMsgInfo" [] = Some spec_CommonMsgInfo.
Proof. vm_compute. reflexivity. Qed.
Lemma lk_InternalMsgInfo : slookup spec_table "InternalMsgInfo" [] = Some spec_InternalMsgInfo.
Proof. vm_compute. reflexivity. Qed.
Lemma lk_ExternalMsgInfo : slookup spec_table "ExternalMsgInfo" [] = Some spec_ExternalMsgInfo.
Proof. vm_compute. reflexivity. Qed.
Lemma lk_ExternalOutMsgInfo : slookup spec_table "ExternalOutMsgInfo" [] = Some spec_ExternalOutMsgInfo.
Proof. vm_compute. reflexivity. Qed.
Lemma lk_CurrencyCollection : slookup spec_table "CurrencyCollection" [] = Some spec_CurrencyCollection.
Proof. vm_compute. reflexivity. Qed.
Lemma lk_ExtraCurrencyCollection : slookup spec_table "ExtraCurrencyCollection" [] = Some spec_ExtraCurrencyCollection.
Proof. vm_compute. reflexivity. Qed.
Lemma lk_StateInit : slookup spec_table "StateInit" [] = Some spec_StateInit.
Proof. vm_compute. reflexivity. Qed.
Lemma lk_TickTock : slookup spec_table "TickTock" [] = Some spec_TickTock.
Proof. vm_compute. reflexivity. Qed.

Local Opaque enc enc_addr enc_bytes ulen0 in_uint in_int addr_ok.


Lemma enc_var16 z : enc_var 16 (ulen0 z) z = msg_var_bits 4 z.
Proof. reflexivity. Qed.
Lemma enc_var32 z : enc_var 32 (ulen0 z) z = msg_var_bits 5 z.
Proof. reflexivity. Qed.

(* ------------------------------------------------------------------ *)
(* 3. the schema encoding of these objects, type by type               *)
(* ------------------------------------------------------------------ *)

(* HashMap.serialize builds the canonical tree of Spec/Hashmap.v (what dict_tree computes) *)
Lemma serialize_dict_tree n (src : kvs) c : (1 <= n <= 1023)%nat -> src <> [] -> NoDup (map fst src) ->
  Forall (fun kv => List.length (fst kv) = n) src ->
  serialize_dict src n = Ok (Some c) ->
  exists t, dict_tree n src = Ok t /\ c = cell_of t n.
Proof.
  intros Hn Hne Hnd Hlen H.
  destruct (build_edge_patricia n src Hne Hnd Hlen) as [Hb Hsome].
  destruct (s_patricia (S n) src) as [t|] eqn:Ht; [|congruence].
  unfold serialize_dict in H. destruct src as [|x l]; [congruence|].
  rewrite Hb in H. cbn [bind] in H.
  apply rt_bind_ok in H as (b & Hw & He).
  destruct (b_end_cell b) as [c'|] eqn:Hc; cbn [rmap] in He; [|discriminate].
  injection He as <-. apply rt_end_cell_ok in Hc.
  pose proof (rt_patricia_wf (S n) n _ t (Nat.lt_succ_diag_r n) Hnd Hlen Ht) as Hwf.
  destruct (rt_write_edge t n b_empty b Hwf Hw) as (bits & refs & Hcell & Hbits & Hrefs & Hok).
  cbn [b_empty b_bits b_refs app] in Hbits, Hrefs.
  exists (canon_kinds (canon_vtree t) n). split.
  - unfold dict_tree. rewrite Ht. cbv zeta. rewrite Hok. reflexivity.
  - rewrite Hc, Hbits, Hrefs, Hcell. reflexivity.
Qed.

Definition pv_kv (kv : Z * Z) : Z * pv := (fst kv, PInt (snd kv)).

Section Enc.
  Variable ch : pv -> bool.
  Local Notation ET := (enc_type ch spec_table).
  Local Notation RT := (rest_type ch spec_table).

  Lemma enc_TickTock d a b :
    ET (S d) "TickTock" [] (PObj "TickTock" [("tick", PBool a); ("tock", PBool b)]) = Ok ([a; b], []).
  Proof. cbn [enc_type]. rewrite lk_TickTock. reflexivity. Qed.

  Lemma enc_ec_kvs (ety : string -> list Z -> pv -> enc_res) rty ec : Forall msg_ec_rng ec ->
    enc_kvs 32 (enc_field ch ety rty (FVarUint 32)) (map pv_kv ec) = Ok (map msg_ec_kv ec).
  Proof.
    unfold enc_kvs. induction 1 as [|[k v] r [Hk Hv] Hr IH]; [reflexivity|].
    cbn [map mapM pv_kv fst snd enc_field ok_bits rmap bind] in *. rewrite IH. cbn [bind].
    unfold msg_ec_kv. cbn [fst snd]. rewrite enc_var32. rewrite to_bits_enc, Z2N.id by lia. reflexivity.
  Qed.

  (* ExtraCurrencyCollection: the cell ser_extra builds holds exactly the schema encoding *)
  Lemma enc_Extra d ec ce : ec_sorted ec = true -> Forall msg_ec_rng ec -> ser_extra ec = Ok ce ->
    exists hb hr, ce = Cell ty_ordinary hb hr /\
      ET (S d) "ExtraCurrencyCollection" [] (pv_of_extra ec) = Ok (hb, hr).
  Proof.
    intros Hs Hr H. unfold ser_extra in H. msg_inv H kvl Hkvl.
    apply msg_mapM_ec in Hkvl; [|eapply Forall_impl; [|exact Hr]; intros a [_ Ha]; lia].
    subst kvl.
    rewrite (msg_fold_dict_set (map msg_ec_kv ec) []) in H by (cbn [app]; apply msg_ec_keys_nodup; assumption).
    cbn [app] in H. msg_inv H oc Hoc. msg_inv H b' Hb'. apply end_cell_ok in H.
    apply msg_store_mref_empty in Hb'. subst b'. cbn [b_bits b_refs] in H.
    exists [msg_mbit oc], (msg_olist oc). split; [exact H|].
    cbn [enc_type]. rewrite lk_ExtraCurrencyCollection.
    destruct ec as [|kv0 ec'].
    - cbn [map serialize_dict] in Hoc. injection Hoc as <-. reflexivity.
    - assert (Hne : map msg_ec_kv (kv0 :: ec') <> []) by (cbn [map]; discriminate).
      destruct (msg_serialize_some _ _ _ Hne Hoc) as (bits & refs & ->).
      assert (Hlen : Forall (fun kv : list bool * payload => List.length (fst kv) = 32%nat) (map msg_ec_kv (kv0 :: ec'))).
      { apply Forall_forall. intros x Hx. apply in_map_iff in Hx. destruct Hx as (y & <- & _).
        cbn [msg_ec_kv fst]. apply to_bits_length. }
      destruct (serialize_dict_tree 32 _ _ ltac:(lia) Hne (msg_ec_keys_nodup _ Hs Hr) Hlen Hoc) as (t & Ht & Hc).
      unfold pv_of_extra.
      change (map (fun kv : Z * Z => (fst kv, PInt (snd kv))) (kv0 :: ec')) with (map pv_kv (kv0 :: ec')).
      pose proof (enc_ec_kvs (ET d) RT (kv0 :: ec') Hr) as Hkv. cbn [enc_field] in Hkv.
      remember (map pv_kv (kv0 :: ec')) as L eqn:HL. cbn. unfold enc_ctor. cbn.
      rewrite Hkv. cbn [bind]. rewrite Ht. cbn [bind app msg_mbit msg_olist].
      rewrite Hc. reflexivity.
  Qed.

  Lemma enc_CC d g ec hb hr :
    ET d "ExtraCurrencyCollection" [] (pv_of_extra ec) = Ok (hb, hr) ->
    ET (S d) "CurrencyCollection" [] (pv_of_cc g ec) = Ok (msg_var_bits 4 g ++ hb, hr).
  Proof.
    intros He. cbn [enc_type]. rewrite lk_CurrencyCollection. unfold pv_of_cc.
    remember (pv_of_extra ec) as x. cbn. unfold enc_ctor. cbn. rewrite He. cbn.
    rewrite enc_var16, !app_nil_r. reflexivity.
  Qed.

  Lemma enc_Int d db b bd src dst g ec ihr fwd lt at_ cb cr :
    ET d "CurrencyCollection" [] (pv_of_cc g ec) = Ok (cb, cr) ->
    ET (S d) "InternalMsgInfo" [] (pv_of_info (IntInfo db b bd src dst g ec ihr fwd lt at_))
    = Ok ([false; db; b; bd] ++ enc_addr src ++ enc_addr dst ++ cb ++ msg_var_bits 4 ihr ++ msg_var_bits 4 fwd
          ++ enc 64 lt ++ enc 32 at_, cr).
  Proof.
    intros He. cbn [enc_type]. rewrite lk_InternalMsgInfo. unfold pv_of_info.
    remember (pv_of_cc g ec) as x. cbn. unfold enc_ctor. cbn. rewrite He. cbn.
    rewrite !enc_var16, !app_nil_r. reflexivity.
  Qed.

  Lemma enc_ExtIn d src dst fee :
    ET (S d) "ExternalMsgInfo" [] (pv_of_info (ExtInInfo src dst fee))
    = Ok ([true; false] ++ enc_addr src ++ enc_addr dst ++ msg_var_bits 4 fee, []).
  Proof.
    cbn [enc_type]. rewrite lk_ExternalMsgInfo. cbn. unfold enc_ctor. cbn.
    rewrite !enc_var16, !app_nil_r. reflexivity.
  Qed.

  Lemma enc_ExtOut d src dst lt at_ :
    ET (S d) "ExternalOutMsgInfo" [] (pv_of_info (ExtOutInfo src dst lt at_))
    = Ok ([true; true] ++ enc_addr src ++ enc_addr dst ++ enc 64 lt ++ enc 32 at_, []).
  Proof.
    cbn [enc_type]. rewrite lk_ExternalOutMsgInfo. cbn. unfold enc_ctor. cbn.
    rewrite !app_nil_r. reflexivity.
  Qed.

  (* CommonMsgInfo: the encoding is the one of the kind the object belongs to *)
  Lemma enc_Common d info :
    ET (S d) "CommonMsgInfo" [] (pv_of_info info)
    = ET d (match info with IntInfo _ _ _ _ _ _ _ _ _ _ _ => "InternalMsgInfo" | ExtInInfo _ _ _ => "ExternalMsgInfo"
                          | ExtOutInfo _ _ _ _ => "ExternalOutMsgInfo" end) [] (pv_of_info info).
  Proof.
    cbn [enc_type]. rewrite lk_CommonMsgInfo.
    destruct info; unfold pv_of_info; match goal with |- context [PObj ?c ?l] => remember (PObj c l) as x eqn:Hx end;
      unfold enc_layout, spec_CommonMsgInfo; rewrite Hx; cbn; unfold enc_ctor; cbn; rewrite <- Hx;
      destruct (ET d _ [] x) as [[b r]|e]; cbn; rewrite ?app_nil_r; reflexivity.
  Qed.

  Lemma enc_SI d si : init_ok si = true ->
    ET (S (S d)) "StateInit" [] (pv_of_si si) = Ok (msg_si_bits si, msg_si_refs si).
  Proof.
    intros Hok. cbn [enc_type]. rewrite lk_StateInit. destruct si as [sd sp co da li].
    unfold pv_of_si, msg_si_bits, msg_si_refs. cbn [si_split_depth si_special si_code si_data si_library].
    destruct sd as [dd|], sp as [[ta tb]|], co as [cc|], da as [cd|], li as [cl|];
      cbn; unfold enc_ctor; cbn; rewrite ?enc_TickTock; cbn; rewrite ?lk_TickTock; reflexivity.
  Qed.
End Enc.

(* what the init and body fields contribute, by alternative *)
Definition init_bits (init : option state_init) (ri : bool) : list bool :=
  match init with
  | None => [false]
  | Some si => if ri then [true; true] else [true; false] ++ msg_si_bits si
  end.
Definition init_refs (init : option state_init) (ri : bool) : list cell :=
  match init with
  | None => []
  | Some si => if ri then [Cell ty_ordinary (msg_si_bits si) (msg_si_refs si)] else msg_si_refs si
  end.

Lemma enc_Msg_layout (ety : string -> list Z -> pv -> enc_res) rty info init body ib ir ri rb :
  ety "CommonMsgInfo" [] (pv_of_info info) = Ok (ib, ir) ->
  (forall si, init = Some si ->
     ety "StateInit" [] (pv_of_si si) = Ok (msg_si_bits si, msg_si_refs si) /\
     rty "StateInit" [] (pv_of_si si) = no_tail) ->
  enc_layout (ch_of ri rb) ety rty spec_MessageAny (pv_of_message info init body)
  = Ok (ib ++ init_bits init ri ++ [rb], ir ++ init_refs init ri ++ (if rb then [body] else [])).
Proof.
  intros Hi Hs. unfold pv_of_message.
  remember (pv_of_info info) as xi eqn:Hxi.
  destruct init as [si|].
  - destruct (Hs si eq_refl) as [Hsi Hrt]. remember (pv_of_si si) as xs eqn:Hxs.
    assert (Hne : xs <> PNone) by (subst xs; discriminate).
    assert (Hch : ch_of ri rb xs = ri) by (subst xs; reflexivity).
    cbn. unfold enc_ctor. cbn. rewrite Hi. cbn.
    destruct xs; try contradiction; cbn [ch_of] in Hch |- *; rewrite ?Hch;
      destruct ri, rb; cbn; rewrite ?Hsi, ?Hrt; cbn; rewrite ?app_nil_r; reflexivity.
  - cbn. unfold enc_ctor. cbn. rewrite Hi. destruct rb; cbn; rewrite ?app_nil_r; reflexivity.
Qed.

(* ------------------------------------------------------------------ *)
(* 4. these objects are values of the layouts                          *)
(* ------------------------------------------------------------------ *)
(* the kinds of addresses block.tlb allows in each header *)
Definition info_kinds (i : msg_info) : bool :=
  match i with
  | IntInfo _ _ _ src dst _ _ _ _ _ _ => addr_int src && addr_int dst
  | ExtInInfo src dst _ => addr_ext src && addr_int dst
  | ExtOutInfo src dst _ _ => addr_int src && addr_ext dst
  end.

Lemma coins_wt v : coins_ok v = true -> 0 <= v /\ ulen0 v < 16.
Proof. intros H. apply msg_coins_ok in H. lia. Qed.

Lemma ec_ascending : forall ec, ec_sorted ec = true -> ascending (map fst (map pv_kv ec)) = true.
Proof.
  induction ec as [|[k v] r IH]; intros H; [reflexivity|].
  destruct r as [|[k' v'] r']; [reflexivity|].
  cbn [ec_sorted] in H. apply andb_prop in H. destruct H as [H1 H2].
  cbn [map pv_kv fst ascending] in *. rewrite H1. cbn [andb]. apply IH. exact H2.
Qed.

Section Wt.
  Variable ch : pv -> bool.
  Local Notation WTT := (wt_type ch spec_table).

  Lemma wt_Extra d ec c : ec_sorted ec = true -> Forall msg_ec_rng ec ->
    WTT (S d) "ExtraCurrencyCollection" [] c (pv_of_extra ec).
  Proof.
    intros Hs Hr. cbn [wt_type]. rewrite lk_ExtraCurrencyCollection. unfold pv_of_extra.
    destruct ec as [|kv0 ec'].
    - cbn. unfold wt_ctor. cbn. repeat split.
    - change (map (fun kv : Z * Z => (fst kv, PInt (snd kv))) (kv0 :: ec')) with (map pv_kv (kv0 :: ec')).
      pose proof (ec_ascending _ Hs) as Hasc.
      assert (Hall : all_of (fun kv : Z * pv => 0 <= fst kv < 2 ^ Z.of_nat 32 /\
                                (match snd kv with PInt z => 0 <= z /\ ulen0 z < Z.of_nat 32 | _ => False end))
                            (map pv_kv (kv0 :: ec'))).
      { clear -Hr. induction Hr as [|[k v] r [Hk Hv] _ IH]; [exact I|]. cbn [fst snd] in Hk, Hv.
        cbn [map all_of pv_kv fst snd]. split; [|exact IH]. split; [exact Hk|].
        split; [lia|]. assert (ulen0 v <= 31) by (apply msg_ulen0_bound; [lia|]; change (8 * 31) with 248; lia).
        change (Z.of_nat 32) with 32. lia. }
      remember (map pv_kv (kv0 :: ec')) as L eqn:HL.
      assert (Hne : L <> []) by (subst L; discriminate).
      cbn. unfold wt_ctor. cbn. repeat split; try assumption.
  Qed.

  Lemma wt_CC d g ec c : coins_ok g = true ->
    (forall c', WTT d "ExtraCurrencyCollection" [] c' (pv_of_extra ec)) ->
    WTT (S d) "CurrencyCollection" [] c (pv_of_cc g ec).
  Proof.
    intros Hg He. apply coins_wt in Hg. cbn [wt_type]. rewrite lk_CurrencyCollection. unfold pv_of_cc.
    remember (pv_of_extra ec) as x. cbn. unfold wt_ctor. cbn. repeat split; try apply He; lia.
  Qed.

  Lemma in_uint_of lo w v : 0 <= w -> (0 <=? v) = true -> (v <? 2 ^ w) = true -> lo = w -> in_uint lo v = true.
  Proof. intros Hw H1 H2 ->. apply in_uint_iff. lia. Qed.

  Lemma wt_Int d db b bd src dst g ec ihr fwd lt at_ c :
    info_ok (IntInfo db b bd src dst g ec ihr fwd lt at_) = true ->
    info_kinds (IntInfo db b bd src dst g ec ihr fwd lt at_) = true ->
    (forall c', WTT d "CurrencyCollection" [] c' (pv_of_cc g ec)) ->
    WTT (S d) "InternalMsgInfo" [] c (pv_of_info (IntInfo db b bd src dst g ec ihr fwd lt at_)).
  Proof.
    cbn [info_ok info_kinds]. intros Hok Hk Hc.
    apply andb_prop in Hok. destruct Hok as [Hok Hec].
    apply andb_prop in Hok. destruct Hok as [Hok Hat2]. apply andb_prop in Hok. destruct Hok as [Hok Hat1].
    apply andb_prop in Hok. destruct Hok as [Hok Hlt2]. apply andb_prop in Hok. destruct Hok as [Hok Hlt1].
    apply andb_prop in Hok. destruct Hok as [Hok Hfwd]. apply andb_prop in Hok. destruct Hok as [Hok Hihr].
    apply andb_prop in Hok. destruct Hok as [Hok Hg]. apply andb_prop in Hok. destruct Hok as [Hsrc Hdst].
    apply andb_prop in Hk. destruct Hk as [Hk1 Hk2].
    apply coins_wt in Hihr. apply coins_wt in Hfwd.
    cbn [wt_type]. rewrite lk_InternalMsgInfo. unfold pv_of_info.
    remember (pv_of_cc g ec) as x. cbn. unfold wt_ctor. cbn.
    repeat split; try assumption; try apply Hc; try lia; apply in_uint_iff; lia.
  Qed.

  Lemma wt_ExtIn d src dst fee c :
    info_ok (ExtInInfo src dst fee) = true -> info_kinds (ExtInInfo src dst fee) = true ->
    WTT (S d) "ExternalMsgInfo" [] c (pv_of_info (ExtInInfo src dst fee)).
  Proof.
    cbn [info_ok info_kinds]. intros Hok Hk.
    apply andb_prop in Hok. destruct Hok as [Hok Hfee]. apply andb_prop in Hok. destruct Hok as [Hsrc Hdst].
    apply andb_prop in Hk. destruct Hk as [Hk1 Hk2]. apply coins_wt in Hfee.
    cbn [wt_type]. rewrite lk_ExternalMsgInfo. cbn. unfold wt_ctor. cbn.
    repeat split; try assumption; lia.
  Qed.

  Lemma wt_ExtOut d src dst lt at_ c :
    info_ok (ExtOutInfo src dst lt at_) = true -> info_kinds (ExtOutInfo src dst lt at_) = true ->
    WTT (S d) "ExternalOutMsgInfo" [] c (pv_of_info (ExtOutInfo src dst lt at_)).
  Proof.
    cbn [info_ok info_kinds]. intros Hok Hk.
    apply andb_prop in Hok. destruct Hok as [Hok Hat2]. apply andb_prop in Hok. destruct Hok as [Hok Hat1].
    apply andb_prop in Hok. destruct Hok as [Hok Hlt2]. apply andb_prop in Hok. destruct Hok as [Hok Hlt1].
    apply andb_prop in Hok. destruct Hok as [Hsrc Hdst].
    apply andb_prop in Hk. destruct Hk as [Hk1 Hk2].
    cbn [wt_type]. rewrite lk_ExternalOutMsgInfo. cbn. unfold wt_ctor. cbn.
    repeat split; try assumption; apply in_uint_iff; lia.
  Qed.

  Lemma wt_Common d info c :
    WTT d (match info with IntInfo _ _ _ _ _ _ _ _ _ _ _ => "InternalMsgInfo" | ExtInInfo _ _ _ => "ExternalMsgInfo"
                          | ExtOutInfo _ _ _ _ => "ExternalOutMsgInfo" end) [] c (pv_of_info info) ->
    WTT (S d) "CommonMsgInfo" [] c (pv_of_info info).
  Proof.
    intros H. cbn [wt_type]. rewrite lk_CommonMsgInfo.
    destruct info; unfold pv_of_info in *; match goal with |- context [PObj ?cl ?l] => remember (PObj cl l) as x eqn:Hx end;
      unfold wt_layout, spec_CommonMsgInfo; rewrite Hx; cbn; unfold wt_ctor; cbn; rewrite <- Hx; repeat split; exact H.
  Qed.

  Lemma wt_TickTock d a b c : WTT (S d) "TickTock" [] c (PObj "TickTock" [("tick", PBool a); ("tock", PBool b)]).
  Proof. cbn [wt_type]. rewrite lk_TickTock. cbn. unfold wt_ctor. cbn. repeat split. Qed.

  Lemma wt_SI_layout (wty : string -> list Z -> ctx -> pv -> Prop) ety rty si c : init_ok si = true ->
    (forall a b c', wty "TickTock" [] c' (PObj "TickTock" [("tick", PBool a); ("tock", PBool b)])) ->
    wt_layout ch wty ety rty spec_StateInit c (pv_of_si si).
  Proof.
    intros Hok Htt. destruct si as [sd sp co da li].
    unfold init_ok in Hok. cbn [si_split_depth] in Hok.
    unfold pv_of_si. cbn [si_split_depth si_special si_code si_data si_library].
    destruct sd as [dd|], sp as [[ta tb]|], co as [cc|], da as [cd|], li as [cl|];
      cbn; unfold wt_ctor; cbn; repeat split; try apply Htt; try (apply in_uint_iff; lia).
  Qed.

  Lemma wt_SI d si c : init_ok si = true -> WTT (S (S d)) "StateInit" [] c (pv_of_si si).
  Proof.
    intros Hok. cbn [wt_type]. rewrite lk_StateInit. apply wt_SI_layout; [exact Hok|].
    intros a b c'. apply wt_TickTock.
  Qed.
End Wt.

(* ------------------------------------------------------------------ *)
(* 5. what the serialisers write IS the schema encoding                *)
(* ------------------------------------------------------------------ *)
Section Bridge.
  Variable ch : pv -> bool.
  Local Notation ET := (enc_type ch spec_table).

  Lemma ser_info_enc d info ic : info_ok info = true -> info_canon info = true -> ser_info info = Ok ic ->
    exists ib ir, ic = Cell ty_ordinary ib ir /\
      ET (S (S (S (S d)))) "CommonMsgInfo" [] (pv_of_info info) = Ok (ib, ir).
  Proof.
    destruct info as [db b bd src dst g ec ihr fwd lt at_|src dst fee|src dst lt at_];
      cbn [info_ok info_canon ser_info]; intros Hok Hcan H.
    - apply andb_prop in Hok. destruct Hok as [Hok Hec].
      apply andb_prop in Hok. destruct Hok as [Hok Hat2]. apply andb_prop in Hok. destruct Hok as [Hok Hat1].
      apply andb_prop in Hok. destruct Hok as [Hok Hlt2]. apply andb_prop in Hok. destruct Hok as [Hok Hlt1].
      apply andb_prop in Hok. destruct Hok as [Hok Hfwd]. apply andb_prop in Hok. destruct Hok as [Hok Hihr].
      apply andb_prop in Hok. destruct Hok as [Hok Hg]. apply andb_prop in Hok. destruct Hok as [Hsrc Hdst].
      assert (Hihr0 : 0 <= ihr) by (apply msg_coins_ok in Hihr; lia).
      assert (Hfwd0 : 0 <= fwd) by (apply msg_coins_ok in Hfwd; lia).
      assert (Hg0 : 0 <= g) by (apply msg_coins_ok in Hg; lia).
      apply msg_rng_of_forallb in Hec.
      do 12 (let b := fresh "b" in let Hb := fresh "Hb" in msg_inv H b Hb).
      apply end_cell_ok in H.
      match goal with Hc : ser_currency g ec = Ok ?vc |- _ => rename Hc into Hcur; rename vc into vcell end.
      unfold ser_currency in Hcur. msg_inv Hcur c1 Hc1. msg_inv Hcur ce Hce. msg_inv Hcur c2 Hc2.
      apply end_cell_ok in Hcur.
      destruct (enc_Extra ch d ec ce Hcan Hec Hce) as (hb & hr & -> & Hex).
      apply msg_store_coins in Hc1; [|exact Hg0]. destruct Hc1 as [C1 R1].
      apply store_cell_ext in Hc2. destruct Hc2 as [C2 R2].
      rewrite C2, R2, C1, R1 in Hcur. cbn [b_empty b_bits b_refs app] in Hcur. subst vcell.
      subst ic. eexists _, _. split; [reflexivity|].
      rewrite enc_Common. rewrite (enc_Int ch _ db b bd src dst g ec ihr fwd lt at_ (msg_var_bits 4 g ++ hb) hr);
        [|apply enc_CC; exact Hex].
      msg_exts. msg_rw. cbn [b_empty b_bits b_refs app]. rewrite ?app_nil_r, <- ?app_assoc.
      rewrite msg_enc1_0. cbn [app]. reflexivity.
    - apply andb_prop in Hok. destruct Hok as [Hok Hfee]. apply andb_prop in Hok. destruct Hok as [Hsrc Hdst].
      assert (Hfee0 : 0 <= fee) by (apply msg_coins_ok in Hfee; lia).
      do 4 (let b := fresh "b" in let Hb := fresh "Hb" in msg_inv H b Hb).
      apply end_cell_ok in H.
      subst ic. eexists _, _. split; [reflexivity|]. rewrite enc_Common, enc_ExtIn.
      msg_exts. msg_rw. cbn [b_empty b_bits b_refs app]. rewrite ?app_nil_r, <- ?app_assoc.
      rewrite msg_enc2_2. cbn [app]. reflexivity.
    - do 5 (let b := fresh "b" in let Hb := fresh "Hb" in msg_inv H b Hb).
      apply end_cell_ok in H.
      subst ic. eexists _, _. split; [reflexivity|]. rewrite enc_Common, enc_ExtOut.
      msg_exts. msg_rw. cbn [b_empty b_bits b_refs app]. rewrite ?app_nil_r, <- ?app_assoc.
      rewrite msg_enc2_3. cbn [app]. reflexivity.
  Qed.
End Bridge.

Lemma rest_SI ch si : rest_type ch spec_table "StateInit" [] (pv_of_si si) = no_tail.
Proof.
  unfold rest_type. rewrite lk_StateInit. destruct si as [sd sp co da li]. unfold pv_of_si.
  cbn [si_split_depth si_special si_code si_data si_library]. destruct li; reflexivity.
Qed.

(* MessageAny: the object is a value of the layout, for the tail cx its body needs *)
Lemma wt_Msg_layout (wty : string -> list Z -> ctx -> pv -> Prop) ety rty info init bb br ri rb cx :
  wty "CommonMsgInfo" [] None (pv_of_info info) ->
  (forall si c, init = Some si -> wty "StateInit" [] c (pv_of_si si)) ->
  (rb = false -> cx = Some (bb, br)) ->
  wt_layout (ch_of ri rb) wty ety rty spec_MessageAny cx (pv_of_message info init (Cell ty_ordinary bb br)).
Proof.
  intros Hi Hs Hb. unfold pv_of_message. remember (pv_of_info info) as xi eqn:Hxi.
  destruct init as [si|].
  - pose proof (fun c => Hs si c eq_refl) as Hsi. unfold pv_of_si in *.
    match goal with |- context [PObj "StateInit" ?l] => remember l as fl eqn:Hfl end.
    cbn. unfold wt_ctor. cbn.
    destruct ri, rb; cbn; repeat split; try apply Hsi; try exact Hi; rewrite (Hb eq_refl); reflexivity.
  - cbn. unfold wt_ctor. cbn. destruct rb; cbn; repeat split; try exact Hi. rewrite (Hb eq_refl). reflexivity.
Qed.

(* the two placement steps, explicitly *)
Lemma msg_init_part_shape b0 init body b3 :
  match init with Some si => init_ok si = true | None => True end ->
  msg_init_part b0 init body = Ok b3 ->
  exists ri, ext b0 b3 (init_bits init ri) (init_refs init ri).
Proof.
  intros Hok H. destruct init as [si|]; cbn [msg_init_part] in H.
  - msg_inv H b1 H1. msg_inv H ic' Hic'. cbv zeta in H.
    rewrite msg_ser_state_init_eq in Hic' by exact Hok. apply end_cell_ok in Hic'. cbn [b_bits b_refs] in Hic'.
    apply store_bits_ext in H1. destruct H1 as [B1 R1].
    match type of H with (if ?c then _ else _) = _ => destruct c end.
    + msg_inv H b2 H2. apply store_bits_ext in H2. destruct H2 as [B2 R2].
      rewrite Hic' in H. apply store_cell_ext in H. destruct H as [B3 R3].
      exists false. cbn [init_bits init_refs].
      split; [rewrite B3, B2, B1|rewrite R3, R2, R1]; rewrite ?app_nil_r, <- ?app_assoc; reflexivity.
    + msg_inv H b2 H2. apply store_bits_ext in H2. destruct H2 as [B2 R2].
      apply store_ref_ext in H. destruct H as [B3 R3].
      exists true. cbn [init_bits init_refs]. rewrite <- Hic'.
      split; [rewrite B3, B2, B1|rewrite R3, R2, R1]; rewrite ?app_nil_r, <- ?app_assoc; reflexivity.
  - apply store_bits_ext in H. destruct H as [B R].
    exists false. split; assumption.
Qed.

Definition body_fits (b3 : builder) (body : cell) : bool :=
  (cbits body <=? avail_bits b3 - 1) && (crefs body <=? avail_refs b3).

Lemma msg_body_part_shape b3 bb br bX : msg_body_part b3 (Cell ty_ordinary bb br) = Ok bX ->
  ext b3 bX ([negb (body_fits b3 (Cell ty_ordinary bb br))] ++ (if body_fits b3 (Cell ty_ordinary bb br) then bb else []))
            (if body_fits b3 (Cell ty_ordinary bb br) then br else [Cell ty_ordinary bb br]).
Proof.
  intros H. unfold msg_body_part in H. fold (body_fits b3 (Cell ty_ordinary bb br)) in H.
  destruct (body_fits b3 (Cell ty_ordinary bb br)).
  - msg_inv H b4 H4. apply store_bits_ext in H4. destruct H4 as [B4 R4].
    apply store_cell_ext in H. destruct H as [BX RX].
    split; [rewrite BX, B4|rewrite RX, R4]; rewrite ?app_nil_r, <- ?app_assoc; reflexivity.
  - msg_inv H b4 H4. apply store_bits_ext in H4. destruct H4 as [B4 R4].
    apply store_ref_ext in H. destruct H as [BX RX].
    split; [rewrite BX, B4|rewrite RX, R4]; rewrite ?app_nil_r, <- ?app_assoc; reflexivity.
Qed.

(* does MessageAny.serialize store this body inline (true) or in a reference (false)? *)
Definition msg_body_inline (info : msg_info) (init : option state_init) (body : cell) : bool :=
  match bind (ser_info info) (fun ic => bind (b_store_cell b_empty ic) (fun b0 => msg_init_part b0 init body)) with
  | Ok b3 => body_fits b3 body
  | Err _ => false
  end.

(* ------------------------------------------------------------------ *)
(* 6. the object, its schema encodings, the library's parser           *)
(* ------------------------------------------------------------------ *)

(* for either placement of the state-init (ri: in a reference) and of the body (rb: in a reference): the schema
   encoding of the object exists, is the header the serialiser writes followed by the init and body fields, and
   the object is a value of the layout (an inline body being what follows the encoding) *)
Lemma message_enc_wt info init bb br ic ri rb :
  info_ok info = true -> info_canon info = true -> info_kinds info = true ->
  match init with Some si => init_ok si = true | None => True end ->
  ser_info info = Ok ic ->
  exists ib ir, ic = Cell ty_ordinary ib ir /\
    encode_ch (ch_of ri rb) spec_table spec_MessageAny (pv_of_message info init (Cell ty_ordinary bb br))
    = Ok (ib ++ init_bits init ri ++ [rb], ir ++ init_refs init ri ++ (if rb then [Cell ty_ordinary bb br] else [])) /\
    wt_in (ch_of ri rb) spec_table spec_MessageAny (Some (if rb then ([], []) else (bb, br)))
          (pv_of_message info init (Cell ty_ordinary bb br)).
Proof.
  intros Hok Hcan Hkinds Hinit Hic. set (ch := ch_of ri rb).
  destruct (ser_info_enc ch 8 info ic Hok Hcan Hic) as (ib & ir & -> & Henci).
  exists ib, ir. split; [reflexivity|]. split.
  - unfold encode_ch. apply enc_Msg_layout; [exact Henci|].
    intros si ->. split; [apply (enc_SI ch 10); exact Hinit|apply rest_SI].
  - unfold wt_in. apply wt_Msg_layout.
    + apply (wt_Common ch 11).
      destruct info as [db b bd src dst g ec ihr fwd lt at_|src dst fee|src dst lt at_].
      * apply (wt_Int ch 10); [exact Hok|exact Hkinds|]. intros c'.
        cbn [info_ok] in Hok. apply andb_prop in Hok. destruct Hok as [Hok Hec].
        do 6 (apply andb_prop in Hok; destruct Hok as [Hok _]). apply andb_prop in Hok. destruct Hok as [_ Hg].
        apply (wt_CC ch 9); [exact Hg|]. intros c''. apply (wt_Extra ch 8); [exact Hcan|].
        apply msg_rng_of_forallb. exact Hec.
      * apply (wt_ExtIn ch 10); assumption.
      * apply (wt_ExtOut ch 10); assumption.
    + intros si c' ->. apply (wt_SI ch 10). exact Hinit.
    + intros ->. reflexivity.
Qed.

(* every placement is parsed back to the same object *)
Theorem message_all_placements : forall info init bb br ic ri rb fuel,
  info_ok info = true -> info_canon info = true -> info_kinds info = true ->
  match init with Some si => init_ok si = true | None => True end ->
  ser_info info = Ok ic -> (83 <= fuel)%nat ->
  exists bits refs,
    encode_ch (ch_of ri rb) spec_table spec_MessageAny (pv_of_message info init (Cell ty_ordinary bb br)) = Ok (bits, refs) /\
    run_type impl_table fuel "MessageAny" []
      (Cell (-1) (bits ++ (if rb then [] else bb)) (refs ++ (if rb then [] else br)))
    = Ok (pv_of_message info init (Cell ty_ordinary bb br), if rb then mkS [] [] else mkS bb br).
Proof.
  intros info init bb br ic ri rb fuel Hok Hcan Hkinds Hinit Hic Hfuel.
  destruct (message_enc_wt info init bb br ic ri rb Hok Hcan Hkinds Hinit Hic) as (ib & ir & _ & Henc & Hwt).
  eexists _, _. split; [exact Henc|].
  set (tl := if rb then ([], @nil cell) else (bb, br)) in *.
  pose proof (C16_generic_ch "MessageAny" spec_MessageAny 83 eq_refl eq_refl (ch_of ri rb) (Some tl) _ (fst tl) (snd tl)
                _ _ fuel Hwt Henc ltac:(destruct tl; reflexivity) Hfuel) as Hrun.
  unfold tl in Hrun. destruct rb; exact Hrun.
Qed.

(* the library's parser on the cell the library's serialiser builds *)
Theorem message_parsed : forall info init body c fuel,
  info_ok info = true -> info_canon info = true -> info_kinds info = true ->
  match init with Some si => init_ok si = true | None => True end ->
  cell_ok body = true ->
  ser_message info init body = Ok c -> (83 <= fuel)%nat ->
  run_type impl_table fuel "MessageAny" [] c
  = Ok (pv_of_message info init body, if msg_body_inline info init body then begin_parse body else mkS [] []).
Proof.
  intros info init body c fuel Hok Hcan Hkinds Hinit Hbody H Hfuel.
  unfold msg_body_inline. rewrite msg_ser_message_eq in H.
  msg_inv H ic Hic. msg_inv H b0 H0. msg_inv H b3 H3. msg_inv H bX HX.
  rewrite Hic. cbn [bind]. rewrite H0. cbn [bind]. rewrite H3.
  apply end_cell_ok in H. subst c.
  destruct body as [ty bb br].
  unfold cell_ok in Hbody. apply andb_prop in Hbody. destruct Hbody as [Hbody _].
  apply andb_prop in Hbody. destruct Hbody as [Hty _]. apply Z.eqb_eq in Hty. subst ty.
  destruct (msg_init_part_shape _ _ _ _ Hinit H3) as (ri & [B3 R3]).
  pose proof (msg_body_part_shape _ _ _ _ HX) as [BX RX].
  set (fits := body_fits b3 (Cell ty_ordinary bb br)) in *.
  destruct (message_enc_wt info init bb br ic ri (negb fits) Hok Hcan Hkinds Hinit Hic)
    as (ib & ir & -> & Henc & Hwt).
  apply store_cell_ext in H0. destruct H0 as [B0 R0].
  set (tl := if negb fits then ([], @nil cell) else (bb, br)) in *.
  pose proof (C16_generic_ch "MessageAny" spec_MessageAny 83 eq_refl eq_refl (ch_of ri (negb fits)) (Some tl) _
                (fst tl) (snd tl) _ _ fuel Hwt Henc ltac:(destruct tl; reflexivity) Hfuel) as Hrun.
  rewrite BX, RX, B3, R3, B0, R0. cbn [b_empty b_bits b_refs app].
  unfold tl in Hrun. destruct fits; cbn [negb fst snd begin_parse] in Hrun |- *.
  - rewrite <- Hrun. f_equal. rewrite <- !app_assoc. cbn [app]. rewrite ?app_nil_r. reflexivity.
  - rewrite <- Hrun. f_equal. rewrite <- !app_assoc. cbn [app]. rewrite ?app_nil_r. reflexivity.
Qed.
