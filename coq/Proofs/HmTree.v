(* Proofs for C10 (canonical tree) and C09 (key range): the tree built by build_edge is the
   canonical Patricia tree; key_bits accepts exactly the keys that fit.
   Self-contained (helper names prefixed hm_). *)
From Coq Require Import NArith ZArith List Bool Lia ZifyBool ZifyNat ZifyN Permutation.
From PTQ Require Import Base.Result Base.Bytes Base.Bits Model.Cell Model.Builder Model.Hashmap
  Spec.TlbPrim Spec.Hashmap.
Import ListNotations.

(* ------------------------------------------------------------------ *)
(* lexicographic order and common prefixes                             *)
(* ------------------------------------------------------------------ *)

Lemma hm_lex_total a : forall b, lex_leb a b = false -> lex_leb b a = true.
Proof.
  induction a as [|x a IH]; intros [|y b] H; cbn [lex_leb] in *; try congruence.
  destruct x, y; cbn [Bool.eqb negb] in *; auto; congruence.
Qed.

Lemma hm_lex_trans a : forall b c, lex_leb a b = true -> lex_leb b c = true -> lex_leb a c = true.
Proof.
  induction a as [|x a IH]; intros [|y b] [|z c] H1 H2; cbn [lex_leb] in *; try congruence.
  destruct x, y, z; cbn [Bool.eqb negb] in *; eauto; congruence.
Qed.

Lemma hm_lex_refl a : lex_leb a a = true.
Proof. induction a as [|x a IH]; cbn [lex_leb]; [reflexivity|]. now rewrite Bool.eqb_reflx. Qed.

Lemma hm_lex_antisym a : forall b, lex_leb a b = true -> lex_leb b a = true -> a = b.
Proof.
  induction a as [|x a IH]; intros [|y b] H1 H2; cbn [lex_leb] in *; try congruence.
  destruct x, y; cbn [Bool.eqb negb] in *; try congruence; f_equal; auto.
Qed.

Lemma hm_lcp_comm a : forall b, lcp a b = lcp b a.
Proof.
  induction a as [|x a IH]; intros [|y b]; cbn [lcp]; try reflexivity.
  destruct x, y; cbn [Bool.eqb]; try reflexivity; now rewrite IH.
Qed.

Lemma hm_lcp_assoc a : forall b c, lcp (lcp a b) c = lcp a (lcp b c).
Proof.
  induction a as [|x a IH]; intros [|y b] [|z c]; cbn [lcp]; try reflexivity.
  - destruct (Bool.eqb x y); reflexivity.
  - destruct x, y, z; cbn [Bool.eqb lcp]; try reflexivity; now rewrite IH.
Qed.

Lemma hm_lcp_idem a : lcp a a = a.
Proof. induction a as [|x a IH]; cbn [lcp]; [reflexivity|]. now rewrite Bool.eqb_reflx, IH. Qed.

(* for x <= y <= z the common prefix of x and z is already common to y *)
Lemma hm_lcp_mid x : forall y z, lex_leb x y = true -> lex_leb y z = true ->
  lcp x (lcp y z) = lcp x z.
Proof.
  induction x as [|a x IH]; intros [|b y] [|c z] H1 H2; cbn [lex_leb lcp] in *; try congruence.
  destruct a, b, c; cbn [Bool.eqb negb lcp] in *; try congruence; try reflexivity; f_equal; auto.
Qed.

(* the common prefix of all keys is the common prefix of the smallest and the largest key *)
Lemma hm_lcp_all_minmax rest : forall mn mx, lex_leb mn mx = true ->
  lcp_all (lcp mn mx) rest = lcp (fold_left lex_min rest mn) (fold_left lex_max rest mx).
Proof.
  induction rest as [|k rest IH]; intros mn mx Hle; cbn [lcp_all fold_left]; [reflexivity|].
  unfold lex_min at 2, lex_max at 2.
  destruct (lex_leb mn k) eqn:H1; destruct (lex_leb mx k) eqn:H2.
  - rewrite <- IH by exact H1. f_equal.
    rewrite hm_lcp_assoc. apply hm_lcp_mid; assumption.
  - apply hm_lex_total in H2. rewrite <- IH by exact Hle. f_equal.
    rewrite hm_lcp_assoc, (hm_lcp_comm mx k). apply hm_lcp_mid; assumption.
  - rewrite (hm_lex_trans _ _ _ Hle H2) in H1. discriminate.
  - apply hm_lex_total in H1. apply hm_lex_total in H2.
    rewrite <- IH by exact H2. f_equal.
    rewrite hm_lcp_comm. apply hm_lcp_mid; assumption.
Qed.

Lemma hm_find_common_prefix k rest : rest <> [] ->
  find_common_prefix (k :: rest) = lcp_all k rest.
Proof.
  intros Hne. destruct rest as [|k1 rest]; [congruence|].
  unfold find_common_prefix.
  rewrite <- hm_lcp_all_minmax by apply hm_lex_refl.
  now rewrite hm_lcp_idem.
Qed.

(* ------------------------------------------------------------------ *)
(* prefixes                                                            *)
(* ------------------------------------------------------------------ *)

Lemma hm_lcp_pre_l a : forall b, exists s, a = lcp a b ++ s.
Proof.
  induction a as [|x a IH]; intros [|y b]; cbn [lcp]; try (eexists; reflexivity).
  destruct (Bool.eqb x y); [|eexists; reflexivity].
  destruct (IH b) as [s Hs]. exists s. cbn [app]. now rewrite <- Hs.
Qed.

Lemma hm_lcp_pre_r a b : exists s, b = lcp a b ++ s.
Proof. rewrite hm_lcp_comm. apply hm_lcp_pre_l. Qed.

Lemma hm_lcp_all_pre rest : forall k key, In key (k :: rest) -> exists s, key = lcp_all k rest ++ s.
Proof.
  induction rest as [|k1 rest IH]; intros k key Hin; cbn [lcp_all].
  - destruct Hin as [<-|[]]. exists []. now rewrite app_nil_r.
  - destruct Hin as [<-|[<-|Hin]].
    + destruct (IH (lcp k k1) (lcp k k1) (or_introl eq_refl)) as [s Hs].
      destruct (hm_lcp_pre_l k k1) as [s' Hs']. exists (s ++ s').
      rewrite app_assoc, <- Hs. exact Hs'.
    + destruct (IH (lcp k k1) (lcp k k1) (or_introl eq_refl)) as [s Hs].
      destruct (hm_lcp_pre_r k k1) as [s' Hs']. exists (s ++ s').
      rewrite app_assoc, <- Hs. exact Hs'.
    + apply IH. right. exact Hin.
Qed.

Lemma hm_pre_skipn {A} (p s x : list A) : x = p ++ s -> x = p ++ skipn (length p) x.
Proof.
  intros ->. f_equal. induction p as [|a p IH]; cbn [length skipn app]; [reflexivity|exact IH].
Qed.

Lemma hm_lcp_app p : forall s t, lcp (p ++ s) (p ++ t) = p ++ lcp s t.
Proof.
  induction p as [|x p IH]; intros s t; cbn [app lcp]; [reflexivity|].
  now rewrite Bool.eqb_reflx, IH.
Qed.

Lemma hm_lcp_all_app p : forall ts s, lcp_all (p ++ s) (map (app p) ts) = p ++ lcp_all s ts.
Proof.
  induction ts as [|t ts IH]; intros s; cbn [map lcp_all]; [reflexivity|].
  now rewrite hm_lcp_app, IH.
Qed.

Lemma hm_lcp_starts b x y : starts_with b x = true -> starts_with b y = true ->
  starts_with b (lcp x y) = true.
Proof.
  destruct x as [|a x], y as [|c y]; cbn [starts_with lcp]; try congruence.
  intros H1 H2. apply Bool.eqb_prop in H1, H2. subst a c.
  rewrite Bool.eqb_reflx. cbn [starts_with]. apply Bool.eqb_reflx.
Qed.

Lemma hm_lcp_all_starts b : forall ts t0, starts_with b t0 = true ->
  Forall (fun t => starts_with b t = true) ts -> starts_with b (lcp_all t0 ts) = true.
Proof.
  induction ts as [|t ts IH]; intros t0 H0 Hall; cbn [lcp_all]; [exact H0|].
  inversion Hall as [|? ? Ht Hts]; subst. apply IH; [|exact Hts]. now apply hm_lcp_starts.
Qed.

(* ------------------------------------------------------------------ *)
(* splitting a key set at its common prefix (key level)                *)
(* ------------------------------------------------------------------ *)

Lemma hm_filter_nil {A} (f : A -> bool) l : filter f l = [] -> Forall (fun x => f x = false) l.
Proof.
  induction l as [|a l IH]; cbn [filter]; intros H; [constructor|].
  destruct (f a) eqn:Hfa; [discriminate|]. constructor; auto.
Qed.

Lemma hm_forall_filter {A} (P : A -> Prop) f l : Forall P l -> Forall P (filter f l).
Proof.
  induction 1 as [|a l Ha Hl IH]; cbn [filter]; [constructor|].
  destruct (f a); [constructor|]; auto.
Qed.

Lemma hm_filter_sat {A} (f : A -> bool) l : Forall (fun x => f x = true) (filter f l).
Proof.
  induction l as [|a l IH]; cbn [filter]; [constructor|].
  destruct (f a) eqn:Hfa; [constructor|]; auto.
Qed.

Lemma hm_nodup_tl b l : NoDup l -> Forall (fun x => starts_with b x = true) l -> NoDup (map (@tl bool) l).
Proof.
  induction 1 as [|x l Hx Hnd IH]; intros Hall; cbn [map]; [constructor|].
  inversion Hall as [|? ? Hbx Hbl]; subst. constructor; [|auto].
  intros Hin. apply in_map_iff in Hin as [y [Hy Hin]]. apply Hx.
  rewrite Forall_forall in Hbl. specialize (Hbl y Hin).
  destruct x as [|a x], y as [|c y]; cbn [starts_with tl] in *; try congruence.
  apply Bool.eqb_prop in Hbx, Hbl. subst. exact Hin.
Qed.

Lemma hm_starts_neg b x : x <> [] -> starts_with b x = false -> starts_with (negb b) x = true.
Proof. destruct x as [|a x]; [congruence|]. destruct a, b; cbn; congruence. Qed.

(* ks = k0 :: krest: >= 2 distinct keys of length n *)
Lemma hm_split_keys n k0 krest : krest <> [] -> NoDup (k0 :: krest) ->
  Forall (fun k => length k = n) (k0 :: krest) ->
  let label := lcp_all k0 krest in
  let tk := map (skipn (length label)) (k0 :: krest) in
  length label < n /\
  NoDup tk /\ Forall (fun t => length t = n - length label) tk /\
  forall b, filter (starts_with b) tk <> [].
Proof.
  intros Hne Hnd Hlen label tk.
  assert (Hpre : k0 :: krest = map (app label) tk).
  { unfold tk. rewrite map_map. rewrite <- (map_id (k0 :: krest)) at 1.
    apply map_ext_in. intros k Hk.
    destruct (hm_lcp_all_pre krest k0 k Hk) as [s Hs]. exact (hm_pre_skipn _ _ _ Hs). }
  assert (Hnd' : NoDup tk).
  { apply (NoDup_map_inv (app label)). rewrite <- Hpre. exact Hnd. }
  assert (Hlen' : Forall (fun t => length t = n - length label) tk).
  { unfold tk. rewrite Forall_forall in *. intros t Ht. apply in_map_iff in Ht as [k [<- Hk]].
    rewrite skipn_length, (Hlen k Hk). reflexivity. }
  assert (Hnil : lcp_all (skipn (length label) k0) (map (skipn (length label)) krest) = []).
  { cbn [map] in Hpre. injection Hpre as Hk0 Hkr.
    assert (Hl : label = label ++ lcp_all (skipn (length label) k0) (map (skipn (length label)) krest)).
    { rewrite <- hm_lcp_all_app, <- Hk0, <- Hkr. reflexivity. }
    rewrite <- (app_nil_r label) in Hl at 1. apply app_inv_head in Hl. now symmetry. }
  assert (Hlt : length label < n).
  { destruct krest as [|k1 krest]; [congruence|]. cbn [map] in tk.
    subst tk. inversion Hnd' as [|? ? Hni _]; subst.
    inversion Hlen' as [|? ? Hl0 Hl']; subst. inversion Hl' as [|? ? Hl1 _]; subst.
    destruct (Nat.lt_ge_cases (length label) n) as [|Hge]; [assumption|exfalso].
    apply Hni. left.
    destruct (skipn (length label) k0), (skipn (length label) k1); cbn [length] in *; try lia.
    reflexivity. }
  repeat split; try assumption.
  intros b Hf. apply hm_filter_nil in Hf.
  assert (Hall : Forall (fun t => starts_with (negb b) t = true) tk).
  { rewrite Forall_forall in *. intros t Ht. apply hm_starts_neg; [|auto].
    specialize (Hlen' t Ht). destruct t; cbn [length] in Hlen'; [lia|congruence]. }
  cbn [map] in tk. subst tk. inversion Hall as [|? ? H0 Hr]; subst.
  pose proof (hm_lcp_all_starts _ _ _ H0 Hr) as Hs. rewrite Hnil in Hs. discriminate.
Qed.
