(* Proofs for C10 (canonical tree) and C09 (key range): the tree built by build_edge is the
   canonical Patricia tree; key_bits accepts exactly the keys that fit.
   Self-contained (helper names prefixed hm_). *)
From Coq Require Import NArith ZArith List Bool Lia ZifyBool ZifyNat ZifyN Permutation.
From PTQ Require Import Base.Result Base.Bytes Base.Bits Model.Cell Model.Builder Model.Hashmap
  Spec.TlbPrim Spec.Hashmap.
Import ListNotations.

(* ------------------------------------------------------------------ *)
(* lexicographic order and common prefixes                             *)
(* ------------------------------------------------------------------ *)

Lemma hm_lex_total a : forall b, lex_leb a b = false -> lex_leb b a = true.
Proof.
  induction a as [|x a IH]; intros [|y b] H; cbn [lex_leb] in *; try congruence.
  destruct x, y; cbn [Bool.eqb negb] in *; auto; congruence.
Qed.

Lemma hm_lex_trans a : forall b c, lex_leb a b = true -> lex_leb b c = true -> lex_leb a c = true.
Proof.
  induction a as [|x a IH]; intros [|y b] [|z c] H1 H2; cbn [lex_leb] in *; try congruence.
  destruct x, y, z; cbn [Bool.eqb negb] in *; eauto; congruence.
Qed.

Lemma hm_lex_refl a : lex_leb a a = true.
Proof. induction a as [|x a IH]; cbn [lex_leb]; [reflexivity|]. now rewrite Bool.eqb_reflx. Qed.

Lemma hm_lex_antisym a : forall b, lex_leb a b = true -> lex_leb b a = true -> a = b.
Proof.
  induction a as [|x a IH]; intros [|y b] H1 H2; cbn [lex_leb] in *; try congruence.
  destruct x, y; cbn [Bool.eqb negb] in *; try congruence; f_equal; auto.
Qed.

Lemma hm_lcp_comm a : forall b, lcp a b = lcp b a.
Proof.
  induction a as [|x a IH]; intros [|y b]; cbn [lcp]; try reflexivity.
  destruct x, y; cbn [Bool.eqb]; try reflexivity; now rewrite IH.
Qed.

Lemma hm_lcp_assoc a : forall b c, lcp (lcp a b) c = lcp a (lcp b c).
Proof.
  induction a as [|x a IH]; intros [|y b] [|z c]; cbn [lcp]; try reflexivity.
  - destruct (Bool.eqb x y); reflexivity.
  - destruct x, y, z; cbn [Bool.eqb lcp]; try reflexivity; now rewrite IH.
Qed.

Lemma hm_lcp_idem a : lcp a a = a.
Proof. induction a as [|x a IH]; cbn [lcp]; [reflexivity|]. now rewrite Bool.eqb_reflx, IH. Qed.

(* for x <= y <= z the common prefix of x and z is already common to y *)
Lemma hm_lcp_mid x : forall y z, lex_leb x y = true -> lex_leb y z = true ->
  lcp x (lcp y z) = lcp x z.
Proof.
  induction x as [|a x IH]; intros [|b y] [|c z] H1 H2; cbn [lex_leb lcp] in *; try congruence.
  destruct a, b, c; cbn [Bool.eqb negb lcp] in *; try congruence; try reflexivity; f_equal; auto.
Qed.

(* the common prefix of all keys is the common prefix of the smallest and the largest key *)
Lemma hm_lcp_all_minmax rest : forall mn mx, lex_leb mn mx = true ->
  lcp_all (lcp mn mx) rest = lcp (fold_left lex_min rest mn) (fold_left lex_max rest mx).
Proof.
  induction rest as [|k rest IH]; intros mn mx Hle; cbn [lcp_all fold_left]; [reflexivity|].
  unfold lex_min at 2, lex_max at 2.
  destruct (lex_leb mn k) eqn:H1; destruct (lex_leb mx k) eqn:H2.
  - rewrite <- IH by exact H1. f_equal.
    rewrite hm_lcp_assoc. apply hm_lcp_mid; assumption.
  - apply hm_lex_total in H2. rewrite <- IH by exact Hle. f_equal.
    rewrite hm_lcp_assoc, (hm_lcp_comm mx k). apply hm_lcp_mid; assumption.
  - rewrite (hm_lex_trans _ _ _ Hle H2) in H1. discriminate.
  - apply hm_lex_total in H1. apply hm_lex_total in H2.
    rewrite <- IH by exact H2. f_equal.
    rewrite hm_lcp_comm. apply hm_lcp_mid; assumption.
Qed.

Lemma hm_find_common_prefix k rest : rest <> [] ->
  find_common_prefix (k :: rest) = lcp_all k rest.
Proof.
  intros Hne. destruct rest as [|k1 rest]; [congruence|].
  unfold find_common_prefix.
  rewrite <- hm_lcp_all_minmax by apply hm_lex_refl.
  now rewrite hm_lcp_idem.
Qed.

(* ------------------------------------------------------------------ *)
(* prefixes                                                            *)
(* ------------------------------------------------------------------ *)

Lemma hm_lcp_pre_l a : forall b, exists s, a = lcp a b ++ s.
Proof.
  induction a as [|x a IH]; intros [|y b]; cbn [lcp]; try (eexists; reflexivity).
  destruct (Bool.eqb x y); [|eexists; reflexivity].
  destruct (IH b) as [s Hs]. exists s. cbn [app]. now rewrite <- Hs.
Qed.

Lemma hm_lcp_pre_r a b : exists s, b = lcp a b ++ s.
Proof. rewrite hm_lcp_comm. apply hm_lcp_pre_l. Qed.

Lemma hm_lcp_all_pre rest : forall k key, In key (k :: rest) -> exists s, key = lcp_all k rest ++ s.
Proof.
  induction rest as [|k1 rest IH]; intros k key Hin; cbn [lcp_all].
  - destruct Hin as [<-|[]]. exists []. now rewrite app_nil_r.
  - destruct Hin as [<-|[<-|Hin]].
    + destruct (IH (lcp k k1) (lcp k k1) (or_introl eq_refl)) as [s Hs].
      destruct (hm_lcp_pre_l k k1) as [s' Hs']. exists (s ++ s').
      rewrite app_assoc, <- Hs. exact Hs'.
    + destruct (IH (lcp k k1) (lcp k k1) (or_introl eq_refl)) as [s Hs].
      destruct (hm_lcp_pre_r k k1) as [s' Hs']. exists (s ++ s').
      rewrite app_assoc, <- Hs. exact Hs'.
    + apply IH. right. exact Hin.
Qed.

Lemma hm_pre_skipn {A} (p s x : list A) : x = p ++ s -> x = p ++ skipn (length p) x.
Proof.
  intros ->. f_equal. induction p as [|a p IH]; cbn [length skipn app]; [reflexivity|exact IH].
Qed.

Lemma hm_lcp_app p : forall s t, lcp (p ++ s) (p ++ t) = p ++ lcp s t.
Proof.
  induction p as [|x p IH]; intros s t; cbn [app lcp]; [reflexivity|].
  now rewrite Bool.eqb_reflx, IH.
Qed.

Lemma hm_lcp_all_app p : forall ts s, lcp_all (p ++ s) (map (app p) ts) = p ++ lcp_all s ts.
Proof.
  induction ts as [|t ts IH]; intros s; cbn [map lcp_all]; [reflexivity|].
  now rewrite hm_lcp_app, IH.
Qed.

Lemma hm_lcp_starts b x y : starts_with b x = true -> starts_with b y = true ->
  starts_with b (lcp x y) = true.
Proof.
  destruct x as [|a x], y as [|c y]; cbn [starts_with lcp]; try congruence.
  intros H1 H2. apply Bool.eqb_prop in H1, H2. subst a c.
  rewrite Bool.eqb_reflx. cbn [starts_with]. apply Bool.eqb_reflx.
Qed.

Lemma hm_lcp_all_starts b : forall ts t0, starts_with b t0 = true ->
  Forall (fun t => starts_with b t = true) ts -> starts_with b (lcp_all t0 ts) = true.
Proof.
  induction ts as [|t ts IH]; intros t0 H0 Hall; cbn [lcp_all]; [exact H0|].
  inversion Hall as [|? ? Ht Hts]; subst. apply IH; [|exact Hts]. now apply hm_lcp_starts.
Qed.

(* ------------------------------------------------------------------ *)
(* splitting a key set at its common prefix (key level)                *)
(* ------------------------------------------------------------------ *)

Lemma hm_filter_nil {A} (f : A -> bool) l : filter f l = [] -> Forall (fun x => f x = false) l.
Proof.
  induction l as [|a l IH]; cbn [filter]; intros H; [constructor|].
  destruct (f a) eqn:Hfa; [discriminate|]. constructor; auto.
Qed.

Lemma hm_forall_filter {A} (P : A -> Prop) f l : Forall P l -> Forall P (filter f l).
Proof.
  induction 1 as [|a l Ha Hl IH]; cbn [filter]; [constructor|].
  destruct (f a); [constructor|]; auto.
Qed.

Lemma hm_filter_sat {A} (f : A -> bool) l : Forall (fun x => f x = true) (filter f l).
Proof.
  induction l as [|a l IH]; cbn [filter]; [constructor|].
  destruct (f a) eqn:Hfa; [constructor|]; auto.
Qed.

Lemma hm_nodup_tl b l : NoDup l -> Forall (fun x => starts_with b x = true) l -> NoDup (map (@tl bool) l).
Proof.
  induction 1 as [|x l Hx Hnd IH]; intros Hall; cbn [map]; [constructor|].
  inversion Hall as [|? ? Hbx Hbl]; subst. constructor; [|auto].
  intros Hin. apply in_map_iff in Hin as [y [Hy Hin]]. apply Hx.
  rewrite Forall_forall in Hbl. specialize (Hbl y Hin).
  destruct x as [|a x], y as [|c y]; cbn [starts_with tl] in *; try congruence.
  apply Bool.eqb_prop in Hbx, Hbl. subst. exact Hin.
Qed.

Lemma hm_starts_neg b x : x <> [] -> starts_with b x = false -> starts_with (negb b) x = true.
Proof. destruct x as [|a x]; [congruence|]. destruct a, b; cbn; congruence. Qed.

(* ks = k0 :: krest: >= 2 distinct keys of length n *)
Lemma hm_split_keys n k0 krest : krest <> [] -> NoDup (k0 :: krest) ->
  Forall (fun k => length k = n) (k0 :: krest) ->
  let label := lcp_all k0 krest in
  let tk := map (skipn (length label)) (k0 :: krest) in
  length label < n /\
  NoDup tk /\ Forall (fun t => length t = n - length label) tk /\
  forall b, filter (starts_with b) tk <> [].
Proof.
  intros Hne Hnd Hlen label tk.
  assert (Hpre : k0 :: krest = map (app label) tk).
  { unfold tk. rewrite map_map. rewrite <- (map_id (k0 :: krest)) at 1.
    apply map_ext_in. intros k Hk.
    destruct (hm_lcp_all_pre krest k0 k Hk) as [s Hs]. exact (hm_pre_skipn _ _ _ Hs). }
  assert (Hnd' : NoDup tk).
  { apply (NoDup_map_inv (app label)). rewrite <- Hpre. exact Hnd. }
  assert (Hlen' : Forall (fun t => length t = n - length label) tk).
  { unfold tk. rewrite Forall_forall in *. intros t Ht. apply in_map_iff in Ht as [k [<- Hk]].
    rewrite skipn_length, (Hlen k Hk). reflexivity. }
  assert (Hnil : lcp_all (skipn (length label) k0) (map (skipn (length label)) krest) = []).
  { cbn [map] in Hpre. injection Hpre as Hk0 Hkr.
    assert (Hl : label = label ++ lcp_all (skipn (length label) k0) (map (skipn (length label)) krest)).
    { rewrite <- hm_lcp_all_app, <- Hk0, <- Hkr. reflexivity. }
    rewrite <- (app_nil_r label) in Hl at 1. apply app_inv_head in Hl. now symmetry. }
  assert (Hlt : length label < n).
  { destruct krest as [|k1 krest]; [congruence|]. cbn [map] in tk.
    subst tk. inversion Hnd' as [|? ? Hni _]; subst.
    inversion Hlen' as [|? ? Hl0 Hl']; subst. inversion Hl' as [|? ? Hl1 _]; subst.
    destruct (Nat.lt_ge_cases (length label) n) as [|Hge]; [assumption|exfalso].
    apply Hni. left.
    destruct (skipn (length label) k0), (skipn (length label) k1); cbn [length] in *; try lia.
    reflexivity. }
  repeat split; try assumption.
  intros b Hf. apply hm_filter_nil in Hf.
  assert (Hall : Forall (fun t => starts_with (negb b) t = true) tk).
  { rewrite Forall_forall in *. intros t Ht. apply hm_starts_neg; [|auto].
    specialize (Hlen' t Ht). destruct t; cbn [length] in Hlen'; [lia|congruence]. }
  cbn [map] in tk. subst tk. inversion Hall as [|? ? H0 Hr]; subst.
  pose proof (hm_lcp_all_starts _ _ _ H0 Hr) as Hs. rewrite Hnil in Hs. discriminate.
Qed.

(* ------------------------------------------------------------------ *)
(* the same at the level of key/value lists                            *)
(* ------------------------------------------------------------------ *)

Definition hm_tails (n : nat) (src : kvs) : kvs := map (fun kv => (skipn n (fst kv), snd kv)) src.
Definition hm_branch (b : bool) (ts : kvs) : kvs :=
  map (fun kv => (tl (fst kv), snd kv)) (filter (fun kv => starts_with b (fst kv)) ts).

Lemma hm_tails_keys n src : map fst (hm_tails n src) = map (skipn n) (map fst src).
Proof. unfold hm_tails. rewrite !map_map. reflexivity. Qed.

Lemma hm_filter_keys (f : list bool -> bool) (ts : kvs) :
  map fst (filter (fun kv => f (fst kv)) ts) = filter f (map fst ts).
Proof.
  induction ts as [|kv ts IH]; cbn [filter map]; [reflexivity|].
  destruct (f (fst kv)); cbn [map]; now rewrite IH.
Qed.

Lemma hm_branch_keys b ts : map fst (hm_branch b ts) = map (@tl bool) (filter (starts_with b) (map fst ts)).
Proof. unfold hm_branch. rewrite map_map. cbn [fst]. rewrite <- hm_filter_keys, map_map. reflexivity. Qed.

Lemma hm_fork_left_eq src : fork_left src = hm_branch false src.
Proof.
  unfold fork_left, hm_branch. induction src as [|[k v] src IH]; [reflexivity|].
  cbn [flat_map filter fst snd]. rewrite IH.
  destruct k as [|[] r]; cbn [starts_with Bool.eqb map app fst snd tl]; reflexivity.
Qed.

Lemma hm_fork_right_eq src : Forall (fun kv => fst kv <> []) src -> fork_right src = hm_branch true src.
Proof.
  unfold fork_right, hm_branch. induction 1 as [|[k v] src Hk Hsrc IH]; [reflexivity|].
  cbn [flat_map filter fst snd] in *. rewrite IH.
  destruct k as [|[] r]; cbn [starts_with Bool.eqb map app fst snd tl]; [congruence|reflexivity|reflexivity].
Qed.

Lemma hm_forall_keys (P : list bool -> Prop) (src : kvs) :
  Forall (fun kv => P (fst kv)) src <-> Forall P (map fst src).
Proof. rewrite !Forall_forall. split; intros H x Hx.
  - apply in_map_iff in Hx as [kv [<- Hkv]]. auto.
  - apply H. now apply in_map.
Qed.

Lemma hm_split n kv0 kv1 rest :
  let src := kv0 :: kv1 :: rest in
  NoDup (map fst src) -> Forall (fun kv => length (fst kv) = n) src ->
  let label := lcp_all (fst kv0) (map fst (kv1 :: rest)) in
  let ts := hm_tails (length label) src in
  length label < n /\
  Forall (fun kv => fst kv <> []) ts /\
  forall b, hm_branch b ts <> [] /\ NoDup (map fst (hm_branch b ts)) /\
            Forall (fun kv => length (fst kv) = n - length label - 1) (hm_branch b ts).
Proof.
  intros src Hnd Hlen label ts.
  apply (proj1 (hm_forall_keys (fun k => length k = n) src)) in Hlen.
  assert (Hne : map fst (kv1 :: rest) <> []) by (cbn [map]; congruence).
  destruct (hm_split_keys n (fst kv0) (map fst (kv1 :: rest)) Hne Hnd Hlen) as (Hlt & Hnd' & Hlen' & Hbr).
  fold label in Hlt, Hnd', Hlen', Hbr.
  change (fst kv0 :: map fst (kv1 :: rest)) with (map fst src) in Hnd', Hlen', Hbr.
  rewrite <- hm_tails_keys in Hnd', Hlen', Hbr. fold ts in Hnd', Hlen', Hbr.
  split; [exact Hlt|]. split.
  - apply (proj2 (hm_forall_keys (fun k => k <> []) ts)). rewrite Forall_forall in *. intros t Ht Hnil.
    specialize (Hlen' t Ht). subst t. cbn [length] in Hlen'. lia.
  - intros b. split; [|split].
    + intros Hnil. apply (Hbr b). rewrite <- hm_filter_keys.
      unfold hm_branch in Hnil. apply map_eq_nil in Hnil. rewrite Hnil. reflexivity.
    + rewrite hm_branch_keys. apply (hm_nodup_tl b); [now apply NoDup_filter|apply hm_filter_sat].
    + apply (proj2 (hm_forall_keys (fun k => length k = n - length label - 1) (hm_branch b ts))).
      rewrite hm_branch_keys.
      rewrite Forall_forall. intros t Ht. apply in_map_iff in Ht as [x [<- Hx]].
      apply filter_In in Hx as [Hx _]. rewrite Forall_forall in Hlen'. specialize (Hlen' x Hx).
      destruct x; cbn [tl length] in *; lia.
Qed.

(* ------------------------------------------------------------------ *)
(* build_edge = s_patricia                                             *)
(* ------------------------------------------------------------------ *)

Lemma hm_build_unfold f kv0 kv1 rest :
  let src := kv0 :: kv1 :: rest in
  let label := find_common_prefix (map fst src) in
  let src' := remove_prefix_map src (length label) in
  build_edge (S f) src =
  match fork_left src', fork_right src' with
  | [], _ | _, [] => Err EAssert
  | _, _ => bind (build_edge f (fork_left src')) (fun el =>
            bind (build_edge f (fork_right src')) (fun er => Ok (HEdge label (HFork el er))))
  end.
Proof. reflexivity. Qed.

Lemma hm_patricia_unfold f kv0 kv1 rest :
  let src := kv0 :: kv1 :: rest in
  let label := lcp_all (fst kv0) (map fst (kv1 :: rest)) in
  let ts := hm_tails (length label) src in
  s_patricia (S f) src =
  match s_patricia f (hm_branch false ts), s_patricia f (hm_branch true ts) with
  | Some el, Some er => Some (HEdge label (HFork el er))
  | _, _ => None
  end.
Proof. destruct kv0 as [k0 v0]. reflexivity. Qed.

Lemma hm_build_edge_patricia fuel : forall n src, n < fuel -> src <> [] -> NoDup (map fst src) ->
  Forall (fun kv => length (fst kv) = n) src ->
  build_edge fuel src = match s_patricia fuel src with Some t => Ok t | None => Err EAssert end
  /\ s_patricia fuel src <> None.
Proof.
  induction fuel as [|f IH]; intros n src Hn Hne Hnd Hlen; [lia|].
  destruct src as [|kv0 [|kv1 rest]]; [congruence| |].
  - destruct kv0 as [k0 v0].
    cbn [build_edge map fst snd find_common_prefix remove_prefix_map s_patricia].
    split; [reflexivity|discriminate].
  - destruct (hm_split n kv0 kv1 rest Hnd Hlen) as (Hlt & Hnonempty & Hbr).
    rewrite hm_build_unfold, hm_patricia_unfold. cbv zeta.
    change (map fst (kv0 :: kv1 :: rest)) with (fst kv0 :: map fst (kv1 :: rest)).
    rewrite hm_find_common_prefix by (cbn [map]; congruence).
    set (label := lcp_all (fst kv0) (map fst (kv1 :: rest))) in *.
    change (remove_prefix_map (kv0 :: kv1 :: rest) (length label))
      with (hm_tails (length label) (kv0 :: kv1 :: rest)).
    set (ts := hm_tails (length label) (kv0 :: kv1 :: rest)) in *.
    rewrite hm_fork_left_eq, (hm_fork_right_eq _ Hnonempty).
    destruct (Hbr false) as (Hl1 & Hl2 & Hl3). destruct (Hbr true) as (Hr1 & Hr2 & Hr3).
    assert (Hm : n - length label - 1 < f) by lia.
    destruct (IH _ _ Hm Hl1 Hl2 Hl3) as [HLe HLn]. destruct (IH _ _ Hm Hr1 Hr2 Hr3) as [HRe HRn].
    rewrite HLe, HRe.
    destruct (s_patricia f (hm_branch false ts)) as [el|]; [|congruence].
    destruct (s_patricia f (hm_branch true ts)) as [er|]; [|congruence].
    destruct (hm_branch false ts) as [|x l]; [congruence|].
    destruct (hm_branch true ts) as [|y r]; [congruence|].
    cbn [bind]. split; [reflexivity|discriminate].
Qed.

Lemma build_edge_patricia : forall n src, src <> [] -> NoDup (map fst src) ->
  Forall (fun kv => length (fst kv) = n) src ->
  build_edge (S n) src = match s_patricia (S n) src with Some t => Ok t | None => Err EAssert end
  /\ s_patricia (S n) src <> None.
Proof. intros n src. apply hm_build_edge_patricia. lia. Qed.

(* ------------------------------------------------------------------ *)
(* key_bits: range check and binary form                               *)
(* ------------------------------------------------------------------ *)

Lemma hm_zbit_length_pos v : (0 < v)%Z -> zbit_length v = (Z.log2 v + 1)%Z.
Proof.
  intros Hv. unfold zbit_length. destruct v as [|p|p]; try lia.
  cbn [Z.abs_N N.size Z.of_N].
  destruct p as [q|q|]; cbn [Pos.size Z.log2]; try rewrite Pos2Z.inj_succ; lia.
Qed.

Lemma hm_key_fits n k : (0 <= k)%Z -> (Z.of_nat n <? zbit_length k)%Z = true <-> (2 ^ Z.of_nat n <= k)%Z.
Proof.
  intros Hk. rewrite Z.ltb_lt.
  destruct (Z.eq_dec k 0) as [->|Hnz].
  - change (zbit_length 0) with 0%Z.
    pose proof (Z.pow_pos_nonneg 2 (Z.of_nat n)) as Hp. lia.
  - assert (Hpos : (0 < k)%Z) by lia.
    rewrite (hm_zbit_length_pos k Hpos).
    rewrite (Z.log2_le_pow2 k (Z.of_nat n) Hpos). lia.
Qed.

Lemma key_range_iff : forall n k, (k < 0 \/ 2 ^ Z.of_nat n <= k)%Z <-> key_bits n k = Err EDict.
Proof.
  intros n k. unfold key_bits.
  destruct (k <? 0)%Z eqn:Hneg; cbn [orb].
  - apply Z.ltb_lt in Hneg. split; [reflexivity|]. intros _. left. exact Hneg.
  - apply Z.ltb_ge in Hneg. pose proof (hm_key_fits n k Hneg) as Hf.
    destruct (Z.of_nat n <? zbit_length k)%Z.
    + split; [reflexivity|]. intros _. right. apply Hf. reflexivity.
    + split; [|discriminate]. intros [Hlt|Hge]; [lia|]. apply Hf in Hge. discriminate.
Qed.

Lemma key_bits_spec : forall n k, (0 <= k < 2 ^ Z.of_nat n)%Z ->
  exists bits, key_bits n k = Ok bits /\ length bits = n /\ Z.of_N (of_bits bits) = k.
Proof.
  intros n k [Hlo Hhi]. exists (to_bits n (Z.to_N k)). split; [|split].
  - unfold key_bits. pose proof (hm_key_fits n k Hlo) as Hf.
    destruct (k <? 0)%Z eqn:Hneg; [apply Z.ltb_lt in Hneg; lia|]. cbn [orb].
    destruct (Z.of_nat n <? zbit_length k)%Z; [|reflexivity].
    assert (2 ^ Z.of_nat n <= k)%Z by (apply Hf; reflexivity). lia.
  - apply to_bits_length.
  - rewrite of_bits_to_bits; [apply Z2N.id; exact Hlo|].
    apply N2Z.inj_lt. rewrite Z2N.id by exact Hlo.
    rewrite N2Z.inj_pow, nat_N_Z. exact Hhi.
Qed.
