(* Proofs for C15: messages, state-inits, currency collections and hash updates serialise and decode
   back (Model/Message.v against Spec/MessageSpec.v).  Helper names prefixed msg_. *)
From Coq Require Import NArith ZArith List Bool Lia ZifyBool ZifyNat ZifyN.
From PTQ Require Import Base.Result Base.Bytes Base.Bits Model.Cell Spec.CellRepr Model.Builder Model.Hashmap
  Model.Message Spec.TlbPrim Spec.TlbVal Spec.Hashmap Spec.MessageSpec
  Proofs.BuilderRT Proofs.HmTree Proofs.HmRoundtrip.
Import ListNotations.
Local Open Scope Z_scope.
Ltac Zify.zify_post_hook ::= Z.div_mod_to_equations.

(* ------------------------------------------------------------------ *)
(* 0. successful stores, explicitly                                    *)
(* ------------------------------------------------------------------ *)

Ltac msg_inv H b Hb := apply bind_ok in H; destruct H as (b & Hb & H).

Lemma msg_S_bits b x : (length (b_bits b) + length x <= 1023)%nat ->
  b_store_bits b x = Ok (mkB (b_bits b ++ x) (b_refs b)).
Proof.
  intros Hle. unfold b_store_bits.
  destruct (Nat.ltb_spec 1023 (length (b_bits b) + length x)) as [Hlt|Hge]; [lia|reflexivity].
Qed.

Lemma msg_S_bit b x : (length (b_bits b) + 1 <= 1023)%nat ->
  b_store_bit b x = Ok (mkB (b_bits b ++ [x]) (b_refs b)).
Proof. intros Hle. unfold b_store_bit. apply msg_S_bits. cbn [length]. exact Hle. Qed.

Lemma msg_S_uint b v w : 1 <= w -> in_uint w v = true -> (length (b_bits b) + Z.to_nat w <= 1023)%nat ->
  b_store_uint b v w = Ok (mkB (b_bits b ++ enc (Z.to_nat w) v) (b_refs b)).
Proof.
  intros Hw Hv Hle. unfold b_store_uint. rewrite (int2ba_ok v w false Hw Hv). cbn [bind].
  apply msg_S_bits. rewrite enc_length. exact Hle.
Qed.

Lemma msg_S_ref b c : (length (b_refs b) + 1 <= 4)%nat ->
  b_store_ref b c = Ok (mkB (b_bits b) (b_refs b ++ [c])).
Proof.
  intros Hle. unfold b_store_ref.
  destruct (Nat.leb_spec 4 (length (b_refs b))) as [Hlt|Hge]; [lia|reflexivity].
Qed.

Definition msg_mbit (oc : option cell) : bool := match oc with Some _ => true | None => false end.
Definition msg_olist (oc : option cell) : list cell := match oc with Some c => [c] | None => [] end.

Lemma msg_S_mref b oc : (length (b_bits b) + 1 <= 1023)%nat -> (length (b_refs b) + 1 <= 4)%nat ->
  b_store_maybe_ref b oc = Ok (mkB (b_bits b ++ [msg_mbit oc]) (b_refs b ++ msg_olist oc)).
Proof.
  intros Hb Hr. destruct oc as [c|]; cbn [b_store_maybe_ref msg_mbit msg_olist].
  - rewrite msg_S_bit by exact Hb. cbn [bind]. rewrite msg_S_ref by exact Hr. reflexivity.
  - rewrite msg_S_bit by exact Hb. rewrite app_nil_r. reflexivity.
Qed.

Lemma msg_S_cell b t bits refs : (length (b_bits b) + length bits <= 1023)%nat ->
  (length (b_refs b) + length refs <= 4)%nat ->
  b_store_cell b (Cell t bits refs) = Ok (mkB (b_bits b ++ bits) (b_refs b ++ refs)).
Proof.
  intros Hb Hr. unfold b_store_cell.
  destruct (Nat.ltb_spec 4 (length (b_refs b) + length refs)) as [Hlt|Hge]; [lia|].
  rewrite msg_S_bits by exact Hb. reflexivity.
Qed.

(* depth of a cell against the depth of its references *)
Lemma msg_maxl_le l d : (maxl l <= d)%N <-> Forall (fun x => (x <= d)%N) l.
Proof.
  induction l as [|x l IH]; cbn [maxl fold_right].
  - split; [constructor|lia].
  - fold (maxl l). split.
    + intros H. constructor; [lia|]. apply IH. lia.
    + intros H. inversion H as [|? ? Hx Hl]; subst. apply IH in Hl. lia.
Qed.

Lemma msg_depth_intro t bits refs d : Forall (fun r => (s_depth r <= d)%N) refs ->
  (s_depth (Cell t bits refs) <= 1 + d)%N.
Proof.
  intros H. cbn [s_depth]. destruct refs as [|r refs]; [lia|].
  assert (Hm : (maxl (map s_depth (r :: refs)) <= d)%N).
  { apply msg_maxl_le. apply (proj2 (Forall_map s_depth (fun x => (x <= d)%N) (r :: refs))). exact H. }
  lia.
Qed.

Lemma msg_depth_elim t bits refs d : (s_depth (Cell t bits refs) <= 1 + d)%N ->
  Forall (fun r => (s_depth r <= d)%N) refs.
Proof.
  cbn [s_depth]. destruct refs as [|r refs]; [constructor|]. intros H.
  apply (proj1 (Forall_map s_depth (fun x => (x <= d)%N) (r :: refs))). apply msg_maxl_le. lia.
Qed.

Lemma msg_S_end b : Forall (fun r => (s_depth r <= 1022)%N) (b_refs b) ->
  b_end_cell b = Ok (Cell ty_ordinary (b_bits b) (b_refs b)).
Proof.
  intros H. unfold b_end_cell.
  pose proof (msg_depth_intro ty_ordinary (b_bits b) (b_refs b) 1022%N H) as Hd.
  destruct (N.leb_spec 1024 (s_depth (Cell ty_ordinary (b_bits b) (b_refs b)))) as [Hge|Hlt]; [lia|reflexivity].
Qed.

Lemma msg_end_depth b c : b_end_cell b = Ok c -> (s_depth c < 1024)%N.
Proof.
  unfold b_end_cell.
  destruct (N.leb_spec 1024 (s_depth (Cell ty_ordinary (b_bits b) (b_refs b)))) as [Hge|Hlt]; [discriminate|].
  intros [= <-]. exact Hlt.
Qed.

Lemma msg_enc1_0 : enc (Z.to_nat 1) 0 = [false]. Proof. reflexivity. Qed.
Lemma msg_enc2_2 : enc (Z.to_nat 2) 2 = [true; false]. Proof. reflexivity. Qed.
Lemma msg_enc2_3 : enc (Z.to_nat 2) 3 = [true; true]. Proof. reflexivity. Qed.

(* ------------------------------------------------------------------ *)
(* 1. HashUpdate                                                       *)
(* ------------------------------------------------------------------ *)

Lemma hash_update_roundtrip : forall o n c, length o = 32%nat -> length n = 32%nat -> bytes_ok o -> bytes_ok n ->
  ser_hash_update o n = Ok c -> s_dec_hash_update c = Ok (o, n).
Proof.
  intros o n c Ho Hn Hbo Hbn H. unfold ser_hash_update in H.
  msg_inv H b0 H0. msg_inv H b1 H1. msg_inv H b2 H2.
  apply store_bytes_ext in H0, H1, H2. apply end_cell_ok in H. subst c.
  destruct H0 as [B0 R0], H1 as [B1 R1], H2 as [B2 R2].
  assert (HB : b_bits b2 = enc_bytes [0x72%N] ++ enc_bytes o ++ enc_bytes n ++ []).
  { rewrite B2, B1, B0. cbn [b_empty b_bits]. rewrite app_nil_r, <- app_assoc. reflexivity. }
  unfold s_dec_hash_update. cbn [begin_parse]. rewrite HB.
  assert (Htag : bytes_ok [0x72%N]) by (constructor; [reflexivity|constructor]).
  rewrite (load_bytes_app [0x72%N] _ _ 1) by (reflexivity || exact Htag). cbn [bind].
  rewrite (load_bytes_app o _ _ 32) by (congruence || exact Hbo). cbn [bind].
  rewrite (load_bytes_app n _ _ 32) by (congruence || exact Hbn). cbn [bind].
  reflexivity.
Qed.

(* ------------------------------------------------------------------ *)
(* 2. StateInit                                                        *)
(* ------------------------------------------------------------------ *)

Definition msg_si_bits (si : state_init) : list bool :=
  (match si_split_depth si with Some d => true :: enc 5 d | None => [false] end) ++
  (match si_special si with Some (a, b) => [true; a; b] | None => [false] end) ++
  [msg_mbit (si_code si)] ++ [msg_mbit (si_data si)] ++ [msg_mbit (si_library si)].
Definition msg_si_refs (si : state_init) : list cell :=
  msg_olist (si_code si) ++ msg_olist (si_data si) ++ msg_olist (si_library si).

Lemma msg_si_bits_length si : (length (msg_si_bits si) <= 12)%nat.
Proof.
  unfold msg_si_bits. destruct (si_split_depth si), (si_special si) as [[a b]|];
    rewrite ?app_length; cbn [length]; rewrite ?enc_length; lia.
Qed.

Lemma msg_olist_length oc : (length (msg_olist oc) <= 1)%nat.
Proof. destruct oc; cbn [msg_olist length]; lia. Qed.

Lemma msg_si_refs_length si : (length (msg_si_refs si) <= 3)%nat.
Proof.
  unfold msg_si_refs. rewrite !app_length.
  pose proof (msg_olist_length (si_code si)). pose proof (msg_olist_length (si_data si)).
  pose proof (msg_olist_length (si_library si)). lia.
Qed.

Ltac msg_len := cbn [b_bits b_refs b_empty]; rewrite ?app_length; cbn [length]; rewrite ?enc_length;
  repeat match goal with |- context [length (msg_olist ?o)] =>
    lazymatch goal with H : (length (msg_olist o) <= 1)%nat |- _ => fail | _ => pose proof (msg_olist_length o) end end;
  lia.

Lemma msg_ser_state_init_eq si : init_ok si = true ->
  ser_state_init si = b_end_cell (mkB (msg_si_bits si) (msg_si_refs si)).
Proof.
  destruct si as [sd sp co da li]. unfold init_ok, ser_state_init, msg_si_bits, msg_si_refs.
  cbn [si_split_depth si_special si_code si_data si_library]. intros Hok.
  assert (E1 : match sd with
               | Some d => bind (b_store_bit b_empty true) (fun b => b_store_uint b d 5)
               | None => b_store_bit b_empty false end
               = Ok (mkB (match sd with Some d => true :: enc 5 d | None => [false] end) [])).
  { destruct sd as [d|].
    - rewrite msg_S_bit by msg_len. cbn [bind].
      rewrite msg_S_uint by (try apply in_uint_iff; try msg_len; lia). reflexivity.
    - rewrite msg_S_bit by msg_len. reflexivity. }
  rewrite E1. cbn [bind]. clear E1.
  set (x1 := match sd with Some d => true :: enc 5 d | None => [false] end).
  assert (L1 : (length x1 <= 6)%nat) by (subst x1; destruct sd; cbn [length]; rewrite ?enc_length; lia).
  assert (E2 : match sp with
               | Some (tick, tock) =>
                   bind (b_store_bit (mkB x1 []) true) (fun b =>
                   bind (bind (b_store_bit b_empty tick) (fun t => bind (b_store_bit t tock) b_end_cell)) (b_store_cell b))
               | None => b_store_bit (mkB x1 []) false end
               = Ok (mkB (x1 ++ match sp with Some (a, b) => [true; a; b] | None => [false] end) [])).
  { destruct sp as [[a b]|].
    - rewrite msg_S_bit by msg_len. cbn [bind].
      rewrite (msg_S_bit b_empty) by msg_len. cbn [bind].
      rewrite msg_S_bit by msg_len. cbn [bind].
      rewrite msg_S_end by (cbn [b_refs b_empty]; constructor). cbn [bind b_bits b_refs b_empty app].
      rewrite msg_S_cell by msg_len. cbn [b_bits b_refs app]. rewrite <- app_assoc. reflexivity.
    - rewrite msg_S_bit by msg_len. reflexivity. }
  rewrite E2. cbn [bind]. clear E2.
  set (x2 := match sp with Some (a, b) => [true; a; b] | None => [false] end).
  assert (L2 : (length x2 <= 3)%nat) by (subst x2; destruct sp as [[a b]|]; cbn [length]; lia).
  rewrite msg_S_mref by msg_len. cbn [bind].
  rewrite msg_S_mref by msg_len. cbn [bind].
  rewrite msg_S_mref by msg_len. cbn [bind b_bits b_refs app].
  rewrite <- !app_assoc. reflexivity.
Qed.

Lemma msg_dec_state_init si tb tr : init_ok si = true ->
  s_dec_state_init (mkS (msg_si_bits si ++ tb) (msg_si_refs si ++ tr)) = Ok (si, mkS tb tr).
Proof.
  destruct si as [sd sp co da li]. unfold init_ok, msg_si_bits, msg_si_refs.
  cbn [si_split_depth si_special si_code si_data si_library]. intros Hok.
  unfold s_dec_state_init, s_dec_maybe. rewrite <- !app_assoc.
  assert (E1 : forall X r,
    bind (s_load_bit (mkS (match sd with Some d => true :: enc 5 d | None => [false] end ++ X) r))
         (fun '(p, s1) => if p then rmap (fun '(a, s2) => (Some a, s2)) (s_load_uint s1 5) else Ok (None, s1))
    = Ok (sd, mkS X r)).
  { intros X r. destruct sd as [d|]; cbn [app]; rewrite load_bit_app; cbn [bind]; [|reflexivity].
    rewrite (load_uint_app_n 5) by (try apply in_uint_iff; lia). reflexivity. }
  rewrite E1. cbn [bind]. clear E1.
  assert (E2 : forall X r,
    bind (s_load_bit (mkS (match sp with Some (a, b) => [true; a; b] | None => [false] end ++ X) r))
         (fun '(p, s1) => if p then rmap (fun '(a, s2) => (Some a, s2))
              (bind (s_load_bit s1) (fun '(a, x1) => bind (s_load_bit x1) (fun '(b, x2) => Ok ((a, b), x2))))
            else Ok (None, s1))
    = Ok (sp, mkS X r)).
  { intros X r. destruct sp as [[a b]|]; cbn [app]; rewrite load_bit_app; cbn [bind]; [|reflexivity].
    rewrite !load_bit_app. reflexivity. }
  rewrite E2. cbn [bind]. clear E2.
  assert (E3 : forall oc X r r', s_load_maybe_ref (mkS ([msg_mbit oc] ++ X) (msg_olist oc ++ r ++ r'))
                                 = Ok (oc, mkS X (r ++ r'))).
  { intros oc X r r'. destruct oc as [c|]; reflexivity. }
  rewrite E3. cbn [bind]. rewrite E3. cbn [bind].
  rewrite <- (app_nil_l tr) at 1. rewrite E3. cbn [bind app]. reflexivity.
Qed.

Lemma state_init_roundtrip : forall si c tb tr, init_ok si = true -> ser_state_init si = Ok c ->
  match c with Cell _ bits refs =>
    s_dec_state_init (mkS (bits ++ tb) (refs ++ tr)) = Ok (si, mkS tb tr) end.
Proof.
  intros si c tb tr Hok H. rewrite msg_ser_state_init_eq in H by exact Hok.
  apply end_cell_ok in H. subst c. cbn [b_bits b_refs]. apply msg_dec_state_init. exact Hok.
Qed.

(* ------------------------------------------------------------------ *)
(* 3. CurrencyCollection                                               *)
(* ------------------------------------------------------------------ *)

Definition msg_var_bits (k : nat) (v : Z) : list bool := enc k (ulen0 v) ++ enc (Z.to_nat (8 * ulen0 v)) v.

Lemma msg_ulen0_bound v n : 0 <= n -> 0 <= v < 2 ^ (8 * n) -> ulen0 v <= n.
Proof.
  intros Hn Hv. unfold ulen0. destruct (Z.eqb_spec v 0) as [E|E]; [lia|]. unfold ulen.
  assert (Hl : Z.log2 v < 8 * n) by (apply Z.log2_lt_pow2; lia).
  pose proof (Z.log2_nonneg v). lia.
Qed.

Lemma msg_store_coins b v b' : 0 <= v -> b_store_coins b v = Ok b' -> ext b b' (msg_var_bits 4 v) [].
Proof. intros Hv H. exact (store_var_uint_ext b v 4 b' Hv H). Qed.

Lemma msg_coins_ok v : coins_ok v = true -> 0 <= v /\ ulen0 v <= 15.
Proof.
  unfold coins_ok. intros H. apply andb_prop in H. destruct H as [H1 H2].
  apply Z.leb_le in H1. apply Z.ltb_lt in H2. split; [exact H1|].
  apply msg_ulen0_bound; [lia|]. change (8 * 15) with 120. lia.
Qed.

Lemma msg_load_coins v tb r : coins_ok v = true ->
  s_load_coins (mkS (msg_var_bits 4 v ++ tb) r) = Ok (v, mkS tb r).
Proof.
  intros H. apply msg_coins_ok in H. destruct H as [H0 H1].
  assert (Hl : ulen0 v < 2 ^ 4) by (change (2 ^ 4) with 16; lia).
  exact (load_var_uint_app 4 v tb r ltac:(lia) H0 Hl).
Qed.

Lemma msg_load_var5 v tb r : 0 <= v < 2 ^ 248 ->
  s_load_var_uint (mkS (msg_var_bits 5 v ++ tb) r) 5 = Ok (v, mkS tb r).
Proof.
  intros H.
  assert (H1 : ulen0 v <= 31) by (apply msg_ulen0_bound; [lia|]; change (8 * 31) with 248; lia).
  assert (Hl : ulen0 v < 2 ^ 5) by (change (2 ^ 5) with 32; lia).
  exact (load_var_uint_app 5 v tb r ltac:(lia) ltac:(lia) Hl).
Qed.

Definition msg_ec_kv (kv : Z * Z) : list bool * payload :=
  (to_bits 32 (Z.to_N (fst kv)), (msg_var_bits 5 (snd kv), [])).
Definition msg_ec_rng (kv : Z * Z) : Prop := (0 <= fst kv < 2 ^ 32) /\ (0 <= snd kv < 2 ^ 248).

Lemma msg_rng_of_forallb ec :
  forallb (fun kv => (0 <=? fst kv) && (fst kv <? 2 ^ 32) && (0 <=? snd kv) && (snd kv <? 2 ^ 248)) ec = true ->
  Forall msg_ec_rng ec.
Proof.
  intros H. apply Forall_forall. intros kv Hin. rewrite forallb_forall in H. specialize (H kv Hin).
  unfold msg_ec_rng. lia.
Qed.

Lemma msg_key_bits_ok n k kb : key_bits n k = Ok kb -> kb = to_bits n (Z.to_N k).
Proof. unfold key_bits. destruct (_ || _); congruence. Qed.

Lemma msg_mapM_ec ec : forall kvl, Forall (fun kv : Z * Z => 0 <= snd kv) ec ->
  mapM (fun '(k, v) =>
          bind (key_bits 32 k) (fun kb =>
          bind (b_store_var_uint b_empty v 5) (fun vb => Ok (kb, (b_bits vb, @nil cell))))) ec = Ok kvl ->
  kvl = map msg_ec_kv ec.
Proof.
  induction ec as [|[k v] ec IH]; intros kvl Hall H; cbn [mapM] in H.
  - injection H as <-. reflexivity.
  - msg_inv H y Hy. msg_inv H ys Hys. injection H as <-.
    msg_inv Hy kb Hkb. msg_inv Hy vb Hvb. injection Hy as <-.
    inversion Hall as [|? ? Hv Hrest]; subst. cbn [snd] in Hv.
    cbn [map]. f_equal; [|apply IH; assumption].
    apply msg_key_bits_ok in Hkb. subst kb.
    apply (store_var_uint_ext b_empty v 5 vb Hv) in Hvb. destruct Hvb as [Hb _]. rewrite Hb. reflexivity.
Qed.

Lemma msg_bits_eqb_true a : forall b, bits_eqb a b = true -> a = b.
Proof.
  induction a as [|x a IH]; intros [|y b] H; cbn [bits_eqb] in H; try discriminate; [reflexivity|].
  apply andb_prop in H. destruct H as [H1 H2]. apply eqb_prop in H1. subst y. f_equal. apply IH. exact H2.
Qed.

Lemma msg_dict_set_fresh d : forall k v, ~ In k (map fst d) -> dict_set d k v = d ++ [(k, v)].
Proof.
  induction d as [|[k' v'] d IH]; intros k v Hn; cbn [dict_set app]; [reflexivity|].
  cbn [map fst In] in Hn.
  destruct (bits_eqb k' k) eqn:E.
  - apply msg_bits_eqb_true in E. exfalso. apply Hn. left. exact E.
  - rewrite IH; [reflexivity|]. intros Hin. apply Hn. right. exact Hin.
Qed.

Lemma msg_fold_dict_set (l : kvs) : forall acc, NoDup (map fst (acc ++ l)) ->
  fold_left (fun acc kv => dict_set acc (fst kv) (snd kv)) l acc = acc ++ l.
Proof.
  induction l as [|[k v] l IH]; intros acc Hnd; cbn [fold_left fst snd].
  - rewrite app_nil_r. reflexivity.
  - rewrite map_app in Hnd. cbn [map fst] in Hnd.
    rewrite msg_dict_set_fresh.
    + rewrite IH; [rewrite <- app_assoc; reflexivity|].
      rewrite <- app_assoc, map_app. cbn [app map fst]. exact Hnd.
    + apply NoDup_remove_2 in Hnd. intros Hin. apply Hnd. apply in_or_app. left. exact Hin.
Qed.

Lemma msg_ec_sorted_cons r : forall k v, ec_sorted ((k, v) :: r) = true ->
  Forall (fun kv => k < fst kv) r /\ ec_sorted r = true.
Proof.
  induction r as [|[k' v'] r IH]; intros k v H.
  - split; [constructor|reflexivity].
  - change (ec_sorted ((k, v) :: (k', v') :: r)) with ((k <? k') && ec_sorted ((k', v') :: r)) in H.
    apply andb_prop in H. destruct H as [H1 H2]. apply Z.ltb_lt in H1.
    split; [|exact H2]. destruct (IH k' v' H2) as [Hall _].
    constructor; [exact H1|]. eapply Forall_impl; [|exact Hall]. cbn beta. intros a Ha. lia.
Qed.

Lemma msg_of_bits_32 k : 0 <= k < 2 ^ 32 -> of_bits (to_bits 32 (Z.to_N k)) = Z.to_N k.
Proof.
  intros H. apply of_bits_to_bits. change (2 ^ N.of_nat 32)%N with 4294967296%N.
  change (2 ^ 32) with 4294967296 in H. lia.
Qed.

Lemma msg_to_bits_inj a b : 0 <= a < 2 ^ 32 -> 0 <= b < 2 ^ 32 ->
  to_bits 32 (Z.to_N a) = to_bits 32 (Z.to_N b) -> a = b.
Proof.
  intros Ha Hb E. apply (f_equal of_bits) in E. rewrite !msg_of_bits_32 in E by assumption. lia.
Qed.

Lemma msg_ec_keys_nodup ec : ec_sorted ec = true -> Forall msg_ec_rng ec ->
  NoDup (map fst (map msg_ec_kv ec)).
Proof.
  induction ec as [|[k v] r IH]; intros Hs Hr; cbn [map]; [constructor|].
  destruct (msg_ec_sorted_cons _ _ _ Hs) as [Hall Hs']. inversion Hr as [|? ? Hk Hr']; subst.
  constructor; [|apply IH; assumption].
  intros Hin. rewrite map_map in Hin. apply in_map_iff in Hin. destruct Hin as ([k' v'] & Heq & Hin).
  cbn [msg_ec_kv fst] in Heq.
  rewrite Forall_forall in Hall, Hr'. specialize (Hall _ Hin). specialize (Hr' _ Hin).
  destruct Hk as [Hk _], Hr' as [Hk' _]. cbn [fst] in *.
  apply msg_to_bits_inj in Heq; [lia|assumption|assumption].
Qed.

(* a list whose adjacent keys are in lexicographic order is its own sort *)
Fixpoint msg_adj_sorted (l : kvs) : Prop :=
  match l with
  | [] => True
  | x :: r => match r with [] => True | y :: _ => lex_leb (fst x) (fst y) = true end /\ msg_adj_sorted r
  end.

Lemma msg_sort_sorted l : msg_adj_sorted l -> sort_kvs l = l.
Proof.
  induction l as [|x r IH]; [reflexivity|]. intros [H1 H2].
  rewrite rt_sort_cons, IH by exact H2. destruct r as [|y r']; [reflexivity|].
  cbn [insert_kv]. rewrite H1. reflexivity.
Qed.

Lemma msg_of_bits_fold l : forall acc,
  fold_left (fun a b => 2 * a + b2n b)%N l acc = (acc * 2 ^ N.of_nat (length l) + of_bits l)%N.
Proof.
  unfold of_bits. induction l as [|x l IH]; intros acc; cbn [fold_left length].
  - change (2 ^ N.of_nat 0)%N with 1%N. lia.
  - rewrite IH, (IH (2 * 0 + b2n x)%N), Nat2N.inj_succ, N.pow_succ_r'. ring.
Qed.

Lemma msg_of_bits_cons x l : of_bits (x :: l) = (b2n x * 2 ^ N.of_nat (length l) + of_bits l)%N.
Proof.
  unfold of_bits at 1. cbn [fold_left]. rewrite msg_of_bits_fold. ring.
Qed.

Lemma msg_lex_of_bits a : forall b, length a = length b -> (of_bits a <= of_bits b)%N -> lex_leb a b = true.
Proof.
  induction a as [|x a IH]; intros [|y b] Hl Hle; cbn [lex_leb]; try reflexivity; try discriminate.
  cbn [length] in Hl. injection Hl as Hl. rewrite !msg_of_bits_cons, Hl in Hle.
  pose proof (of_bits_bound a) as Ba. pose proof (of_bits_bound b) as Bb. rewrite Hl in Ba.
  set (p := (2 ^ N.of_nat (length b))%N) in *.
  destruct x, y; cbn [Bool.eqb negb b2n] in *; try reflexivity; try (apply IH; [exact Hl|lia]).
  lia.
Qed.

Lemma msg_lex_keys a b : 0 <= a -> a <= b -> b < 2 ^ 32 ->
  lex_leb (to_bits 32 (Z.to_N a)) (to_bits 32 (Z.to_N b)) = true.
Proof.
  intros H0 H1 H2. apply msg_lex_of_bits; [rewrite !to_bits_length; reflexivity|].
  rewrite !msg_of_bits_32 by lia. lia.
Qed.

Lemma msg_ec_adj_sorted ec : ec_sorted ec = true -> Forall msg_ec_rng ec ->
  msg_adj_sorted (map msg_ec_kv ec).
Proof.
  induction ec as [|[k v] r IH]; intros Hs Hr; cbn [map msg_adj_sorted]; [exact I|].
  destruct (msg_ec_sorted_cons _ _ _ Hs) as [Hall Hs']. inversion Hr as [|? ? Hk Hr']; subst.
  split; [|apply IH; assumption].
  destruct r as [|[k' v'] r']; cbn [map]; [exact I|].
  inversion Hall as [|? ? Hlt _]; subst. inversion Hr' as [|? ? Hk' _]; subst.
  destruct Hk as [Hk _], Hk' as [Hk' _]. cbn [fst msg_ec_kv] in *. apply msg_lex_keys; lia.
Qed.

Lemma msg_mapM_dec ec : Forall msg_ec_rng ec ->
  mapM (fun '(k, ls) => rmap (fun '(v, _) => (Z.of_N (of_bits k), v)) (s_load_var_uint ls 5))
    (map (fun kv : list bool * payload => (fst kv, mkS (fst (snd kv)) (snd (snd kv)))) (map msg_ec_kv ec))
  = Ok ec.
Proof.
  induction 1 as [|[k v] r [Hk Hv] Hr IH]; [reflexivity|].
  cbn [map mapM msg_ec_kv fst snd] in *.
  rewrite <- (app_nil_r (msg_var_bits 5 v)), msg_load_var5 by exact Hv. cbn [rmap bind].
  rewrite IH. cbn [bind]. rewrite msg_of_bits_32 by exact Hk. rewrite Z2N.id by lia. reflexivity.
Qed.

Lemma msg_serialize_some src n oc : src <> [] -> serialize_dict src n = Ok oc ->
  exists bits refs, oc = Some (Cell ty_ordinary bits refs).
Proof.
  destruct src as [|x l]; [congruence|]. intros _ H. unfold serialize_dict in H.
  msg_inv H t Ht. msg_inv H b Hb. apply rmap_ok in H. destruct H as (c & Hc & ->).
  apply end_cell_ok in Hc. subst c. eauto.
Qed.

Lemma msg_store_mref_empty oc b' : b_store_maybe_ref b_empty oc = Ok b' ->
  b' = mkB [msg_mbit oc] (msg_olist oc).
Proof. rewrite msg_S_mref by msg_len. intros [= <-]. reflexivity. Qed.

Lemma msg_ser_extra ec ce tb tr : ec_sorted ec = true -> Forall msg_ec_rng ec -> ser_extra ec = Ok ce ->
  exists hb hr, ce = Cell ty_ordinary hb hr /\
    s_dec_extra (mkS (hb ++ tb) (hr ++ tr)) = Ok (ec, mkS tb tr).
Proof.
  intros Hs Hr H. unfold ser_extra in H. msg_inv H kvl Hkvl.
  apply msg_mapM_ec in Hkvl;
    [|eapply Forall_impl; [|exact Hr]; intros a [_ Ha]; lia].
  subst kvl.
  rewrite (msg_fold_dict_set (map msg_ec_kv ec) []) in H by (cbn [app]; apply msg_ec_keys_nodup; assumption).
  cbn [app] in H. msg_inv H oc Hoc. msg_inv H b' Hb'. apply end_cell_ok in H.
  destruct (maybe_dict_roundtrip oc b_empty b' tb tr 32 Hb') as (hb & hr & HB & HR & Hload).
  cbn [b_empty b_bits b_refs app] in HB, HR.
  exists hb, hr. split; [rewrite H, HB, HR; reflexivity|].
  unfold s_dec_extra. rewrite Hload. clear Hload.
  destruct ec as [|kv0 ec'].
  - cbn [map serialize_dict] in Hoc. injection Hoc as <-. reflexivity.
  - assert (Hne : map msg_ec_kv (kv0 :: ec') <> []) by (cbn [map]; discriminate).
    destruct (msg_serialize_some _ _ _ Hne Hoc) as (bits & refs & ->).
    assert (H32 : (1 <= 32 <= 1023)%nat) by lia.
    pose proof (fun c => dict_roundtrip 32 _ c H32 Hne (msg_ec_keys_nodup _ Hs Hr)) as Hrt.
    specialize (Hrt (Cell ty_ordinary bits refs)).
    assert (Hlen : Forall (fun kv : list bool * payload => length (fst kv) = 32%nat) (map msg_ec_kv (kv0 :: ec'))).
    { apply Forall_forall. intros x Hx. apply in_map_iff in Hx. destruct Hx as (y & <- & _).
      cbn [msg_ec_kv fst]. apply to_bits_length. }
    specialize (Hrt Hlen Hoc). cbv beta iota in Hrt.
    rewrite msg_sort_sorted in Hrt by (apply msg_ec_adj_sorted; assumption).
    unfold hashmap_parse. change (negb (ty_ordinary =? ty_ordinary)) with false. cbv iota.
    change (Z.of_nat 32) with 32 in Hrt. rewrite Hrt. cbn [rmap bind].
    rewrite msg_mapM_dec by exact Hr. reflexivity.
Qed.

Lemma currency_roundtrip : forall g ec c tb tr, coins_ok g = true -> ec_sorted ec = true ->
  forallb (fun kv => (0 <=? fst kv) && (fst kv <? 2 ^ 32) && (0 <=? snd kv) && (snd kv <? 2 ^ 248)) ec = true ->
  ser_currency g ec = Ok c ->
  match c with Cell _ bits refs =>
    s_dec_currency (mkS (bits ++ tb) (refs ++ tr)) = Ok (g, ec, mkS tb tr) end.
Proof.
  intros g ec c tb tr Hg Hs Hr H. apply msg_rng_of_forallb in Hr.
  unfold ser_currency in H. msg_inv H b1 H1. msg_inv H ce Hce. msg_inv H b2 H2.
  apply end_cell_ok in H. subst c.
  apply msg_store_coins in H1; [|apply msg_coins_ok in Hg; lia]. destruct H1 as [B1 R1].
  destruct (msg_ser_extra ec ce tb tr Hs Hr Hce) as (hb & hr & -> & Hdec).
  apply store_cell_ext in H2. destruct H2 as [B2 R2].
  rewrite B2, R2, B1, R1. cbn [b_empty b_bits b_refs app]. rewrite <- app_assoc.
  unfold s_dec_currency. rewrite msg_load_coins by exact Hg. cbn [bind].
  rewrite Hdec. reflexivity.
Qed.

(* ------------------------------------------------------------------ *)
(* 4. CommonMsgInfo                                                    *)
(* ------------------------------------------------------------------ *)

Lemma msg_refs_bits b x b' : b_store_bits b x = Ok b' -> b_refs b' = b_refs b.
Proof. intros H. apply store_bits_ext in H. destruct H as [_ H]. rewrite H. apply app_nil_r. Qed.

Lemma msg_refs_uint b v w b' : b_store_uint b v w = Ok b' -> b_refs b' = b_refs b.
Proof. intros H. apply store_uint_ext in H. destruct H as [_ H]. rewrite H. apply app_nil_r. Qed.

Lemma msg_refs_var_uint b v k b' : b_store_var_uint b v k = Ok b' -> b_refs b' = b_refs b.
Proof.
  unfold b_store_var_uint. destruct (v =? 0); [apply msg_refs_uint|].
  intros H. msg_inv H b1 H1. apply msg_refs_uint in H, H1. congruence.
Qed.

Lemma msg_refs_address b a b' : b_store_address b a = Ok b' -> b_refs b' = b_refs b.
Proof. intros H. apply store_address_ext in H. destruct H as [_ H]. rewrite H. apply app_nil_r. Qed.

Lemma msg_extra_refs ec ce : ser_extra ec = Ok ce -> crefs ce <= 1.
Proof.
  unfold ser_extra. intros H. msg_inv H kvl Hkvl. msg_inv H oc Hoc. msg_inv H b' Hb'.
  apply msg_store_mref_empty in Hb'. subst b'. apply end_cell_ok in H. subst ce.
  cbn [crefs b_refs]. pose proof (msg_olist_length oc). lia.
Qed.

Lemma msg_currency_refs g ec c : ser_currency g ec = Ok c -> crefs c <= 1.
Proof.
  unfold ser_currency. intros H. msg_inv H b1 H1. msg_inv H ce Hce. msg_inv H b2 H2.
  apply end_cell_ok in H. subst c. unfold b_store_coins in H1. apply msg_refs_var_uint in H1.
  apply msg_extra_refs in Hce.
  destruct ce as [t bits refs]. apply store_cell_ext in H2. destruct H2 as [_ R2].
  cbn [crefs b_refs] in *. rewrite R2, H1. cbn [b_empty b_refs app]. exact Hce.
Qed.

Ltac msg_refs_all :=
  repeat match goal with
  | H : b_store_uint _ _ _ = Ok _ |- _ => apply msg_refs_uint in H
  | H : b_store_bit _ _ = Ok _ |- _ => apply msg_refs_bits in H
  | H : b_store_address _ _ = Ok _ |- _ => apply msg_refs_address in H
  | H : b_store_coins _ _ = Ok _ |- _ => apply msg_refs_var_uint in H
  | H : b_store_cell _ (Cell _ _ _) = Ok _ |- _ => apply store_cell_ext in H; destruct H as [_ H]
  end.

Ltac msg_rw :=
  repeat match goal with
  | H : b_bits _ = _ |- _ => rewrite H; clear H
  | H : b_refs _ = _ |- _ => rewrite H; clear H
  end.

Lemma msg_info_refs info ic : ser_info info = Ok ic ->
  exists bits refs, ic = Cell ty_ordinary bits refs /\ (length refs <= 1)%nat /\ (s_depth ic < 1024)%N.
Proof.
  destruct info as [d b bd src dst g ec ihr fwd lt at_|src dst fee|src dst lt at_]; cbn [ser_info]; intros H.
  - do 12 (let b := fresh "b" in let Hb := fresh "Hb" in msg_inv H b Hb).
    pose proof (msg_end_depth _ _ H) as Hd. apply end_cell_ok in H.
    match goal with Hc : ser_currency g ec = Ok ?vc |- _ =>
      apply msg_currency_refs in Hc; destruct vc as [tc cb cr]; cbn [crefs] in Hc end.
    eexists _, _. split; [exact H|]. split; [|exact Hd].
    msg_refs_all. msg_rw. cbn [b_empty b_refs app]. lia.
  - do 4 (let b := fresh "b" in let Hb := fresh "Hb" in msg_inv H b Hb).
    pose proof (msg_end_depth _ _ H) as Hd. apply end_cell_ok in H.
    eexists _, _. split; [exact H|]. split; [|exact Hd].
    msg_refs_all. msg_rw. cbn [b_empty b_refs length]. lia.
  - do 5 (let b := fresh "b" in let Hb := fresh "Hb" in msg_inv H b Hb).
    pose proof (msg_end_depth _ _ H) as Hd. apply end_cell_ok in H.
    eexists _, _. split; [exact H|]. split; [|exact Hd].
    msg_refs_all. msg_rw. cbn [b_empty b_refs length]. lia.
Qed.

Ltac msg_exts :=
  repeat match goal with
  | H : b_store_uint _ _ _ = Ok _ |- _ => apply store_uint_ext in H; destruct H as [? ?]
  | H : b_store_bit _ _ = Ok _ |- _ => apply store_bits_ext in H; destruct H as [? ?]
  | H : b_store_address _ _ = Ok _ |- _ => apply store_address_ext in H; destruct H as [? ?]
  | H : b_store_coins _ _ = Ok _ |- _ => apply msg_store_coins in H; [destruct H as [? ?]|assumption]
  | H : b_store_cell _ (Cell _ _ _) = Ok _ |- _ => apply store_cell_ext in H; destruct H as [? ?]
  | H : b_store_ref _ _ = Ok _ |- _ => apply store_ref_ext in H; destruct H as [? ?]
  end.

Lemma msg_info_roundtrip info t bits refs : info_ok info = true -> info_canon info = true ->
  ser_info info = Ok (Cell t bits refs) ->
  forall tb tr, s_dec_info (mkS (bits ++ tb) (refs ++ tr)) = Ok (info, mkS tb tr).
Proof.
  destruct info as [d b bd src dst g ec ihr fwd lt at_|src dst fee|src dst lt at_];
    cbn [info_ok info_canon ser_info]; intros Hok Hcan H tb tr.
  - apply andb_prop in Hok. destruct Hok as [Hok Hec].
    apply andb_prop in Hok. destruct Hok as [Hok Hat2]. apply andb_prop in Hok. destruct Hok as [Hok Hat1].
    apply andb_prop in Hok. destruct Hok as [Hok Hlt2]. apply andb_prop in Hok. destruct Hok as [Hok Hlt1].
    apply andb_prop in Hok. destruct Hok as [Hok Hfwd]. apply andb_prop in Hok. destruct Hok as [Hok Hihr].
    apply andb_prop in Hok. destruct Hok as [Hok Hg]. apply andb_prop in Hok. destruct Hok as [Hsrc Hdst].
    assert (Hihr0 : 0 <= ihr) by (apply msg_coins_ok in Hihr; lia).
    assert (Hfwd0 : 0 <= fwd) by (apply msg_coins_ok in Hfwd; lia).
    do 12 (let b := fresh "b" in let Hb := fresh "Hb" in msg_inv H b Hb).
    apply end_cell_ok in H. injection H as -> -> ->.
    match goal with Hc : ser_currency g ec = Ok ?vc |- _ =>
      destruct vc as [tc cb cr];
      pose proof (fun tb tr => currency_roundtrip g ec _ tb tr Hg Hcan Hec Hc) as Hcur; cbv beta iota in Hcur;
      clear Hc end.
    msg_exts. msg_rw. cbn [b_empty b_bits b_refs app]. rewrite ?app_nil_r, <- !app_assoc, msg_enc1_0.
    cbn [app]. unfold s_dec_info.
    rewrite load_bit_app. cbn [bind negb].
    rewrite load_bit_app. cbn [bind]. rewrite load_bit_app. cbn [bind]. rewrite load_bit_app. cbn [bind].
    rewrite load_address_app by exact Hsrc. cbn [bind].
    rewrite load_address_app by exact Hdst. cbn [bind].
    rewrite Hcur. cbn [bind].
    rewrite msg_load_coins by exact Hihr. cbn [bind].
    rewrite msg_load_coins by exact Hfwd. cbn [bind].
    rewrite (load_uint_app 64) by (try apply in_uint_iff; lia). cbn [bind].
    rewrite (load_uint_app 32) by (try apply in_uint_iff; lia). cbn [bind].
    reflexivity.
  - apply andb_prop in Hok. destruct Hok as [Hok Hfee]. apply andb_prop in Hok. destruct Hok as [Hsrc Hdst].
    assert (Hfee0 : 0 <= fee) by (apply msg_coins_ok in Hfee; lia).
    do 4 (let b := fresh "b" in let Hb := fresh "Hb" in msg_inv H b Hb).
    apply end_cell_ok in H. injection H as -> -> ->.
    msg_exts. msg_rw. cbn [b_empty b_bits b_refs app]. rewrite <- !app_assoc, msg_enc2_2.
    cbn [app]. unfold s_dec_info.
    rewrite load_bit_app. cbn [bind negb]. rewrite load_bit_app. cbn [bind negb].
    rewrite load_address_app by exact Hsrc. cbn [bind].
    rewrite load_address_app by exact Hdst. cbn [bind].
    rewrite msg_load_coins by exact Hfee. cbn [bind]. reflexivity.
  - apply andb_prop in Hok. destruct Hok as [Hok Hat2]. apply andb_prop in Hok. destruct Hok as [Hok Hat1].
    apply andb_prop in Hok. destruct Hok as [Hok Hlt2]. apply andb_prop in Hok. destruct Hok as [Hok Hlt1].
    apply andb_prop in Hok. destruct Hok as [Hsrc Hdst].
    do 5 (let b := fresh "b" in let Hb := fresh "Hb" in msg_inv H b Hb).
    apply end_cell_ok in H. injection H as -> -> ->.
    msg_exts. msg_rw. cbn [b_empty b_bits b_refs app]. rewrite <- !app_assoc, msg_enc2_3.
    cbn [app]. unfold s_dec_info.
    rewrite load_bit_app. cbn [bind negb]. rewrite load_bit_app. cbn [bind negb].
    rewrite load_address_app by exact Hsrc. cbn [bind].
    rewrite load_address_app by exact Hdst. cbn [bind].
    rewrite (load_uint_app 64) by (try apply in_uint_iff; lia). cbn [bind].
    rewrite (load_uint_app 32) by (try apply in_uint_iff; lia). cbn [bind].
    reflexivity.
Qed.

(* ------------------------------------------------------------------ *)
(* 5. Message: the two placement steps as separate functions           *)
(* ------------------------------------------------------------------ *)

Definition msg_init_part (b0 : builder) (init : option state_init) (body : cell) : result builder :=
  match init with
  | None => b_store_bit b0 false
  | Some si =>
      bind (b_store_bit b0 true) (fun b1 =>
      bind (ser_state_init si) (fun ic' =>
      let fits0 := (cbits ic' <=? avail_bits b1 - 2) && (crefs ic' <=? avail_refs b1) in
      let bits_left := avail_bits b1 - 2 - cbits ic' in
      let refs_left := avail_refs b1 - crefs ic' in
      let fits := fits0 && ((1 <=? refs_left) || ((cbits body <=? bits_left - 1) && (crefs body <=? refs_left))) in
      if fits then bind (b_store_bit b1 false) (fun b2 => b_store_cell b2 ic')
      else bind (b_store_bit b1 true) (fun b2 => b_store_ref b2 ic')))
  end.

Definition msg_body_part (b3 : builder) (body : cell) : result builder :=
  if (cbits body <=? avail_bits b3 - 1) && (crefs body <=? avail_refs b3)
  then bind (b_store_bit b3 false) (fun b4 => b_store_cell b4 body)
  else bind (b_store_bit b3 true) (fun b4 => b_store_ref b4 body).

Lemma msg_ser_message_eq info init body :
  ser_message info init body =
  bind (ser_info info) (fun ic => bind (b_store_cell b_empty ic) (fun b0 =>
  bind (msg_init_part b0 init body) (fun b3 => bind (msg_body_part b3 body) b_end_cell))).
Proof. reflexivity. Qed.

Definition msg_dec_body (info : msg_info) (init : option state_init) (s5 : slice)
  : result (msg_info * option state_init * cell) :=
  bind (s_load_bit s5) (fun '(body_ref, s6) =>
  if body_ref then bind (s_load_ref s6) (fun '(b, _) => Ok (info, init, b))
  else Ok (info, init, Cell ty_ordinary (s_bits s6) (s_refs s6))).

Definition msg_dec_init {A} (K : option state_init * slice -> result A) (s1 : slice) : result A :=
  bind (s_load_bit s1) (fun '(has_init, s2) =>
  bind (if has_init then
          bind (s_load_bit s2) (fun '(by_ref, s3) =>
          if by_ref then
            bind (s_load_ref s3) (fun '(ic, s4) =>
            bind (s_dec_state_init (begin_parse ic)) (fun '(si, _) => Ok (Some si, s4)))
          else rmap (fun '(si, s4) => (Some si, s4)) (s_dec_state_init s3))
        else Ok (None, s2)) K).

Lemma msg_dec_message_eq c :
  s_dec_message c =
  bind (s_dec_info (begin_parse c)) (fun '(info, s1) =>
  msg_dec_init (fun '(init, s5) => msg_dec_body info init s5) s1).
Proof. reflexivity. Qed.

(* ---- decoding what the placement steps wrote ---- *)

Lemma msg_init_part_dec b0 init body b3 :
  match init with Some si => init_ok si = true | None => True end ->
  msg_init_part b0 init body = Ok b3 ->
  exists xb xr, ext b0 b3 xb xr /\
    forall A (K : option state_init * slice -> result A) tb tr,
      msg_dec_init K (mkS (xb ++ tb) (xr ++ tr)) = K (init, mkS tb tr).
Proof.
  intros Hok H. destruct init as [si|]; cbn [msg_init_part] in H.
  - msg_inv H b1 H1. msg_inv H ic' Hic'. cbv zeta in H.
    rewrite msg_ser_state_init_eq in Hic' by exact Hok. apply end_cell_ok in Hic'. cbn [b_bits b_refs] in Hic'.
    apply store_bits_ext in H1. destruct H1 as [B1 R1].
    match type of H with (if ?c then _ else _) = _ => destruct c end.
    + msg_inv H b2 H2. apply store_bits_ext in H2. destruct H2 as [B2 R2].
      rewrite Hic' in H. apply store_cell_ext in H. destruct H as [B3 R3].
      exists ([true; false] ++ msg_si_bits si), (msg_si_refs si). split.
      * split; [rewrite B3, B2, B1|rewrite R3, R2, R1]; rewrite ?app_nil_r, <- ?app_assoc; reflexivity.
      * intros A K tb tr. unfold msg_dec_init. rewrite <- app_assoc. cbn [app].
        rewrite load_bit_app. cbn [bind]. rewrite load_bit_app. cbn [bind].
        rewrite msg_dec_state_init by exact Hok. reflexivity.
    + msg_inv H b2 H2. apply store_bits_ext in H2. destruct H2 as [B2 R2].
      apply store_ref_ext in H. destruct H as [B3 R3].
      exists [true; true], [ic']. split.
      * split; [rewrite B3, B2, B1|rewrite R3, R2, R1]; rewrite ?app_nil_r, <- ?app_assoc; reflexivity.
      * intros A K tb tr. unfold msg_dec_init. cbn [app].
        rewrite load_bit_app. cbn [bind]. rewrite load_bit_app. cbn [bind].
        unfold s_load_ref. cbn [s_refs s_bits bind]. rewrite Hic'. cbn [begin_parse].
        rewrite <- (app_nil_r (msg_si_bits si)), <- (app_nil_r (msg_si_refs si)).
        rewrite msg_dec_state_init by exact Hok. reflexivity.
  - apply store_bits_ext in H. destruct H as [B R].
    exists [false], []. split; [split; assumption|].
    intros A K tb tr. unfold msg_dec_init. cbn [app]. rewrite load_bit_app. reflexivity.
Qed.

Lemma msg_body_part_dec b3 body bX : cell_ok body = true -> msg_body_part b3 body = Ok bX ->
  exists yb yr, ext b3 bX yb yr /\
    forall info init, msg_dec_body info init (mkS yb yr) = Ok (info, init, body).
Proof.
  intros Hok H. unfold msg_body_part in H. destruct body as [ty bits refs].
  unfold cell_ok in Hok. apply andb_prop in Hok. destruct Hok as [Hok _].
  apply andb_prop in Hok. destruct Hok as [Hty _]. apply Z.eqb_eq in Hty. subst ty.
  match type of H with (if ?c then _ else _) = _ => destruct c end.
  - msg_inv H b4 H4. apply store_bits_ext in H4. destruct H4 as [B4 R4].
    apply store_cell_ext in H. destruct H as [BX RX].
    exists ([false] ++ bits), refs. split.
    + split; [rewrite BX, B4|rewrite RX, R4]; rewrite ?app_nil_r, <- ?app_assoc; reflexivity.
    + intros info init. unfold msg_dec_body. cbn [app]. rewrite load_bit_app. reflexivity.
  - msg_inv H b4 H4. apply store_bits_ext in H4. destruct H4 as [B4 R4].
    apply store_ref_ext in H. destruct H as [BX RX].
    exists [true], [Cell ty_ordinary bits refs]. split.
    + split; [rewrite BX, B4|rewrite RX, R4]; rewrite ?app_nil_r, <- ?app_assoc; reflexivity.
    + intros info init. reflexivity.
Qed.

Lemma message_decodes : forall info init body c,
  info_ok info = true -> info_canon info = true ->
  match init with Some si => init_ok si = true | None => True end ->
  cell_ok body = true ->
  ser_message info init body = Ok c ->
  s_dec_message c = Ok (info, init, body).
Proof.
  intros info init body c Hok Hcan Hinit Hbody H. rewrite msg_ser_message_eq in H.
  msg_inv H ic Hic. msg_inv H b0 H0. msg_inv H b3 H3. msg_inv H bX HX.
  apply end_cell_ok in H. subst c. destruct ic as [ti ib ir].
  apply store_cell_ext in H0. destruct H0 as [B0 R0].
  destruct (msg_init_part_dec _ _ _ _ Hinit H3) as (xb & xr & [B3 R3] & D3).
  destruct (msg_body_part_dec _ _ _ Hbody HX) as (yb & yr & [BX RX] & DX).
  rewrite msg_dec_message_eq. cbn [begin_parse].
  rewrite BX, B3, B0, RX, R3, R0. cbn [b_empty b_bits b_refs app]. rewrite <- !app_assoc.
  rewrite (msg_info_roundtrip info ti ib ir Hok Hcan Hic). cbn [bind].
  rewrite D3. apply DX.
Qed.

(* ------------------------------------------------------------------ *)
(* 6. Message: serialisation never runs out of room                    *)
(* ------------------------------------------------------------------ *)

Lemma msg_forall_le_weaken (l : list cell) a b : (a <= b)%N ->
  Forall (fun r => (s_depth r <= a)%N) l -> Forall (fun r => (s_depth r <= b)%N) l.
Proof. intros Hab H. eapply Forall_impl; [|exact H]. cbn beta. intros r Hr. lia. Qed.

Lemma msg_olist_depth oc : opt_depth_ok oc = true -> Forall (fun r => (s_depth r <= 1021)%N) (msg_olist oc).
Proof.
  destruct oc as [c|]; cbn [opt_depth_ok msg_olist]; intros H; constructor; [lia|constructor].
Qed.

Lemma msg_si_refs_depth si : opt_depth_ok (si_code si) = true -> opt_depth_ok (si_data si) = true ->
  opt_depth_ok (si_library si) = true -> Forall (fun r => (s_depth r <= 1021)%N) (msg_si_refs si).
Proof.
  intros H1 H2 H3. unfold msg_si_refs. apply Forall_app. split; [apply msg_olist_depth; exact H1|].
  apply Forall_app. split; apply msg_olist_depth; assumption.
Qed.

(* what the body step needs from the builder left by the state-init step *)
Definition msg_room (b3 : builder) (body : cell) : Prop :=
  (length (b_bits b3) <= 1022)%nat /\ (length (b_refs b3) <= 4)%nat /\
  Forall (fun r => (s_depth r <= 1022)%N) (b_refs b3) /\
  ((length (b_refs b3) <= 3)%nat \/
   (cbits body <=? avail_bits b3 - 1) && (crefs body <=? avail_refs b3) = true).

Lemma msg_init_part_ok b0 init body :
  (length (b_bits b0) <= 1020)%nat -> (length (b_refs b0) <= 1)%nat ->
  Forall (fun r => (s_depth r <= 1022)%N) (b_refs b0) ->
  match init with Some si => init_ok si = true /\ opt_depth_ok (si_code si) = true /\
                             opt_depth_ok (si_data si) = true /\ opt_depth_ok (si_library si) = true
                | None => True end ->
  exists b3, msg_init_part b0 init body = Ok b3 /\ msg_room b3 body.
Proof.
  intros Hb Hr Hd Hinit. destruct init as [si|]; cbn [msg_init_part].
  - destruct Hinit as (Hok & Hc & Hda & Hl).
    pose proof (msg_si_refs_depth si Hc Hda Hl) as Hsd.
    rewrite msg_S_bit by lia. cbn [bind].
    rewrite msg_ser_state_init_eq by exact Hok.
    rewrite msg_S_end by (cbn [b_refs]; eapply msg_forall_le_weaken; [|exact Hsd]; lia).
    cbn [bind b_bits b_refs]. cbv zeta.
    set (sb := msg_si_bits si) in *. set (sr := msg_si_refs si) in *.
    match goal with |- context [if ?c then _ else _] => destruct c eqn:Efits end.
    + unfold avail_bits, avail_refs, cbits, crefs in Efits. cbn [b_bits b_refs] in Efits.
      rewrite app_length in Efits. cbn [length] in Efits.
      rewrite msg_S_bit by (cbn [b_bits]; rewrite app_length; cbn [length]; lia). cbn [bind].
      rewrite msg_S_cell by (cbn [b_bits b_refs]; rewrite ?app_length; cbn [length]; lia).
      eexists. split; [reflexivity|]. unfold msg_room, avail_bits, avail_refs. cbn [b_bits b_refs].
      rewrite !app_length. cbn [length].
      split; [lia|]. split; [lia|]. split.
      * apply Forall_app. split; [exact Hd|]. eapply msg_forall_le_weaken; [|exact Hsd]. lia.
      * destruct body as [tb bb br]. cbn [cbits crefs] in *. lia.
    + rewrite msg_S_bit by (cbn [b_bits]; rewrite app_length; cbn [length]; lia). cbn [bind].
      rewrite msg_S_ref by (cbn [b_refs]; lia).
      eexists. split; [reflexivity|]. unfold msg_room. cbn [b_bits b_refs].
      rewrite !app_length. cbn [length].
      split; [lia|]. split; [lia|]. split; [|left; lia].
      apply Forall_app. split; [exact Hd|]. constructor; [|constructor].
      pose proof (msg_depth_intro ty_ordinary sb sr 1021%N Hsd). lia.
  - rewrite msg_S_bit by lia. eexists. split; [reflexivity|]. unfold msg_room. cbn [b_bits b_refs].
    rewrite app_length. cbn [length]. split; [lia|]. split; [lia|]. split; [exact Hd|left; lia].
Qed.

Lemma msg_body_part_ok b3 body : msg_room b3 body -> cell_ok body = true -> (s_depth body < 1022)%N ->
  exists bX, msg_body_part b3 body = Ok bX /\ Forall (fun r => (s_depth r <= 1022)%N) (b_refs bX).
Proof.
  intros (Hb & Hr & Hd & Hor) Hok Hdepth. unfold msg_body_part.
  destruct body as [ty bb br]. unfold cell_ok in Hok.
  assert (Hbr : Forall (fun r => (s_depth r <= 1020)%N) br).
  { apply (msg_depth_elim ty bb br 1020%N). lia. }
  destruct ((cbits (Cell ty bb br) <=? avail_bits b3 - 1) && (crefs (Cell ty bb br) <=? avail_refs b3)) eqn:E.
  - unfold avail_bits, avail_refs, cbits, crefs in E.
    rewrite msg_S_bit by lia. cbn [bind].
    rewrite msg_S_cell by (cbn [b_bits b_refs]; rewrite ?app_length; cbn [length]; lia).
    eexists. split; [reflexivity|]. cbn [b_refs]. apply Forall_app. split; [exact Hd|].
    eapply msg_forall_le_weaken; [|exact Hbr]. lia.
  - destruct Hor as [Hor|Hor]; [|congruence].
    rewrite msg_S_bit by lia. cbn [bind]. rewrite msg_S_ref by (cbn [b_refs]; lia).
    eexists. split; [reflexivity|]. cbn [b_refs]. apply Forall_app. split; [exact Hd|].
    constructor; [lia|constructor].
Qed.

Lemma message_never_overflows : forall info init body ic,
  ser_info info = Ok ic -> cbits ic <= 1020 ->
  match init with Some si => init_ok si = true /\ opt_depth_ok (si_code si) = true /\
                             opt_depth_ok (si_data si) = true /\ opt_depth_ok (si_library si) = true
                | None => True end ->
  cell_ok body = true -> (s_depth body < 1022)%N ->
  exists c, ser_message info init body = Ok c.
Proof.
  intros info init body ic Hic Hbits Hinit Hbody Hdepth.
  destruct (msg_info_refs _ _ Hic) as (ib & ir & -> & Hir & Hd). cbn [cbits] in Hbits.
  assert (Hird : Forall (fun r => (s_depth r <= 1022)%N) ir).
  { apply (msg_depth_elim ty_ordinary ib ir 1022%N). lia. }
  rewrite msg_ser_message_eq, Hic. cbn [bind].
  rewrite msg_S_cell by (cbn [b_empty b_bits b_refs length]; lia). cbn [bind b_empty b_bits b_refs app].
  destruct (msg_init_part_ok (mkB ib ir) init body) as (b3 & -> & Hroom);
    [cbn [b_bits]; lia|cbn [b_refs]; lia|exact Hird|exact Hinit|].
  cbn [bind].
  destruct (msg_body_part_ok b3 body Hroom Hbody Hdepth) as (bX & -> & HdX). cbn [bind].
  rewrite msg_S_end by exact HdX. eauto.
Qed.
