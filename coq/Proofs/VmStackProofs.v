(* C17 - proofs: TVM stack values (tlb/vm_stack.py) round-trip. *)
From Coq Require Import NArith ZArith List Bool Lia ZifyBool ZifyNat ZifyN.
From PTQ Require Import Base.Result Base.Bytes Base.Bits Model.Cell Model.Builder Model.Hashmap
  Model.VmStack Spec.TlbPrim Proofs.BuilderRT.
Import ListNotations.
Local Open Scope Z_scope.

(* ------------------------------------------------------------------ *)
(* 0. depth measures                                                   *)
(* ------------------------------------------------------------------ *)

Fixpoint cont_depth (k : vmcont) : nat :=
  match k with
  | CQuit _ | CQuitExc => O
  | CPushInt _ n => S (cont_depth n)
  | CRepeat _ b a => S (Nat.max (cont_depth b) (cont_depth a))
  | CUntil b a => S (Nat.max (cont_depth b) (cont_depth a))
  | CAgain b => S (cont_depth b)
  | CWhileCond c b a => S (Nat.max (cont_depth c) (Nat.max (cont_depth b) (cont_depth a)))
  | CWhileBody c b a => S (Nat.max (cont_depth c) (Nat.max (cont_depth b) (cont_depth a)))
  end.

Fixpoint vm_depth (v : vmval) : nat :=
  match v with
  | VmTupleV l => S (fold_right (fun x a => Nat.max (vm_depth x) a) O l)
  | VmContV k => S (cont_depth k)
  | _ => O
  end.

Definition vm_depth_list (l : list vmval) : nat := fold_right (fun x a => Nat.max (vm_depth x) a) O l.

Lemma vm_depth_tuple l : vm_depth (VmTupleV l) = S (vm_depth_list l).
Proof. reflexivity. Qed.

Lemma vm_depth_list_in l x : In x l -> (vm_depth x <= vm_depth_list l)%nat.
Proof.
  induction l as [|y l IH]; intros Hin; [destruct Hin|].
  cbn [vm_depth_list fold_right]. fold (vm_depth_list l).
  destruct Hin as [->|Hin]; [lia|]. specialize (IH Hin). lia.
Qed.

(* ------------------------------------------------------------------ *)
(* 1. what each store writes (exact shapes)                            *)
(* ------------------------------------------------------------------ *)

Lemma vs_bind_ok {A B} (r : result A) (f : A -> result B) b :
  bind r f = Ok b -> exists a, r = Ok a /\ f a = Ok b.
Proof. destruct r as [a|e]; cbn [bind]; intros H; [eauto|discriminate]. Qed.

Lemma store_bits_eq b x b' : b_store_bits b x = Ok b' -> b' = mkB (b_bits b ++ x) (b_refs b).
Proof. unfold b_store_bits. destruct (_ <? _)%nat; congruence. Qed.

Lemma store_bytes_eq b bs b' : b_store_bytes b bs = Ok b' -> b' = mkB (b_bits b ++ bytes_to_bits bs) (b_refs b).
Proof. apply store_bits_eq. Qed.

Lemma store_ref_eq b c b' : b_store_ref b c = Ok b' -> b' = mkB (b_bits b) (b_refs b ++ [c]).
Proof. unfold b_store_ref. destruct (_ <=? _)%nat; congruence. Qed.

Lemma store_uint_eq b v w b' : b_store_uint b v w = Ok b' ->
  b' = mkB (b_bits b ++ enc (Z.to_nat w) v) (b_refs b) /\ 1 <= w /\ in_uint w v = true.
Proof.
  unfold b_store_uint. intros H. apply vs_bind_ok in H. destruct H as (l & Hl & H).
  apply (int2ba_ok_enc v w false) in Hl. destruct Hl as (-> & Hw & Hr).
  apply store_bits_eq in H. auto.
Qed.

Lemma store_int_eq b v w b' : b_store_int b v w = Ok b' ->
  b' = mkB (b_bits b ++ enc (Z.to_nat w) v) (b_refs b) /\ 1 <= w /\ in_int w v = true.
Proof.
  unfold b_store_int. intros H. apply vs_bind_ok in H. destruct H as (l & Hl & H).
  apply (int2ba_ok_enc v w true) in Hl. destruct Hl as (-> & Hw & Hr).
  apply store_bits_eq in H. auto.
Qed.

Lemma store_cell_eq b t bits refs b' : b_store_cell b (Cell t bits refs) = Ok b' ->
  b' = mkB (b_bits b ++ bits) (b_refs b ++ refs).
Proof.
  unfold b_store_cell. destruct (_ <? _)%nat; [discriminate|]. intros H.
  apply vs_bind_ok in H. destruct H as (b1 & Hb1 & H). apply store_bits_eq in Hb1. subst b1.
  cbn [b_bits b_refs] in H. congruence.
Qed.

Lemma store_slice_eq b bits refs b' : b_store_slice b (mkS bits refs) = Ok b' ->
  b' = mkB (b_bits b ++ bits) (b_refs b ++ refs).
Proof.
  unfold b_store_slice. cbn [s_bits s_refs]. destruct (_ <? _)%nat; [discriminate|]. intros H.
  apply vs_bind_ok in H. destruct H as (b1 & Hb1 & H). apply store_bits_eq in Hb1. subst b1.
  cbn [b_bits b_refs] in H. congruence.
Qed.

Lemma end_cell_eq b c : b_end_cell b = Ok c -> c = Cell ty_ordinary (b_bits b) (b_refs b).
Proof. apply end_cell_ok. Qed.

(* peel one bind off H : bind r f = Ok y *)
Ltac vs_bind H x Hx := apply vs_bind_ok in H; destruct H as (x & Hx & H).

(* turn a store equation into the shape of its result and substitute it *)
Ltac vs_shape H :=
  first
  [ apply store_bytes_eq in H; subst
  | apply store_bits_eq in H; subst
  | apply store_ref_eq in H; subst
  | apply end_cell_eq in H; subst ].

Ltac vs_norm := cbn [b_bits b_refs b_empty app]; rewrite <- ?app_assoc; cbn [app].
Ltac vs_norm_in H := cbn [b_bits b_refs b_empty app] in H; rewrite <- ?app_assoc in H; cbn [app] in H.

(* ------------------------------------------------------------------ *)
(* 2. the local fixpoints of ser_value / dec_value, restated           *)
(* ------------------------------------------------------------------ *)

Section TupleFix.
  Variable sv : vmval -> result cell.
  Variable dv : slice -> result (vmval * slice).

  Fixpoint ser_tuple_f (n : nat) (l : list vmval) : result cell :=
    match n with
    | O => Err ERecursion
    | S n' =>
      match rev l with
      | [] => Ok (Cell ty_ordinary [] [])
      | last :: rinit =>
          let init := rev rinit in
          bind (match init with
                | [] => Ok (Cell ty_ordinary [] [])
                | [x] => bind (sv x) (fun cx => bind (b_store_ref b_empty cx) b_end_cell)
                | _ => bind (ser_tuple_f n' init) (fun ct => bind (b_store_ref b_empty ct) b_end_cell)
                end) (fun cref =>
          bind (b_store_cell b_empty cref) (fun b1 =>
          bind (sv last) (fun cl => bind (b_store_ref b1 cl) b_end_cell)))
      end
    end.

  Fixpoint dec_tuple_f (n : nat) (s0 : slice) (len : nat) : result (list vmval * slice) :=
    match n with
    | O => Err ERecursion
    | S n' =>
      match len with
      | O => Ok ([], s0)
      | S len' =>
          bind (match len' with
                | O => Ok ([], s0)
                | S O => bind (s_load_ref s0) (fun '(c, s1) =>
                         bind (dv (begin_parse c)) (fun '(v, _) => Ok ([v], s1)))
                | _ => bind (s_load_ref s0) (fun '(c, s1) =>
                       bind (dec_tuple_f n' (begin_parse c) len') (fun '(l, _) => Ok (l, s1)))
                end) (fun '(init, s2) =>
          bind (s_load_ref s2) (fun '(c, s3) =>
          bind (dv (begin_parse c)) (fun '(v, _) => Ok (init ++ [v], s3))))
      end
    end.
End TupleFix.

Lemma ser_value_S f v : ser_value (S f) v =
  match v with
  | VmNull => bind (b_store_bytes b_empty [0%N]) b_end_cell
  | VmInt z =>
      if is_tiny z then bind (b_store_bytes b_empty [1%N]) (fun b => bind (b_store_int b z 64) b_end_cell)
      else bind (b_store_bits b_empty (to_bits 15%nat 256%N)) (fun b => bind (b_store_int b z 257) b_end_cell)
  | VmCellV c => bind (b_store_bytes b_empty [3%N]) (fun b => bind (b_store_ref b c) b_end_cell)
  | VmSliceV bits refs =>
      bind (b_store_bytes b_empty [4%N]) (fun b =>
      bind (ser_cellslice bits refs) (fun cs => bind (b_store_cell b cs) b_end_cell))
  | VmBuilderV bits refs =>
      bind (b_store_bytes b_empty [5%N]) (fun b =>
      bind (b_end_cell (mkB bits refs)) (fun c => bind (b_store_ref b c) b_end_cell))
  | VmContV k =>
      bind (b_store_bytes b_empty [6%N]) (fun b =>
      bind (ser_cont k) (fun ck => bind (b_store_cell b ck) b_end_cell))
  | VmTupleV l =>
      bind (b_store_bytes b_empty [7%N]) (fun b =>
      bind (b_store_uint b (Z.of_nat (length l)) 16) (fun b1 =>
      bind (ser_tuple_f (ser_value f) (S (length l)) l) (fun ct => bind (b_store_cell b1 ct) b_end_cell)))
  end.
Proof. reflexivity. Qed.

Definition dec_value_body (f : nat) (s : slice) : result (vmval * slice) :=
  if bits_eqb (s_preload_bits s 15%nat) (to_bits 15%nat 256%N) then
    bind (s_skip s 15%nat) (fun s1 => bind (s_load_int s1 257%nat) (fun '(z, s2) => Ok (VmInt z, s2)))
  else
    let tag := s_preload_bytes s 2%nat in
    match tag with
    | 0%N :: _ => bind (s_skip s 8%nat) (fun s1 => Ok (VmNull, s1))
    | 1%N :: _ => bind (s_skip s 8%nat) (fun s1 => bind (s_load_int s1 64%nat) (fun '(z, s2) => Ok (VmInt z, s2)))
    | [2%N; 255%N] => bind (s_skip s 16%nat) (fun s1 => Ok (VmNull, s1))
    | 3%N :: _ => bind (s_skip s 8%nat) (fun s1 => bind (s_load_ref s1) (fun '(c, s2) => Ok (VmCellV c, s2)))
    | 5%N :: _ => bind (s_skip s 8%nat) (fun s1 => bind (s_load_ref s1) (fun '(c, s2) =>
                  let 'Cell ty bits refs := c in
                  if negb (ty =? ty_ordinary) then Err ECell else Ok (VmBuilderV bits refs, s2)))
    | 4%N :: _ => bind (s_skip s 8%nat) dec_cellslice
    | 6%N :: _ => bind (s_skip s 8%nat) (fun s1 => rmap (fun '(k, s2) => (VmContV k, s2)) (dec_cont f s1))
    | 7%N :: _ => bind (s_skip s 8%nat) (fun s1 => bind (s_load_uint s1 16%nat) (fun '(len, s2) =>
                  rmap (fun '(l, s3) => (VmTupleV l, s3))
                       (dec_tuple_f (dec_value f) (S (Z.to_nat len)) s2 (Z.to_nat len))))
    | _ => Ok (VmNull, s)
    end.

Lemma dec_value_S f s : dec_value (S f) s = dec_value_body f s.
Proof. reflexivity. Qed.

(* ---- tag dispatch ---- *)
Lemma dec_tag0 f r refs : dec_value (S f) (mkS (bytes_to_bits [0%N] ++ r) refs) = Ok (VmNull, mkS r refs).
Proof. rewrite dec_value_S. reflexivity. Qed.

Lemma dec_tag1 f r refs : dec_value (S f) (mkS (bytes_to_bits [1%N] ++ r) refs) =
  bind (s_load_int (mkS r refs) 64%nat) (fun '(z, s2) => Ok (VmInt z, s2)).
Proof. rewrite dec_value_S. reflexivity. Qed.

Lemma dec_tag3 f r refs : dec_value (S f) (mkS (bytes_to_bits [3%N] ++ r) refs) =
  bind (s_load_ref (mkS r refs)) (fun '(c, s2) => Ok (VmCellV c, s2)).
Proof. rewrite dec_value_S. reflexivity. Qed.

Lemma dec_tag4 f r refs : dec_value (S f) (mkS (bytes_to_bits [4%N] ++ r) refs) = dec_cellslice (mkS r refs).
Proof. rewrite dec_value_S. reflexivity. Qed.

Lemma dec_tag5 f r refs : dec_value (S f) (mkS (bytes_to_bits [5%N] ++ r) refs) =
  bind (s_load_ref (mkS r refs)) (fun '(c, s2) =>
    let 'Cell ty bits refs := c in
    if negb (ty =? ty_ordinary) then Err ECell else Ok (VmBuilderV bits refs, s2)).
Proof. rewrite dec_value_S. reflexivity. Qed.

Lemma dec_tag6 f r refs : dec_value (S f) (mkS (bytes_to_bits [6%N] ++ r) refs) =
  rmap (fun '(k, s2) => (VmContV k, s2)) (dec_cont f (mkS r refs)).
Proof. rewrite dec_value_S. reflexivity. Qed.

Lemma dec_tag7 f r refs : dec_value (S f) (mkS (bytes_to_bits [7%N] ++ r) refs) =
  bind (s_load_uint (mkS r refs) 16%nat) (fun '(len, s2) =>
    rmap (fun '(l, s3) => (VmTupleV l, s3))
         (dec_tuple_f (dec_value f) (S (Z.to_nat len)) s2 (Z.to_nat len))).
Proof. rewrite dec_value_S. reflexivity. Qed.

Lemma dec_tag_int257 f r refs : dec_value (S f) (mkS (to_bits 15%nat 256%N ++ r) refs) =
  bind (s_load_int (mkS r refs) 257%nat) (fun '(z, s2) => Ok (VmInt z, s2)).
Proof. rewrite dec_value_S. reflexivity. Qed.
