(* C17 - proofs: TVM stack values (tlb/vm_stack.py) round-trip. *)
From Coq Require Import NArith ZArith List Bool Lia ZifyBool ZifyNat ZifyN.
From PTQ Require Import Base.Result Base.Bytes Base.Bits Model.Cell Model.Builder Model.Hashmap
  Model.VmStack Spec.TlbPrim Proofs.BuilderRT.
Import ListNotations.
Local Open Scope Z_scope.

(* ------------------------------------------------------------------ *)
(* 0. depth measures                                                   *)
(* ------------------------------------------------------------------ *)

Fixpoint cont_depth (k : vmcont) : nat :=
  match k with
  | CQuit _ | CQuitExc => O
  | CPushInt _ n => S (cont_depth n)
  | CRepeat _ b a => S (Nat.max (cont_depth b) (cont_depth a))
  | CUntil b a => S (Nat.max (cont_depth b) (cont_depth a))
  | CAgain b => S (cont_depth b)
  | CWhileCond c b a => S (Nat.max (cont_depth c) (Nat.max (cont_depth b) (cont_depth a)))
  | CWhileBody c b a => S (Nat.max (cont_depth c) (Nat.max (cont_depth b) (cont_depth a)))
  end.

Fixpoint vm_depth (v : vmval) : nat :=
  match v with
  | VmTupleV l => S (fold_right (fun x a => Nat.max (vm_depth x) a) O l)
  | VmContV k => S (cont_depth k)
  | _ => O
  end.

Definition vm_depth_list (l : list vmval) : nat := fold_right (fun x a => Nat.max (vm_depth x) a) O l.

Lemma vm_depth_tuple l : vm_depth (VmTupleV l) = S (vm_depth_list l).
Proof. reflexivity. Qed.

Lemma vm_depth_list_in l x : In x l -> (vm_depth x <= vm_depth_list l)%nat.
Proof.
  induction l as [|y l IH]; intros Hin; [destruct Hin|].
  cbn [vm_depth_list fold_right]. fold (vm_depth_list l).
  destruct Hin as [->|Hin]; [lia|]. specialize (IH Hin). lia.
Qed.

(* ------------------------------------------------------------------ *)
(* 1. what each store writes (exact shapes)                            *)
(* ------------------------------------------------------------------ *)

Lemma vs_bind_ok {A B} (r : result A) (f : A -> result B) b :
  bind r f = Ok b -> exists a, r = Ok a /\ f a = Ok b.
Proof. destruct r as [a|e]; cbn [bind]; intros H; [eauto|discriminate]. Qed.

Lemma store_bits_eq b x b' : b_store_bits b x = Ok b' -> b' = mkB (b_bits b ++ x) (b_refs b).
Proof. unfold b_store_bits. destruct (_ <? _)%nat; congruence. Qed.

Lemma store_bytes_eq b bs b' : b_store_bytes b bs = Ok b' -> b' = mkB (b_bits b ++ bytes_to_bits bs) (b_refs b).
Proof. apply store_bits_eq. Qed.

Lemma store_ref_eq b c b' : b_store_ref b c = Ok b' -> b' = mkB (b_bits b) (b_refs b ++ [c]).
Proof. unfold b_store_ref. destruct (_ <=? _)%nat; congruence. Qed.

Lemma store_uint_eq b v w b' : b_store_uint b v w = Ok b' ->
  b' = mkB (b_bits b ++ enc (Z.to_nat w) v) (b_refs b) /\ 1 <= w /\ in_uint w v = true.
Proof.
  unfold b_store_uint. intros H. apply vs_bind_ok in H. destruct H as (l & Hl & H).
  apply (int2ba_ok_enc v w false) in Hl. destruct Hl as (-> & Hw & Hr).
  apply store_bits_eq in H. auto.
Qed.

Lemma store_int_eq b v w b' : b_store_int b v w = Ok b' ->
  b' = mkB (b_bits b ++ enc (Z.to_nat w) v) (b_refs b) /\ 1 <= w /\ in_int w v = true.
Proof.
  unfold b_store_int. intros H. apply vs_bind_ok in H. destruct H as (l & Hl & H).
  apply (int2ba_ok_enc v w true) in Hl. destruct Hl as (-> & Hw & Hr).
  apply store_bits_eq in H. auto.
Qed.

Lemma store_cell_eq b t bits refs b' : b_store_cell b (Cell t bits refs) = Ok b' ->
  b' = mkB (b_bits b ++ bits) (b_refs b ++ refs).
Proof.
  unfold b_store_cell. destruct (_ <? _)%nat; [discriminate|]. intros H.
  apply vs_bind_ok in H. destruct H as (b1 & Hb1 & H). apply store_bits_eq in Hb1. subst b1.
  cbn [b_bits b_refs] in H. congruence.
Qed.

Lemma store_slice_eq b bits refs b' : b_store_slice b (mkS bits refs) = Ok b' ->
  b' = mkB (b_bits b ++ bits) (b_refs b ++ refs).
Proof.
  unfold b_store_slice. cbn [s_bits s_refs]. destruct (_ <? _)%nat; [discriminate|]. intros H.
  apply vs_bind_ok in H. destruct H as (b1 & Hb1 & H). apply store_bits_eq in Hb1. subst b1.
  cbn [b_bits b_refs] in H. congruence.
Qed.

Lemma end_cell_eq b c : b_end_cell b = Ok c -> c = Cell ty_ordinary (b_bits b) (b_refs b).
Proof. apply end_cell_ok. Qed.

(* peel one bind off H : bind r f = Ok y *)
Ltac vs_bind H x Hx := apply vs_bind_ok in H; destruct H as (x & Hx & H).

(* turn a store equation into the shape of its result and substitute it *)
Ltac vs_shape H :=
  first
  [ apply store_bytes_eq in H; subst
  | apply store_bits_eq in H; subst
  | apply store_ref_eq in H; subst
  | apply end_cell_eq in H; subst ].

Ltac vs_norm := cbn [b_bits b_refs b_empty app]; rewrite <- ?app_assoc; cbn [app].
Ltac vs_norm_in H := cbn [b_bits b_refs b_empty app] in H; rewrite <- ?app_assoc in H; cbn [app] in H.

(* ------------------------------------------------------------------ *)
(* 2. the local fixpoints of ser_value / dec_value, restated           *)
(* ------------------------------------------------------------------ *)

Section TupleFix.
  Variable sv : vmval -> result cell.
  Variable dv : slice -> result (vmval * slice).

  Fixpoint ser_tuple_f (n : nat) (l : list vmval) : result cell :=
    match n with
    | O => Err ERecursion
    | S n' =>
      match rev l with
      | [] => Ok (Cell ty_ordinary [] [])
      | last :: rinit =>
          let init := rev rinit in
          bind (match init with
                | [] => Ok (Cell ty_ordinary [] [])
                | [x] => bind (sv x) (fun cx => bind (b_store_ref b_empty cx) b_end_cell)
                | _ => bind (ser_tuple_f n' init) (fun ct => bind (b_store_ref b_empty ct) b_end_cell)
                end) (fun cref =>
          bind (b_store_cell b_empty cref) (fun b1 =>
          bind (sv last) (fun cl => bind (b_store_ref b1 cl) b_end_cell)))
      end
    end.

  Fixpoint dec_tuple_f (n : nat) (s0 : slice) (len : nat) : result (list vmval * slice) :=
    match n with
    | O => Err ERecursion
    | S n' =>
      match len with
      | O => Ok ([], s0)
      | S len' =>
          bind (match len' with
                | O => Ok ([], s0)
                | S O => bind (s_load_ref s0) (fun '(c, s1) =>
                         bind (dv (begin_parse c)) (fun '(v, _) => Ok ([v], s1)))
                | _ => bind (s_load_ref s0) (fun '(c, s1) =>
                       bind (dec_tuple_f n' (begin_parse c) len') (fun '(l, _) => Ok (l, s1)))
                end) (fun '(init, s2) =>
          bind (s_load_ref s2) (fun '(c, s3) =>
          bind (dv (begin_parse c)) (fun '(v, _) => Ok (init ++ [v], s3))))
      end
    end.
End TupleFix.

Lemma ser_value_S f v : ser_value (S f) v =
  match v with
  | VmNull => bind (b_store_bytes b_empty [0%N]) b_end_cell
  | VmInt z =>
      if is_tiny z then bind (b_store_bytes b_empty [1%N]) (fun b => bind (b_store_int b z 64) b_end_cell)
      else bind (b_store_bits b_empty (to_bits 15%nat 256%N)) (fun b => bind (b_store_int b z 257) b_end_cell)
  | VmCellV c => bind (b_store_bytes b_empty [3%N]) (fun b => bind (b_store_ref b c) b_end_cell)
  | VmSliceV bits refs =>
      bind (b_store_bytes b_empty [4%N]) (fun b =>
      bind (ser_cellslice bits refs) (fun cs => bind (b_store_cell b cs) b_end_cell))
  | VmBuilderV bits refs =>
      bind (b_store_bytes b_empty [5%N]) (fun b =>
      bind (b_end_cell (mkB bits refs)) (fun c => bind (b_store_ref b c) b_end_cell))
  | VmContV k =>
      bind (b_store_bytes b_empty [6%N]) (fun b =>
      bind (ser_cont k) (fun ck => bind (b_store_cell b ck) b_end_cell))
  | VmTupleV l =>
      bind (b_store_bytes b_empty [7%N]) (fun b =>
      bind (b_store_uint b (Z.of_nat (length l)) 16) (fun b1 =>
      bind (ser_tuple_f (ser_value f) (S (length l)) l) (fun ct => bind (b_store_cell b1 ct) b_end_cell)))
  end.
Proof. reflexivity. Qed.

Definition dec_value_body (f : nat) (s : slice) : result (vmval * slice) :=
  if bits_eqb (s_preload_bits s 15%nat) (to_bits 15%nat 256%N) then
    bind (s_skip s 15%nat) (fun s1 => bind (s_load_int s1 257%nat) (fun '(z, s2) => Ok (VmInt z, s2)))
  else
    let tag := s_preload_bytes s 2%nat in
    match tag with
    | 0%N :: _ => bind (s_skip s 8%nat) (fun s1 => Ok (VmNull, s1))
    | 1%N :: _ => bind (s_skip s 8%nat) (fun s1 => bind (s_load_int s1 64%nat) (fun '(z, s2) => Ok (VmInt z, s2)))
    | [2%N; 255%N] => bind (s_skip s 16%nat) (fun s1 => Ok (VmNull, s1))
    | 3%N :: _ => bind (s_skip s 8%nat) (fun s1 => bind (s_load_ref s1) (fun '(c, s2) => Ok (VmCellV c, s2)))
    | 5%N :: _ => bind (s_skip s 8%nat) (fun s1 => bind (s_load_ref s1) (fun '(c, s2) =>
                  let 'Cell ty bits refs := c in
                  if negb (ty =? ty_ordinary) then Err ECell else Ok (VmBuilderV bits refs, s2)))
    | 4%N :: _ => bind (s_skip s 8%nat) dec_cellslice
    | 6%N :: _ => bind (s_skip s 8%nat) (fun s1 => rmap (fun '(k, s2) => (VmContV k, s2)) (dec_cont f s1))
    | 7%N :: _ => bind (s_skip s 8%nat) (fun s1 => bind (s_load_uint s1 16%nat) (fun '(len, s2) =>
                  rmap (fun '(l, s3) => (VmTupleV l, s3))
                       (dec_tuple_f (dec_value f) (S (Z.to_nat len)) s2 (Z.to_nat len))))
    | _ => Ok (VmNull, s)
    end.

Lemma dec_value_S f s : dec_value (S f) s = dec_value_body f s.
Proof. reflexivity. Qed.

(* ---- tag dispatch ---- *)
Lemma dec_tag0 f r refs : dec_value (S f) (mkS (bytes_to_bits [0%N] ++ r) refs) = Ok (VmNull, mkS r refs).
Proof. rewrite dec_value_S. reflexivity. Qed.

Lemma dec_tag1 f r refs : dec_value (S f) (mkS (bytes_to_bits [1%N] ++ r) refs) =
  bind (s_load_int (mkS r refs) 64%nat) (fun '(z, s2) => Ok (VmInt z, s2)).
Proof. rewrite dec_value_S. reflexivity. Qed.

Lemma dec_tag3 f r refs : dec_value (S f) (mkS (bytes_to_bits [3%N] ++ r) refs) =
  bind (s_load_ref (mkS r refs)) (fun '(c, s2) => Ok (VmCellV c, s2)).
Proof. rewrite dec_value_S. reflexivity. Qed.

Lemma dec_tag4 f r refs : dec_value (S f) (mkS (bytes_to_bits [4%N] ++ r) refs) = dec_cellslice (mkS r refs).
Proof. rewrite dec_value_S. reflexivity. Qed.

Lemma dec_tag5 f r refs : dec_value (S f) (mkS (bytes_to_bits [5%N] ++ r) refs) =
  bind (s_load_ref (mkS r refs)) (fun '(c, s2) =>
    let 'Cell ty bits refs := c in
    if negb (ty =? ty_ordinary) then Err ECell else Ok (VmBuilderV bits refs, s2)).
Proof. rewrite dec_value_S. reflexivity. Qed.

Lemma dec_tag6 f r refs : dec_value (S f) (mkS (bytes_to_bits [6%N] ++ r) refs) =
  rmap (fun '(k, s2) => (VmContV k, s2)) (dec_cont f (mkS r refs)).
Proof. rewrite dec_value_S. reflexivity. Qed.

Lemma dec_tag7 f r refs : dec_value (S f) (mkS (bytes_to_bits [7%N] ++ r) refs) =
  bind (s_load_uint (mkS r refs) 16%nat) (fun '(len, s2) =>
    rmap (fun '(l, s3) => (VmTupleV l, s3))
         (dec_tuple_f (dec_value f) (S (Z.to_nat len)) s2 (Z.to_nat len))).
Proof. rewrite dec_value_S. reflexivity. Qed.

Lemma dec_tag_int257 f r refs : dec_value (S f) (mkS (to_bits 15%nat 256%N ++ r) refs) =
  bind (s_load_int (mkS r refs) 257%nat) (fun '(z, s2) => Ok (VmInt z, s2)).
Proof. rewrite dec_value_S. reflexivity. Qed.

(* ------------------------------------------------------------------ *)
(* 3. continuations                                                    *)
(* ------------------------------------------------------------------ *)

Definition cont_sub (f : nat) (s0 : slice) : result (vmcont * slice) :=
  bind (s_load_ref s0) (fun '(c, s1) => bind (dec_cont f (begin_parse c)) (fun '(k, _) => Ok (k, s1))).

Lemma dec_cont_quit f r refs : dec_cont (S f) (mkS (true :: false :: false :: false :: r) refs) =
  bind (s_load_int (mkS r refs) 32%nat) (fun '(z, s2) => Ok (CQuit z, s2)).
Proof. reflexivity. Qed.

Lemma dec_cont_quit_exc f r refs : dec_cont (S f) (mkS (true :: false :: false :: true :: r) refs) =
  Ok (CQuitExc, mkS r refs).
Proof. reflexivity. Qed.

Lemma dec_cont_pushint f r refs : dec_cont (S f) (mkS (true :: true :: true :: true :: r) refs) =
  bind (s_load_int (mkS r refs) 32%nat) (fun '(z, s2) =>
  bind (cont_sub f s2) (fun '(k, s3) => Ok (CPushInt z k, s3))).
Proof. reflexivity. Qed.

Lemma dec_cont_repeat f r refs : dec_cont (S f) (mkS (true :: false :: true :: false :: false :: r) refs) =
  bind (s_load_uint (mkS r refs) 63%nat) (fun '(n, s2) =>
  bind (cont_sub f s2) (fun '(b, s3) => bind (cont_sub f s3) (fun '(a, s4) => Ok (CRepeat n b a, s4)))).
Proof. reflexivity. Qed.

Lemma dec_cont_until f r refs :
  dec_cont (S f) (mkS (true :: true :: false :: false :: false :: false :: r) refs) =
  bind (cont_sub f (mkS r refs)) (fun '(b, s2) => bind (cont_sub f s2) (fun '(a, s3) => Ok (CUntil b a, s3))).
Proof. reflexivity. Qed.

Lemma dec_cont_again f r refs :
  dec_cont (S f) (mkS (true :: true :: false :: false :: false :: true :: r) refs) =
  bind (cont_sub f (mkS r refs)) (fun '(b, s2) => Ok (CAgain b, s2)).
Proof. reflexivity. Qed.

Lemma dec_cont_while_cond f r refs :
  dec_cont (S f) (mkS (true :: true :: false :: false :: true :: false :: r) refs) =
  bind (cont_sub f (mkS r refs)) (fun '(c, s2) => bind (cont_sub f s2) (fun '(b, s3) =>
  bind (cont_sub f s3) (fun '(a, s4) => Ok (CWhileCond c b a, s4)))).
Proof. reflexivity. Qed.

Lemma dec_cont_while_body f r refs :
  dec_cont (S f) (mkS (true :: true :: false :: false :: true :: true :: r) refs) =
  bind (cont_sub f (mkS r refs)) (fun '(c, s2) => bind (cont_sub f s2) (fun '(b, s3) =>
  bind (cont_sub f s3) (fun '(a, s4) => Ok (CWhileBody c b a, s4)))).
Proof. reflexivity. Qed.

Definition cont_rt (k : vmcont) : Prop := forall fuel c tb tr,
  (cont_depth k < fuel)%nat -> ser_cont k = Ok c ->
  match c with Cell _ bits refs => dec_cont fuel (mkS (bits ++ tb) (refs ++ tr)) = Ok (k, mkS tb tr) end.

Lemma cont_sub_ok k f c bits refs : cont_rt k -> (cont_depth k < f)%nat -> ser_cont k = Ok c ->
  cont_sub f (mkS bits (c :: refs)) = Ok (k, mkS bits refs).
Proof.
  intros Hrt Hd Hs. unfold cont_sub. cbn [s_load_ref s_refs s_bits bind].
  specialize (Hrt f c [] [] Hd Hs). destruct c as [t cb cr]. cbn [begin_parse].
  rewrite !app_nil_r in Hrt. rewrite Hrt. reflexivity.
Qed.

Lemma load_int_n n v tb r : (1 <= n)%nat -> in_int (Z.of_nat n) v = true ->
  s_load_int (mkS (enc n v ++ tb) r) n = Ok (v, mkS tb r).
Proof. apply load_int_app_n. Qed.

Theorem cont_roundtrip : forall k, cont_rt k.
Proof.
  induction k as [code| |v next IHn|count body IHb after IHa|body IHb after IHa|body IHb
                 |c IHc b0 IHb a IHa|c IHc b0 IHb a IHa];
    intros fuel cc tb tr Hd H; cbn [ser_cont] in H; cbn [cont_depth] in Hd;
    (destruct fuel as [|f]; [lia|]).
  - vs_bind H b Hb. vs_shape Hb. vs_bind H b1 Hb1. apply store_int_eq in Hb1. destruct Hb1 as (-> & _ & Hr).
    vs_shape H. vs_norm. rewrite dec_cont_quit.
    change (Z.to_nat 32) with 32%nat. rewrite load_int_app_n by (lia || exact Hr). reflexivity.
  - vs_bind H b Hb. vs_shape Hb. vs_shape H. vs_norm. apply dec_cont_quit_exc.
  - vs_bind H b Hb. vs_shape Hb. vs_bind H b1 Hb1. apply store_int_eq in Hb1. destruct Hb1 as (-> & _ & Hr).
    vs_bind H c1 Hc1. vs_bind H b2 Hb2. vs_shape Hb2. vs_shape H. vs_norm. rewrite dec_cont_pushint.
    change (Z.to_nat 32) with 32%nat. rewrite load_int_app_n by (lia || exact Hr). cbn [bind].
    rewrite (cont_sub_ok next) by (assumption || lia). reflexivity.
  - vs_bind H b Hb. vs_shape Hb. vs_bind H b1 Hb1. apply store_uint_eq in Hb1. destruct Hb1 as (-> & _ & Hr).
    vs_bind H c1 Hc1. vs_bind H b2 Hb2. vs_shape Hb2.
    vs_bind H c2 Hc2. vs_bind H b3 Hb3. vs_shape Hb3. vs_shape H. vs_norm. rewrite dec_cont_repeat.
    change (Z.to_nat 63) with 63%nat. rewrite load_uint_app_n by (lia || exact Hr). cbn [bind].
    rewrite (cont_sub_ok body) by (assumption || lia). cbn [bind].
    rewrite (cont_sub_ok after) by (assumption || lia). reflexivity.
  - vs_bind H b Hb. vs_shape Hb.
    vs_bind H c1 Hc1. vs_bind H b2 Hb2. vs_shape Hb2.
    vs_bind H c2 Hc2. vs_bind H b3 Hb3. vs_shape Hb3. vs_shape H. vs_norm. rewrite dec_cont_until.
    rewrite (cont_sub_ok body) by (assumption || lia). cbn [bind].
    rewrite (cont_sub_ok after) by (assumption || lia). reflexivity.
  - vs_bind H b Hb. vs_shape Hb.
    vs_bind H c1 Hc1. vs_bind H b2 Hb2. vs_shape Hb2. vs_shape H. vs_norm. rewrite dec_cont_again.
    rewrite (cont_sub_ok body) by (assumption || lia). reflexivity.
  - vs_bind H b Hb. vs_shape Hb.
    vs_bind H c1 Hc1. vs_bind H b2 Hb2. vs_shape Hb2.
    vs_bind H c2 Hc2. vs_bind H b3 Hb3. vs_shape Hb3.
    vs_bind H c3 Hc3. vs_bind H b4 Hb4. vs_shape Hb4. vs_shape H. vs_norm. rewrite dec_cont_while_cond.
    rewrite (cont_sub_ok c) by (assumption || lia). cbn [bind].
    rewrite (cont_sub_ok b0) by (assumption || lia). cbn [bind].
    rewrite (cont_sub_ok a) by (assumption || lia). reflexivity.
  - vs_bind H b Hb. vs_shape Hb.
    vs_bind H c1 Hc1. vs_bind H b2 Hb2. vs_shape Hb2.
    vs_bind H c2 Hc2. vs_bind H b3 Hb3. vs_shape Hb3.
    vs_bind H c3 Hc3. vs_bind H b4 Hb4. vs_shape Hb4. vs_shape H. vs_norm. rewrite dec_cont_while_body.
    rewrite (cont_sub_ok c) by (assumption || lia). cbn [bind].
    rewrite (cont_sub_ok b0) by (assumption || lia). cbn [bind].
    rewrite (cont_sub_ok a) by (assumption || lia). reflexivity.
Qed.

(* ------------------------------------------------------------------ *)
(* 4. VmCellSlice                                                      *)
(* ------------------------------------------------------------------ *)

Lemma slice_full {A} (l : list A) : Bits.slice l (Z.to_nat 0) (Z.to_nat (Z.of_nat (length l))) = l.
Proof.
  unfold Bits.slice. rewrite Nat2Z.id. change (Z.to_nat 0) with O.
  rewrite Nat.sub_0_r. cbn [skipn]. apply firstn_all.
Qed.

Lemma cellslice_rt bits refs cs tb tr : ser_cellslice bits refs = Ok cs ->
  match cs with Cell _ cb cr =>
    dec_cellslice (mkS (cb ++ tb) (cr ++ tr)) = Ok (VmSliceV bits refs, mkS tb tr) end.
Proof.
  unfold ser_cellslice. intros H.
  vs_bind H inner Hi. vs_bind Hi b0 Hb0. apply store_slice_eq in Hb0. subst b0. vs_shape Hi.
  vs_bind H b1 Hb1. vs_shape Hb1.
  vs_bind H b2 Hb2. apply store_uint_eq in Hb2. destruct Hb2 as (-> & _ & Hr2).
  vs_bind H b3 Hb3. apply store_uint_eq in Hb3. destruct Hb3 as (-> & _ & Hr3).
  vs_bind H b4 Hb4. apply store_uint_eq in Hb4. destruct Hb4 as (-> & _ & Hr4).
  vs_bind H b5 Hb5. apply store_uint_eq in Hb5. destruct Hb5 as (-> & _ & Hr5).
  vs_shape H. vs_norm. unfold dec_cellslice. cbn [s_load_ref s_refs s_bits bind].
  change (Z.to_nat 10) with 10%nat. change (Z.to_nat 3) with 3%nat.
  rewrite load_uint_app_n by (lia || exact Hr2). cbn [bind].
  rewrite load_uint_app_n by (lia || exact Hr3). cbn [bind].
  destruct (Z.ltb_spec (Z.of_nat (length bits)) 0) as [Hlt|_]; [lia|].
  rewrite load_uint_app_n by (lia || exact Hr4). cbn [bind].
  rewrite load_uint_app_n by (lia || exact Hr5). cbn [bind].
  destruct (Z.ltb_spec (Z.of_nat (length refs)) 0) as [Hlt|_]; [lia|].
  rewrite !slice_full. reflexivity.
Qed.

(* ------------------------------------------------------------------ *)
(* 5. tuples                                                           *)
(* ------------------------------------------------------------------ *)

Lemma list_snoc_cases {A} (l : list A) : l = [] \/ exists init last, l = init ++ [last].
Proof. destruct l as [|x l] using rev_ind; [left; reflexivity|right; eauto]. Qed.

Section TupleRT.
  Variable sv : vmval -> result cell.
  Variable dv : slice -> result (vmval * slice).

  Definition elem_rt (x : vmval) : Prop :=
    forall cx, sv x = Ok cx -> exists s', dv (begin_parse cx) = Ok (x, s').

  Lemma tuple_rt : forall n l c tb tr, (length l < n)%nat -> (forall x, In x l -> elem_rt x) ->
    ser_tuple_f sv n l = Ok c ->
    match c with Cell _ bits refs =>
      bits = [] /\ dec_tuple_f dv n (mkS tb (refs ++ tr)) (length l) = Ok (l, mkS tb tr) end.
  Proof.
    induction n as [|n IH]; intros l c tb tr Hlen Hel H; [lia|].
    destruct (list_snoc_cases l) as [->|(init & last & ->)].
    - cbn in H. injection H as <-. split; reflexivity.
    - cbn [ser_tuple_f] in H. rewrite rev_app_distr in H. cbn [rev app] in H.
      rewrite rev_involutive in H.
      rewrite app_length in Hlen |- *. cbn [length] in Hlen |- *.
      assert (Hlast : elem_rt last) by (apply Hel, in_or_app; right; left; reflexivity).
      vs_bind H cref Hcref. vs_bind H b1 Hb1. vs_bind H cl Hcl. vs_bind H b2 Hb2. vs_shape Hb2. vs_shape H.
      destruct (Hlast cl Hcl) as (sl & Hdl).
      destruct init as [|x [|y init']].
      + injection Hcref as <-. apply store_cell_eq in Hb1. subst b1. vs_norm.
        split; [reflexivity|]. cbn [length Nat.add dec_tuple_f bind s_load_ref s_refs s_bits].
        rewrite Hdl. reflexivity.
      + assert (Hx : elem_rt x) by (apply Hel; left; reflexivity).
        vs_bind Hcref cx Hcx. vs_bind Hcref b0 Hb0. vs_shape Hb0. vs_shape Hcref.
        apply store_cell_eq in Hb1. subst b1. vs_norm. split; [reflexivity|].
        destruct (Hx cx Hcx) as (sx & Hdx).
        cbn [length Nat.add dec_tuple_f bind s_load_ref s_refs s_bits].
        rewrite Hdx. cbn [bind s_load_ref s_refs s_bits]. rewrite Hdl. reflexivity.
      + vs_bind Hcref ct Hct. vs_bind Hcref b0 Hb0. vs_shape Hb0. vs_shape Hcref.
        apply store_cell_eq in Hb1. subst b1. vs_norm. split; [reflexivity|].
        assert (Hlen' : (length (x :: y :: init') < n)%nat) by (cbn [length] in *; lia).
        assert (Hel' : forall z, In z (x :: y :: init') -> elem_rt z)
          by (intros z Hz; apply Hel, in_or_app; left; exact Hz).
        specialize (IH (x :: y :: init') ct [] [] Hlen' Hel' Hct).
        destruct ct as [tt ctb ctr]. destruct IH as (-> & IH). rewrite app_nil_r in IH.
        replace (length (x :: y :: init') + 1)%nat with (S (length (x :: y :: init'))) by lia.
        cbn [dec_tuple_f]. cbn [length] in IH |- *.
        cbn [bind s_load_ref s_refs s_bits begin_parse].
        rewrite IH. cbn [bind s_load_ref s_refs s_bits]. rewrite Hdl. reflexivity.
  Qed.
End TupleRT.

(* ------------------------------------------------------------------ *)
(* 6. single values                                                    *)
(* ------------------------------------------------------------------ *)

Theorem value_roundtrip : forall v fuel c tb tr,
  (vm_depth v < fuel)%nat -> ser_value fuel v = Ok c ->
  match c with Cell _ bits refs => dec_value fuel (mkS (bits ++ tb) (refs ++ tr)) = Ok (v, mkS tb tr) end.
Proof.
  intros v fuel. revert v.
  induction fuel as [|f IH]; intros v c tb tr Hd H; [lia|].
  rewrite ser_value_S in H.
  destruct v as [|z|c0|bits refs|bits refs|l|k].
  - (* VmNull *)
    vs_bind H b Hb. vs_shape Hb. vs_shape H. vs_norm. apply dec_tag0.
  - (* VmInt *)
    destruct (is_tiny z).
    + vs_bind H b Hb. vs_shape Hb. vs_bind H b1 Hb1. apply store_int_eq in Hb1. destruct Hb1 as (-> & _ & Hr).
      vs_shape H. vs_norm. rewrite dec_tag1.
      change (Z.to_nat 64) with 64%nat. rewrite load_int_app_n by (lia || exact Hr). reflexivity.
    + vs_bind H b Hb. vs_shape Hb. vs_bind H b1 Hb1. apply store_int_eq in Hb1. destruct Hb1 as (-> & _ & Hr).
      vs_shape H. vs_norm. rewrite dec_tag_int257.
      change (Z.to_nat 257) with 257%nat. rewrite load_int_app_n by (lia || exact Hr). reflexivity.
  - (* VmCellV *)
    vs_bind H b Hb. vs_shape Hb. vs_bind H b1 Hb1. vs_shape Hb1. vs_shape H. vs_norm.
    rewrite dec_tag3. reflexivity.
  - (* VmSliceV *)
    vs_bind H b Hb. vs_shape Hb. vs_bind H cs Hcs. vs_bind H b1 Hb1.
    destruct cs as [t cb cr]. apply store_cell_eq in Hb1. subst b1. vs_shape H. vs_norm.
    rewrite dec_tag4. exact (cellslice_rt bits refs _ tb tr Hcs).
  - (* VmBuilderV *)
    vs_bind H b Hb. vs_shape Hb. vs_bind H c1 Hc1. vs_shape Hc1.
    vs_bind H b1 Hb1. vs_shape Hb1. vs_shape H. vs_norm.
    rewrite dec_tag5. reflexivity.
  - (* VmTupleV *)
    rewrite vm_depth_tuple in Hd.
    vs_bind H b Hb. vs_shape Hb. vs_bind H b1 Hb1. apply store_uint_eq in Hb1. destruct Hb1 as (-> & _ & Hr).
    vs_bind H ct Hct. vs_bind H b2 Hb2.
    assert (Hel : forall x, In x l -> elem_rt (ser_value f) (dec_value f) x).
    { intros x Hx cx Hcx. pose proof (vm_depth_list_in l x Hx) as Hdx.
      assert (Hdf : (vm_depth x < f)%nat) by lia.
      specialize (IH x cx [] [] Hdf Hcx). destruct cx as [t xb xr]. rewrite !app_nil_r in IH.
      eexists. exact IH. }
    pose proof (tuple_rt (ser_value f) (dec_value f) (S (length l)) l ct tb tr
                  ltac:(lia) Hel Hct) as Ht.
    destruct ct as [t cb cr]. destruct Ht as (-> & Ht).
    apply store_cell_eq in Hb2. subst b2. vs_shape H. vs_norm.
    rewrite dec_tag7. change (Z.to_nat 16) with 16%nat.
    rewrite load_uint_app_n by (lia || exact Hr). cbn [bind]. rewrite Nat2Z.id.
    rewrite Ht. reflexivity.
  - (* VmContV *)
    cbn [vm_depth] in Hd.
    vs_bind H b Hb. vs_shape Hb. vs_bind H ck Hck. vs_bind H b1 Hb1.
    pose proof (cont_roundtrip k f ck tb tr ltac:(lia) Hck) as Hk.
    destruct ck as [t cb cr]. apply store_cell_eq in Hb1. subst b1. vs_shape H. vs_norm.
    rewrite dec_tag6. rewrite Hk. reflexivity.
Qed.

(* ------------------------------------------------------------------ *)
(* 7. stack lists and stacks                                           *)
(* ------------------------------------------------------------------ *)

Theorem stack_list_chain : forall fuel vs v c, ser_stack_list fuel (v :: vs) = Ok c ->
  exists cr cv, ser_stack_list fuel vs = Ok cr /\ ser_value fuel v = Ok cv /\
    match cv with Cell _ vb vr => c = Cell ty_ordinary vb (cr :: vr) end.
Proof.
  intros fuel vs v c H. cbn [ser_stack_list] in H.
  vs_bind H cr Hcr. vs_bind H b1 Hb1. vs_shape Hb1. vs_bind H cv Hcv. vs_bind H b2 Hb2.
  exists cr, cv. split; [exact Hcr|]. split; [exact Hcv|].
  destruct cv as [t vb vr]. apply store_cell_eq in Hb2. subst b2. vs_shape H. vs_norm. reflexivity.
Qed.

Lemma stack_list_rt fuel : forall rl c, (forall v, In v rl -> (vm_depth v < fuel)%nat) ->
  ser_stack_list fuel rl = Ok c -> dec_stack_list fuel (length rl) (begin_parse c) = Ok (rev rl).
Proof.
  induction rl as [|top rest IH]; intros c Hd H.
  - reflexivity.
  - apply stack_list_chain in H. destruct H as (cr & cv & Hcr & Hcv & Hc).
    assert (Hdt : (vm_depth top < fuel)%nat) by (apply Hd; left; reflexivity).
    pose proof (value_roundtrip top fuel cv [] [] Hdt Hcv) as Hv.
    destruct cv as [t vb vr]. subst c. rewrite !app_nil_r in Hv.
    cbn [length dec_stack_list begin_parse s_load_ref s_refs s_bits bind rev].
    rewrite (IH cr) by (auto using in_cons). cbn [bind]. rewrite Hv. reflexivity.
Qed.

Theorem stack_roundtrip : forall vs fuel c,
  (vm_depth_list vs < fuel)%nat ->
  ser_stack fuel vs = Ok c -> dec_stack fuel (begin_parse c) = Ok vs.
Proof.
  intros vs fuel c Hd H. unfold ser_stack in H.
  vs_bind H b Hb. apply store_uint_eq in Hb. destruct Hb as (-> & _ & Hr).
  vs_bind H cl Hcl. vs_bind H b1 Hb1.
  apply stack_list_rt in Hcl.
  2:{ intros v Hv. apply in_rev in Hv. pose proof (vm_depth_list_in vs v Hv). lia. }
  destruct cl as [t lb lr]. apply store_cell_eq in Hb1. subst b1. vs_shape H. vs_norm_in Hcl.
  cbn [b_bits b_refs b_empty app begin_parse]. unfold dec_stack.
  change (Z.to_nat 24) with 24%nat. rewrite load_uint_app_n by (lia || exact Hr). cbn [bind].
  rewrite Nat2Z.id. rewrite rev_length, rev_involutive in Hcl. exact Hcl.
Qed.

(* ------------------------------------------------------------------ *)
(* 8. integer forms                                                    *)
(* ------------------------------------------------------------------ *)

Lemma zbit_length_abs z : zbit_length z = zbit_length (Z.abs z).
Proof. unfold zbit_length. destruct z; reflexivity. Qed.

Lemma is_tiny_spec z : is_tiny z = (- 2 ^ 63 <? z) && (z <? 2 ^ 63).
Proof.
  unfold is_tiny. rewrite zbit_length_abs.
  destruct (Z.eq_dec z 0) as [->|Hne]; [reflexivity|].
  assert (Hpos : 0 < Z.abs z) by lia.
  rewrite zbit_length_pos by exact Hpos.
  pose proof (Z.log2_lt_pow2 (Z.abs z) 63 Hpos) as Hl.
  destruct (Z.ltb_spec (Z.log2 (Z.abs z) + 1) 64) as [Hlt|Hge].
  - assert (Ha : Z.abs z < 2 ^ 63) by (apply Hl; lia). lia.
  - assert (Ha : ~ Z.abs z < 2 ^ 63) by (intros Ha; apply Hl in Ha; lia). lia.
Qed.

Lemma pow_63_256 : 2 ^ 63 < 2 ^ 256.
Proof. reflexivity. Qed.

Theorem int_form : forall z fuel c, ser_value (S fuel) (VmInt z) = Ok c ->
  (- 2 ^ 256 <= z < 2 ^ 256) /\
  match c with Cell _ bits refs =>
    refs = [] /\
    if (- 2 ^ 63 <? z) && (z <? 2 ^ 63) then bits = enc 8 1 ++ enc 64 z
    else bits = enc 15 256 ++ enc 257 z
  end.
Proof.
  intros z fuel c H. rewrite ser_value_S in H. rewrite <- is_tiny_spec.
  pose proof (is_tiny_spec z) as Ht. destruct (is_tiny z).
  - vs_bind H b Hb. vs_shape Hb. vs_bind H b1 Hb1. apply store_int_eq in Hb1. destruct Hb1 as (-> & _ & Hr).
    vs_shape H. vs_norm. split.
    + pose proof pow_63_256. lia.
    + split; reflexivity.
  - vs_bind H b Hb. vs_shape Hb. vs_bind H b1 Hb1. apply store_int_eq in Hb1. destruct Hb1 as (-> & _ & Hr).
    vs_shape H. vs_norm. apply in_int_iff in Hr. change (257 - 1) with 256 in Hr. split; [exact Hr|].
    split; [reflexivity|]. rewrite to_bits_enc. reflexivity.
Qed.
