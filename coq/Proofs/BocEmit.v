(* C04 proofs: Cell.order lists every reachable cell once, parents first; the bytes produced by
   Cell.to_boc are accepted by the strict decoder of Spec/BocFormat.v and decode to the same DAG. *)
From Coq Require Import NArith ZArith List Bool Lia ZifyBool ZifyNat ZifyN.
From PTQ Require Import Base.Result Base.Bytes Base.Bits Model.Cell Model.Crc Model.Boc
  Spec.Crc Spec.CellRepr Spec.BocFormat Spec.BocProps Proofs.CrcProofs Proofs.CellOrd.
Import ListNotations.
Local Open Scope N_scope.

Ltac Zify.zify_post_hook ::= Z.div_mod_to_equations.

(* ------------------------------------------------------------------ *)
(* 1. byte_len                                                         *)
(* ------------------------------------------------------------------ *)
Lemma pow256 w : 256 ^ N.of_nat w = 2 ^ (8 * N.of_nat w).
Proof. change 256 with (2 ^ 8). rewrite <- N.pow_mul_r. reflexivity. Qed.

Lemma byte_len_fits : forall n,
  n < 256 ^ N.of_nat (byte_len n) /\ (n <> 0 -> (1 <= byte_len n)%nat).
Proof.
  intro n. unfold byte_len. split.
  - rewrite pow256.
    apply N.lt_le_trans with (2 ^ N.size n); [apply N.size_gt|].
    apply N.pow_le_mono_r; [lia|].
    set (s := N.size n). lia.
  - intro Hn. assert (Hs : 1 <= N.size n) by (destruct n; [lia|cbn [N.size]; lia]).
    set (s := N.size n) in *. lia.
Qed.

Lemma size_le_of_lt n m : n < 2 ^ m -> N.size n <= m.
Proof.
  intro Hn. pose proof (N.size_le n) as Hs.
  assert (Hlt : 2 ^ N.size n < 2 ^ (N.succ m)).
  { rewrite N.pow_succ_r'. lia. }
  apply N.pow_lt_mono_r_iff in Hlt; lia.
Qed.

Lemma byte_len_le n w : n < 256 ^ N.of_nat w -> (byte_len n <= w)%nat.
Proof.
  rewrite pow256. intro Hn. apply size_le_of_lt in Hn. unfold byte_len.
  set (s := N.size n) in *. lia.
Qed.

(* ------------------------------------------------------------------ *)
(* 2. induction on constructed cells                                   *)
(* ------------------------------------------------------------------ *)
Section KCellInd.
  Variable P : kcell -> Prop.
  Hypothesis P_kcell : forall ty bits rs m hs ds, Forall P rs -> P (KCell ty bits rs m hs ds).

  Fixpoint kcell_ind' (c : kcell) : P c :=
    let 'KCell ty bits rs m hs ds := c in
    P_kcell ty bits rs m hs ds
      ((fix go (l : list kcell) : Forall P l :=
          match l with
          | [] => Forall_nil P
          | x :: xs => Forall_cons x (kcell_ind' x) (go xs)
          end) rs).
End KCellInd.

Lemma subcells_eq c : subcells c = c :: flat_map subcells (k_refs c).
Proof. destruct c; reflexivity. Qed.
Lemma subtrees_eq ty bits rs : subtrees (Cell ty bits rs) = Cell ty bits rs :: flat_map subtrees rs.
Proof. reflexivity. Qed.
Lemma k_tree_eq c : k_tree c = Cell (k_ty c) (k_bits c) (map k_tree (k_refs c)).
Proof. destruct c; reflexivity. Qed.

Lemma subcells_self c : In c (subcells c).
Proof. rewrite subcells_eq. left. reflexivity. Qed.

Lemma subcells_trans : forall c x y, In x (subcells c) -> In y (subcells x) -> In y (subcells c).
Proof.
  induction c as [ty bits rs m hs ds IH] using kcell_ind'. intros x y Hx Hy.
  rewrite subcells_eq in Hx. cbn [k_refs] in Hx. destruct Hx as [<-|Hx]; [exact Hy|].
  rewrite subcells_eq. cbn [k_refs]. right.
  apply in_flat_map in Hx. destruct Hx as (r & Hr & Hx).
  apply in_flat_map. exists r. split; [exact Hr|].
  rewrite Forall_forall in IH. exact (IH r Hr x y Hx Hy).
Qed.

Lemma subcells_ref c r : In r (k_refs c) -> In r (subcells c).
Proof.
  intro Hr. rewrite subcells_eq. right. apply in_flat_map. exists r. split; [exact Hr|apply subcells_self].
Qed.

Lemma subtrees_k_tree : forall c, subtrees (k_tree c) = map k_tree (subcells c).
Proof.
  induction c as [ty bits rs m hs ds IH] using kcell_ind'.
  rewrite subcells_eq, k_tree_eq. cbn [k_ty k_bits k_refs]. rewrite subtrees_eq. cbn [map]. f_equal.
  induction IH as [|r rs Hr _ IHrs]; [reflexivity|].
  cbn [map flat_map]. rewrite map_app, Hr, IHrs. reflexivity.
Qed.

(* size, for acyclicity *)
Fixpoint ksize (c : kcell) : nat :=
  let 'KCell _ _ rs _ _ _ := c in
  S ((fix go (l : list kcell) : nat := match l with [] => O | x :: xs => (ksize x + go xs)%nat end) rs).
Definition ksizes (l : list kcell) : nat := fold_right (fun x a => (ksize x + a)%nat) O l.
Lemma ksize_eq c : ksize c = S (ksizes (k_refs c)).
Proof.
  destruct c as [ty bits rs m hs ds]. reflexivity.
Qed.

Lemma ksizes_in r rs : In r rs -> (ksize r <= ksizes rs)%nat.
Proof.
  induction rs as [|a rs IH]; [intros []|]. cbn [ksizes fold_right]. fold (ksizes rs).
  intros [->|Hr]; [lia|]. specialize (IH Hr). lia.
Qed.

Lemma subcells_size : forall c x, In x (flat_map subcells (k_refs c)) -> (ksize x < ksize c)%nat.
Proof.
  induction c as [ty bits rs m hs ds IH] using kcell_ind'. intros x Hx. cbn [k_refs] in Hx.
  apply in_flat_map in Hx. destruct Hx as (r & Hr & Hx).
  rewrite Forall_forall in IH. specialize (IH r Hr).
  pose proof (ksizes_in r rs Hr) as Hle.
  rewrite (ksize_eq (KCell ty bits rs m hs ds)). cbn [k_refs].
  rewrite subcells_eq in Hx. destruct Hx as [<-|Hx]; [lia|].
  specialize (IH x Hx). lia.
Qed.

(* ------------------------------------------------------------------ *)
(* 3. what a successful build tells                                    *)
(* ------------------------------------------------------------------ *)
Section WithHash.
Variable H : list N -> list N.

Lemma mk_cell_shape ty bits refs k : mk_cell H ty bits refs = Ok k ->
  exists m hs ds d1 d2, k = KCell ty bits refs m hs ds /\
    refs_descriptor (length refs) (is_exotic ty) m = Ok d1 /\
    bits_descriptor (length bits) = Ok d2.
Proof.
  unfold mk_cell. intro Hk.
  destruct (resolve_mask ty bits refs) as [m|e]; [|discriminate].
  cbn [bind] in Hk.
  destruct (foldM _ _ _) as [[[hi hs] ds]|e]; [|discriminate].
  cbn [bind] in Hk.
  destruct (refs_descriptor (length refs) (is_exotic ty) m) as [d1|e] eqn:Hd1; [|discriminate].
  cbn [bind] in Hk.
  destruct (bits_descriptor (length bits)) as [d2|e] eqn:Hd2; [|discriminate].
  cbn [bind] in Hk.
  destruct hs as [|h hs]; [discriminate|].
  injection Hk as <-. exists m, (h :: hs), ds, d1, d2. auto.
Qed.

Lemma mapM'_Forall2 {A B} (f : A -> result B) : forall l l', mapM' f l = Ok l' ->
  Forall2 (fun x y => f x = Ok y) l l'.
Proof.
  induction l as [|x l IH]; intros l' Hm; cbn [mapM'] in Hm.
  - injection Hm as <-. constructor.
  - destruct (f x) as [y|e] eqn:Hy; [|discriminate]. cbn [bind] in Hm.
    destruct (mapM' f l) as [ys|e]; [|discriminate]. cbn [bind] in Hm.
    injection Hm as <-. constructor; [exact Hy|apply IH; reflexivity].
Qed.

Lemma Forall2_mapM' {A B} (f : A -> result B) : forall l l',
  Forall2 (fun x y => f x = Ok y) l l' -> mapM' f l = Ok l'.
Proof.
  induction 1 as [|x y l l' Hxy _ IH]; [reflexivity|].
  cbn [mapM']. rewrite Hxy, IH. reflexivity.
Qed.

Definition built (c : kcell) : Prop := build H (k_tree c) = Ok c.

Lemma build_sub : forall t k, build H t = Ok k ->
  k_tree k = t /\ forall c, In c (subcells k) -> built c.
Proof.
  induction t as [ty bits rs IH] using cell_ind'. intros k Hk.
  rewrite build_eq in Hk.
  destruct (mapM' (build H) rs) as [krefs|e] eqn:Hm; [|discriminate]. cbn [bind] in Hk.
  apply mapM'_Forall2 in Hm.
  destruct (mk_cell_shape _ _ _ _ Hk) as (m & hs & ds & d1 & d2 & -> & _ & _).
  assert (Ht : map k_tree krefs = rs).
  { clear Hk. induction Hm as [|r kr rs krs Hr _ IHm]; [reflexivity|].
    inversion IH as [|? ? IHr IHrs]; subst. cbn [map]. f_equal; [apply (IHr kr Hr)|apply IHm; exact IHrs]. }
  assert (Hroot : k_tree (KCell ty bits krefs m hs ds) = Cell ty bits rs).
  { rewrite k_tree_eq. cbn [k_ty k_bits k_refs]. rewrite Ht. reflexivity. }
  split; [exact Hroot|].
  intros c Hc. rewrite subcells_eq in Hc. cbn [k_refs] in Hc. destruct Hc as [<-|Hc].
  - unfold built. rewrite Hroot, build_eq, (Forall2_mapM' _ _ _ Hm). exact Hk.
  - apply in_flat_map in Hc. destruct Hc as (kr & Hkr & Hc).
    clear Hk Ht Hroot. induction Hm as [|r kr' rs krs Hr _ IHm]; [destruct Hkr|].
    inversion IH as [|? ? IHr IHrs]; subst.
    destruct Hkr as [->|Hkr]; [exact (proj2 (IHr kr Hr) c Hc)|exact (IHm IHrs Hkr)].
Qed.

Lemma built_inj a b : built a -> built b -> k_tree a = k_tree b -> a = b.
Proof. unfold built. intros Ha Hb E. rewrite E in Ha. rewrite Ha in Hb. injection Hb. auto. Qed.

Lemma built_desc c : built c ->
  exists d1 d2, refs_descriptor (length (k_refs c)) (is_exotic (k_ty c)) (k_mask c) = Ok d1 /\
                bits_descriptor (length (k_bits c)) = Ok d2.
Proof.
  unfold built. rewrite k_tree_eq, build_eq. intro Hb.
  destruct (mapM' (build H) (map k_tree (k_refs c))) as [krefs|e]; [|discriminate]. cbn [bind] in Hb.
  destruct (mk_cell_shape _ _ _ _ Hb) as (m & hs & ds & d1 & d2 & E & Hd1 & Hd2).
  destruct c as [ty bits rs m' hs' ds']. cbn [k_ty k_bits k_refs k_mask] in *.
  injection E as -> -> _ _. exists d1, d2. auto.
Qed.

End WithHash.

(* ------------------------------------------------------------------ *)
(* 4. the traversal                                                    *)
(* ------------------------------------------------------------------ *)
Fixpoint ord_go (rs p : list kcell) : list kcell :=
  match rs with [] => p | r :: rest => ord_visit r (ord_go rest p) end.

Lemma ord_visit_eq c post : ord_visit c post =
  if existsb (cell_eqb c) post then post else c :: ord_go (k_refs c) post.
Proof. destruct c as [ty bits rs m hs ds]. reflexivity. Qed.

Fixpoint topo (l : list kcell) : Prop :=
  match l with
  | [] => True
  | c :: r => (forall x, In x (k_refs c) -> In x r) /\ topo r
  end.

Lemma topo_closed : forall l, topo l -> forall c, In c l -> forall d, In d (subcells c) -> In d l.
Proof.
  induction l as [|a l IH]; intros Ht c Hc d Hd; [destruct Hc|].
  destruct Ht as [Hrefs Ht].
  destruct Hc as [->|Hc]; [|right; exact (IH Ht c Hc d Hd)].
  rewrite subcells_eq in Hd. destruct Hd as [<-|Hd]; [left; reflexivity|].
  right. apply in_flat_map in Hd. destruct Hd as (r & Hr & Hd).
  exact (IH Ht r (Hrefs r Hr) d Hd).
Qed.

Lemma topo_suffix : forall l1 l, topo (l1 ++ l) -> topo l.
Proof. induction l1 as [|a l1 IH]; intros l Ht; [exact Ht|]. destruct Ht as [_ Ht]. exact (IH l Ht). Qed.

Lemma topo_after l1 c l2 : topo (l1 ++ c :: l2) ->
  forall d, In d (flat_map subcells (k_refs c)) -> In d l2.
Proof.
  intros Ht d Hd. apply topo_suffix in Ht. destruct Ht as [Hrefs Ht].
  apply in_flat_map in Hd. destruct Hd as (r & Hr & Hd).
  exact (topo_closed l2 Ht r (Hrefs r Hr) d Hd).
Qed.

Section Order.
  Variable U : kcell -> Prop.
  Hypothesis U_refs : forall c, U c -> forall r, In r (k_refs c) -> U r.
  Hypothesis U_eq : forall a b, U a -> U b -> (cell_eqb a b = true <-> a = b).

  Definition good (l : list kcell) : Prop := NoDup l /\ topo l /\ forall x, In x l -> U x.

  Lemma existsb_in c post : U c -> (forall x, In x post -> U x) ->
    (existsb (cell_eqb c) post = true <-> In c post).
  Proof.
    intros Hc Hp. rewrite existsb_exists. split.
    - intros (x & Hx & He). apply (U_eq c x Hc (Hp x Hx)) in He. subst x. exact Hx.
    - intro Hin. exists c. split; [exact Hin|]. apply (U_eq c c Hc Hc). reflexivity.
  Qed.

  Definition visit_ok (c : kcell) : Prop :=
    U c -> forall post, good post ->
    exists new, ord_visit c post = new ++ post /\ good (new ++ post) /\ In c (new ++ post) /\
                (forall x, In x new -> In x (subcells c)).

  Lemma go_inv rs : Forall visit_ok rs -> (forall r, In r rs -> U r) ->
    forall post, good post ->
    exists new, ord_go rs post = new ++ post /\ good (new ++ post) /\
                (forall r, In r rs -> In r (new ++ post)) /\
                (forall x, In x new -> In x (flat_map subcells rs)).
  Proof.
    induction 1 as [|r rs Hr _ IH]; intros HU post Hg.
    - exists []. cbn [ord_go app]. split; [reflexivity|]. split; [exact Hg|].
      split; [intros r []|intros x []].
    - destruct (IH (fun x Hx => HU x (or_intror Hx)) post Hg) as (n1 & E1 & G1 & I1 & S1).
      destruct (Hr (HU r (or_introl eq_refl)) (n1 ++ post) G1) as (n2 & E2 & G2 & I2 & S2).
      exists (n2 ++ n1). cbn [ord_go]. rewrite E1, E2, <- app_assoc.
      split; [reflexivity|]. split; [exact G2|]. split.
      + intros x [<-|Hx]; [exact I2|]. apply in_or_app. right. exact (I1 x Hx).
      + intros x Hx. cbn [flat_map]. apply in_or_app. apply in_app_or in Hx.
        destruct Hx as [Hx|Hx]; [left; exact (S2 x Hx)|right; exact (S1 x Hx)].
  Qed.

  Lemma visit_inv : forall c, visit_ok c.
  Proof.
    induction c as [ty bits rs m hs ds IH] using kcell_ind'.
    set (c := KCell ty bits rs m hs ds). intros Hc post Hg.
    rewrite ord_visit_eq.
    destruct (existsb (cell_eqb c) post) eqn:Hex.
    - exists []. cbn [app]. split; [reflexivity|]. split; [exact Hg|].
      split; [|intros x []]. apply (existsb_in c post Hc); [apply Hg|exact Hex].
    - assert (Hnin : ~ In c post).
      { intro Hin. apply (existsb_in c post Hc) in Hin; [congruence|apply Hg]. }
      destruct (go_inv rs IH (U_refs c Hc) post Hg) as (n1 & E1 & G1 & I1 & S1).
      exists (c :: n1). change (k_refs c) with rs. rewrite E1. cbn [app].
      split; [reflexivity|]. destruct G1 as (Nd & Tp & Us).
      split; [|split].
      + split; [|split].
        * constructor; [|exact Nd]. intro Hin. apply in_app_or in Hin. destruct Hin as [Hin|Hin]; [|tauto].
          apply S1 in Hin. apply (subcells_size c) in Hin. lia.
        * split; [exact I1|exact Tp].
        * intros x [<-|Hx]; [exact Hc|exact (Us x Hx)].
      + left. reflexivity.
      + intros x [<-|Hx]; [apply subcells_self|]. rewrite subcells_eq. right. exact (S1 x Hx).
  Qed.
End Order.

Lemma order_props k :
  (forall a b, In a (subcells k) -> In b (subcells k) -> (cell_eqb a b = true <-> a = b)) ->
  NoDup (order k) /\ topo (order k) /\ (forall x, In x (order k) <-> In x (subcells k)) /\
  exists rest, order k = k :: rest.
Proof.
  intro Heq. set (U := fun c => In c (subcells k)).
  assert (U_refs : forall c, U c -> forall r, In r (k_refs c) -> U r).
  { intros c Hc r Hr. apply (subcells_trans k c r Hc). apply subcells_ref. exact Hr. }
  assert (G0 : good U []).
  { split; [constructor|]. split; [exact I|intros x []]. }
  destruct (visit_inv U U_refs Heq k (subcells_self k) [] G0) as (new & E & (Nd & Tp & Us) & Ik & Sk).
  unfold order. rewrite E in *. split; [exact Nd|]. split; [exact Tp|]. split.
  - intro x. split; [apply Us|]. intro Hx. exact (topo_closed _ Tp k Ik x Hx).
  - rewrite <- E, ord_visit_eq. cbn [existsb]. eexists. reflexivity.
Qed.

(* ------------------------------------------------------------------ *)
(* 5. tree equality                                                    *)
(* ------------------------------------------------------------------ *)
Lemma bits_eqb_eq : forall a b : list bool,
  (length a =? length b)%nat && forallb (fun p => Bool.eqb (fst p) (snd p)) (combine a b) = true -> a = b.
Proof.
  induction a as [|x a IH]; intros [|y b]; cbn [length combine forallb fst snd Nat.eqb andb]; try discriminate.
  - reflexivity.
  - intro Hb. apply andb_prop in Hb. destruct Hb as [Hl Hb]. apply andb_prop in Hb. destruct Hb as [Hxy Hb].
    apply eqb_prop in Hxy. subst y. f_equal. apply IH. rewrite Hl, Hb. reflexivity.
Qed.

Lemma tree_eqb_eq : forall a b, tree_eqb a b = true -> a = b.
Proof.
  induction a as [ta ba ra IH] using cell_ind'. intros [tb bb rb] He.
  cbn [tree_eqb] in He.
  apply andb_prop in He. destruct He as [He Hgo].
  apply andb_prop in He. destruct He as [He Hlr].
  rewrite <- andb_assoc in He.
  apply andb_prop in He. destruct He as [Hty Hbits].
  apply Z.eqb_eq in Hty. apply bits_eqb_eq in Hbits. subst tb bb. f_equal.
  clear Hlr. revert rb Hgo.
  induction IH as [|x ra Hx _ IHra]; intros [|y rb] Hgo; try discriminate; [reflexivity|].
  apply andb_prop in Hgo. destruct Hgo as [Hxy Hgo].
  f_equal; [exact (Hx y Hxy)|exact (IHra rb Hgo)].
Qed.

Lemma nodup_trees_map (U : kcell -> Prop) :
  (forall a b, U a -> U b -> k_tree a = k_tree b -> a = b) ->
  forall l, NoDup l -> (forall x, In x l -> U x) -> nodup_trees (map k_tree l) = true.
Proof.
  intros Hinj. induction 1 as [|a l Ha Hnd IH]; intro HU; [reflexivity|].
  cbn [map nodup_trees]. rewrite IH by (intros x Hx; apply HU; right; exact Hx).
  rewrite andb_true_r. apply negb_true_iff. apply not_true_is_false. intro Hex.
  apply existsb_exists in Hex. destruct Hex as (y & Hy & He).
  apply in_map_iff in Hy. destruct Hy as (b & <- & Hb).
  apply tree_eqb_eq in He. apply Hinj in He; [|apply HU; left; reflexivity|apply HU; right; exact Hb].
  subst b. exact (Ha Hb).
Qed.

(* ------------------------------------------------------------------ *)
(* 6. C04_order                                                        *)
(* ------------------------------------------------------------------ *)
Section OrderSpec.
Variable H : list N -> list N.

Lemma sub_eqb_eq t k : build H t = Ok k -> no_collision k ->
  forall a b, In a (subcells k) -> In b (subcells k) -> (cell_eqb a b = true <-> a = b).
Proof.
  intros Hb Hnc a b Ha Hb'. destruct (build_sub H t k Hb) as [_ Hsub]. split.
  - intro He. apply cell_eqb_iff in He. apply (Hnc a b Ha Hb') in He.
    exact (built_inj H a b (Hsub a Ha) (Hsub b Hb') He).
  - intros ->. apply cell_eqb_iff. reflexivity.
Qed.

Lemma nth_error_split_len {A} (l : list A) i x : nth_error l i = Some x ->
  exists l1 l2, l = l1 ++ x :: l2 /\ length l1 = i.
Proof. apply nth_error_split. Qed.

Lemma NoDup_after {A} (l1 l2 : list A) c d j : NoDup (l1 ++ c :: l2) -> In d l2 ->
  nth_error (l1 ++ c :: l2) j = Some d -> (length l1 < j)%nat.
Proof.
  intros Hnd Hd Hj.
  apply In_nth_error in Hd. destruct Hd as (j2 & Hj2).
  assert (Hj' : nth_error (l1 ++ c :: l2) (length l1 + S j2) = Some d).
  { rewrite nth_error_app2 by lia. replace (length l1 + S j2 - length l1)%nat with (S j2) by lia.
    exact Hj2. }
  rewrite NoDup_nth_error in Hnd.
  assert (E : j = (length l1 + S j2)%nat).
  { apply Hnd; [|congruence]. apply nth_error_Some. congruence. }
  lia.
Qed.

Theorem order_spec : forall t k, build H t = Ok k -> no_collision k ->
  let o := map k_tree (order k) in
  nodup_trees o = true /\
  (forall c, In c o <-> In c (subtrees t)) /\
  (forall i j ci cj, nth_error o i = Some ci -> nth_error o j = Some cj ->
     In cj (tl (subtrees ci)) -> (i < j)%nat) /\
  nth_error o 0 = Some t.
Proof.
  intros t k Hb Hnc o.
  pose proof (sub_eqb_eq t k Hb Hnc) as Heq.
  destruct (build_sub H t k Hb) as [Htree Hsub].
  destruct (order_props k Heq) as (Nd & Tp & Hin & (rest & Ehd)).
  assert (Hinj : forall a b, In a (subcells k) -> In b (subcells k) -> k_tree a = k_tree b -> a = b).
  { intros a b Ha Hb'. apply (built_inj H); auto. }
  split; [|split; [|split]].
  - apply (nodup_trees_map (fun c => In c (subcells k)) Hinj _ Nd). intros x Hx. apply Hin. exact Hx.
  - intro c. rewrite <- Htree, subtrees_k_tree. unfold o. rewrite !in_map_iff.
    split; intros (x & Ex & Hx); exists x; (split; [exact Ex|apply Hin; exact Hx]).
  - intros i j ci cj Hi Hj Hd. unfold o in Hi, Hj.
    rewrite nth_error_map in Hi, Hj.
    destruct (nth_error (order k) i) as [ki|] eqn:Eki; [|discriminate]. injection Hi as <-.
    destruct (nth_error (order k) j) as [kj|] eqn:Ekj; [|discriminate]. injection Hj as <-.
    rewrite subtrees_k_tree, subcells_eq in Hd. cbn [map tl] in Hd.
    apply in_map_iff in Hd. destruct Hd as (d & Ed & Hd).
    destruct (nth_error_split_len _ _ _ Eki) as (l1 & l2 & El & Hlen).
    rewrite El in Tp. pose proof (topo_after l1 ki l2 Tp d Hd) as Hd2.
    assert (d = kj).
    { apply Hinj; [| |exact Ed].
      - apply Hin. rewrite El. apply in_or_app. right. right. exact Hd2.
      - apply Hin. eapply nth_error_In. exact Ekj. }
    subst d. rewrite El in Nd, Ekj. rewrite <- Hlen. exact (NoDup_after l1 l2 ki kj j Nd Hd2 Ekj).
  - unfold o. rewrite Ehd. cbn [map nth_error]. rewrite Htree. reflexivity.
Qed.
End OrderSpec.

(* ------------------------------------------------------------------ *)
(* 7. bits <-> bytes, completion tag                                   *)
(* ------------------------------------------------------------------ *)
Lemma bytes_to_bits_cons x r : bytes_to_bits (x :: r) = to_bits 8 x ++ bytes_to_bits r.
Proof. reflexivity. Qed.

Lemma aligned_roundtrip : forall n l, length l = (8 * n)%nat ->
  bytes_to_bits (bits_to_bytes l) = l /\ length (bits_to_bytes l) = n /\ bytes_ok (bits_to_bytes l).
Proof.
  induction n as [|n IH]; intros l Hl.
  - destruct l; [|discriminate]. cbn [bits_to_bytes bytes_to_bits flat_map length].
    split; [reflexivity|]. split; [reflexivity|constructor].
  - destruct l as [|b7 [|b6 [|b5 [|b4 [|b3 [|b2 [|b1 [|b0 r]]]]]]]]; cbn [length] in Hl; try lia.
    rewrite bits_to_bytes_cons8. destruct (IH r ltac:(lia)) as (E1 & E2 & E3).
    rewrite bytes_to_bits_cons, E1. cbn [length]. rewrite E2.
    split; [|split; [reflexivity|]].
    + pose proof (to_bits_of_bits [b7; b6; b5; b4; b3; b2; b1; b0]) as Ht. cbn [length] in Ht.
      rewrite Ht. reflexivity.
    + constructor; [|exact E3]. exact (of_bits_bound [b7; b6; b5; b4; b3; b2; b1; b0]).
Qed.

Lemma s_pad_length bits : length (s_pad bits) = (8 * ((length bits + 7) / 8))%nat.
Proof.
  unfold s_pad. destruct (Nat.eqb_spec (length bits mod 8) 0) as [E|E].
  - lia.
  - rewrite !app_length, repeat_length. cbn [length]. lia.
Qed.

Lemma data_bytes_facts bits :
  bytes_to_bits (data_bytes bits) = s_pad bits /\
  length (data_bytes bits) = ((length bits + 7) / 8)%nat /\ bytes_ok (data_bytes bits).
Proof. rewrite data_bytes_pad. apply aligned_roundtrip. apply s_pad_length. Qed.

Fixpoint untag_drop (l : list bool) (k : nat) : option (list bool) :=
  match k with
  | O => None
  | S k' => match l with
            | true :: r => Some (rev r)
            | false :: r => untag_drop r k'
            | [] => None
            end
  end.

Lemma s_untag_eq bytes aug : s_untag bytes aug =
  let bits := bytes_to_bits bytes in
  if negb aug then Some bits
  else match rev bits with [] => None | _ :: _ => untag_drop (rev bits) 7 end.
Proof. reflexivity. Qed.

Lemma untag_drop_spec : forall k n r, (k < n)%nat ->
  untag_drop (repeat false k ++ true :: r) n = Some (rev r).
Proof.
  induction k as [|k IH]; intros n r Hn; (destruct n as [|n]; [lia|]).
  - reflexivity.
  - cbn [repeat app untag_drop]. apply IH. lia.
Qed.

Lemma rev_repeat_same {A} (x : A) k : rev (repeat x k) = repeat x k.
Proof.
  induction k as [|k IH]; [reflexivity|]. cbn [repeat rev]. rewrite IH.
  clear IH. induction k as [|k IH]; [reflexivity|]. cbn [repeat app]. rewrite IH. reflexivity.
Qed.

Lemma s_untag_data bits :
  s_untag (data_bytes bits) (negb (length bits mod 8 =? 0)%nat) = Some bits.
Proof.
  rewrite s_untag_eq. cbv zeta. destruct (data_bytes_facts bits) as (E & _ & _). rewrite E.
  rewrite negb_involutive. unfold s_pad.
  destruct (Nat.eqb_spec (length bits mod 8) 0) as [E0|E0]; [reflexivity|].
  assert (Er : rev (bits ++ [true] ++ repeat false (7 - length bits mod 8))
               = repeat false (7 - length bits mod 8) ++ true :: rev bits).
  { rewrite !rev_app_distr, rev_repeat_same, <- app_assoc. reflexivity. }
  rewrite Er. pose proof (untag_drop_spec (7 - length bits mod 8) 7 (rev bits) ltac:(lia)) as Hd.
  rewrite rev_involutive in Hd.
  destruct (repeat false (7 - length bits mod 8) ++ true :: rev bits); [discriminate|exact Hd].
Qed.

(* ------------------------------------------------------------------ *)
(* 8. take / take_uint / take_uints                                    *)
(* ------------------------------------------------------------------ *)
Lemma firstn_skipn_app {A} (a b : list A) :
  firstn (length a) (a ++ b) = a /\ skipn (length a) (a ++ b) = b.
Proof.
  induction a as [|x a [IH1 IH2]]; [split; reflexivity|].
  cbn [length app firstn skipn]. rewrite IH1, IH2. split; reflexivity.
Qed.

Lemma take_app n (a b : list N) : n = length a -> take n (a ++ b) = Some (a, b).
Proof.
  intros ->. unfold take. destruct (firstn_skipn_app a b) as [E1 E2]. rewrite E1, E2.
  rewrite app_length. destruct (Nat.ltb_spec (length a + length b) (length a)); [lia|reflexivity].
Qed.

Lemma take_0 (d : list N) : take 0 d = Some ([], d).
Proof. exact (take_app 0%nat [] d eq_refl). Qed.

Lemma take_uint_be w n r : n < 256 ^ N.of_nat w -> take_uint w (be_bytes w n ++ r) = Some (n, r).
Proof.
  intro Hn. unfold take_uint. rewrite take_app by (symmetry; apply be_bytes_length).
  rewrite of_be_be_bytes by exact Hn. reflexivity.
Qed.

Lemma take_uints_be w : forall xs r, Forall (fun x => x < 256 ^ N.of_nat w) xs ->
  take_uints (length xs) w (concat (map (be_bytes w) xs) ++ r) = Some (xs, r).
Proof.
  induction xs as [|x xs IH]; intros r Hx; [reflexivity|].
  inversion Hx as [|? ? Hx1 Hx2]; subst.
  cbn [length map concat take_uints]. rewrite <- app_assoc, take_uint_be by exact Hx1.
  rewrite IH by exact Hx2. reflexivity.
Qed.

(* ------------------------------------------------------------------ *)
(* 9. one serialized cell                                              *)
(* ------------------------------------------------------------------ *)
Lemma d1_fields nr e m : (nr <= 4)%nat ->
  let d1 := N.of_nat nr + 8 * b2n e + 32 * m in
  N.to_nat (N.land d1 7) = nr /\ N.testbit d1 3 = e /\ N.testbit d1 4 = false.
Proof.
  intros Hn d1.
  assert (Hb : b2n e <= 1) by (destruct e; cbn [b2n]; lia).
  split; [|split].
  - change 7 with (N.ones 3). rewrite N.land_ones. change (2 ^ 3) with 8. unfold d1. lia.
  - rewrite N.testbit_eqb. change (2 ^ 3) with 8. unfold d1. destruct e; cbn [b2n]; lia.
  - rewrite N.testbit_eqb. change (2 ^ 4) with 16. unfold d1. lia.
Qed.

Lemma refs_descriptor_inv nr e m d1 : refs_descriptor nr e m = Ok d1 ->
  d1 = N.of_nat nr + 8 * b2n e + 32 * m /\ d1 < 256.
Proof.
  unfold refs_descriptor, to_byte1.
  destruct (N.ltb_spec (N.of_nat nr + 8 * b2n e + 32 * m) 256) as [Hlt|]; [|discriminate].
  intro E. injection E as <-. split; [reflexivity|exact Hlt].
Qed.

Lemma bits_descriptor_inv blen d2 : bits_descriptor blen = Ok d2 ->
  d2 < 256 /\ N.to_nat ((d2 + 1) / 2) = ((blen + 7) / 8)%nat /\
  N.odd d2 = negb (blen mod 8 =? 0)%nat /\ (blen <= 1023)%nat.
Proof.
  unfold bits_descriptor, to_byte1.
  set (x := 2 * N.of_nat (blen / 8) + (if (blen mod 8 =? 0)%nat then 0 else 1)).
  destruct (N.ltb_spec x 256) as [Hlt|]; [|discriminate].
  intro E. injection E as <-. split; [exact Hlt|].
  unfold x in *. clear x.
  destruct (Nat.eqb_spec (blen mod 8) 0) as [E0|E0]; cbn [negb].
  - split; [lia|]. split; [|lia]. rewrite N.add_0_r, N.odd_mul, andb_false_l. reflexivity.
  - split; [lia|]. split; [|lia]. rewrite N.add_comm, N.odd_add_mul_2. reflexivity.
Qed.

Definition ser_bytes (c : kcell) (d1 d2 : N) (w : nat) (xs : list N) : list N :=
  [d1; d2] ++ data_bytes (k_bits c) ++ concat (map (be_bytes w) xs).

Definition shape_ok (c : kcell) : Prop :=
  (length (k_refs c) <= 4)%nat /\
  (k_ty c = (-1)%Z \/ (8 <= length (k_bits c))%nat /\ of_bits_signed (firstn 8 (k_bits c)) = k_ty c).

Lemma s_cell_ser c d1 d2 w xs rest :
  shape_ok c ->
  refs_descriptor (length (k_refs c)) (is_exotic (k_ty c)) (k_mask c) = Ok d1 ->
  bits_descriptor (length (k_bits c)) = Ok d2 ->
  length xs = length (k_refs c) -> Forall (fun x => x < 256 ^ N.of_nat w) xs ->
  s_cell (ser_bytes c d1 d2 w xs ++ rest) w
  = Some (mkSC (k_ty c) (k_bits c) xs (length (ser_bytes c d1 d2 w xs)), rest).
Proof.
  intros [Hnr Hty] Hd1 Hd2 Hlen Hxs.
  apply refs_descriptor_inv in Hd1. destruct Hd1 as [Ed1 _].
  destruct (d1_fields (length (k_refs c)) (is_exotic (k_ty c)) (k_mask c) Hnr) as (F1 & F2 & F3).
  cbv zeta in F1, F2, F3. rewrite <- Ed1 in F1, F2, F3.
  apply bits_descriptor_inv in Hd2. destruct Hd2 as (_ & G1 & G2 & _).
  destruct (data_bytes_facts (k_bits c)) as (_ & Dl & _).
  assert (Elen : length (ser_bytes c d1 d2 w xs)
                 = (length (ser_bytes c d1 d2 w xs ++ rest) - length rest)%nat).
  { rewrite app_length. lia. }
  rewrite Elen. unfold ser_bytes. rewrite <- !app_assoc. cbn [app].
  set (d := d1 :: d2 :: data_bytes (k_bits c) ++ concat (map (be_bytes w) xs) ++ rest).
  unfold s_cell. unfold d at 1. cbv beta iota zeta.
  rewrite F1, F2, F3.
  rewrite (proj2 (Nat.ltb_ge 4 (length (k_refs c))) ltac:(lia)). cbv beta iota.
  rewrite take_0. cbv beta iota.
  rewrite take_app by (rewrite G1, Dl; reflexivity). cbv beta iota.
  rewrite G2, s_untag_data. cbv beta iota.
  rewrite <- Hlen, take_uints_be by exact Hxs. cbv beta iota.
  unfold is_exotic. destruct Hty as [Ety|[Hl8 Ety]].
  - rewrite Ety. change ((-1 =? ty_ordinary)%Z) with true. cbn [negb andb]. reflexivity.
  - rewrite (proj2 (Nat.ltb_ge (length (k_bits c)) 8) Hl8), andb_false_r, Ety.
    destruct (negb (k_ty c =? ty_ordinary)%Z) eqn:Eex; [reflexivity|].
    apply negb_false_iff in Eex. apply Z.eqb_eq in Eex. rewrite Eex. reflexivity.
Qed.

(* ------------------------------------------------------------------ *)
(* 10. all cells of the bag                                            *)
(* ------------------------------------------------------------------ *)
Definition d1_of (c : kcell) : N :=
  N.of_nat (length (k_refs c)) + 8 * b2n (is_exotic (k_ty c)) + 32 * k_mask c.
Definition d2_of (c : kcell) : N :=
  2 * N.of_nat (length (k_bits c) / 8) + (if (length (k_bits c) mod 8 =? 0)%nat then 0 else 1).
Definition desc_ok (c : kcell) : Prop :=
  refs_descriptor (length (k_refs c)) (is_exotic (k_ty c)) (k_mask c) = Ok (d1_of c) /\
  bits_descriptor (length (k_bits c)) = Ok (d2_of c).

Lemma desc_ok_of c d1 d2 :
  refs_descriptor (length (k_refs c)) (is_exotic (k_ty c)) (k_mask c) = Ok d1 ->
  bits_descriptor (length (k_bits c)) = Ok d2 -> desc_ok c.
Proof.
  intros H1 H2. split.
  - rewrite H1. f_equal. apply refs_descriptor_inv in H1. apply H1.
  - rewrite H2. f_equal. unfold bits_descriptor, to_byte1 in H2.
    destruct (_ <? 256); [|discriminate]. injection H2 as <-. reflexivity.
Qed.

Section Bag.
  Variable o : list kcell.
  Variable w : nat.

  Definition pos (r : kcell) : N := match index_of r o 0 with Ok i => i | Err _ => 0 end.
  Definition xs_of (c : kcell) : list N := map pos (k_refs c).
  Definition ser (c : kcell) : list N := ser_bytes c (d1_of c) (d2_of c) w (xs_of c).
  Definition rec_of (c : kcell) : s_cellrec := mkSC (k_ty c) (k_bits c) (xs_of c) (length (ser c)).

  (* every reference of c is found in o *)
  Definition refs_found (c : kcell) : Prop :=
    forall r, In r (k_refs c) -> exists i, index_of r o 0 = Ok i /\ i < 256 ^ N.of_nat w.

  Lemma mapM_ok {A B} (f : A -> result B) (g : A -> B) l :
    (forall x, In x l -> f x = Ok (g x)) -> mapM f l = Ok (map g l).
  Proof.
    induction l as [|x l IH]; intro Hf; [reflexivity|].
    cbn [mapM map]. rewrite (Hf x (or_introl eq_refl)). cbn [bind].
    rewrite IH by (intros y Hy; apply Hf; right; exact Hy). reflexivity.
  Qed.

  Lemma cell_serialize_ok c : desc_ok c -> refs_found c -> cell_serialize c o w = Ok (ser c).
  Proof.
    intros [H1 H2] Hf. unfold cell_serialize. rewrite H1, H2. cbn [bind].
    rewrite (mapM_ok _ (fun r => be_bytes w (pos r))).
    - cbn [bind]. unfold ser, ser_bytes, xs_of. rewrite map_map. reflexivity.
    - intros r Hr. destruct (Hf r Hr) as (i & Hi & _). unfold pos. rewrite Hi. reflexivity.
  Qed.

  Definition cell_good (c : kcell) : Prop := shape_ok c /\ desc_ok c /\ refs_found c.

  Lemma xs_bound c : refs_found c -> Forall (fun x => x < 256 ^ N.of_nat w) (xs_of c).
  Proof.
    intro Hf. unfold xs_of. apply Forall_forall. intros x Hx. apply in_map_iff in Hx.
    destruct Hx as (r & <- & Hr). destruct (Hf r Hr) as (i & Hi & Hb). unfold pos. rewrite Hi. exact Hb.
  Qed.

  Lemma s_cell_good c rest : cell_good c -> s_cell (ser c ++ rest) w = Some (rec_of c, rest).
  Proof.
    intros (Hs & [H1 H2] & Hf). unfold ser, rec_of, ser.
    apply s_cell_ser; auto.
    - unfold xs_of. apply map_length.
    - apply xs_bound. exact Hf.
  Qed.

  Lemma s_cells_good : forall l rest, (forall c, In c l -> cell_good c) ->
    s_cells (length l) (concat (map ser l) ++ rest) w = Some (map rec_of l, rest).
  Proof.
    induction l as [|c l IH]; intros rest Hg; [reflexivity|].
    cbn [length map concat s_cells]. rewrite <- app_assoc.
    rewrite s_cell_good by (apply Hg; left; reflexivity).
    rewrite IH by (intros x Hx; apply Hg; right; exact Hx). reflexivity.
  Qed.

  Lemma ser_length c : desc_ok c -> (length (k_refs c) <= 4)%nat ->
    (2 <= length (ser c) <= 130 + 4 * w)%nat.
  Proof.
    intros [_ H2] Hn. apply bits_descriptor_inv in H2. destruct H2 as (_ & _ & _ & Hb).
    unfold ser, ser_bytes. rewrite !app_length. cbn [length].
    destruct (data_bytes_facts (k_bits c)) as (_ & Dl & _). rewrite Dl.
    assert (Hc : length (concat (map (be_bytes w) (xs_of c))) = (length (k_refs c) * w)%nat).
    { unfold xs_of. generalize (k_refs c). intro l. induction l as [|x l IHl]; [reflexivity|].
      cbn [map concat length]. rewrite app_length, be_bytes_length, IHl. lia. }
    rewrite Hc. split; [lia|].
    assert ((length (k_bits c) + 7) / 8 <= 128)%nat by lia. nia.
  Qed.

  Lemma ser_bytes_ok c : desc_ok c -> bytes_ok (ser c).
  Proof.
    intros [H1 H2]. apply refs_descriptor_inv in H1. apply bits_descriptor_inv in H2.
    unfold ser, ser_bytes, bytes_ok. cbn [app]. constructor; [apply H1|]. constructor; [apply H2|].
    apply Forall_app. split; [apply data_bytes_facts|].
    apply Forall_concat. apply Forall_forall. intros x Hx. apply in_map_iff in Hx.
    destruct Hx as (y & <- & _). apply be_bytes_ok.
  Qed.
End Bag.

(* ------------------------------------------------------------------ *)
(* 11. references point forward: s_refs_ok and s_trees                 *)
(* ------------------------------------------------------------------ *)
Section Forward.
  Variable U : kcell -> Prop.
  Hypothesis U_eq : forall a b, U a -> U b -> (cell_eqb a b = true <-> a = b).

  Lemma index_of_spec r : U r -> forall l a, (forall x, In x l -> U x) -> In r l ->
    exists i, index_of r l a = Ok (a + N.of_nat i) /\ nth_error l i = Some r.
  Proof.
    intro Hr. induction l as [|x l IH]; intros a HU Hin; [destruct Hin|].
    cbn [index_of]. destruct (cell_eqb r x) eqn:He.
    - apply (U_eq r x Hr (HU x (or_introl eq_refl))) in He. subst x.
      exists 0%nat. split; [f_equal; lia|reflexivity].
    - destruct Hin as [->|Hin].
      + assert (cell_eqb r r = true) by (apply (U_eq r r Hr Hr); reflexivity). congruence.
      + destruct (IH (a + 1) (fun y Hy => HU y (or_intror Hy)) Hin) as (i & Hi & Hn).
        exists (S i). split; [rewrite Hi; f_equal; lia|exact Hn].
  Qed.

  Variable o : list kcell.
  Variable w : nat.
  Hypothesis o_U : forall x, In x o -> U x.
  Hypothesis o_nd : NoDup o.
  Hypothesis o_topo : topo o.

  (* the references of the cell at position i are found at later positions *)
  Definition fwd (i : nat) (c : kcell) : Prop :=
    forall r, In r (k_refs c) ->
    exists j, index_of r o 0 = Ok (N.of_nat j) /\ (i < j)%nat /\ nth_error o j = Some r.

  Lemma fwd_at l1 c l2 : o = l1 ++ c :: l2 -> fwd (length l1) c.
  Proof.
    intros Eo r Hr.
    pose proof o_topo as Tp. rewrite Eo in Tp. apply topo_suffix in Tp. destruct Tp as [Hrefs _].
    specialize (Hrefs r Hr).
    assert (Hin : In r o) by (rewrite Eo; apply in_or_app; right; right; exact Hrefs).
    destruct (index_of_spec r (o_U r Hin) o 0 o_U Hin) as (j & Hj & Hn).
    exists j. split; [exact Hj|]. split; [|exact Hn].
    pose proof o_nd as Nd. rewrite Eo in Nd, Hn. exact (NoDup_after l1 l2 c r j Nd Hrefs Hn).
  Qed.

  Lemma pos_fwd r j : index_of r o 0 = Ok (N.of_nat j) -> pos o r = N.of_nat j.
  Proof. intro Hj. unfold pos. rewrite Hj. reflexivity. Qed.

  Lemma refs_ok_suffix : forall suf pre, o = pre ++ suf ->
    s_refs_ok (map (rec_of o w) suf) (N.of_nat (length pre)) (N.of_nat (length o)) = true.
  Proof.
    induction suf as [|c suf IH]; intros pre Eo; [reflexivity|].
    cbn [map s_refs_ok]. apply andb_true_intro. split.
    - cbn [rec_of sc_refs]. unfold xs_of. apply forallb_forall. intros x Hx.
      apply in_map_iff in Hx. destruct Hx as (r & <- & Hr).
      destruct (fwd_at pre c suf Eo r Hr) as (j & Hj & Hlt & Hn).
      rewrite (pos_fwd r j Hj).
      assert (j < length o)%nat by (apply nth_error_Some; congruence). lia.
    - replace (N.of_nat (length pre) + 1) with (N.of_nat (length (pre ++ [c])))
        by (rewrite app_length; cbn [length]; lia).
      apply IH. rewrite <- app_assoc. exact Eo.
  Qed.

  Lemma trees_suffix : forall suf pre, o = pre ++ suf ->
    s_trees (map (rec_of o w) suf) (length pre) = map k_tree suf.
  Proof.
    induction suf as [|c suf IH]; intros pre Eo; [reflexivity|].
    cbn [map s_trees].
    assert (Eb : s_trees (map (rec_of o w) suf) (S (length pre)) = map k_tree suf).
    { replace (S (length pre)) with (length (pre ++ [c])) by (rewrite app_length; cbn [length]; lia).
      apply IH. rewrite <- app_assoc. exact Eo. }
    rewrite Eb. f_equal. rewrite (k_tree_eq c). cbn [rec_of sc_ty sc_bits sc_refs]. f_equal.
    unfold xs_of. rewrite map_map. apply map_ext_in. intros r Hr.
    destruct (fwd_at pre c suf Eo r Hr) as (j & Hj & Hlt & Hn).
    rewrite (pos_fwd r j Hj), Nat2N.id.
    rewrite Eo in Hn. rewrite nth_error_app2 in Hn by lia.
    replace (j - length pre)%nat with (S (j - S (length pre))) in Hn by lia. cbn [nth_error] in Hn.
    apply (map_nth_error k_tree) in Hn. apply nth_error_nth. exact Hn.
  Qed.

  Lemma refs_found_all c : In c o -> N.of_nat (length o) < 256 ^ N.of_nat w -> refs_found o w c.
  Proof.
    intros Hc Hlen r Hr. apply in_split in Hc. destruct Hc as (l1 & l2 & Eo).
    destruct (fwd_at l1 c l2 Eo r Hr) as (j & Hj & _ & Hn).
    exists (N.of_nat j). split; [exact Hj|].
    assert (j < length o)%nat by (apply nth_error_Some; congruence). lia.
  Qed.
End Forward.

(* ------------------------------------------------------------------ *)
(* 12. the offset index                                                *)
(* ------------------------------------------------------------------ *)
Fixpoint entries (cache : bool) (acc : N) (sers : list (list N)) : list N :=
  match sers with
  | [] => []
  | s :: r => let acc' := acc + N.of_nat (length s) in
              (if cache then acc' * 2 else acc') :: entries cache acc' r
  end.

Lemma index_fold pw (cache : bool) : forall sers acc out,
  fold_left (fun '((acc, out) : N * list (list N)) (s : list N) =>
               let acc' := acc + N.of_nat (length s) in
               (acc', out ++ [be_bytes pw (if cache then acc' * 2 else acc')])) sers (acc, out)
  = (acc + N.of_nat (length (concat sers)), out ++ map (be_bytes pw) (entries cache acc sers)).
Proof.
  induction sers as [|s r IH]; intros acc out.
  - cbn [fold_left concat length entries map]. rewrite app_nil_r. f_equal. lia.
  - cbn [fold_left]. rewrite IH. cbn [concat entries map]. rewrite app_length, <- app_assoc.
    cbn [app]. f_equal. lia.
Qed.

Lemma entries_length cache : forall sers acc, length (entries cache acc sers) = length sers.
Proof. induction sers as [|s r IH]; intro acc; [reflexivity|]. cbn [entries length]. rewrite IH. reflexivity. Qed.

Lemma entries_bound cache : forall sers acc x, In x (entries cache acc sers) ->
  x <= (if cache then (acc + N.of_nat (length (concat sers))) * 2 else acc + N.of_nat (length (concat sers))).
Proof.
  induction sers as [|s r IH]; intros acc x Hx; [destruct Hx|].
  cbn [entries] in Hx. cbn [concat]. rewrite app_length. destruct Hx as [<-|Hx].
  - destruct cache; lia.
  - apply IH in Hx. destruct cache; lia.
Qed.

Lemma index_ok_entries o w cache : forall l acc,
  s_index_ok (map (rec_of o w) l) (entries cache acc (map (ser o w) l)) acc cache = true.
Proof.
  induction l as [|c l IH]; intro acc; [reflexivity|].
  cbn [map entries s_index_ok]. cbn [rec_of sc_len]. rewrite IH, andb_true_r.
  apply N.eqb_eq. destruct cache; [|reflexivity].
  rewrite N.shiftr_div_pow2. change (2 ^ 1) with 2. apply N.div_mul. lia.
Qed.

(* ------------------------------------------------------------------ *)
(* 13. the strict parser on an emitted frame                           *)
(* ------------------------------------------------------------------ *)
Lemma pow256_ge w : (1 <= w)%nat -> 256 <= 256 ^ N.of_nat w.
Proof.
  intro Hw. change 256 with (256 ^ 1) at 1. apply N.pow_le_mono_r; lia.
Qed.

Lemma s_parse_reach fb offb w pw (idx crc cache : bool) n plen ents recs payload tl :
  N.testbit fb 7 = idx -> N.testbit fb 6 = crc -> N.testbit fb 5 = cache ->
  N.testbit fb 4 = false -> N.testbit fb 3 = false -> N.to_nat (fb mod 8) = w ->
  N.to_nat offb = pw ->
  (1 <= w <= 4)%nat -> (1 <= pw <= 8)%nat -> implb cache idx = true ->
  1 <= n -> n < 256 ^ N.of_nat w -> plen < 256 ^ N.of_nat pw -> N.to_nat plen = length payload ->
  (if idx then length ents = N.to_nat n /\ Forall (fun x => x < 256 ^ N.of_nat pw) ents else ents = []) ->
  s_cells (N.to_nat n) payload w = Some (recs, []) ->
  let d := boc_magic ++ fb :: offb :: be_bytes w n ++ be_bytes w 1 ++ be_bytes w 0 ++ be_bytes pw plen
           ++ be_bytes w 0 ++ concat (map (be_bytes pw) ents) ++ payload ++ tl in
  (if crc then beqb tl (s_crc32c (firstn (length d - 4) d) false) && (length tl =? 4)%nat
   else (length tl =? 0)%nat) = true ->
  s_parse d = Some (mkSB idx crc cache w pw recs [0] ents).
Proof.
  intros T7 T6 T5 T4 T3 Hw Hoff Wr Pr Himp Hn1 Hnw Hpl Hplen Hents Hcells d Hcrc.
  pose proof (pow256_ge w ltac:(lia)) as Hw256.
  assert (Ht : take 4 d = Some (boc_magic, fb :: offb :: be_bytes w n ++ be_bytes w 1 ++ be_bytes w 0
             ++ be_bytes pw plen ++ be_bytes w 0 ++ concat (map (be_bytes pw) ents) ++ payload ++ tl)).
  { apply take_app. reflexivity. }
  unfold s_parse. rewrite Ht. cbv beta iota zeta.
  change (beqb boc_magic s_magic_reach) with true. cbv beta iota.
  rewrite T7, T6, T5, T4, T3, Hw, Hoff.
  change (negb (true || (beqb boc_magic s_magic_idx || beqb boc_magic s_magic_idx_crc))) with false.
  cbv beta iota.
  assert (Hc : negb (negb false && negb false) || (w <? 1)%nat || (4 <? w)%nat
     || (pw <? 1)%nat || (8 <? pw)%nat || cache && negb idx = false).
  { destruct cache, idx; try discriminate Himp; cbn [negb andb orb]; lia. }
  rewrite Hc. clear Hc.
  rewrite (take_uint_be w n) by exact Hnw.
  rewrite (take_uint_be w 1) by lia.
  rewrite (take_uint_be w 0) by lia.
  rewrite (take_uint_be pw plen) by exact Hpl.
  change (N.to_nat 1) with 1%nat. cbn [take_uints].
  rewrite (take_uint_be w 0) by lia.
  assert (Hidx : (if idx then take_uints (N.to_nat n) pw (concat (map (be_bytes pw) ents) ++ payload ++ tl)
                  else Some ([], concat (map (be_bytes pw) ents) ++ payload ++ tl))
                 = Some (ents, payload ++ tl)).
  { destruct idx.
    - destruct Hents as [Hl Hf]. rewrite <- Hl. apply take_uints_be. exact Hf.
    - rewrite Hents. reflexivity. }
  rewrite Hidx. rewrite (take_app (N.to_nat plen) payload tl Hplen).
  rewrite Hcells, Hcrc.
  rewrite (proj2 (N.leb_le (1 + 0) n)) by lia. reflexivity.
Qed.

Lemma flags_fields (idx crc cache : bool) w : (1 <= w <= 3)%nat ->
  let fb := N.lor (128 * b2n idx + 64 * b2n crc + 32 * b2n cache + N.of_nat w) (N.of_nat w) in
  fb < 256 /\ N.testbit fb 7 = idx /\ N.testbit fb 6 = crc /\ N.testbit fb 5 = cache /\
  N.testbit fb 4 = false /\ N.testbit fb 3 = false /\ N.to_nat (fb mod 8) = w.
Proof.
  intro Hw. assert (Hc : w = 1%nat \/ w = 2%nat \/ w = 3%nat) by lia.
  destruct Hc as [->|[->| ->]]; destruct idx, crc, cache; vm_compute; repeat split; reflexivity.
Qed.

Lemma shape_of_wf : forall c, boc_wf (k_tree c) = true -> forall x, In x (subcells c) -> shape_ok x.
Proof.
  induction c as [ty bits rs m hs ds IH] using kcell_ind'. intros Hwf x Hx.
  rewrite k_tree_eq in Hwf. cbn [k_ty k_bits k_refs boc_wf] in Hwf.
  apply andb_prop in Hwf. destruct Hwf as [Hwf Hrs]. apply andb_prop in Hwf. destruct Hwf as [Hlen Hty].
  rewrite subcells_eq in Hx. cbn [k_refs] in Hx. destruct Hx as [<-|Hx].
  - unfold shape_ok. cbn [k_refs k_ty k_bits]. rewrite map_length in Hlen. apply Nat.leb_le in Hlen.
    split; [exact Hlen|]. apply orb_prop in Hty. destruct Hty as [Hty|Hty].
    + left. apply Z.eqb_eq in Hty. exact Hty.
    + right. apply andb_prop in Hty. destruct Hty as [H8 Hty]. apply Nat.leb_le in H8.
      apply Z.eqb_eq in Hty. auto.
  - apply in_flat_map in Hx. destruct Hx as (r & Hr & Hx).
    rewrite Forall_forall in IH. apply (IH r Hr); [|exact Hx].
    rewrite forallb_forall in Hrs. apply Hrs. apply in_map. exact Hr.
Qed.

Definition frame (fb off : N) (w pw : nat) (n plen : N) (ents payload tl : list N) : list N :=
  boc_magic ++ fb :: off :: be_bytes w n ++ be_bytes w 1 ++ be_bytes w 0 ++ be_bytes pw plen
  ++ be_bytes w 0 ++ concat (map (be_bytes pw) ents) ++ payload ++ tl.

Lemma frame_app fb off w pw n plen ents payload tl :
  frame fb off w pw n plen ents payload [] ++ tl = frame fb off w pw n plen ents payload tl.
Proof.
  unfold frame. rewrite app_nil_r. rewrite <- !app_assoc. cbn [app]. rewrite <- !app_assoc. reflexivity.
Qed.

Lemma frame_ok fb off w pw n plen ents payload :
  fb < 256 -> off < 256 -> bytes_ok payload ->
  bytes_ok (frame fb off w pw n plen ents payload []).
Proof.
  intros Hfb Hoff Hp. unfold frame, bytes_ok. rewrite app_nil_r.
  apply Forall_app. split; [unfold boc_magic; repeat constructor; lia|].
  constructor; [exact Hfb|]. constructor; [exact Hoff|].
  repeat (apply Forall_app; split; [apply be_bytes_ok|]).
  apply Forall_app. split; [|exact Hp].
  apply Forall_concat. apply Forall_forall. intros x Hx. apply in_map_iff in Hx.
  destruct Hx as (y & <- & _). apply be_bytes_ok.
Qed.

Lemma concat_length_le {A} (f : A -> list N) B : forall l, (forall x, In x l -> (length (f x) <= B)%nat) ->
  (length (concat (map f l)) <= length l * B)%nat.
Proof.
  induction l as [|x l IH]; intro Hb; [cbn; lia|].
  cbn [map concat length]. rewrite app_length.
  specialize (Hb x (or_introl eq_refl)) as Hx.
  specialize (IH (fun y Hy => Hb y (or_intror Hy))). lia.
Qed.

Lemma concat_length_in {A} (f : A -> list N) x : forall l, In x l ->
  (length (f x) <= length (concat (map f l)))%nat.
Proof.
  induction l as [|y l IH]; intro Hx; [destruct Hx|].
  cbn [map concat]. rewrite app_length. destruct Hx as [->|Hx]; [lia|]. specialize (IH Hx). lia.
Qed.

Lemma beqb_refl l : beqb l l = true.
Proof. exact (proj2 (bytes_eqb_eq l l) eq_refl). Qed.

Section Conforms.
Variable H : list N -> list N.

Lemma to_boc_conforms_strong : forall t k idx crc cache,
  build H t = Ok k -> boc_wf t = true -> no_collision k -> implb cache idx = true ->
  N.of_nat (length (order k)) < 2 ^ 24 ->
  exists d, to_boc k idx crc cache = Ok d /\ bytes_ok d /\
    s_decode d = Some [t] /\
    exists cs, s_all_cells d = Some cs /\ nodup_trees cs = true /\ (forall c, In c cs <-> In c (subtrees t)).
Proof.
  intros t k idx crc cache Hb Hwf Hnc Himp Hsz.
  pose proof (sub_eqb_eq H t k Hb Hnc) as Heq.
  destruct (build_sub H t k Hb) as [Htree Hsub].
  destruct (order_props k Heq) as (Nd & Tp & Hin & (rest & Ehd)).
  destruct (order_spec H t k Hb Hnc) as (Sp1 & Sp2 & _ & _).
  set (U := fun c => In c (subcells k)).
  set (o := order k) in *. set (n := N.of_nat (length o)) in *. set (w := byte_len n).
  assert (Hn1 : 1 <= n) by (unfold n; rewrite Ehd; cbn [length]; lia).
  destruct (byte_len_fits n) as [Hnw Hw1]. fold w in Hnw, Hw1. specialize (Hw1 ltac:(lia)).
  assert (Hw3 : (w <= 3)%nat) by (apply byte_len_le; exact Hsz).
  assert (oU : forall x, In x o -> U x) by (intros x Hx; apply Hin; exact Hx).
  assert (Hgood : forall c, In c o -> cell_good o w c).
  { intros c Hc. split; [|split].
    - apply (shape_of_wf k); [rewrite Htree; exact Hwf|apply Hin; exact Hc].
    - destruct (built_desc H c (Hsub c (oU c Hc))) as (d1 & d2 & D1 & D2). exact (desc_ok_of c d1 d2 D1 D2).
    - exact (refs_found_all U Heq o w oU Nd Tp c Hc Hnw). }
  set (sers := map (ser o w) o).
  assert (Hsers : mapM (fun x => cell_serialize x o w) o = Ok sers).
  { apply mapM_ok. intros c Hc. destruct (Hgood c Hc) as (_ & Hd & Hf). apply cell_serialize_ok; assumption. }
  set (payload := concat sers). set (plen := N.of_nat (length payload)).
  assert (Hpl_lo : (2 <= length payload)%nat).
  { assert (Hk : In k o) by (rewrite Ehd; left; reflexivity).
    destruct (Hgood k Hk) as ((Hr4 & _) & Hd & _). pose proof (ser_length o w k Hd Hr4).
    pose proof (concat_length_in (ser o w) k o Hk). unfold payload, sers. lia. }
  assert (Hpl_hi : (length payload <= length o * 142)%nat).
  { unfold payload, sers. apply concat_length_le. intros c Hc.
    destruct (Hgood c Hc) as ((Hr4 & _) & Hd & _). pose proof (ser_length o w c Hd Hr4). lia. }
  assert (Hpok : bytes_ok payload).
  { unfold payload, sers, bytes_ok. apply Forall_concat. apply Forall_forall. intros x Hx.
    apply in_map_iff in Hx. destruct Hx as (c & <- & Hc). apply ser_bytes_ok. apply (Hgood c Hc). }
  set (maxoff := if cache then plen * 2 else plen).
  set (pw := byte_len maxoff).
  assert (Hmax : plen <= maxoff /\ maxoff <= 2 * plen) by (unfold maxoff; destruct cache; lia).
  destruct (byte_len_fits maxoff) as [Hmw Hpw1]. fold pw in Hmw, Hpw1.
  specialize (Hpw1 ltac:(unfold plen in Hmax; lia)).
  assert (Hpw8 : (pw <= 8)%nat).
  { apply byte_len_le. change (256 ^ N.of_nat 8) with 18446744073709551616.
    change (2 ^ 24) with 16777216 in Hsz. unfold plen, n in *. lia. }
  set (fb := N.lor (128 * b2n idx + 64 * b2n crc + 32 * b2n cache + N.of_nat w) (N.of_nat w)).
  destruct (flags_fields idx crc cache w ltac:(lia)) as (F0 & F7 & F6 & F5 & F4 & F3 & Fw). fold fb in F0, F7, F6, F5, F4, F3, Fw.
  set (ents := if idx then entries cache 0 sers else []).
  set (body := frame fb (N.of_nat pw) w pw n plen ents payload []).
  set (tl := if crc then s_crc32c body false else []).
  set (d := frame fb (N.of_nat pw) w pw n plen ents payload tl).
  assert (Hbok : bytes_ok body) by (apply frame_ok; [exact F0|lia|exact Hpok]).
  assert (Hboc : to_boc k idx crc cache = Ok d).
  { unfold to_boc. cbv zeta. fold o. fold n. fold w. fold fb.
    unfold to_byte1 at 1. rewrite (proj2 (N.ltb_lt fb 256) F0). cbn [bind].
    rewrite Hsers. cbn [bind]. fold payload. fold plen. fold maxoff. fold pw.
    unfold to_byte1. rewrite (proj2 (N.ltb_lt (N.of_nat pw) 256) ltac:(lia)). cbn [bind].
    rewrite index_fold. cbn [snd app].
    assert (Ebody : (boc_magic ++ fb :: N.of_nat pw :: be_bytes w n ++ be_bytes w 1 ++ be_bytes w 0
                     ++ be_bytes pw plen ++ be_bytes w 0)
                    ++ (if idx then concat (map (be_bytes pw) (entries cache 0 sers)) else []) ++ payload
                    = body).
    { unfold body, frame, ents. rewrite app_nil_r. rewrite <- !app_assoc. cbn [app].
      rewrite <- !app_assoc. destruct idx; reflexivity. }
    rewrite Ebody. f_equal. unfold d. rewrite <- frame_app. fold body. unfold tl.
    destruct crc; [|rewrite app_nil_r; reflexivity].
    rewrite (crc32c_correct body false Hbok). reflexivity. }
  set (recs := map (rec_of o w) o).
  assert (Hparse : s_parse d = Some (mkSB idx crc cache w pw recs [0] ents)).
  { assert (P1 : (1 <= w <= 4)%nat) by lia.
    assert (P2 : (1 <= pw <= 8)%nat) by lia.
    assert (P3 : plen < 256 ^ N.of_nat pw) by lia.
    assert (P4 : N.to_nat plen = length payload) by (unfold plen; apply Nat2N.id).
    assert (P5 : if idx then length ents = N.to_nat n /\ Forall (fun x => x < 256 ^ N.of_nat pw) ents
                 else ents = []).
    { unfold ents. destruct idx; [|reflexivity]. split.
      + rewrite entries_length. unfold sers, n. rewrite map_length, Nat2N.id. reflexivity.
      + apply Forall_forall. intros x Hx. apply entries_bound in Hx. fold payload in Hx.
        rewrite N.add_0_l in Hx. fold plen in Hx. fold maxoff in Hx. lia. }
    assert (P6 : s_cells (N.to_nat n) payload w = Some (recs, [])).
    { unfold n. rewrite Nat2N.id. unfold recs.
      pose proof (s_cells_good o w o [] Hgood) as Hc. rewrite app_nil_r in Hc. exact Hc. }
    assert (P7 : (if crc then beqb tl (s_crc32c (firstn (length d - 4) d) false) && (length tl =? 4)%nat
                  else (length tl =? 0)%nat) = true).
    { unfold tl. destruct crc; [|reflexivity].
      assert (Ed : d = body ++ s_crc32c body false).
      { unfold d, tl. rewrite <- frame_app. reflexivity. }
      assert (El : length (s_crc32c body false) = 4%nat) by (unfold s_crc32c; apply le_bytes_length).
      rewrite El, andb_true_r.
      replace (firstn (length d - 4) d) with body; [apply beqb_refl|].
      rewrite Ed, app_length, El. replace (length body + 4 - 4)%nat with (length body) by lia.
      symmetry. apply firstn_skipn_app. }
    exact (s_parse_reach fb (N.of_nat pw) w pw idx crc cache n plen ents recs payload tl
             F7 F6 F5 F4 F3 Fw (Nat2N.id pw) P1 P2 Himp Hn1 Hnw P3 P4 P5 P6 P7). }
  assert (Hvalid : s_valid (mkSB idx crc cache w pw recs [0] ents) = true).
  { unfold s_valid. cbn [sb_cells sb_roots sb_has_idx sb_index sb_has_cache].
    assert (Hlr : N.of_nat (length recs) = n) by (unfold recs, n; rewrite map_length; reflexivity).
    rewrite Hlr.
    pose proof (refs_ok_suffix U Heq o w oU Nd Tp o [] eq_refl) as Hr. cbn [length] in Hr.
    change (N.of_nat 0) with 0 in Hr. fold n in Hr. fold recs in Hr. rewrite Hr.
    cbn [forallb]. rewrite (proj2 (N.ltb_lt 0 n)) by lia. cbn [andb].
    unfold ents. destruct idx; [|reflexivity]. apply index_ok_entries. }
  assert (Htrees : s_trees recs 0 = map k_tree o).
  { exact (trees_suffix U Heq o w oU Nd Tp o [] eq_refl). }
  assert (Hdok : bytes_ok d).
  { unfold d. rewrite <- frame_app. fold body. apply Forall_app. split; [exact Hbok|].
    unfold tl. destruct crc; [unfold s_crc32c; apply le_bytes_ok|constructor]. }
  exists d. split; [exact Hboc|]. split; [exact Hdok|]. split.
  - unfold s_decode. rewrite Hparse, Hvalid. cbn [sb_cells sb_roots]. rewrite Htrees.
    cbn [map]. rewrite Ehd. cbn [map nth N.to_nat]. rewrite Htree. reflexivity.
  - exists (map k_tree o). split; [|split].
    + unfold s_all_cells. rewrite Hparse, Hvalid. cbn [sb_cells]. rewrite Htrees. reflexivity.
    + exact Sp1.
    + exact Sp2.
Qed.

Theorem to_boc_conforms : forall t k idx crc cache,
  build H t = Ok k -> boc_wf t = true -> no_collision k -> implb cache idx = true ->
  N.of_nat (length (order k)) < 2 ^ 24 ->
  exists d, to_boc k idx crc cache = Ok d /\
    s_decode d = Some [t] /\
    exists cs, s_all_cells d = Some cs /\ nodup_trees cs = true /\ (forall c, In c cs <-> In c (subtrees t)).
Proof.
  intros t k idx crc cache Hb Hwf Hnc Himp Hsz.
  destruct (to_boc_conforms_strong t k idx crc cache Hb Hwf Hnc Himp Hsz) as (d & Hd & _ & Hrest).
  exists d. split; [exact Hd|exact Hrest].
Qed.

(* every byte emitted by to_boc is a byte *)
Lemma to_boc_bytes_ok : forall t k idx crc cache d,
  build H t = Ok k -> boc_wf t = true -> no_collision k -> implb cache idx = true ->
  N.of_nat (length (order k)) < 2 ^ 24 ->
  to_boc k idx crc cache = Ok d -> bytes_ok d.
Proof.
  intros t k idx crc cache d Hb Hwf Hnc Himp Hsz Hd.
  destruct (to_boc_conforms_strong t k idx crc cache Hb Hwf Hnc Himp Hsz) as (d' & Hd' & Hok & _).
  rewrite Hd in Hd'. injection Hd' as ->. exact Hok.
Qed.

(* every sub-tree of a tree that builds, builds *)
Lemma subtrees_build : forall t k, build H t = Ok k ->
  forall s, In s (subtrees t) -> exists ks, build H s = Ok ks.
Proof.
  intros t k Hb s Hs. destruct (build_sub H t k Hb) as [Htree Hsub].
  rewrite <- Htree, subtrees_k_tree in Hs. apply in_map_iff in Hs. destruct Hs as (c & <- & Hc).
  exists c. exact (Hsub c Hc).
Qed.
End Conforms.
