(* C04 proofs: Cell.order lists every reachable cell once, parents first; the bytes produced by
   Cell.to_boc are accepted by the strict decoder of Spec/BocFormat.v and decode to the same DAG. *)
From Coq Require Import NArith ZArith List Bool Lia ZifyBool ZifyNat ZifyN.
From PTQ Require Import Base.Result Base.Bytes Base.Bits Model.Cell Model.Crc Model.Boc
  Spec.Crc Spec.CellRepr Spec.BocFormat Spec.BocProps Proofs.CrcProofs Proofs.CellOrd.
Import ListNotations.
Local Open Scope N_scope.

Ltac Zify.zify_post_hook ::= Z.div_mod_to_equations.

(* ------------------------------------------------------------------ *)
(* 1. byte_len                                                         *)
(* ------------------------------------------------------------------ *)
Lemma pow256 w : 256 ^ N.of_nat w = 2 ^ (8 * N.of_nat w).
Proof. change 256 with (2 ^ 8). rewrite <- N.pow_mul_r. reflexivity. Qed.

Lemma byte_len_fits : forall n,
  n < 256 ^ N.of_nat (byte_len n) /\ (n <> 0 -> (1 <= byte_len n)%nat).
Proof.
  intro n. unfold byte_len. split.
  - rewrite pow256.
    apply N.lt_le_trans with (2 ^ N.size n); [apply N.size_gt|].
    apply N.pow_le_mono_r; [lia|].
    set (s := N.size n). lia.
  - intro Hn. assert (Hs : 1 <= N.size n) by (destruct n; [lia|cbn [N.size]; lia]).
    set (s := N.size n) in *. lia.
Qed.

Lemma size_le_of_lt n m : n < 2 ^ m -> N.size n <= m.
Proof.
  intro Hn. pose proof (N.size_le n) as Hs.
  assert (Hlt : 2 ^ N.size n < 2 ^ (N.succ m)).
  { rewrite N.pow_succ_r'. lia. }
  apply N.pow_lt_mono_r_iff in Hlt; lia.
Qed.

Lemma byte_len_le n w : n < 256 ^ N.of_nat w -> (byte_len n <= w)%nat.
Proof.
  rewrite pow256. intro Hn. apply size_le_of_lt in Hn. unfold byte_len.
  set (s := N.size n) in *. lia.
Qed.

(* ------------------------------------------------------------------ *)
(* 2. induction on constructed cells                                   *)
(* ------------------------------------------------------------------ *)
Section KCellInd.
  Variable P : kcell -> Prop.
  Hypothesis P_kcell : forall ty bits rs m hs ds, Forall P rs -> P (KCell ty bits rs m hs ds).

  Fixpoint kcell_ind' (c : kcell) : P c :=
    let 'KCell ty bits rs m hs ds := c in
    P_kcell ty bits rs m hs ds
      ((fix go (l : list kcell) : Forall P l :=
          match l with
          | [] => Forall_nil P
          | x :: xs => Forall_cons x (kcell_ind' x) (go xs)
          end) rs).
End KCellInd.

Lemma subcells_eq c : subcells c = c :: flat_map subcells (k_refs c).
Proof. destruct c; reflexivity. Qed.
Lemma subtrees_eq ty bits rs : subtrees (Cell ty bits rs) = Cell ty bits rs :: flat_map subtrees rs.
Proof. reflexivity. Qed.
Lemma k_tree_eq c : k_tree c = Cell (k_ty c) (k_bits c) (map k_tree (k_refs c)).
Proof. destruct c; reflexivity. Qed.

Lemma subcells_self c : In c (subcells c).
Proof. rewrite subcells_eq. left. reflexivity. Qed.

Lemma subcells_trans : forall c x y, In x (subcells c) -> In y (subcells x) -> In y (subcells c).
Proof.
  induction c as [ty bits rs m hs ds IH] using kcell_ind'. intros x y Hx Hy.
  rewrite subcells_eq in Hx. cbn [k_refs] in Hx. destruct Hx as [<-|Hx]; [exact Hy|].
  rewrite subcells_eq. cbn [k_refs]. right.
  apply in_flat_map in Hx. destruct Hx as (r & Hr & Hx).
  apply in_flat_map. exists r. split; [exact Hr|].
  rewrite Forall_forall in IH. exact (IH r Hr x y Hx Hy).
Qed.

Lemma subcells_ref c r : In r (k_refs c) -> In r (subcells c).
Proof.
  intro Hr. rewrite subcells_eq. right. apply in_flat_map. exists r. split; [exact Hr|apply subcells_self].
Qed.

Lemma subtrees_k_tree : forall c, subtrees (k_tree c) = map k_tree (subcells c).
Proof.
  induction c as [ty bits rs m hs ds IH] using kcell_ind'.
  rewrite subcells_eq, k_tree_eq. cbn [k_ty k_bits k_refs]. rewrite subtrees_eq. cbn [map]. f_equal.
  induction IH as [|r rs Hr _ IHrs]; [reflexivity|].
  cbn [map flat_map]. rewrite map_app, Hr, IHrs. reflexivity.
Qed.

(* size, for acyclicity *)
Fixpoint ksize (c : kcell) : nat :=
  let 'KCell _ _ rs _ _ _ := c in
  S ((fix go (l : list kcell) : nat := match l with [] => O | x :: xs => (ksize x + go xs)%nat end) rs).
Definition ksizes (l : list kcell) : nat := fold_right (fun x a => (ksize x + a)%nat) O l.
Lemma ksize_eq c : ksize c = S (ksizes (k_refs c)).
Proof.
  destruct c as [ty bits rs m hs ds]. reflexivity.
Qed.

Lemma ksizes_in r rs : In r rs -> (ksize r <= ksizes rs)%nat.
Proof.
  induction rs as [|a rs IH]; [intros []|]. cbn [ksizes fold_right]. fold (ksizes rs).
  intros [->|Hr]; [lia|]. specialize (IH Hr). lia.
Qed.

Lemma subcells_size : forall c x, In x (flat_map subcells (k_refs c)) -> (ksize x < ksize c)%nat.
Proof.
  induction c as [ty bits rs m hs ds IH] using kcell_ind'. intros x Hx. cbn [k_refs] in Hx.
  apply in_flat_map in Hx. destruct Hx as (r & Hr & Hx).
  rewrite Forall_forall in IH. specialize (IH r Hr).
  pose proof (ksizes_in r rs Hr) as Hle.
  rewrite (ksize_eq (KCell ty bits rs m hs ds)). cbn [k_refs].
  rewrite subcells_eq in Hx. destruct Hx as [<-|Hx]; [lia|].
  specialize (IH x Hx). lia.
Qed.

(* ------------------------------------------------------------------ *)
(* 3. what a successful build tells                                    *)
(* ------------------------------------------------------------------ *)
Section WithHash.
Variable H : list N -> list N.

Lemma mk_cell_shape ty bits refs k : mk_cell H ty bits refs = Ok k ->
  exists m hs ds d1 d2, k = KCell ty bits refs m hs ds /\
    refs_descriptor (length refs) (is_exotic ty) m = Ok d1 /\
    bits_descriptor (length bits) = Ok d2.
Proof.
  unfold mk_cell. intro Hk.
  destruct (resolve_mask ty bits refs) as [m|e]; [|discriminate].
  cbn [bind] in Hk.
  destruct (foldM _ _ _) as [[[hi hs] ds]|e]; [|discriminate].
  cbn [bind] in Hk.
  destruct (refs_descriptor (length refs) (is_exotic ty) m) as [d1|e] eqn:Hd1; [|discriminate].
  cbn [bind] in Hk.
  destruct (bits_descriptor (length bits)) as [d2|e] eqn:Hd2; [|discriminate].
  cbn [bind] in Hk.
  destruct hs as [|h hs]; [discriminate|].
  injection Hk as <-. exists m, (h :: hs), ds, d1, d2. auto.
Qed.

Lemma mapM'_Forall2 {A B} (f : A -> result B) : forall l l', mapM' f l = Ok l' ->
  Forall2 (fun x y => f x = Ok y) l l'.
Proof.
  induction l as [|x l IH]; intros l' Hm; cbn [mapM'] in Hm.
  - injection Hm as <-. constructor.
  - destruct (f x) as [y|e] eqn:Hy; [|discriminate]. cbn [bind] in Hm.
    destruct (mapM' f l) as [ys|e]; [|discriminate]. cbn [bind] in Hm.
    injection Hm as <-. constructor; [exact Hy|apply IH; reflexivity].
Qed.

Lemma Forall2_mapM' {A B} (f : A -> result B) : forall l l',
  Forall2 (fun x y => f x = Ok y) l l' -> mapM' f l = Ok l'.
Proof.
  induction 1 as [|x y l l' Hxy _ IH]; [reflexivity|].
  cbn [mapM']. rewrite Hxy, IH. reflexivity.
Qed.

Definition built (c : kcell) : Prop := build H (k_tree c) = Ok c.

Lemma build_sub : forall t k, build H t = Ok k ->
  k_tree k = t /\ forall c, In c (subcells k) -> built c.
Proof.
  induction t as [ty bits rs IH] using cell_ind'. intros k Hk.
  rewrite build_eq in Hk.
  destruct (mapM' (build H) rs) as [krefs|e] eqn:Hm; [|discriminate]. cbn [bind] in Hk.
  apply mapM'_Forall2 in Hm.
  destruct (mk_cell_shape _ _ _ _ Hk) as (m & hs & ds & d1 & d2 & -> & _ & _).
  assert (Ht : map k_tree krefs = rs).
  { clear Hk. induction Hm as [|r kr rs krs Hr _ IHm]; [reflexivity|].
    inversion IH as [|? ? IHr IHrs]; subst. cbn [map]. f_equal; [apply (IHr kr Hr)|apply IHm; exact IHrs]. }
  assert (Hroot : k_tree (KCell ty bits krefs m hs ds) = Cell ty bits rs).
  { rewrite k_tree_eq. cbn [k_ty k_bits k_refs]. rewrite Ht. reflexivity. }
  split; [exact Hroot|].
  intros c Hc. rewrite subcells_eq in Hc. cbn [k_refs] in Hc. destruct Hc as [<-|Hc].
  - unfold built. rewrite Hroot, build_eq, (Forall2_mapM' _ _ _ Hm). exact Hk.
  - apply in_flat_map in Hc. destruct Hc as (kr & Hkr & Hc).
    clear Hk Ht Hroot. induction Hm as [|r kr' rs krs Hr _ IHm]; [destruct Hkr|].
    inversion IH as [|? ? IHr IHrs]; subst.
    destruct Hkr as [->|Hkr]; [exact (proj2 (IHr kr Hr) c Hc)|exact (IHm IHrs Hkr)].
Qed.

Lemma built_inj a b : built a -> built b -> k_tree a = k_tree b -> a = b.
Proof. unfold built. intros Ha Hb E. rewrite E in Ha. rewrite Ha in Hb. injection Hb. auto. Qed.

Lemma built_desc c : built c ->
  exists d1 d2, refs_descriptor (length (k_refs c)) (is_exotic (k_ty c)) (k_mask c) = Ok d1 /\
                bits_descriptor (length (k_bits c)) = Ok d2.
Proof.
  unfold built. rewrite k_tree_eq, build_eq. intro Hb.
  destruct (mapM' (build H) (map k_tree (k_refs c))) as [krefs|e]; [|discriminate]. cbn [bind] in Hb.
  destruct (mk_cell_shape _ _ _ _ Hb) as (m & hs & ds & d1 & d2 & E & Hd1 & Hd2).
  destruct c as [ty bits rs m' hs' ds']. cbn [k_ty k_bits k_refs k_mask] in *.
  injection E as -> -> _ _. exists d1, d2. auto.
Qed.

End WithHash.

(* ------------------------------------------------------------------ *)
(* 4. the traversal                                                    *)
(* ------------------------------------------------------------------ *)
Fixpoint ord_go (rs p : list kcell) : list kcell :=
  match rs with [] => p | r :: rest => ord_visit r (ord_go rest p) end.

Lemma ord_visit_eq c post : ord_visit c post =
  if existsb (cell_eqb c) post then post else c :: ord_go (k_refs c) post.
Proof. destruct c as [ty bits rs m hs ds]. reflexivity. Qed.

Fixpoint topo (l : list kcell) : Prop :=
  match l with
  | [] => True
  | c :: r => (forall x, In x (k_refs c) -> In x r) /\ topo r
  end.

Lemma topo_closed : forall l, topo l -> forall c, In c l -> forall d, In d (subcells c) -> In d l.
Proof.
  induction l as [|a l IH]; intros Ht c Hc d Hd; [destruct Hc|].
  destruct Ht as [Hrefs Ht].
  destruct Hc as [->|Hc]; [|right; exact (IH Ht c Hc d Hd)].
  rewrite subcells_eq in Hd. destruct Hd as [<-|Hd]; [left; reflexivity|].
  right. apply in_flat_map in Hd. destruct Hd as (r & Hr & Hd).
  exact (IH Ht r (Hrefs r Hr) d Hd).
Qed.

Lemma topo_suffix : forall l1 l, topo (l1 ++ l) -> topo l.
Proof. induction l1 as [|a l1 IH]; intros l Ht; [exact Ht|]. destruct Ht as [_ Ht]. exact (IH l Ht). Qed.

Lemma topo_after l1 c l2 : topo (l1 ++ c :: l2) ->
  forall d, In d (flat_map subcells (k_refs c)) -> In d l2.
Proof.
  intros Ht d Hd. apply topo_suffix in Ht. destruct Ht as [Hrefs Ht].
  apply in_flat_map in Hd. destruct Hd as (r & Hr & Hd).
  exact (topo_closed l2 Ht r (Hrefs r Hr) d Hd).
Qed.

Section Order.
  Variable U : kcell -> Prop.
  Hypothesis U_refs : forall c, U c -> forall r, In r (k_refs c) -> U r.
  Hypothesis U_eq : forall a b, U a -> U b -> (cell_eqb a b = true <-> a = b).

  Definition good (l : list kcell) : Prop := NoDup l /\ topo l /\ forall x, In x l -> U x.

  Lemma existsb_in c post : U c -> (forall x, In x post -> U x) ->
    (existsb (cell_eqb c) post = true <-> In c post).
  Proof.
    intros Hc Hp. rewrite existsb_exists. split.
    - intros (x & Hx & He). apply (U_eq c x Hc (Hp x Hx)) in He. subst x. exact Hx.
    - intro Hin. exists c. split; [exact Hin|]. apply (U_eq c c Hc Hc). reflexivity.
  Qed.

  Definition visit_ok (c : kcell) : Prop :=
    U c -> forall post, good post ->
    exists new, ord_visit c post = new ++ post /\ good (new ++ post) /\ In c (new ++ post) /\
                (forall x, In x new -> In x (subcells c)).

  Lemma go_inv rs : Forall visit_ok rs -> (forall r, In r rs -> U r) ->
    forall post, good post ->
    exists new, ord_go rs post = new ++ post /\ good (new ++ post) /\
                (forall r, In r rs -> In r (new ++ post)) /\
                (forall x, In x new -> In x (flat_map subcells rs)).
  Proof.
    induction 1 as [|r rs Hr _ IH]; intros HU post Hg.
    - exists []. cbn [ord_go app]. split; [reflexivity|]. split; [exact Hg|].
      split; [intros r []|intros x []].
    - destruct (IH (fun x Hx => HU x (or_intror Hx)) post Hg) as (n1 & E1 & G1 & I1 & S1).
      destruct (Hr (HU r (or_introl eq_refl)) (n1 ++ post) G1) as (n2 & E2 & G2 & I2 & S2).
      exists (n2 ++ n1). cbn [ord_go]. rewrite E1, E2, <- app_assoc.
      split; [reflexivity|]. split; [exact G2|]. split.
      + intros x [<-|Hx]; [exact I2|]. apply in_or_app. right. exact (I1 x Hx).
      + intros x Hx. cbn [flat_map]. apply in_or_app. apply in_app_or in Hx.
        destruct Hx as [Hx|Hx]; [left; exact (S2 x Hx)|right; exact (S1 x Hx)].
  Qed.

  Lemma visit_inv : forall c, visit_ok c.
  Proof.
    induction c as [ty bits rs m hs ds IH] using kcell_ind'.
    set (c := KCell ty bits rs m hs ds). intros Hc post Hg.
    rewrite ord_visit_eq.
    destruct (existsb (cell_eqb c) post) eqn:Hex.
    - exists []. cbn [app]. split; [reflexivity|]. split; [exact Hg|].
      split; [|intros x []]. apply (existsb_in c post Hc); [apply Hg|exact Hex].
    - assert (Hnin : ~ In c post).
      { intro Hin. apply (existsb_in c post Hc) in Hin; [congruence|apply Hg]. }
      destruct (go_inv rs IH (U_refs c Hc) post Hg) as (n1 & E1 & G1 & I1 & S1).
      exists (c :: n1). change (k_refs c) with rs. rewrite E1. cbn [app].
      split; [reflexivity|]. destruct G1 as (Nd & Tp & Us).
      split; [|split].
      + split; [|split].
        * constructor; [|exact Nd]. intro Hin. apply in_app_or in Hin. destruct Hin as [Hin|Hin]; [|tauto].
          apply S1 in Hin. apply (subcells_size c) in Hin. lia.
        * split; [exact I1|exact Tp].
        * intros x [<-|Hx]; [exact Hc|exact (Us x Hx)].
      + left. reflexivity.
      + intros x [<-|Hx]; [apply subcells_self|]. rewrite subcells_eq. right. exact (S1 x Hx).
  Qed.
End Order.

Lemma order_props k :
  (forall a b, In a (subcells k) -> In b (subcells k) -> (cell_eqb a b = true <-> a = b)) ->
  NoDup (order k) /\ topo (order k) /\ (forall x, In x (order k) <-> In x (subcells k)) /\
  exists rest, order k = k :: rest.
Proof.
  intro Heq. set (U := fun c => In c (subcells k)).
  assert (U_refs : forall c, U c -> forall r, In r (k_refs c) -> U r).
  { intros c Hc r Hr. apply (subcells_trans k c r Hc). apply subcells_ref. exact Hr. }
  assert (G0 : good U []).
  { split; [constructor|]. split; [exact I|intros x []]. }
  destruct (visit_inv U U_refs Heq k (subcells_self k) [] G0) as (new & E & (Nd & Tp & Us) & Ik & Sk).
  unfold order. rewrite E in *. split; [exact Nd|]. split; [exact Tp|]. split.
  - intro x. split; [apply Us|]. intro Hx. exact (topo_closed _ Tp k Ik x Hx).
  - rewrite <- E, ord_visit_eq. cbn [existsb]. eexists. reflexivity.
Qed.

(* ------------------------------------------------------------------ *)
(* 5. tree equality                                                    *)
(* ------------------------------------------------------------------ *)
Lemma bits_eqb_eq : forall a b : list bool,
  (length a =? length b)%nat && forallb (fun p => Bool.eqb (fst p) (snd p)) (combine a b) = true -> a = b.
Proof.
  induction a as [|x a IH]; intros [|y b]; cbn [length combine forallb fst snd Nat.eqb andb]; try discriminate.
  - reflexivity.
  - intro Hb. apply andb_prop in Hb. destruct Hb as [Hl Hb]. apply andb_prop in Hb. destruct Hb as [Hxy Hb].
    apply eqb_prop in Hxy. subst y. f_equal. apply IH. rewrite Hl, Hb. reflexivity.
Qed.

Lemma tree_eqb_eq : forall a b, tree_eqb a b = true -> a = b.
Proof.
  induction a as [ta ba ra IH] using cell_ind'. intros [tb bb rb] He.
  cbn [tree_eqb] in He.
  apply andb_prop in He. destruct He as [He Hgo].
  apply andb_prop in He. destruct He as [He Hlr].
  rewrite <- andb_assoc in He.
  apply andb_prop in He. destruct He as [Hty Hbits].
  apply Z.eqb_eq in Hty. apply bits_eqb_eq in Hbits. subst tb bb. f_equal.
  clear Hlr. revert rb Hgo.
  induction IH as [|x ra Hx _ IHra]; intros [|y rb] Hgo; try discriminate; [reflexivity|].
  apply andb_prop in Hgo. destruct Hgo as [Hxy Hgo].
  f_equal; [exact (Hx y Hxy)|exact (IHra rb Hgo)].
Qed.

Lemma nodup_trees_map (U : kcell -> Prop) :
  (forall a b, U a -> U b -> k_tree a = k_tree b -> a = b) ->
  forall l, NoDup l -> (forall x, In x l -> U x) -> nodup_trees (map k_tree l) = true.
Proof.
  intros Hinj. induction 1 as [|a l Ha Hnd IH]; intro HU; [reflexivity|].
  cbn [map nodup_trees]. rewrite IH by (intros x Hx; apply HU; right; exact Hx).
  rewrite andb_true_r. apply negb_true_iff. apply not_true_is_false. intro Hex.
  apply existsb_exists in Hex. destruct Hex as (y & Hy & He).
  apply in_map_iff in Hy. destruct Hy as (b & <- & Hb).
  apply tree_eqb_eq in He. apply Hinj in He; [|apply HU; left; reflexivity|apply HU; right; exact Hb].
  subst b. exact (Ha Hb).
Qed.

(* ------------------------------------------------------------------ *)
(* 6. C04_order                                                        *)
(* ------------------------------------------------------------------ *)
Section OrderSpec.
Variable H : list N -> list N.

Lemma sub_eqb_eq t k : build H t = Ok k -> no_collision k ->
  forall a b, In a (subcells k) -> In b (subcells k) -> (cell_eqb a b = true <-> a = b).
Proof.
  intros Hb Hnc a b Ha Hb'. destruct (build_sub H t k Hb) as [_ Hsub]. split.
  - intro He. apply cell_eqb_iff in He. apply (Hnc a b Ha Hb') in He.
    exact (built_inj H a b (Hsub a Ha) (Hsub b Hb') He).
  - intros ->. apply cell_eqb_iff. reflexivity.
Qed.

Lemma nth_error_split_len {A} (l : list A) i x : nth_error l i = Some x ->
  exists l1 l2, l = l1 ++ x :: l2 /\ length l1 = i.
Proof. apply nth_error_split. Qed.

Lemma NoDup_after {A} (l1 l2 : list A) c d j : NoDup (l1 ++ c :: l2) -> In d l2 ->
  nth_error (l1 ++ c :: l2) j = Some d -> (length l1 < j)%nat.
Proof.
  intros Hnd Hd Hj.
  apply In_nth_error in Hd. destruct Hd as (j2 & Hj2).
  assert (Hj' : nth_error (l1 ++ c :: l2) (length l1 + S j2) = Some d).
  { rewrite nth_error_app2 by lia. replace (length l1 + S j2 - length l1)%nat with (S j2) by lia.
    exact Hj2. }
  rewrite NoDup_nth_error in Hnd.
  assert (E : j = (length l1 + S j2)%nat).
  { apply Hnd; [|congruence]. apply nth_error_Some. congruence. }
  lia.
Qed.

Theorem order_spec : forall t k, build H t = Ok k -> no_collision k ->
  let o := map k_tree (order k) in
  nodup_trees o = true /\
  (forall c, In c o <-> In c (subtrees t)) /\
  (forall i j ci cj, nth_error o i = Some ci -> nth_error o j = Some cj ->
     In cj (tl (subtrees ci)) -> (i < j)%nat) /\
  nth_error o 0 = Some t.
Proof.
  intros t k Hb Hnc o.
  pose proof (sub_eqb_eq t k Hb Hnc) as Heq.
  destruct (build_sub H t k Hb) as [Htree Hsub].
  destruct (order_props k Heq) as (Nd & Tp & Hin & (rest & Ehd)).
  assert (Hinj : forall a b, In a (subcells k) -> In b (subcells k) -> k_tree a = k_tree b -> a = b).
  { intros a b Ha Hb'. apply (built_inj H); auto. }
  split; [|split; [|split]].
  - apply (nodup_trees_map (fun c => In c (subcells k)) Hinj _ Nd). intros x Hx. apply Hin. exact Hx.
  - intro c. rewrite <- Htree, subtrees_k_tree. unfold o. rewrite !in_map_iff.
    split; intros (x & Ex & Hx); exists x; (split; [exact Ex|apply Hin; exact Hx]).
  - intros i j ci cj Hi Hj Hd. unfold o in Hi, Hj.
    rewrite nth_error_map in Hi, Hj.
    destruct (nth_error (order k) i) as [ki|] eqn:Eki; [|discriminate]. injection Hi as <-.
    destruct (nth_error (order k) j) as [kj|] eqn:Ekj; [|discriminate]. injection Hj as <-.
    rewrite subtrees_k_tree, subcells_eq in Hd. cbn [map tl] in Hd.
    apply in_map_iff in Hd. destruct Hd as (d & Ed & Hd).
    destruct (nth_error_split_len _ _ _ Eki) as (l1 & l2 & El & Hlen).
    rewrite El in Tp. pose proof (topo_after l1 ki l2 Tp d Hd) as Hd2.
    assert (d = kj).
    { apply Hinj; [| |exact Ed].
      - apply Hin. rewrite El. apply in_or_app. right. right. exact Hd2.
      - apply Hin. eapply nth_error_In. exact Ekj. }
    subst d. rewrite El in Nd, Ekj. rewrite <- Hlen. exact (NoDup_after l1 l2 ki kj j Nd Hd2 Ekj).
  - unfold o. rewrite Ehd. cbn [map nth_error]. rewrite Htree. reflexivity.
Qed.
End OrderSpec.
