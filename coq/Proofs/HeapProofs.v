(* C08 proofs: ownership invariant of the heap model; cells are frozen, objects keep their kind, operations only
   touch the containers of their target object. *)
From Coq Require Import NArith ZArith List Bool Lia Arith.
From PTQ Require Import Base.Result Model.Heap.
Import ListNotations.

(* ---------- list lemmas ---------- *)

Lemma set_nth_length {A} (l : list A) i x : length (set_nth l i x) = length l.
Proof. revert i; induction l; intros [|i]; simpl; auto. Qed.

Lemma nth_set_nth_eq {A} (l : list A) i x d : i < length l -> nth i (set_nth l i x) d = x.
Proof. revert i; induction l; intros [|i]; simpl; intros; try lia; auto. apply IHl; lia. Qed.

Lemma nth_set_nth_neq {A} (l : list A) i j x d : i <> j -> nth j (set_nth l i x) d = nth j l d.
Proof. revert i j; induction l; intros [|i] [|j]; simpl; intros; try lia; auto. Qed.

Lemma nth_error_set_nth_eq {A} (l : list A) i x : i < length l -> nth_error (set_nth l i x) i = Some x.
Proof. revert i; induction l; intros [|i]; simpl; intros; try lia; auto. apply IHl; lia. Qed.

Lemma nth_error_set_nth_neq {A} (l : list A) i j x : i <> j -> nth_error (set_nth l i x) j = nth_error l j.
Proof. revert i j; induction l; intros [|i] [|j]; simpl; intros; try lia; auto. Qed.

Lemma nth_error_snoc {A} (l : list A) x i y :
  nth_error (l ++ [x]) i = Some y -> (i < length l /\ nth_error l i = Some y) \/ (i = length l /\ y = x).
Proof.
  intros H. destruct (lt_dec i (length l)) as [Hlt|Hge].
  - left. rewrite nth_error_app1 in H by assumption. auto.
  - right. assert (Hi : i < length (l ++ [x])) by (apply nth_error_Some; congruence).
    rewrite app_length in Hi; simpl in Hi.
    assert (i = length l) by lia. subst i.
    rewrite nth_error_app2 in H by lia. rewrite Nat.sub_diag in H. simpl in H. inversion H; auto.
Qed.

Lemma Forall_skipn' {A} (P : A -> Prop) n : forall l, Forall P l -> Forall P (skipn n l).
Proof. induction n; intros l H; simpl; auto. destruct l; auto. inversion H; auto. Qed.

(* ---------- ownership invariant ---------- *)

Definition baddr (o : obj) : addr := match o with OCell b _ | OSlice b _ _ | OBuilder b _ => b end.
Definition raddr (o : obj) : addr := match o with OCell _ r | OSlice _ r _ | OBuilder _ r => r end.

Record Inv (h : heap) : Prop := {
  inv_range : forall i o, nth_error (objs h) i = Some o ->
                baddr o < length (bitsH h) /\ raddr o < length (refsH h);
  inv_sep : forall i j oi oj, nth_error (objs h) i = Some oi -> nth_error (objs h) j = Some oj -> i <> j ->
                baddr oi <> baddr oj /\ raddr oi <> raddr oj;
  inv_refs : forall i o, nth_error (objs h) i = Some o ->
                Forall (fun c => is_cell h c = true) (get_refs h (raddr o)) }.

Lemma inv_empty : Inv empty_heap.
Proof. split; simpl; intros; destruct i; discriminate. Qed.

(* every object other than the target [t] keeps its table entry and the contents of its two containers *)
Definition frame (h : heap) (t : oid) (h' : heap) : Prop :=
  forall i o, i <> t -> nth_error (objs h) i = Some o ->
    nth_error (objs h') i = Some o /\ get_bits h' (baddr o) = get_bits h (baddr o)
    /\ get_refs h' (raddr o) = get_refs h (raddr o).

(* the same for every cell, target or not *)
Definition cframe (h h' : heap) : Prop :=
  forall i o, is_cell h i = true -> nth_error (objs h) i = Some o ->
    nth_error (objs h') i = Some o /\ get_bits h' (baddr o) = get_bits h (baddr o)
    /\ get_refs h' (raddr o) = get_refs h (raddr o).

Definition good (h : heap) (t : oid) (h' : heap) : Prop := Inv h' /\ frame h t h' /\ cframe h h'.

Lemma frame_cframe h t h' : frame h t h' -> is_cell h t = false -> cframe h h'.
Proof. intros F Ht i o Hc Ho. apply F; auto. intro; subst; congruence. Qed.

Lemma good_refl h t : Inv h -> good h t h.
Proof. intros I. split; [assumption|]. split; intros i o ? Ho; auto. Qed.

Lemma good_trans h t h1 h2 : good h t h1 -> good h1 t h2 -> good h t h2.
Proof.
  intros (I1 & F1 & C1) (I2 & F2 & C2). split; [assumption|]. split.
  - intros i o Hi Ho. destruct (F1 i o Hi Ho) as (Ho1 & Hb1 & Hr1).
    destruct (F2 i o Hi Ho1) as (Ho2 & Hb2 & Hr2). repeat split; congruence.
  - intros i o Hc Ho. destruct (C1 i o Hc Ho) as (Ho1 & Hb1 & Hr1).
    assert (Hc1 : is_cell h1 i = true) by (unfold is_cell in *; rewrite Ho1; rewrite Ho in Hc; exact Hc).
    destruct (C2 i o Hc1 Ho1) as (Ho2 & Hb2 & Hr2). repeat split; congruence.
Qed.

(* ---------- the four primitive transitions ---------- *)

Lemma good_wb h t o v :
  Inv h -> nth_error (objs h) t = Some o -> is_cell h t = false -> good h t (write_bits h (baddr o) v).
Proof.
  intros I Ht Hc.
  assert (F : frame h t (write_bits h (baddr o) v)).
  { intros i o' Hi Ho'. unfold get_bits, get_refs; cbn [write_bits objs bitsH refsH].
    split; [assumption|split; [|reflexivity]].
    apply nth_set_nth_neq. destruct (inv_sep h I i t o' o Ho' Ht Hi); auto. }
  split; [|split; [exact F | eapply frame_cframe; eauto]].
  split; cbn [write_bits objs bitsH refsH].
  - intros i o' Ho'. rewrite set_nth_length. eapply inv_range; eauto.
  - apply (inv_sep h I).
  - intros i o' Ho'. exact (inv_refs h I i o' Ho').
Qed.

Lemma good_wr h t o w :
  Inv h -> nth_error (objs h) t = Some o -> is_cell h t = false ->
  Forall (fun c => is_cell h c = true) w -> good h t (write_refs h (raddr o) w).
Proof.
  intros I Ht Hc Hw.
  assert (F : frame h t (write_refs h (raddr o) w)).
  { intros i o' Hi Ho'. unfold get_bits, get_refs; cbn [write_refs objs bitsH refsH].
    split; [assumption|split; [reflexivity|]].
    apply nth_set_nth_neq. destruct (inv_sep h I i t o' o Ho' Ht Hi); auto. }
  split; [|split; [exact F | eapply frame_cframe; eauto]].
  split; cbn [write_refs objs bitsH refsH].
  - intros i o' Ho'. rewrite set_nth_length. eapply inv_range; eauto.
  - apply (inv_sep h I).
  - intros i o' Ho'. unfold get_refs; cbn [write_refs refsH].
    destruct (Nat.eq_dec (raddr o) (raddr o')) as [E|E].
    + rewrite <- E. rewrite nth_set_nth_eq by (eapply inv_range; eauto). exact Hw.
    + rewrite nth_set_nth_neq by exact E. exact (inv_refs h I i o' Ho').
Qed.

Lemma is_cell_snoc h h' o c : objs h' = objs h ++ [o] -> is_cell h c = true -> is_cell h' c = true.
Proof.
  unfold is_cell. intros E H. rewrite E.
  destruct (nth_error (objs h) c) eqn:Hc; [|discriminate].
  rewrite nth_error_app1 by (apply nth_error_Some; congruence). rewrite Hc. exact H.
Qed.

Lemma is_cell_out h : is_cell h (length (objs h)) = false.
Proof. unfold is_cell. rewrite (proj2 (nth_error_None (objs h) (length (objs h)))) by lia. reflexivity. Qed.

Lemma good_alloc h v w o :
  Inv h -> baddr o = length (bitsH h) -> raddr o = length (refsH h) ->
  Forall (fun c => is_cell h c = true) w ->
  good h (length (objs h)) (mkHeap (bitsH h ++ [v]) (refsH h ++ [w]) (objs h ++ [o])).
Proof.
  intros I Hb Hr Hw. set (h' := mkHeap (bitsH h ++ [v]) (refsH h ++ [w]) (objs h ++ [o])).
  assert (Hmono : forall c, is_cell h c = true -> is_cell h' c = true).
  { intros c Hc. eapply is_cell_snoc; eauto. reflexivity. }
  assert (F : frame h (length (objs h)) h').
  { intros i o' Hi Ho'. unfold get_bits, get_refs; cbn [h' objs bitsH refsH].
    destruct (inv_range h I i o' Ho').
    split; [|split; apply app_nth1; assumption].
    rewrite nth_error_app1 by (apply nth_error_Some; congruence). assumption. }
  split; [|split; [exact F | eapply frame_cframe; eauto using is_cell_out]].
  split.
  - intros i o' Ho'. cbn [h' objs bitsH refsH] in *. rewrite !app_length; simpl.
    apply nth_error_snoc in Ho' as [[? Ho']|[? ->]].
    + destruct (inv_range h I i o' Ho'); lia.
    + lia.
  - intros i j oi oj Hi Hj Hij. cbn [h' objs bitsH refsH] in *.
    apply nth_error_snoc in Hi as [[? Hi]|[? ->]]; apply nth_error_snoc in Hj as [[? Hj]|[? ->]].
    + eapply inv_sep; eauto.
    + destruct (inv_range h I i oi Hi); lia.
    + destruct (inv_range h I j oj Hj); lia.
    + lia.
  - intros i o' Ho'. unfold get_refs. cbn [h' objs bitsH refsH] in *.
    apply nth_error_snoc in Ho' as [[? Ho']|[? ->]].
    + rewrite app_nth1 by (eapply inv_range; eauto).
      eapply Forall_impl; [|exact (inv_refs h I i o' Ho')]. exact Hmono.
    + rewrite Hr, app_nth2, Nat.sub_diag by lia. simpl.
      eapply Forall_impl; [|exact Hw]. exact Hmono.
Qed.

Lemma good_off h t sb sr off :
  Inv h -> nth_error (objs h) t = Some (OSlice sb sr off) -> good h t (set_obj h t (OSlice sb sr (S off))).
Proof.
  intros I Ht. set (h' := set_obj h t (OSlice sb sr (S off))).
  assert (Hlt : t < length (objs h)) by (apply nth_error_Some; congruence).
  assert (Hc : is_cell h t = false) by (unfold is_cell; rewrite Ht; reflexivity).
  assert (Hsame : forall i o', nth_error (objs h') i = Some o' ->
            exists o, nth_error (objs h) i = Some o /\ baddr o = baddr o' /\ raddr o = raddr o').
  { intros i o' Ho'. cbn [h' set_obj objs] in Ho'. destruct (Nat.eq_dec t i) as [E|E].
    - subst i. rewrite nth_error_set_nth_eq in Ho' by assumption. inversion Ho'; subst o'.
      exists (OSlice sb sr off); auto.
    - rewrite nth_error_set_nth_neq in Ho' by assumption. exists o'; auto. }
  assert (Hcell : forall c, is_cell h' c = is_cell h c).
  { intros c. unfold is_cell. cbn [h' set_obj objs]. destruct (Nat.eq_dec t c) as [E|E].
    - subst c. rewrite nth_error_set_nth_eq by assumption. rewrite Ht. reflexivity.
    - rewrite nth_error_set_nth_neq by assumption. reflexivity. }
  assert (F : frame h t h').
  { intros i o' Hi Ho'. split; [|split; reflexivity].
    cbn [h' set_obj objs]. rewrite nth_error_set_nth_neq by auto. assumption. }
  split; [|split; [exact F | eapply frame_cframe; eauto]].
  split.
  - intros i o' Ho'. destruct (Hsame i o' Ho') as (o & Ho & <- & <-). exact (inv_range h I i o Ho).
  - intros i j oi oj Hi Hj Hij. destruct (Hsame i oi Hi) as (o1 & Ho1 & <- & <-).
    destruct (Hsame j oj Hj) as (o2 & Ho2 & <- & <-). eapply inv_sep; eauto.
  - intros i o' Ho'. destruct (Hsame i o' Ho') as (o & Ho & _ & <-).
    eapply Forall_impl; [|exact (inv_refs h I i o Ho)]. intros c Hcc. rewrite Hcell. exact Hcc.
Qed.

(* ---------- one step ---------- *)

Definition tgt (h : heap) (o : op) : oid :=
  match o with
  | OpStoreBits b _ | OpStoreRef b _ | OpStoreCell b _ | OpStoreSlice b _ => b
  | OpLoadBits s _ | OpLoadRef s => s
  | _ => length (objs h)
  end.

Ltac refs_ok h I :=
  first [ apply Forall_nil
        | match goal with H : nth_error (objs h) _ = Some _ |- _ => exact (inv_refs h I _ _ H) end
        | apply Forall_skipn';
          match goal with H : nth_error (objs h) _ = Some _ |- _ => exact (inv_refs h I _ _ H) end ].

Ltac alloc_case h I o :=
  unfold alloc_bits, alloc_refs, new_obj; cbn [fst bitsH refsH objs];
  apply (good_alloc h _ _ o I); [reflexivity|reflexivity|refs_ok h I].

Ltac lookup h x H :=
  destruct (nth_error (objs h) x) as [[?b ?r|?b ?r ?off|?b ?r]|] eqn:H;
  try (apply good_refl; assumption).

Lemma step_good h o : Inv h -> good h (tgt h o) (step h o).
Proof.
  intros I. destruct o; cbn [step tgt].
  - (* OpNewBuilder *) alloc_case h I (OBuilder (length (bitsH h)) (length (refsH h))).
  - (* OpEmptyCell *) alloc_case h I (OCell (length (bitsH h)) (length (refsH h))).
  - (* OpStoreBits *) lookup h b Hb.
    destruct (_ <? _); [apply good_refl; assumption|].
    apply (good_wb h b (OBuilder b0 r)); auto. unfold is_cell; rewrite Hb; reflexivity.
  - (* OpStoreRef *) lookup h b Hb.
    destruct (is_cell h c) eqn:Hc; cbn [andb]; [|apply good_refl; assumption].
    destruct (_ <? _); [|apply good_refl; assumption].
    apply (good_wr h b (OBuilder b0 r)); auto.
    + unfold is_cell; rewrite Hb; reflexivity.
    + apply Forall_app; split; [exact (inv_refs h I _ _ Hb)|]. constructor; auto.
  - (* OpStoreCell *) lookup h b Hb. lookup h c Hc.
    destruct (_ || _); [apply good_refl; assumption|].
    assert (Hnc : is_cell h b = false) by (unfold is_cell; rewrite Hb; reflexivity).
    eapply good_trans.
    + apply (good_wb h b (OBuilder b0 r)); eauto.
    + apply (good_wr _ b (OBuilder b0 r)); auto.
      * apply (good_wb h b (OBuilder b0 r)); eauto.
      * apply Forall_app; split; [exact (inv_refs h I _ _ Hb)|exact (inv_refs h I _ _ Hc)].
  - (* OpStoreSlice *) lookup h b Hb. lookup h s Hs.
    destruct (_ || _); [apply good_refl; assumption|].
    assert (Hnc : is_cell h b = false) by (unfold is_cell; rewrite Hb; reflexivity).
    eapply good_trans.
    + apply (good_wb h b (OBuilder b0 r)); eauto.
    + apply (good_wr _ b (OBuilder b0 r)); auto.
      * apply (good_wb h b (OBuilder b0 r)); eauto.
      * apply Forall_app; split; [exact (inv_refs h I _ _ Hb)|].
        apply Forall_skipn'. exact (inv_refs h I _ _ Hs).
  - (* OpEndCell *) lookup h b Hb. alloc_case h I (OCell (length (bitsH h)) (length (refsH h))).
  - (* OpBuilderToSlice *) lookup h b Hb. alloc_case h I (OSlice (length (bitsH h)) (length (refsH h)) 0).
  - (* OpBeginParse *) lookup h c Hc. alloc_case h I (OSlice (length (bitsH h)) (length (refsH h)) 0).
  - (* OpCellCopy *) lookup h c Hc. alloc_case h I (OCell (length (bitsH h)) (length (refsH h))).
  - (* OpToBuilder *) lookup h c Hc. alloc_case h I (OBuilder (length (bitsH h)) (length (refsH h))).
  - (* OpLoadBits *) lookup h s Hs.
    destruct (_ <? _); [apply good_refl; assumption|].
    apply (good_wb h s (OSlice b r off)); auto. unfold is_cell; rewrite Hs; reflexivity.
  - (* OpLoadRef *) lookup h s Hs.
    destruct (_ <? _); [|apply good_refl; assumption].
    apply good_off; assumption.
  - (* OpSliceToCell *) lookup h s Hs. alloc_case h I (OCell (length (bitsH h)) (length (refsH h))).
  - (* OpSliceCopy *) lookup h s Hs. alloc_case h I (OSlice (length (bitsH h)) (length (refsH h)) 0).
  - (* OpSliceToBuilder *) lookup h s Hs. alloc_case h I (OBuilder (length (bitsH h)) (length (refsH h))).
  - (* OpRead *) apply good_refl; assumption.
Qed.

Lemma inv_step h o : Inv h -> Inv (step h o).
Proof. intros I. exact (proj1 (step_good h o I)). Qed.

Lemma inv_fold ops : forall h, Inv h -> Inv (fold_left step ops h).
Proof. induction ops; simpl; intros h I; auto using inv_step. Qed.

Lemma inv_run ops : Inv (run_ops ops).
Proof. apply inv_fold, inv_empty. Qed.

(* ---------- cells ---------- *)

Lemma cframe_is_cell h h' i : cframe h h' -> is_cell h i = true -> is_cell h' i = true.
Proof.
  intros C Hc. pose proof Hc as Hc'. unfold is_cell in Hc'.
  destruct (nth_error (objs h) i) as [o|] eqn:Hi; [|discriminate].
  destruct (C i o Hc Hi) as (Hi' & _). unfold is_cell. rewrite Hi'. exact Hc'.
Qed.

Lemma cframe_content h h' :
  Inv h -> cframe h h' -> forall fuel i, is_cell h i = true -> cell_content fuel h' i = cell_content fuel h i.
Proof.
  intros I C. induction fuel as [|f IH]; intros i Hc; [reflexivity|].
  pose proof Hc as Hc'. unfold is_cell in Hc'.
  destruct (nth_error (objs h) i) as [[ba ra|ba ra off|ba ra]|] eqn:Hi; try discriminate.
  destruct (C i _ Hc Hi) as (Hi' & Hb & Hr). cbn [baddr raddr] in Hb, Hr.
  cbn [cell_content]. rewrite Hi, Hi', Hb, Hr. f_equal.
  apply map_ext_in. intros c Hin. apply IH.
  pose proof (inv_refs h I i _ Hi) as Fa. rewrite Forall_forall in Fa. apply Fa. exact Hin.
Qed.

Lemma fold_frozen ops : forall h i, Inv h -> is_cell h i = true ->
  is_cell (fold_left step ops h) i = true /\
  forall fuel, cell_content fuel (fold_left step ops h) i = cell_content fuel h i.
Proof.
  induction ops as [|o ops IH]; intros h i I Hc; simpl; [auto|].
  destruct (step_good h o I) as (I' & _ & C).
  pose proof (cframe_is_cell _ _ _ C Hc) as Hc'.
  destruct (IH (step h o) i I' Hc') as (H1 & H2). split; [exact H1|].
  intros fuel. rewrite H2. apply cframe_content; assumption.
Qed.

Theorem cells_frozen : forall ops1 ops2 i fuel,
  is_cell (run_ops ops1) i = true ->
  cell_content fuel (run_ops (ops1 ++ ops2)) i = cell_content fuel (run_ops ops1) i.
Proof.
  intros ops1 ops2 i fuel Hc. unfold run_ops at 1. rewrite fold_left_app.
  apply (fold_frozen ops2 (run_ops ops1) i (inv_run ops1) Hc).
Qed.

Theorem cells_stay_cells : forall ops1 ops2 i,
  is_cell (run_ops ops1) i = true -> is_cell (run_ops (ops1 ++ ops2)) i = true.
Proof.
  intros ops1 ops2 i Hc. unfold run_ops at 1. rewrite fold_left_app.
  apply (fold_frozen ops2 (run_ops ops1) i (inv_run ops1) Hc).
Qed.

(* ---------- isolation ---------- *)

Lemma frame_view h t h' i : frame h t h' -> i <> t -> (i < length (objs h))%nat -> obj_view h' i = obj_view h i.
Proof.
  intros F Hi Hlt. destruct (nth_error (objs h) i) as [o|] eqn:Ho.
  - destruct (F i o Hi Ho) as (Ho' & Hb & Hr). unfold obj_view. rewrite Ho, Ho'.
    destruct o; cbn [baddr raddr] in Hb, Hr; rewrite Hb, Hr; reflexivity.
  - apply nth_error_None in Ho. lia.
Qed.

Theorem others_untouched : forall ops o i,
  match o with
  | OpStoreBits b _ | OpStoreRef b _ | OpStoreCell b _ | OpStoreSlice b _ => b <> i
  | OpLoadBits s _ | OpLoadRef s => s <> i
  | _ => True
  end ->
  (i < length (objs (run_ops ops)))%nat ->
  obj_view (step (run_ops ops) o) i = obj_view (run_ops ops) i.
Proof.
  intros ops o i Ht Hlt. set (h := run_ops ops) in *.
  destruct (step_good h o (inv_run ops)) as (_ & F & _).
  apply (frame_view h (tgt h o)); auto.
  destruct o; cbn [tgt]; solve [lia | auto].
Qed.
