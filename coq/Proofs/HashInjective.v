(* C01, structural reading: the representation hash determines the cell tree, up to a collision of the
   hash function.  The representation of a node (two descriptor bytes, data padded with the completion
   tag, depths and hashes of the references) is uniquely readable, so two different trees with the same
   hash exhibit two different inputs of H with the same output.  Helper lemmas carry the prefix hi_. *)
From Coq Require Import NArith ZArith List Bool Lia.
From PTQ Require Import Base.Result Base.Bytes Base.Bits Model.Cell
  Spec.CellRepr Spec.CellWf Spec.MerkleProof Proofs.CellOrd Proofs.CellExotic Proofs.MerkleProofs.
Import ListNotations.
Local Open Scope N_scope.

Section Ordinary.
  Variable H : list N -> list N.
  Hypothesis H_len : forall m, length (H m) = 32%nat.

  Definition hi_inj (c1 : cell) : Prop :=
    forall c2, wf_ord c1 = true -> wf_ord c2 = true ->
      s_hash H c1 = s_hash H c2 -> c1 = c2 \/ collision H.

  Lemma hi_children : forall rs1 rs2, Forall hi_inj rs1 ->
    forallb wf_ord rs1 = true -> forallb wf_ord rs2 = true ->
    map (s_hash H) rs1 = map (s_hash H) rs2 -> rs1 = rs2 \/ collision H.
  Proof.
    induction rs1 as [|r1 rs1 IH]; intros [|r2 rs2] HF Hw1 Hw2 E; cbn [map] in E; try discriminate.
    - left. reflexivity.
    - injection E as E0 E.
      cbn [forallb] in Hw1, Hw2.
      apply andb_prop in Hw1. destruct Hw1 as [Hr1 Hw1].
      apply andb_prop in Hw2. destruct Hw2 as [Hr2 Hw2].
      inversion HF as [|? ? Hi HF']; subst.
      destruct (Hi r2 Hr1 Hr2 E0) as [->|Hc]; [|right; exact Hc].
      destruct (IH rs2 HF' Hw1 Hw2 E) as [->|Hc]; [|right; exact Hc].
      left. reflexivity.
  Qed.

  (* equal representation hashes: equal ordinary trees, or a collision of H *)
  Theorem ord_hash_injective : forall c1 c2, wf_ord c1 = true -> wf_ord c2 = true ->
    s_hash H c1 = s_hash H c2 -> c1 = c2 \/ collision H.
  Proof using H H_len.
    induction c1 as [ty1 bits1 rs1 IH] using cell_ind'. intros c2 Hw1 Hw2 Hh.
    destruct c2 as [ty2 bits2 rs2].
    pose proof Hw1 as Hw1'. pose proof Hw2 as Hw2'.
    apply wf_ord_inv in Hw1'. destruct Hw1' as (-> & Hlb1 & Hlr1 & Hwrs1).
    apply wf_ord_inv in Hw2'. destruct Hw2' as (-> & Hlb2 & Hlr2 & Hwrs2).
    rewrite !s_hash_cell in Hh.
    match type of Hh with H ?m1 = H ?m2 =>
      destruct (list_eq_dec N.eq_dec m1 m2) as [E|NE];
        [|right; exists m1, m2; split; [exact NE|exact Hh]] end.
    cbn [app] in E. injection E as E1 E2 E3.
    assert (Hlen : length rs1 = length rs2) by (unfold s_d1 in E1; lia).
    apply mp_pad_inj in E3; [|exact E2]. destruct E3 as [<- E3].
    apply mp_app_inv_len in E3.
    2:{ rewrite (mp_concat_len (fun r => be_bytes 2 (s_depth r)) 2 rs1 (fun x => be_bytes_length 2 _)).
        rewrite (mp_concat_len (fun r => be_bytes 2 (s_depth r)) 2 rs2 (fun x => be_bytes_length 2 _)).
        rewrite Hlen. reflexivity. }
    destruct E3 as [_ E3].
    apply (mp_concat_inj 32) in E3.
    - destruct (hi_children rs1 rs2 IH Hwrs1 Hwrs2 E3) as [->|Hc]; [|right; exact Hc].
      left. reflexivity.
    - apply Forall_map. apply Forall_forall. intros x _. apply (mp_s_hash_len H H_len).
    - apply Forall_map. apply Forall_forall. intros x _. apply (mp_s_hash_len H H_len).
    - rewrite !map_length. exact Hlen.
  Qed.

  (* the two readings of "equal" coincide unless H collides *)
  Corollary ord_hash_iff : forall c1 c2, wf_ord c1 = true -> wf_ord c2 = true -> ~ collision H ->
    (s_hash H c1 = s_hash H c2 <-> c1 = c2).
  Proof using H H_len.
    intros c1 c2 Hw1 Hw2 Hnc. split; [|intros ->; reflexivity].
    intro Hh. destruct (ord_hash_injective c1 c2 Hw1 Hw2 Hh) as [E|Hc]; [exact E|contradiction].
  Qed.

  (* a covering tree without pruned branches is the tree itself *)
  Lemma covers_ord_eq : forall v t, wf_ord v = true -> covers H v t -> v = t.
  Proof.
    induction v as [ty bits vs IH] using cell_ind'. intros t Hw Hc.
    apply wf_ord_inv in Hw. destruct Hw as (Hty & _ & _ & Hws).
    inversion Hc as [c t' [d Hp] | bits' vs' ts HF]; subst.
    - injection Hp as Hty' _ _. discriminate.
    - f_equal. clear Hc. revert ts HF. induction vs as [|v vs IHvs]; intros ts HF.
      + inversion HF. reflexivity.
      + inversion HF as [|? t0 ? ts0 Hc0 HF0]; subst.
        cbn [forallb] in Hws. apply andb_prop in Hws. destruct Hws as [Hv Hws].
        inversion IH as [|? ? IHv IH']; subst.
        f_equal; [apply IHv; assumption|apply IHvs; assumption].
  Qed.

  (* ---- lift to the executable model ---- *)
  Lemma build_ord_hash : forall c k, wf_ord c = true -> build H c = Ok k -> k_hash k = s_hash H c.
  Proof using H H_len.
    intros c k Hw Hb. destruct (build_ord H c Hw) as [Hok Herr].
    destruct (N.le_gt_cases 1024 (s_depth c)) as [Hbig|Hsmall].
    - rewrite (Herr Hbig) in Hb. discriminate.
    - rewrite Hok in Hb by lia. injection Hb as <-. apply kof_hash.
  Qed.

  Theorem build_hash_injective : forall c1 c2 k1 k2, wf_ord c1 = true -> wf_ord c2 = true ->
    build H c1 = Ok k1 -> build H c2 = Ok k2 ->
    k_hash k1 = k_hash k2 -> c1 = c2 \/ collision H.
  Proof using H H_len.
    intros c1 c2 k1 k2 Hw1 Hw2 Hb1 Hb2 Hh.
    rewrite (build_ord_hash c1 k1 Hw1 Hb1), (build_ord_hash c2 k2 Hw2 Hb2) in Hh.
    apply ord_hash_injective; assumption.
  Qed.

  (* __eq__ of two constructed cells, read on the trees they were built from *)
  Theorem build_eqb_structural : forall c1 c2 k1 k2, wf_ord c1 = true -> wf_ord c2 = true ->
    build H c1 = Ok k1 -> build H c2 = Ok k2 ->
    (c1 = c2 -> cell_eqb k1 k2 = true) /\ (cell_eqb k1 k2 = true -> c1 = c2 \/ collision H).
  Proof using H H_len.
    intros c1 c2 k1 k2 Hw1 Hw2 Hb1 Hb2. split.
    - intros ->. rewrite Hb1 in Hb2. injection Hb2 as ->. apply cell_eqb_iff. reflexivity.
    - intro He. apply cell_eqb_iff in He. apply (build_hash_injective c1 c2 k1 k2); assumption.
  Qed.
End Ordinary.

(* ------------------------------------------------------------------ *)
(* all cell types: the hash at the top level (any level >= 3)          *)
(* ------------------------------------------------------------------ *)
Lemma hi_mask_norefs ty bits : (ty =? ty_pruned)%Z = false -> s_mask (Cell ty bits []) = 0.
Proof.
  intro Hp. cbn [s_mask fold_right]. rewrite Hp.
  destruct (ty =? ty_ordinary)%Z, (ty =? ty_mproof)%Z, (ty =? ty_mupdate)%Z; reflexivity.
Qed.

Lemma hi_low_mask_zero l : low_mask 0 l = 0.
Proof. unfold low_mask. apply N.land_0_l. Qed.

Section Exotic.
  Variable H : list N -> list N.
  Hypothesis H_len : forall m, length (H m) = 32%nat.

  (* at the top level a pruned branch is hashed like any other cell: over its whole representation *)
  Lemma hi_pruned_top bits l : s_mask (Cell ty_pruned bits []) <= 7 -> (3 <= l)%nat ->
    s_hash_at H (Cell ty_pruned bits []) l =
    H ([s_d1 0 true (s_mask (Cell ty_pruned bits [])); s_d2 (length bits)] ++ bits_to_bytes (s_pad bits)).
  Proof.
    intros Hm Hl. unfold s_hash_at. rewrite ex_s_hd_pruned. cbv zeta.
    rewrite (mg_low_mask_big _ l Hm Hl), N.eqb_refl. reflexivity.
  Qed.

  Lemma hi_pruned_vs_np bits ty' bits' ts l :
    wf_exotic (Cell ty_pruned bits []) = true -> wf_exotic (Cell ty' bits' ts) = true ->
    (ty' =? ty_pruned)%Z = false -> (3 <= l)%nat ->
    s_hash_at H (Cell ty_pruned bits []) l = s_hash_at H (Cell ty' bits' ts) l -> collision H.
  Proof.
    intros Hw1 Hw2 Hp Hl Hh.
    destruct (ex_wf_inv _ _ _ Hw1) as (_ & _ & _ & Hm1 & Hty1).
    destruct (ex_wf_inv _ _ _ Hw2) as (_ & Hlt & _ & _ & _).
    assert (H1 : 1 <= s_mask (Cell ty_pruned bits [])).
    { destruct Hty1 as [E|[(_ & _ & H1 & _)|[(E & _)|[(E & _)|(E & _)]]]]; try discriminate E. exact H1. }
    rewrite (hi_pruned_top bits l Hm1 Hl), (mg_hash_form H ty' bits' ts l Hp) in Hh.
    match type of Hh with H ?m1 = H ?m2 =>
      destruct (list_eq_dec N.eq_dec m1 m2) as [E|NE];
        [|exists m1, m2; split; [exact NE|exact Hh]] end.
    exfalso.
    assert (Hmt : (0 = length ts)%nat -> s_mask (Cell ty' bits' ts) = 0).
    { intro Hlen. destruct ts; [|discriminate Hlen]. apply (hi_mask_norefs ty' bits' Hp). }
    remember (s_mask (Cell ty_pruned bits [])) as m1 eqn:Em1.
    remember (s_mask (Cell ty' bits' ts)) as mt eqn:Emt.
    cbn [app] in E. injection E as E1 _ _.
    apply mg_d1_inj in E1; [|cbn [length]; lia|exact Hlt]. destruct E1 as (Hlen & _ & Em).
    rewrite (Hmt Hlen), hi_low_mask_zero in Em. lia.
  Qed.

  Definition hi_exinj (c1 : cell) : Prop :=
    wf_exotic c1 = true -> forall l c2, (3 <= l)%nat -> wf_exotic c2 = true ->
      s_hash_at H c1 l = s_hash_at H c2 l -> c1 = c2 \/ collision H.

  Lemma hi_exchildren l : (3 <= l)%nat -> forall vs ts, Forall hi_exinj vs ->
    forallb wf_exotic vs = true -> forallb wf_exotic ts = true ->
    Forall2 (fun a b => s_hash_at H a l = s_hash_at H b l) vs ts -> vs = ts \/ collision H.
  Proof.
    intros Hl vs ts HF Hwv Hwt HE. revert HF Hwv Hwt.
    induction HE as [|v t vs ts Hvt _ IH]; intros HF Hwv Hwt; [left; reflexivity|].
    cbn [forallb] in Hwv, Hwt.
    apply andb_prop in Hwv. destruct Hwv as [Hv Hwv].
    apply andb_prop in Hwt. destruct Hwt as [Ht Hwt].
    inversion HF as [|? ? Hi HF']; subst.
    destruct (Hi Hv l t Hl Ht Hvt) as [->|Hc]; [|right; exact Hc].
    destruct (IH HF' Hwv Hwt) as [->|Hc]; [|right; exact Hc].
    left. reflexivity.
  Qed.

  (* equal top-level hashes: equal trees of ordinary, pruned, library and Merkle cells, or a collision *)
  Theorem exotic_hash_injective : forall c1 c2 l, wf_exotic c1 = true -> wf_exotic c2 = true ->
    (3 <= l)%nat -> s_hash_at H c1 l = s_hash_at H c2 l -> c1 = c2 \/ collision H.
  Proof using H H_len.
    intros c1 c2 l Hw1 Hw2 Hl Hh. revert Hw1 l c2 Hl Hw2 Hh. change (hi_exinj c1).
    induction c1 as [ty bits vs IH] using ex_cell_ind. intros Hw1 l [ty' bits' ts] Hl Hw2 Hh.
    destruct (ty =? ty_pruned)%Z eqn:Hp1; destruct (ty' =? ty_pruned)%Z eqn:Hp2.
    - (* two pruned branches *)
      apply Z.eqb_eq in Hp1, Hp2. subst ty ty'.
      destruct (ex_wf_inv _ _ _ Hw1) as (_ & _ & _ & Hm1 & Hty1).
      destruct (ex_wf_inv _ _ _ Hw2) as (_ & _ & _ & Hm2 & Hty2).
      assert (Ev : vs = []).
      { destruct Hty1 as [E|[(_ & Er & _)|[(E & _)|[(E & _)|(E & _)]]]]; try discriminate E. exact Er. }
      assert (Et : ts = []).
      { destruct Hty2 as [E|[(_ & Er & _)|[(E & _)|[(E & _)|(E & _)]]]]; try discriminate E. exact Er. }
      subst vs ts.
      rewrite (hi_pruned_top bits l Hm1 Hl), (hi_pruned_top bits' l Hm2 Hl) in Hh.
      match type of Hh with H ?m1 = H ?m2 =>
        destruct (list_eq_dec N.eq_dec m1 m2) as [E|NE];
          [|right; exists m1, m2; split; [exact NE|exact Hh]] end.
      left. cbn [app] in E. injection E as _ E2 E3.
      assert (E3' : bits_to_bytes (s_pad bits) ++ [] = bits_to_bytes (s_pad bits') ++ [])
        by (rewrite !app_nil_r; exact E3).
      apply mp_pad_inj in E3'; [|exact E2]. destruct E3' as [-> _]. reflexivity.
    - apply Z.eqb_eq in Hp1. subst ty.
      assert (Ev : vs = []).
      { destruct (ex_wf_inv _ _ _ Hw1) as (_ & _ & _ & _ & Hty1).
        destruct Hty1 as [E|[(_ & Er & _)|[(E & _)|[(E & _)|(E & _)]]]]; try discriminate E. exact Er. }
      subst vs. right. apply (hi_pruned_vs_np bits ty' bits' ts l); assumption.
    - apply Z.eqb_eq in Hp2. subst ty'.
      assert (Et : ts = []).
      { destruct (ex_wf_inv _ _ _ Hw2) as (_ & _ & _ & _ & Hty2).
        destruct Hty2 as [E|[(_ & Er & _)|[(E & _)|[(E & _)|(E & _)]]]]; try discriminate E. exact Er. }
      subst ts. right. symmetry in Hh. apply (hi_pruned_vs_np bits' ty bits vs l); assumption.
    - destruct (mg_node_inj H H_len ty bits vs ty' bits' ts Hw1 Hw2 Hp1 Hp2 (S l) l ltac:(lia) Hh)
        as [Hc|(Ety & Eb & HF)]; [right; exact Hc|].
      subst ty' bits'.
      destruct (ex_wf_inv _ _ _ Hw1) as (_ & _ & Hwvs & _).
      destruct (ex_wf_inv _ _ _ Hw2) as (_ & _ & Hwts & _).
      assert (Hl' : (3 <= (if is_merkle ty then S l else l))%nat) by (destruct (is_merkle ty); lia).
      destruct (hi_exchildren _ Hl' vs ts IH Hwvs Hwts HF) as [->|Hc];
        [left; reflexivity|right; exact Hc].
  Qed.
End Exotic.

(* lift to the executable model, read through get_hash at the top level 3 *)
Section ExoticModel.
  Variable H : list N -> list N.
  Hypothesis H_len : forall m, length (H m) = 32%nat.

  Theorem exotic_build_hash_injective : forall c1 c2 k1 k2,
    wf_exotic c1 = true -> depth_okb H c1 = true -> wf_exotic c2 = true -> depth_okb H c2 = true ->
    build H c1 = Ok k1 -> build H c2 = Ok k2 ->
    get_hash k1 3 = get_hash k2 3 -> c1 = c2 \/ collision H.
  Proof using H H_len.
    intros c1 c2 k1 k2 Hw1 Hd1 Hw2 Hd2 Hb1 Hb2 Hh.
    destruct (exotic_levels H H_len c1 Hw1 Hd1) as (k1' & Hk1 & _ & Hl1).
    destruct (exotic_levels H H_len c2 Hw2 Hd2) as (k2' & Hk2 & _ & Hl2).
    rewrite Hb1 in Hk1. injection Hk1 as <-. rewrite Hb2 in Hk2. injection Hk2 as <-.
    destruct (Hl1 3%nat ltac:(lia)) as [G1 _]. destruct (Hl2 3%nat ltac:(lia)) as [G2 _].
    change (N.of_nat 3) with 3 in G1, G2. rewrite G1, G2 in Hh. injection Hh as Hh.
    apply (exotic_hash_injective H H_len c1 c2 3); [assumption|assumption|lia|exact Hh].
  Qed.
End ExoticModel.

(* ------------------------------------------------------------------ *)
(* Cell.hash (the last cached hash) of a built tree is the level-3 hash *)
(* ------------------------------------------------------------------ *)
Lemma hi_last_map {A B} (f : A -> B) : forall l d d', l <> [] -> last (map f l) d = f (last l d').
Proof.
  induction l as [|a l IH]; intros d d' Hne; [congruence|].
  destruct l as [|b l]; [reflexivity|].
  change (last (map f (a :: b :: l)) d) with (last (map f (b :: l)) d).
  change (last (a :: b :: l) d') with (last (b :: l) d').
  apply IH. discriminate.
Qed.

Lemma hi_sigl_last m : m <= 7 -> last (ex_sigl m (N.to_nat (lm_level m) + 1)) 0%nat = ex_eff m 3.
Proof.
  intro Hm.
  assert (Hc : allb_below 8 (fun m =>
            Nat.eqb (last (ex_sigl m (N.to_nat (lm_level m) + 1)) 0%nat) (ex_eff m 3)) = true)
    by (vm_compute; reflexivity).
  pose proof (allb_below_spec _ _ Hc m ltac:(lia)) as Hc1. cbv beta in Hc1.
  apply Nat.eqb_eq in Hc1. exact Hc1.
Qed.

Section TopHash.
  Variable H : list N -> list N.
  Hypothesis H_len : forall m, length (H m) = 32%nat.

  Lemma hi_mk_np ty bits rs krefs :
    (ty =? ty_pruned)%Z = false ->
    Forall2 (ex_rel H) rs krefs ->
    resolve_mask ty bits krefs = Ok (s_mask (Cell ty bits rs)) ->
    (length bits <= 1023)%nat -> (length rs <= 4)%nat ->
    s_mask (Cell ty bits rs) <= 7 ->
    (forall l, (l <= 3)%nat -> s_depth_at H (Cell ty bits rs) l <= 1023) ->
    exists k, mk_cell H ty bits krefs = Ok k /\ k_hash k = s_hash_at H (Cell ty bits rs) 3.
  Proof.
    intros Hp HR Hres Hlb Hlr Hm Hdep.
    pose proof (ex_Forall2_length _ _ _ HR) as Hlen.
    pose proof (ex_size_le3 _ Hm) as Hsz.
    unfold mk_cell. rewrite Hres. cbn [bind]. cbv zeta. rewrite Hp, N.sub_diag.
    rewrite (ex_loop_np H ty bits rs krefs Hp HR Hlb Hlr Hm Hdep) by (unfold lm_level, bit_length; lia).
    cbn [bind]. rewrite <- Hlen.
    rewrite (ex_refs_descriptor _ _ _ Hlr Hm). cbn [bind].
    rewrite (ex_bits_descriptor _ Hlb). cbn [bind].
    set (c := Cell ty bits rs) in *. set (m := s_mask c) in *.
    set (sl := ex_sigl m (N.to_nat (lm_level m) + 1)).
    assert (Hne : sl <> []).
    { pose proof (ex_sigl_nth m 0 Hm ltac:(lia)) as Hn. fold sl in Hn. intro E. rewrite E in Hn.
      destruct (N.to_nat _); discriminate. }
    destruct (map (s_hash_at H c) sl) as [|h0 hs'] eqn:Emap; [apply map_eq_nil in Emap; congruence|].
    rewrite <- Emap. clear Emap h0 hs'.
    eexists. split; [reflexivity|].
    unfold k_hash. cbn [k_hashes].
    rewrite (hi_last_map (s_hash_at H c) sl [] 0%nat Hne).
    unfold sl. rewrite (hi_sigl_last m Hm).
    unfold s_hash_at. f_equal. symmetry. apply (ex_s_hd_eff H ty bits rs 3 Hp).
  Qed.

  Lemma hi_mk_pruned bits :
    (length bits <= 1023)%nat ->
    1 <= s_mask (Cell ty_pruned bits []) <= 7 ->
    resolve_mask ty_pruned bits [] = Ok (s_mask (Cell ty_pruned bits [])) ->
    exists k, mk_cell H ty_pruned bits [] = Ok k /\ k_hash k = s_hash_at H (Cell ty_pruned bits []) 3.
  Proof.
    intros Hlb Hm Hres.
    rewrite (hi_pruned_top H bits 3) by lia.
    unfold mk_cell. rewrite Hres. cbn [bind]. cbv zeta.
    set (c := Cell ty_pruned bits []) in *. set (m := s_mask c) in *.
    change (ty_pruned =? ty_pruned)%Z with true. cbv iota.
    rewrite N.add_sub. change (lm_hash_index m) with (popcount m).
    rewrite (ex_loop_pruned H bits m Hm Hlb). cbn [bind length].
    change (is_exotic ty_pruned) with true.
    rewrite (ex_refs_descriptor 0 true m ltac:(lia) ltac:(lia)). cbn [bind].
    rewrite (ex_bits_descriptor _ Hlb). cbn [bind].
    eexists. split; [reflexivity|].
    unfold k_hash. cbn [k_hashes last]. rewrite ex_data_bytes_pad. reflexivity.
  Qed.

  Lemma build_exotic_hash : forall c k, wf_exotic c = true -> depth_okb H c = true ->
    build H c = Ok k -> k_hash k = s_hash_at H c 3.
  Proof.
    intros [ty bits rs] k Hwf Hd Hb.
    destruct (ex_wf_inv _ _ _ Hwf) as (Hlb & Hlr & Hwrs & Hm & Hty).
    destruct (ex_depth_okb_inv H _ _ _ Hd) as (Hdep & Hdrs).
    assert (IH : Forall (ex_P H) rs) by (apply Forall_forall; intros x _; apply ex_build_all).
    destruct (ex_mapM'_build H rs IH Hwrs Hdrs) as (krefs & Hks & HR).
    rewrite ex_build_eq, Hks in Hb. cbn [bind] in Hb.
    assert (Hgoal : exists k', mk_cell H ty bits krefs = Ok k' /\ k_hash k' = s_hash_at H (Cell ty bits rs) 3).
    { destruct Hty as [E|[(E & Ers & H1 & Hbl)|[(E & Ers)|[(E & Ers)|(E & Ers)]]]]; subst ty.
      - apply hi_mk_np; try assumption; [reflexivity|].
        unfold resolve_mask. change (ty_ordinary =? ty_ordinary)%Z with true. cbv iota.
        rewrite (ex_fold_mask H rs krefs HR), N.lor_0_l. reflexivity.
      - subst rs. inversion HR; subst.
        apply hi_mk_pruned; [assumption|lia|].
        unfold resolve_mask.
        change (ty_pruned =? ty_ordinary)%Z with false. change (ty_pruned =? ty_pruned)%Z with true.
        cbv iota.
        destruct (slice bits 8 16) as [|b s] eqn:Es.
        + exfalso. apply (f_equal (@length bool)) in Es. unfold slice in Es.
          rewrite firstn_length, skipn_length in Es. cbn [length] in Es. lia.
        + rewrite <- Es. reflexivity.
      - subst rs. inversion HR; subst.
        apply hi_mk_np; try assumption; reflexivity.
      - destruct rs as [|r [|r' rs]]; try discriminate.
        inversion HR as [|r0 k0 rs0 ks0 Hr0 HR0]; subst. inversion HR0; subst.
        apply hi_mk_np; try assumption; [reflexivity|].
        destruct Hr0 as [Hmk _].
        change (resolve_mask ty_mproof bits [k0]) with (@Ok N (N.shiftr (k_mask k0) 1)).
        rewrite Hmk. reflexivity.
      - destruct rs as [|r [|r' [|r'' rs]]]; try discriminate.
        inversion HR as [|r0 k0 rs0 ks0 Hr0 HR0]; subst.
        inversion HR0 as [|r1 k1 rs1 ks1 Hr1 HR1]; subst. inversion HR1; subst.
        apply hi_mk_np; try assumption; [reflexivity|].
        destruct Hr0 as [Hmk0 _]. destruct Hr1 as [Hmk1 _].
        change (resolve_mask ty_mupdate bits [k0; k1])
          with (@Ok N (N.shiftr (N.lor (k_mask k0) (k_mask k1)) 1)).
        rewrite Hmk0, Hmk1. reflexivity. }
    destruct Hgoal as (k' & Hk' & Hh'). rewrite Hb in Hk'. injection Hk' as <-. exact Hh'.
  Qed.

  (* Cell.hash of two built trees of any cell types *)
  Theorem exotic_build_khash_injective : forall c1 c2 k1 k2,
    wf_exotic c1 = true -> depth_okb H c1 = true -> wf_exotic c2 = true -> depth_okb H c2 = true ->
    build H c1 = Ok k1 -> build H c2 = Ok k2 ->
    k_hash k1 = k_hash k2 -> c1 = c2 \/ collision H.
  Proof using H H_len.
    intros c1 c2 k1 k2 Hw1 Hd1 Hw2 Hd2 Hb1 Hb2 Hh.
    rewrite (build_exotic_hash c1 k1 Hw1 Hd1 Hb1), (build_exotic_hash c2 k2 Hw2 Hd2 Hb2) in Hh.
    apply (exotic_hash_injective H H_len c1 c2 3); [assumption|assumption|lia|exact Hh].
  Qed.
End TopHash.
