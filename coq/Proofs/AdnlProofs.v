(* Proofs for C20: ADNL channel symmetry, Python bytes ordering, signature and mnemonic glue.
   The cryptographic primitives stay parameters; their laws are hypotheses of the statements. *)
From Coq Require Import NArith ZArith List Bool Lia ZifyN ZifyBool ZifyNat.
From PTQ Require Import Base.Result Base.Bytes Base.Bits Model.Adnl.
Import ListNotations.
Local Open Scope N_scope.

(* ---- list helpers ---- *)

Lemma firstn_app_exact {A} : forall (n : nat) (x y : list A), length x = n -> firstn n (x ++ y) = x.
Proof.
  intros n x y Hl. subst n. induction x as [|a x IH]; cbn [length app firstn].
  - reflexivity.
  - rewrite IH. reflexivity.
Qed.

Lemma skipn_app_exact {A} : forall (n : nat) (x y : list A), length x = n -> skipn n (x ++ y) = y.
Proof.
  intros n x y Hl. subst n. induction x as [|a x IH]; cbn [length app skipn].
  - reflexivity.
  - exact IH.
Qed.

(* ---- bytes ordering ---- *)

Lemma bytes_cmp_spec : forall a b,
  bytes_cmp b a = CompOpp (bytes_cmp a b) /\ (bytes_cmp a b = Eq <-> a = b).
Proof.
  induction a as [|x a IH]; intros [|y b]; cbn [bytes_cmp CompOpp].
  - split; [reflexivity|]. split; reflexivity.
  - split; [reflexivity|]. split; discriminate.
  - split; [reflexivity|]. split; discriminate.
  - destruct (IH b) as [IHo IHe]. rewrite (N.compare_antisym x y).
    destruct (x ?= y) eqn:Exy; cbn [CompOpp].
    + apply N.compare_eq_iff in Exy. subst y. split; [exact IHo|]. split.
      * intro Hc. apply IHe in Hc. subst b. reflexivity.
      * intro Heq. inversion Heq; subst b. apply IHe. reflexivity.
    + split; [reflexivity|]. split; [discriminate|].
      intro Heq. inversion Heq; subst. rewrite N.compare_refl in Exy. discriminate.
    + split; [reflexivity|]. split; [discriminate|].
      intro Heq. inversion Heq; subst. rewrite N.compare_refl in Exy. discriminate.
Qed.

(* ---- the channel ---- *)

Lemma cipher_params_ok : forall key data,
  length key = 32%nat -> length data = 32%nat ->
  exists k iv, cipher_params key data = Ok (k, iv).
Proof.
  intros key data Hk Hd. unfold cipher_params.
  assert (Hl : length (firstn 16 key ++ slice data 16 32) = 32%nat).
  { unfold slice. rewrite app_length, !firstn_length, skipn_length, Hk, Hd. reflexivity. }
  rewrite Hl. cbn [Nat.eqb]. eexists. eexists. reflexivity.
Qed.

Lemma channel_roundtrip : forall H ctr (A B : channel) m,
  (forall x, length (H x) = 32%nat) ->
  (forall k iv d, ctr k iv (ctr k iv d) = d) ->
  length (enc_key A) = 32%nat ->
  length (client_key_id A) = 32%nat ->
  dec_key B = enc_key A ->
  server_key_id B = client_key_id A ->
  exists p, encrypt H ctr A m = Ok p /\
    packet_checksum p = H m /\
    packet_key_id p = server_key_id B /\
    decrypt ctr B (packet_payload p) (packet_checksum p) = Ok m.
Proof.
  intros H ctr A B m HlenH Hctr Hkey Hkid Hdec Hsrv.
  destruct (cipher_params_ok (enc_key A) (H m) Hkey (HlenH m)) as (k & iv & Ec).
  unfold encrypt. rewrite Ec. cbn [bind].
  eexists. split; [reflexivity|].
  assert (Hcs : packet_checksum (client_key_id A ++ H m ++ ctr k iv m) = H m).
  { unfold packet_checksum, slice. rewrite (skipn_app_exact 32 _ _ Hkid).
    change (64 - 32)%nat with 32%nat. apply firstn_app_exact. apply HlenH. }
  assert (Hpl : packet_payload (client_key_id A ++ H m ++ ctr k iv m) = ctr k iv m).
  { unfold packet_payload. rewrite app_assoc. apply skipn_app_exact.
    rewrite app_length, Hkid, HlenH. reflexivity. }
  split; [exact Hcs|]. split.
  - unfold packet_key_id. rewrite Hsrv. apply firstn_app_exact. exact Hkid.
  - rewrite Hcs, Hpl. unfold decrypt. rewrite Hdec, Ec. cbn [bind]. rewrite Hctr. reflexivity.
Qed.

Lemma channel_symmetric : forall H dh ctr xprivA xpubA xprivB xpubB idA idB m,
  (forall x, length (H x) = 32%nat) ->
  dh xprivA xpubB = dh xprivB xpubA -> length (dh xprivA xpubB) = 32%nat ->
  (forall k iv d, ctr k iv (ctr k iv d) = d) ->
  let A := mk_channel H dh xprivA xpubB idA idB in
  let B := mk_channel H dh xprivB xpubA idB idA in
  exists p, encrypt H ctr A m = Ok p /\
    packet_checksum p = H m /\
    packet_key_id p = server_key_id B /\
    decrypt ctr B (packet_payload p) (packet_checksum p) = Ok m.
Proof.
  intros H dh ctr xprivA xpubA xprivB xpubB idA idB m HlenH Hdh Hlen Hctr A B.
  apply channel_roundtrip; [exact HlenH|exact Hctr| | | |];
    unfold A, B, mk_channel; try rewrite <- Hdh;
    try rewrite (proj1 (bytes_cmp_spec idA idB));
    destruct (bytes_cmp idA idB);
    cbn [CompOpp enc_key dec_key client_key_id server_key_id];
    unfold get_key_aes_id;
    try rewrite rev_length; try reflexivity; try exact Hlen; try apply HlenH.
Qed.

(* ---- signature glue ---- *)

Lemma sign_then_verify : forall crypto_sign verify_raw pk sk msg,
  (forall m, verify_raw pk m (firstn 64 (crypto_sign m sk)) = Some tt) ->
  verify_sign verify_raw pk msg (sign_message crypto_sign msg sk) = true.
Proof.
  intros crypto_sign verify_raw pk sk msg Hv.
  unfold verify_sign, sign_message. rewrite Hv. reflexivity.
Qed.

(* ---- mnemonic ---- *)

Lemma mnemonic_new_valid : forall basic fuel cand i ws,
  (forall k, length (cand k) = 24%nat) ->
  mnemonic_new basic fuel cand i = Ok ws -> mnemonic_is_valid basic ws = true.
Proof.
  intros basic fuel cand. induction fuel as [|f IH]; intros i ws Hlen; cbn [mnemonic_new].
  - discriminate.
  - destruct (basic (cand i)) eqn:Eb.
    + intro Hok. inversion Hok; subst ws. unfold mnemonic_is_valid.
      rewrite Hlen, Eb. reflexivity.
    + intro Hok. exact (IH (S i) ws Hlen Hok).
Qed.

Lemma random_index_bound : forall r0 r1, secure_random_2048 r0 r1 < 2048.
Proof.
  intros r0 r1. unfold secure_random_2048.
  change 2047 with (N.ones 11). rewrite N.land_ones.
  change 2048 with (2 ^ 11). apply N.mod_lt. discriminate.
Qed.
