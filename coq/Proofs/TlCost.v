(* C19 proofs for the TL deserializer (Model/Tl.v, tl/generator.py TlSchemas.deserialize): the number of
   iterations of its loops, and the size of every list it returns, is bounded by the List.length of the input
   and not by a count / List.length field read from it.  Every statement is either about [dstep] with an ARBITRARY
   recursive call [rec] (so it cannot depend on the fuel), or quantifies over all fuels. *)
From Coq Require Import NArith ZArith List Bool String Lia ZifyBool ZifyNat ZifyN Arith.
From PTQ Require Import Base.Result Base.Bytes Base.Bits Model.Tl Spec.TlSpec Gen.TlSchemaTable Proofs.TlProofs.
Import ListNotations.
Local Open Scope nat_scope.

(* ------------------------------------------------------------------ *)
(* 0. slices                                                           *)
(* ------------------------------------------------------------------ *)
Lemma bslice_length (d : list N) a b : List.length (bslice d a b) <= List.length d - a.
Proof. unfold bslice. rewrite firstn_length, skipn_length. lia. Qed.

Lemma bslice_length_le (d : list N) a b : List.length (bslice d a b) <= List.length d.
Proof. pose proof (bslice_length d a b). lia. Qed.

Lemma bslice_past (d : list N) a b : List.length d <= a -> bslice d a b = [].
Proof.
  intros H. pose proof (bslice_length d a b) as L.
  destruct (bslice d a b); [reflexivity|cbn [List.length] in L; lia].
Qed.

Lemma dprefix_i1 d i blen attach i1 : dprefix d i = (blen, attach, i1) -> i + 1 <= i1.
Proof.
  rewrite dprefix_eq. destruct (bslice d i (i + 1)) as [|x [|y r]].
  - intros H; inversion H; lia.
  - destruct (x =? 254)%N; intros H; inversion H; lia.
  - intros H; inversion H; lia.
Qed.

Lemma dstep_err tbl rec d boxed c e a : dstep tbl rec d boxed c (Err e) a = Err e.
Proof. reflexivity. Qed.

Lemma fold_dstep_err tbl rec d boxed c e : forall args, fold_left (dstep tbl rec d boxed c) args (Err e) = Err e.
Proof. induction args as [|a r IH]; [reflexivity|]. cbn [fold_left]. rewrite dstep_err. exact IH. Qed.

Lemma dstep_absent_id tbl rec d boxed c i fs a :
  present_m fs a = Ok false -> dstep tbl rec d boxed c (Ok (i, fs)) a = Ok (i, fs).
Proof. intros H. unfold dstep. cbn [bind]. rewrite H. reflexivity. Qed.

(* ------------------------------------------------------------------ *)
(* 1. vectors                                                          *)
(* ------------------------------------------------------------------ *)

(* the element loop runs exactly k times when it succeeds *)
Lemma dloop_length rec tbl d el en nm : forall k i acc i2 items,
  dloop rec tbl d el en nm k i acc = Ok (i2, items) -> List.length items = List.length acc + k.
Proof.
  induction k as [|k IH]; intros i acc i2 items H.
  - rewrite dloop_0 in H. inversion H. lia.
  - rewrite dloop_S in H.
    destruct (if flat_ty el then delem (rec (skipn i d) false (Some (elem_ctor el)))
              else if nm then rec (skipn i d) false (by_name tbl en) else rec (skipn i d) true None)
      as [[x j]|e]; cbn [bind] in H; [|discriminate].
    apply IH in H. rewrite app_length in H. cbn [List.length] in H. lia.
Qed.

(* a vector field that is accepted: the count read from the 4-byte prefix is the number of elements returned,
   and it is at most the number of input bytes that follow the prefix.  [rec] is arbitrary. *)
Theorem vector_step_bounded : forall tbl rec d boxed c i fs a el en nm r,
  a_ty a = TVector el en nm -> present_m fs a = Ok true ->
  dstep tbl rec d boxed c (Ok (i, fs)) a = Ok r ->
  exists i2 items, r = (i2, fs ++ [(a_field a, TVVec items)]) /\
    List.length items = N.to_nat (of_le (bslice d i (i + 4))) /\
    i + 4 + List.length items <= List.length d.
Proof.
  intros tbl rec d boxed c i fs a el en nm r Ht Hp H.
  unfold dstep in H. cbn [bind] in H. rewrite Hp in H. cbn [bind negb] in H. rewrite Ht in H. cbv zeta in H.
  destruct (Z.of_nat (List.length d) - Z.of_nat (i + 4) <? Z.of_N (of_le (bslice d i (i + 4))))%Z eqn:E; [discriminate|].
  destruct (dloop rec tbl d el en nm (N.to_nat (of_le (bslice d i (i + 4)))) (i + 4) []) as [[i2 items]|e] eqn:L;
    cbn [bind] in H; [|discriminate].
  inversion H; subst r. exists i2, items. split; [reflexivity|].
  apply dloop_length in L. cbn [List.length] in L. split; lia.
Qed.

(* a count that announces more elements than there are bytes left is refused by the early check: the result is
   the same error for EVERY recursive call [rec], so no element is parsed and the fuel plays no part *)
Theorem vector_step_reject : forall tbl rec d boxed c i fs a el en nm,
  a_ty a = TVector el en nm -> present_m fs a = Ok true ->
  List.length d - (i + 4) < N.to_nat (of_le (bslice d i (i + 4))) ->
  dstep tbl rec d boxed c (Ok (i, fs)) a = Err ETl.
Proof.
  intros tbl rec d boxed c i fs a el en nm Ht Hp Hc.
  unfold dstep. cbn [bind]. rewrite Hp. cbn [bind negb]. rewrite Ht. cbv zeta.
  destruct (Z.of_nat (List.length d) - Z.of_nat (i + 4) <? Z.of_N (of_le (bslice d i (i + 4))))%Z eqn:E; [reflexivity|lia].
Qed.

(* the same two facts for the deserializer itself, on the constructor with one unconditional vector field
   (this is how a bare vector is read), for every fuel *)
Definition vec_ctor (id : list N) (nm cls fld : string) (el : tltype) (en : string) (named : bool) : tl_ctor :=
  mkCtor id nm cls [mkArg fld None false (TVector el en named)].

Theorem deser_vector_bounded : forall tbl fuel d id nm cls fld el en named v j,
  deser tbl fuel d false (Some (vec_ctor id nm cls fld el en named)) = Ok (v, j) ->
  exists items, v = TVObj "" [(fld, TVVec items)] /\
    List.length items = N.to_nat (of_le (bslice d 0 4)) /\ 4 + List.length items <= List.length d.
Proof.
  intros tbl fuel d id nm cls fld el en named v j H.
  destruct fuel as [|f]; [discriminate|]. rewrite deser_S in H. cbv zeta in H.
  cbn [vec_ctor c_args fold_left] in H.
  destruct (dstep tbl (deser tbl f) d false (vec_ctor id nm cls fld el en named) (Ok (0, []))
                  (mkArg fld None false (TVector el en named))) as [r|e] eqn:S; cbn [bind] in H.
  - apply (vector_step_bounded _ _ _ _ _ _ _ _ el en named) in S; [|reflexivity|reflexivity].
    destruct S as (i2 & items & -> & L1 & L2). inversion H. exists items. cbn [app a_field].
    split; [reflexivity|]. split; [exact L1|exact L2].
  - discriminate.
Qed.

Theorem deser_vector_reject : forall tbl d id nm cls fld el en named,
  List.length d - 4 < N.to_nat (of_le (bslice d 0 4)) ->
  forall fuel, deser tbl (S fuel) d false (Some (vec_ctor id nm cls fld el en named)) = Err ETl.
Proof.
  intros tbl d id nm cls fld el en named Hc fuel. rewrite deser_S. cbv zeta.
  cbn [vec_ctor c_args fold_left].
  rewrite (vector_step_reject tbl (deser tbl fuel) d false _ 0 [] _ el en named); [reflexivity|reflexivity|reflexivity|].
  exact Hc.
Qed.

Corollary deser_vector_reject_any_fuel : forall tbl d id nm cls fld el en named,
  List.length d - 4 < N.to_nat (of_le (bslice d 0 4)) ->
  forall fuel, exists e, deser tbl fuel d false (Some (vec_ctor id nm cls fld el en named)) = Err e.
Proof.
  intros tbl d id nm cls fld el en named Hc [|f]; [exists ERecursion; reflexivity|].
  exists ETl. apply deser_vector_reject. exact Hc.
Qed.

(* ------------------------------------------------------------------ *)
(* 2. bytes / string                                                   *)
(* ------------------------------------------------------------------ *)
Lemma dmore_S rec d i1 blen payload n j acc :
  dmore rec d i1 blen payload (S n) j acc =
  if j <? blen then
    bind (rec (bslice d (i1 + j) (i1 + blen)) true None) (fun '(t2, jj) =>
    if jj =? 0 then Ok (TVBytes payload) else dmore rec d i1 blen payload n (j + jj) (acc ++ [t2]))
  else Ok (TVVec acc).
Proof. reflexivity. Qed.

(* the loop over concatenated objects: what it returns is the payload itself or a list with no more elements
   than bytes of [d] after offset i1 + j (every round but the last consumes at least one byte that exists) *)
Lemma dmore_inv rec d i1 blen payload (P : tv -> Prop) :
  (forall a b v j, rec (bslice d a b) true None = Ok (v, j) -> P v) ->
  (forall v j, rec [] true None = Ok (v, j) -> j = 0) ->
  forall n j acc v, dmore rec d i1 blen payload n j acc = Ok v -> Forall P acc ->
    v = TVBytes payload \/
    exists acc', v = TVVec acc' /\ Forall P acc' /\ List.length acc' <= List.length acc + (List.length d - i1 - j).
Proof.
  intros Hrec Hnz. induction n as [|n IH]; intros j acc v H HA; [discriminate|].
  rewrite dmore_S in H. destruct (j <? blen) eqn:Ej.
  - destruct (rec (bslice d (i1 + j) (i1 + blen)) true None) as [[t2 jj]|e] eqn:R; cbn [bind] in H; [|discriminate].
    destruct (jj =? 0) eqn:Ejj.
    + left. inversion H. reflexivity.
    + assert (Hj : j < List.length d - i1).
      { destruct (le_lt_dec (List.length d - i1) j) as [Hge|Hlt]; [exfalso|exact Hlt].
        rewrite (bslice_past d (i1 + j) (i1 + blen)) in R by lia. apply Hnz in R. subst jj. discriminate. }
      apply IH in H.
      * destruct H as [H|(acc' & -> & F & Len)]; [left; exact H|right].
        exists acc'. split; [reflexivity|]. split; [exact F|].
        rewrite app_length in Len. cbn [List.length] in Len. lia.
      * apply Forall_app. split; [exact HA|]. constructor; [|constructor]. exact (Hrec _ _ _ _ R).
  - right. inversion H. exists acc. split; [reflexivity|]. split; [exact HA|lia].
Qed.

(* the value of an accepted bytes / string field: the payload slice, what the recursive call made of the payload
   slice, or a list of at most (bytes after the prefix) objects *)
Lemma bytes_val_inv rec d i1 blen (boxed : bool) (c : tl_ctor) (a : tl_arg) (P : tv -> Prop) val :
  (forall a b v j, rec (bslice d a b) true None = Ok (v, j) -> P v) ->
  (forall v j, rec [] true None = Ok (v, j) -> j = 0) ->
  (if (if boxed then untouchable (c_name c) (a_field a) else false)
   then Ok (TVBytes (bslice d i1 (i1 + blen)))
   else bind (rec (bslice d i1 (i1 + blen)) true None) (fun '(temp, j) =>
        if j <? blen then dmore rec d i1 blen (bslice d i1 (i1 + blen)) (S blen) j [temp] else Ok temp)) = Ok val ->
  val = TVBytes (bslice d i1 (i1 + blen)) \/
  (exists j, rec (bslice d i1 (i1 + blen)) true None = Ok (val, j)) \/
  exists acc, val = TVVec acc /\ Forall P acc /\ List.length acc <= List.length d - i1.
Proof.
  intros Hrec Hnz H.
  destruct (if boxed then untouchable (c_name c) (a_field a) else false).
  - left. inversion H. reflexivity.
  - destruct (rec (bslice d i1 (i1 + blen)) true None) as [[temp j]|e] eqn:R; cbn [bind] in H; [|discriminate].
    destruct (j <? blen) eqn:Ej.
    + destruct j as [|j].
      * (* nothing consumed: the next round reads the same slice, consumes nothing, and the payload is returned *)
        rewrite dmore_S, Ej, Nat.add_0_r, R in H. cbn [bind Nat.eqb] in H. left. inversion H. reflexivity.
      * assert (HL : 1 <= List.length d - i1).
        { destruct (le_lt_dec 1 (List.length d - i1)) as [Hge|Hlt]; [exact Hge|exfalso].
          rewrite (bslice_past d i1 (i1 + blen)) in R by lia. apply Hnz in R. discriminate. }
        apply (dmore_inv rec d i1 blen _ P Hrec Hnz) in H.
        -- destruct H as [H|(acc & -> & F & Len)]; [left; exact H|right; right].
           exists acc. split; [reflexivity|]. split; [exact F|]. cbn [List.length] in Len. lia.
        -- constructor; [|constructor]. exact (Hrec _ _ _ _ R).
    + right; left. inversion H; subst val. exists j. reflexivity.
Qed.

(* what the recursive call may return for a boxed parse: the data itself (unknown id) or an object *)
Definition rec_raw (rec : rec_ty) : Prop :=
  forall d' v j, rec d' true None = Ok (v, j) -> v = TVBytes d' \/ exists n fs, v = TVObj n fs.
(* ... and on empty data it consumes nothing *)
Definition rec_nz (rec : rec_ty) : Prop := forall v j, rec [] true None = Ok (v, j) -> j = 0.

Lemma bytes_arm_eq tbl rec d boxed c i fs a :
  a_ty a = TBytes \/ a_ty a = TString -> present_m fs a = Ok true ->
  dstep tbl rec d boxed c (Ok (i, fs)) a =
  let '(blen, attach, i1) := dprefix d i in
  let payload := bslice d i1 (i1 + blen) in
  bind (if (if boxed then untouchable (c_name c) (a_field a) else false)
        then Ok (TVBytes payload)
        else
          bind (rec payload true None) (fun '(temp, j) =>
          if (j <? blen)%nat then dmore rec d i1 blen payload (S blen) j [temp]
          else Ok temp)) (fun val =>
  let i2 := (i1 + blen)%nat in
  let i3 := dskip blen attach i2 in
  bind (match a_ty a, val with
        | TString, TVBytes l => if valid_utf8 (S (List.length l)) l then Ok (TVStr l) else Err EValue
        | TString, _ => Err EAttr
        | _, x => Ok x
        end) (fun val' => Ok (i3, fs ++ [(a_field a, val')]))).
Proof.
  intros Ht Hp. unfold dstep. cbn [bind]. rewrite Hp. cbn [bind negb].
  destruct Ht as [Ht|Ht]; rewrite Ht; reflexivity.
Qed.

(* an accepted bytes / string field: a returned byte string (or str) is a slice of the input that starts after the
   List.length prefix, so it is no longer than what was left of the input - whatever List.length the prefix announced; and a
   returned list of concatenated objects has no more elements than that *)
Theorem bytes_step_bounded : forall tbl rec d boxed c i fs a r,
  rec_raw rec -> rec_nz rec ->
  a_ty a = TBytes \/ a_ty a = TString -> present_m fs a = Ok true ->
  dstep tbl rec d boxed c (Ok (i, fs)) a = Ok r ->
  exists val, snd r = fs ++ [(a_field a, val)] /\
    (forall l, val = TVBytes l \/ val = TVStr l -> List.length l <= List.length d - (i + 1)) /\
    (forall l, val = TVVec l -> List.length l <= List.length d - (i + 1)).
Proof.
  intros tbl rec d boxed c i fs a r Hraw Hnz Ht Hp H.
  rewrite (bytes_arm_eq _ _ _ _ _ _ _ _ Ht Hp) in H.
  destruct (dprefix d i) as [[blen attach] i1] eqn:DP. apply dprefix_i1 in DP. cbv zeta in H.
  match type of H with bind ?X _ = _ => destruct X as [val|e] eqn:V end; cbn [bind] in H; [|discriminate].
  apply (bytes_val_inv rec d i1 blen boxed c a (fun _ => True)) in V; [|intros; exact I|exact Hnz].
  pose proof (bslice_length d i1 (i1 + blen)) as PL.
  assert (Hval : (exists l, val = TVBytes l /\ List.length l <= List.length d - (i + 1)) \/ (exists n xs, val = TVObj n xs) \/
                 exists acc, val = TVVec acc /\ List.length acc <= List.length d - (i + 1)).
  { destruct V as [->|[(j & R)|(acc & -> & _ & Len)]].
    - left. eexists. split; [reflexivity|lia].
    - apply Hraw in R. destruct R as [->|(n & xs & ->)].
      + left. eexists. split; [reflexivity|lia].
      + right; left. exists n, xs. reflexivity.
    - right; right. exists acc. split; [reflexivity|lia]. }
  clear V. destruct Ht as [Ht|Ht]; rewrite Ht in H.
  - cbn [bind] in H. inversion H; subst r. exists val. cbn [snd]. split; [reflexivity|].
    destruct Hval as [(l0 & -> & L)|[(n & xs & ->)|(acc & -> & L)]]; split; intros l E;
      try (destruct E as [E|E]); try discriminate; inversion E; subst; exact L.
  - destruct Hval as [(l0 & -> & L)|[(n & xs & ->)|(acc & -> & L)]]; try discriminate.
    destruct (valid_utf8 (S (List.length l0)) l0); [|discriminate]. cbn [bind] in H. inversion H; subst r.
    exists (TVStr l0). cbn [snd]. split; [reflexivity|].
    split; intros l E; try (destruct E as [E|E]); try discriminate; inversion E; subst; exact L.
Qed.

(* the model's deserializer satisfies the two side conditions at every fuel *)
Lemma deser_raw tbl f : rec_raw (deser tbl f).
Proof.
  intros d v j H. destruct f as [|f]; [discriminate|]. rewrite deser_S in H. cbv zeta in H.
  destruct (by_id tbl (rev (bslice d 0 4))) as [c|].
  - destruct (fold_left (dstep tbl (deser tbl f) d true c) (c_args c) (Ok (4, []))) as [[i fs]|e];
      cbn [bind] in H; [|discriminate].
    inversion H. right. eexists _, _. reflexivity.
  - inversion H. left. reflexivity.
Qed.

Lemma deser_nz tbl f : by_id tbl [] = None -> rec_nz (deser tbl f).
Proof.
  intros Hid v j H. destruct f as [|f]; [discriminate|]. rewrite deser_S in H. cbv zeta in H.
  change (rev (bslice [] 0 4)) with (@nil N) in H. rewrite Hid in H. inversion H. reflexivity.
Qed.

(* the same for the deserializer itself, on a constructor with one unconditional bytes / string field, every fuel *)
Definition one_ctor (id : list N) (nm cls fld : string) (ty : tltype) : tl_ctor :=
  mkCtor id nm cls [mkArg fld None false ty].

Theorem deser_bytes_bounded : forall tbl fuel d id nm cls fld ty v j,
  by_id tbl [] = None -> ty = TBytes \/ ty = TString ->
  deser tbl fuel d false (Some (one_ctor id nm cls fld ty)) = Ok (v, j) ->
  exists val, v = TVObj "" [(fld, val)] /\
    (forall l, val = TVBytes l \/ val = TVStr l -> List.length l <= List.length d - 1) /\
    (forall l, val = TVVec l -> List.length l <= List.length d - 1).
Proof.
  intros tbl fuel d id nm cls fld ty v j Hid Ht H.
  destruct fuel as [|f]; [discriminate|]. rewrite deser_S in H. cbv zeta in H.
  cbn [one_ctor c_args fold_left] in H.
  destruct (dstep tbl (deser tbl f) d false (one_ctor id nm cls fld ty) (Ok (0, [])) (mkArg fld None false ty))
    as [r|e] eqn:S; cbn [bind] in H; [|discriminate].
  apply bytes_step_bounded in S; [|apply deser_raw|apply deser_nz; exact Hid|exact Ht|reflexivity].
  destruct S as (val & E & B1 & B2). destruct r as [i fs]. cbn [snd app a_field] in E. subst fs.
  inversion H. exists val. split; [reflexivity|]. split; [exact B1|exact B2].
Qed.

(* ------------------------------------------------------------------ *)
(* 3. the whole result: no list in it is longer than the input         *)
(* ------------------------------------------------------------------ *)

(* every list inside a value - byte strings, strs, hex strs, vectors - has at most B elements *)
Fixpoint tv_bounded (B : nat) (v : tv) : Prop :=
  match v with
  | TVBytes l | TVStr l | TVHex l => List.length l <= B
  | TVObj _ fs =>
      (fix go (fs : list (string * tv)) : Prop :=
         match fs with [] => True | p :: r => (let '(_, x) := p in tv_bounded B x) /\ go r end) fs
  | TVVec l =>
      List.length l <= B /\
      (fix go (l : list tv) : Prop := match l with [] => True | x :: r => tv_bounded B x /\ go r end) l
  | _ => True
  end.

Definition fields_bounded (B : nat) (fs : list (string * tv)) : Prop :=
  Forall (fun p : string * tv => tv_bounded B (snd p)) fs.

Lemma tv_bounded_obj B n fs : tv_bounded B (TVObj n fs) <-> fields_bounded B fs.
Proof.
  unfold fields_bounded. cbn [tv_bounded]. induction fs as [|[k x] r IH].
  - split; [constructor|exact (fun _ => I)].
  - split.
    + intros [Hx Hr]. constructor; [exact Hx|apply IH; exact Hr].
    + intros H. inversion H as [|? ? Hx Hr]; subst. split; [exact Hx|apply IH; exact Hr].
Qed.

Lemma tv_bounded_vec B l : tv_bounded B (TVVec l) <-> List.length l <= B /\ Forall (tv_bounded B) l.
Proof.
  cbn [tv_bounded]. apply and_iff_compat_l. induction l as [|x r IH].
  - split; [constructor|exact (fun _ => I)].
  - split.
    + intros [Hx Hr]. constructor; [exact Hx|apply IH; exact Hr].
    + intros H. inversion H as [|? ? Hx Hr]; subst. split; [exact Hx|apply IH; exact Hr].
Qed.

Lemma fields_snoc B fs k v : fields_bounded B fs -> tv_bounded B v -> fields_bounded B (fs ++ [(k, v)]).
Proof. intros HF Hv. apply Forall_app. split; [exact HF|]. constructor; [exact Hv|constructor]. Qed.

Lemma assoc_bounded B fs k v : fields_bounded B fs -> assoc fs k = Some v -> tv_bounded B v.
Proof.
  induction fs as [|[n x] r IH]; intros HF H; [discriminate|]. cbn [assoc] in H.
  inversion HF as [|? ? Hx Hr]; subst. destruct (String.eqb n k).
  - inversion H; subst. exact Hx.
  - exact (IH Hr H).
Qed.

Definition rec_bounded (rec : rec_ty) : Prop :=
  forall d b c v j B, rec d b c = Ok (v, j) -> List.length d <= B -> tv_bounded B v.

Lemma dloop_bounded rec tbl d el en nm B : rec_bounded rec -> List.length d <= B ->
  forall k i acc i2 items, dloop rec tbl d el en nm k i acc = Ok (i2, items) ->
  Forall (tv_bounded B) acc -> Forall (tv_bounded B) items.
Proof.
  intros Hb HB. induction k as [|k IH]; intros i acc i2 items H HA.
  - rewrite dloop_0 in H. inversion H; subst. exact HA.
  - rewrite dloop_S in H.
    assert (HS : List.length (skipn i d) <= B) by (rewrite skipn_length; lia).
    destruct (if flat_ty el then delem (rec (skipn i d) false (Some (elem_ctor el)))
              else if nm then rec (skipn i d) false (by_name tbl en) else rec (skipn i d) true None)
      as [[x j]|e] eqn:E; cbn [bind] in H; [|discriminate].
    apply IH in H; [exact H|]. apply Forall_app. split; [exact HA|]. constructor; [|constructor].
    destruct (flat_ty el).
    + unfold delem in E. destruct (rec (skipn i d) false (Some (elem_ctor el))) as [[x0 j0]|e0] eqn:R;
        cbn [bind] in E; [|discriminate].
      destruct x0 as [| | | | |ty xs| |]; try discriminate.
      destruct (assoc xs "") as [y|] eqn:A; [|discriminate]. inversion E; subst.
      apply (Hb _ _ _ _ _ B) in R; [|exact HS]. apply tv_bounded_obj in R. exact (assoc_bounded _ _ _ _ R A).
    + destruct nm; exact (Hb _ _ _ _ _ B E HS).
Qed.

Lemma dstep_bounded tbl rec d boxed c B : rec_bounded rec -> rec_nz rec -> List.length d <= B ->
  forall i fs a i' fs', fields_bounded B fs ->
  dstep tbl rec d boxed c (Ok (i, fs)) a = Ok (i', fs') -> fields_bounded B fs'.
Proof.
  intros Hb Hnz HB i fs a i' fs' HF H.
  destruct (present_m fs a) as [[|]|e] eqn:Hp.
  3:{ unfold dstep in H. cbn [bind] in H. rewrite Hp in H. discriminate. }
  2:{ rewrite dstep_absent_id in H by exact Hp. inversion H; subst. exact HF. }
  destruct (a_ty a) as [len k| | |cls|nm|el en named|nm|] eqn:Ht.
  - (* fixed width *)
    unfold dstep in H. cbn [bind] in H. rewrite Hp in H. cbn [bind negb] in H. rewrite Ht in H.
    destruct k; cbv zeta in H; inversion H; subst.
    + destruct (_ && _); [apply fields_snoc; [exact HF|exact I]|].
      destruct (_ && _); [apply fields_snoc; [exact HF|exact I]|exact HF].
    + apply fields_snoc; [exact HF|exact I].
    + apply fields_snoc; [exact HF|]. cbn [tv_bounded]. pose proof (bslice_length_le d i (i + len)). lia.
  - (* bytes *)
    rewrite (bytes_arm_eq _ _ _ _ _ _ _ _ (or_introl Ht) Hp) in H.
    destruct (dprefix d i) as [[blen attach] i1]. cbv zeta in H.
    match type of H with bind ?X _ = _ => destruct X as [val|e] eqn:V end; cbn [bind] in H; [|discriminate].
    apply (bytes_val_inv rec d i1 blen boxed c a (tv_bounded B)) in V; [| |exact Hnz].
    2:{ intros x y v j R. apply (Hb _ _ _ _ _ B) in R; [exact R|]. pose proof (bslice_length_le d x y). lia. }
    pose proof (bslice_length_le d i1 (i1 + blen)) as PL.
    assert (HV : tv_bounded B val).
    { destruct V as [->|[(j & R)|(acc & -> & F & Len)]].
      - cbn [tv_bounded]. lia.
      - apply (Hb _ _ _ _ _ B) in R; [exact R|lia].
      - apply tv_bounded_vec. split; [lia|exact F]. }
    rewrite Ht in H. cbn [bind] in H. inversion H; subst. apply fields_snoc; [exact HF|exact HV].
  - (* string *)
    rewrite (bytes_arm_eq _ _ _ _ _ _ _ _ (or_intror Ht) Hp) in H.
    destruct (dprefix d i) as [[blen attach] i1]. cbv zeta in H.
    match type of H with bind ?X _ = _ => destruct X as [val|e] eqn:V end; cbn [bind] in H; [|discriminate].
    apply (bytes_val_inv rec d i1 blen boxed c a (tv_bounded B)) in V; [| |exact Hnz].
    2:{ intros x y v j R. apply (Hb _ _ _ _ _ B) in R; [exact R|]. pose proof (bslice_length_le d x y). lia. }
    pose proof (bslice_length_le d i1 (i1 + blen)) as PL.
    assert (HV : tv_bounded B val).
    { destruct V as [->|[(j & R)|(acc & -> & F & Len)]].
      - cbn [tv_bounded]. lia.
      - apply (Hb _ _ _ _ _ B) in R; [exact R|lia].
      - apply tv_bounded_vec. split; [lia|exact F]. }
    rewrite Ht in H. destruct val as [| |l| | | | |]; try discriminate.
    destruct (valid_utf8 (S (List.length l)) l); [|discriminate]. cbn [bind] in H. inversion H; subst.
    apply fields_snoc; [exact HF|exact HV].
  - (* boxed *)
    unfold dstep in H. cbn [bind] in H. rewrite Hp in H. cbn [bind negb] in H. rewrite Ht in H.
    destruct (rec (skipn i d) true None) as [[x j]|e] eqn:R; cbn [bind] in H; [|discriminate].
    inversion H; subst. apply fields_snoc; [exact HF|]. apply (Hb _ _ _ _ _ B) in R; [exact R|].
    rewrite skipn_length. lia.
  - (* bare *)
    unfold dstep in H. cbn [bind] in H. rewrite Hp in H. cbn [bind negb] in H. rewrite Ht in H.
    destruct (rec (skipn i d) false (by_name tbl nm)) as [[x j]|e] eqn:R; cbn [bind] in H; [|discriminate].
    inversion H; subst. apply fields_snoc; [exact HF|]. apply (Hb _ _ _ _ _ B) in R; [|rewrite skipn_length; lia].
    destruct x; exact R.
  - (* vector *)
    unfold dstep in H. cbn [bind] in H. rewrite Hp in H. cbn [bind negb] in H. rewrite Ht in H. cbv zeta in H.
    destruct (Z.of_nat (List.length d) - Z.of_nat (i + 4) <? Z.of_N (of_le (bslice d i (i + 4))))%Z eqn:E; [discriminate|].
    destruct (dloop rec tbl d el en named (N.to_nat (of_le (bslice d i (i + 4)))) (i + 4) []) as [[i2 items]|e] eqn:L;
      cbn [bind] in H; [|discriminate].
    inversion H; subst. apply fields_snoc; [exact HF|]. apply tv_bounded_vec. split.
    + apply dloop_length in L. cbn [List.length] in L. lia.
    + exact (dloop_bounded _ _ _ _ _ _ B Hb HB _ _ _ _ _ L (Forall_nil _)).
  - unfold dstep in H. cbn [bind] in H. rewrite Hp in H. cbn [bind negb] in H. rewrite Ht in H. discriminate.
  - unfold dstep in H. cbn [bind] in H. rewrite Hp in H. cbn [bind negb] in H. rewrite Ht in H. discriminate.
Qed.

Lemma fold_bounded tbl rec d boxed c B : rec_bounded rec -> rec_nz rec -> List.length d <= B ->
  forall args i fs i' fs', fields_bounded B fs ->
  fold_left (dstep tbl rec d boxed c) args (Ok (i, fs)) = Ok (i', fs') -> fields_bounded B fs'.
Proof.
  intros Hb Hnz HB. induction args as [|a r IH]; intros i fs i' fs' HF H.
  - inversion H; subst. exact HF.
  - cbn [fold_left] in H.
    destruct (dstep tbl rec d boxed c (Ok (i, fs)) a) as [[i1 fs1]|e] eqn:S.
    + exact (IH _ _ _ _ (dstep_bounded _ _ _ _ _ B Hb Hnz HB _ _ _ _ _ HF S) H).
    + rewrite fold_dstep_err in H. discriminate.
Qed.

Lemma deser_rec_bounded tbl : by_id tbl [] = None -> forall fuel, rec_bounded (deser tbl fuel).
Proof.
  intros Hid. induction fuel as [|f IH]; intros d b ctor v j B H HB; [discriminate|].
  rewrite deser_S in H. cbv zeta in H.
  assert (Hobj : forall c i0, bind (fold_left (dstep tbl (deser tbl f) d b c) (c_args c) (Ok (i0, [])))
            (fun '(i, fs) => Ok (TVObj (if b then c_name c else "") fs, i)) = Ok (v, j) -> tv_bounded B v).
  { intros c i0 H0.
    destruct (fold_left (dstep tbl (deser tbl f) d b c) (c_args c) (Ok (i0, []))) as [[i fs]|e] eqn:F;
      cbn [bind] in H0; [|discriminate].
    inversion H0; subst. apply tv_bounded_obj.
    exact (fold_bounded _ _ _ _ _ B IH (deser_nz tbl f Hid) HB _ _ _ _ _ (Forall_nil _) F). }
  destruct b.
  - destruct (by_id tbl (rev (bslice d 0 4))) as [c|].
    + exact (Hobj _ _ H).
    + inversion H; subst. cbn [tv_bounded]. exact HB.
  - destruct ctor as [c|]; [exact (Hobj _ _ H)|discriminate].
Qed.

(* GLOBAL: whatever the fuel, an accepted input of n bytes yields a value in which every vector, every list of
   concatenated objects, every byte string, str and hex str has at most n elements - in particular no count or
   length field of the input can make the result (or the loops that build it) larger than the input *)
Theorem deser_lists_bounded : forall tbl, by_id tbl [] = None ->
  forall fuel d boxed ctor v j, deser tbl fuel d boxed ctor = Ok (v, j) -> tv_bounded (List.length d) v.
Proof. intros tbl Hid fuel d boxed ctor v j H. exact (deser_rec_bounded tbl Hid fuel _ _ _ _ _ _ H (le_n _)). Qed.

(* the side condition holds for the schema table of the library: no constructor has an empty id *)
Lemma table_no_empty_id : by_id tl_table [] = None.
Proof. vm_compute. reflexivity. Qed.

Corollary deserialize_lists_bounded : forall fuel d v j,
  deserialize tl_table fuel d = Ok (v, j) -> tv_bounded (List.length d) v.
Proof. intros fuel d v j H. exact (deser_lists_bounded tl_table table_no_empty_id fuel d true None v j H). Qed.

(* ------------------------------------------------------------------ *)
(* 4. the hypotheses are satisfiable; the refusals happen               *)
(* ------------------------------------------------------------------ *)
Definition int_vec : tl_ctor := vec_ctor [] "" "" "v" (TFixed 4 FIntT) "int" false.

(* a vector of two ints: accepted, 2 elements, 4 + 2 <= 12 bytes *)
Example vector_accepted :
  deser tl_table 5 (le_bytes 4 2 ++ le_bytes 4 7 ++ le_bytes 4 9)%list false (Some int_vec)
  = Ok (TVObj "" [("v"%string, TVVec [TVInt 7; TVInt 9])], 12).
Proof. vm_compute. reflexivity. Qed.

(* eight bytes announcing 2^32 - 1 elements: refused by the early check, at every fuel, nothing iterated *)
Example vector_huge_count_hyp :
  List.length [255; 255; 255; 255; 0; 0; 0; 0]%N - 4 < N.to_nat (of_le (bslice [255; 255; 255; 255; 0; 0; 0; 0]%N 0 4)).
Proof.
  assert (E : of_le (bslice [255; 255; 255; 255; 0; 0; 0; 0]%N 0 4) = 4294967295%N) by (vm_compute; reflexivity).
  rewrite E. cbn [List.length]. lia.
Qed.

Example vector_huge_count : forall fuel,
  deser tl_table (S fuel) [255; 255; 255; 255; 0; 0; 0; 0]%N false (Some int_vec) = Err ETl.
Proof. intros fuel. apply deser_vector_reject. exact vector_huge_count_hyp. Qed.

Example vector_huge_count_run :
  deser tl_table 3 [255; 255; 255; 255; 0; 0; 0; 0]%N false (Some int_vec) = Err ETl.
Proof. vm_compute. reflexivity. Qed.

(* adnl.message.answer whose bytes field announces 200 bytes when 3 are left: accepted (Python slices are
   truncated), the field is the 3 bytes that exist - and the returned offset, 240, is PAST the 40-byte input:
   "consumed <= length of the input" is not a property of this deserializer *)
Example bytes_truncated :
  deserialize tl_table 5 ([22; 132; 172; 15] ++ repeat 7 32 ++ [200; 1; 2; 3])%N%list
  = Ok (TVObj "adnl.message.answer"
          [("query_id"%string, TVHex (repeat 7%N 32)); ("answer"%string, TVBytes [1; 2; 3]%N)], 240).
Proof. vm_compute. reflexivity. Qed.

Example bytes_truncated_bounded :
  tv_bounded 40 (TVObj "adnl.message.answer"
          [("query_id"%string, TVHex (repeat 7%N 32)); ("answer"%string, TVBytes [1; 2; 3]%N)]).
Proof.
  exact (deserialize_lists_bounded 5 ([22; 132; 172; 15] ++ repeat 7 32 ++ [200; 1; 2; 3])%N%list _ _ bytes_truncated).
Qed.

(* a fixed-width field read from two bytes: a value is produced and the offset is 8 *)
Example fixed_past_end :
  deser tl_table 5 [1; 2]%N false (Some (one_ctor [] "" "" "x" (TFixed 8 FIntT))) = Ok (TVObj "" [("x"%string, TVInt 513)], 8).
Proof. vm_compute. reflexivity. Qed.
