(* C19 proofs: the instrumented traversal computes Cell.order and visits exactly
   1 + (number of references of the distinct cells) nodes; the BoC parser's loops are bounded by the input. *)
From Coq Require Import NArith ZArith List Bool Lia ZifyBool ZifyNat ZifyN.
From PTQ Require Import Base.Result Base.Bytes Base.Bits Model.Cell Model.Boc Model.Cost
  Spec.BocFormat Spec.BocProps Proofs.CellOrd Proofs.BocEmit Proofs.BocReject.
Import ListNotations.

(* ------------------------------------------------------------------ *)
(* 1. the instrumented traversal                                       *)
(* ------------------------------------------------------------------ *)
Fixpoint ord_go_c (rs : list kcell) (s : list kcell * nat) : list kcell * nat :=
  match rs with [] => s | r :: rest => ord_visit_c r (ord_go_c rest s) end.

Lemma ord_visit_c_eq c post n : ord_visit_c c (post, n) =
  if existsb (cell_eqb c) post then (post, S n)
  else let '(p', n') := ord_go_c (k_refs c) (post, S n) in (c :: p', n').
Proof. destruct c as [ty bits rs m hs ds]. reflexivity. Qed.

Lemma nrefs_sum_cons x l : nrefs_sum (x :: l) = (length (k_refs x) + nrefs_sum l)%nat.
Proof. reflexivity. Qed.

Lemma nrefs_sum_app l1 l2 : nrefs_sum (l1 ++ l2) = (nrefs_sum l1 + nrefs_sum l2)%nat.
Proof.
  induction l1 as [|x l1 IH]; [reflexivity|].
  cbn [app nrefs_sum fold_right]. fold (nrefs_sum (l1 ++ l2)). fold (nrefs_sum l1). rewrite IH. lia.
Qed.

(* one call: the result extends [post] at the front by cells below c, and costs one visit plus one visit
   per reference of every newly expanded cell *)
Definition visit_c_ok (c : kcell) : Prop :=
  forall post n, exists new,
    ord_visit c post = new ++ post /\
    ord_visit_c c (post, n) = (new ++ post, (n + 1 + nrefs_sum new)%nat) /\
    (forall x, In x new -> In x (subcells c)).

Lemma go_c_inv rs : Forall visit_c_ok rs ->
  forall post n, exists new,
    ord_go rs post = new ++ post /\
    ord_go_c rs (post, n) = (new ++ post, (n + length rs + nrefs_sum new)%nat) /\
    (forall x, In x new -> In x (flat_map subcells rs)).
Proof.
  induction 1 as [|r rs Hr _ IH]; intros post n.
  - exists []. cbn [ord_go ord_go_c app length nrefs_sum fold_right].
    split; [reflexivity|]. split; [f_equal; lia|intros x []].
  - destruct (IH post n) as (n1 & E1 & C1 & S1).
    destruct (Hr (n1 ++ post) (n + length rs + nrefs_sum n1)%nat) as (n2 & E2 & C2 & S2).
    exists (n2 ++ n1). cbn [ord_go ord_go_c]. rewrite E1, C1, E2, C2, <- app_assoc.
    split; [reflexivity|]. split.
    + f_equal. rewrite nrefs_sum_app. cbn [length]. lia.
    + intros x Hx. cbn [flat_map]. apply in_or_app. apply in_app_or in Hx.
      destruct Hx as [Hx|Hx]; [left; exact (S2 x Hx)|right; exact (S1 x Hx)].
Qed.

Lemma visit_c_inv : forall c, visit_c_ok c.
Proof.
  induction c as [ty bits rs m hs ds IH] using kcell_ind'.
  set (c := KCell ty bits rs m hs ds). intros post n.
  rewrite ord_visit_eq, ord_visit_c_eq.
  destruct (existsb (cell_eqb c) post).
  - exists []. cbn [app nrefs_sum fold_right]. split; [reflexivity|]. split; [f_equal; lia|intros x []].
  - change (k_refs c) with rs.
    destruct (go_c_inv rs IH post (S n)) as (n1 & E1 & C1 & S1).
    exists (c :: n1). rewrite E1, C1. cbn [app]. split; [reflexivity|]. split.
    + f_equal. cbn [nrefs_sum fold_right]. fold (nrefs_sum n1). change (k_refs c) with rs. lia.
    + intros x [<-|Hx]; [apply subcells_self|]. rewrite subcells_eq. right. exact (S1 x Hx).
Qed.

Lemma ord_visit_c_fst c post n : fst (ord_visit_c c (post, n)) = ord_visit c post.
Proof. destruct (visit_c_inv c post n) as (new & E & C & _). rewrite C, E. reflexivity. Qed.

Theorem order_c_same : forall k, fst (ord_visit_c k ([], O)) = order k.
Proof. intro k. apply ord_visit_c_fst. Qed.

Theorem order_visits_exact : forall k, order_visits k = S (nrefs_sum (order k)).
Proof.
  intro k. unfold order_visits, order.
  destruct (visit_c_inv k [] O) as (new & E & C & _). rewrite C, E, app_nil_r. cbn [snd]. lia.
Qed.

(* membership needs no hypothesis about hashes *)
Lemma order_sub k : forall x, In x (order k) -> In x (subcells k).
Proof.
  intros x Hx. unfold order in Hx.
  destruct (visit_c_inv k [] O) as (new & E & _ & S). rewrite E, app_nil_r in Hx. exact (S x Hx).
Qed.

Lemma nrefs_sum_le l : (forall x, In x l -> (length (k_refs x) <= 4)%nat) ->
  (nrefs_sum l <= 4 * length l)%nat.
Proof.
  induction l as [|x l IH]; intro Hl; [cbn; lia|].
  rewrite nrefs_sum_cons. cbn [length].
  pose proof (Hl x (or_introl eq_refl)) as Hx. specialize (IH (fun y Hy => Hl y (or_intror Hy))). lia.
Qed.

Theorem order_visits_linear (H : list N -> list N) : forall t k, build H t = Ok k -> boc_wf t = true ->
  (order_visits k <= 1 + 4 * length (order k))%nat.
Proof.
  intros t k Hb Hwf. rewrite order_visits_exact.
  destruct (build_sub H t k Hb) as [Htree _].
  assert (Hle : (nrefs_sum (order k) <= 4 * length (order k))%nat).
  { apply nrefs_sum_le. intros x Hx. apply order_sub in Hx.
    rewrite <- Htree in Hwf. exact (proj1 (shape_of_wf k Hwf x Hx)). }
  lia.
Qed.

(* ------------------------------------------------------------------ *)
(* 2. parse_cells consumes at least two bytes per cell                 *)
(* ------------------------------------------------------------------ *)
Lemma deserialize_cell_consumes d size c j : deserialize_cell d size = Ok (c, j) ->
  (2 <= j <= length d)%nat.
Proof.
  unfold deserialize_cell. intro Hd.
  destruct (byte_at d 0) as [d1|] eqn:B0; cbn [bind] in Hd; [|discriminate]. cbv zeta in Hd.
  match type of Hd with (if ?c then _ else _) = _ => destruct c; [discriminate|] end.
  destruct (byte_at d 1) as [d2|] eqn:B1; cbn [bind] in Hd; [|discriminate].
  apply byte_at_nth in B1. destruct B1 as [_ B1].
  match type of Hd with (if ?c then _ else _) = _ => destruct c eqn:Hlen; [discriminate|] end.
  match type of Hd with bind ?X _ = _ => destruct X as [ty|]; cbn [bind] in Hd; [|discriminate] end.
  apply Nat.ltb_ge in Hlen.
  match type of Hlen with
  | (?a + ?b + ?c + ?e <= _)%nat => set (A := a) in *; set (B := b) in *; set (C := c) in *; set (E := e) in *
  end.
  injection Hd as _ <-. lia.
Qed.

Theorem parse_cells_bounded : forall n d size raws, parse_cells n d size = Ok raws ->
  (2 * n <= length d)%nat /\ length raws = n.
Proof.
  induction n as [|n IH]; intros d size raws Hp; cbn [parse_cells] in Hp.
  - injection Hp as <-. split; [lia|reflexivity].
  - destruct (deserialize_cell d size) as [[c j]|] eqn:Hc; cbn [bind] in Hp; [|discriminate].
    destruct (parse_cells n (skipn j d) size) as [r|] eqn:Hr; cbn [bind] in Hp; [|discriminate].
    injection Hp as <-. apply deserialize_cell_consumes in Hc.
    destruct (IH _ _ _ Hr) as [Hl Hn]. rewrite skipn_length in Hl. cbn [length]. split; lia.
Qed.

(* ------------------------------------------------------------------ *)
(* 3. an accepted header has room for the lists it announces           *)
(* ------------------------------------------------------------------ *)
Lemma read_uints_length d w : forall n i, length (read_uints d i w n) = n.
Proof. induction n as [|n IH]; intro i; cbn [read_uints length]; [reflexivity|]. rewrite IH. reflexivity. Qed.

Lemma hdr_rest_bounded d reach idx crc cache size h :
  hdr_rest d reach (idx, crc, cache, size) = Ok h -> (4 <= length d)%nat ->
  (N.to_nat (h_tot h) <= length d)%nat /\ (length (h_root_list h) <= length d)%nat /\
  match h_index h with Some ix => (length ix <= length d)%nat | None => True end.
Proof.
  intros Hd H4. unfold hdr_rest in Hd. cbv beta iota zeta in Hd.
  hstep Hd T1.
  destruct (byte_at d 5) as [offb|] eqn:B5; cbn [bind] in Hd; [|discriminate].
  hstep Hd T2.
  set (cells := of_be (slice d 6 (6 + size))) in *.
  set (roots := of_be (slice d (6 + size) (6 + 2 * size))) in *.
  set (absent := of_be (slice d (6 + 2 * size) (6 + 3 * size))) in *.
  set (i1 := (6 + 3 * size + N.to_nat offb)%nat) in *.
  set (tot := of_be (slice d (6 + 3 * size) i1)) in *.
  set (off := N.to_nat offb) in *.
  apply Nat.eqb_neq in T2.
  destruct reach, idx, crc;
    repeat (cbv beta iota in Hd;
            first [ let T := fresh "T" in hstep Hd T | progress cbn [bind] in Hd ]);
    injection Hd as <-; cbn [h_tot h_root_list h_index]; rewrite ?read_uints_length; cbn [length];
    repeat match goal with T : (_ <? _)%Z = false |- _ => apply Z.ltb_ge in T end;
    repeat match goal with T : (_ =? _)%nat = false |- _ => apply Nat.eqb_neq in T end;
    (split; [lia|]); (split; [try lia; nia|]); try exact I; try lia; nia.
Qed.

Theorem header_bounded : forall d h, deserialize_boc_header d = Ok h ->
  (N.to_nat (h_tot h) <= length d)%nat /\ (length (h_root_list h) <= length d)%nat /\
  match h_index h with Some ix => (length ix <= length d)%nat | None => True end.
Proof.
  intros d h. rewrite header_unfold. intro Hd.
  hstep Hd T0. apply Nat.ltb_ge in T0.
  destruct (bytes_eqb (firstn 4 d) boc_magic).
  - destruct (byte_at d 4) as [fb|]; cbn [bind] in Hd; [|discriminate].
    exact (hdr_rest_bounded _ _ _ _ _ _ _ Hd T0).
  - destruct (bytes_eqb (firstn 4 d) boc_magic_idx).
    + destruct (byte_at d 4) as [fb|]; cbn [bind] in Hd; [|discriminate].
      exact (hdr_rest_bounded _ _ _ _ _ _ _ Hd T0).
    + destruct (bytes_eqb (firstn 4 d) boc_magic_idx_crc); [|discriminate Hd].
      destruct (byte_at d 4) as [fb|]; cbn [bind] in Hd; [|discriminate].
      exact (hdr_rest_bounded _ _ _ _ _ _ _ Hd T0).
Qed.
