From Coq Require Import NArith List Bool Lia Btauto.
From PTQ Require Import Base.Bytes Gen.CrcTables Spec.Crc Model.Crc.
Import ListNotations.
Local Open Scope N_scope.

Lemma fold_left_ext_Forall {A B} (f g : A -> B -> A) (P : B -> Prop) (I : A -> Prop) :
  (forall a b, I a -> P b -> f a b = g a b) ->
  (forall a b, I a -> P b -> I (g a b)) ->
  forall l a, I a -> Forall P l -> fold_left f l a = fold_left g l a /\ I (fold_left g l a).
Proof.
  intros Hfg HI l. induction l as [|b l IH]; intros a Ha Hl; [split; auto|].
  inversion Hl as [|? ? Hb Hl']; subst. cbn [fold_left].
  rewrite (Hfg a b Ha Hb). apply IH; auto.
Qed.

Lemma testbit_ones n i : N.testbit (N.ones n) i = (i <? n).
Proof.
  destruct (N.ltb_spec i n).
  - apply N.ones_spec_low; lia.
  - apply N.ones_spec_high; lia.
Qed.

(* x = (x & ones k) ^ ((x >> k) << k) *)
Lemma split_low_high x k : x = N.lxor (N.land x (N.ones k)) (N.shiftl (N.shiftr x k) k).
Proof.
  apply N.bits_inj. intro n.
  rewrite N.lxor_spec, N.land_spec, testbit_ones.
  destruct (N.ltb_spec n k).
  - rewrite N.shiftl_spec_low by lia. btauto.
  - rewrite N.shiftl_spec_high' by lia. rewrite N.shiftr_spec'.
    replace (n - k + k) with n by lia. btauto.
Qed.

(* ------------------------------------------------------------------ *)
(* CRC-32C                                                             *)

Lemma s32_bit_lin a b : s32_bit (N.lxor a b) = N.lxor (s32_bit a) (s32_bit b).
Proof.
  unfold s32_bit. rewrite N.shiftr_lxor, <- !N.bit0_odd, N.lxor_spec.
  apply N.bits_inj. intro n.
  destruct (N.testbit a 0), (N.testbit b 0); cbn [xorb];
    repeat rewrite N.lxor_spec; btauto.
Qed.

Lemma s32_bit_shl h n : s32_bit (N.shiftl h (N.succ n)) = N.shiftl h n.
Proof.
  unfold s32_bit. rewrite <- N.bit0_odd, N.shiftl_spec_low by lia.
  rewrite N.shiftr_shiftl_l by lia. f_equal. lia.
Qed.

Lemma s32_iter8_shl h : N.iter 8 s32_bit (N.shiftl h 8) = h.
Proof.
  cbn [N.iter Pos.iter].
  change 8 with (N.succ 7). rewrite s32_bit_shl.
  change 7 with (N.succ 6). rewrite s32_bit_shl.
  change 6 with (N.succ 5). rewrite s32_bit_shl.
  change 5 with (N.succ 4). rewrite s32_bit_shl.
  change 4 with (N.succ 3). rewrite s32_bit_shl.
  change 3 with (N.succ 2). rewrite s32_bit_shl.
  change 2 with (N.succ 1). rewrite s32_bit_shl.
  change 1 with (N.succ 0). rewrite s32_bit_shl.
  apply N.shiftl_0_r.
Qed.

Lemma s32_iter8_lin a b :
  N.iter 8 s32_bit (N.lxor a b) = N.lxor (N.iter 8 s32_bit a) (N.iter 8 s32_bit b).
Proof. cbn [N.iter Pos.iter]. rewrite !s32_bit_lin. reflexivity. Qed.

(* finite sweep over the regenerated table: 256 cases *)
Definition crc32c_entry_okb (i : N) : bool := N.iter 8 s32_bit i =? tbl crc32c_table i.
Lemma crc32c_table_ok : allb_below 256 crc32c_entry_okb = true.
Proof. vm_compute. reflexivity. Qed.

Lemma crc32c_table_entry i : i < 256 -> tbl crc32c_table i = N.iter 8 s32_bit i.
Proof.
  intro H. pose proof (allb_below_spec 256 crc32c_entry_okb crc32c_table_ok i H) as E.
  unfold crc32c_entry_okb in E. apply N.eqb_eq in E. symmetry. exact E.
Qed.

Lemma land_255_lt x : N.land x 255 < 256.
Proof. change 255 with (N.ones 8). rewrite N.land_ones. apply N.mod_lt. discriminate. Qed.

Lemma s32_iter8_table x :
  N.iter 8 s32_bit x = N.lxor (tbl crc32c_table (N.land x 255)) (N.shiftr x 8).
Proof.
  rewrite (split_low_high x 8) at 1. rewrite s32_iter8_lin, s32_iter8_shl.
  change (N.ones 8) with 255. rewrite crc32c_table_entry by apply land_255_lt.
  reflexivity.
Qed.

Lemma shiftr8_byte b : b < 256 -> N.shiftr b 8 = 0.
Proof. intro H. rewrite N.shiftr_div_pow2. apply N.div_small. exact H. Qed.

Lemma crc32c_step_spec crc b : b < 256 -> crc32c_step crc b = s32_byte crc b.
Proof.
  intro Hb. unfold crc32c_step, s32_byte. cbv zeta.
  rewrite s32_iter8_table. rewrite N.shiftr_lxor, (shiftr8_byte b Hb), N.lxor_0_r.
  reflexivity.
Qed.

Lemma crc32c_reg_spec bs : bytes_ok bs ->
  fold_left crc32c_step bs crc32c_init = fold_left s32_byte bs 0xFFFFFFFF.
Proof.
  intro H.
  apply (fold_left_ext_Forall crc32c_step s32_byte (fun b => b < 256) (fun _ => True));
    auto using crc32c_step_spec.
Qed.

Lemma crc32c_correct bs big : bytes_ok bs -> crc32c bs big = s_crc32c bs big.
Proof.
  intro H. unfold crc32c, s_crc32c, crc32c_reg, crc32c_final.
  rewrite (crc32c_reg_spec bs H). reflexivity.
Qed.

(* the value handed to int.to_bytes(4, ...) always fits: no OverflowError *)
Lemma lxor_bound a b n : a < 2 ^ n -> b < 2 ^ n -> N.lxor a b < 2 ^ n.
Proof.
  intros Ha Hb.
  assert (E : N.lxor a b = N.land (N.lxor a b) (N.ones n)).
  { apply N.bits_inj. intro i. rewrite N.land_spec, N.lxor_spec, testbit_ones.
    destruct (N.ltb_spec i n); [btauto|].
    rewrite <- (N.mod_small a (2 ^ n)) by exact Ha.
    rewrite <- (N.mod_small b (2 ^ n)) by exact Hb.
    rewrite !N.mod_pow2_bits_high by lia. reflexivity. }
  rewrite E, N.land_ones. apply N.mod_lt. apply N.pow_nonzero. discriminate.
Qed.

Lemma s32_bit_bound c : c < 2 ^ 32 -> s32_bit c < 2 ^ 32.
Proof.
  intro H. unfold s32_bit.
  assert (Hs : N.shiftr c 1 < 2 ^ 32).
  { rewrite N.shiftr_div_pow2. apply N.div_lt_upper_bound; [discriminate|].
    change (2 ^ 1) with 2. lia. }
  destruct (N.odd c); [|exact Hs].
  apply lxor_bound; [exact Hs|reflexivity].
Qed.

Lemma s32_byte_bound c b : c < 2 ^ 32 -> b < 256 -> s32_byte c b < 2 ^ 32.
Proof.
  intros Hc Hb. unfold s32_byte. cbn [N.iter Pos.iter].
  repeat apply s32_bit_bound. apply lxor_bound; [exact Hc|].
  eapply N.lt_trans; [exact Hb|reflexivity].
Qed.

Lemma crc32c_value_fits bs : bytes_ok bs -> crc32c_reg bs < 256 ^ 4.
Proof.
  intro H. unfold crc32c_reg, crc32c_final. rewrite (crc32c_reg_spec bs H).
  change (256 ^ 4) with (2 ^ 32). apply lxor_bound; [|reflexivity].
  assert (G : forall l a, a < 2 ^ 32 -> bytes_ok l -> fold_left s32_byte l a < 2 ^ 32).
  { induction l as [|x l IH]; intros a Ha Hl; [exact Ha|].
    inversion Hl; subst. cbn [fold_left]. apply IH; auto. apply s32_byte_bound; auto. }
  apply G; [reflexivity|exact H].
Qed.

(* ------------------------------------------------------------------ *)
(* CRC-16/XMODEM                                                       *)

(* finite sweep over all 16-bit register values: 65536 cases *)
Definition crc16_entry_okb (x : N) : bool :=
  N.iter 8 s16_bit x =? N.land (N.lxor (N.shiftl x 8) (tbl crc16_table (N.shiftr x 8))) 65535.
Lemma crc16_table_ok : allb_below 65536 crc16_entry_okb = true.
Proof. vm_compute. reflexivity. Qed.

Lemma s16_iter8_table x : x < 65536 ->
  N.iter 8 s16_bit x = N.land (N.lxor (N.shiftl x 8) (tbl crc16_table (N.shiftr x 8))) 65535.
Proof.
  intro H. pose proof (allb_below_spec 65536 crc16_entry_okb crc16_table_ok x H) as E.
  unfold crc16_entry_okb in E. apply N.eqb_eq in E. exact E.
Qed.

Lemma crc16_step_spec crc b : crc < 65536 -> b < 256 -> crc16_step crc b = s16_byte crc b.
Proof.
  intros Hc Hb. unfold crc16_step, s16_byte. cbv zeta.
  assert (Hx : N.lxor crc (N.shiftl b 8) < 65536).
  { change 65536 with (2 ^ 16). apply lxor_bound; [exact Hc|].
    rewrite N.shiftl_mul_pow2. change (2 ^ 16) with (256 * 2 ^ 8). apply N.mul_lt_mono_pos_r; [reflexivity|exact Hb]. }
  rewrite (s16_iter8_table _ Hx).
  rewrite N.shiftr_lxor, N.shiftr_shiftl_l by lia. change (8 - 8) with 0. rewrite N.shiftl_0_r.
  rewrite N.shiftl_lxor, N.shiftl_shiftl. change (8 + 8) with 16.
  apply N.bits_inj. intro n.
  rewrite !N.land_spec, !N.lxor_spec. change 65535 with (N.ones 16). rewrite testbit_ones.
  destruct (N.ltb_spec n 16).
  - rewrite (N.shiftl_spec_low b 16 n) by lia. btauto.
  - btauto.
Qed.

Lemma crc16_reg_spec bs : bytes_ok bs ->
  fold_left crc16_step bs crc16_init = fold_left s16_byte bs 0 /\ fold_left s16_byte bs 0 < 65536.
Proof.
  intro H.
  apply (fold_left_ext_Forall crc16_step s16_byte (fun b => b < 256) (fun c => c < 65536)); auto.
  - intros. apply crc16_step_spec; auto.
  - intros a b Ha Hb. rewrite <- crc16_step_spec by auto. unfold crc16_step. cbv zeta.
    change 65535 with (N.ones 16). rewrite N.land_ones. apply N.mod_lt. discriminate.
  - reflexivity.
Qed.

Lemma crc16_correct bs : bytes_ok bs -> crc16 bs = s_crc16 bs.
Proof.
  intro H. unfold crc16, s_crc16, crc16_reg, crc16_final.
  destruct (crc16_reg_spec bs H) as [E _]. rewrite E. reflexivity.
Qed.

Lemma crc16_value_fits bs : bytes_ok bs -> crc16_reg bs < 256 ^ 2.
Proof.
  intro H. unfold crc16_reg, crc16_final. destruct (crc16_reg_spec bs H) as [E B].
  rewrite E. exact B.
Qed.

(* GF(2)-linearity of the CRC-16 register (zero initial value), reused for the address checksum *)
Lemma s16_bit_lin a b : s16_bit (N.lxor a b) = N.lxor (s16_bit a) (s16_bit b).
Proof.
  unfold s16_bit. rewrite N.lxor_spec, N.shiftl_lxor.
  apply N.bits_inj. intro n.
  destruct (N.testbit a 15), (N.testbit b 15); cbn [xorb];
    repeat first [rewrite N.land_spec | rewrite N.lxor_spec]; btauto.
Qed.

Lemma s16_byte_lin c1 c2 b1 b2 :
  s16_byte (N.lxor c1 c2) (N.lxor b1 b2) = N.lxor (s16_byte c1 b1) (s16_byte c2 b2).
Proof.
  unfold s16_byte. cbn [N.iter Pos.iter]. rewrite <- !s16_bit_lin. do 8 f_equal.
  rewrite N.shiftl_lxor.
  apply N.bits_inj. intro n. repeat rewrite N.lxor_spec. btauto.
Qed.
