From Coq Require Import NArith ZArith List Bool.
From PTQ Require Import Base.Result Base.Bytes Base.Bits Model.Cell Model.Builder Model.Hashmap
  Spec.TlbPrim Spec.Hashmap Proofs.HmTree.
Import ListNotations.
Theorem C10_canonical : forall n src, src <> [] -> NoDup (map fst src) ->
  Forall (fun kv => length (fst kv) = n) src ->
  build_edge (S n) src = match s_patricia (S n) src with Some t => Ok t | None => Err EAssert end
  /\ s_patricia (S n) src <> None.
Proof. exact build_edge_patricia. Qed.
Print Assumptions C10_canonical.
Theorem C09_key_range : forall n k, (k < 0 \/ 2 ^ Z.of_nat n <= k)%Z <-> key_bits n k = Err EDict.
Proof. exact key_range_iff. Qed.
Print Assumptions C09_key_range.
Theorem C09_key_bits : forall n k, (0 <= k < 2 ^ Z.of_nat n)%Z ->
  exists bits, key_bits n k = Ok bits /\ length bits = n /\ Z.of_N (of_bits bits) = k.
Proof. exact key_bits_spec. Qed.
Print Assumptions C09_key_bits.
