(* C02 proofs: exotic cells.  The per-level hash loop of the executable model (Model/Cell.v) computes
   the specification s_hd (Spec/CellRepr.v); LevelMask operations; Merkle pruning invariance.
   Self-contained: helper lemmas carry the prefix ex_. *)
From Coq Require Import NArith ZArith List Bool Lia.
From PTQ Require Import Base.Result Base.Bytes Base.Bits Model.Cell Spec.CellRepr Spec.CellWf.
Import ListNotations.
Local Open Scope N_scope.

(* ------------------------------------------------------------------ *)
(* induction principle for the nested inductive [cell]                 *)
(* ------------------------------------------------------------------ *)
Section CellInd.
  Variable P : cell -> Prop.
  Hypothesis P_cell : forall ty bits rs, Forall P rs -> P (Cell ty bits rs).

  Fixpoint ex_cell_ind (c : cell) : P c :=
    let 'Cell ty bits rs := c in
    P_cell ty bits rs
      ((fix go (l : list cell) : Forall P l :=
          match l with
          | [] => Forall_nil P
          | x :: xs => Forall_cons x (ex_cell_ind x) (go xs)
          end) rs).
End CellInd.

(* ------------------------------------------------------------------ *)
(* 1. LevelMask operations                                             *)
(* ------------------------------------------------------------------ *)
Lemma ex_lm_apply_low m l : lm_apply m l = low_mask m (N.to_nat l).
Proof. unfold lm_apply, low_mask. rewrite N2Nat.id, N.shiftl_1_l. reflexivity. Qed.

Lemma ex_lm_sig m l : lm_significant m l = ((l =? 0) || N.testbit m (l - 1))%bool.
Proof.
  unfold lm_significant. f_equal.
  rewrite <- N.bit0_odd, N.shiftr_spec', N.add_0_l. reflexivity.
Qed.

Theorem mask_ops_spec : forall m l, m <= 7 -> l <= 3 ->
  lm_level m = N.size m /\ lm_hash_index m = popcount m /\
  lm_apply m l = low_mask m (N.to_nat l) /\
  lm_significant m l = ((l =? 0) || N.testbit m (l - 1))%bool.
Proof.
  intros m l _ _. split; [reflexivity|]. split; [reflexivity|].
  split; [apply ex_lm_apply_low|apply ex_lm_sig].
Qed.

Lemma ex_low_mask_mod m l : low_mask m l = m mod 2 ^ N.of_nat l.
Proof. unfold low_mask. rewrite N.sub_1_r, <- N.ones_equiv, N.land_ones. reflexivity. Qed.

Lemma ex_low_mask_le m l : low_mask m l <= m.
Proof. rewrite ex_low_mask_mod. apply N.mod_le. apply N.pow_nonzero. lia. Qed.

Lemma ex_low_mask_0 m : low_mask m 0 = 0.
Proof. unfold low_mask. change (2 ^ N.of_nat 0 - 1) with 0. apply N.land_0_r. Qed.

Lemma ex_sig_0 m : lm_significant m 0 = true.
Proof. reflexivity. Qed.

Lemma ex_sig_S m l : lm_significant m (N.of_nat (S l)) = N.testbit m (N.of_nat l).
Proof.
  rewrite ex_lm_sig.
  assert (E : N.of_nat (S l) =? 0 = false) by (apply N.eqb_neq; lia).
  rewrite E. cbn [orb]. f_equal. lia.
Qed.

(* ------------------------------------------------------------------ *)
(* data padding (own copy)                                             *)
(* ------------------------------------------------------------------ *)
Lemma ex_bits_to_bytes_cons8 b7 b6 b5 b4 b3 b2 b1 b0 r :
  bits_to_bytes (b7 :: b6 :: b5 :: b4 :: b3 :: b2 :: b1 :: b0 :: r)
  = of_bits [b7; b6; b5; b4; b3; b2; b1; b0] :: bits_to_bytes r.
Proof. reflexivity. Qed.

Lemma ex_bits_to_bytes_zeros_short : forall l k,
  (0 < length l)%nat -> (length l + k <= 8)%nat ->
  bits_to_bytes (l ++ repeat false k) = bits_to_bytes l.
Proof.
  intros l k Hpos Hle.
  destruct l as [|a0 [|a1 [|a2 [|a3 [|a4 [|a5 [|a6 [|a7 [|a8 l]]]]]]]]];
  cbn [length] in Hpos, Hle; try lia;
  destruct k as [|[|[|[|[|[|[|[|k]]]]]]]]; try lia; reflexivity.
Qed.

Lemma ex_bits_to_bytes_zeros : forall n l k,
  (length l < 8 * n)%nat -> (length l mod 8 <> 0)%nat -> (length l mod 8 + k <= 8)%nat ->
  bits_to_bytes (l ++ repeat false k) = bits_to_bytes l.
Proof.
  induction n as [|n IH]; intros l k Hn Hr Hk; [lia|].
  destruct (Nat.lt_ge_cases (length l) 8) as [Hlt|Hge].
  - rewrite Nat.mod_small in Hr, Hk by exact Hlt.
    apply ex_bits_to_bytes_zeros_short; lia.
  - destruct l as [|a0 [|a1 [|a2 [|a3 [|a4 [|a5 [|a6 [|a7 l]]]]]]]]; cbn [length] in Hge; try lia.
    assert (Hm : (length (a0 :: a1 :: a2 :: a3 :: a4 :: a5 :: a6 :: a7 :: l) mod 8 = length l mod 8)%nat).
    { cbn [length]. replace (S (S (S (S (S (S (S (S (length l))))))))) with (length l + 1 * 8)%nat by lia.
      apply Nat.mod_add. lia. }
    rewrite Hm in Hr, Hk.
    cbn [app]. rewrite !ex_bits_to_bytes_cons8. f_equal.
    apply IH; [cbn [length] in Hn; lia| exact Hr | exact Hk].
Qed.

Lemma ex_data_bytes_pad : forall bits, data_bytes bits = bits_to_bytes (s_pad bits).
Proof.
  intro bits. unfold data_bytes, s_pad.
  destruct (Nat.eqb_spec (length bits mod 8) 0) as [He|Hne]; [reflexivity|].
  pose proof (Nat.mod_upper_bound (length bits) 8 ltac:(lia)) as Hub.
  change (bits ++ [true] ++ repeat false (7 - length bits mod 8))
    with (bits ++ ([true] ++ repeat false (7 - length bits mod 8))).
  rewrite app_assoc.
  destruct (Nat.eq_dec (length bits mod 8) 7) as [E7|N7].
  - rewrite E7. cbn [Nat.sub repeat]. rewrite app_nil_r. reflexivity.
  - symmetry.
    assert (Hm : (length (bits ++ [true]) mod 8 = length bits mod 8 + 1)%nat).
    { rewrite app_length. cbn [length].
      rewrite (Nat.div_mod (length bits) 8) at 1 by lia.
      replace (8 * (length bits / 8) + length bits mod 8 + 1)%nat
        with ((length bits mod 8 + 1) + (length bits / 8) * 8)%nat by lia.
      rewrite Nat.mod_add by lia. apply Nat.mod_small. lia. }
    apply (ex_bits_to_bytes_zeros (S (length (bits ++ [true])))); rewrite ?Hm; lia.
Qed.

(* ------------------------------------------------------------------ *)
(* descriptors                                                         *)
(* ------------------------------------------------------------------ *)
Lemma ex_bits_descriptor : forall b, (b <= 1023)%nat -> bits_descriptor b = Ok (s_d2 b).
Proof.
  intros b Hb. unfold bits_descriptor, s_d2, to_byte1.
  pose proof (Nat.div_mod b 8 ltac:(lia)) as Hdm.
  pose proof (Nat.mod_upper_bound b 8 ltac:(lia)) as Hub.
  assert (Hq : N.of_nat ((b + 7) / 8) = N.of_nat (b / 8) + (if (b mod 8 =? 0)%nat then 0 else 1)).
  { set (q := (b / 8)%nat) in *. set (r := (b mod 8)%nat) in *.
    destruct (Nat.eqb_spec r 0) as [Hr|Hr].
    - replace (b + 7)%nat with (7 + q * 8)%nat by lia. rewrite Nat.div_add by lia.
      change (7 / 8)%nat with 0%nat. lia.
    - replace (b + 7)%nat with ((r - 1) + (q + 1) * 8)%nat by lia. rewrite Nat.div_add by lia.
      rewrite (Nat.div_small (r - 1) 8) by lia. lia. }
  rewrite Hq.
  set (q := (b / 8)%nat) in *. set (r := (b mod 8)%nat) in *.
  assert (Hlt : 2 * N.of_nat q + (if (r =? 0)%nat then 0 else 1) < 256).
  { destruct (Nat.eqb_spec r 0); lia. }
  apply N.ltb_lt in Hlt. rewrite Hlt. f_equal. lia.
Qed.

Lemma ex_refs_descriptor n e m : (n <= 4)%nat -> m <= 7 ->
  refs_descriptor n e m = Ok (s_d1 n e m).
Proof.
  intros Hn Hm. unfold refs_descriptor, s_d1, to_byte1.
  assert (Hlt : N.of_nat n + 8 * b2n e + 32 * m < 256) by (destruct e; cbn [b2n]; lia).
  apply N.ltb_lt in Hlt. rewrite Hlt. reflexivity.
Qed.

(* ------------------------------------------------------------------ *)
(* maxima                                                              *)
(* ------------------------------------------------------------------ *)
Lemma ex_fold_left_max_acc : forall l a, fold_left N.max l a = N.max a (maxl l).
Proof.
  induction l as [|x l IH]; intro a; cbn [fold_left maxl fold_right].
  - lia.
  - rewrite IH. fold (maxl l). lia.
Qed.

Lemma ex_fold_left_max_maxl l : fold_left N.max l 0 = maxl l.
Proof. rewrite ex_fold_left_max_acc. lia. Qed.

Lemma ex_maxl_le_Forall l n : maxl l <= n <-> Forall (fun x => x <= n) l.
Proof.
  induction l as [|x l IH]; cbn [maxl fold_right].
  - split; [constructor|lia].
  - fold (maxl l). split.
    + intro Hm. constructor; [lia|apply IH; lia].
    + intro Hf. inversion Hf as [|? ? Hx Hl]; subst. apply IH in Hl. lia.
Qed.

(* ------------------------------------------------------------------ *)
(* finite checks on masks 0..7                                         *)
(* ------------------------------------------------------------------ *)
Definition ex_sigl (m : N) (n : nat) : list nat :=
  filter (fun l => lm_significant m (N.of_nat l)) (seq 0 n).

(* the greatest significant level <= l *)
Fixpoint ex_eff (m : N) (l : nat) : nat :=
  match l with
  | O => O
  | S l' => if N.testbit m (N.of_nat l') then l else ex_eff m l'
  end.

Lemma ex_size_le3 m : m <= 7 -> N.size m <= 3.
Proof.
  intro Hm.
  assert (Hc : allb_below 8 (fun m => N.size m <=? 3) = true) by (vm_compute; reflexivity).
  apply N.leb_le. apply (allb_below_spec _ _ Hc). lia.
Qed.

Lemma ex_sigl_nth m l : m <= 7 -> (l <= 4)%nat ->
  nth_error (ex_sigl m (N.to_nat (lm_level m) + 1)) (N.to_nat (lm_hash_index (lm_apply m (N.of_nat l))))
  = Some (ex_eff m l).
Proof.
  intros Hm Hl.
  assert (Hc : allb_below 8 (fun m => allb_below 5 (fun l =>
            match nth_error (ex_sigl m (N.to_nat (lm_level m) + 1))
                            (N.to_nat (lm_hash_index (lm_apply m l))) with
            | Some x => Nat.eqb x (ex_eff m (N.to_nat l))
            | None => false
            end)) = true) by (vm_compute; reflexivity).
  assert (Hm' : m < 8) by lia.
  pose proof (allb_below_spec _ _ Hc m Hm') as Hc1. cbv beta in Hc1.
  assert (Hl' : N.of_nat l < 5) by lia.
  pose proof (allb_below_spec _ _ Hc1 (N.of_nat l) Hl') as Hc2. cbv beta in Hc2.
  rewrite Nat2N.id in Hc2.
  destruct (nth_error _ _) as [x|]; [|discriminate].
  apply Nat.eqb_eq in Hc2. subst x. reflexivity.
Qed.

(* ------------------------------------------------------------------ *)
(* unfolding the specification                                         *)
(* ------------------------------------------------------------------ *)
Definition ex_depth_of (ks : list (list N * N)) : N :=
  match ks with [] => 0 | _ => 1 + maxl (map snd ks) end.
Definition ex_tail (ks : list (list N * N)) : list N :=
  concat (map (fun k => be_bytes 2 (snd k)) ks) ++ concat (map fst ks).

Section Unfold.
  Variable H : list N -> list N.

  Definition ex_kids (ty : Z) (rs : list cell) (l : nat) : list (list N * N) :=
    map (fun r => s_hd H r (if is_merkle ty then S l else l)) rs.

  Definition ex_np_lev (ty : Z) (bits : list bool) (rs : list cell) (m : N) : nat -> list N * N :=
    fix lev (l : nat) : list N * N :=
      match l with
      | O => let ks := ex_kids ty rs O in
             (H ([s_d1 (length rs) (is_exotic ty) 0; s_d2 (length bits)] ++ bits_to_bytes (s_pad bits)
                 ++ ex_tail ks), ex_depth_of ks)
      | S l' =>
          if N.testbit m (N.of_nat l') then
            let ks := ex_kids ty rs l in
            (H ([s_d1 (length rs) (is_exotic ty) (low_mask m l); s_d2 (length bits)] ++ fst (lev l')
                ++ ex_tail ks), ex_depth_of ks)
          else lev l'
      end.

  Lemma ex_s_hd_np ty bits rs : (ty =? ty_pruned)%Z = false ->
    s_hd H (Cell ty bits rs) = ex_np_lev ty bits rs (s_mask (Cell ty bits rs)).
  Proof. intro Hp. cbn [s_hd]. rewrite Hp. reflexivity. Qed.

  Lemma ex_s_hd_pruned bits rs l :
    s_hd H (Cell ty_pruned bits rs) l =
    let m := s_mask (Cell ty_pruned bits rs) in
    let data := bits_to_bytes (s_pad bits) in
    let i := popcount (low_mask m l) in
    let p := popcount m in
    if i =? p then (H ([s_d1 0 true m; s_d2 (length bits)] ++ data), 0)
    else (slice data (N.to_nat (2 + 32 * i)) (N.to_nat (2 + 32 * i + 32)),
          of_be (slice data (N.to_nat (2 + 32 * p + 2 * i)) (N.to_nat (2 + 32 * p + 2 * i + 2)))).
  Proof. reflexivity. Qed.

  Lemma ex_s_hd_np_0 ty bits rs : (ty =? ty_pruned)%Z = false ->
    s_hd H (Cell ty bits rs) 0 =
    (H ([s_d1 (length rs) (is_exotic ty) 0; s_d2 (length bits)] ++ bits_to_bytes (s_pad bits)
        ++ ex_tail (ex_kids ty rs 0)), ex_depth_of (ex_kids ty rs 0)).
  Proof. intro Hp. rewrite (ex_s_hd_np _ _ _ Hp). reflexivity. Qed.

  Lemma ex_s_hd_np_S ty bits rs l : (ty =? ty_pruned)%Z = false ->
    s_hd H (Cell ty bits rs) (S l) =
    if N.testbit (s_mask (Cell ty bits rs)) (N.of_nat l) then
      (H ([s_d1 (length rs) (is_exotic ty) (low_mask (s_mask (Cell ty bits rs)) (S l)); s_d2 (length bits)]
          ++ fst (s_hd H (Cell ty bits rs) l) ++ ex_tail (ex_kids ty rs (S l))),
       ex_depth_of (ex_kids ty rs (S l)))
    else s_hd H (Cell ty bits rs) l.
  Proof. intro Hp. rewrite (ex_s_hd_np _ _ _ Hp). reflexivity. Qed.

  (* hash and depth at a significant level *)
  Lemma ex_s_hd_sig ty bits rs li : (ty =? ty_pruned)%Z = false ->
    lm_significant (s_mask (Cell ty bits rs)) (N.of_nat li) = true ->
    s_hd H (Cell ty bits rs) li =
    (H ([s_d1 (length rs) (is_exotic ty) (low_mask (s_mask (Cell ty bits rs)) li); s_d2 (length bits)]
        ++ match li with
           | O => bits_to_bytes (s_pad bits)
           | S l' => s_hash_at H (Cell ty bits rs) l'
           end ++ ex_tail (ex_kids ty rs li)),
     ex_depth_of (ex_kids ty rs li)).
  Proof.
    intros Hp Hs. destruct li as [|l'].
    - rewrite ex_low_mask_0. apply ex_s_hd_np_0. exact Hp.
    - rewrite ex_sig_S in Hs. rewrite (ex_s_hd_np_S _ _ _ _ Hp), Hs. reflexivity.
  Qed.

  Lemma ex_s_hd_nonsig ty bits rs l : (ty =? ty_pruned)%Z = false ->
    N.testbit (s_mask (Cell ty bits rs)) (N.of_nat l) = false ->
    s_hd H (Cell ty bits rs) (S l) = s_hd H (Cell ty bits rs) l.
  Proof. intros Hp Hs. rewrite (ex_s_hd_np_S _ _ _ _ Hp), Hs. reflexivity. Qed.

  Lemma ex_s_hd_eff ty bits rs l : (ty =? ty_pruned)%Z = false ->
    s_hd H (Cell ty bits rs) l = s_hd H (Cell ty bits rs) (ex_eff (s_mask (Cell ty bits rs)) l).
  Proof.
    intro Hp. induction l as [|l IH]; [reflexivity|].
    cbn [ex_eff]. destruct (N.testbit (s_mask (Cell ty bits rs)) (N.of_nat l)) eqn:Hb; [reflexivity|].
    rewrite (ex_s_hd_nonsig _ _ _ _ Hp Hb). exact IH.
  Qed.

  (* ---------------------------------------------------------------- *)
  (* 3. ordinary contexts                                              *)
  (* ---------------------------------------------------------------- *)
  Lemma ex_plug_np K x : ctx_nonpruned K = true -> K <> Hole ->
    exists ty bits rs, plug K x = Cell ty bits rs /\ (ty =? ty_pruned)%Z = false.
  Proof.
    destruct K as [|ty bits bef K' aft]; intros Hnp Hne; [congruence|].
    cbn [ctx_nonpruned] in Hnp. apply andb_prop in Hnp. destruct Hnp as [Hty _].
    apply negb_true_iff in Hty.
    exists ty, bits, (bef ++ plug K' x :: aft). split; [reflexivity|exact Hty].
  Qed.

  Theorem prune_ordinary : forall K t p,
    ctx_nonpruned K = true -> merkle_depth K = 0%nat ->
    s_hd H p 0 = s_hd H t 0 ->
    s_hd H (plug K p) 0 = s_hd H (plug K t) 0.
  Proof.
    intros K t p. induction K as [|ty bits bef K' IH aft]; intros Hnp Hmd Hpt.
    - exact Hpt.
    - cbn [ctx_nonpruned] in Hnp. apply andb_prop in Hnp. destruct Hnp as [Hty Hnp'].
      apply negb_true_iff in Hty.
      cbn [merkle_depth] in Hmd.
      destruct (is_merkle ty) eqn:Hmk; [discriminate|]. cbn [Nat.add] in Hmd.
      specialize (IH Hnp' Hmd Hpt).
      cbn [plug]. rewrite !(ex_s_hd_np_0 _ _ _ Hty).
      assert (Hk : ex_kids ty (bef ++ plug K' p :: aft) 0 = ex_kids ty (bef ++ plug K' t :: aft) 0).
      { unfold ex_kids. rewrite Hmk. rewrite !map_app. cbn [map]. rewrite IH. reflexivity. }
      rewrite Hk. rewrite !app_length. cbn [length]. reflexivity.
  Qed.
End Unfold.

(* ------------------------------------------------------------------ *)
(* 2. the hash loop                                                    *)
(* ------------------------------------------------------------------ *)
Lemma ex_seqN_S : forall n a, seqN a (S n) = seqN a n ++ [a + N.of_nat n].
Proof.
  induction n as [|n IH]; intro a.
  - cbn [seqN app]. f_equal. lia.
  - change (seqN a (S (S n))) with (a :: seqN (a + 1) (S n)).
    rewrite IH. cbn [seqN app]. do 3 f_equal. lia.
Qed.

Lemma ex_foldM_app {A B} (f : A -> B -> result A) : forall l1 l2 a,
  foldM f (l1 ++ l2) a = bind (foldM f l1 a) (foldM f l2).
Proof.
  induction l1 as [|x l1 IH]; intros l2 a; [reflexivity|].
  cbn [app foldM]. destruct (f a x) as [a'|e]; [cbn [bind]; apply IH|reflexivity].
Qed.

Lemma ex_sigl_S m n :
  ex_sigl m (S n) = ex_sigl m n ++ (if lm_significant m (N.of_nat n) then [n] else []).
Proof.
  unfold ex_sigl. rewrite seq_S, filter_app. cbn [Nat.add filter]. reflexivity.
Qed.

Lemma ex_mapM_to_bytes2 ds : Forall (fun d => d <= 65535) ds ->
  mapM to_bytes2 ds = Ok (map (be_bytes 2) ds).
Proof.
  induction 1 as [|d ds Hd Hds IH]; [reflexivity|].
  cbn [map mapM]. rewrite IH. unfold to_bytes2 at 1.
  assert (Hlt : d < 65536) by lia. apply N.ltb_lt in Hlt. rewrite Hlt. reflexivity.
Qed.

Lemma ex_depth_match (krefs : list kcell) (rs : list cell) (rds : list N) :
  length krefs = length rs ->
  match rs with [] => 0 | _ => 1 + maxl rds end <= 1023 ->
  match krefs with
  | [] => Ok 0
  | _ => if 1024 <=? fold_left N.max rds 0 + 1 then Err ECell else Ok (fold_left N.max rds 0 + 1)
  end = Ok (match rs with [] => 0 | _ => 1 + maxl rds end).
Proof.
  intros Hlen Hd. rewrite ex_fold_left_max_maxl.
  destruct krefs as [|k krefs], rs as [|r rs]; cbn [length] in Hlen; try discriminate; [reflexivity|].
  assert (Hf : 1024 <=? maxl rds + 1 = false) by (apply N.leb_gt; lia).
  rewrite Hf. f_equal. lia.
Qed.

Lemma ex_Forall2_length {A B} (R : A -> B -> Prop) l1 l2 : Forall2 R l1 l2 -> length l1 = length l2.
Proof. induction 1 as [|x y l1 l2 _ _ IH]; [reflexivity|cbn [length]; rewrite IH; reflexivity]. Qed.

Section Levels.
  Variable H : list N -> list N.
  Hypothesis H_len : forall m, length (H m) = 32%nat.

  (* what the construction of a parent needs to know about a constructed child *)
  Definition ex_rel (r : cell) (k : kcell) : Prop :=
    k_mask k = s_mask r /\
    forall l, (l <= 4)%nat ->
      get_hash k (N.of_nat l) = Ok (s_hash_at H r l) /\
      get_depth k (N.of_nat l) = Ok (s_depth_at H r l).

  Lemma ex_mapM_get_depth rs krefs l : Forall2 ex_rel rs krefs -> (l <= 4)%nat ->
    mapM (fun r => get_depth r (N.of_nat l)) krefs = Ok (map (fun r => s_depth_at H r l) rs).
  Proof.
    intros HR Hl. induction HR as [|r k rs krefs Hr HR IH]; [reflexivity|].
    cbn [map mapM]. destruct Hr as [_ Hr]. destruct (Hr l Hl) as [_ Hd].
    rewrite Hd, IH. reflexivity.
  Qed.

  Lemma ex_mapM_get_hash rs krefs l : Forall2 ex_rel rs krefs -> (l <= 4)%nat ->
    mapM (fun r => get_hash r (N.of_nat l)) krefs = Ok (map (fun r => s_hash_at H r l) rs).
  Proof.
    intros HR Hl. induction HR as [|r k rs krefs Hr HR IH]; [reflexivity|].
    cbn [map mapM]. destruct Hr as [_ Hr]. destruct (Hr l Hl) as [Hh _].
    rewrite Hh, IH. reflexivity.
  Qed.

  Lemma ex_depth_of_kids ty rs l :
    ex_depth_of (ex_kids H ty rs l) =
    match rs with
    | [] => 0
    | _ => 1 + maxl (map (fun r => s_depth_at H r (if is_merkle ty then S l else l)) rs)
    end.
  Proof.
    unfold ex_depth_of, ex_kids. destruct rs as [|r rs]; [reflexivity|].
    cbn [map]. rewrite map_map. reflexivity.
  Qed.

  Lemma ex_tail_kids ty rs l :
    ex_tail (ex_kids H ty rs l) =
    concat (map (be_bytes 2) (map (fun r => s_depth_at H r (if is_merkle ty then S l else l)) rs))
    ++ concat (map (fun r => s_hash_at H r (if is_merkle ty then S l else l)) rs).
  Proof.
    unfold ex_tail, ex_kids. rewrite !map_map. reflexivity.
  Qed.

  (* one iteration of the loop for a non-pruned cell at a significant level *)
  Lemma ex_step_np ty bits rs krefs li hi hs ds :
    (ty =? ty_pruned)%Z = false ->
    Forall2 ex_rel rs krefs ->
    (length bits <= 1023)%nat -> (length rs <= 4)%nat ->
    s_mask (Cell ty bits rs) <= 7 -> (li <= 3)%nat ->
    lm_significant (s_mask (Cell ty bits rs)) (N.of_nat li) = true ->
    s_depth_at H (Cell ty bits rs) li <= 1023 ->
    hi = N.of_nat (length hs) ->
    match li with
    | O => hs = []
    | S l' => exists hs0, hs = hs0 ++ [s_hash_at H (Cell ty bits rs) l']
    end ->
    hash_step H ty bits krefs (s_mask (Cell ty bits rs)) 0 (hi, hs, ds) (N.of_nat li)
    = Ok (hi + 1, hs ++ [s_hash_at H (Cell ty bits rs) li], ds ++ [s_depth_at H (Cell ty bits rs) li]).
  Proof.
    intros Hp HR Hlb Hlr Hm Hli Hsig Hdep Hhi Hlast.
    set (c := Cell ty bits rs) in *. set (m := s_mask c) in *.
    pose proof (ex_Forall2_length _ _ _ HR) as Hlen.
    pose proof (ex_s_hd_sig H ty bits rs li Hp Hsig) as Hhd. fold c in Hhd. fold m in Hhd.
    unfold s_hash_at, s_depth_at. unfold s_depth_at in Hdep. rewrite Hhd in Hdep |- *. cbn [fst snd] in Hdep |- *.
    unfold hash_step. rewrite Hsig. cbn [negb].
    assert (Hlt0 : (hi <? 0) = false) by (apply N.ltb_ge; lia). rewrite Hlt0.
    rewrite <- Hlen.
    assert (Hlow : lm_apply m (N.of_nat li) = low_mask m li) by (rewrite ex_lm_apply_low, Nat2N.id; reflexivity).
    rewrite Hlow.
    rewrite (ex_refs_descriptor (length rs) (is_exotic ty) (low_mask m li) Hlr)
      by (pose proof (ex_low_mask_le m li); lia).
    cbn [bind]. rewrite (ex_bits_descriptor _ Hlb). cbn [bind].
    (* the payload *)
    assert (Hpay :
      (if hi =? 0
       then if negb (N.of_nat li =? 0) && negb (ty =? ty_pruned)%Z then Err ECell else Ok (data_bytes bits)
       else if (N.of_nat li =? 0) || (ty =? ty_pruned)%Z then Err ECell else nth_res hs (hi - 0 - 1))
      = Ok match li with O => bits_to_bytes (s_pad bits) | S l' => s_hash_at H c l' end).
    { destruct li as [|l'].
      - subst hs. subst hi. cbn [length]. change (N.of_nat 0 =? 0) with true. cbn [negb andb].
        rewrite ex_data_bytes_pad. reflexivity.
      - destruct Hlast as [hs0 Ehs]. subst hs. rewrite app_length in Hhi. cbn [length] in Hhi.
        assert (E1 : hi =? 0 = false) by (apply N.eqb_neq; lia).
        assert (E2 : N.of_nat (S l') =? 0 = false) by (apply N.eqb_neq; lia).
        rewrite E1, E2, Hp. cbn [orb]. unfold nth_res.
        replace (N.to_nat (hi - 0 - 1)) with (length hs0) by lia.
        rewrite nth_error_app2 by lia. rewrite Nat.sub_diag. reflexivity. }
    rewrite Hpay. cbn [bind]. clear Hpay.
    (* the level at which the children are read *)
    set (L := if is_merkle ty then S li else li).
    assert (HL : (if is_merkle ty then N.of_nat li + 1 else N.of_nat li) = N.of_nat L).
    { unfold L. destruct (is_merkle ty); lia. }
    assert (HL4 : (L <= 4)%nat) by (unfold L; destruct (is_merkle ty); lia).
    rewrite HL.
    rewrite (ex_mapM_get_depth rs krefs L HR HL4). cbn [bind].
    rewrite ex_depth_of_kids in Hdep |- *. fold L in Hdep |- *.
    rewrite ex_tail_kids. fold L.
    set (rds := map (fun r => s_depth_at H r L) rs) in *.
    assert (Hrds : Forall (fun d => d <= 65535) rds).
    { destruct rs as [|r rs]; [constructor|].
      assert (Hmx : maxl rds <= 65535) by lia.
      apply ex_maxl_le_Forall in Hmx. exact Hmx. }
    rewrite (ex_mapM_to_bytes2 _ Hrds). cbn [bind].
    rewrite (ex_depth_match krefs rs rds (eq_sym Hlen) Hdep). cbn [bind].
    rewrite (ex_mapM_get_hash rs krefs L HR HL4). cbn [bind].
    reflexivity.
  Qed.

  Lemma ex_step_skip ty bits krefs mask off st li :
    lm_significant mask li = false -> hash_step H ty bits krefs mask off st li = Ok st.
  Proof. intro Hs. destruct st as [[hi hs] ds]. unfold hash_step. rewrite Hs. reflexivity. Qed.

  Lemma ex_sigl_last ty bits rs n : (ty =? ty_pruned)%Z = false ->
    exists hs0, map (s_hash_at H (Cell ty bits rs)) (ex_sigl (s_mask (Cell ty bits rs)) (S n))
                = hs0 ++ [s_hash_at H (Cell ty bits rs) n].
  Proof.
    intro Hp. induction n as [|n [hs0 IH]].
    - exists []. reflexivity.
    - rewrite ex_sigl_S, map_app, ex_sig_S.
      destruct (N.testbit (s_mask (Cell ty bits rs)) (N.of_nat n)) eqn:Hb.
      + eexists. reflexivity.
      + exists hs0. cbn [map]. rewrite app_nil_r, IH. unfold s_hash_at.
        rewrite (ex_s_hd_nonsig H _ _ _ _ Hp Hb). reflexivity.
  Qed.

  Lemma ex_loop_np ty bits rs krefs :
    (ty =? ty_pruned)%Z = false ->
    Forall2 ex_rel rs krefs ->
    (length bits <= 1023)%nat -> (length rs <= 4)%nat ->
    s_mask (Cell ty bits rs) <= 7 ->
    (forall l, (l <= 3)%nat -> s_depth_at H (Cell ty bits rs) l <= 1023) ->
    forall n, (n <= 4)%nat ->
    foldM (hash_step H ty bits krefs (s_mask (Cell ty bits rs)) 0) (seqN 0 n) (0, [], []) =
    Ok (N.of_nat (length (ex_sigl (s_mask (Cell ty bits rs)) n)),
        map (s_hash_at H (Cell ty bits rs)) (ex_sigl (s_mask (Cell ty bits rs)) n),
        map (s_depth_at H (Cell ty bits rs)) (ex_sigl (s_mask (Cell ty bits rs)) n)).
  Proof.
    intros Hp HR Hlb Hlr Hm Hdep.
    set (c := Cell ty bits rs) in *. set (m := s_mask c) in *.
    induction n as [|n IH]; intro Hn; [reflexivity|].
    rewrite ex_seqN_S, ex_foldM_app, IH by lia. cbn [bind foldM]. rewrite N.add_0_l.
    rewrite ex_sigl_S.
    destruct (lm_significant m (N.of_nat n)) eqn:Hs.
    - rewrite (ex_step_np ty bits rs krefs n _ _ _ Hp HR Hlb Hlr Hm ltac:(lia) Hs (Hdep n ltac:(lia))).
      + cbn [bind]. rewrite !map_app, app_length. cbn [map length]. do 3 f_equal. lia.
      + rewrite map_length. reflexivity.
      + destruct n as [|n']; [reflexivity|]. apply ex_sigl_last. exact Hp.
    - rewrite ex_step_skip by exact Hs. cbn [bind]. rewrite app_nil_r. reflexivity.
  Qed.

  (* Cell.__init__ of a non-pruned cell on constructed children *)
  Lemma ex_mk_np ty bits rs krefs :
    (ty =? ty_pruned)%Z = false ->
    Forall2 ex_rel rs krefs ->
    resolve_mask ty bits krefs = Ok (s_mask (Cell ty bits rs)) ->
    (length bits <= 1023)%nat -> (length rs <= 4)%nat ->
    s_mask (Cell ty bits rs) <= 7 ->
    (forall l, (l <= 3)%nat -> s_depth_at H (Cell ty bits rs) l <= 1023) ->
    exists k, mk_cell H ty bits krefs = Ok k /\ ex_rel (Cell ty bits rs) k.
  Proof.
    intros Hp HR Hres Hlb Hlr Hm Hdep.
    pose proof (ex_Forall2_length _ _ _ HR) as Hlen.
    pose proof (ex_size_le3 _ Hm) as Hsz.
    unfold mk_cell. rewrite Hres. cbn [bind]. cbv zeta. rewrite Hp, N.sub_diag.
    rewrite (ex_loop_np ty bits rs krefs Hp HR Hlb Hlr Hm Hdep) by (unfold lm_level, bit_length; lia).
    cbn [bind]. rewrite <- Hlen.
    rewrite (ex_refs_descriptor _ _ _ Hlr Hm). cbn [bind].
    rewrite (ex_bits_descriptor _ Hlb). cbn [bind].
    set (c := Cell ty bits rs) in *. set (m := s_mask c) in *.
    set (sl := ex_sigl m (N.to_nat (lm_level m) + 1)).
    assert (Hne : sl <> []).
    { pose proof (ex_sigl_nth m 0 Hm ltac:(lia)) as Hn. fold sl in Hn. intro E. rewrite E in Hn.
      destruct (N.to_nat _); discriminate. }
    destruct (map (s_hash_at H c) sl) as [|h0 hs'] eqn:Emap; [apply map_eq_nil in Emap; congruence|].
    rewrite <- Emap. clear Emap h0 hs'.
    eexists. split; [reflexivity|].
    split; [reflexivity|].
    intros l Hl.
    pose proof (ex_sigl_nth m l Hm Hl) as Hn. fold sl in Hn.
    unfold get_hash, get_depth. cbn [k_ty k_mask k_hashes k_depths]. rewrite Hp.
    unfold nth_res.
    rewrite !(map_nth_error _ _ _ Hn).
    unfold s_hash_at, s_depth_at. unfold c. rewrite (ex_s_hd_eff H ty bits rs l Hp). auto.
  Qed.

  (* ---- pruned branch cells ---- *)
  Lemma ex_step_lt ty bits krefs mask off hi hs ds li :
    lm_significant mask li = true -> (hi <? off) = true ->
    hash_step H ty bits krefs mask off (hi, hs, ds) li = Ok (hi + 1, hs, ds).
  Proof. intros Hs Hlt. unfold hash_step. rewrite Hs, Hlt. reflexivity. Qed.

  Lemma ex_step_pr bits mask off hi hs ds li :
    lm_significant mask li = true -> (hi <? off) = false -> (hi =? off) = true ->
    (length bits <= 1023)%nat -> lm_apply mask li <= 7 ->
    hash_step H ty_pruned bits [] mask off (hi, hs, ds) li =
    Ok (hi + 1, hs ++ [H ([s_d1 0 true (lm_apply mask li); s_d2 (length bits)] ++ data_bytes bits)],
        ds ++ [0]).
  Proof.
    intros Hs Hlt He Hlb Hm. unfold hash_step. rewrite Hs, Hlt, He. cbn [negb].
    change (is_exotic ty_pruned) with true. cbn [length].
    rewrite (ex_refs_descriptor 0 true _ ltac:(lia) Hm). cbn [bind].
    rewrite ex_bits_descriptor by exact Hlb. cbn [bind].
    change (ty_pruned =? ty_pruned)%Z with true. cbn [negb]. rewrite andb_false_r.
    cbn [bind mapM fold_left concat]. rewrite !app_nil_r. reflexivity.
  Qed.

  Lemma ex_loop_pruned bits m : 1 <= m <= 7 -> (length bits <= 1023)%nat ->
    foldM (hash_step H ty_pruned bits [] m (popcount m)) (seqN 0 (N.to_nat (lm_level m) + 1)) (0, [], [])
    = Ok (popcount m + 1, [H ([s_d1 0 true m; s_d2 (length bits)] ++ data_bytes bits)], [0]).
  Proof.
    intros Hm Hlb.
    assert (Hc : m = 1 \/ m = 2 \/ m = 3 \/ m = 4 \/ m = 5 \/ m = 6 \/ m = 7) by lia.
    destruct Hc as [->|[->|[->|[->|[->|[->| ->]]]]]];
    (match goal with |- context [seqN ?a ?n] =>
       let s := eval vm_compute in (seqN a n) in change (seqN a n) with s end);
    (match goal with |- context [popcount ?x] =>
       let s := eval vm_compute in (popcount x) in change (popcount x) with s end);
    cbn [foldM];
    repeat (first [ rewrite ex_step_skip by reflexivity
                  | rewrite ex_step_lt by reflexivity
                  | rewrite ex_step_pr by
                      (first [reflexivity | exact Hlb | (apply N.leb_le; reflexivity)]) ];
            cbn [bind foldM]);
    reflexivity.
  Qed.

  Lemma ex_get_hash_pruned bits krefs m hs ds lvl :
    get_hash (KCell ty_pruned bits krefs m hs ds) lvl =
    if negb (popcount (lm_apply m lvl) =? popcount m) then
      Ok (slice (data_bytes bits) (N.to_nat (2 + popcount (lm_apply m lvl) * 32))
                (N.to_nat (2 + (popcount (lm_apply m lvl) + 1) * 32)))
    else nth_res hs 0.
  Proof. reflexivity. Qed.

  Lemma ex_get_depth_pruned bits krefs m hs ds lvl :
    get_depth (KCell ty_pruned bits krefs m hs ds) lvl =
    if negb (popcount (lm_apply m lvl) =? popcount m) then
      Ok (of_be (slice (data_bytes bits)
                       (N.to_nat (2 + 32 * popcount m + popcount (lm_apply m lvl) * 2))
                       (N.to_nat (2 + 32 * popcount m + popcount (lm_apply m lvl) * 2) + 2)))
    else nth_res ds 0.
  Proof. reflexivity. Qed.

  Lemma ex_mk_pruned bits :
    (length bits <= 1023)%nat ->
    1 <= s_mask (Cell ty_pruned bits []) <= 7 ->
    resolve_mask ty_pruned bits [] = Ok (s_mask (Cell ty_pruned bits [])) ->
    exists k, mk_cell H ty_pruned bits [] = Ok k /\ ex_rel (Cell ty_pruned bits []) k.
  Proof.
    intros Hlb Hm Hres.
    unfold mk_cell. rewrite Hres. cbn [bind]. cbv zeta.
    set (c := Cell ty_pruned bits []) in *. set (m := s_mask c) in *.
    change (ty_pruned =? ty_pruned)%Z with true. cbv iota.
    rewrite N.add_sub. change (lm_hash_index m) with (popcount m).
    rewrite (ex_loop_pruned bits m Hm Hlb). cbn [bind length].
    change (is_exotic ty_pruned) with true.
    rewrite (ex_refs_descriptor 0 true m ltac:(lia) ltac:(lia)). cbn [bind].
    rewrite (ex_bits_descriptor _ Hlb). cbn [bind].
    eexists. split; [reflexivity|]. split; [reflexivity|].
    intros l Hl. rewrite ex_get_hash_pruned, ex_get_depth_pruned.
    rewrite ex_lm_apply_low, Nat2N.id.
    unfold s_hash_at, s_depth_at. unfold c at 1 2. rewrite ex_s_hd_pruned. cbv zeta. fold c. fold m.
    destruct (popcount (low_mask m l) =? popcount m) eqn:E; cbn [negb fst snd].
    - unfold nth_res. cbn [N.to_nat nth_error]. rewrite ex_data_bytes_pad. split; reflexivity.
    - rewrite ex_data_bytes_pad.
      set (i := popcount (low_mask m l)). set (p := popcount m).
      replace (N.to_nat (2 + i * 32)) with (N.to_nat (2 + 32 * i)) by lia.
      replace (N.to_nat (2 + (i + 1) * 32)) with (N.to_nat (2 + 32 * i + 32)) by lia.
      replace (N.to_nat (2 + 32 * p + i * 2)) with (N.to_nat (2 + 32 * p + 2 * i)) by lia.
      replace (N.to_nat (2 + 32 * p + 2 * i) + 2)%nat with (N.to_nat (2 + 32 * p + 2 * i + 2)) by lia.
      split; reflexivity.
  Qed.

  (* ---- the level mask ---- *)
  Lemma ex_fold_mask rs krefs : Forall2 ex_rel rs krefs -> forall a,
    fold_left (fun m r => N.lor m (k_mask r)) krefs a =
    N.lor a (fold_right (fun r a => N.lor (s_mask r) a) 0 rs).
  Proof.
    induction 1 as [|r k rs krefs Hr HR IH]; intro a; cbn [fold_left fold_right].
    - rewrite N.lor_0_r. reflexivity.
    - rewrite IH. destruct Hr as [Hmask _]. rewrite Hmask, N.lor_assoc. reflexivity.
  Qed.

  Lemma ex_wf_inv ty bits rs : wf_exotic (Cell ty bits rs) = true ->
    (length bits <= 1023)%nat /\ (length rs <= 4)%nat /\ forallb wf_exotic rs = true /\
    s_mask (Cell ty bits rs) <= 7 /\
    (ty = ty_ordinary \/
     (ty = ty_pruned /\ rs = [] /\ 1 <= s_mask (Cell ty bits rs) /\
      length bits = (16 + 272 * N.to_nat (popcount (s_mask (Cell ty bits rs))))%nat) \/
     (ty = ty_library /\ rs = []) \/
     (ty = ty_mproof /\ length rs = 1%nat) \/
     (ty = ty_mupdate /\ length rs = 2%nat)).
  Proof.
    cbn [wf_exotic]. intro Hw.
    apply andb_prop in Hw. destruct Hw as [Hw Hty].
    apply andb_prop in Hw. destruct Hw as [Hw Hm].
    apply andb_prop in Hw. destruct Hw as [Hw Hrs].
    apply andb_prop in Hw. destruct Hw as [Hlb Hlr].
    apply Nat.leb_le in Hlb. apply Nat.leb_le in Hlr. apply N.leb_le in Hm.
    repeat (split; [assumption|]).
    destruct (Z.eqb_spec ty ty_ordinary) as [E|_]; [left; exact E|right].
    destruct (Z.eqb_spec ty ty_pruned) as [E|_].
    { left. apply andb_prop in Hty. destruct Hty as [Hty Hbl].
      apply andb_prop in Hty. destruct Hty as [Hn H1].
      apply Nat.eqb_eq in Hn. apply Nat.eqb_eq in Hbl. apply N.leb_le in H1.
      destruct rs; [|discriminate]. auto. }
    right.
    destruct (Z.eqb_spec ty ty_library) as [E|_].
    { left. apply Nat.eqb_eq in Hty. destruct rs; [|discriminate]. auto. }
    right.
    destruct (Z.eqb_spec ty ty_mproof) as [E|_].
    { left. apply Nat.eqb_eq in Hty. auto. }
    right.
    destruct (Z.eqb_spec ty ty_mupdate) as [E|_]; [|discriminate].
    apply Nat.eqb_eq in Hty. auto.
  Qed.

  Lemma ex_depth_okb_inv ty bits rs : depth_okb H (Cell ty bits rs) = true ->
    (forall l, (l <= 3)%nat -> s_depth_at H (Cell ty bits rs) l <= 1023) /\
    forallb (depth_okb H) rs = true.
  Proof.
    cbn [depth_okb forallb]. intro Hd.
    apply andb_prop in Hd. destruct Hd as [Hd Hrs]. split; [|exact Hrs].
    apply andb_prop in Hd. destruct Hd as [H0 Hd].
    apply andb_prop in Hd. destruct Hd as [H1 Hd].
    apply andb_prop in Hd. destruct Hd as [H2 Hd].
    apply andb_prop in Hd. destruct Hd as [H3 _].
    apply N.leb_le in H0, H1, H2, H3.
    intros l Hl. destruct l as [|[|[|[|l]]]]; [assumption..|lia].
  Qed.

  Lemma ex_build_eq ty bits rs :
    build H (Cell ty bits rs) = bind (mapM' (build H) rs) (fun krefs => mk_cell H ty bits krefs).
  Proof.
    change (build H (Cell ty bits rs)) with
      (bind ((fix go (l : list cell) : result (list kcell) :=
                match l with
                | [] => Ok []
                | x :: xs => bind (build H x) (fun y => bind (go xs) (fun ys => Ok (y :: ys)))
                end) rs)
            (fun krefs => mk_cell H ty bits krefs)).
    f_equal.
    induction rs as [|r rs IH]; [reflexivity|].
    cbn [mapM']. rewrite <- IH. reflexivity.
  Qed.

  Definition ex_P (c : cell) : Prop :=
    wf_exotic c = true -> depth_okb H c = true -> exists k, build H c = Ok k /\ ex_rel c k.

  Lemma ex_mapM'_build rs :
    Forall ex_P rs -> forallb wf_exotic rs = true -> forallb (depth_okb H) rs = true ->
    exists krefs, mapM' (build H) rs = Ok krefs /\ Forall2 ex_rel rs krefs.
  Proof.
    induction 1 as [|r rs Hr Hrs IH]; intros Hwf Hd.
    - exists []. split; [reflexivity|constructor].
    - cbn [forallb] in Hwf, Hd.
      apply andb_prop in Hwf. destruct Hwf as [Hwr Hwrs].
      apply andb_prop in Hd. destruct Hd as [Hdr Hdrs].
      destruct (Hr Hwr Hdr) as (k & Hk & Hrel).
      destruct (IH Hwrs Hdrs) as (ks & Hks & Hrels).
      exists (k :: ks). split; [|constructor; assumption].
      cbn [mapM']. rewrite Hk. cbn [bind]. rewrite Hks. reflexivity.
  Qed.

  Lemma ex_build_all : forall c, ex_P c.
  Proof.
    induction c as [ty bits rs IH] using ex_cell_ind.
    intros Hwf Hd.
    destruct (ex_wf_inv _ _ _ Hwf) as (Hlb & Hlr & Hwrs & Hm & Hty).
    destruct (ex_depth_okb_inv _ _ _ Hd) as (Hdep & Hdrs).
    destruct (ex_mapM'_build rs IH Hwrs Hdrs) as (krefs & Hks & HR).
    rewrite ex_build_eq, Hks. cbn [bind].
    destruct Hty as [E|[(E & Ers & H1 & Hbl)|[(E & Ers)|[(E & Ers)|(E & Ers)]]]]; subst ty.
    - (* ordinary *)
      apply ex_mk_np; try assumption; [reflexivity|].
      unfold resolve_mask. change (ty_ordinary =? ty_ordinary)%Z with true. cbv iota.
      rewrite (ex_fold_mask rs krefs HR), N.lor_0_l. reflexivity.
    - (* pruned branch *)
      subst rs. inversion HR; subst.
      apply ex_mk_pruned; [assumption|lia|].
      unfold resolve_mask.
      change (ty_pruned =? ty_ordinary)%Z with false. change (ty_pruned =? ty_pruned)%Z with true.
      cbv iota.
      destruct (slice bits 8 16) as [|b s] eqn:Es.
      + exfalso. apply (f_equal (@length bool)) in Es. unfold slice in Es.
        rewrite firstn_length, skipn_length in Es. cbn [length] in Es. lia.
      + rewrite <- Es. reflexivity.
    - (* library *)
      subst rs. inversion HR; subst.
      apply ex_mk_np; try assumption; reflexivity.
    - (* Merkle proof *)
      destruct rs as [|r [|r' rs]]; try discriminate.
      inversion HR as [|r0 k0 rs0 ks0 Hr0 HR0]; subst. inversion HR0; subst.
      apply ex_mk_np; try assumption; [reflexivity|].
      destruct Hr0 as [Hmk _].
      change (resolve_mask ty_mproof bits [k0]) with (@Ok N (N.shiftr (k_mask k0) 1)).
      rewrite Hmk. reflexivity.
    - (* Merkle update *)
      destruct rs as [|r [|r' [|r'' rs]]]; try discriminate.
      inversion HR as [|r0 k0 rs0 ks0 Hr0 HR0]; subst.
      inversion HR0 as [|r1 k1 rs1 ks1 Hr1 HR1]; subst. inversion HR1; subst.
      apply ex_mk_np; try assumption; [reflexivity|].
      destruct Hr0 as [Hmk0 _]. destruct Hr1 as [Hmk1 _].
      change (resolve_mask ty_mupdate bits [k0; k1])
        with (@Ok N (N.shiftr (N.lor (k_mask k0) (k_mask k1)) 1)).
      rewrite Hmk0, Hmk1. reflexivity.
  Qed.

  Theorem exotic_levels : forall c, wf_exotic c = true -> depth_okb H c = true ->
    exists k, build H c = Ok k /\ k_mask k = s_mask c /\
      forall l, (l <= 3)%nat ->
        get_hash k (N.of_nat l) = Ok (s_hash_at H c l) /\
        get_depth k (N.of_nat l) = Ok (s_depth_at H c l).
  Proof using H H_len.
    intros c Hwf Hd. destruct (ex_build_all c Hwf Hd) as (k & Hk & Hmask & Hlv).
    exists k. split; [exact Hk|]. split; [exact Hmask|].
    intros l Hl. apply Hlv. lia.
  Qed.
End Levels.

(* ------------------------------------------------------------------ *)
(* 4. Merkle pruning invariance                                        *)
(* ------------------------------------------------------------------ *)
Lemma ex_s_mask_ord bits rs :
  s_mask (Cell ty_ordinary bits rs) = fold_right (fun r a => N.lor (s_mask r) a) 0 rs.
Proof. reflexivity. Qed.
Lemma ex_s_mask_pruned bits rs : s_mask (Cell ty_pruned bits rs) = of_bits (slice bits 8 16).
Proof. reflexivity. Qed.
Lemma ex_s_mask_mproof bits rs :
  s_mask (Cell ty_mproof bits rs) = match rs with r :: _ => N.shiftr (s_mask r) 1 | [] => 0 end.
Proof. reflexivity. Qed.
Lemma ex_s_mask_mupdate bits rs :
  s_mask (Cell ty_mupdate bits rs) =
  match rs with r0 :: r1 :: _ => N.shiftr (N.lor (s_mask r0) (s_mask r1)) 1 | _ => 0 end.
Proof. reflexivity. Qed.
Lemma ex_s_mask_other ty bits rs :
  ty <> ty_ordinary -> ty <> ty_pruned -> ty <> ty_mproof -> ty <> ty_mupdate ->
  s_mask (Cell ty bits rs) = 0.
Proof.
  intros H1 H2 H3 H4. apply Z.eqb_neq in H1, H2, H3, H4.
  cbn [s_mask]. rewrite H1, H2, H3, H4. reflexivity.
Qed.

Lemma ex_fold_lor_testbit rs b :
  N.testbit (fold_right (fun r a => N.lor (s_mask r) a) 0 rs) b
  = existsb (fun r => N.testbit (s_mask r) b) rs.
Proof.
  induction rs as [|r rs IH]; cbn [fold_right existsb]; [apply N.bits_0|].
  rewrite N.lor_spec, IH. reflexivity.
Qed.

Lemma ex_low_mask_agree m1 m2 n :
  (forall b, (b < n)%nat -> N.testbit m1 (N.of_nat b) = N.testbit m2 (N.of_nat b)) ->
  low_mask m1 n = low_mask m2 n.
Proof.
  intro Hb. unfold low_mask. rewrite N.sub_1_r, <- N.ones_equiv.
  apply N.bits_inj. intro k. rewrite !N.land_spec.
  destruct (N.lt_ge_cases k (N.of_nat n)) as [Hlt|Hge].
  - rewrite <- (N2Nat.id k). rewrite Hb by lia. reflexivity.
  - rewrite N.ones_spec_high by exact Hge. rewrite !andb_false_r. reflexivity.
Qed.

(* bit strings and byte strings *)
Lemma ex_of_bits_app l1 : forall l2,
  of_bits (l1 ++ l2) = of_bits l1 * 2 ^ N.of_nat (length l2) + of_bits l2.
Proof.
  induction l2 as [|b l2 IH] using rev_ind.
  - rewrite app_nil_r. cbn [length]. change (of_bits []) with 0. change (2 ^ N.of_nat 0) with 1. lia.
  - rewrite app_assoc, !of_bits_app, IH, app_length. cbn [length].
    rewrite Nat.add_1_r, Nat2N.inj_succ, N.pow_succ_r'. lia.
Qed.

Lemma ex_bits_to_bytes_8 l r : length l = 8%nat ->
  bits_to_bytes (l ++ r) = of_bits l :: bits_to_bytes r.
Proof.
  intro Hl.
  destruct l as [|a0 [|a1 [|a2 [|a3 [|a4 [|a5 [|a6 [|a7 [|a8 l]]]]]]]]]; try discriminate.
  reflexivity.
Qed.

Lemma ex_bits_to_bytes_bytes h r : bytes_ok h ->
  bits_to_bytes (bytes_to_bits h ++ r) = h ++ bits_to_bytes r.
Proof.
  induction 1 as [|x h Hx Hh IH]; [reflexivity|].
  change (bytes_to_bits (x :: h)) with (to_bits 8 x ++ bytes_to_bits h).
  rewrite <- app_assoc, (ex_bits_to_bytes_8 _ _ (to_bits_length 8 x)), IH.
  rewrite of_bits_to_bits by exact Hx. reflexivity.
Qed.

Lemma ex_bytes_to_bits_length h : length (bytes_to_bits h) = (8 * length h)%nat.
Proof.
  induction h as [|x h IH]; [reflexivity|].
  change (bytes_to_bits (x :: h)) with (to_bits 8 x ++ bytes_to_bits h).
  rewrite app_length, to_bits_length, IH. cbn [length]. lia.
Qed.

Lemma ex_bytes16 l : length l = 16%nat ->
  exists x y, bits_to_bytes l = [x; y] /\ of_be [x; y] = of_bits l.
Proof.
  intro Hl. rewrite <- (firstn_skipn 8 l).
  assert (H1 : length (firstn 8 l) = 8%nat) by (rewrite firstn_length; lia).
  assert (H2 : length (skipn 8 l) = 8%nat) by (rewrite skipn_length; lia).
  set (l1 := firstn 8 l) in *. set (l2 := skipn 8 l) in *.
  exists (of_bits l1), (of_bits l2). split.
  - rewrite (ex_bits_to_bytes_8 _ _ H1).
    pose proof (ex_bits_to_bytes_8 l2 [] H2) as E. rewrite app_nil_r in E. rewrite E. reflexivity.
  - rewrite ex_of_bits_app, H2. unfold of_be. cbn [fold_left]. change (2 ^ N.of_nat 8) with 256. lia.
Qed.

Lemma ex_slice_mid {A} (l1 l2 r : list A) a b :
  length l1 = a -> length l2 = (b - a)%nat -> slice (l1 ++ l2 ++ r) a b = l2.
Proof.
  intros <- H2. unfold slice. rewrite skipn_app, Nat.sub_diag, skipn_all. cbn [app skipn].
  rewrite firstn_app, <- H2, Nat.sub_diag, firstn_all. cbn [firstn]. apply app_nil_r.
Qed.

Section Prune.
  Variable H : list N -> list N.
  Hypothesis H_len : forall m, length (H m) = 32%nat.
  Hypothesis H_ok : forall m, bytes_ok (H m).

  (* a cell of level mask 0 has one hash and depth, an output of H *)
  Lemma ex_s_hd_mask0 t l : s_mask t = 0 -> s_hd H t l = s_hd H t 0.
  Proof.
    destruct t as [ty bits rs]. intro Hm.
    destruct (Z.eqb_spec ty ty_pruned) as [->|Hne].
    - rewrite !ex_s_hd_pruned. cbv zeta. rewrite Hm. unfold low_mask. rewrite !N.land_0_l. reflexivity.
    - apply Z.eqb_neq in Hne. induction l as [|l IH]; [reflexivity|].
      rewrite (ex_s_hd_nonsig H _ _ _ _ Hne); [exact IH|]. rewrite Hm. apply N.bits_0.
  Qed.

  Lemma ex_hash_mask0 t : s_mask t = 0 -> exists x, s_hash_at H t 0 = H x.
  Proof.
    destruct t as [ty bits rs]. intro Hm. unfold s_hash_at.
    destruct (Z.eqb_spec ty ty_pruned) as [->|Hne].
    - rewrite ex_s_hd_pruned. cbv zeta. rewrite Hm. unfold low_mask. rewrite N.land_0_l.
      change (popcount 0 =? popcount 0) with true. cbv iota. eexists. reflexivity.
    - apply Z.eqb_neq in Hne. rewrite (ex_s_hd_np_0 H _ _ _ Hne). eexists. reflexivity.
  Qed.

  (* the pruned branch answers the levels up to j with the stored hash and depth *)
  Lemma ex_prune_mask j t : (j <= 2)%nat -> s_mask (s_prune H j t) = 2 ^ N.of_nat j.
  Proof.
    intro Hj. unfold s_prune. rewrite ex_s_mask_pruned.
    rewrite (ex_slice_mid (to_bits 8 1) (to_bits 8 (2 ^ N.of_nat j)) _ 8 16)
      by (rewrite to_bits_length; reflexivity).
    apply of_bits_to_bits.
    destruct j as [|[|[|j]]]; [reflexivity..|lia].
  Qed.

  Lemma ex_prune_hd j t l : (l <= j)%nat -> (j <= 2)%nat ->
    s_mask t = 0 -> s_depth_at H t 0 < 65536 ->
    s_hd H (s_prune H j t) l = s_hd H t l.
  Proof.
    intros Hl Hj Hm Hd.
    rewrite (ex_s_hd_mask0 t l Hm).
    destruct (ex_hash_mask0 t Hm) as [x Hx].
    assert (Hhl : length (s_hash_at H t 0) = 32%nat) by (rewrite Hx; apply H_len).
    assert (Hhok : bytes_ok (s_hash_at H t 0)) by (rewrite Hx; apply H_ok).
    pose proof (ex_prune_mask j t Hj) as Hpm.
    unfold s_prune in Hpm |- *. rewrite ex_s_hd_pruned. cbv zeta. rewrite Hpm.
    set (h := s_hash_at H t 0) in *. set (d := s_depth_at H t 0) in *.
    set (pb := to_bits 8 1 ++ to_bits 8 (2 ^ N.of_nat j) ++ bytes_to_bits h ++ to_bits 16 d).
    assert (Hlen : length pb = 288%nat).
    { unfold pb. rewrite !app_length, !to_bits_length, ex_bytes_to_bits_length, Hhl. reflexivity. }
    assert (Hpad : s_pad pb = pb).
    { unfold s_pad. rewrite Hlen. reflexivity. }
    destruct (ex_bytes16 (to_bits 16 d) (to_bits_length 16 d)) as (x1 & x2 & Hb16 & Hbe).
    rewrite of_bits_to_bits in Hbe by exact Hd.
    assert (Hdata : bits_to_bytes pb = 1 :: 2 ^ N.of_nat j :: h ++ [x1; x2]).
    { unfold pb.
      rewrite (ex_bits_to_bytes_8 _ _ (to_bits_length 8 1)).
      rewrite (ex_bits_to_bytes_8 _ _ (to_bits_length 8 _)).
      rewrite (ex_bits_to_bytes_bytes _ _ Hhok), Hb16.
      rewrite !of_bits_to_bits; [reflexivity| |reflexivity].
      destruct j as [|[|[|j']]]; [reflexivity..|lia]. }
    rewrite Hpad, Hdata.
    assert (Hsl1 : slice (1 :: 2 ^ N.of_nat j :: h ++ [x1; x2]) 2 34 = h).
    { unfold slice. cbn [skipn]. change (34 - 2)%nat with 32%nat.
      rewrite firstn_app, <- Hhl, Nat.sub_diag, firstn_all. cbn [firstn]. apply app_nil_r. }
    assert (Hsl2 : slice (1 :: 2 ^ N.of_nat j :: h ++ [x1; x2]) 34 36 = [x1; x2]).
    { unfold slice. change (36 - 34)%nat with 2%nat.
      change (skipn 34 (1 :: 2 ^ N.of_nat j :: h ++ [x1; x2])) with (skipn 32 (h ++ [x1; x2])).
      rewrite skipn_app, (skipn_all2 h) by lia. rewrite Hhl. reflexivity. }
    assert (Hres : s_hd H t 0 = (h, d)) by (unfold h, d, s_hash_at, s_depth_at; apply surjective_pairing).
    rewrite Hres.
    destruct j as [|[|[|j']]]; [| | |lia].
    - destruct l as [|l]; [|lia].
      change (popcount (low_mask (2 ^ N.of_nat 0) 0) =? popcount (2 ^ N.of_nat 0)) with false. cbv iota.
      change (popcount (low_mask (2 ^ N.of_nat 0) 0)) with 0. change (popcount (2 ^ N.of_nat 0)) with 1.
      change (N.to_nat (2 + 32 * 0)) with 2%nat. change (N.to_nat (2 + 32 * 0 + 32)) with 34%nat.
      change (N.to_nat (2 + 32 * 1 + 2 * 0)) with 34%nat. change (N.to_nat (2 + 32 * 1 + 2 * 0 + 2)) with 36%nat.
      rewrite Hsl1, Hsl2, Hbe. reflexivity.
    - destruct l as [|[|l]]; [| |lia].
      + change (popcount (low_mask (2 ^ N.of_nat 1) 0) =? popcount (2 ^ N.of_nat 1)) with false. cbv iota.
        change (popcount (low_mask (2 ^ N.of_nat 1) 0)) with 0. change (popcount (2 ^ N.of_nat 1)) with 1.
        change (N.to_nat (2 + 32 * 0)) with 2%nat. change (N.to_nat (2 + 32 * 0 + 32)) with 34%nat.
        change (N.to_nat (2 + 32 * 1 + 2 * 0)) with 34%nat. change (N.to_nat (2 + 32 * 1 + 2 * 0 + 2)) with 36%nat.
        rewrite Hsl1, Hsl2, Hbe. reflexivity.
      + change (popcount (low_mask (2 ^ N.of_nat 1) 1) =? popcount (2 ^ N.of_nat 1)) with false. cbv iota.
        change (popcount (low_mask (2 ^ N.of_nat 1) 1)) with 0. change (popcount (2 ^ N.of_nat 1)) with 1.
        change (N.to_nat (2 + 32 * 0)) with 2%nat. change (N.to_nat (2 + 32 * 0 + 32)) with 34%nat.
        change (N.to_nat (2 + 32 * 1 + 2 * 0)) with 34%nat. change (N.to_nat (2 + 32 * 1 + 2 * 0 + 2)) with 36%nat.
        rewrite Hsl1, Hsl2, Hbe. reflexivity.
    - destruct l as [|[|[|l]]]; [| | |lia].
      + change (popcount (low_mask (2 ^ N.of_nat 2) 0) =? popcount (2 ^ N.of_nat 2)) with false. cbv iota.
        change (popcount (low_mask (2 ^ N.of_nat 2) 0)) with 0. change (popcount (2 ^ N.of_nat 2)) with 1.
        change (N.to_nat (2 + 32 * 0)) with 2%nat. change (N.to_nat (2 + 32 * 0 + 32)) with 34%nat.
        change (N.to_nat (2 + 32 * 1 + 2 * 0)) with 34%nat. change (N.to_nat (2 + 32 * 1 + 2 * 0 + 2)) with 36%nat.
        rewrite Hsl1, Hsl2, Hbe. reflexivity.
      + change (popcount (low_mask (2 ^ N.of_nat 2) 1) =? popcount (2 ^ N.of_nat 2)) with false. cbv iota.
        change (popcount (low_mask (2 ^ N.of_nat 2) 1)) with 0. change (popcount (2 ^ N.of_nat 2)) with 1.
        change (N.to_nat (2 + 32 * 0)) with 2%nat. change (N.to_nat (2 + 32 * 0 + 32)) with 34%nat.
        change (N.to_nat (2 + 32 * 1 + 2 * 0)) with 34%nat. change (N.to_nat (2 + 32 * 1 + 2 * 0 + 2)) with 36%nat.
        rewrite Hsl1, Hsl2, Hbe. reflexivity.
      + change (popcount (low_mask (2 ^ N.of_nat 2) 2) =? popcount (2 ^ N.of_nat 2)) with false. cbv iota.
        change (popcount (low_mask (2 ^ N.of_nat 2) 2)) with 0. change (popcount (2 ^ N.of_nat 2)) with 1.
        change (N.to_nat (2 + 32 * 0)) with 2%nat. change (N.to_nat (2 + 32 * 0 + 32)) with 34%nat.
        change (N.to_nat (2 + 32 * 1 + 2 * 0)) with 34%nat. change (N.to_nat (2 + 32 * 1 + 2 * 0 + 2)) with 36%nat.
        rewrite Hsl1, Hsl2, Hbe. reflexivity.
  Qed.
End Prune.

Section PruneCtx.
  Variable H : list N -> list N.
  Variables (t p : cell) (j : nat).
  Hypothesis Hmt : s_mask t = 0.
  Hypothesis Hmp : s_mask p = 2 ^ N.of_nat j.
  Hypothesis Hhd : forall l, (l <= j)%nat -> s_hd H p l = s_hd H t l.

  (* with a Merkle cells above the node, the two trees have the same mask bits below a *)
  Lemma ex_mask_agree : forall K a, (a + merkle_depth K = j)%nat ->
    forall b, (b < a)%nat ->
    N.testbit (s_mask (plug K p)) (N.of_nat b) = N.testbit (s_mask (plug K t)) (N.of_nat b).
  Proof.
    induction K as [|ty bits bef K' IH aft]; intros a Ha b Hb.
    - cbn [plug merkle_depth] in *. rewrite Hmp, Hmt, N.bits_0.
      apply N.pow2_bits_false. lia.
    - cbn [plug]. cbn [merkle_depth] in Ha.
      destruct (Z.eqb_spec ty ty_ordinary) as [->|Hn1].
      { change (is_merkle ty_ordinary) with false in Ha. cbv iota in Ha.
        rewrite !ex_s_mask_ord, !ex_fold_lor_testbit, !existsb_app. cbn [existsb].
        rewrite (IH a ltac:(lia) b Hb). reflexivity. }
      destruct (Z.eqb_spec ty ty_pruned) as [->|Hn2].
      { rewrite !ex_s_mask_pruned. reflexivity. }
      destruct (Z.eqb_spec ty ty_mproof) as [->|Hn3].
      { change (is_merkle ty_mproof) with true in Ha. cbv iota in Ha.
        rewrite !ex_s_mask_mproof. destruct bef as [|r0 bef]; [|reflexivity].
        cbn [app]. rewrite !N.shiftr_spec'.
        replace (N.of_nat b + 1) with (N.of_nat (S b)) by lia.
        apply (IH (S a)); lia. }
      destruct (Z.eqb_spec ty ty_mupdate) as [->|Hn4].
      { change (is_merkle ty_mupdate) with true in Ha. cbv iota in Ha.
        rewrite !ex_s_mask_mupdate.
        destruct bef as [|r0 [|r1 bef]]; cbn [app]; [| |reflexivity].
        - destruct aft as [|r1 aft]; [reflexivity|].
          rewrite !N.shiftr_spec', !N.lor_spec.
          replace (N.of_nat b + 1) with (N.of_nat (S b)) by lia.
          rewrite (IH (S a) ltac:(lia) (S b) ltac:(lia)). reflexivity.
        - rewrite !N.shiftr_spec', !N.lor_spec.
          replace (N.of_nat b + 1) with (N.of_nat (S b)) by lia.
          rewrite (IH (S a) ltac:(lia) (S b) ltac:(lia)). reflexivity. }
      rewrite !ex_s_mask_other by assumption. reflexivity.
  Qed.

  Lemma ex_hd_agree : forall K a, ctx_nonpruned K = true -> (a + merkle_depth K = j)%nat ->
    forall l, (l <= a)%nat -> s_hd H (plug K p) l = s_hd H (plug K t) l.
  Proof.
    induction K as [|ty bits bef K' IH aft]; intros a Hnp Ha l Hl.
    - cbn [plug merkle_depth] in *. apply Hhd. lia.
    - pose proof (ex_mask_agree (CNode ty bits bef K' aft) a Ha) as Hmask.
      cbn [plug] in Hmask |- *. cbn [merkle_depth] in Ha.
      cbn [ctx_nonpruned] in Hnp. apply andb_prop in Hnp. destruct Hnp as [Hty Hnp'].
      apply negb_true_iff in Hty.
      set (cp := Cell ty bits (bef ++ plug K' p :: aft)) in *.
      set (ct := Cell ty bits (bef ++ plug K' t :: aft)) in *.
      assert (Hkids : forall l', (l' <= a)%nat ->
                ex_kids H ty (bef ++ plug K' p :: aft) l' = ex_kids H ty (bef ++ plug K' t :: aft) l').
      { intros l' Hl'. unfold ex_kids. rewrite !map_app. cbn [map].
        rewrite (IH (a + (if is_merkle ty then 1 else 0))%nat Hnp' ltac:(lia)
                    (if is_merkle ty then S l' else l') ltac:(destruct (is_merkle ty); lia)).
        reflexivity. }
      assert (Hlen : length (bef ++ plug K' p :: aft) = length (bef ++ plug K' t :: aft)).
      { rewrite !app_length. reflexivity. }
      induction l as [|l IHl].
      + unfold cp, ct. rewrite !(ex_s_hd_np_0 H _ _ _ Hty). rewrite Hkids by lia. rewrite Hlen. reflexivity.
      + unfold cp, ct. rewrite !(ex_s_hd_np_S H _ _ _ _ Hty). fold cp. fold ct.
        rewrite (Hmask l ltac:(lia)).
        rewrite (ex_low_mask_agree (s_mask cp) (s_mask ct) (S l))
          by (intros b Hb; apply Hmask; lia).
        rewrite Hkids by lia. rewrite Hlen. rewrite (IHl ltac:(lia)). reflexivity.
  Qed.
End PruneCtx.

Section PruneMain.
  Variable H : list N -> list N.
  Hypothesis H_len : forall m, length (H m) = 32%nat.
  Hypothesis H_ok : forall m, bytes_ok (H m).

  (* The statement without [s_depth_at H t 0 < 65536] is false: the pruned branch stores the depth in
     16 bits, so for K = Hole and a subtree of depth >= 65536 the depths differ. *)
  Theorem prune_invariance : forall K t j,
    ctx_nonpruned K = true -> merkle_depth K = j -> (j <= 2)%nat -> s_mask t = 0 ->
    s_depth_at H t 0 < 65536 ->
    s_hd H (plug K (s_prune H j t)) 0 = s_hd H (plug K t) 0.
  Proof using H H_len H_ok.
    intros K t j Hnp Hmd Hj Hmt Hd.
    apply (ex_hd_agree H t (s_prune H j t) j Hmt (ex_prune_mask H j t Hj)) with (a := 0%nat).
    - intros l Hl. apply (ex_prune_hd H H_len H_ok j t l Hl Hj Hmt Hd).
    - exact Hnp.
    - exact Hmd.
    - lia.
  Qed.
End PruneMain.
