(* C03 proof: parsing what Cell.to_boc emitted yields exactly the cell that was serialised. *)
From Coq Require Import NArith ZArith List Bool Lia.
From PTQ Require Import Base.Result Base.Bytes Base.Bits Model.Cell Model.Boc
  Spec.BocFormat Spec.BocProps Proofs.BocEmit Proofs.BocAccept.
Import ListNotations.
Local Open Scope N_scope.

Section Roundtrip.
Variable H : list N -> list N.

(* the parsed root is the very same constructed cell *)
Lemma boc_roundtrip_eq : forall t k idx crc cache,
  build H t = Ok k -> boc_wf t = true -> no_collision k -> implb cache idx = true ->
  N.of_nat (length (order k)) < 2 ^ 24 ->
  exists d, to_boc k idx crc cache = Ok d /\ deserialize H d = Ok [k].
Proof.
  intros t k idx crc cache Hb Hwf Hnc Himp Hsz.
  destruct (to_boc_conforms H t k idx crc cache Hb Hwf Hnc Himp Hsz)
    as (d & Hd & Hdec & cs & Hall & _ & Hcs).
  pose proof (to_boc_bytes_ok H t k idx crc cache d Hb Hwf Hnc Himp Hsz Hd) as Hok.
  assert (HF : Forall (fun s => is_ok (build H s) = true) cs).
  { apply Forall_forall. intros s Hs. apply Hcs in Hs.
    destruct (subtrees_build H t k Hb s Hs) as (ks & Eks). rewrite Eks. reflexivity. }
  destruct (parser_accepts_valid_built H d [t] cs Hok Hall Hdec HF) as (ks & Hdes & HF2).
  exists d. split; [exact Hd|]. rewrite Hdes. f_equal.
  inversion HF2 as [|k' t' ks' ts' Hk' Hnil]; subst. inversion Hnil; subst.
  rewrite Hb in Hk'. injection Hk' as <-. reflexivity.
Qed.

Theorem boc_roundtrip : forall t k idx crc cache,
  build H t = Ok k -> boc_wf t = true -> no_collision k -> implb cache idx = true ->
  N.of_nat (length (order k)) < 2 ^ 24 ->
  exists d k', to_boc k idx crc cache = Ok d /\ deserialize H d = Ok [k'] /\
               k_tree k' = t /\ k_hash k' = k_hash k.
Proof.
  intros t k idx crc cache Hb Hwf Hnc Himp Hsz.
  destruct (boc_roundtrip_eq t k idx crc cache Hb Hwf Hnc Himp Hsz) as (d & Hd & Hdes).
  exists d, k. split; [exact Hd|]. split; [exact Hdes|]. split; [|reflexivity].
  exact (build_tree H t k Hb).
Qed.
End Roundtrip.
