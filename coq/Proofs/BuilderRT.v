(* C06: typed Builder stores and Slice loads are mutually inverse and bit-exact.
   Proofs relating Model/Builder.v + Model/Typed.v to Spec/TlbPrim.v + Spec/TlbVal.v. *)
From Coq Require Import NArith ZArith List Bool Lia ZifyBool ZifyNat ZifyN.
From PTQ Require Import Base.Result Base.Bytes Base.Bits Model.Cell Spec.CellRepr
  Model.Builder Model.Typed Spec.TlbPrim Spec.TlbVal.
Import ListNotations.
Local Open Scope Z_scope.
Ltac Zify.zify_post_hook ::= Z.div_mod_to_equations.

(* ------------------------------------------------------------------ *)
(* 1. enc versus to_bits / of_bits                                     *)
(* ------------------------------------------------------------------ *)

Lemma enc_length w v : length (enc w v) = w.
Proof. unfold enc. rewrite map_length, seq_length. reflexivity. Qed.

Lemma enc_cons w v : enc (S w) v = Z.testbit v (Z.of_nat w) :: enc w v.
Proof.
  unfold enc. cbn [seq map]. f_equal.
  - f_equal. lia.
  - rewrite <- seq_shift, map_map. apply map_ext. intros i. f_equal. lia.
Qed.

Lemma enc_snoc w v : enc (S w) v = enc w (v / 2) ++ [Z.testbit v 0].
Proof.
  unfold enc. rewrite seq_S, map_app. cbn [map]. f_equal.
  - apply map_ext_in. intros i Hi. apply in_seq in Hi.
    replace (Z.of_nat (S w - 1 - i)) with (Z.succ (Z.of_nat (w - 1 - i))) by lia.
    rewrite Z.div2_bits by lia. reflexivity.
  - f_equal. f_equal. lia.
Qed.

Lemma to_bits_enc w : forall n, to_bits w n = enc w (Z.of_N n).
Proof.
  induction w as [|w IH]; intros n; [reflexivity|].
  unfold to_bits. cbn [to_bits_le rev]. fold (to_bits w (n / 2)%N).
  rewrite IH, enc_snoc, N2Z.inj_div. f_equal. f_equal.
  rewrite <- N.bit0_odd. symmetry. apply (Z.testbit_of_N n 0).
Qed.

Lemma enc_mod w v : enc w (v mod 2 ^ Z.of_nat w) = enc w v.
Proof.
  unfold enc. apply map_ext_in. intros i Hi. apply in_seq in Hi.
  apply Z.mod_pow2_bits_low. lia.
Qed.

Lemma pow2_pos n : 0 <= n -> 0 < 2 ^ n.
Proof. intros Hn. apply Z.pow_pos_nonneg; lia. Qed.

Lemma pow2_mono a b : a <= b -> 2 ^ a <= 2 ^ b.
Proof. intros Hab. apply Z.pow_le_mono_r; lia. Qed.

Lemma to_bits_signed_enc w v : to_bits_signed w v = enc w v.
Proof.
  unfold to_bits_signed. rewrite to_bits_enc, Z2N.id, enc_mod; [reflexivity|].
  pose proof (pow2_pos (Z.of_nat w) ltac:(lia)) as Hp.
  pose proof (Z.mod_pos_bound v _ Hp) as Hm. lia.
Qed.

Lemma of_bits_enc w v : of_bits (enc w v) = Z.to_N (v mod 2 ^ Z.of_nat w).
Proof.
  pose proof (pow2_pos (Z.of_nat w) ltac:(lia)) as Hp.
  pose proof (Z.mod_pos_bound v _ Hp) as Hm.
  assert (He : enc w v = to_bits w (Z.to_N (v mod 2 ^ Z.of_nat w))).
  { rewrite to_bits_enc, Z2N.id, enc_mod by lia. reflexivity. }
  rewrite He. apply of_bits_to_bits.
  apply N2Z.inj_lt. rewrite Z2N.id by lia.
  rewrite N2Z.inj_pow, nat_N_Z. change (Z.of_N 2) with 2. lia.
Qed.

Lemma testbit_sign n v : 0 <= n -> - 2 ^ n <= v < 2 ^ n -> Z.testbit v n = (v <? 0).
Proof.
  intros Hn Hv. pose proof (pow2_pos n Hn) as Hp.
  destruct (Z.ltb_spec v 0) as [Hneg|Hpos].
  - apply Z.testbit_true; [lia|].
    replace (v / 2 ^ n) with (-1); [reflexivity|].
    apply (Z.div_unique v (2 ^ n) (-1) (v + 2 ^ n)); lia.
  - apply Z.testbit_false; [lia|]. rewrite Z.div_small by lia. reflexivity.
Qed.

Lemma of_bits_signed_enc n v : - 2 ^ Z.of_nat n <= v < 2 ^ Z.of_nat n ->
  of_bits_signed (enc (S n) v) = v.
Proof.
  intros Hv.
  assert (Hs : forall l s t, l = s :: t -> of_bits_signed l =
     if s then Z.of_N (of_bits l) - 2 ^ Z.of_nat (length l) else Z.of_N (of_bits l)).
  { intros l s t ->. reflexivity. }
  rewrite (Hs _ _ _ (enc_cons n v)). clear Hs.
  rewrite of_bits_enc, enc_length, testbit_sign by lia.
  pose proof (pow2_pos (Z.of_nat n) ltac:(lia)) as Hp.
  assert (H2 : 2 ^ Z.of_nat (S n) = 2 * 2 ^ Z.of_nat n).
  { rewrite Nat2Z.inj_succ, Z.pow_succ_r by lia. reflexivity. }
  rewrite H2.
  pose proof (Z.mod_pos_bound v (2 * 2 ^ Z.of_nat n) ltac:(lia)) as Hm.
  rewrite Z2N.id by lia.
  destruct (Z.ltb_spec v 0) as [Hneg|Hpos].
  - rewrite <- (Z.mod_unique v (2 * 2 ^ Z.of_nat n) (-1) (v + 2 * 2 ^ Z.of_nat n)); lia.
  - apply Z.mod_small. lia.
Qed.

Lemma in_uint_iff w v : in_uint w v = true <-> 0 <= v < 2 ^ w.
Proof. unfold in_uint. rewrite andb_true_iff, Z.leb_le, Z.ltb_lt. tauto. Qed.
Lemma in_int_iff w v : in_int w v = true <-> - 2 ^ (w - 1) <= v < 2 ^ (w - 1).
Proof. unfold in_int. rewrite andb_true_iff, Z.leb_le, Z.ltb_lt. tauto. Qed.

Lemma ba2int_nonempty l s : l <> [] ->
  ba2int l s = Ok (if s then of_bits_signed l else Z.of_N (of_bits l)).
Proof. destruct l; [congruence|reflexivity]. Qed.

Lemma enc_nonempty w v : (1 <= w)%nat -> enc w v <> [].
Proof. intros Hw He. pose proof (enc_length w v) as Hl. rewrite He in Hl. cbn [length] in Hl. lia. Qed.

Lemma ba2int_enc v w (s : bool) : 1 <= w -> (if s then in_int w v else in_uint w v) = true ->
  ba2int (enc (Z.to_nat w) v) s = Ok v.
Proof.
  intros Hw Hr. rewrite ba2int_nonempty by (apply enc_nonempty; lia). f_equal.
  destruct s.
  - apply in_int_iff in Hr.
    replace (Z.to_nat w) with (S (Z.to_nat (w - 1))) by lia.
    apply of_bits_signed_enc. rewrite Z2Nat.id by lia. exact Hr.
  - apply in_uint_iff in Hr. rewrite of_bits_enc, Z2Nat.id by lia.
    rewrite Z.mod_small by lia. lia.
Qed.

(* full inversion of a successful int2ba *)
Lemma int2ba_ok_enc v w (s : bool) l : int2ba v w s = Ok l ->
  l = enc (Z.to_nat w) v /\ 1 <= w /\ (if s then in_int w v else in_uint w v) = true.
Proof.
  unfold int2ba. destruct (Z.leb_spec w 0) as [Hw|Hw]; [discriminate|].
  destruct s.
  - fold (in_int w v). destruct (in_int w v); [|discriminate].
    intros [= <-]. rewrite to_bits_signed_enc. repeat split; lia.
  - fold (in_uint w v). destruct (in_uint w v) eqn:Hr; [|discriminate].
    intros [= <-]. apply in_uint_iff in Hr. rewrite to_bits_enc, Z2N.id by lia. repeat split; lia.
Qed.

Lemma int2ba_ok v w (s : bool) : 1 <= w -> (if s then in_int w v else in_uint w v) = true ->
  int2ba v w s = Ok (enc (Z.to_nat w) v).
Proof.
  intros Hw Hr. unfold int2ba. destruct (Z.leb_spec w 0) as [Hw'|_]; [lia|].
  destruct s.
  - fold (in_int w v). rewrite Hr, to_bits_signed_enc. reflexivity.
  - fold (in_uint w v). rewrite Hr. apply in_uint_iff in Hr.
    rewrite to_bits_enc, Z2N.id by lia. reflexivity.
Qed.

Theorem int2ba_enc : forall v w (signed : bool), 1 <= w ->
  (if signed then in_int w v else in_uint w v) = true ->
  int2ba v w signed = Ok (enc (Z.to_nat w) v) /\ ba2int (enc (Z.to_nat w) v) signed = Ok v.
Proof. intros v w s Hw Hr. split; [apply int2ba_ok|apply ba2int_enc]; assumption. Qed.

(* ------------------------------------------------------------------ *)
(* 2. minimal byte lengths                                             *)
(* ------------------------------------------------------------------ *)

Lemma log2_bounds v : 0 < v -> 0 <= Z.log2 v /\ 2 ^ Z.log2 v <= v < 2 ^ (Z.log2 v + 1).
Proof. intros Hv. split; [apply Z.log2_nonneg|]. exact (Z.log2_spec v Hv). Qed.

Lemma lt_pow2_of_log2 v e : 0 < v -> Z.log2 v + 1 <= e -> v < 2 ^ e.
Proof.
  intros Hv He. destruct (log2_bounds v Hv) as (_ & _ & Hu).
  pose proof (pow2_mono _ _ He). lia.
Qed.

Lemma ge_pow2_of_log2 v e : 0 < v -> e <= Z.log2 v -> 2 ^ e <= v.
Proof.
  intros Hv He. destruct (log2_bounds v Hv) as (_ & Hl & _).
  pose proof (pow2_mono _ _ He). lia.
Qed.

Lemma ulen_min v : 0 <= v -> is_min_ulen v (ulen0 v).
Proof.
  intros Hv. unfold is_min_ulen, ulen0. destruct (Z.eqb_spec v 0) as [->|Hne].
  - split; [lia|]. split; [reflexivity|lia].
  - assert (Hp : 0 < v) by lia. unfold ulen.
    pose proof (Z.log2_nonneg v) as Hk.
    set (l := (Z.log2 v + 8) / 8).
    assert (Hl : 8 * l <= Z.log2 v + 8 < 8 * l + 8) by (subst l; lia).
    split; [lia|]. split.
    + apply in_uint_iff. split; [lia|]. apply lt_pow2_of_log2; lia.
    + intros Hl0. unfold in_uint. apply andb_false_intro2. apply Z.ltb_ge.
      apply ge_pow2_of_log2; lia.
Qed.

Lemma slen_min v : is_min_slen v (slen0 v).
Proof.
  unfold is_min_slen, slen0. destruct (Z.eqb_spec v 0) as [->|Hne].
  - split; [lia|]. split; [reflexivity|congruence].
  - destruct (Z.ltb_spec 0 v) as [Hp|Hn].
    + pose proof (Z.log2_nonneg v) as Hk.
      set (l := (Z.log2 v + 9) / 8).
      assert (Hl : 8 * l <= Z.log2 v + 9 < 8 * l + 8) by (subst l; lia).
      split; [lia|]. split; [congruence|]. intros _. split; [lia|]. split.
      * apply in_int_iff.
        pose proof (lt_pow2_of_log2 v (8 * l - 1) Hp ltac:(lia)).
        pose proof (pow2_pos (8 * l - 1) ltac:(lia)). lia.
      * intros Hl1. unfold in_int. apply andb_false_intro2. apply Z.ltb_ge.
        apply ge_pow2_of_log2; lia.
    + destruct (Z.eqb_spec v (-1)) as [->|Hne1].
      * split; [lia|]. split; [congruence|]. intros _. split; [lia|]. split; [reflexivity|lia].
      * assert (Hx : 0 < - v - 1) by lia.
        pose proof (Z.log2_nonneg (- v - 1)) as Hk.
        set (l := (Z.log2 (- v - 1) + 9) / 8).
        assert (Hl : 8 * l <= Z.log2 (- v - 1) + 9 < 8 * l + 8) by (subst l; lia).
        split; [lia|]. split; [congruence|]. intros _. split; [lia|]. split.
        -- apply in_int_iff.
           pose proof (lt_pow2_of_log2 (- v - 1) (8 * l - 1) Hx ltac:(lia)).
           pose proof (pow2_pos (8 * l - 1) ltac:(lia)). lia.
        -- intros Hl1. unfold in_int. apply andb_false_intro1. apply Z.leb_gt.
           pose proof (ge_pow2_of_log2 (- v - 1) (8 * (l - 1) - 1) Hx ltac:(lia)). lia.
Qed.

Theorem var_len_minimal : forall v,
  (0 <= v -> is_min_ulen v (ulen0 v)) /\ is_min_slen v (slen0 v).
Proof. intros v. split; [apply ulen_min|apply slen_min]. Qed.

(* ------------------------------------------------------------------ *)
(* 3. what each store writes                                           *)
(* ------------------------------------------------------------------ *)

Lemma bind_ok {A B} (r : result A) (f : A -> result B) b :
  bind r f = Ok b -> exists a, r = Ok a /\ f a = Ok b.
Proof. destruct r as [a|e]; cbn [bind]; intros H; [eauto|discriminate]. Qed.

Ltac inv_bind H :=
  let a := fresh "t" in let Ha := fresh "Ht" in
  apply bind_ok in H; destruct H as (a & Ha & H).

(* b' is b extended by the bits x and the references r *)
Definition ext (b b' : builder) (x : list bool) (r : list cell) : Prop :=
  b_bits b' = b_bits b ++ x /\ b_refs b' = b_refs b ++ r.

Lemma ext_trans b b1 b2 x1 r1 x2 r2 :
  ext b b1 x1 r1 -> ext b1 b2 x2 r2 -> ext b b2 (x1 ++ x2) (r1 ++ r2).
Proof.
  intros [H1 H2] [H3 H4]. split; [rewrite H3, H1|rewrite H4, H2]; symmetry; apply app_assoc.
Qed.

Lemma store_bits_ext b x b' : b_store_bits b x = Ok b' -> ext b b' x [].
Proof.
  unfold b_store_bits. destruct (_ <? _)%nat; [discriminate|]. intros [= <-].
  split; cbn [b_bits b_refs]; [reflexivity|]. symmetry; apply app_nil_r.
Qed.

Lemma store_uint_ext b v w b' : b_store_uint b v w = Ok b' -> ext b b' (enc (Z.to_nat w) v) [].
Proof.
  unfold b_store_uint. intros H. inv_bind H.
  apply int2ba_ok_enc in Ht. destruct Ht as (-> & _ & _). apply store_bits_ext. exact H.
Qed.

Lemma store_int_ext b v w b' : b_store_int b v w = Ok b' -> ext b b' (enc (Z.to_nat w) v) [].
Proof.
  unfold b_store_int. intros H. inv_bind H.
  apply int2ba_ok_enc in Ht. destruct Ht as (-> & _ & _). apply store_bits_ext. exact H.
Qed.

Lemma store_ref_ext b c b' : b_store_ref b c = Ok b' -> ext b b' [] [c].
Proof.
  unfold b_store_ref. destruct (_ <=? _)%nat; [discriminate|]. intros [= <-].
  split; cbn [b_bits b_refs]; [|reflexivity]. symmetry; apply app_nil_r.
Qed.

Lemma bytes_to_bits_enc bs : bytes_to_bits bs = enc_bytes bs.
Proof. unfold bytes_to_bits, enc_bytes. apply flat_map_ext. intros a. apply to_bits_enc. Qed.

Lemma store_bytes_ext b bs b' : b_store_bytes b bs = Ok b' -> ext b b' (enc_bytes bs) [].
Proof. unfold b_store_bytes. rewrite bytes_to_bits_enc. apply store_bits_ext. Qed.

Lemma zbit_length_pos v : 0 < v -> zbit_length v = Z.log2 v + 1.
Proof.
  destruct v as [|p|p]; try lia. intros _. unfold zbit_length.
  destruct p; cbn [Z.abs_N N.size Pos.size Z.of_N Z.log2]; lia.
Qed.

Lemma ceil8_ulen v : 0 < v -> ceil8 (zbit_length v) = ulen v.
Proof. intros Hv. unfold ceil8, ulen. rewrite zbit_length_pos by exact Hv. f_equal. lia. Qed.

Lemma ceil8_slen v : v <> 0 ->
  ceil8 (zbit_length (if 0 <=? v then v else - v - 1) + 1) = slen0 v.
Proof.
  intros Hne. unfold slen0. destruct (Z.eqb_spec v 0) as [E|_]; [contradiction|].
  destruct (Z.leb_spec 0 v) as [Hp|Hn], (Z.ltb_spec 0 v) as [Hp'|Hn']; try lia.
  - unfold ceil8. rewrite zbit_length_pos by lia. f_equal. lia.
  - destruct (Z.eqb_spec v (-1)) as [->|Hne1]; [reflexivity|].
    unfold ceil8. rewrite zbit_length_pos by lia. f_equal. lia.
Qed.

Lemma store_var_uint_ext b v k b' : 0 <= v -> b_store_var_uint b v k = Ok b' ->
  ext b b' (enc (Z.to_nat k) (ulen0 v) ++ enc (Z.to_nat (8 * ulen0 v)) v) [].
Proof.
  intros Hv. unfold b_store_var_uint, ulen0. destruct (Z.eqb_spec v 0) as [->|Hne].
  - intros H. apply store_uint_ext in H. change (enc (Z.to_nat (8 * 0)) 0) with (@nil bool).
    rewrite app_nil_r. exact H.
  - rewrite ceil8_ulen by lia. intros H. inv_bind H.
    apply store_uint_ext in Ht, H. rewrite (Z.mul_comm (ulen v) 8) in H.
    exact (ext_trans _ _ _ _ _ _ _ Ht H).
Qed.

Lemma store_var_int_ext b v k b' : b_store_var_int b v k = Ok b' ->
  ext b b' (enc (Z.to_nat k) (slen0 v) ++ enc (Z.to_nat (8 * slen0 v)) v) [].
Proof.
  unfold b_store_var_int. destruct (Z.eqb_spec v 0) as [->|Hne].
  - intros H. apply store_uint_ext in H. change (slen0 0) with 0.
    change (enc (Z.to_nat (8 * 0)) 0) with (@nil bool). rewrite app_nil_r. exact H.
  - rewrite ceil8_slen by exact Hne. intros H. inv_bind H.
    apply store_uint_ext in Ht. apply store_int_ext in H. rewrite (Z.mul_comm (slen0 v) 8) in H.
    exact (ext_trans _ _ _ _ _ _ _ Ht H).
Qed.

Lemma end_cell_ok b c : b_end_cell b = Ok c -> c = Cell ty_ordinary (b_bits b) (b_refs b).
Proof. unfold b_end_cell. destruct (_ <=? _)%N; congruence. Qed.

Lemma store_cell_ext b t bits refs b' : b_store_cell b (Cell t bits refs) = Ok b' -> ext b b' bits refs.
Proof.
  unfold b_store_cell. destruct (_ <? _)%nat; [discriminate|]. intros H. inv_bind H.
  apply store_bits_ext in Ht. destruct Ht as [H1 H2]. injection H as <-.
  split; cbn [b_bits b_refs]; [exact H1|]. rewrite H2, app_nil_r. reflexivity.
Qed.

Lemma store_address_ext b a b' : b_store_address b a = Ok b' -> ext b b' (enc_addr a) [].
Proof.
  destruct a as [|v len|ac wc h]; cbn [b_store_address enc_addr]; intros H.
  - apply store_bits_ext. exact H.
  - inv_bind H. inv_bind H. inv_bind H. inv_bind H.
    apply store_bits_ext in Ht. apply store_uint_ext in Ht0.
    assert (Hv : ext t0 t1 (enc (Z.to_nat len) v) []).
    { destruct (Z.eqb_spec len 0) as [->|Hne]; cbn [negb] in Ht1.
      - destruct (v =? 0); cbn [negb] in Ht1; [|discriminate]. injection Ht1 as <-.
        change (enc (Z.to_nat 0) v) with (@nil bool). split; symmetry; apply app_nil_r.
      - apply store_uint_ext. exact Ht1. }
    clear Ht1. rename Hv into Ht1.
    pose proof (ext_trans _ _ _ _ _ _ _ (ext_trans _ _ _ _ _ _ _ Ht Ht0) Ht1) as [Hb Hr].
    apply end_cell_ok in Ht2. subst t2. apply store_cell_ext in H.
    rewrite Hb, Hr in H. cbn [b_empty b_bits b_refs app] in H.
    exact H.
  - inv_bind H. inv_bind H. apply store_int_ext in Ht0. apply store_bytes_ext in H.
    destruct ac as [[d p]|].
    + inv_bind Ht. inv_bind Ht. apply store_bits_ext in Ht1. apply store_uint_ext in Ht2, Ht.
      pose proof (ext_trans _ _ _ _ _ _ _ (ext_trans _ _ _ _ _ _ _
        (ext_trans _ _ _ _ _ _ _ (ext_trans _ _ _ _ _ _ _ Ht1 Ht2) Ht) Ht0) H) as HH.
      cbn [app] in HH. rewrite <- !app_assoc in HH. exact HH.
    + apply store_bits_ext in Ht.
      pose proof (ext_trans _ _ _ _ _ _ _ (ext_trans _ _ _ _ _ _ _ Ht Ht0) H) as HH.
      exact HH.
Qed.

Lemma store1_ext b x b' : tval_ok x = true -> store1 b x = Ok b' ->
  ext b b' (s_enc x) (s_refs_of x).
Proof.
  destruct x as [w v|w v|k v|k v|v|x|l|bs|c|oc|a]; cbn [store1 s_enc s_refs_of tval_ok]; intros Hok H.
  - apply store_uint_ext; exact H.
  - apply store_int_ext; exact H.
  - apply store_var_uint_ext; [lia|exact H].
  - apply store_var_int_ext; exact H.
  - apply (store_var_uint_ext b v 4); [lia|exact H].
  - apply store_bits_ext; exact H.
  - apply store_bits_ext; exact H.
  - apply store_bytes_ext; exact H.
  - apply store_ref_ext; exact H.
  - destruct oc as [c|]; cbn [b_store_maybe_ref] in H.
    + inv_bind H. apply store_bits_ext in Ht. apply store_ref_ext in H.
      exact (ext_trans _ _ _ _ _ _ _ Ht H).
    + apply store_bits_ext; exact H.
  - apply store_address_ext; exact H.
Qed.

Theorem store_all_bits : forall vs b0 b, Forall (fun x => tval_ok x = true) vs -> store_all b0 vs = Ok b ->
  b_bits b = b_bits b0 ++ concat (map s_enc vs) /\ b_refs b = b_refs b0 ++ concat (map s_refs_of vs).
Proof.
  induction vs as [|x vs IH]; intros b0 b Hall H.
  - cbn in H. injection H as <-. cbn [map concat]. rewrite !app_nil_r. split; reflexivity.
  - cbn [store_all] in H. inv_bind H. inversion Hall as [|? ? Hx Hvs]; subst.
    destruct (store1_ext _ _ _ Hx Ht) as [H1 H2]. destruct (IH _ _ Hvs H) as [H3 H4].
    cbn [map concat]. rewrite H3, H4, H1, H2, <- !app_assoc. split; reflexivity.
Qed.

(* ------------------------------------------------------------------ *)
(* 4. loading an encoding back                                         *)
(* ------------------------------------------------------------------ *)

Lemma firstn_app_exact {A} (l t : list A) n : length l = n -> firstn n (l ++ t) = l.
Proof. intros <-. rewrite firstn_app, Nat.sub_diag, firstn_all. cbn [firstn]. apply app_nil_r. Qed.

Lemma skipn_app_exact {A} (l t : list A) n : length l = n -> skipn n (l ++ t) = t.
Proof. intros <-. rewrite skipn_app, Nat.sub_diag, skipn_all. reflexivity. Qed.

Lemma s_skip_app l t r n : length l = n -> s_skip (mkS (l ++ t) r) n = Ok (mkS t r).
Proof.
  intros Hl. unfold s_skip. cbn [s_bits s_refs]. rewrite app_length.
  destruct (Nat.ltb_spec (length l + length t) n) as [Hlt|_]; [lia|].
  rewrite skipn_app_exact by exact Hl. reflexivity.
Qed.

Lemma load_uint_app_n n v tb r : (1 <= n)%nat -> in_uint (Z.of_nat n) v = true ->
  s_load_uint (mkS (enc n v ++ tb) r) n = Ok (v, mkS tb r).
Proof.
  intros Hn Hv. unfold s_load_uint, s_preload_uint. cbn [s_bits].
  rewrite firstn_app_exact by apply enc_length.
  rewrite <- (Nat2Z.id n) at 1. rewrite (ba2int_enc v (Z.of_nat n) false) by (lia || exact Hv).
  cbn [bind]. rewrite s_skip_app by apply enc_length. reflexivity.
Qed.

Lemma load_int_app_n n v tb r : (1 <= n)%nat -> in_int (Z.of_nat n) v = true ->
  s_load_int (mkS (enc n v ++ tb) r) n = Ok (v, mkS tb r).
Proof.
  intros Hn Hv. unfold s_load_int, s_preload_int. cbn [s_bits].
  rewrite firstn_app_exact by apply enc_length.
  rewrite <- (Nat2Z.id n) at 1. rewrite (ba2int_enc v (Z.of_nat n) true) by (lia || exact Hv).
  cbn [bind]. rewrite s_skip_app by apply enc_length. reflexivity.
Qed.

Lemma load_uint_app w v tb r : 1 <= w -> in_uint w v = true ->
  s_load_uint (mkS (enc (Z.to_nat w) v ++ tb) r) (Z.to_nat w) = Ok (v, mkS tb r).
Proof. intros Hw Hv. apply load_uint_app_n; [lia|]. rewrite Z2Nat.id by lia. exact Hv. Qed.

Lemma load_int_app w v tb r : 1 <= w -> in_int w v = true ->
  s_load_int (mkS (enc (Z.to_nat w) v ++ tb) r) (Z.to_nat w) = Ok (v, mkS tb r).
Proof. intros Hw Hv. apply load_int_app_n; [lia|]. rewrite Z2Nat.id by lia. exact Hv. Qed.

Lemma load_bit_app x tb r : s_load_bit (mkS (x :: tb) r) = Ok (x, mkS tb r).
Proof. reflexivity. Qed.

Lemma load_bits_app l tb r : s_load_bits (mkS (l ++ tb) r) (length l) = Ok (l, mkS tb r).
Proof.
  unfold s_load_bits, s_preload_bits. rewrite s_skip_app by reflexivity. cbn [bind s_bits].
  rewrite firstn_app_exact by reflexivity. reflexivity.
Qed.

Lemma bits_to_bytes_app8 l r : length l = 8%nat -> bits_to_bytes (l ++ r) = of_bits l :: bits_to_bytes r.
Proof.
  intros H. do 8 (destruct l as [|? l]; [simpl in H; discriminate|]).
  destruct l; [|simpl in H; discriminate]. reflexivity.
Qed.

Lemma bytes_to_bits_length bs : length (bytes_to_bits bs) = (length bs * 8)%nat.
Proof.
  unfold bytes_to_bits. induction bs as [|b bs IH]; [reflexivity|].
  cbn [flat_map length]. rewrite app_length, to_bits_length, IH. lia.
Qed.

Lemma bits_to_bytes_to_bits bs : bytes_ok bs -> bits_to_bytes (bytes_to_bits bs) = bs.
Proof.
  unfold bytes_to_bits. induction 1 as [|b bs Hb Hbs IH]; [reflexivity|].
  cbn [flat_map]. rewrite bits_to_bytes_app8 by apply to_bits_length.
  rewrite of_bits_to_bits by exact Hb. f_equal. exact IH.
Qed.

Lemma bytes_okb_ok bs : bytes_okb bs = true -> bytes_ok bs.
Proof.
  unfold bytes_okb, bytes_ok. rewrite forallb_forall, Forall_forall.
  intros H x Hx. apply N.ltb_lt. apply H. exact Hx.
Qed.

Lemma load_bytes_app bs tb r n : n = length bs -> bytes_ok bs ->
  s_load_bytes (mkS (enc_bytes bs ++ tb) r) n = Ok (bs, mkS tb r).
Proof.
  intros -> Hbs. rewrite <- bytes_to_bits_enc. unfold s_load_bytes, s_preload_bytes.
  rewrite s_skip_app by apply bytes_to_bits_length. cbn [bind s_bits].
  rewrite firstn_app_exact by apply bytes_to_bits_length.
  rewrite bits_to_bytes_to_bits by exact Hbs. reflexivity.
Qed.

Lemma load_var_uint_app k v tb r : 1 <= k -> 0 <= v -> ulen0 v < 2 ^ k ->
  s_load_var false (mkS ((enc (Z.to_nat k) (ulen0 v) ++ enc (Z.to_nat (8 * ulen0 v)) v) ++ tb) r)
    (Z.to_nat k) = Ok (v, mkS tb r).
Proof.
  intros Hk Hv Hlen. destruct (ulen_min v Hv) as (Hl0 & Hin & _).
  unfold s_load_var. rewrite <- app_assoc.
  rewrite load_uint_app by (try apply in_uint_iff; lia). cbn [bind].
  destruct (Z.eqb_spec (ulen0 v) 0) as [E|E].
  - rewrite E in *. apply in_uint_iff in Hin. change (2 ^ (8 * 0)) with 1 in Hin.
    assert (v = 0) by lia. subst v. reflexivity.
  - replace (Z.to_nat (ulen0 v) * 8)%nat with (Z.to_nat (8 * ulen0 v)) by lia.
    apply load_uint_app; [lia|exact Hin].
Qed.

Lemma load_var_int_app k v tb r : 1 <= k -> slen0 v < 2 ^ k ->
  s_load_var true (mkS ((enc (Z.to_nat k) (slen0 v) ++ enc (Z.to_nat (8 * slen0 v)) v) ++ tb) r)
    (Z.to_nat k) = Ok (v, mkS tb r).
Proof.
  intros Hk Hlen. destruct (slen_min v) as (Hl0 & Hz & Hnz).
  unfold s_load_var. rewrite <- app_assoc.
  rewrite load_uint_app by (try apply in_uint_iff; lia). cbn [bind].
  destruct (Z.eqb_spec (slen0 v) 0) as [E|E].
  - assert (v = 0) by (destruct (Z.eq_dec v 0) as [|Hne]; [assumption|]; destruct (Hnz Hne); lia).
    subst v. reflexivity.
  - assert (Hne : v <> 0) by (intros ->; apply E; apply Hz; reflexivity).
    destruct (Hnz Hne) as (Hpos & Hin & _).
    replace (Z.to_nat (slen0 v) * 8)%nat with (Z.to_nat (8 * slen0 v)) by lia.
    apply load_int_app; [lia|exact Hin].
Qed.

Lemma load_address_app a tb r : addr_ok a = true ->
  s_load_address (mkS (enc_addr a ++ tb) r) = Ok (a, mkS tb r).
Proof.
  destruct a as [|v len|ac wc h]; cbn [addr_ok enc_addr]; intros Hok.
  - change ([false; false] ++ tb) with (enc 2 0 ++ tb). unfold s_load_address.
    rewrite (load_uint_app_n 2) by (reflexivity || lia). reflexivity.
  - apply andb_prop in Hok. destruct Hok as [Hlen Hv]. rewrite <- !app_assoc.
    change [false; true] with (enc 2 1). unfold s_load_address.
    rewrite (load_uint_app_n 2) by (reflexivity || lia). cbn [bind].
    change (1 =? 0) with false. change (1 =? 1) with true. cbv iota.
    rewrite (load_uint_app_n 9) by (try apply in_uint_iff; lia). cbn [bind].
    destruct (Z.eqb_spec len 0) as [->|Hne]; cbn [negb].
    + apply in_uint_iff in Hv. change (2 ^ 0) with 1 in Hv.
      assert (Hv0 : v = 0) by lia. subst v. reflexivity.
    + rewrite load_uint_app by (lia || exact Hv). reflexivity.
  - apply andb_prop in Hok. destruct Hok as [Hok Hac].
    apply andb_prop in Hok. destruct Hok as [Hok Hh].
    apply andb_prop in Hok. destruct Hok as [Hwc Hlen].
    apply bytes_okb_ok in Hh. apply Nat.eqb_eq in Hlen.
    unfold s_load_address. destruct ac as [[d p]|].
    + apply andb_prop in Hac. destruct Hac as [Hd Hp]. rewrite <- !app_assoc.
      change ([true; false; true] ++ ?X) with (enc 2 2 ++ true :: X).
      rewrite (load_uint_app_n 2) by (reflexivity || lia). cbn [bind].
      change (2 =? 0) with false. change (2 =? 1) with false. change (2 =? 2) with true. cbv iota.
      rewrite load_bit_app. cbn [bind].
      rewrite (load_uint_app_n 5) by (try apply in_uint_iff; lia). cbn [bind].
      destruct (Z.ltb_spec d 1) as [Hd1|_]; [lia|].
      rewrite load_uint_app by (lia || exact Hp). cbn [bind].
      rewrite (load_int_app_n 8) by (lia || exact Hwc). cbn [bind].
      rewrite (load_bytes_app h tb r 32) by (congruence || exact Hh). reflexivity.
    + rewrite <- !app_assoc.
      change ([true; false; false] ++ ?X) with (enc 2 2 ++ false :: X).
      rewrite (load_uint_app_n 2) by (reflexivity || lia). cbn [bind].
      change (2 =? 0) with false. change (2 =? 1) with false. change (2 =? 2) with true. cbv iota.
      rewrite load_bit_app. cbn [bind].
      rewrite (load_int_app_n 8) by (lia || exact Hwc). cbn [bind].
      rewrite (load_bytes_app h tb r 32) by (congruence || exact Hh). reflexivity.
Qed.

Lemma load1_enc x tb tr : tval_ok x = true ->
  load1 (mkS (s_enc x ++ tb) (s_refs_of x ++ tr)) (ty_of x) = Ok (x, mkS tb tr).
Proof.
  destruct x as [w v|w v|k v|k v|v|x|l|bs|c|oc|a];
    cbn [load1 ty_of s_enc s_refs_of tval_ok app]; intros Hok.
  - apply andb_prop in Hok. destruct Hok as [Hw Hv].
    rewrite load_uint_app by (lia || exact Hv). reflexivity.
  - apply andb_prop in Hok. destruct Hok as [Hw Hv].
    rewrite load_int_app by (lia || exact Hv). reflexivity.
  - unfold s_load_var_uint. rewrite load_var_uint_app by lia. reflexivity.
  - unfold s_load_var_int. rewrite load_var_int_app by lia. reflexivity.
  - unfold s_load_coins, s_load_var_uint.
    rewrite (load_var_uint_app 4 v) by (try change (2 ^ 4) with 16; lia). reflexivity.
  - reflexivity.
  - rewrite load_bits_app. reflexivity.
  - rewrite load_bytes_app by (reflexivity || apply bytes_okb_ok; exact Hok). reflexivity.
  - reflexivity.
  - destruct oc as [c|]; reflexivity.
  - rewrite load_address_app by exact Hok. reflexivity.
Qed.

Theorem load_all_enc : forall vs tb tr, Forall (fun x => tval_ok x = true) vs ->
  load_all (mkS (concat (map s_enc vs) ++ tb) (concat (map s_refs_of vs) ++ tr)) (map ty_of vs)
  = Ok (vs, mkS tb tr).
Proof.
  induction vs as [|x vs IH]; intros tb tr Hall; [reflexivity|].
  inversion Hall as [|? ? Hx Hvs]; subst.
  cbn [map concat load_all]. rewrite <- !app_assoc.
  rewrite load1_enc by exact Hx. cbn [bind]. rewrite IH by exact Hvs. reflexivity.
Qed.

Theorem roundtrip_cell : forall vs b c, Forall (fun x => tval_ok x = true) vs ->
  store_all b_empty vs = Ok b -> b_end_cell b = Ok c ->
  load_all (begin_parse c) (map ty_of vs) = Ok (vs, mkS [] []).
Proof.
  intros vs b c Hall Hst Hend. apply end_cell_ok in Hend. subst c.
  destruct (store_all_bits _ _ _ Hall Hst) as [Hb Hr]. cbn [begin_parse].
  rewrite Hb, Hr. cbn [b_empty b_bits b_refs app].
  rewrite <- (app_nil_r (concat (map s_enc vs))), <- (app_nil_r (concat (map s_refs_of vs))).
  apply load_all_enc. exact Hall.
Qed.

(* ------------------------------------------------------------------ *)
(* 5. preload agrees with load                                         *)
(* ------------------------------------------------------------------ *)

Lemma rmap_ok {A B} (f : A -> B) r b : rmap f r = Ok b -> exists a, r = Ok a /\ b = f a.
Proof. destruct r as [a|e]; cbn [rmap]; intros H; [injection H as <-; eauto|discriminate]. Qed.

Lemma s_skip_ok s n s' : s_skip s n = Ok s' -> s' = mkS (skipn n (s_bits s)) (s_refs s).
Proof. unfold s_skip. destruct (_ <? _)%nat; congruence. Qed.

Lemma load_uint_inv s n v s' : s_load_uint s n = Ok (v, s') ->
  s_preload_uint s n = Ok v /\ s' = mkS (skipn n (s_bits s)) (s_refs s).
Proof.
  unfold s_load_uint. intros H. inv_bind H. inv_bind H. injection H as <- <-.
  split; [exact Ht|apply s_skip_ok; exact Ht0].
Qed.

Lemma load_int_inv s n v s' : s_load_int s n = Ok (v, s') ->
  s_preload_int s n = Ok v /\ s' = mkS (skipn n (s_bits s)) (s_refs s).
Proof.
  unfold s_load_int. intros H. inv_bind H. inv_bind H. injection H as <- <-.
  split; [exact Ht|apply s_skip_ok; exact Ht0].
Qed.

Lemma load_bit_inv s x s' : s_load_bit s = Ok (x, s') ->
  s_preload_bit s = Ok x /\ s' = mkS (skipn 1 (s_bits s)) (s_refs s).
Proof.
  unfold s_load_bit. intros H. inv_bind H. inv_bind H. injection H as <- <-.
  split; [exact Ht|apply s_skip_ok; exact Ht0].
Qed.

Lemma load_var_preload signed s bl v s' : s_load_var signed s bl = Ok (v, s') ->
  s_preload_var signed s bl = Ok v.
Proof.
  unfold s_load_var, s_preload_var. intros H. inv_bind H. destruct t as [len s1].
  apply load_uint_inv in Ht. destruct Ht as [Hp ->]. rewrite Hp. cbn [bind].
  destruct (len =? 0).
  - injection H as <- _. reflexivity.
  - rewrite <- firstn_skipn_comm. destruct signed.
    + apply load_int_inv in H. destruct H as [H _]. exact H.
    + apply load_uint_inv in H. destruct H as [H _]. exact H.
Qed.

Theorem peek_agrees : forall s t v s', load1 s t = Ok (v, s') -> preload1 s t = Ok v.
Proof.
  intros s t v s' H. destruct t as [w|w|k|k| | |n|n| | | ]; cbn [load1 preload1] in *;
    apply rmap_ok in H; destruct H as ([a s0] & Ha & Hv); injection Hv as -> ->.
  - apply load_uint_inv in Ha. destruct Ha as [-> _]. reflexivity.
  - apply load_int_inv in Ha. destruct Ha as [-> _]. reflexivity.
  - apply load_var_preload in Ha. rewrite Ha. reflexivity.
  - apply load_var_preload in Ha. rewrite Ha. reflexivity.
  - apply load_var_preload in Ha. rewrite Ha. reflexivity.
  - apply load_bit_inv in Ha. destruct Ha as [-> _]. reflexivity.
  - unfold s_load_bits in Ha. inv_bind Ha. injection Ha as <- _. reflexivity.
  - unfold s_load_bytes in Ha. inv_bind Ha. injection Ha as <- _. reflexivity.
  - unfold s_load_ref in Ha. destruct (s_refs s) as [|r rs]; [discriminate|].
    injection Ha as <- _. reflexivity.
  - unfold s_load_maybe_ref in Ha. inv_bind Ha. destruct t as [x s1].
    apply load_bit_inv in Ht. destruct Ht as [Hp ->]. unfold s_preload_maybe_ref.
    rewrite Hp. cbn [bind rmap]. destruct x.
    + inv_bind Ha. destruct t as [r s2]. unfold s_load_ref in Ht. cbn [s_refs] in Ht.
      destruct (s_refs s) as [|r' rs]; [discriminate|].
      injection Ht as <- _. injection Ha as <- _. reflexivity.
    + injection Ha as <- _. reflexivity.
  - unfold s_preload_address. rewrite Ha. reflexivity.
Qed.

(* ------------------------------------------------------------------ *)
(* 6. snake strings                                                    *)
(* ------------------------------------------------------------------ *)

Lemma avail_empty : ((1023 - length (b_bits b_empty)) / 8 = 127)%nat.
Proof. vm_compute. reflexivity. Qed.

Lemma store_bytes_empty bs : (length bs <= 127)%nat ->
  b_store_bytes b_empty bs = Ok (mkB (bytes_to_bits bs) []).
Proof.
  intros H. unfold b_store_bytes, b_store_bits. cbn [b_empty b_bits b_refs length app].
  rewrite bytes_to_bits_length.
  match goal with |- context [(?a <? ?b)%nat] => destruct (Nat.ltb_spec a b) as [Hlt|_] end;
    [lia|reflexivity].
Qed.

Lemma load_snake_leaf f bs : bytes_ok bs -> s_load_snake (S f) (mkS (bytes_to_bits bs) []) = Ok bs.
Proof.
  intros Hbs. cbn [s_load_snake s_bits s_refs].
  rewrite bytes_to_bits_length, Nat.mod_mul, Nat.div_mul by lia.
  cbn [Nat.eqb negb]. unfold s_preload_bytes. cbn [s_bits].
  rewrite <- bytes_to_bits_length, firstn_all, bits_to_bytes_to_bits by exact Hbs. reflexivity.
Qed.

Lemma store_ref_empty bits c : b_store_ref (mkB bits []) c = Ok (mkB bits [c]).
Proof. reflexivity. Qed.

Ltac inv_bind_as H a Ha := apply bind_ok in H; destruct H as (a & Ha & H).

Theorem snake_roundtrip : forall fuel bs b, bytes_ok bs ->
  b_store_snake fuel b_empty bs = Ok b ->
  s_load_snake fuel (mkS (b_bits b) (b_refs b)) = Ok bs.
Proof.
  induction fuel as [|f IH]; intros bs b Hbs H; [discriminate|].
  cbn [b_store_snake] in H. destruct bs as [|x bs'].
  - injection H as <-. reflexivity.
  - remember (x :: bs') as bs eqn:Ebs. rewrite avail_empty in H.
    destruct (Nat.leb_spec (length bs) 127) as [Hle|Hgt].
    + rewrite store_bytes_empty in H by exact Hle. injection H as <-. cbn [b_bits b_refs].
      apply load_snake_leaf. exact Hbs.
    + assert (Hl1 : length (firstn 127 bs) = 127%nat) by (rewrite firstn_length; lia).
      assert (Hsplit : firstn 127 bs ++ skipn 127 bs = bs) by apply firstn_skipn.
      rewrite <- Hsplit in Hbs. apply Forall_app in Hbs. destruct Hbs as [Hb1 Hb2].
      set (hd := firstn 127 bs) in *. set (tl := skipn 127 bs) in *. clearbody hd tl.
      inv_bind_as H b1 Hb1s. rewrite store_bytes_empty in Hb1s by lia. injection Hb1s as <-.
      inv_bind_as H inner Hinner. inv_bind_as H c Hc. apply end_cell_ok in Hc. subst c.
      rewrite store_ref_empty in H. injection H as <-.
      pose proof (IH _ _ Hb2 Hinner) as Hin.
      cbn [s_load_snake s_bits s_refs begin_parse b_bits b_refs].
      rewrite bytes_to_bits_length, Nat.mod_mul, Nat.div_mul by lia.
      cbn [Nat.eqb negb]. rewrite Hin. cbn [bind]. unfold s_preload_bytes. cbn [s_bits].
      rewrite <- bytes_to_bits_length, firstn_all, bits_to_bytes_to_bits by exact Hb1.
      rewrite Hsplit. reflexivity.
Qed.

Lemma s_depth_leaf t bits : s_depth (Cell t bits []) = 0%N.
Proof. reflexivity. Qed.

Lemma s_depth_single t bits c : s_depth (Cell t bits [c]) = (1 + s_depth c)%N.
Proof.
  change (s_depth (Cell t bits [c])) with (1 + maxl [s_depth c])%N.
  unfold maxl. cbn [fold_right]. lia.
Qed.

Lemma snake_store_ok : forall n fuel bs, (length bs <= 127 * n)%nat -> (n <= 1024)%nat ->
  (n < fuel)%nat ->
  exists b, b_store_snake fuel b_empty bs = Ok b /\
            (s_depth (Cell ty_ordinary (b_bits b) (b_refs b)) <= N.of_nat n)%N.
Proof.
  induction n as [|m IH]; intros fuel bs Hlen Hn Hfuel.
  - destruct fuel as [|f]; [lia|]. destruct bs as [|x bs']; [|cbn [length] in Hlen; lia].
    exists b_empty. split; [reflexivity|]. cbn [b_empty b_bits b_refs]. rewrite s_depth_leaf. lia.
  - destruct fuel as [|f]; [lia|]. destruct bs as [|x bs'].
    + exists b_empty. split; [reflexivity|]. cbn [b_empty b_bits b_refs]. rewrite s_depth_leaf. lia.
    + cbn [b_store_snake]. rewrite avail_empty. remember (x :: bs') as bs eqn:Ebs.
      destruct (Nat.leb_spec (length bs) 127) as [Hle|Hgt].
      * rewrite store_bytes_empty by exact Hle. eexists. split; [reflexivity|].
        cbn [b_bits b_refs]. rewrite s_depth_leaf. lia.
      * assert (Hl1 : length (firstn 127 bs) = 127%nat) by (rewrite firstn_length; lia).
        assert (Hl2 : length (skipn 127 bs) = (length bs - 127)%nat) by apply skipn_length.
        set (hd := firstn 127 bs) in *. set (tl := skipn 127 bs) in *. clearbody hd tl.
        rewrite store_bytes_empty by lia. cbn [bind].
        destruct (IH f tl) as (inner & Hin & Hd); [lia|lia|lia|].
        rewrite Hin. cbn [bind]. unfold b_end_cell.
        set (c := Cell ty_ordinary (b_bits inner) (b_refs inner)) in *. cbv zeta.
        destruct (N.leb_spec 1024 (s_depth c)) as [Hbig|_]; [lia|]. cbn [bind].
        rewrite store_ref_empty.
        eexists. split; [reflexivity|]. cbn [b_bits b_refs]. rewrite s_depth_single. lia.
Qed.

Theorem snake_total : forall bs, bytes_ok bs -> (length bs <= 127 * 1024)%nat ->
  exists b, b_store_snake (S (length bs)) b_empty bs = Ok b.
Proof.
  intros bs _ Hlen.
  destruct (snake_store_ok ((length bs + 126) / 127) (S (length bs)) bs) as (b & Hb & _);
    [lia|lia|lia|].
  exists b. exact Hb.
Qed.
