(* C06: typed Builder stores and Slice loads are mutually inverse and bit-exact.
   Proofs relating Model/Builder.v + Model/Typed.v to Spec/TlbPrim.v + Spec/TlbVal.v. *)
From Coq Require Import NArith ZArith List Bool Lia ZifyBool ZifyNat ZifyN.
From PTQ Require Import Base.Result Base.Bytes Base.Bits Model.Cell Spec.CellRepr
  Model.Builder Model.Typed Spec.TlbPrim Spec.TlbVal.
Import ListNotations.
Local Open Scope Z_scope.
Ltac Zify.zify_post_hook ::= Z.div_mod_to_equations.

(* ------------------------------------------------------------------ *)
(* 1. enc versus to_bits / of_bits                                     *)
(* ------------------------------------------------------------------ *)

Lemma enc_length w v : length (enc w v) = w.
Proof. unfold enc. rewrite map_length, seq_length. reflexivity. Qed.

Lemma enc_cons w v : enc (S w) v = Z.testbit v (Z.of_nat w) :: enc w v.
Proof.
  unfold enc. cbn [seq map]. f_equal.
  - f_equal. lia.
  - rewrite <- seq_shift, map_map. apply map_ext. intros i. f_equal. lia.
Qed.

Lemma enc_snoc w v : enc (S w) v = enc w (v / 2) ++ [Z.testbit v 0].
Proof.
  unfold enc. rewrite seq_S, map_app. cbn [map]. f_equal.
  - apply map_ext_in. intros i Hi. apply in_seq in Hi.
    replace (Z.of_nat (S w - 1 - i)) with (Z.succ (Z.of_nat (w - 1 - i))) by lia.
    rewrite Z.div2_bits by lia. reflexivity.
  - f_equal. f_equal. lia.
Qed.

Lemma to_bits_enc w : forall n, to_bits w n = enc w (Z.of_N n).
Proof.
  induction w as [|w IH]; intros n; [reflexivity|].
  unfold to_bits. cbn [to_bits_le rev]. fold (to_bits w (n / 2)%N).
  rewrite IH, enc_snoc, N2Z.inj_div. f_equal. f_equal.
  rewrite <- N.bit0_odd. symmetry. apply (Z.testbit_of_N n 0).
Qed.

Lemma enc_mod w v : enc w (v mod 2 ^ Z.of_nat w) = enc w v.
Proof.
  unfold enc. apply map_ext_in. intros i Hi. apply in_seq in Hi.
  apply Z.mod_pow2_bits_low. lia.
Qed.

Lemma pow2_pos n : 0 <= n -> 0 < 2 ^ n.
Proof. intros Hn. apply Z.pow_pos_nonneg; lia. Qed.

Lemma pow2_mono a b : a <= b -> 2 ^ a <= 2 ^ b.
Proof. intros Hab. apply Z.pow_le_mono_r; lia. Qed.

Lemma to_bits_signed_enc w v : to_bits_signed w v = enc w v.
Proof.
  unfold to_bits_signed. rewrite to_bits_enc, Z2N.id, enc_mod; [reflexivity|].
  pose proof (pow2_pos (Z.of_nat w) ltac:(lia)) as Hp.
  pose proof (Z.mod_pos_bound v _ Hp) as Hm. lia.
Qed.

Lemma of_bits_enc w v : of_bits (enc w v) = Z.to_N (v mod 2 ^ Z.of_nat w).
Proof.
  pose proof (pow2_pos (Z.of_nat w) ltac:(lia)) as Hp.
  pose proof (Z.mod_pos_bound v _ Hp) as Hm.
  assert (He : enc w v = to_bits w (Z.to_N (v mod 2 ^ Z.of_nat w))).
  { rewrite to_bits_enc, Z2N.id, enc_mod by lia. reflexivity. }
  rewrite He. apply of_bits_to_bits.
  apply N2Z.inj_lt. rewrite Z2N.id by lia.
  rewrite N2Z.inj_pow, nat_N_Z. change (Z.of_N 2) with 2. lia.
Qed.

Lemma testbit_sign n v : 0 <= n -> - 2 ^ n <= v < 2 ^ n -> Z.testbit v n = (v <? 0).
Proof.
  intros Hn Hv. pose proof (pow2_pos n Hn) as Hp.
  destruct (Z.ltb_spec v 0) as [Hneg|Hpos].
  - apply Z.testbit_true; [lia|].
    replace (v / 2 ^ n) with (-1); [reflexivity|].
    apply (Z.div_unique v (2 ^ n) (-1) (v + 2 ^ n)); lia.
  - apply Z.testbit_false; [lia|]. rewrite Z.div_small by lia. reflexivity.
Qed.

Lemma of_bits_signed_enc n v : - 2 ^ Z.of_nat n <= v < 2 ^ Z.of_nat n ->
  of_bits_signed (enc (S n) v) = v.
Proof.
  intros Hv.
  assert (Hs : forall l s t, l = s :: t -> of_bits_signed l =
     if s then Z.of_N (of_bits l) - 2 ^ Z.of_nat (length l) else Z.of_N (of_bits l)).
  { intros l s t ->. reflexivity. }
  rewrite (Hs _ _ _ (enc_cons n v)). clear Hs.
  rewrite of_bits_enc, enc_length, testbit_sign by lia.
  pose proof (pow2_pos (Z.of_nat n) ltac:(lia)) as Hp.
  assert (H2 : 2 ^ Z.of_nat (S n) = 2 * 2 ^ Z.of_nat n).
  { rewrite Nat2Z.inj_succ, Z.pow_succ_r by lia. reflexivity. }
  rewrite H2.
  pose proof (Z.mod_pos_bound v (2 * 2 ^ Z.of_nat n) ltac:(lia)) as Hm.
  rewrite Z2N.id by lia.
  destruct (Z.ltb_spec v 0) as [Hneg|Hpos].
  - rewrite <- (Z.mod_unique v (2 * 2 ^ Z.of_nat n) (-1) (v + 2 * 2 ^ Z.of_nat n)); lia.
  - apply Z.mod_small. lia.
Qed.

Lemma in_uint_iff w v : in_uint w v = true <-> 0 <= v < 2 ^ w.
Proof. unfold in_uint. rewrite andb_true_iff, Z.leb_le, Z.ltb_lt. tauto. Qed.
Lemma in_int_iff w v : in_int w v = true <-> - 2 ^ (w - 1) <= v < 2 ^ (w - 1).
Proof. unfold in_int. rewrite andb_true_iff, Z.leb_le, Z.ltb_lt. tauto. Qed.

Lemma ba2int_nonempty l s : l <> [] ->
  ba2int l s = Ok (if s then of_bits_signed l else Z.of_N (of_bits l)).
Proof. destruct l; [congruence|reflexivity]. Qed.

Lemma enc_nonempty w v : (1 <= w)%nat -> enc w v <> [].
Proof. intros Hw He. pose proof (enc_length w v) as Hl. rewrite He in Hl. cbn [length] in Hl. lia. Qed.

Lemma ba2int_enc v w (s : bool) : 1 <= w -> (if s then in_int w v else in_uint w v) = true ->
  ba2int (enc (Z.to_nat w) v) s = Ok v.
Proof.
  intros Hw Hr. rewrite ba2int_nonempty by (apply enc_nonempty; lia). f_equal.
  destruct s.
  - apply in_int_iff in Hr.
    replace (Z.to_nat w) with (S (Z.to_nat (w - 1))) by lia.
    apply of_bits_signed_enc. rewrite Z2Nat.id by lia. exact Hr.
  - apply in_uint_iff in Hr. rewrite of_bits_enc, Z2Nat.id by lia.
    rewrite Z.mod_small by lia. lia.
Qed.

(* full inversion of a successful int2ba *)
Lemma int2ba_ok_enc v w (s : bool) l : int2ba v w s = Ok l ->
  l = enc (Z.to_nat w) v /\ 1 <= w /\ (if s then in_int w v else in_uint w v) = true.
Proof.
  unfold int2ba. destruct (Z.leb_spec w 0) as [Hw|Hw]; [discriminate|].
  destruct s.
  - fold (in_int w v). destruct (in_int w v); [|discriminate].
    intros [= <-]. rewrite to_bits_signed_enc. repeat split; lia.
  - fold (in_uint w v). destruct (in_uint w v) eqn:Hr; [|discriminate].
    intros [= <-]. apply in_uint_iff in Hr. rewrite to_bits_enc, Z2N.id by lia. repeat split; lia.
Qed.

Lemma int2ba_ok v w (s : bool) : 1 <= w -> (if s then in_int w v else in_uint w v) = true ->
  int2ba v w s = Ok (enc (Z.to_nat w) v).
Proof.
  intros Hw Hr. unfold int2ba. destruct (Z.leb_spec w 0) as [Hw'|_]; [lia|].
  destruct s.
  - fold (in_int w v). rewrite Hr, to_bits_signed_enc. reflexivity.
  - fold (in_uint w v). rewrite Hr. apply in_uint_iff in Hr.
    rewrite to_bits_enc, Z2N.id by lia. reflexivity.
Qed.

Theorem int2ba_enc : forall v w (signed : bool), 1 <= w ->
  (if signed then in_int w v else in_uint w v) = true ->
  int2ba v w signed = Ok (enc (Z.to_nat w) v) /\ ba2int (enc (Z.to_nat w) v) signed = Ok v.
Proof. intros v w s Hw Hr. split; [apply int2ba_ok|apply ba2int_enc]; assumption. Qed.

(* ------------------------------------------------------------------ *)
(* 2. minimal byte lengths                                             *)
(* ------------------------------------------------------------------ *)

Lemma log2_bounds v : 0 < v -> 0 <= Z.log2 v /\ 2 ^ Z.log2 v <= v < 2 ^ (Z.log2 v + 1).
Proof. intros Hv. split; [apply Z.log2_nonneg|]. exact (Z.log2_spec v Hv). Qed.

Lemma lt_pow2_of_log2 v e : 0 < v -> Z.log2 v + 1 <= e -> v < 2 ^ e.
Proof.
  intros Hv He. destruct (log2_bounds v Hv) as (_ & _ & Hu).
  pose proof (pow2_mono _ _ He). lia.
Qed.

Lemma ge_pow2_of_log2 v e : 0 < v -> e <= Z.log2 v -> 2 ^ e <= v.
Proof.
  intros Hv He. destruct (log2_bounds v Hv) as (_ & Hl & _).
  pose proof (pow2_mono _ _ He). lia.
Qed.

Lemma ulen_min v : 0 <= v -> is_min_ulen v (ulen0 v).
Proof.
  intros Hv. unfold is_min_ulen, ulen0. destruct (Z.eqb_spec v 0) as [->|Hne].
  - split; [lia|]. split; [reflexivity|lia].
  - assert (Hp : 0 < v) by lia. unfold ulen.
    pose proof (Z.log2_nonneg v) as Hk.
    set (l := (Z.log2 v + 8) / 8).
    assert (Hl : 8 * l <= Z.log2 v + 8 < 8 * l + 8) by (subst l; lia).
    split; [lia|]. split.
    + apply in_uint_iff. split; [lia|]. apply lt_pow2_of_log2; lia.
    + intros Hl0. unfold in_uint. apply andb_false_intro2. apply Z.ltb_ge.
      apply ge_pow2_of_log2; lia.
Qed.

Lemma slen_min v : is_min_slen v (slen0 v).
Proof.
  unfold is_min_slen, slen0. destruct (Z.eqb_spec v 0) as [->|Hne].
  - split; [lia|]. split; [reflexivity|congruence].
  - destruct (Z.ltb_spec 0 v) as [Hp|Hn].
    + pose proof (Z.log2_nonneg v) as Hk.
      set (l := (Z.log2 v + 9) / 8).
      assert (Hl : 8 * l <= Z.log2 v + 9 < 8 * l + 8) by (subst l; lia).
      split; [lia|]. split; [congruence|]. intros _. split; [lia|]. split.
      * apply in_int_iff.
        pose proof (lt_pow2_of_log2 v (8 * l - 1) Hp ltac:(lia)).
        pose proof (pow2_pos (8 * l - 1) ltac:(lia)). lia.
      * intros Hl1. unfold in_int. apply andb_false_intro2. apply Z.ltb_ge.
        apply ge_pow2_of_log2; lia.
    + destruct (Z.eqb_spec v (-1)) as [->|Hne1].
      * split; [lia|]. split; [congruence|]. intros _. split; [lia|]. split; [reflexivity|lia].
      * assert (Hx : 0 < - v - 1) by lia.
        pose proof (Z.log2_nonneg (- v - 1)) as Hk.
        set (l := (Z.log2 (- v - 1) + 9) / 8).
        assert (Hl : 8 * l <= Z.log2 (- v - 1) + 9 < 8 * l + 8) by (subst l; lia).
        split; [lia|]. split; [congruence|]. intros _. split; [lia|]. split.
        -- apply in_int_iff.
           pose proof (lt_pow2_of_log2 (- v - 1) (8 * l - 1) Hx ltac:(lia)).
           pose proof (pow2_pos (8 * l - 1) ltac:(lia)). lia.
        -- intros Hl1. unfold in_int. apply andb_false_intro1. apply Z.leb_gt.
           pose proof (ge_pow2_of_log2 (- v - 1) (8 * (l - 1) - 1) Hx ltac:(lia)). lia.
Qed.

Theorem var_len_minimal : forall v,
  (0 <= v -> is_min_ulen v (ulen0 v)) /\ is_min_slen v (slen0 v).
Proof. intros v. split; [apply ulen_min|apply slen_min]. Qed.
