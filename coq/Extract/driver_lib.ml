(* Glue between the line protocol and the extracted Coq datatypes. Hand-written, trusted. *)
open Model

let rec pos_of_int n =
  if n = 1 then XH
  else if n land 1 = 0 then XO (pos_of_int (n lsr 1))
  else XI (pos_of_int (n lsr 1))
let n_of_int n = if n = 0 then N0 else Npos (pos_of_int n)
let rec int_of_pos = function XH -> 1 | XO p -> 2 * int_of_pos p | XI p -> 2 * int_of_pos p + 1
let int_of_n = function N0 -> 0 | Npos p -> int_of_pos p
let z_of_int n = if n = 0 then Z0 else if n > 0 then Zpos (pos_of_int n) else Zneg (pos_of_int (-n))
let int_of_z = function Z0 -> 0 | Zpos p -> int_of_pos p | Zneg p -> - (int_of_pos p)
let rec nat_of_int n = if n = 0 then O else S (nat_of_int (n - 1))
let rec int_of_nat = function O -> 0 | S n -> 1 + int_of_nat n

let hexval c = match c with
  | '0'..'9' -> Char.code c - 48
  | 'a'..'f' -> Char.code c - 87
  | 'A'..'F' -> Char.code c - 55
  | _ -> failwith "hex"

(* bytes <-> hex; "-" denotes the empty byte string *)
let bytes_of_hex s =
  if s = "-" then [] else begin
    let n = String.length s / 2 in
    List.init n (fun i -> n_of_int (hexval s.[2*i] * 16 + hexval s.[2*i+1]))
  end
let hex_of_bytes l =
  if l = [] then "-" else String.concat "" (List.map (fun b -> Printf.sprintf "%02x" (int_of_n b)) l)

(* bits <-> "0101"; "-" denotes the empty bit string *)
let bits_of_str s = if s = "-" then [] else List.init (String.length s) (fun i -> s.[i] = '1')
let str_of_bits l = if l = [] then "-" else String.concat "" (List.map (fun b -> if b then "1" else "0") l)

(* arbitrary-size naturals / integers as hex: "1f", "-1f", "0" *)
let n_of_hex s =
  let acc = ref N0 in
  String.iter (fun c -> acc := N.add (N.mul !acc (n_of_int 16)) (n_of_int (hexval c))) s; !acc
let rec bits_of_pos p acc = match p with
  | XH -> true :: acc | XO q -> bits_of_pos q (false :: acc) | XI q -> bits_of_pos q (true :: acc)
let hex_of_n n = match n with
  | N0 -> "0"
  | Npos p ->
    let bits = bits_of_pos p [] in  (* msb first *)
    let len = List.length bits in
    let pad = (4 - len mod 4) mod 4 in
    let bits = List.init pad (fun _ -> false) @ bits in
    let buf = Buffer.create 16 in
    let rec go = function
      | a :: b :: c :: d :: r ->
        let v = (if a then 8 else 0) + (if b then 4 else 0) + (if c then 2 else 0) + (if d then 1 else 0) in
        Buffer.add_char buf "0123456789abcdef".[v]; go r
      | [] -> ()
      | _ -> failwith "bits" in
    go bits; Buffer.contents buf
let z_of_hex s =
  if String.length s > 0 && s.[0] = '-' then
    (match n_of_hex (String.sub s 1 (String.length s - 1)) with N0 -> Z0 | Npos p -> Zneg p)
  else (match n_of_hex s with N0 -> Z0 | Npos p -> Zpos p)
let hex_of_z = function Z0 -> "0" | Zpos p -> hex_of_n (Npos p) | Zneg p -> "-" ^ hex_of_n (Npos p)

let err_name = function
  | EOverflow -> "Overflow" | EUnderflow -> "Underflow" | EIndex -> "Index" | EValue -> "Value"
  | EType -> "Type" | EBoc -> "Boc" | ECell -> "Cell" | EDict -> "Dict" | EAddress -> "Address"
  | EProof -> "Proof" | ETl -> "Tl" | EAssert -> "Assert" | EAttr -> "Attr" | ERecursion -> "Recursion"
  | EFuel -> "Fuel" | EOther -> "Other"
let show_res f = function Ok a -> "ok " ^ f a | Err e -> "err " ^ err_name e

let show_res_c f r = String.map (fun c -> if c = ' ' then ':' else c) (show_res f r)
let split_ws s = List.filter (fun x -> x <> "") (String.split_on_char ' ' s)

(* ---- DAG text format:  n node_0 ... node_{n-1}   with node = ty:bits:r1,r2 (indices of earlier nodes) ---- *)
type node = { nty : z; nbits : bool list; nrefs : int list }
let parse_node (t : String.t) : node =
  match String.split_on_char ':' t with
  | [ty; bits; refs] ->
    { nty = z_of_int (int_of_string ty); nbits = bits_of_str bits;
      nrefs = if refs = "" then [] else List.map int_of_string (String.split_on_char ',' refs) }
  | _ -> failwith "node"
(* returns the nodes and the remaining tokens *)
let parse_dag (toks : String.t list) : node array * String.t list =
  match toks with
  | n :: rest ->
    let n = int_of_string n in
    let rec take k l acc = if k = 0 then (List.rev acc, l) else
        (match l with x :: r -> take (k - 1) r (parse_node x :: acc) | [] -> failwith "dag") in
    let (ns, rest) = take n rest [] in
    (Array.of_list ns, rest)
  | [] -> failwith "dag"
(* the tree the DAG denotes (shared OCaml values) *)
let tree_of_dag (ns : node array) : cell array =
  let out = Array.make (Array.length ns) (Cell (Z0, [], [])) in
  Array.iteri (fun i nd -> out.(i) <- Cell (nd.nty, nd.nbits, List.map (fun r -> out.(r)) nd.nrefs)) ns;
  out
(* Cell objects built bottom-up, one mk_cell per distinct node: equals [build] of the tree because
   build (Cell t b rs) = mapM build rs >>= mk_cell t b *)
let build_dag (ns : node array) : kcell array result =
  let dummy = KCell (Z0, [], [], N0, [], []) in
  let out = Array.make (Array.length ns) dummy in
  let err = ref None in
  Array.iteri (fun i nd ->
      if !err = None then
        match mk_cell_sha nd.nty nd.nbits (List.map (fun r -> out.(r)) nd.nrefs) with
        | Ok k -> out.(i) <- k
        | Err e -> err := Some e) ns;
  match !err with None -> Ok out | Some e -> Err e
let commas f l = if l = [] then "-" else String.concat "," (List.map f l)
let dec_of_n n = int_of_n n |> string_of_int

(* ---- typed values / store ops of C06, C07 ---- *)
let colon s = String.split_on_char ':' s
let cell_tag (c : cell) : String.t =
  let Cell (_, bits, refs) = c in
  let rec take k l = if k = 0 then [] else (match l with [] -> [] | x :: r -> x :: take (k - 1) r) in
  Printf.sprintf "c%d.%d.%s" (List.length bits) (List.length refs) (str_of_bits (take 16 bits))
let parse_addr (f : String.t list) : addr =
  match f with
  | ["none"] -> AddrNone
  | ["ext"; len; v] -> AddrExt (z_of_hex v, z_of_hex len)
  | ["std"; wc; h] -> AddrStd (None, z_of_hex wc, bytes_of_hex h)
  | ["std"; wc; h; d; p] -> AddrStd (Some (z_of_hex d, z_of_hex p), z_of_hex wc, bytes_of_hex h)
  | _ -> failwith "addr"
let show_addr = function
  | AddrNone -> "none"
  | AddrExt (v, len) -> Printf.sprintf "ext:%s:%s" (hex_of_z len) (hex_of_z v)
  | AddrStd (None, wc, h) -> Printf.sprintf "std:%s:%s" (hex_of_z wc) (hex_of_bytes h)
  | AddrStd (Some (d, p), wc, h) -> Printf.sprintf "std:%s:%s:%s:%s" (hex_of_z wc) (hex_of_bytes h) (hex_of_z d) (hex_of_z p)
type xop = XS of sop | XSnake of n list
let parse_op (trees : cell array) (t : String.t) : xop =
  match colon t with
  | ["u"; w; v] -> XS (OVal (VUint (z_of_hex w, z_of_hex v)))
  | ["i"; w; v] -> XS (OVal (VInt (z_of_hex w, z_of_hex v)))
  | ["vu"; k; v] -> XS (OVal (VVarUint (z_of_hex k, z_of_hex v)))
  | ["vi"; k; v] -> XS (OVal (VVarInt (z_of_hex k, z_of_hex v)))
  | ["c"; v] -> XS (OVal (VCoins (z_of_hex v)))
  | ["b"; v] -> XS (OVal (VBit (v = "1")))
  | ["bits"; v] -> XS (OVal (VBits (bits_of_str v)))
  | ["bytes"; v] -> XS (OVal (VBytes (bytes_of_hex v)))
  | ["str"; v] -> XS (OString (bytes_of_hex v))
  | ["ref"; i] -> XS (OVal (VRef trees.(int_of_string i)))
  | ["mref"; "n"] -> XS (OVal (VMaybeRef None))
  | ["mref"; i] -> XS (OVal (VMaybeRef (Some trees.(int_of_string i))))
  | "addr" :: f -> XS (OVal (VAddr (parse_addr f)))
  | ["cell"; i] -> XS (OCell trees.(int_of_string i))
  | ["slice"; i; sb; sr] ->
    let s = begin_parse trees.(int_of_string i) in
    let rec drop k l = if k = 0 then l else (match l with [] -> [] | _ :: r -> drop (k - 1) r) in
    XS (OSlice { s_bits = drop (int_of_string sb) s.s_bits; s_refs = drop (int_of_string sr) s.s_refs })
  | ["snake"; v] -> XSnake (bytes_of_hex v)
  | _ -> failwith ("op " ^ t)
let parse_ty (t : String.t) : ttype =
  match colon t with
  | ["u"; w] -> TUint (z_of_hex w) | ["i"; w] -> TInt (z_of_hex w)
  | ["vu"; k] -> TVarUint (z_of_hex k) | ["vi"; k] -> TVarInt (z_of_hex k)
  | ["c"] -> TCoins | ["b"] -> TBit
  | ["bits"; n] -> TBits (nat_of_int (int_of_string n)) | ["bytes"; n] -> TBytes (nat_of_int (int_of_string n))
  | ["ref"] -> TRef | ["mref"] -> TMaybeRef | ["addr"] -> TAddr
  | _ -> failwith ("ty " ^ t)
let show_val = function
  | VUint (_, v) | VInt (_, v) | VVarUint (_, v) | VVarInt (_, v) | VCoins v -> hex_of_z v
  | VBit b -> if b then "1" else "0"
  | VBits l -> str_of_bits l
  | VBytes bs -> hex_of_bytes bs
  | VRef c -> cell_tag c
  | VMaybeRef None -> "n"
  | VMaybeRef (Some c) -> cell_tag c
  | VAddr a -> show_addr a

(* ---- dictionaries ---- *)
let rec cell_text (c : cell) : String.t =
  let Cell (ty, bits, refs) = c in
  Printf.sprintf "[%s%s%s]" (if ty = Zneg XH then "" else string_of_int (int_of_z ty) ^ "!")
    (str_of_bits bits) (String.concat "" (List.map cell_text refs))
let parse_kv (trees : cell array) (t : String.t) =
  match String.split_on_char ';' t with
  | [k; vb; vr] ->
    (bits_of_str k, (bits_of_str vb, if vr = "" then [] else List.map (fun i -> trees.(int_of_string i)) (String.split_on_char ',' vr)))
  | _ -> failwith "kv"
let show_leaf (k, (s : slice0)) =
  Printf.sprintf "%s=%s/%s" (str_of_bits k) (str_of_bits s.s_bits) (commas cell_tag s.s_refs)
let kind_char = function KShort -> 's' | KLong -> 'l' | KSame -> 'e'

(* ---- Coq strings and Python values (TL-B decision trees) ---- *)
let ocaml_of_coq (s : Model.string) : String.t =
  let buf = Buffer.create 16 in
  let rec go = function
    | EmptyString -> ()
    | String (Ascii (b0,b1,b2,b3,b4,b5,b6,b7), r) ->
      let bit b k = if b then 1 lsl k else 0 in
      Buffer.add_char buf (Char.chr (bit b0 0 + bit b1 1 + bit b2 2 + bit b3 3 + bit b4 4 + bit b5 5 + bit b6 6 + bit b7 7));
      go r in
  go s; Buffer.contents buf
let coq_of_ocaml (s : String.t) : Model.string =
  let n = String.length s in
  let rec go i = if i = n then EmptyString else
      let c = Char.code s.[i] in
      let b k = (c lsr k) land 1 = 1 in
      String (Ascii (b 0, b 1, b 2, b 3, b 4, b 5, b 6, b 7), go (i + 1)) in
  go 0
let rec show_pv (v : pv) : String.t =
  match v with
  | PInt z -> hex_of_z z
  | PBool b -> if b then "T" else "F"
  | PBytes l -> "b" ^ hex_of_bytes l
  | PBits l -> "s" ^ str_of_bits l
  | PStr s -> "\"" ^ ocaml_of_coq s ^ "\""
  | PNone -> "~"
  | PAddr AddrNone -> "~"
  | PAddr a -> "@" ^ String.map (fun c -> if c = ':' then '/' else c) (show_addr a)
  | PCell c -> cell_tag c
  | PSlice s -> Printf.sprintf "sl%d/%d" (List.length s.s_bits) (List.length s.s_refs)
  | PObj (cls, fs) ->
    ocaml_of_coq cls ^ "{" ^ String.concat ";" (List.map (fun (n, x) -> ocaml_of_coq n ^ "=" ^ show_pv x) fs) ^ "}"
  | PList l -> "[" ^ String.concat "," (List.map show_pv l) ^ "]"
  | PDict l -> "<" ^ String.concat "," (List.map (fun (k, x) -> hex_of_z k ^ ":" ^ show_pv x) l) ^ ">"
  | PHex l -> "x" ^ hex_of_bytes l
  | PAugDict (l, ex) -> "<aug>"
  | PDerived -> "?"

(* ---- messages (C15) ---- *)
let bar s = String.split_on_char '|' s
let parse_ec (s : String.t) : (z * z) list =
  if s = "-" then [] else
    List.map (fun kv -> match String.split_on_char '=' kv with [k; v] -> (z_of_hex k, z_of_hex v) | _ -> failwith "ec")
      (String.split_on_char ',' s)
let parse_info (t : String.t) : msg_info =
  match bar t with
  | ["int"; fl; src; dst; g; ec; ihr; fwd; lt; at_] ->
    IntInfo (fl.[0] = '1', fl.[1] = '1', fl.[2] = '1', parse_addr (colon src), parse_addr (colon dst), z_of_hex g,
             parse_ec ec, z_of_hex ihr, z_of_hex fwd, z_of_hex lt, z_of_hex at_)
  | ["extin"; src; dst; fee] -> ExtInInfo (parse_addr (colon src), parse_addr (colon dst), z_of_hex fee)
  | ["extout"; src; dst; lt; at_] -> ExtOutInfo (parse_addr (colon src), parse_addr (colon dst), z_of_hex lt, z_of_hex at_)
  | _ -> failwith "info"
let show_ec ec = if ec = [] then "-" else String.concat "," (List.map (fun (k, v) -> hex_of_z k ^ "=" ^ hex_of_z v) ec)
let b01 b = if b then "1" else "0"
let show_info = function
  | IntInfo (d, b, bd, src, dst, g, ec, ihr, fwd, lt, at_) ->
    String.concat "|" ["int"; b01 d ^ b01 b ^ b01 bd; show_addr src; show_addr dst; hex_of_z g; show_ec ec; hex_of_z ihr;
                       hex_of_z fwd; hex_of_z lt; hex_of_z at_]
  | ExtInInfo (src, dst, fee) -> String.concat "|" ["extin"; show_addr src; show_addr dst; hex_of_z fee]
  | ExtOutInfo (src, dst, lt, at_) -> String.concat "|" ["extout"; show_addr src; show_addr dst; hex_of_z lt; hex_of_z at_]
let parse_init (trees : cell array) (t : String.t) : state_init option =
  if t = "-" then None else
    match bar t with
    | [sd; sp; co; da; li] ->
      let oc x = if x = "-" then None else Some trees.(int_of_string x) in
      Some { si_split_depth = (if sd = "-" then None else Some (z_of_hex sd));
             si_special = (if sp = "-" then None else Some (sp.[0] = '1', sp.[1] = '1'));
             si_code = oc co; si_data = oc da; si_library = oc li }
    | _ -> failwith "init"
let show_init = function
  | None -> "-"
  | Some si ->
    let oc = function None -> "-" | Some c -> cell_text c in
    String.concat "|" [(match si.si_split_depth with None -> "-" | Some d -> hex_of_z d);
                       (match si.si_special with None -> "-" | Some (a, b) -> b01 a ^ b01 b);
                       oc si.si_code; oc si.si_data; oc si.si_library]

(* ---- TVM stack values (C17): token syntax
   n | i:<hex> | c:<idx> | s:<idx>:<skipbits>:<skiprefs> | b:<idx> | t[ v* ] | k <cont>
   cont: q:<hex> | x | p:<hex> cont | r:<hex> cont cont | u cont cont | a cont | w cont cont cont | W cont cont cont *)
let rec parse_cont (toks : String.t list) : vmcont * String.t list =
  match toks with
  | t :: r ->
    (match colon t with
     | ["q"; h] -> (CQuit (z_of_hex h), r)
     | ["x"] -> (CQuitExc, r)
     | ["p"; h] -> let (k, r1) = parse_cont r in (CPushInt (z_of_hex h, k), r1)
     | ["r"; h] -> let (b, r1) = parse_cont r in let (a, r2) = parse_cont r1 in (CRepeat (z_of_hex h, b, a), r2)
     | ["u"] -> let (b, r1) = parse_cont r in let (a, r2) = parse_cont r1 in (CUntil (b, a), r2)
     | ["a"] -> let (b, r1) = parse_cont r in (CAgain b, r1)
     | ["w"] -> let (c, r1) = parse_cont r in let (b, r2) = parse_cont r1 in let (a, r3) = parse_cont r2 in (CWhileCond (c, b, a), r3)
     | ["W"] -> let (c, r1) = parse_cont r in let (b, r2) = parse_cont r1 in let (a, r3) = parse_cont r2 in (CWhileBody (c, b, a), r3)
     | _ -> failwith "cont")
  | [] -> failwith "cont"
let rec drop k l = if k = 0 then l else (match l with [] -> [] | _ :: r -> drop (k - 1) r)
let rec parse_vals (trees : cell array) (toks : String.t list) (stop : bool) : vmval list * String.t list =
  match toks with
  | [] -> ([], [])
  | "]" :: r when stop -> ([], r)
  | t :: r ->
    let (v, r1) =
      (match colon t with
       | ["n"] -> (VmNull, r)
       | ["i"; h] -> (VmInt (z_of_hex h), r)
       | ["c"; i] -> (VmCellV trees.(int_of_string i), r)
       | ["s"; i; sb; sr] ->
         let Cell (_, bits, refs) = trees.(int_of_string i) in
         (VmSliceV (drop (int_of_string sb) bits, drop (int_of_string sr) refs), r)
       | ["b"; i] -> let Cell (_, bits, refs) = trees.(int_of_string i) in (VmBuilderV (bits, refs), r)
       | ["t["] -> let (l, r2) = parse_vals trees r true in (VmTupleV l, r2)
       | ["k"] -> let (k, r2) = parse_cont r in (VmContV k, r2)
       | _ -> failwith ("vmval " ^ t)) in
    let (rest, r3) = parse_vals trees r1 stop in
    (v :: rest, r3)
let rec show_cont = function
  | CQuit z -> "q:" ^ hex_of_z z
  | CQuitExc -> "x"
  | CPushInt (v, k) -> "p:" ^ hex_of_z v ^ " " ^ show_cont k
  | CRepeat (n, b, a) -> "r:" ^ hex_of_z n ^ " " ^ show_cont b ^ " " ^ show_cont a
  | CUntil (b, a) -> "u " ^ show_cont b ^ " " ^ show_cont a
  | CAgain b -> "a " ^ show_cont b
  | CWhileCond (c, b, a) -> "w " ^ show_cont c ^ " " ^ show_cont b ^ " " ^ show_cont a
  | CWhileBody (c, b, a) -> "W " ^ show_cont c ^ " " ^ show_cont b ^ " " ^ show_cont a
let rec show_vm = function
  | VmNull -> "n"
  | VmInt z -> "i:" ^ hex_of_z z
  | VmCellV c -> "c:" ^ cell_text c
  | VmSliceV (bits, refs) -> "s:" ^ str_of_bits bits ^ "/" ^ String.concat "" (List.map cell_text refs)
  | VmBuilderV (bits, refs) -> "b:" ^ str_of_bits bits ^ "/" ^ String.concat "" (List.map cell_text refs)
  | VmTupleV l -> "t[ " ^ String.concat "" (List.map (fun v -> show_vm v ^ " ") l) ^ "]"
  | VmContV k -> "k " ^ show_cont k

(* ---- TL values (C14): tokens  i:<hex> | T | F | b:<hex> | s:<hex> | x:<hex> | n | { type field value ... } | [ v ... ] *)
let rec parse_tv (toks : String.t list) : tv * String.t list =
  match toks with
  | "T" :: r -> (TVBool true, r) | "F" :: r -> (TVBool false, r) | "n" :: r -> (TVNone, r)
  | "{" :: ty :: r ->
    let rec fields l acc = (match l with
        | "}" :: r2 -> (List.rev acc, r2)
        | k :: r2 -> let (v, r3) = parse_tv r2 in fields r3 ((coq_of_ocaml k, v) :: acc)
        | [] -> failwith "tvobj") in
    let (fs, r2) = fields r [] in (TVObj (coq_of_ocaml ty, fs), r2)
  | "[" :: r ->
    let rec items l acc = (match l with
        | "]" :: r2 -> (List.rev acc, r2)
        | _ -> let (v, r3) = parse_tv l in items r3 (v :: acc)) in
    let (vs, r2) = items r [] in (TVVec vs, r2)
  | t :: r ->
    (match colon t with
     | ["i"; h] -> (TVInt (z_of_hex h), r)
     | ["b"; h] -> (TVBytes (bytes_of_hex h), r)
     | ["s"; h] -> (TVStr (bytes_of_hex h), r)
     | ["x"; h] -> (TVHex (bytes_of_hex h), r)
     | _ -> failwith ("tv " ^ t))
  | [] -> failwith "tv"
let rec show_tv (v : tv) : String.t =
  match v with
  | TVInt z -> "i:" ^ hex_of_z z | TVBool b -> if b then "T" else "F"
  | TVBytes l -> "b:" ^ hex_of_bytes l | TVStr l -> "s:" ^ hex_of_bytes l | TVHex l -> "x:" ^ hex_of_bytes l
  | TVNone -> "n"
  | TVObj (ty, fs) ->
    "{ " ^ (let t = ocaml_of_coq ty in if t = "" then "-" else t) ^ " " ^
    String.concat "" (List.map (fun (k, x) -> ocaml_of_coq k ^ " " ^ show_tv x ^ " ") fs) ^ "}"
  | TVVec l -> "[ " ^ String.concat "" (List.map (fun x -> show_tv x ^ " ") l) ^ "]"
