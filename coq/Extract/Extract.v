(* One extraction file. ExtrOcamlBasic only: N, Z, positive, nat stay the Coq inductive types. *)
From Coq Require Extraction.
From Coq Require Import ExtrOcamlBasic.
From Coq Require Import NArith ZArith List.
From PTQ Require Import Base.Bytes Base.Result Base.Bits Base.Sha256 Spec.Crc Model.Crc Model.Cell Spec.CellRepr Model.Inst.

Extraction "Extract/model.ml"
  N.add N.mul N.of_nat N.to_nat Z.add Z.mul Z.opp Z.of_N Z.to_N
  err result bind crc16 crc32c s_crc16 s_crc32c
  sha256 of_bits to_bits of_be be_bytes bits_to_bytes bytes_to_bits
  cell kcell k_ty k_bits k_refs k_mask k_hashes k_depths k_hash cell_eqb cell_pyhash
  get_hash get_depth mk_cell_sha build_sha repr_hash_sha
  s_depth s_mask s_hash_sha s_hd_sha s_prune_sha.
