(* One extraction file. ExtrOcamlBasic only: N, Z, positive, nat stay the Coq inductive types. *)
From Coq Require Extraction.
From Coq Require Import ExtrOcamlBasic.
From Coq Require Import NArith ZArith List.
From PTQ Require Import Base.Bytes Base.Result Base.Bits Base.Sha256 Spec.Crc Model.Crc Model.Cell Spec.CellRepr Model.Inst Model.Builder Model.Typed Spec.TlbPrim Spec.TlbVal Model.Hashmap Spec.Hashmap Model.Address Model.Signatures Model.Adnl Model.Boc Spec.BocFormat Model.Proof Model.Dtree Gen.TlbImpl GenCommitted.TlbImplRef Model.Message Spec.MessageSpec Model.VmStack Model.Cost Model.Heap Model.Tl Gen.TlSchemaTable.

Definition boc_deserialize := PTQ.Model.Boc.deserialize.
Definition tl_deserialize := PTQ.Model.Tl.deserialize.
Definition tl_serialize := PTQ.Model.Tl.serialize.

Extraction "Extract/model.ml"
  N.add N.mul N.of_nat N.to_nat Z.add Z.mul Z.opp Z.of_N Z.to_N
  err result bind crc16 crc32c s_crc16 s_crc32c
  sha256 of_bits to_bits of_be be_bytes bits_to_bytes bytes_to_bits
  cell kcell k_ty k_bits k_refs k_mask k_hashes k_depths k_hash cell_eqb cell_pyhash
  get_hash get_depth mk_cell_sha build_sha repr_hash_sha
  s_depth s_mask s_hash_sha s_hd_sha s_prune_sha
  builder slice addr tval ttype b_empty store1 load1 preload1 store_all load_all ty_of b_end_cell begin_parse
  b_store_snake s_load_snake b_store_cell b_store_slice b_store_string s_skip s_load_ref s_to_cell
  s_enc s_refs_of tval_ok sop sstep
  serialize_dict key_bits dict_set parse_hashmap hashmap_parse s_load_dict parse_aug_edge parse_fuel parse_edge_c
  detect_label_type s_label_kind nbitlen
  address address_of_str to_str address_eqb address_pyhash
  vdesc check_block_signatures node_id_short to_sign
  channel mk_channel cipher_params encrypt decrypt get_key_aes_id
  check_proof check_block_header_proof check_account_hashes
  pv dtree run_type impl_table ref_table
  msg_info state_init ser_message ser_info ser_state_init ser_currency ser_hash_update
  s_dec_message s_dec_state_init s_dec_currency s_dec_hash_update
  vmval vmcont ser_stack dec_stack
  order_visits
  op heap run_ops obj_view view
  tv tl_ctor tl_serialize tl_deserialize tl_table block_id_to_bytes block_id_from_bytes
  boc_input boc_normalize one_from_boc_in slice_one_from_boc_in builder_one_from_boc_in
  order to_boc boc_deserialize deserialize_boc_header s_parse s_decode s_all_cells nodup_trees tree_eqb k_tree.
