(* One extraction file. ExtrOcamlBasic only: N, Z, positive, nat stay the Coq inductive types. *)
From Coq Require Extraction.
From Coq Require Import ExtrOcamlBasic.
From Coq Require Import NArith ZArith List.
From PTQ Require Import Base.Bytes Base.Result Spec.Crc Model.Crc.

Extraction "Extract/model.ml"
  N.add N.mul N.of_nat N.to_nat Z.add Z.mul Z.opp Z.of_N Z.to_N
  err result bind crc16 crc32c s_crc16 s_crc32c.
