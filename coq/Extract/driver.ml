(* Reads one operation per line on stdin, prints one canonical result per line. *)
open Model
open Driver_lib

let handle (toks : string list) : string =
  match toks with
  | ["crc16"; h] -> hex_of_bytes (crc16 (bytes_of_hex h))
  | ["crc32c"; h; o] -> hex_of_bytes (crc32c (bytes_of_hex h) (o = "big"))
  | ["s_crc16"; h] -> hex_of_bytes (s_crc16 (bytes_of_hex h))
  | ["s_crc32c"; h; o] -> hex_of_bytes (s_crc32c (bytes_of_hex h) (o = "big"))
  | _ -> "?badop"

let () =
  try
    while true do
      let line = input_line stdin in
      let out = try handle (split_ws line) with
        | Stack_overflow -> "?stackoverflow"
        | Failure m -> "?failure " ^ m
        | Not_found -> "?notfound" in
      print_string out; print_newline ()
    done
  with End_of_file -> ()
