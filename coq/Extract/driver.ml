(* Reads one operation per line on stdin, prints one canonical result per line. *)
open Model
open Driver_lib

let handle (toks : string list) : string =
  match toks with
  | ["crc16"; h] -> hex_of_bytes (crc16 (bytes_of_hex h))
  | ["crc32c"; h; o] -> hex_of_bytes (crc32c (bytes_of_hex h) (o = "big"))
  | ["s_crc16"; h] -> hex_of_bytes (s_crc16 (bytes_of_hex h))
  | ["s_crc32c"; h; o] -> hex_of_bytes (s_crc32c (bytes_of_hex h) (o = "big"))
  | "cell_info" :: rest ->
    let (ns, _) = parse_dag rest in
    (match build_dag ns with
     | Err e -> "err " ^ err_name e
     | Ok ks ->
       let k = ks.(Array.length ks - 1) in
       let lv = [0;1;2;3] in
       let gh = List.map (fun l -> show_res_c hex_of_bytes (get_hash k (n_of_int l))) lv in
       let gd = List.map (fun l -> show_res_c dec_of_n (get_depth k (n_of_int l))) lv in
       Printf.sprintf "ok mask=%d hashes=%s depths=%s gh=%s gd=%s repr=%s pyhash=%s"
         (int_of_n (k_mask k)) (commas hex_of_bytes (k_hashes k)) (commas dec_of_n (k_depths k))
         (String.concat "," gh) (String.concat "," gd)
         (show_res_c hex_of_bytes (repr_hash_sha k)) (hex_of_n (cell_pyhash k)))
  | "s_cell_info" :: rest ->
    let (ns, _) = parse_dag rest in
    let ts = tree_of_dag ns in
    let t = ts.(Array.length ts - 1) in
    let lv = [0;1;2;3] in
    Printf.sprintf "mask=%d gh=%s gd=%s"
      (int_of_n (s_mask t))
      (String.concat "," (List.map (fun l -> hex_of_bytes (fst (s_hd_sha t (nat_of_int l)))) lv))
      (String.concat "," (List.map (fun l -> dec_of_n (snd (s_hd_sha t (nat_of_int l)))) lv))
  | "s_ord_info" :: rest ->
    let (ns, _) = parse_dag rest in
    let ts = tree_of_dag ns in
    let t = ts.(Array.length ts - 1) in
    Printf.sprintf "hash=%s depth=%s" (hex_of_bytes (s_hash_sha t)) (dec_of_n (s_depth t))
  | ["sha256"; h] -> hex_of_bytes (sha256 (bytes_of_hex h))
  | _ -> "?badop"

let () =
  try
    while true do
      let line = input_line stdin in
      let out = try handle (split_ws line) with
        | Stack_overflow -> "?stackoverflow"
        | Failure m -> "?failure " ^ m
        | Not_found -> "?notfound" in
      print_string out; print_newline ()
    done
  with End_of_file -> ()
