(* Reads one operation per line on stdin, prints one canonical result per line. *)
open Model
open Driver_lib

type 'a runres = ROk of 'a | RErr of int * err

let handle (toks : String.t list) : String.t =
  match toks with
  | ["crc16"; h] -> hex_of_bytes (crc16 (bytes_of_hex h))
  | ["crc32c"; h; o] -> hex_of_bytes (crc32c (bytes_of_hex h) (o = "big"))
  | ["s_crc16"; h] -> hex_of_bytes (s_crc16 (bytes_of_hex h))
  | ["s_crc32c"; h; o] -> hex_of_bytes (s_crc32c (bytes_of_hex h) (o = "big"))
  | "cell_info" :: rest ->
    let (ns, _) = parse_dag rest in
    (match build_dag ns with
     | Err e -> "err " ^ err_name e
     | Ok ks ->
       let k = ks.(Array.length ks - 1) in
       let lv = [0;1;2;3] in
       let gh = List.map (fun l -> show_res_c hex_of_bytes (get_hash k (n_of_int l))) lv in
       let gd = List.map (fun l -> show_res_c dec_of_n (get_depth k (n_of_int l))) lv in
       Printf.sprintf "ok mask=%d hashes=%s depths=%s gh=%s gd=%s repr=%s pyhash=%s"
         (int_of_n (k_mask k)) (commas hex_of_bytes (k_hashes k)) (commas dec_of_n (k_depths k))
         (String.concat "," gh) (String.concat "," gd)
         (show_res_c hex_of_bytes (repr_hash_sha k)) (hex_of_n (cell_pyhash k)))
  | "s_cell_info" :: rest ->
    let (ns, _) = parse_dag rest in
    let ts = tree_of_dag ns in
    let t = ts.(Array.length ts - 1) in
    let lv = [0;1;2;3] in
    Printf.sprintf "mask=%d gh=%s gd=%s"
      (int_of_n (s_mask t))
      (String.concat "," (List.map (fun l -> hex_of_bytes (fst (s_hd_sha t (nat_of_int l)))) lv))
      (String.concat "," (List.map (fun l -> dec_of_n (snd (s_hd_sha t (nat_of_int l)))) lv))
  | "s_ord_info" :: rest ->
    let (ns, _) = parse_dag rest in
    let ts = tree_of_dag ns in
    let t = ts.(Array.length ts - 1) in
    Printf.sprintf "hash=%s depth=%s" (hex_of_bytes (s_hash_sha t)) (dec_of_n (s_depth t))
  | "rt" :: rest ->
    let (ns, ops) = parse_dag rest in
    let trees = tree_of_dag ns in
    let ops = List.map (parse_op trees) ops in
    let rec run b k = function
      | [] -> ROk b
      | XS o :: r -> (match sstep b o with Ok b' -> run b' (k + 1) r | Err e -> RErr (k, e))
      | XSnake bs :: r ->
        (match b_store_snake (nat_of_int 1100) b bs with Ok b' -> run b' (k + 1) r | Err e -> RErr (k, e)) in
    (match run b_empty 0 ops with
     | RErr (k, e) -> Printf.sprintf "err@%d %s" k (err_name e)
     | ROk b ->
       let all_vals = List.for_all (function XS (OVal _) -> true | _ -> false) ops in
       let vals = List.filter_map (function XS (OVal v) -> Some v | _ -> None) ops in
       let head = Printf.sprintf "ok bits=%s refs=%s" (str_of_bits b.b_bits) (commas cell_tag b.b_refs) in
       if not all_vals then head ^ " loads=-" else
         let specbits = List.concat_map s_enc vals in
         let valid = List.for_all tval_ok vals in
         let senc = if not valid then "na" else if specbits = b.b_bits then "1" else "0" in
         (match b_end_cell b with
          | Err e -> head ^ " endcell=err"
          | Ok c ->
            let rec loads s acc peek_ok = function
              | [] -> (List.rev acc, s, peek_ok)
              | t :: r ->
                (match load1 s t with
                 | Err e -> (List.rev (("err:" ^ err_name e) :: acc), s, peek_ok)
                 | Ok (v, s') ->
                   let pk = (match preload1 s t with Ok v' -> show_val v' = show_val v | Err _ -> false) in
                   loads s' (show_val v :: acc) (peek_ok && pk) r) in
            let (ls, s, pk) = loads (begin_parse c) [] true (List.map ty_of vals) in
            Printf.sprintf "%s loads=%s rest=%d/%d peek=%s senc=%s" head
              (if ls = [] then "-" else String.concat "|" ls)
              (List.length s.s_bits) (List.length s.s_refs) (if pk then "1" else "0") senc))
  | "hm_ser" :: n :: rest ->
    let (ns, kvs) = parse_dag rest in
    let trees = tree_of_dag ns in
    let n = int_of_string n in
    (* insertion sequence with dict semantics: last write wins, first position kept *)
    let d = List.fold_left (fun d t -> let (k, v) = parse_kv trees t in dict_set d k v) [] kvs in
    (match serialize_dict d (nat_of_int n) with
     | Err e -> "err " ^ err_name e
     | Ok None -> "ok none"
     | Ok (Some c) -> "ok " ^ cell_text c)
  | "hm_rt" :: n :: rest ->
    let (ns, kvs) = parse_dag rest in
    let trees = tree_of_dag ns in
    let n = int_of_string n in
    let d = List.fold_left (fun d t -> let (k, v) = parse_kv trees t in dict_set d k v) [] kvs in
    (match serialize_dict d (nat_of_int n) with
     | Err e -> "err " ^ err_name e
     | Ok None -> "ok none"
     | Ok (Some (Cell (ty, bits, refs))) ->
       (match parse_hashmap ty { s_bits = bits; s_refs = refs } (z_of_int n) with
        | Err e -> "err " ^ err_name e
        | Ok ls -> "ok " ^ (if ls = [] then "-" else String.concat "," (List.map show_leaf ls))))
  | "hm_parse" :: n :: rest ->
    let (ns, args) = parse_dag rest in
    let trees = tree_of_dag ns in
    let Cell (ty, bits, refs) = trees.(Array.length trees - 1) in
    (match hashmap_parse ty { s_bits = bits; s_refs = refs } (z_of_int (int_of_string n)) with
     | Err e -> "err " ^ err_name e
     | Ok None -> "ok none"
     | Ok (Some ls) -> "ok " ^ (if ls = [] then "-" else String.concat "," (List.map show_leaf ls)))
  | "hm_visits" :: n :: rest ->
    let (ns, args) = parse_dag rest in
    let trees = tree_of_dag ns in
    let Cell (ty, bits, refs) = trees.(Array.length trees - 1) in
    (match parse_edge_c parse_fuel ty { s_bits = bits; s_refs = refs } (z_of_int (int_of_string n)) [] with
     | Err e -> "err " ^ err_name e
     | Ok (ls, (v, z)) -> Printf.sprintf "ok %d %d %d" (List.length ls) (int_of_nat v) (int_of_nat z))
  | "hm_parse_aug" :: n :: ylen :: rest ->
    let (ns, args) = parse_dag rest in
    let trees = tree_of_dag ns in
    let Cell (ty, bits, refs) = trees.(Array.length trees - 1) in
    (match parse_aug_edge parse_fuel (nat_of_int (int_of_string ylen)) ty { s_bits = bits; s_refs = refs }
             (z_of_int (int_of_string n)) [] with
     | Err e -> "err " ^ err_name e
     | Ok (ls, ex) -> Printf.sprintf "ok %s extras=%s" (if ls = [] then "-" else String.concat "," (List.map show_leaf ls))
                        (commas str_of_bits ex))
  | ["hm_kinds"; m] ->
    (* for n = 0..m: model kind and reference kind, for an all-same label and a mixed one *)
    let m = int_of_string m in
    let buf = Buffer.create 4096 in
    for n = 0 to m do
      let same = List.init n (fun _ -> true) in
      let mixed = List.init n (fun i -> i = 0) in
      List.iter (fun l ->
          Buffer.add_char buf (kind_char (detect_label_type l (nat_of_int m)));
          Buffer.add_char buf (kind_char (s_label_kind l (nat_of_int m)))) [same; mixed]
    done;
    Buffer.contents buf
  | ["hm_key"; n; k] ->
    show_res str_of_bits (key_bits (nat_of_int (int_of_string n)) (z_of_hex k))
  | ["addr_parse"; h] ->
    (match address_of_str (bytes_of_hex h) with
     | Err e -> "err " ^ err_name e
     | Ok a -> Printf.sprintf "ok %s %s %d %d pyhash=%s" (hex_of_z a.a_wc) (hex_of_bytes a.a_hash)
                 (if a.a_bounceable then 1 else 0) (if a.a_test_only then 1 else 0) (hex_of_z (address_pyhash a)))
  | ["addr_str"; wc; h; f; u; b; t] ->
    show_res hex_of_bytes (to_str (z_of_hex wc) (bytes_of_hex h) (f = "1") (u = "1") (b = "1") (t = "1"))
  | "sigs" :: root :: file :: rest ->
    (* sigs root file N pk:weight.. M id:sig.. K pk:sig.. (K = pairs the real verifier accepts) *)
    let take l = match l with n :: r -> let n = int_of_string n in
        let rec go k l acc = if k = 0 then (List.rev acc, l) else (match l with x :: r -> go (k-1) r (x :: acc) | [] -> failwith "sigs") in
        go n r [] | [] -> failwith "sigs" in
    let (ns, r1) = take rest in
    let (ss, r2) = take r1 in
    let (vs, _) = take r2 in
    let pair t = match String.split_on_char ':' t with [a; b] -> (a, b) | _ -> failwith "pair" in
    let nodes = List.map (fun t -> let (pk, w) = pair t in { v_pk = bytes_of_hex pk; v_weight = n_of_hex w }) ns in
    let sigs = List.map (fun t -> let (id, sg) = pair t in (bytes_of_hex id, bytes_of_hex sg)) ss in
    let valid = List.map (fun t -> let (pk, sg) = pair t in (bytes_of_hex pk, bytes_of_hex sg)) vs in
    let verify pk _ sg = List.mem (pk, sg) valid in
    (match check_block_signatures sha256 verify nodes sigs (bytes_of_hex root) (bytes_of_hex file) with
     | Ok _ -> "ok" | Err e -> "err " ^ err_name e)
  | ["nodeid"; pk] -> hex_of_bytes (node_id_short sha256 (bytes_of_hex pk))
  | ["adnl"; shared; ida; idb; msg] ->
    (* observables of AdnlChannel(local id = ida, peer id = idb) given the ECDH result *)
    let dh _ _ = bytes_of_hex shared in
    let ch = mk_channel sha256 dh [] [] (bytes_of_hex ida) (bytes_of_hex idb) in
    let m = bytes_of_hex msg in
    let cs = sha256 m in
    let show = function Ok (k, iv) -> hex_of_bytes k ^ "/" ^ hex_of_bytes iv | Err e -> "err" in
    Printf.sprintf "enc=%s dec=%s cid=%s sid=%s cs=%s ekiv=%s dkiv=%s"
      (hex_of_bytes ch.enc_key) (hex_of_bytes ch.dec_key) (hex_of_bytes ch.client_key_id)
      (hex_of_bytes ch.server_key_id) (hex_of_bytes cs) (show (cipher_params ch.enc_key cs)) (show (cipher_params ch.dec_key cs))
  | "boc_ser" :: idx :: crc :: cache :: rest ->
    let (ns, _) = parse_dag rest in
    (match build_dag ns with
     | Err e -> "err " ^ err_name e
     | Ok ks -> show_res hex_of_bytes (to_boc ks.(Array.length ks - 1) (idx = "1") (crc = "1") (cache = "1")))
  | "boc_order" :: rest ->
    let (ns, _) = parse_dag rest in
    (match build_dag ns with
     | Err e -> "err " ^ err_name e
     | Ok ks -> "ok " ^ String.concat "," (List.map (fun k -> String.sub (hex_of_bytes (k_hash k)) 0 12) (order ks.(Array.length ks - 1))))
  | ["boc_norm"; codes] ->
    (* boc_norm c1,c2,...: Boc.__init__ on a str given by its code points *)
    let cs = if codes = "-" then [] else List.map (fun x -> n_of_int (int_of_string x)) (String.split_on_char ',' codes) in
    (match boc_normalize (InStr cs) with Ok d -> "ok " ^ hex_of_bytes d | Err e -> "err " ^ err_name e)
  | ["boc_in"; codes] ->
    (* the three entry points on a str input: root hash, slice view, builder view *)
    let cs = if codes = "-" then [] else List.map (fun x -> n_of_int (int_of_string x)) (String.split_on_char ',' codes) in
    let view = function Ok (b, r) -> Printf.sprintf "%s/%d" (str_of_bits b) (List.length r) | Err e -> "err" in
    (match one_from_boc_in sha256 (InStr cs) with
     | Err e -> "err " ^ err_name e
     | Ok k -> Printf.sprintf "ok %s slice=%s builder=%s" (hex_of_bytes (k_hash k))
                 (view (slice_one_from_boc_in sha256 (InStr cs))) (view (builder_one_from_boc_in sha256 (InStr cs))))
  | ["boc_parse"; h] ->
    (match boc_deserialize sha256 (bytes_of_hex h) with
     | Err e -> "err " ^ err_name e
     | Ok ks -> Printf.sprintf "ok %d %s" (List.length ks) (String.concat " " (List.map (fun k -> cell_text (k_tree k)) ks)))
  | ["boc_parse_hash"; h] ->
    (match boc_deserialize sha256 (bytes_of_hex h) with
     | Err e -> "err " ^ err_name e
     | Ok ks -> Printf.sprintf "ok %d %s" (List.length ks) (String.concat " " (List.map (fun k -> hex_of_bytes (k_hash k)) ks)))
  | ["s_boc"; h] ->
    let d = bytes_of_hex h in
    (match s_decode d with
     | None -> "none"
     | Some roots ->
       let nd = (match s_all_cells d with Some cs -> (if nodup_trees cs then "1" else "0") ^ Printf.sprintf " ncells=%d" (List.length cs) | None -> "?") in
       Printf.sprintf "some %d %s nodup=%s" (List.length roots) (String.concat " " (List.map cell_text roots)) nd)
  | "ckproof" :: h :: rest ->
    let (ns, _) = parse_dag rest in
    (match build_dag ns with
     | Err e -> "err build"
     | Ok ks -> (match check_proof ks.(Array.length ks - 1) (bytes_of_hex h) with Ok _ -> "ok" | Err e -> "err " ^ err_name e))
  | "hdrproof" :: h :: store :: rest ->
    let (ns, _) = parse_dag rest in
    (match build_dag ns with
     | Err e -> "err build"
     | Ok ks -> (match check_block_header_proof ks.(Array.length ks - 1) (bytes_of_hex h) (store = "1") with
         | Ok None -> "ok none" | Ok (Some x) -> "ok " ^ hex_of_bytes x | Err e -> "err " ^ err_name e))
  | "acchashes" :: h :: bp :: sp :: sa :: cl :: rest ->
    let (ns, _) = parse_dag rest in
    (match build_dag ns with
     | Err e -> "err build"
     | Ok ks ->
       let g i = ks.(int_of_string i) in
       (match check_account_hashes (g bp) (g sp) (g sa) (g cl) (bytes_of_hex h) with Ok _ -> "ok" | Err e -> "err " ^ err_name e))
  | ("tlb_run" as cmd) :: ty :: rest | ("tlb_run_ref" as cmd) :: ty :: rest ->
    (* tlb_run Type(args) <dag>: run the traced decision tree of Type on the root cell *)
    let (name, args) = (match String.index_opt ty '(' with
        | None -> (ty, [])
        | Some i -> (String.sub ty 0 i,
                     List.map (fun a -> z_of_int (int_of_string a))
                       (List.filter (fun x -> x <> "") (String.split_on_char ',' (String.sub ty (i + 1) (String.length ty - i - 2)))))) in
    let (ns, _) = parse_dag rest in
    let trees = tree_of_dag ns in
    (match run_type (if cmd = "tlb_run_ref" then ref_table else impl_table) (nat_of_int 400) (coq_of_ocaml name) args trees.(Array.length trees - 1) with
     | Err e -> "err " ^ err_name e
     | Ok (v, s) -> Printf.sprintf "ok %s rest=%d/%d" (show_pv v) (List.length s.s_bits) (List.length s.s_refs))
  | "msg_ser" :: info :: init :: body :: rest ->
    let (ns, _) = parse_dag rest in
    let trees = tree_of_dag ns in
    (match ser_message (parse_info info) (parse_init trees init) trees.(int_of_string body) with
     | Err e -> "err " ^ err_name e
     | Ok c -> "ok " ^ cell_text c)
  | "msg_dec" :: rest ->
    let (ns, _) = parse_dag rest in
    let trees = tree_of_dag ns in
    (match s_dec_message trees.(Array.length trees - 1) with
     | Err e -> "err " ^ err_name e
     | Ok ((info, init), body) -> Printf.sprintf "ok %s %s %s" (show_info info) (show_init init) (cell_text body))
  | "vm_ser" :: rest ->
    let (ns, vals) = parse_dag rest in
    let trees = tree_of_dag ns in
    let (vs, _) = parse_vals trees vals false in
    (match ser_stack (nat_of_int 200) vs with Err e -> "err " ^ err_name e | Ok c -> "ok " ^ cell_text c)
  | "vm_dec" :: rest ->
    let (ns, _) = parse_dag rest in
    let trees = tree_of_dag ns in
    let Cell (_, bits, refs) = trees.(Array.length trees - 1) in
    (match dec_stack (nat_of_int 200) { s_bits = bits; s_refs = refs } with
     | Err e -> "err " ^ err_name e
     | Ok vs -> "ok " ^ String.concat " " (List.map show_vm vs))
  | "order_cost" :: rest ->
    let (ns, _) = parse_dag rest in
    (match build_dag ns with
     | Err e -> "err " ^ err_name e
     | Ok ks -> let k = ks.(Array.length ks - 1) in
       Printf.sprintf "ok cells=%d visits=%d" (List.length (order k)) (int_of_nat (order_visits k)))
  | "heap" :: ops ->
    let ni x = nat_of_int (int_of_string x) in
    let parse t = (match colon t with
        | ["nb"] -> OpNewBuilder | ["ec"] -> OpEmptyCell
        | ["sb"; b; l] -> OpStoreBits (ni b, bits_of_str l) | ["sr"; b; c] -> OpStoreRef (ni b, ni c)
        | ["sc"; b; c] -> OpStoreCell (ni b, ni c) | ["ss"; b; s] -> OpStoreSlice (ni b, ni s)
        | ["end"; b] -> OpEndCell (ni b) | ["b2s"; b] -> OpBuilderToSlice (ni b) | ["bp"; c] -> OpBeginParse (ni c)
        | ["cp"; c] -> OpCellCopy (ni c) | ["tb"; c] -> OpToBuilder (ni c) | ["lb"; s; n] -> OpLoadBits (ni s, ni n)
        | ["lr"; s] -> OpLoadRef (ni s) | ["s2c"; s] -> OpSliceToCell (ni s) | ["scp"; s] -> OpSliceCopy (ni s)
        | ["s2b"; s] -> OpSliceToBuilder (ni s) | ["rd"; c] -> OpRead (ni c)
        | _ -> failwith "heapop") in
    let h = run_ops (List.map parse ops) in
    let n = List.length h.objs in
    let show i = (match obj_view h (nat_of_int i) with
        | VCell (b, r) -> "C" ^ str_of_bits b ^ "/" ^ commas (fun x -> string_of_int (int_of_nat x)) r
        | VSlice (b, r) -> "S" ^ str_of_bits b ^ "/" ^ commas (fun x -> string_of_int (int_of_nat x)) r
        | VBuilder (b, r) -> "B" ^ str_of_bits b ^ "/" ^ commas (fun x -> string_of_int (int_of_nat x)) r
        | VNothing -> "?") in
    "ok " ^ String.concat " " (List.init n show)
  | "tl_ser" :: rest ->
    (match parse_tv rest with
     | (TVObj (ty, fs), _) -> show_res hex_of_bytes (tl_serialize tl_table (nat_of_int 40) ty fs)
     | _ -> "?badvalue")
  | ["tl_des"; h] ->
    (match tl_deserialize tl_table (nat_of_int 40) (bytes_of_hex h) with
     | Err e -> "err " ^ err_name e
     | Ok (v, n) -> Printf.sprintf "ok %d %s" (int_of_nat n) (show_tv v))
  | "senc" :: rest ->
    let (ns, ops) = parse_dag rest in
    let trees = tree_of_dag ns in
    let ops = List.map (parse_op trees) ops in
    let vals = List.filter_map (function XS (OVal v) -> Some v | _ -> None) ops in
    Printf.sprintf "valid=%s bits=%s nrefs=%d"
      (String.concat "" (List.map (fun v -> if tval_ok v then "1" else "0") vals))
      (str_of_bits (List.concat_map s_enc vals))
      (List.length (List.concat_map s_refs_of vals))
  | "ld" :: rest ->
    let (ns, args) = parse_dag rest in
    let trees = tree_of_dag ns in
    (match args with
     | ci :: sb :: sr :: tys ->
       let s = begin_parse trees.(int_of_string ci) in
       let rec drop k l = if k = 0 then l else (match l with [] -> [] | _ :: r -> drop (k - 1) r) in
       let s = { s_bits = drop (int_of_string sb) s.s_bits; s_refs = drop (int_of_string sr) s.s_refs } in
       let rec go s k acc = function
         | [] -> Printf.sprintf "ok %s rest=%d/%d" (if acc = [] then "-" else String.concat "|" (List.rev acc))
                   (List.length s.s_bits) (List.length s.s_refs)
         | t :: r ->
           (match load1 s (parse_ty t) with
            | Err e -> Printf.sprintf "err@%d %s" k (err_name e)
            | Ok (v, s') -> go s' (k + 1) (show_val v :: acc) r) in
       go s 0 [] tys
     | _ -> "?badargs")
  | ["snake"; h] ->
    let bs = bytes_of_hex h in
    (match b_store_snake (nat_of_int 1100) b_empty bs with
     | Err e -> "err " ^ err_name e
     | Ok b ->
       let rec ncells (Cell (_, _, refs)) = (match refs with [] -> 1 | r :: _ -> 1 + ncells r) in
       (match b_end_cell b with
        | Err e -> "err " ^ err_name e
        | Ok c ->
          (match s_load_snake (nat_of_int 1100) (begin_parse c) with
           | Err e -> "err " ^ err_name e
           | Ok back -> Printf.sprintf "ok cells=%d back=%s" (ncells c) (if back = bs then "1" else "0"))))
  | ["sha256"; h] -> hex_of_bytes (sha256 (bytes_of_hex h))
  | _ -> "?badop"

let () =
  try
    while true do
      let line = input_line stdin in
      let out = try handle (split_ws line) with
        | Stack_overflow -> "?stackoverflow"
        | Failure m -> "?failure " ^ m
        | Not_found -> "?notfound" in
      print_string out; print_newline ()
    done
  with End_of_file -> ()
